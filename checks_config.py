# Per-property run specifications for the ./check driver.
# Each run: pkg (repo package dir; harness files in /verif/inpkg/<pkg>/cNN_*.go + common*.go),
# tests (go -test.run regexp), mode rapid|plain|fuzz, quick/thorough specs
# (checks, shards, timeout [s], mem_gb, steps, env), race.

PROPS = {}
NOT_APPLICABLE = {}

PROPS["C15"] = dict(
    technique="rapid property test + (thorough: exhaustive) structured enumeration against a bit-string reference model",
    level_text="Generated-input search: every clause of the statement (containment, equality, common supernet, base address, host-bit validity, bit-at-position, ordering, print/parse round trip) is compared with an independent bit-string model on random related prefix pairs and on the structured domain (3 bases x all length pairs x every single-bit flip), which the thorough tier enumerates completely. Exploration, not proof: random addresses outside the structured domain are sampled.",
    assumptions=["Contains is strict containment (callers test Equal separately)",
                 "GetSupernet judged only for incomparable canonical pairs (the trie's precondition)",
                 "IP.Compare judged within one address family"],
    runs=[
        dict(pkg="net", name="random", tests="^TestVerifC15Random$", mode="rapid",
             quick=dict(checks=60000), thorough=dict(checks=400000, shards=16)),
        dict(pkg="net", name="structured", tests="^TestVerifC15Structured$", mode="plain",
             quick=dict(shards=4), thorough=dict(shards=16)),
    ])

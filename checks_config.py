"""Loads per-property run specifications from /verif/config/C*.json.

Each file: {
  "technique": str, "level_text": str, "level_note": str (optional), "assumptions": [str],
  "runs": [ {
     "pkg": repo package dir (harness files: /verif/inpkg/<pkg>/cNN_*.go + common*.go;
            for mode "fuzz": directory under /verif/fuzz/),
     "name": label (unique per run within the property),
     "tests": go -test.run regexp (top-level test names, no '-' in names),
     "mode": "rapid" | "plain" | "fuzz",
     "race": bool, "thorough_only": bool, "env": {..},
     "files_for": ["C10","C18"]  (optional: also compile other properties' cNN_ files),
     "quick":    {"checks": N, "shards": K, "timeout": s, "mem_gb": g, "steps": n, "gomaxprocs": n, "env": {..}},
     "thorough": {... same keys; for fuzz: "fuzztime": "120s", "workers": 16}
  } ]
}
"""
import glob, json, os

_V = os.path.dirname(os.path.abspath(__file__))
PROPS = {}
for _f in sorted(glob.glob(os.path.join(_V, "config", "C*.json"))):
    PROPS[os.path.basename(_f)[:-5]] = json.load(open(_f))

# Properties that are deliberately not claimed, with the reason (everything else
# that has no config yet is reported as "not built yet").
NOT_APPLICABLE = {}
_na = os.path.join(_V, "config", "not_applicable.json")
if os.path.exists(_na):
    NOT_APPLICABLE = json.load(open(_na))

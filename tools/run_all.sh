#!/bin/bash
# usage: tools/run_all.sh "<ids>" [tier] [seed]   -> one summary line per property
cd "$(dirname "$0")/.."
tier=${2:-quick}; seed=${3:-1}
for p in $1; do
  out=$(VERIF_SEED=$seed ./check $p --tier $tier 2>/dev/null); rc=$?
  echo "$p rc=$rc $(echo "$out" | grep -E '^(OK|VIOLATION|KNOWN-FINDING)' | head -3 | tr '\n' ' ' | cut -c1-260)"
done

#!/usr/bin/env python3
"""Verify and import seeded changes produced by independent sub-agents.

  tools/seed_import.py Cxx [Cyy ...]

Reads /tmp/seedout-Cxx/{change<i>.diff,demo<i>_test.go,meta<i>.json}; in a scratch worktree of /repo HEAD confirms
(1) demo passes on the unchanged tree, (2) patch applies and the tree builds, (3) demo fails with the patch,
(4) the repository's full test suite passes with the patch (demo removed). Only then the change is kept as
/verif/seeded/Cxx-<i>/ (patch.diff, demo_test.go, meta.json)."""
import json, os, re, shutil, subprocess, sys, glob

V = os.path.dirname(os.path.dirname(os.path.abspath(__file__)))

def sh(cmd, cwd, timeout=1500):
    p = subprocess.run(cmd, shell=True, cwd=cwd, capture_output=True, text=True, timeout=timeout)
    return p.returncode, (p.stdout + p.stderr)

for pid in sys.argv[1:]:
    src = "/tmp/seedout-" + pid
    for mf in sorted(glob.glob(src + "/meta*.json")):
        i = re.search(r"meta(\d+)\.json", mf).group(1)
        sid = "%s-%s" % (pid, i)
        dst = os.path.join(V, "seeded", sid)
        if os.path.exists(dst):
            print(sid, "already imported"); continue
        meta = json.load(open(mf))
        patch = os.path.join(src, "change%s.diff" % i)
        demo = os.path.join(src, "demo%s_test.go" % i)
        pkg = meta.get("demo_pkg", "").strip("./")
        if not (os.path.exists(patch) and os.path.exists(demo) and pkg):
            print(sid, "INCOMPLETE deliverables"); continue
        wt = "/var/tmp/seedverify-" + sid
        subprocess.run(["git", "-C", "/repo", "worktree", "remove", "--force", wt], capture_output=True)
        shutil.rmtree(wt, ignore_errors=True)
        subprocess.run(["git", "-C", "/repo", "worktree", "add", "--detach", wt, "HEAD"], check=True, capture_output=True)
        ran = []
        try:
            demo_dst = os.path.join(wt, pkg, "zz_seed_demo_test.go")
            shutil.copy(demo, demo_dst)
            run = "go test -vet=off -count=1 -run 'Demo|Seed' ./%s/" % pkg
            m = re.search(r"-run[ =]'?\"?([^ '\"]+)", meta.get("demo_run", ""))
            if m:
                run = "go test -vet=off -count=1 -run '%s' ./%s/" % (m.group(1), pkg)
            if "-race" in meta.get("demo_run", ""):
                run = run.replace("go test ", "go test -race ")
            rc0, out0 = sh(run, wt)
            ran.append({"cmd": run + "   # unchanged tree", "rc": rc0})
            if rc0 != 0 or "no tests to run" in out0:
                print(sid, "REJECT: demo does not pass on the unchanged tree", out0[-400:]); continue
            rc, out = sh("git apply " + patch, wt)
            if rc != 0:
                print(sid, "REJECT: patch does not apply", out[-300:]); continue
            rc, out = sh("go build ./...", wt)
            if rc != 0:
                print(sid, "REJECT: does not build", out[-300:]); continue
            rc1, out1 = sh(run, wt)
            ran.append({"cmd": run + "   # with patch", "rc": rc1})
            if rc1 == 0:
                print(sid, "REJECT: demo passes with the patch"); continue
            os.remove(demo_dst)
            rc2, out2 = sh("go test -mod=mod -vet=off -count=1 -timeout 25m ./...", wt, timeout=2400)
            ran.append({"cmd": "go test -mod=mod -vet=off -count=1 ./...   # with patch, demo removed", "rc": rc2})
            if rc2 != 0:
                fails = [l for l in out2.splitlines() if l.startswith("--- FAIL") or l.startswith("FAIL")]
                # one retry: the repo has load-dependent flaky tests
                rc2, out2 = sh("go test -mod=mod -vet=off -count=1 -timeout 25m ./...", wt, timeout=2400)
                ran.append({"cmd": "retry full suite", "rc": rc2})
                if rc2 != 0:
                    print(sid, "REJECT: existing suite fails with the patch", fails[:5]); continue
            os.makedirs(dst)
            shutil.copy(patch, os.path.join(dst, "patch.diff"))
            shutil.copy(demo, os.path.join(dst, "demo_test.go"))
            meta.update({"id": sid, "property": pid, "needs_to_manifest": meta.get("needs", ""), "verified_by_coordinator": ran,
                         "base_commit": subprocess.run(["git", "-C", "/repo", "rev-parse", "--short", "HEAD"], capture_output=True, text=True).stdout.strip()})
            json.dump(meta, open(os.path.join(dst, "meta.json"), "w"), indent=1)
            print(sid, "KEPT:", meta.get("summary", "")[:140])
        finally:
            subprocess.run(["git", "-C", "/repo", "worktree", "remove", "--force", wt], capture_output=True)
            shutil.rmtree(wt, ignore_errors=True)

#!/usr/bin/env python3
"""Rewrites the commit ids in `fixed:` lines of known_findings.txt to the ids the
same commits (matched by subject) have on /repo's main branch after cherry-picking."""
import re, subprocess, sys
def git(*a):
    return subprocess.run(["git", "-C", "/repo"] + list(a), capture_output=True, text=True).stdout
main = {}
for line in git("log", "--format=%h\t%s", "main").splitlines():
    h, s = line.split("\t", 1)
    main.setdefault(s, h)
onmain = set(git("log", "--format=%h", "main").split())
p = "/verif/known_findings.txt"
out = []
for line in open(p):
    m = re.match(r"(fixed: property=\S+ )([0-9a-f]{7,40})( .*)", line.rstrip("\n"))
    if m:
        sha = m.group(2)
        short = git("rev-parse", "--short=8", sha).strip()
        if short and short not in onmain:
            subj = git("log", "-1", "--format=%s", sha).strip()
            if subj in main:
                line = m.group(1) + main[subj] + m.group(3) + "\n"
            else:
                print("NOT ON MAIN:", sha, subj, file=sys.stderr)
        elif not short:
            print("UNKNOWN SHA:", sha, file=sys.stderr)
    out.append(line)
open(p, "w").writelines(out)

#!/usr/bin/env python3
"""Resolve git conflict markers in a file by taking 'theirs' (or 'ours' with --ours) for every hunk."""
import sys
ours = "--ours" in sys.argv
path = [a for a in sys.argv[1:] if not a.startswith("--")][0]
out, state = [], None
for line in open(path):
    if line.startswith("<<<<<<< "):
        state = "ours"; continue
    if line.startswith("=======") and state == "ours":
        state = "theirs"; continue
    if line.startswith(">>>>>>> ") and state == "theirs":
        state = None; continue
    if state is None or (state == "ours" and ours) or (state == "theirs" and not ours):
        out.append(line)
open(path, "w").writelines(out)

#!/usr/bin/env python3
"""Runs the repository's own suite (guard off) and compares with /root/.vp/BASELINE.json stable_pass."""
import json, subprocess, sys, os
repo = os.environ.get("VERIF_REPO", "/repo")
base = json.load(open("/root/.vp/BASELINE.json"))
want = set(base["stable_pass"])
p = subprocess.run("go test -mod=mod -json -vet=off -count=1 -timeout 25m ./...", shell=True, cwd=repo, capture_output=True, text=True)
res = {}
for line in p.stdout.splitlines():
    try:
        e = json.loads(line)
    except Exception:
        continue
    if e.get("Action") in ("pass", "fail", "skip") and e.get("Test"):
        res["%s::%s" % (e["Package"], e["Test"])] = e["Action"]
missing = sorted(t for t in want if res.get(t) != "pass")
print("baseline stable_pass: %d, passing now: %d, not passing: %d" % (len(want), len(want) - len(missing), len(missing)))
for t in missing[:50]:
    print("  NOT PASSING:", t, res.get(t))
subprocess.run(["git", "-C", repo, "status", "--short"])
sys.exit(1 if missing else 0)

#!/usr/bin/env python3
"""Prints the markdown table of seeded changes (DESIGN.md §7) from /verif/seeded/*/meta.json and RESULTS.json."""
import json, os, glob
V = os.path.dirname(os.path.dirname(os.path.abspath(__file__)))
res = json.load(open(os.path.join(V, "seeded", "RESULTS.json")))
print("| id | property | change (needs to manifest) | caught by (quick tier) |")
print("|---|---|---|---|")
for d in sorted(glob.glob(os.path.join(V, "seeded", "C*-*"))):
    m = json.load(open(os.path.join(d, "meta.json")))
    sid = os.path.basename(d)
    r = res.get(sid, {})
    caught = [p for p, v in r.get("checks", {}).items() if v.get("violation")]
    missed = [p for p, v in r.get("checks", {}).items() if not v.get("violation")]
    summ = (m.get("summary", "")[:230] + "…") if len(m.get("summary", "")) > 230 else m.get("summary", "")
    needs = (m.get("needs_to_manifest", "")[:200] + "…") if len(m.get("needs_to_manifest", "")) > 200 else m.get("needs_to_manifest", "")
    c = ", ".join(caught) if caught else "**missed**"
    if caught and missed:
        c += " (not by " + ", ".join(missed) + ")"
    print("| %s | %s | %s — *needs:* %s | %s |" % (sid, m["property"], summ.replace("|", "/").replace("\n", " "), needs.replace("|", "/").replace("\n", " "), c))

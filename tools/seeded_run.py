#!/usr/bin/env python3
"""Run the registered checks against the seeded breaking changes in /verif/seeded/<id>/.

  tools/seeded_run.py [--tier quick|thorough] [id ...]

For each seeded change: create a scratch worktree of /repo HEAD under /var/tmp,
apply patch.diff, run `VERIF_REPO=<wt> ./check <property> --tier T`, record
whether a VIOLATION line was printed, remove the worktree. Results are written
to /verif/seeded/RESULTS.json (informational; never used by a check).
"""
import json, os, subprocess, sys, shutil, time

V = os.path.dirname(os.path.dirname(os.path.abspath(__file__)))
tier = "quick"
args = sys.argv[1:]
if args[:1] == ["--tier"]:
    tier = args[1]
    args = args[2:]
ids = args or sorted(d for d in os.listdir(os.path.join(V, "seeded")) if os.path.isdir(os.path.join(V, "seeded", d)))
resf = os.path.join(V, "seeded", "RESULTS.json")
results = json.load(open(resf)) if os.path.exists(resf) else {}
for sid in ids:
    d = os.path.join(V, "seeded", sid)
    meta = json.load(open(os.path.join(d, "meta.json")))
    wt = "/var/tmp/seedwt-" + sid
    subprocess.run(["git", "-C", "/repo", "worktree", "remove", "--force", wt], capture_output=True)
    shutil.rmtree(wt, ignore_errors=True)
    subprocess.run(["git", "-C", "/repo", "worktree", "add", "--detach", wt, "HEAD"], check=True, capture_output=True)
    try:
        p = subprocess.run(["git", "-C", wt, "apply", os.path.join(d, "patch.diff")], capture_output=True, text=True)
        if p.returncode != 0:
            results[sid] = {"property": meta["property"], "status": "patch-does-not-apply", "detail": p.stderr[-500:]}
            print(sid, "PATCH DOES NOT APPLY")
            continue
        props = meta["property"] if isinstance(meta["property"], list) else [meta["property"]]
        det = {}
        for prop in props + meta.get("also_run", []):
            t0 = time.time()
            env = dict(os.environ, VERIF_REPO=wt)
            q = subprocess.run([os.path.join(V, "check"), prop, "--tier", tier], cwd=V, env=env, capture_output=True, text=True)
            viol = [l for l in q.stdout.splitlines() if l.startswith("VIOLATION")]
            det[prop] = {"rc": q.returncode, "violation": bool(viol), "wall_s": round(time.time() - t0, 1)}
            print(sid, prop, "rc=%d" % q.returncode, "DETECTED" if viol else "missed", "%.0fs" % (time.time() - t0))
        results[sid] = {"property": meta["property"], "tier": tier, "checks": det,
                        "detected": any(v["violation"] for k, v in det.items() if k in props)}
    finally:
        subprocess.run(["git", "-C", "/repo", "worktree", "remove", "--force", wt], capture_output=True)
        shutil.rmtree(wt, ignore_errors=True)
        # several runs may work on disjoint id sets at the same time: merge under a lock
        import fcntl
        with open(resf + ".lock", "w") as lk:
            fcntl.flock(lk, fcntl.LOCK_EX)
            cur = json.load(open(resf)) if os.path.exists(resf) else {}
            if sid in results:
                cur[sid] = results[sid]
            json.dump(cur, open(resf, "w"), indent=1, sort_keys=True)
            results = cur

#!/usr/bin/env python3
import subprocess, os
V = os.path.dirname(os.path.dirname(os.path.abspath(__file__)))
t = subprocess.run([os.path.join(V, "tools", "gen_seeded_table.py")], capture_output=True, text=True).stdout
p = os.path.join(V, "DESIGN.md")
s = open(p).read()
a = s.index("<!-- SEEDED-TABLE-BEGIN -->") + len("<!-- SEEDED-TABLE-BEGIN -->")
b = s.index("<!-- SEEDED-TABLE-END -->")
open(p, "w").write(s[:a] + "\n" + t + s[b:])

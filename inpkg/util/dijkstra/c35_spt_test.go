//go:build verif

package dijkstra_test

import (
	"fmt"
	"strings"
	"testing"

	"github.com/bio-routing/bio-rd/util/dijkstra"
	"pgregory.net/rapid"
	kit "verifkit"
)

const c35Rule = "directed graphs given as weight matrix (absent or weight >= 0, at most one edge per ordered node pair, self loops included in part of the space); for every node as source Topology.SPT is compared with Bellman-Ford distances: reachable node => Distance minimal and Edges is a source->node walk over existing edges with their weights summing to Distance; unreachable => Distance -1 and no edges; no panic. Exhaustive part: all graphs on 1..3 nodes with weights {absent,0,1,2,3} (3 nodes: without self loops; with self loops over {absent,0,2}), 4 nodes without self loops over {absent,0,2} (quick) / {absent,0,1,3} (thorough); random part: 1..12 (thorough ..30) nodes, generated density, weights 0..3 or up to 10^6. Non-trivial: some node unreachable from the source, or a node all of whose shortest paths have >= 2 edges."

const c35Inf = int64(1) << 60

// c35Graph: w[a][b] = weight of edge a->b, or -1 when absent.
type c35Graph struct {
	n int
	w [][]int64
}

func (g *c35Graph) String() string {
	var sb strings.Builder
	fmt.Fprintf(&sb, "n=%d", g.n)
	for a := 0; a < g.n; a++ {
		for b := 0; b < g.n; b++ {
			if g.w[a][b] >= 0 {
				fmt.Fprintf(&sb, " %d>%d:%d", a, b, g.w[a][b])
			}
		}
	}
	return sb.String()
}

func c35Node(i int) dijkstra.Node { return dijkstra.Node{Name: fmt.Sprintf("n%d", i)} }

// c35BellmanFord is the oracle: minimal distances from src (c35Inf =
// unreachable).
func c35BellmanFord(g *c35Graph, src int) []int64 {
	d := make([]int64, g.n)
	for i := range d {
		d[i] = c35Inf
	}
	d[src] = 0
	for round := 0; round < g.n; round++ {
		changed := false
		for a := 0; a < g.n; a++ {
			if d[a] == c35Inf {
				continue
			}
			for b := 0; b < g.n; b++ {
				if g.w[a][b] >= 0 && d[a]+g.w[a][b] < d[b] {
					d[b] = d[a] + g.w[a][b]
					changed = true
				}
			}
		}
		if !changed {
			break
		}
	}
	return d
}

func c35SPT(topo *dijkstra.Topology, src dijkstra.Node) (spt dijkstra.SPT, panicked interface{}) {
	defer func() {
		if r := recover(); r != nil {
			panicked = r
		}
	}()
	return topo.SPT(src), nil
}

// c35CheckGraph checks every source (or only `only` when >= 0) of g. It
// returns a violation text or "", and whether the graph is non-trivial.
func c35CheckGraph(g *c35Graph, only int) (msg string, nontrivial, unreachable bool) {
	nodes := make([]dijkstra.Node, g.n)
	idx := map[dijkstra.Node]int{}
	for i := range nodes {
		nodes[i] = c35Node(i)
		idx[nodes[i]] = i
	}
	edges := []dijkstra.Edge{}
	for a := 0; a < g.n; a++ {
		for b := 0; b < g.n; b++ {
			if g.w[a][b] >= 0 {
				edges = append(edges, dijkstra.Edge{NodeA: nodes[a], NodeB: nodes[b], Distance: g.w[a][b]})
			}
		}
	}
	topo := dijkstra.NewTopology(nodes, edges)
	for src := 0; src < g.n; src++ {
		if only >= 0 && src != only {
			continue
		}
		want := c35BellmanFord(g, src)
		spt, p := c35SPT(topo, nodes[src])
		if p != nil {
			return fmt.Sprintf("graph %v source n%d: SPT panicked: %v", g, src, p), nontrivial, unreachable
		}
		for v := 0; v < g.n; v++ {
			path, ok := spt[nodes[v]]
			if !ok {
				return fmt.Sprintf("graph %v source n%d: node n%d missing from the tree", g, src, v), nontrivial, unreachable
			}
			if want[v] == c35Inf {
				nontrivial, unreachable = true, true
				if path.Distance != -1 || len(path.Edges) != 0 {
					return fmt.Sprintf("graph %v source n%d: n%d is unreachable but tree says distance %d via %v", g, src, v, path.Distance, path.Edges), nontrivial, unreachable
				}
				continue
			}
			if v != src && (g.w[src][v] < 0 || g.w[src][v] > want[v]) {
				nontrivial = true
			}
			if path.Distance != want[v] {
				return fmt.Sprintf("graph %v source n%d: distance of n%d is %d, minimal distance is %d (edges %v)", g, src, v, path.Distance, want[v], path.Edges), nontrivial, unreachable
			}
			cur, sum := src, int64(0)
			for _, e := range path.Edges {
				a, okA := idx[e.NodeA]
				b, okB := idx[e.NodeB]
				if !okA || !okB || a != cur || g.w[a][b] < 0 || g.w[a][b] != e.Distance {
					return fmt.Sprintf("graph %v source n%d: path of n%d %v is not a walk over existing edges starting at the source", g, src, v, path.Edges), nontrivial, unreachable
				}
				cur = b
				sum += e.Distance
			}
			if cur != v || sum != path.Distance {
				return fmt.Sprintf("graph %v source n%d: path of n%d %v ends at n%d with length %d, tree says distance %d", g, src, v, path.Edges, cur, sum, path.Distance), nontrivial, unreachable
			}
		}
	}
	return "", nontrivial, unreachable
}

// c35Enumerate walks all assignments of alphabet values to the slots (ordered
// node pairs) of an n-node graph; this process handles the assignments whose
// index is congruent to its shard number.
func c35Enumerate(t *testing.T, rec *kit.Recorder, n int, selfLoops bool, alphabet []int64) (graphs int64) {
	type slot struct{ a, b int }
	var slots []slot
	for a := 0; a < n; a++ {
		for b := 0; b < n; b++ {
			if a != b || selfLoops {
				slots = append(slots, slot{a, b})
			}
		}
	}
	total := int64(1)
	for range slots {
		total *= int64(len(alphabet))
	}
	shard, shards := kit.Shard()
	g := &c35Graph{n: n, w: make([][]int64, n)}
	for i := range g.w {
		g.w[i] = make([]int64, n)
	}
	for k := int64(shard); k < total; k += int64(shards) {
		for a := 0; a < n; a++ {
			for b := 0; b < n; b++ {
				g.w[a][b] = -1
			}
		}
		x := k
		for _, s := range slots {
			g.w[s.a][s.b] = alphabet[x%int64(len(alphabet))]
			x /= int64(len(alphabet))
		}
		c := rec.Case()
		c.Logf("%v", g)
		msg, nt, unreach := c35CheckGraph(g, -1)
		c.NonTrivialIf(nt)
		c.ClassIf(unreach, "has_unreachable_node")
		c.Class(fmt.Sprintf("exhaustive_n%d", n))
		c.Done()
		graphs++
		if msg != "" {
			t.Fatalf("%s", msg)
		}
	}
	return graphs
}

func TestVerifC35Exhaustive(t *testing.T) {
	rec := kit.NewRecorder(t, "C35", c35Rule)
	full := []int64{-1, 0, 1, 2, 3}
	c35Enumerate(t, rec, 1, true, full)
	c35Enumerate(t, rec, 2, true, full)
	c35Enumerate(t, rec, 3, false, full)
	c35Enumerate(t, rec, 3, true, []int64{-1, 0, 2})
	if kit.Tier() == "thorough" {
		c35Enumerate(t, rec, 4, false, []int64{-1, 0, 1, 3})
	} else {
		c35Enumerate(t, rec, 4, false, []int64{-1, 0, 2})
	}
	rec.SetExhaustive(true)
}

func TestVerifC35Random(t *testing.T) {
	rec := kit.NewRecorder(t, "C35", c35Rule)
	maxN := kit.Scale(12, 30)
	rapid.Check(t, func(t *rapid.T) {
		c := rec.Case()
		defer c.Done()
		n := rapid.IntRange(1, maxN).Draw(t, "n")
		density := rapid.IntRange(0, 100).Draw(t, "density_percent")
		bigWeights := rapid.IntRange(0, 3).Draw(t, "weights") == 0
		g := &c35Graph{n: n, w: make([][]int64, n)}
		for a := 0; a < n; a++ {
			g.w[a] = make([]int64, n)
			for b := 0; b < n; b++ {
				g.w[a][b] = -1
				if rapid.IntRange(0, 99).Draw(t, "edge") < density {
					if bigWeights {
						g.w[a][b] = rapid.Int64Range(0, 1000000).Draw(t, "w")
					} else {
						g.w[a][b] = rapid.Int64Range(0, 3).Draw(t, "w")
					}
				}
			}
		}
		src := rapid.IntRange(0, n-1).Draw(t, "src")
		c.Logf("%v src=n%d", g, src)
		msg, nt, unreach := c35CheckGraph(g, src)
		c.NonTrivialIf(nt)
		c.ClassIf(unreach, "has_unreachable_node")
		c.ClassIf(n >= 5, "n>=5")
		c.ClassIf(bigWeights, "big_weights")
		if msg != "" {
			t.Fatalf("%s", msg)
		}
	})
}

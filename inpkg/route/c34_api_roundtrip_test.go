//go:build verif

package route_test

// C34: Route -> API (ToProto) -> Route (RouteFromProtoRoute) preserves the
// prefix, the path type and every BGP attribute the API schema has a field
// for; a hidden path is never reported as visible (Path.IsHidden() implies
// proto hidden_reason != None). The API message is additionally pushed through
// the protobuf wire format (Marshal/Unmarshal) — that is what a client sees.
// Oracle: the expected values come from the kit.SelPath description the path
// was built from, not from bio-rd's own Compare/Equal.

import (
	"bytes"
	"fmt"
	"testing"

	bnet "github.com/bio-routing/bio-rd/net"
	"github.com/bio-routing/bio-rd/protocols/bgp/types"
	"github.com/bio-routing/bio-rd/route"
	"github.com/bio-routing/bio-rd/route/api"
	"google.golang.org/protobuf/proto"
	"pgregory.net/rapid"
	kit "verifkit"
)

const c34Rule = "route with a generated prefix (v4/v6) and 0..4 BGP/static paths covering every API field: nil/empty/non-empty communities, large communities, CLUSTER_LIST, unknown attributes (nil/empty/long values), ORIGINATOR_ID, OTC, path id, post-policy flag, AS_SET/AS_SEQUENCE segments, every HiddenReason 0..7, dedup on/off, through ToProto -> proto wire -> RouteFromProtoRoute; compared field by field with the generating description (nil == empty for lists); hidden => hidden_reason != None. Non-trivial: some path has a non-empty CLUSTER_LIST, unknown attributes, OTC, or is hidden."

func c34Pfx(t *rapid.T) (kit.Bits, *bnet.Prefix) {
	w := kit.GenFamily(t)
	b := kit.GenPrefix(t, w, "pfx")
	if w == 32 {
		return b, bnet.NewPfx(bnet.IPv4(b.U32()), uint8(b.L)).Ptr()
	}
	hi, lo := b.HiLo()
	return b, bnet.NewPfx(bnet.IPv6(hi, lo), uint8(b.L)).Ptr()
}

func c34IPEq(ip *bnet.IP, b kit.Bits) bool {
	if ip == nil {
		return false
	}
	if ip.IsIPv4() != (b.W == 32) {
		return false
	}
	return bytes.Equal(ip.Bytes(), b.A[:b.W/8])
}

// c34ComparePath checks the converted path against its description.
func c34ComparePath(i int, s kit.SelPath, g *route.Path) string {
	if s.Static {
		if g.Type != route.StaticPathType {
			return fmt.Sprintf("path %d: type %d, want static", i, g.Type)
		}
		if g.StaticPath == nil || !c34IPEq(g.StaticPath.NextHop, s.NextHop) {
			return fmt.Sprintf("path %d: static next hop not preserved", i)
		}
		return ""
	}
	if g.Type != route.BGPPathType {
		return fmt.Sprintf("path %d: type %d, want BGP", i, g.Type)
	}
	b := g.BGPPath
	if b == nil || b.BGPPathA == nil {
		return fmt.Sprintf("path %d: BGP path missing", i)
	}
	a := b.BGPPathA
	switch {
	case !c34IPEq(a.NextHop, s.NextHop):
		return fmt.Sprintf("path %d: next hop %v, want %s", i, a.NextHop, kit.SelAddr(s.NextHop))
	case !c34IPEq(a.Source, s.Source):
		return fmt.Sprintf("path %d: source %v, want %s", i, a.Source, kit.SelAddr(s.Source))
	case a.LocalPref != s.LocalPref:
		return fmt.Sprintf("path %d: LOCAL_PREF %d, want %d", i, a.LocalPref, s.LocalPref)
	case a.MED != s.MED:
		return fmt.Sprintf("path %d: MED %d, want %d", i, a.MED, s.MED)
	case a.Origin != s.Origin:
		return fmt.Sprintf("path %d: ORIGIN %d, want %d", i, a.Origin, s.Origin)
	case a.EBGP != s.EBGP:
		return fmt.Sprintf("path %d: eBGP flag %v, want %v", i, a.EBGP, s.EBGP)
	case a.BGPIdentifier != s.BGPID:
		return fmt.Sprintf("path %d: BGP identifier %#x, want %#x", i, a.BGPIdentifier, s.BGPID)
	case a.OriginatorID != s.OriginatorID:
		return fmt.Sprintf("path %d: ORIGINATOR_ID %#x, want %#x", i, a.OriginatorID, s.OriginatorID)
	case a.OnlyToCustomer != s.OTC:
		return fmt.Sprintf("path %d: OTC %d, want %d", i, a.OnlyToCustomer, s.OTC)
	case b.PathIdentifier != s.PathID:
		return fmt.Sprintf("path %d: path identifier %d, want %d", i, b.PathIdentifier, s.PathID)
	case b.BMPPostPolicy != s.PostPolicy:
		return fmt.Sprintf("path %d: post-policy flag %v, want %v", i, b.BMPPostPolicy, s.PostPolicy)
	}
	// AS_PATH: segment types and ASNs
	var segs types.ASPath
	if b.ASPath != nil {
		segs = *b.ASPath
	}
	if len(segs) != len(s.ASPath) {
		return fmt.Sprintf("path %d: AS_PATH has %d segments, want %d", i, len(segs), len(s.ASPath))
	}
	for k, seg := range s.ASPath {
		wantT := uint8(types.ASSequence)
		if seg.Set {
			wantT = types.ASSet
		}
		if segs[k].Type != wantT || !c34U32Eq(segs[k].ASNs, seg.ASNs) {
			return fmt.Sprintf("path %d: AS_PATH segment %d = {%d %v}, want {%d %v}", i, k, segs[k].Type, segs[k].ASNs, wantT, seg.ASNs)
		}
	}
	if int(b.ASPathLen) != s.ASLen() {
		return fmt.Sprintf("path %d: ASPathLen %d, want %d", i, b.ASPathLen, s.ASLen())
	}
	// lists: nil == empty
	var cl, comm []uint32
	if b.ClusterList != nil {
		cl = *b.ClusterList
	}
	if !c34U32Eq(cl, s.Cluster) {
		return fmt.Sprintf("path %d: CLUSTER_LIST %v, want %v", i, cl, s.Cluster)
	}
	if b.Communities != nil {
		comm = *b.Communities
	}
	if !c34U32Eq(comm, s.Comms) {
		return fmt.Sprintf("path %d: communities %v, want %v", i, comm, s.Comms)
	}
	var lc types.LargeCommunities
	if b.LargeCommunities != nil {
		lc = *b.LargeCommunities
	}
	if len(lc) != len(s.LComms) {
		return fmt.Sprintf("path %d: %d large communities, want %d", i, len(lc), len(s.LComms))
	}
	for k, x := range s.LComms {
		if lc[k].GlobalAdministrator != x.GA || lc[k].DataPart1 != x.D1 || lc[k].DataPart2 != x.D2 {
			return fmt.Sprintf("path %d: large community %d = %v, want %v", i, k, lc[k], x)
		}
	}
	if len(b.UnknownAttributes) != len(s.Unknown) {
		return fmt.Sprintf("path %d: %d unknown attributes, want %d", i, len(b.UnknownAttributes), len(s.Unknown))
	}
	for k, u := range s.Unknown {
		g := b.UnknownAttributes[k]
		if g.Optional != u.Optional || g.Transitive != u.Transitive || g.Partial != u.Partial || g.TypeCode != u.Type || !bytes.Equal(g.Value, u.Value) {
			return fmt.Sprintf("path %d: unknown attribute %d = %+v, want %+v", i, k, g, u)
		}
	}
	return ""
}

func c34U32Eq(a, b []uint32) bool {
	if len(a) != len(b) {
		return false
	}
	for i := range a {
		if a[i] != b[i] {
			return false
		}
	}
	return true
}

// c34SigEmptyASPath: Path.ToProto has no case for HiddenReasonEmptyASPath (and
// the API enum no value), the path is exported with HiddenReasonNone. Pinned
// by protocols/bgp/server TestDumpRIBInOut, hence a known finding, not a fix.
const c34SigEmptyASPath = "C34/hidden-as-visible:EmptyASPath"

// c34Convert runs the conversion chain and the oracle for one route.
//
// known: reports (and counts) whether a signature is a listed known finding;
// only the clause with exactly that signature is skipped, everything else is
// still checked.
func c34Convert(known func(string) bool, pb kit.Bits, pfx *bnet.Prefix, specs []kit.SelPath, dedup, wire bool) string {
	objs := make([]*route.Path, len(specs))
	for i, s := range specs {
		objs[i] = selToPath(s)
	}
	r := route.NewRouteAddPath(pfx, objs)
	ar := r.ToProto()
	if ar == nil || len(ar.Paths) != len(specs) {
		return "ToProto: wrong number of paths"
	}
	if wire {
		raw, err := proto.Marshal(ar)
		if err != nil {
			return "proto.Marshal: " + err.Error()
		}
		ar = &api.Route{}
		if err := proto.Unmarshal(raw, ar); err != nil {
			return "proto.Unmarshal: " + err.Error()
		}
		if len(ar.Paths) != len(specs) {
			return "wire round trip lost paths"
		}
	}
	// a hidden path is never reported as visible (the converse is not part of the statement)
	for i, s := range specs {
		hidden := objs[i].IsHidden()
		if hidden != (s.Hidden != 0) {
			return "harness: IsHidden disagrees with the description"
		}
		reported := ar.Paths[i].HiddenReason != api.Path_HiddenReasonNone
		if hidden && !reported {
			if s.Hidden == route.HiddenReasonEmptyASPath && known(c34SigEmptyASPath) {
				continue
			}
			return fmt.Sprintf("hidden path reported as visible: path %d is hidden (reason %d, %q) but the API reports HiddenReasonNone", i, s.Hidden, objs[i].HiddenReasonString())
		}
	}
	back := route.RouteFromProtoRoute(ar, dedup)
	if back == nil {
		return "RouteFromProtoRoute returned nil"
	}
	// prefix
	gp := back.Prefix()
	if gp == nil || int(gp.Len()) != pb.L || !c34IPEq(gp.Addr().Ptr(), pb.WithLen(pb.W)) {
		return fmt.Sprintf("prefix not preserved: got %v want %v", gp, pb)
	}
	paths := back.Paths()
	if len(paths) != len(specs) {
		return fmt.Sprintf("%d paths after the round trip, want %d", len(paths), len(specs))
	}
	for i, s := range specs {
		if msg := c34ComparePath(i, s, paths[i]); msg != "" {
			return msg
		}
	}
	return ""
}

func TestVerifC34RoundTrip(t *testing.T) {
	rec := kit.NewRecorder(t, "C34", c34Rule)
	rapid.Check(t, func(t *rapid.T) {
		c := rec.Case()
		defer c.Done()
		pb, pfx := c34Pfx(t)
		d := kit.GenSelDomain(t)
		n := rapid.IntRange(0, 4).Draw(t, "npaths")
		specs := make([]kit.SelPath, n)
		nt := false
		for i := range specs {
			s := d.GenAny(t, fmt.Sprintf("p%d", i))
			s = kit.GenExtras(t, s, fmt.Sprintf("e%d", i))
			// the hidden-reason clause has its own exhaustive test; keep most
			// round-trip cases visible so that the other fields dominate
			if rapid.IntRange(0, 2).Draw(t, fmt.Sprintf("vis%d", i)) > 0 {
				s.Hidden = 0
			}
			specs[i] = s
			c.Logf("p%d=%v", i, s)
			c.ClassIf(s.Static, "static")
			c.ClassIf(!s.Static, "bgp")
			c.ClassIf(s.ClusterSet && len(s.Cluster) > 0, "cluster_list")
			c.ClassIf(s.ClusterSet && len(s.Cluster) == 0, "cluster_list_empty")
			c.ClassIf(len(s.Unknown) > 0, "unknown_attrs")
			c.ClassIf(s.OTC != 0, "otc")
			c.ClassIf(s.Hidden != 0, "hidden")
			c.ClassIf(s.CommsSet && len(s.Comms) == 0, "communities_empty")
			c.ClassIf(s.LCommsSet, "large_communities")
			if (s.ClusterSet && len(s.Cluster) > 0) || len(s.Unknown) > 0 || s.OTC != 0 || s.Hidden != 0 {
				nt = true
			}
		}
		dedup := rapid.IntRange(0, 7).Draw(t, "dedup") == 0
		wire := rapid.Bool().Draw(t, "wire")
		c.Logf("pfx=%v dedup=%v wire=%v", pb, dedup, wire)
		c.ClassIf(pb.W == 128, "v6_prefix")
		c.ClassIf(n == 0, "no_paths")
		c.NonTrivialIf(nt)
		if msg := c34Convert(rec.Known, pb, pfx, specs, dedup, wire); msg != "" {
			t.Fatalf("%s", msg)
		}
	})
}

// TestVerifC34Hidden enumerates every hidden reason 0..7 x {static, BGP} x
// {direct, via wire}: hidden => reported hidden.
func TestVerifC34Hidden(t *testing.T) {
	rec := kit.NewRecorder(t, "C34", c34Rule)
	pb := kit.V4(0x0a000000, 8)
	pfx := bnet.NewPfx(bnet.IPv4(0x0a000000), 8).Ptr()
	for reason := 0; reason <= 7; reason++ {
		for _, static := range []bool{false, true} {
			for _, wire := range []bool{false, true} {
				s := kit.SelPath{Static: static, NextHop: kit.SelV4Addrs[0], Source: kit.SelV4Addrs[1], LocalPref: 100, BGPID: 1, Hidden: uint8(reason)}
				c := rec.Case()
				c.Logf("reason=%d static=%v wire=%v", reason, static, wire)
				c.Class(fmt.Sprintf("reason_%d", reason))
				c.NonTrivialIf(reason != 0)
				msg := c34Convert(rec.Known, pb, pfx, []kit.SelPath{s}, false, wire)
				c.Done()
				if msg != "" {
					t.Fatalf("%s", msg)
				}
			}
		}
	}
	rec.SetExhaustive(true)
}

// TestVerifC34WitnessHiddenEmptyASPath fails while a path hidden for
// HiddenReasonEmptyASPath is exported as visible (known finding
// C34/hidden-as-visible:EmptyASPath).
func TestVerifC34WitnessHiddenEmptyASPath(t *testing.T) {
	for _, s := range []kit.SelPath{
		{NextHop: kit.SelV4Addrs[0], Source: kit.SelV4Addrs[1], EBGP: true, BGPID: 1, Hidden: route.HiddenReasonEmptyASPath},
		{Static: true, NextHop: kit.SelV4Addrs[0], Hidden: route.HiddenReasonEmptyASPath},
	} {
		p := selToPath(s)
		if !p.IsHidden() {
			t.Fatalf("harness: path not hidden")
		}
		if got := p.ToProto().HiddenReason; got == api.Path_HiddenReasonNone {
			t.Fatalf("path %v is hidden (%q) but ToProto reports %v", s, p.HiddenReasonString(), got)
		}
	}
}

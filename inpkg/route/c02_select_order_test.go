//go:build verif

package route_test

// C02 (a): the path preference relation route.Path.Select is a total
// preorder — reflexive ties, antisymmetric, transitive (strictness
// propagates) — and reports a tie only between paths the decision process of
// the statement cannot distinguish. Also: Route.PathSelection (the sort the
// Loc-RIB runs) gives the same best key / the same ECMP set for two arrival
// orders of the same path objects. The Loc-RIB level permutation check lives
// in inpkg/routingtable/locRIB/c02_locrib_perm_test.go.

import (
	"fmt"
	"testing"

	bnet "github.com/bio-routing/bio-rd/net"
	"github.com/bio-routing/bio-rd/route"
	"pgregory.net/rapid"
	kit "verifkit"
)

const c02Rule = "triples (a,b,c) of BGP/static paths over the bounded attribute domain (kit/selpath.go), b and c usually derived from a by re-drawing one attribute (so every decision step, nil/empty/non-empty CLUSTER_LIST and mixed protocol types occur); checked: Select(x,x)=0, antisymmetry, transitivity with strictness over all 6 orders, tie => equal reference key. Non-trivial: the three pairwise decisions of the reference are made at >= 2 different steps (or the triple mixes protocols)."

// c02Triple draws the triple.
func c02Triple(t *rapid.T) (kit.SelDomain, [3]kit.SelPath) {
	d := kit.GenSelDomainMaybeMixed(t)
	var s [3]kit.SelPath
	s[0] = d.GenAny(t, "a")
	for i := 1; i < 3; i++ {
		switch rapid.IntRange(0, 5).Draw(t, fmt.Sprintf("mode%d", i)) {
		case 0:
			s[i] = d.GenAny(t, fmt.Sprintf("p%d", i))
		case 1, 2, 3:
			s[i], _ = d.Mutate(t, s[i-1], fmt.Sprintf("m%d", i))
		case 4:
			s[i], _ = d.Mutate(t, s[0], fmt.Sprintf("m%d", i))
		default:
			x, _ := d.Mutate(t, s[i-1], fmt.Sprintf("m%da", i))
			s[i], _ = d.Mutate(t, x, fmt.Sprintf("m%db", i))
		}
	}
	return d, s
}

func TestVerifC02Triples(t *testing.T) {
	rec := kit.NewRecorder(t, "C02", c02Rule)
	rapid.Check(t, func(t *rapid.T) {
		c := rec.Case()
		defer c.Done()
		_, s := c02Triple(t)
		var p [3]*route.Path
		for i := range s {
			p[i] = selToPath(s[i])
			c.Logf("%c=%v", 'a'+i, s[i])
		}
		// classes / non-triviality
		steps := map[int]bool{}
		mixed := false
		for i := 0; i < 3; i++ {
			for j := i + 1; j < 3; j++ {
				if s[i].Static != s[j].Static {
					mixed = true
					continue
				}
				if !s[i].Static {
					_, st := kit.SelRefCompare(s[i], s[j])
					steps[st] = true
					c.Class("step_" + kit.SelStepName(st))
				} else {
					c.Class("static_pair")
				}
			}
		}
		c.ClassIf(mixed, "mixed_protocols")
		ncl := map[string]bool{}
		for i := range s {
			if !s[i].Static {
				switch {
				case !s[i].ClusterSet:
					ncl["nil"] = true
				case len(s[i].Cluster) == 0:
					ncl["empty"] = true
				default:
					ncl["set"] = true
				}
			}
		}
		c.ClassIf(len(ncl) >= 2, "cluster_list_mixed_presence")
		c.NonTrivialIf(len(steps) >= 2 || mixed)

		var sel [3][3]int
		for i := 0; i < 3; i++ {
			for j := 0; j < 3; j++ {
				sel[i][j] = selSign(p[i].Select(p[j]))
			}
		}
		name := func(i int) string { return string(rune('a' + i)) }
		for i := 0; i < 3; i++ {
			// reflexive tie, also against a fresh equal object
			if sel[i][i] != 0 {
				t.Fatalf("Select(%s,%s) = %d, want 0 (same path)", name(i), name(i), sel[i][i])
			}
			if g := selSign(p[i].Select(selToPath(s[i]))); g != 0 {
				t.Fatalf("Select(%s, copy of %s) = %d, want 0", name(i), name(i), g)
			}
			for j := 0; j < 3; j++ {
				if sel[i][j] != -sel[j][i] {
					t.Fatalf("not antisymmetric: Select(%s,%s)=%d but Select(%s,%s)=%d", name(i), name(j), sel[i][j], name(j), name(i), sel[j][i])
				}
				if i != j && sel[i][j] == 0 && !kit.SelKeyEqual(s[i], s[j]) {
					t.Fatalf("tie between distinguishable paths: Select(%s,%s)=0 but the decision process separates them\n%s=%v\n%s=%v", name(i), name(j), name(i), s[i], name(j), s[j])
				}
			}
		}
		// transitivity over all orders (x >= y, y >= z => x >= z; strict if one is strict)
		for x := 0; x < 3; x++ {
			for y := 0; y < 3; y++ {
				for z := 0; z < 3; z++ {
					if x == y || y == z || x == z {
						continue
					}
					if sel[x][y] >= 0 && sel[y][z] >= 0 {
						if sel[x][z] < 0 {
							t.Fatalf("not transitive: %s>=%s (%d), %s>=%s (%d) but Select(%s,%s)=%d", name(x), name(y), sel[x][y], name(y), name(z), sel[y][z], name(x), name(z), sel[x][z])
						}
						if (sel[x][y] > 0 || sel[y][z] > 0) && sel[x][z] == 0 {
							t.Fatalf("strictness lost: %s>=%s (%d), %s>=%s (%d) but Select(%s,%s)=0", name(x), name(y), sel[x][y], name(y), name(z), sel[y][z], name(x), name(z))
						}
					}
				}
			}
		}
	})
}

const c02RouteRule = "2..6 pairwise non-Compare-equal paths for one prefix put into two route.Route objects in two generated orders, PathSelection on both; checked: no panic, best paths have the same reference key (same object unless tied), ECMP sets identical as sets of path objects. Non-trivial: >= 3 paths with a Select tie or an ECMP set of >= 2."

func TestVerifC02RoutePerm(t *testing.T) {
	rec := kit.NewRecorder(t, "C02", c02RouteRule)
	pfx := bnet.NewPfx(bnet.IPv4(0x0a000000), 8).Ptr()
	rapid.Check(t, func(t *rapid.T) {
		c := rec.Case()
		defer c.Done()
		specs := kit.GenSelDomainMaybeMixed(t).GenSet(t, 2, 6, true)
		perm := rapid.Permutation(seqInts(len(specs))).Draw(t, "perm")
		objs := make([]*route.Path, len(specs))
		for i, s := range specs {
			objs[i] = selToPath(s)
			c.Logf("p%d=%v", i, s)
		}
		c.Logf("perm=%v", perm)
		r1 := route.NewRoute(pfx, nil)
		r2 := route.NewRoute(pfx, nil)
		for i := range objs {
			r1.AddPath(objs[i])
			r1.PathSelection() // the Loc-RIB re-selects after every AddPath
		}
		for _, i := range perm {
			r2.AddPath(objs[i])
			r2.PathSelection()
		}
		tie := false
		for i := range objs {
			for j := i + 1; j < len(objs); j++ {
				if objs[i].Select(objs[j]) == 0 {
					tie = true
				}
			}
		}
		mixed := false
		for _, s := range specs {
			if s.Static != specs[0].Static {
				mixed = true
			}
		}
		c.ClassIf(tie, "has_tie")
		c.ClassIf(mixed, "mixed_protocols")
		c.ClassIf(r1.ECMPPathCount() >= 2, "ecmp>=2")
		c.NonTrivialIf(len(specs) >= 3 && (tie || r1.ECMPPathCount() >= 2))
		if msg := c02CompareRoutes(specs, objs, r1, r2); msg != "" {
			t.Fatalf("%s", msg)
		}
	})
}

func seqInts(n int) []int {
	s := make([]int, n)
	for i := range s {
		s[i] = i
	}
	return s
}

// c02CompareRoutes: same best key, same ECMP set (by object identity).
func c02CompareRoutes(specs []kit.SelPath, objs []*route.Path, r1, r2 *route.Route) string {
	idx := func(p *route.Path) int {
		for i, o := range objs {
			if o == p {
				return i
			}
		}
		return -1
	}
	b1, b2 := idx(r1.BestPath()), idx(r2.BestPath())
	if b1 < 0 || b2 < 0 {
		return fmt.Sprintf("best path is not one of the inserted objects (%d, %d)", b1, b2)
	}
	if b1 != b2 && !kit.SelKeyEqual(specs[b1], specs[b2]) {
		return fmt.Sprintf("best path depends on arrival order: order A selects p%d, order B selects p%d, and the decision process distinguishes them\np%d=%v\np%d=%v", b1, b2, b1, specs[b1], b2, specs[b2])
	}
	e1, e2 := map[int]bool{}, map[int]bool{}
	for _, p := range r1.ECMPPaths() {
		e1[idx(p)] = true
	}
	for _, p := range r2.ECMPPaths() {
		e2[idx(p)] = true
	}
	if len(e1) != int(r1.ECMPPathCount()) || len(e2) != int(r2.ECMPPathCount()) {
		return "ECMP list contains duplicates / foreign objects"
	}
	for i := range e1 {
		if !e2[i] {
			return fmt.Sprintf("ECMP set depends on arrival order: p%d only in order A's set (A=%v B=%v)", i, e1, e2)
		}
	}
	for i := range e2 {
		if !e1[i] {
			return fmt.Sprintf("ECMP set depends on arrival order: p%d only in order B's set (A=%v B=%v)", i, e1, e2)
		}
	}
	return ""
}

//go:build verif

package route_test

// Shared by C02, C03, C34: turns a kit.SelPath description (bounded attribute
// domain, generated in /verif/kit/selpath.go) into the route.Path a bio-rd
// constructor would build: NextHop/Source never nil, ASPath never nil,
// ASPathLen = ASPath.Length() (as adjRIBIn / BGPPathFromProtoBGPPath do).

import (
	bnet "github.com/bio-routing/bio-rd/net"
	"github.com/bio-routing/bio-rd/protocols/bgp/types"
	"github.com/bio-routing/bio-rd/route"
	kit "verifkit"
)

func selIP(b kit.Bits) *bnet.IP {
	if b.W == 32 {
		return bnet.IPv4(b.U32()).Ptr()
	}
	hi, lo := b.HiLo()
	return bnet.IPv6(hi, lo).Ptr()
}

// selToPath builds a fresh route.Path (new object on every call).
func selToPath(s kit.SelPath) *route.Path {
	p := &route.Path{HiddenReason: s.Hidden, LTime: s.LTime}
	if s.Static {
		p.Type = route.StaticPathType
		p.StaticPath = &route.StaticPath{NextHop: selIP(s.NextHop)}
		return p
	}
	p.Type = route.BGPPathType
	asp := make(types.ASPath, 0, len(s.ASPath))
	for _, seg := range s.ASPath {
		ty := uint8(types.ASSequence)
		if seg.Set {
			ty = types.ASSet
		}
		asp = append(asp, types.ASPathSegment{Type: ty, ASNs: append([]uint32{}, seg.ASNs...)})
	}
	b := &route.BGPPath{
		BGPPathA: &route.BGPPathA{
			NextHop:        selIP(s.NextHop),
			Source:         selIP(s.Source),
			LocalPref:      s.LocalPref,
			MED:            s.MED,
			BGPIdentifier:  s.BGPID,
			OriginatorID:   s.OriginatorID,
			EBGP:           s.EBGP,
			Origin:         s.Origin,
			OnlyToCustomer: s.OTC,
		},
		ASPath:         &asp,
		ASPathLen:      asp.Length(),
		PathIdentifier: s.PathID,
		BMPPostPolicy:  s.PostPolicy,
	}
	if s.ClusterSet {
		cl := make(types.ClusterList, len(s.Cluster))
		copy(cl, s.Cluster)
		b.ClusterList = &cl
	}
	if s.CommsSet {
		c := make(types.Communities, len(s.Comms))
		copy(c, s.Comms)
		b.Communities = &c
	}
	if s.LCommsSet {
		lc := make(types.LargeCommunities, len(s.LComms))
		for i, x := range s.LComms {
			lc[i] = types.LargeCommunity{GlobalAdministrator: x.GA, DataPart1: x.D1, DataPart2: x.D2}
		}
		b.LargeCommunities = &lc
	}
	for _, u := range s.Unknown {
		a := types.UnknownPathAttribute{Optional: u.Optional, Transitive: u.Transitive, Partial: u.Partial, TypeCode: u.Type}
		if !u.ValueNil {
			a.Value = append([]byte{}, u.Value...)
		}
		b.UnknownAttributes = append(b.UnknownAttributes, a)
	}
	p.BGPPath = b
	return p
}

func selSign(v int8) int {
	switch {
	case v > 0:
		return 1
	case v < 0:
		return -1
	}
	return 0
}

//go:build verif

package route_test

// C03: best-path tie-breaking follows RFC 4271 §9.1.2.2 / RFC 4456 §9.
// Oracle: kit.SelRefCompare, an independent lexicographic comparator that
// implements exactly the steps the statement lists. Where it decides, the
// sign of BGPPath.Select / Path.Select must agree in both argument orders and
// Route.PathSelection (what the Loc-RIB runs) must put the preferred path
// first. Where it does not decide (equal through the peer address) nothing is
// asserted. The Loc-RIB level check is in
// inpkg/routingtable/locRIB/c03_locrib_best_test.go.

import (
	"fmt"
	"testing"

	bnet "github.com/bio-routing/bio-rd/net"
	"github.com/bio-routing/bio-rd/route"
	"pgregory.net/rapid"
	kit "verifkit"
)

const c03Rule = "pairs of BGP paths over the bounded attribute domain: (OneDiff) every base of a base grid x every decision attribute x every ordered pair of distinct pool values, i.e. pairs differing in exactly one attribute, both argument orders; (Random) random pairs, second usually a one/two-attribute mutation of the first. Checked: sign(Select) = reference sign where the reference (LOCAL_PREF high, AS_PATH short, ORIGIN low, MED low, eBGP, identifier low with ORIGINATOR_ID substituted, CLUSTER_LIST short with absent=0, peer address low) decides; PathSelection puts the preferred path first. Non-trivial: decided at the identifier step or later."

var c03Pfx = bnet.NewPfx(bnet.IPv4(0x0a000000), 8).Ptr()

// c03CheckPair evaluates the oracle on (a,b) in both argument orders.
func c03CheckPair(a, b kit.SelPath) (step int, msg string) {
	want, step := kit.SelRefCompare(a, b)
	if step == kit.SelStepNone {
		return step, "" // statement silent
	}
	pa, pb := selToPath(a), selToPath(b)
	if g := selSign(pa.BGPPath.Select(pb.BGPPath)); g != want {
		return step, fmt.Sprintf("BGPPath.Select(a,b) = %d, reference decides %d at step %s\na=%v\nb=%v", g, want, kit.SelStepName(step), a, b)
	}
	if g := selSign(pb.BGPPath.Select(pa.BGPPath)); g != -want {
		return step, fmt.Sprintf("BGPPath.Select(b,a) = %d, reference decides %d at step %s\na=%v\nb=%v", g, -want, kit.SelStepName(step), a, b)
	}
	if g := selSign(pa.Select(pb)); g != want {
		return step, fmt.Sprintf("Path.Select(a,b) = %d, reference decides %d at step %s\na=%v\nb=%v", g, want, kit.SelStepName(step), a, b)
	}
	// what the Loc-RIB runs: sort + best path, both arrival orders
	best := pa
	if want < 0 {
		best = pb
	}
	for _, order := range [][2]*route.Path{{pa, pb}, {pb, pa}} {
		r := route.NewRoute(c03Pfx, nil)
		r.AddPath(order[0])
		r.AddPath(order[1])
		r.PathSelection()
		if r.BestPath() != best {
			return step, fmt.Sprintf("PathSelection best path is the one the reference rejects at step %s (sign %d)\na=%v\nb=%v", kit.SelStepName(step), want, a, b)
		}
	}
	return step, ""
}

// c03Bases is the base grid of the enumerated one-difference domain.
func c03Bases() []kit.SelPath {
	var out []kit.SelPath
	for _, addrs := range [][]kit.Bits{kit.SelV4Addrs, kit.SelV6Addrs} {
		for _, ebgp := range []bool{false, true} {
			for _, orig := range []uint32{0, 2} {
				for _, cl := range []int{0, 1, 4} {
					for _, lp := range []uint32{100, 0xffffffff} {
						p := kit.SelPath{
							LocalPref: lp, MED: 1, Origin: 1, EBGP: ebgp,
							BGPID: 0x0a000001, OriginatorID: orig,
							ASPath: kit.SelASPaths[3],
							Source: addrs[1], NextHop: addrs[0],
						}
						if cl > 0 {
							p.ClusterSet, p.Cluster = true, kit.SelClusters[cl]
						}
						out = append(out, p)
					}
				}
			}
		}
	}
	return out
}

// c03Variants returns, for one attribute, the base with every pool value.
func c03Variants(base kit.SelPath, attr string) []kit.SelPath {
	var out []kit.SelPath
	addrs := kit.SelV4Addrs
	if base.Source.W == 128 {
		addrs = kit.SelV6Addrs
	}
	switch attr {
	case "lp":
		for _, v := range kit.SelLPs {
			p := base
			p.LocalPref = v
			out = append(out, p)
		}
	case "aspath":
		for _, v := range kit.SelASPaths {
			p := base
			p.ASPath = v
			out = append(out, p)
		}
	case "origin":
		for _, v := range kit.SelOrigins {
			p := base
			p.Origin = v
			out = append(out, p)
		}
	case "med":
		for _, v := range kit.SelMEDs {
			p := base
			p.MED = v
			out = append(out, p)
		}
	case "ebgp":
		for _, v := range []bool{false, true} {
			p := base
			p.EBGP = v
			out = append(out, p)
		}
	case "id":
		for _, v := range kit.SelIDs {
			p := base
			p.BGPID = v
			out = append(out, p)
		}
	case "orig":
		for _, v := range []uint32{0, 1, 2, 0x0a000001, 0x0a000002, 0xfffffffe} {
			p := base
			p.OriginatorID = v
			out = append(out, p)
		}
	case "cluster":
		for i, v := range kit.SelClusters {
			p := base
			p.ClusterSet, p.Cluster = i > 0, v
			out = append(out, p)
		}
	case "src":
		for _, v := range addrs {
			p := base
			p.Source = v
			out = append(out, p)
		}
	}
	return out
}

var c03Attrs = []string{"lp", "aspath", "origin", "med", "ebgp", "id", "orig", "cluster", "src"}

// TestVerifC03OneDiff enumerates the one-difference domain completely.
func TestVerifC03OneDiff(t *testing.T) {
	rec := kit.NewRecorder(t, "C03", c03Rule)
	for bi, base := range c03Bases() {
		for _, attr := range c03Attrs {
			vs := c03Variants(base, attr)
			for i := range vs {
				for j := range vs {
					if i == j {
						continue
					}
					c := rec.Case()
					c.Logf("base%d attr=%s a=%v b=%v", bi, attr, vs[i], vs[j])
					step, msg := c03CheckPair(vs[i], vs[j])
					c.Class("attr_" + attr)
					c.Class("step_" + kit.SelStepName(step))
					c.NonTrivialIf(step >= kit.SelStepID)
					c.Done()
					if msg != "" {
						t.Fatalf("%s", msg)
					}
				}
			}
		}
	}
	rec.SetExhaustive(true)
}

func TestVerifC03Random(t *testing.T) {
	rec := kit.NewRecorder(t, "C03", c03Rule)
	rapid.Check(t, func(t *rapid.T) {
		c := rec.Case()
		defer c.Done()
		d := kit.GenSelDomain(t)
		a := d.GenBGP(t, "a")
		var b kit.SelPath
		switch rapid.IntRange(0, 3).Draw(t, "mode") {
		case 0:
			b = d.GenBGP(t, "b")
		case 1, 2:
			b, _ = d.Mutate(t, a, "m")
		default:
			x, _ := d.Mutate(t, a, "m1")
			b, _ = d.Mutate(t, x, "m2")
		}
		c.Logf("a=%v b=%v", a, b)
		step, msg := c03CheckPair(a, b)
		c.Class("step_" + kit.SelStepName(step))
		c.ClassIf(a.OriginatorID != 0 || b.OriginatorID != 0, "with_originator_id")
		c.ClassIf(a.ClusterSet != b.ClusterSet, "cluster_list_one_absent")
		c.NonTrivialIf(step >= kit.SelStepID)
		if msg != "" {
			t.Fatalf("%s", msg)
		}
	})
}

//go:build verif

package net_test

import (
	"fmt"
	"testing"

	bnet "github.com/bio-routing/bio-rd/net"
	"pgregory.net/rapid"
	kit "verifkit"
)

// toIP converts a kit bit string (address part) to a bio-rd IP.
func toIP(b kit.Bits) bnet.IP {
	if b.W == 32 {
		return bnet.IPv4(b.U32())
	}
	hi, lo := b.HiLo()
	return bnet.IPv6(hi, lo)
}

func toPfx(b kit.Bits) *bnet.Prefix {
	return bnet.NewPfx(toIP(b), uint8(b.L)).Ptr()
}

// fromIP converts back through the exported byte view.
func fromIP(ip bnet.IP, l int) kit.Bits {
	var b kit.Bits
	by := ip.Bytes()
	if ip.IsIPv4() {
		b.W = 32
	} else {
		b.W = 128
	}
	copy(b.A[:], by)
	b.L = l
	return b
}

const c15Rule = "pairs (p,x) of one family: p canonical with boundary-biased length, x derived from p by truncation/extension/one-bit flip/fresh; checked Contains/Equal/GetSupernet/BaseAddr/Valid/BitAtPosition/Compare/String round trip against bit-string definitions. Non-trivial: IPv6 with a length > 32 or a differing bit above position 32, or IPv4 with the pair sharing a stem (x related to p)."

// checkPair evaluates every clause of C15 on the pair (p,x). It returns an
// error text on the first disagreement.
func checkPair(p, x kit.Bits) string {
	bp, bx := toPfx(p), toPfx(x)
	// Contains: strict containment on the first len(p) bits.
	want := kit.StrictlyCovers(p, x)
	if got := bp.Contains(bx); got != want {
		return fmt.Sprintf("Contains(%v, %v) = %v, bit definition says %v", p, x, got, want)
	}
	// Equal: same address bits and same length.
	wantEq := p == x
	if got := bp.Equal(bx); got != wantEq {
		return fmt.Sprintf("Equal(%v, %v) = %v, want %v", p, x, got, wantEq)
	}
	// GetSupernet: only for incomparable canonical pairs (the trie's precondition).
	if p.IsCanon() && x.IsCanon() && !kit.Covers(p, x) && !kit.Covers(x, p) {
		ws := kit.CommonSupernet(p, x)
		gs := bp.GetSupernet(bx)
		g := fromIP(gs.Addr(), int(gs.Len()))
		if g != ws {
			return fmt.Sprintf("GetSupernet(%v, %v) = %v, longest common prefix is %v", p, x, g, ws)
		}
	}
	for _, q := range []kit.Bits{p, x} {
		bq := toPfx(q)
		// BaseAddr = address with host bits cleared.
		if g := fromIP(bq.BaseAddr(), q.L); g != q.Canon() {
			return fmt.Sprintf("BaseAddr(%v) = %v, want %v", q, g, q.Canon())
		}
		// Valid = no host bit set.
		if g := bq.Valid(); g != q.IsCanon() {
			return fmt.Sprintf("Valid(%v) = %v, want %v", q, g, q.IsCanon())
		}
		// String -> parse round trip of the prefix.
		s := bq.String()
		back, err := bnet.PrefixFromString(s)
		if err != nil {
			return fmt.Sprintf("PrefixFromString(%q) (printed from %v): %v", s, q, err)
		}
		if !back.Equal(bq) {
			return fmt.Sprintf("PrefixFromString(String(%v)=%q) = %v", q, s, back.String())
		}
	}
	return ""
}

func checkAddr(a, b kit.Bits) string {
	ia, ib := toIP(a), toIP(b)
	for pos := 1; pos <= a.W; pos++ {
		if g := ia.BitAtPosition(uint8(pos)); g != a.Bit(pos-1) {
			return fmt.Sprintf("BitAtPosition(%v, %d) = %v, want %v", a, pos, g, a.Bit(pos-1))
		}
	}
	wc := kit.CmpAddr(a, b)
	if g := int(ia.Compare(&ib)); g != wc {
		return fmt.Sprintf("Compare(%v, %v) = %d, want %d", a, b, g, wc)
	}
	if g := int(ib.Compare(&ia)); g != -wc {
		return fmt.Sprintf("Compare(%v, %v) = %d, want %d", b, a, g, -wc)
	}
	if ia.Equal(ib) != (a.A == b.A) {
		return fmt.Sprintf("IP.Equal(%v, %v) wrong", a, b)
	}
	s := ia.String()
	back, err := bnet.IPFromString(s)
	if err != nil {
		return fmt.Sprintf("IPFromString(%q) printed from %v: %v", s, a, err)
	}
	if !back.Equal(ia) {
		return fmt.Sprintf("IPFromString(String(%v)=%q) = %v (IsIPv4=%v), not the same value", a, s, back.String(), back.IsIPv4())
	}
	// byte view round trip
	bb, err := bnet.IPFromBytes(ia.Bytes())
	if err != nil {
		return fmt.Sprintf("IPFromBytes(Bytes(%v)): %v", a, err)
	}
	if !bb.Equal(ia) && !c15V4Mapped(a) {
		return fmt.Sprintf("IPFromBytes(Bytes(%v)) = %v", a, bb.String())
	}
	return ""
}

// c15V4Mapped: ::ffff:0:0/96 — IPFromBytes documents/implements the 16-byte
// v4-mapped form as IPv4 (wire compatibility); not judged for the byte view.
func c15V4Mapped(a kit.Bits) bool {
	if a.W != 128 {
		return false
	}
	hi, lo := a.HiLo()
	return hi == 0 && lo>>32 == 0xffff
}

func TestVerifC15Random(t *testing.T) {
	rec := kit.NewRecorder(t, "C15", c15Rule)
	rapid.Check(t, func(t *rapid.T) {
		c := rec.Case()
		defer c.Done()
		w := kit.GenFamily(t)
		p := kit.GenPrefix(t, w, "p")
		var x kit.Bits
		related := rapid.IntRange(0, 3).Draw(t, "related") > 0
		if related {
			x = kit.GenRelative(t, p, "x")
		} else {
			x = kit.GenPrefix(t, w, "x")
		}
		// sometimes leave host bits in x / p (address with shorter length)
		if rapid.IntRange(0, 4).Draw(t, "hostbits") == 0 {
			a := kit.GenAddr(t, w, "hb")
			for i := x.L; i < w; i++ {
				x = x.SetBit(i, a.Bit(i))
			}
		}
		c.Logf("p=%v x=%v", p, x)
		c.ClassIf(w == 128, "v6")
		c.ClassIf(w == 32, "v4")
		c.ClassIf(w == 128 && (p.L > 32 || x.L > 32), "v6_len>32")
		c.ClassIf(w == 128 && (p.L > 64 || x.L > 64), "v6_len>64")
		c.ClassIf(p.L == 0 || x.L == 0, "default")
		c.ClassIf(p.L == w || x.L == w, "host")
		c.ClassIf(kit.StrictlyCovers(p, x), "p_contains_x")
		c.ClassIf(!x.IsCanon(), "hostbits_set")
		cl := kit.CommonLen(p, x, w)
		c.NonTrivialIf((w == 128 && (p.L > 32 || x.L > 32 || (cl >= 32 && cl < 128))) || (w == 32 && cl > 0 && cl < 32))
		if msg := checkPair(p, x); msg != "" {
			t.Fatalf("%s", msg)
		}
		if msg := checkPair(x, p); msg != "" {
			t.Fatalf("%s", msg)
		}
		// Mixed families: an IPv4 prefix and an IPv6 prefix live in different address spaces. Neither contains
		// nor equals the other, whatever their bits are (bio-rd evaluates one policy chain and one set of prefix
		// matchers for both families of a neighbor, so callers do pass mixed pairs), and an IPv4 address is never
		// the same as an IPv6 address with the same numeric value.
		if rapid.IntRange(0, 4).Draw(t, "mixed") == 0 {
			ow := 160 - w
			q := kit.GenPrefix(t, ow, "q")
			if rapid.Bool().Draw(t, "mixed_samebits") {
				// same leading/low bits as p: the hardest case for word-wise comparisons
				q = kit.Bits{W: ow, L: rapid.IntRange(0, ow).Draw(t, "q_len")}
				if ow == 128 {
					copy(q.A[12:], p.A[:4])
				} else {
					copy(q.A[:4], p.A[12:16])
				}
				q = q.Canon()
			}
			c.Logf("mixed p=%v q=%v", p, q)
			c.Class("mixed_family")
			bp, bq := toPfx(p), toPfx(q)
			if bp.Contains(bq) || bq.Contains(bp) {
				t.Fatalf("Contains across address families: %v / %v (Contains(p,q)=%v Contains(q,p)=%v)", p, q, bp.Contains(bq), bq.Contains(bp))
			}
			if bp.Equal(bq) || bq.Equal(bp) {
				t.Fatalf("Equal across address families: %v / %v", p, q)
			}
			ip, iq := toIP(p), toIP(q)
			if ip.Equal(iq) || ip.Compare(&iq) == 0 || iq.Compare(&ip) == 0 || ip.Compare(&iq) != -iq.Compare(&ip) {
				t.Fatalf("addresses of different families compare equal or inconsistently: %v / %v (Compare %d / %d)", p, q, ip.Compare(&iq), iq.Compare(&ip))
			}
		}
		a := kit.GenAddr(t, w, "a")
		b := a
		if rapid.Bool().Draw(t, "flipb") {
			b = a.FlipBit(rapid.IntRange(0, w-1).Draw(t, "flippos"))
		} else {
			b = kit.GenAddr(t, w, "b")
		}
		c.Logf("a=%v b=%v", a, b)
		c.ClassIf(c15V4Mapped(a), "v4mapped")
		if msg := checkAddr(a, b); msg != "" {
			t.Fatalf("%s", msg)
		}
	})
}

// TestVerifC15Structured enumerates the structured sub-domain: for each
// family, 3 base addresses x every length pair (lp, lx) x every flipped bit
// position (or none). In the quick tier the flip positions are sampled by a
// stride chosen from the seed; the thorough tier enumerates all of them.
func TestVerifC15Structured(t *testing.T) {
	rec := kit.NewRecorder(t, "C15", c15Rule)
	bases := map[int][]kit.Bits{
		32:  {kit.V4(0, 32), kit.V4(0xffffffff, 32), kit.V4(0xc0a8a55a, 32)},
		128: {kit.V6(0, 0, 128), kit.V6(^uint64(0), ^uint64(0), 128), kit.V6(0x20010db8a5a55a5a, 0x0123456789abcdef, 128)},
	}
	full := kit.Tier() == "thorough"
	seed := int(kit.Seed())
	shard, shards := kit.Shard()
	n := 0
	for _, w := range []int{32, 128} {
		for bi, base := range bases[w] {
			for lp := 0; lp <= w; lp++ {
				n++
				if n%shards != shard {
					continue
				}
				for lx := 0; lx <= w; lx++ {
					for flip := -1; flip < w; flip++ {
						if !full && w == 128 && flip >= 0 && (flip+lp*7+lx*13+seed)%16 != 0 {
							continue
						}
						p := base.WithLen(lp).Canon()
						x := base
						if flip >= 0 {
							x = x.FlipBit(flip)
						}
						x = x.WithLen(lx).Canon()
						c := rec.Case()
						c.Logf("base%d p=%v x=%v flip=%d", bi, p, x, flip)
						c.ClassIf(w == 128, "v6")
						c.ClassIf(w == 32, "v4")
						c.NonTrivialIf(w == 32 || lp > 32 || lx > 32 || flip >= 32)
						msg := checkPair(p, x)
						c.Done()
						if msg != "" {
							t.Fatalf("%s", msg)
						}
					}
				}
			}
		}
	}
	rec.SetExhaustive(full)
}

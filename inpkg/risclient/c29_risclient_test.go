//go:build verif

package risclient

// C29 at the RIS client: several upstream sources (RISClient instances, one
// per ObserveRIB stream) feed one merged table. The real serviceLoop of every
// client runs in its own goroutine on a harness stream whose Recv hands out
// one generated update at a time; the harness owns the schedule: an update is
// delivered to one client and the harness waits until that client asks for
// the next one (the previous update has then been applied completely) or its
// loop has ended. A stream ends by EOF, by a transport error, or the client
// is stopped (Stop(): noticed at the top of the next loop iteration). After
// every step the underlying Loc-RIB must hold exactly the routes some source
// whose stream is still up advertises.

import (
	"context"
	"errors"
	"fmt"
	"io"
	"sort"
	"testing"
	"time"

	risapi "github.com/bio-routing/bio-rd/cmd/ris/api"
	bnet "github.com/bio-routing/bio-rd/net"
	"github.com/bio-routing/bio-rd/route"
	routeapi "github.com/bio-routing/bio-rd/route/api"
	"github.com/bio-routing/bio-rd/routingtable/locRIB"
	"github.com/bio-routing/bio-rd/routingtable/mergedlocrib"
	"google.golang.org/grpc"
	"google.golang.org/grpc/metadata"
	"pgregory.net/rapid"
	kit "verifkit"
)

const c29rRule = "2..3 RIS clients (sources) with their real serviceLoop on harness streams feeding one mergedlocrib; history of <= 30 steps: deliver an advertisement / withdrawal of one of 4 routes (two share a prefix) to one client, end a client's stream by EOF or error, or Stop() a client (it then ends after the next update); a step is complete when the client asks for the next update or its loop returned; after every step the Loc-RIB dump must equal the routes advertised by sources whose stream is still up. Non-trivial: a source's stream ended (any way) while it advertised at least one route."

const c29rNRoutes = 4

var c29rPfx = [c29rNRoutes]*bnet.Prefix{
	bnet.NewPfx(bnet.IPv4FromOctets(10, 0, 0, 0), 8).Ptr(),
	bnet.NewPfx(bnet.IPv4FromOctets(10, 0, 0, 0), 8).Ptr(),
	bnet.NewPfx(bnet.IPv4FromOctets(10, 128, 0, 0), 9).Ptr(),
	bnet.NewPfx(bnet.IPv4FromOctets(192, 0, 2, 0), 24).Ptr(),
}

func c29rNH(i int) bnet.IP { return bnet.IPv4FromOctets(198, 51, 100, uint8(i+1)) }

func c29rRoute(i int) *routeapi.Route {
	return &routeapi.Route{Pfx: c29rPfx[i].ToProto(), Paths: []*routeapi.Path{{
		Type:       routeapi.Path_Static,
		StaticPath: &routeapi.StaticPath{NextHop: c29rNH(i).ToProto()},
	}}}
}

func c29rKey(i int) string { return fmt.Sprintf("%s via %s", c29rPfx[i].String(), c29rNH(i).String()) }

type c29rItem struct {
	u   *risapi.RIBUpdate
	err error
}

// c29rStream is the harness ObserveRIB stream of one client.
type c29rStream struct {
	grpc.ClientStream
	ask  chan struct{} // the client called Recv (everything before has been applied)
	next chan c29rItem // the harness's answer
}

func (s *c29rStream) Recv() (*risapi.RIBUpdate, error) {
	s.ask <- struct{}{}
	it := <-s.next
	return it.u, it.err
}
func (s *c29rStream) Header() (metadata.MD, error) { return nil, nil }
func (s *c29rStream) Trailer() metadata.MD         { return nil }
func (s *c29rStream) CloseSend() error             { return nil }
func (s *c29rStream) Context() context.Context     { return context.Background() }
func (s *c29rStream) SendMsg(interface{}) error    { return nil }
func (s *c29rStream) RecvMsg(interface{}) error    { return nil }

type c29rClient struct {
	c       *RISClient
	st      *c29rStream
	done    chan struct{}
	up      bool // serviceLoop still running
	stopped bool // Stop() called, loop ends after the next update
	asking  bool // the client sits in Recv waiting for the harness
	adv     [c29rNRoutes]bool
}

func c29rWait(ch chan struct{}, what string) bool {
	select {
	case <-ch:
		return true
	case <-time.After(20 * time.Second):
		return false
	}
}

func TestVerifC29RISClient(t *testing.T) {
	rec := kit.NewRecorder(t, "C29", c29rRule)
	inconclusive := 0
	rapid.Check(t, func(t *rapid.T) {
		cas := rec.Case()
		defer cas.Done()
		rib := locRIB.New("c29r")
		m := mergedlocrib.New(rib)
		n := rapid.IntRange(2, 3).Draw(t, "clients")
		cl := make([]*c29rClient, n)
		start := func(k int) {
			c := &c29rClient{done: make(chan struct{}), up: true}
			// every client has its own connection object: it is the source key in the merged table
			c.c = New(&Request{Router: fmt.Sprintf("r%d", k)}, &grpc.ClientConn{}, m)
			c.st = &c29rStream{ask: make(chan struct{}), next: make(chan c29rItem)}
			go func() { c.c.serviceLoop(c.st); close(c.done) }()
			cl[k] = c
		}
		// sync waits until client k asks for the next update or its loop has returned
		sync := func(k int) bool {
			c := cl[k]
			select {
			case <-c.st.ask:
				c.asking = true
				return true
			case <-c.done:
				c.up = false
				c.asking = false
				return true
			case <-time.After(20 * time.Second):
				return false
			}
		}
		for k := range cl {
			start(k)
			if !sync(k) {
				inconclusive++
				return
			}
		}
		check := func(when string) {
			want := []string{}
			for i := 0; i < c29rNRoutes; i++ {
				for _, c := range cl {
					if c.up && c.adv[i] {
						want = append(want, c29rKey(i))
						break
					}
				}
			}
			sort.Strings(want)
			got := []string{}
			for _, r := range rib.Dump() {
				for _, p := range r.Paths() {
					if p.Type == route.StaticPathType && p.StaticPath != nil {
						got = append(got, fmt.Sprintf("%s via %s", r.Prefix().String(), p.StaticPath.NextHop.String()))
					}
				}
			}
			sort.Strings(got)
			if fmt.Sprint(got) != fmt.Sprint(want) {
				t.Fatalf("%s: merged Loc-RIB holds %v, sources that are up advertise %v\n%s", when, got, want, cas.String())
			}
		}
		ended := false
		steps := rapid.IntRange(1, 30).Draw(t, "steps")
		for s := 0; s < steps; s++ {
			var alive []int
			for k, c := range cl {
				if c.up {
					alive = append(alive, k)
				}
			}
			if len(alive) == 0 {
				break
			}
			k := rapid.SampledFrom(alive).Draw(t, "client")
			c := cl[k]
			act := rapid.SampledFrom([]string{"adv", "adv", "adv", "wd", "wd", "eof", "err", "stop"}).Draw(t, "act")
			switch act {
			case "adv", "wd":
				i := rapid.IntRange(0, c29rNRoutes-1).Draw(t, "route")
				cas.Logf("client %d: %s %s", k, act, c29rKey(i))
				c.asking = false
				c.st.next <- c29rItem{u: &risapi.RIBUpdate{Advertisement: act == "adv", Route: c29rRoute(i)}}
				c.adv[i] = act == "adv"
				if !sync(k) {
					inconclusive++
					return
				}
				if c.stopped && c.up {
					t.Fatalf("client %d was stopped, received one more update and its serviceLoop is still running\n%s", k, cas.String())
				}
			case "eof", "err":
				cas.Logf("client %d: stream ends with %s", k, act)
				err := io.EOF
				if act == "err" {
					err = errors.New("transport is closing")
				}
				c.asking = false
				c.st.next <- c29rItem{err: err}
				if !c29rWait(c.done, "loop end") {
					inconclusive++
					return
				}
				c.up = false
			case "stop":
				if c.stopped {
					continue
				}
				cas.Logf("client %d: Stop()", k)
				c.c.Stop()
				c.stopped = true
				continue
			}
			if !c.up {
				for i := range c.adv {
					if c.adv[i] {
						ended = true
					}
				}
				cas.Class("stream_ended_by_" + map[bool]string{true: "stop", false: act}[c.stopped && act != "eof" && act != "err"])
			}
			check(fmt.Sprintf("after step %d", s))
		}
		cas.NonTrivialIf(ended)
		// release the remaining loops
		for _, c := range cl {
			if c.up {
				c.st.next <- c29rItem{err: io.EOF}
				c29rWait(c.done, "teardown")
			}
		}
	})
	if inconclusive > 0 {
		rec.Note("%d cases hit a real-time deadline (inconclusive, not judged)", inconclusive)
	}
}

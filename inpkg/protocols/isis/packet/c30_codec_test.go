//go:build verif

package packet_test

// C30 — IS-IS PDU decoding is total and encoding round-trips.
//
//   TestVerifC30DecodeTotal  byte level: valid PDUs from the kit's own wire builder, mutated
//                            structure-aware; oracle: Decode never panics, returns exactly one
//                            of (PDU, error), body type follows the PDU type, and a decoded PDU
//                            can be serialized again without a panic.
//   TestVerifC30RoundTrip    hellos / LSPs / CSNPs / PSNPs built through bio-rd's constructors
//                            from generated contents; oracle: the serialized bytes parse with the
//                            kit's independent strict parser to exactly the generated contents
//                            (ISO 10589 layouts), packet.Decode returns the same fixed fields and
//                            TLVs (type, length, value), and serializing the decoded PDU is
//                            byte-identical.
//   TestVerifC30SNPSets      NewCSNPs / NewPSNPs for 0..300 entries, MTU 256..1500 (rapid);
//   TestVerifC30SNPSweep     the same oracle on a structured sweep (every n, selected MTUs;
//                            thorough: every MTU): union of entries over the produced PDUs —
//                            in memory, on the wire (independent parse) and after Decode —
//                            equals the input, each PDU round-trips.

import (
	"bytes"
	"encoding/binary"
	"fmt"
	"os"
	"sort"
	"strings"
	"testing"

	bnet "github.com/bio-routing/bio-rd/net"
	"github.com/bio-routing/bio-rd/protocols/isis/packet"
	"github.com/bio-routing/bio-rd/protocols/isis/types"
	"pgregory.net/rapid"
	kit "verifkit"
)

const c30Rule = "decode: wire PDUs (P2P hello, L2 LSP/CSNP/PSNP, LAN hello, L1/unknown types) from an independent builder with 0..3 structure-aware mutations (TLV length octets, truncation, splice, type change, hostile constants); round trip: PDUs built through bio-rd constructors from generated bounded TLV contents; SNP sets: NewCSNPs/NewPSNPs for 0..300 distinct entries and MTU 256..1500. Non-trivial: PDU with >=3 TLV kinds, or an SNP set needing >=2 PDUs."

var c30LLC = [3]byte{0xfe, 0xfe, 0x03}

var c30Hostile = []byte{0, 1, 2, 3, 4, 5, 6, 7, 8, 9, 14, 15, 16, 17, 31, 32, 33, 63, 64, 127, 128, 129, 240, 254, 255}

// TLV types packet.readTLV interprets (everything else becomes UnknownTLV).
var c30Interpreted = map[uint8]bool{1: true, 6: true, 9: true, 12: true, 129: true, 132: true, 137: true, 240: true}

// ---------------------------------------------------------------------------
// panic capture

type c30Panic struct {
	val   interface{}
	where string
}

func c30Safely(where string, fn func()) (p *c30Panic) {
	defer func() {
		if r := recover(); r != nil {
			p = &c30Panic{val: r, where: where}
		}
	}()
	fn()
	return nil
}

// c30Journal appends a line to $VERIF_WORK/journal.txt (reproducer for
// failures that are not plain test failures, e.g. fatal errors).
var c30JournalFile *os.File

func c30Journal(format string, args ...interface{}) {
	if c30JournalFile == nil {
		d := os.Getenv("VERIF_WORK")
		if d == "" {
			return
		}
		f, err := os.OpenFile(d+"/journal.txt", os.O_CREATE|os.O_WRONLY|os.O_TRUNC, 0o644)
		if err != nil {
			return
		}
		c30JournalFile = f
	}
	c30JournalFile.Seek(0, 0)
	c30JournalFile.Truncate(0)
	fmt.Fprintf(c30JournalFile, format+"\n", args...)
}

// ---------------------------------------------------------------------------
// decode-total: wire level generator

func c30GenBytes(t *rapid.T, min, max int, label string) []byte {
	n := rapid.IntRange(min, max).Draw(t, label+"_n")
	mode := rapid.IntRange(0, 3).Draw(t, label+"_mode")
	b := make([]byte, n)
	switch mode {
	case 0: // zeros
	case 1:
		for i := range b {
			b[i] = 0xff
		}
	default:
		for i := range b {
			b[i] = rapid.Byte().Draw(t, label)
		}
	}
	return b
}

// c30GenWireTLV draws one TLV. Well-formed values for the types bio-rd
// interprets, or arbitrary bytes.
func c30GenWireTLV(t *rapid.T, label string) kit.ISISTLV {
	types_ := []uint8{1, 6, 9, 12, 129, 132, 137, 240, 2, 8, 10, 22, 134, 135, 232, 0, 255}
	typ := rapid.SampledFrom(types_).Draw(t, label+"_type")
	if rapid.IntRange(0, 9).Draw(t, label+"_anytype") == 0 {
		typ = rapid.Byte().Draw(t, label+"_rawtype")
	}
	if rapid.IntRange(0, 3).Draw(t, label+"_wellformed") == 0 {
		return kit.NewISISTLV(typ, c30GenBytes(t, 0, 40, label+"_raw"))
	}
	var v []byte
	switch typ {
	case 1: // area addresses
		for i, n := 0, rapid.IntRange(0, 4).Draw(t, label+"_areas"); i < n; i++ {
			a := c30GenBytes(t, 0, 13, label+"_area")
			v = append(v, byte(len(a)))
			v = append(v, a...)
		}
	case 6:
		v = c30GenBytes(t, 6, 6, label+"_snpa")
	case 9:
		v = c30GenBytes(t, 0, 15, label+"_entries")
		v = bytes.Repeat([]byte{0}, len(v)*16)
		for i := range v {
			if i%3 == 0 {
				v[i] = byte(i)
			}
		}
	case 12:
		v = c30GenBytes(t, 2, 2, label+"_cks")
	case 129:
		v = c30GenBytes(t, 0, 6, label+"_nlpid")
	case 132:
		v = c30GenBytes(t, 0, 6, label+"_addrs")
		v = append(v, v...)
		v = append(v, v...) // multiple of 4
	case 137:
		v = c30GenBytes(t, 0, 64, label+"_host")
	case 240:
		if rapid.Bool().Draw(t, label+"_withnbr") {
			v = c30GenBytes(t, 15, 15, label+"_adj")
		} else {
			v = c30GenBytes(t, 5, 5, label+"_adj")
		}
	default:
		v = c30GenBytes(t, 0, 60, label+"_val")
	}
	return kit.NewISISTLV(typ, v)
}

func c30GenWirePDU(t *rapid.T, label string) *kit.ISISPDU {
	p := &kit.ISISPDU{LLC: c30LLC}
	known := []uint8{kit.ISISP2PHello, kit.ISISL2LSP, kit.ISISL2CSNP, kit.ISISL2PSNP}
	other := []uint8{kit.ISISL1LANHello, kit.ISISL2LANHello, kit.ISISL1LSP, kit.ISISL1CSNP, kit.ISISL1PSNP, 0x24, 0x26, 0, 0xff}
	var typ uint8
	switch rapid.IntRange(0, 9).Draw(t, label+"_typeclass") {
	case 0:
		typ = rapid.SampledFrom(other).Draw(t, label+"_othertype")
	case 1:
		typ = rapid.Byte().Draw(t, label+"_rawpdutype")
	default:
		typ = rapid.SampledFrom(known).Draw(t, label+"_pdutype")
	}
	p.Hdr = [8]byte{0x83, 0, 1, 0, typ, 1, 0, 0}
	if rapid.IntRange(0, 3).Draw(t, label+"_rawhdr") == 0 {
		h := c30GenBytes(t, 8, 8, label+"_hdr")
		copy(p.Hdr[:], h)
		p.Hdr[4] = typ
	}
	fl := kit.ISISFixedLen(typ)
	if fl < 0 {
		fl = rapid.IntRange(0, 30).Draw(t, label+"_fixedlen")
	}
	p.Fixed = c30GenBytes(t, fl, fl, label+"_fixed")
	p.Hdr[1] = byte(8 + fl)
	for i, n := 0, rapid.IntRange(0, 6).Draw(t, label+"_ntlv"); i < n; i++ {
		p.TLVs = append(p.TLVs, c30GenWireTLV(t, fmt.Sprintf("%s_tlv%d", label, i)))
	}
	if rapid.IntRange(0, 4).Draw(t, label+"_fixlen") != 0 {
		p.FixPDULength()
	}
	return p
}

// c30Mutate applies one structure-aware mutation and returns its name.
func c30Mutate(t *rapid.T, b []byte, p *kit.ISISPDU, other []byte, label string) ([]byte, string) {
	offs := p.TLVOffsets()
	hostile := func(l string) byte { return rapid.SampledFrom(c30Hostile).Draw(t, label+l) }
	pos := func(l string) int {
		if len(b) == 0 {
			return 0
		}
		return rapid.IntRange(0, len(b)-1).Draw(t, label+l)
	}
	kind := rapid.IntRange(1, 10).Draw(t, label+"_kind")
	switch kind {
	case 1: // TLV length octet
		if len(offs) > 0 {
			o := offs[rapid.IntRange(0, len(offs)-1).Draw(t, label+"_tlv")] + 1
			if o < len(b) {
				if rapid.Bool().Draw(t, label+"_pm") {
					b[o] += byte(rapid.IntRange(-2, 2).Draw(t, label+"_delta"))
				} else {
					b[o] = hostile("_len")
				}
				return b, "tlvlen"
			}
		}
		fallthrough
	case 2: // truncation, biased to structure boundaries
		cuts := []int{0, 1, 3, 10, 11, 11 + len(p.Fixed) - 1, 11 + len(p.Fixed), 11 + len(p.Fixed) + 1}
		for _, o := range offs {
			cuts = append(cuts, o, o+1, o+2, o+3)
		}
		var n int
		if rapid.Bool().Draw(t, label+"_cutstruct") {
			n = rapid.SampledFrom(cuts).Draw(t, label+"_cut")
		} else {
			n = pos("_cutpos")
		}
		if n < 0 {
			n = 0
		}
		if n > len(b) {
			n = len(b)
		}
		return b[:n], "truncate"
	case 3: // hostile byte
		if len(b) > 0 {
			b[pos("_bytepos")] = hostile("_byte")
		}
		return b, "byte"
	case 4: // splice with another PDU
		i := pos("_splice_i")
		j := 0
		if len(other) > 0 {
			j = rapid.IntRange(0, len(other)-1).Draw(t, label+"_splice_j")
		}
		return append(append([]byte(nil), b[:i]...), other[j:]...), "splice"
	case 5: // PDU type change, body kept
		if len(b) > 7 {
			b[7] = rapid.SampledFrom([]uint8{kit.ISISP2PHello, kit.ISISL2LSP, kit.ISISL2CSNP, kit.ISISL2PSNP, kit.ISISL2LANHello}).Draw(t, label+"_newtype")
		}
		return b, "retype"
	case 6: // first value octet of a TLV (area length, adjacency state, ...)
		if len(offs) > 0 {
			o := offs[rapid.IntRange(0, len(offs)-1).Draw(t, label+"_tlv")] + 2
			if o < len(b) {
				b[o] = hostile("_v0")
				return b, "value0"
			}
		}
		fallthrough
	case 7: // trailing garbage
		return append(b, c30GenBytes(t, 1, 20, label+"_garbage")...), "append"
	case 8: // delete a range
		if len(b) > 1 {
			i := pos("_del_i")
			n := rapid.IntRange(1, 8).Draw(t, label+"_del_n")
			if i+n > len(b) {
				n = len(b) - i
			}
			return append(append([]byte(nil), b[:i]...), b[i+n:]...), "delete"
		}
		return b, "delete"
	case 9: // TLV type octet to an interpreted type (length and value kept)
		if len(offs) > 0 {
			o := offs[rapid.IntRange(0, len(offs)-1).Draw(t, label+"_tlv")]
			if o < len(b) {
				b[o] = rapid.SampledFrom([]uint8{1, 6, 9, 12, 129, 132, 137, 240}).Draw(t, label+"_newtlvtype")
				return b, "tlvtype"
			}
		}
		fallthrough
	default: // repeat the TLV area up to ~1500 bytes
		start := 11 + len(p.Fixed)
		if start < len(b) && len(b)-start > 0 {
			tl := b[start:]
			for len(b)+len(tl) <= 1500 && rapid.IntRange(0, 9).Draw(t, label+"_more") != 0 {
				b = append(b, tl...)
			}
		}
		return b, "repeat"
	}
}

// c30ExpectedBody says which Go type packet.Decode documents for a PDU type.
func c30BodyName(body interface{}) string {
	switch body.(type) {
	case nil:
		return "nil"
	case *packet.P2PHello:
		return "*P2PHello"
	case *packet.LSPDU:
		return "*LSPDU"
	case *packet.CSNP:
		return "*CSNP"
	case *packet.PSNP:
		return "*PSNP"
	}
	return fmt.Sprintf("%T", body)
}

func c30WantBody(pduType uint8) string {
	switch pduType {
	case packet.P2P_HELLO:
		return "*P2PHello"
	case packet.L2_LS_PDU_TYPE:
		return "*LSPDU"
	case packet.L2_CSNP_TYPE:
		return "*CSNP"
	case packet.L2_PSNP_TYPE:
		return "*PSNP"
	}
	return "nil"
}

func c30SerializePacket(pkt *packet.ISISPacket) []byte {
	buf := bytes.NewBuffer(nil)
	pkt.Header.Serialize(buf)
	if s, ok := pkt.Body.(packet.Serializable); ok && pkt.Body != nil {
		s.Serialize(buf)
	}
	return buf.Bytes()
}

// c30CheckDecodeTotal runs the totality oracle on one byte string. It returns
// ("", decodedOK) or a violation text.
func c30CheckDecodeTotal(in []byte) (string, bool) {
	var pkt *packet.ISISPacket
	var err error
	data := append([]byte(nil), in...)
	if p := c30Safely("Decode", func() { pkt, err = packet.Decode(bytes.NewBuffer(data)) }); p != nil {
		return fmt.Sprintf("packet.Decode panicked: %v\ninput (%d bytes): %x", p.val, len(in), in), false
	}
	if (pkt == nil) == (err == nil) {
		return fmt.Sprintf("packet.Decode returned pkt=%v err=%v (want exactly one)\ninput: %x", pkt, err, in), false
	}
	// the LAN hello decoder is exported but not wired into Decode; same bytes after LLC+header
	if len(in) >= 11 {
		body := append([]byte(nil), in[11:]...)
		var h *packet.L2Hello
		var herr error
		if p := c30Safely("DecodeL2Hello", func() { h, herr = packet.DecodeL2Hello(bytes.NewBuffer(body)) }); p != nil {
			return fmt.Sprintf("packet.DecodeL2Hello panicked: %v\ninput: %x", p.val, body), false
		}
		if (h == nil) == (herr == nil) {
			return fmt.Sprintf("packet.DecodeL2Hello returned h=%v err=%v\ninput: %x", h, herr, body), false
		}
	}
	if err != nil {
		return "", false
	}
	if pkt.Header == nil {
		return fmt.Sprintf("packet.Decode returned a packet without header\ninput: %x", in), false
	}
	if got, want := c30BodyName(pkt.Body), c30WantBody(pkt.Header.PDUType); got != want {
		return fmt.Sprintf("packet.Decode: PDU type %#x decoded to body %s, want %s\ninput: %x", pkt.Header.PDUType, got, want, in), false
	}
	// whatever was decoded is something bio-rd may serialize again (LSP flooding does): no panic
	if p := c30Safely("Serialize(decoded)", func() { c30SerializePacket(pkt) }); p != nil {
		return fmt.Sprintf("serializing the decoded PDU panicked: %v\ninput: %x", p.val, in), false
	}
	return "", true
}

func TestVerifC30DecodeTotal(t *testing.T) {
	rec := kit.NewRecorder(t, "C30", c30Rule)
	rapid.Check(t, func(t *rapid.T) {
		c := rec.Case()
		defer c.Done()
		p := c30GenWirePDU(t, "a")
		b := p.Bytes()
		nmut := rapid.SampledFrom([]int{0, 1, 1, 1, 2, 2, 3}).Draw(t, "nmut")
		var other []byte
		var muts []string
		for i := 0; i < nmut; i++ {
			if other == nil {
				other = c30GenWirePDU(t, "b").Bytes()
			}
			var m string
			b, m = c30Mutate(t, b, p, other, fmt.Sprintf("m%d", i))
			muts = append(muts, m)
		}
		if len(b) > 4096 {
			b = b[:4096]
		}
		c.Logf("decode type=%#x muts=%v bytes=%x", p.PDUType(), muts, b)
		c30Journal("C30 decode %x", b)
		kinds := map[uint8]bool{}
		for _, tl := range p.TLVs {
			kinds[tl.Type] = true
		}
		c.NonTrivialIf(len(kinds) >= 3)
		c.Class(fmt.Sprintf("pdutype_%s", c30WantBody(p.PDUType())))
		for _, m := range muts {
			c.Class("mut_" + m)
		}
		c.ClassIf(nmut == 0, "unmutated")
		msg, ok := c30CheckDecodeTotal(b)
		if msg != "" {
			t.Fatalf("%s", msg)
		}
		c.ClassIf(ok, "decode_ok")
		c.ClassIf(!ok, "decode_err")
		c.ClassIf(ok && nmut > 0, "decode_ok_mutated")
	})
}

// ---------------------------------------------------------------------------
// round trip: PDUs built through bio-rd's constructors

// c30TLV pairs a bio-rd TLV object with the independently encoded value the
// wire must carry for it.
type c30TLV struct {
	kind string
	obj  packet.TLV
	typ  uint8
	raw  []byte
	// typed content for the decoded-side comparison
	check func(dec packet.TLV) string
}

func c30U32(v uint32) []byte { b := make([]byte, 4); binary.BigEndian.PutUint32(b, v); return b }
func c30U16(v uint16) []byte { b := make([]byte, 2); binary.BigEndian.PutUint16(b, v); return b }

func c30GenSysID(t *rapid.T, label string) types.SystemID {
	var s types.SystemID
	switch rapid.IntRange(0, 3).Draw(t, label+"_mode") {
	case 0:
	case 1:
		s = types.SystemID{0xff, 0xff, 0xff, 0xff, 0xff, 0xff}
	default:
		for i := range s {
			s[i] = rapid.Byte().Draw(t, label)
		}
	}
	return s
}

func c30GenU32(t *rapid.T, label string) uint32 {
	switch rapid.IntRange(0, 4).Draw(t, label+"_mode") {
	case 0:
		return 0
	case 1:
		return 0xffffffff
	case 2:
		return uint32(rapid.IntRange(0, 300).Draw(t, label))
	}
	return rapid.Uint32().Draw(t, label)
}

func c30GenU16(t *rapid.T, label string) uint16 {
	switch rapid.IntRange(0, 3).Draw(t, label+"_mode") {
	case 0:
		return 0
	case 1:
		return 0xffff
	}
	return rapid.Uint16().Draw(t, label)
}

func c30GenLSPID(t *rapid.T, label string) packet.LSPID {
	return packet.LSPID{SystemID: c30GenSysID(t, label+"_sys"), PseudonodeID: rapid.Byte().Draw(t, label+"_pn"), LSPNumber: rapid.Byte().Draw(t, label+"_no")}
}

func c30LSPIDBytes(l packet.LSPID) []byte {
	return append(append([]byte(nil), l.SystemID[:]...), l.PseudonodeID, l.LSPNumber)
}

func c30GenEntry(t *rapid.T, label string) *packet.LSPEntry {
	return &packet.LSPEntry{
		RemainingLifetime: c30GenU16(t, label+"_life"),
		LSPID:             c30GenLSPID(t, label+"_id"),
		SequenceNumber:    c30GenU32(t, label+"_seq"),
		LSPChecksum:       c30GenU16(t, label+"_cks"),
	}
}

func c30EntryBytes(e *packet.LSPEntry) []byte {
	b := c30U16(e.RemainingLifetime)
	b = append(b, c30LSPIDBytes(e.LSPID)...)
	b = append(b, c30U32(e.SequenceNumber)...)
	b = append(b, c30U16(e.LSPChecksum)...)
	return b
}

func c30EntriesTLV(entries []*packet.LSPEntry) c30TLV {
	cp := make([]*packet.LSPEntry, len(entries))
	var raw []byte
	for i, e := range entries {
		x := *e
		cp[i] = &x
		raw = append(raw, c30EntryBytes(e)...)
	}
	want := make([]packet.LSPEntry, len(entries))
	for i, e := range entries {
		want[i] = *e
	}
	return c30TLV{kind: "lspentries", obj: packet.NewLSPEntriesTLV(cp), typ: 9, raw: raw, check: func(dec packet.TLV) string {
		d, ok := dec.(*packet.LSPEntriesTLV)
		if !ok {
			return fmt.Sprintf("decoded as %T", dec)
		}
		if len(d.LSPEntries) != len(want) {
			return fmt.Sprintf("%d entries decoded, %d serialized", len(d.LSPEntries), len(want))
		}
		for i := range want {
			if *d.LSPEntries[i] != want[i] {
				return fmt.Sprintf("entry %d decoded as %+v, serialized %+v", i, *d.LSPEntries[i], want[i])
			}
		}
		return ""
	}}
}

// c30GenTLV draws one TLV through bio-rd's constructors with bounded
// contents (every value fits the one-octet TLV length).
func c30GenTLV(t *rapid.T, label string) c30TLV {
	kinds := []string{"area", "protos", "ipifa", "hostname", "p2padj5", "p2padj15", "padding", "unknown", "checksum", "isneigh", "terid", "extip", "extis", "lspentries"}
	kind := rapid.SampledFrom(kinds).Draw(t, label+"_kind")
	switch kind {
	case "area":
		var areas []types.AreaID
		var raw []byte
		for i, n := 0, rapid.IntRange(0, 4).Draw(t, label+"_n"); i < n; i++ {
			a := c30GenBytes(t, 0, 13, label+"_area")
			areas = append(areas, types.AreaID(a))
			raw = append(raw, byte(len(a)))
			raw = append(raw, a...)
		}
		want := make([]string, len(areas))
		for i, a := range areas {
			want[i] = fmt.Sprintf("%x", []byte(a))
		}
		return c30TLV{kind: kind, obj: packet.NewAreaAddressesTLV(areas), typ: 1, raw: raw, check: func(dec packet.TLV) string {
			d, ok := dec.(*packet.AreaAddressesTLV)
			if !ok {
				return fmt.Sprintf("decoded as %T", dec)
			}
			got := make([]string, len(d.AreaIDs))
			for i, a := range d.AreaIDs {
				got[i] = fmt.Sprintf("%x", []byte(a))
			}
			if strings.Join(got, ",") != strings.Join(want, ",") || len(got) != len(want) {
				return fmt.Sprintf("areas decoded %v, serialized %v", got, want)
			}
			return ""
		}}
	case "protos":
		ids := c30GenBytes(t, 0, 6, label+"_ids")
		if rapid.Bool().Draw(t, label+"_std") {
			ids = []byte{packet.NLPIDIPv4, packet.NLPIDIPv6}
		}
		want := append([]byte(nil), ids...)
		return c30TLV{kind: kind, obj: packet.NewProtocolsSupportedTLV(ids), typ: 129, raw: want, check: func(dec packet.TLV) string {
			d, ok := dec.(*packet.ProtocolsSupportedTLV)
			if !ok {
				return fmt.Sprintf("decoded as %T", dec)
			}
			if !bytes.Equal(d.NetworkLayerProtocolIDs, want) {
				return fmt.Sprintf("NLPIDs decoded %x, serialized %x", d.NetworkLayerProtocolIDs, want)
			}
			return ""
		}}
	case "ipifa":
		var pfxs []*bnet.Prefix
		var raw []byte
		var want []uint32
		for i, n := 0, rapid.IntRange(0, 8).Draw(t, label+"_n"); i < n; i++ {
			a := c30GenU32(t, label+"_addr")
			pfxs = append(pfxs, bnet.NewPfx(bnet.IPv4(a), uint8(rapid.IntRange(0, 32).Draw(t, label+"_len"))).Ptr())
			raw = append(raw, c30U32(a)...)
			want = append(want, a)
		}
		return c30TLV{kind: kind, obj: packet.NewIPInterfaceAddressesTLV(pfxs), typ: 132, raw: raw, check: func(dec packet.TLV) string {
			d, ok := dec.(*packet.IPInterfaceAddressesTLV)
			if !ok {
				return fmt.Sprintf("decoded as %T", dec)
			}
			if fmt.Sprint(d.IPv4Addresses) != fmt.Sprint(want) && !(len(want) == 0 && len(d.IPv4Addresses) == 0) {
				return fmt.Sprintf("addresses decoded %v, serialized %v", d.IPv4Addresses, want)
			}
			return ""
		}}
	case "hostname":
		h := c30GenBytes(t, 0, 64, label+"_host")
		want := append([]byte(nil), h...)
		return c30TLV{kind: kind, obj: packet.NewDynamicHostnameTLV(h), typ: 137, raw: want, check: func(dec packet.TLV) string {
			d, ok := dec.(*packet.DynamicHostNameTLV)
			if !ok {
				return fmt.Sprintf("decoded as %T", dec)
			}
			if !bytes.Equal(d.Hostname, want) {
				return fmt.Sprintf("hostname decoded %x, serialized %x", d.Hostname, want)
			}
			return ""
		}}
	case "p2padj5", "p2padj15":
		state := rapid.SampledFrom([]uint8{packet.P2PAdjStateUp, packet.P2PAdjStateInit, packet.P2PAdjStateDown, 3, 255}).Draw(t, label+"_state")
		cid := c30GenU32(t, label+"_cid")
		o := packet.NewP2PAdjacencyStateTLV(state, cid)
		raw := append([]byte{state}, c30U32(cid)...)
		if kind == "p2padj15" { // as hello_sender.go builds it for a known neighbour
			o.NeighborSystemID = c30GenSysID(t, label+"_nsys")
			o.NeighborExtendedLocalCircuitID = c30GenU32(t, label+"_ncid")
			o.TLVLength = packet.P2PAdjacencyStateTLVLenWithNeighbor
			raw = append(raw, o.NeighborSystemID[:]...)
			raw = append(raw, c30U32(o.NeighborExtendedLocalCircuitID)...)
		}
		want := *o
		return c30TLV{kind: kind, obj: o, typ: 240, raw: raw, check: func(dec packet.TLV) string {
			d, ok := dec.(*packet.P2PAdjacencyStateTLV)
			if !ok {
				return fmt.Sprintf("decoded as %T", dec)
			}
			if *d != want {
				return fmt.Sprintf("three-way TLV decoded %+v, serialized %+v", *d, want)
			}
			return ""
		}}
	case "padding":
		n := rapid.SampledFrom([]int{0, 1, 2, 100, 253, 254, 255}).Draw(t, label+"_n")
		return c30TLV{kind: kind, obj: packet.NewPaddingTLV(uint8(n)), typ: 8, raw: make([]byte, n)}
	case "unknown":
		typ := rapid.Byte().Draw(t, label+"_type")
		for c30Interpreted[typ] {
			typ++
		}
		v := c30GenBytes(t, 0, 60, label+"_val")
		if rapid.IntRange(0, 9).Draw(t, label+"_max") == 0 {
			v = c30GenBytes(t, 255, 255, label+"_val255")
		}
		return c30TLV{kind: kind, obj: &packet.UnknownTLV{TLVType: typ, TLVLength: uint8(len(v)), TLVValue: v}, typ: typ, raw: append([]byte(nil), v...)}
	case "checksum":
		ck := c30GenU16(t, label+"_cks")
		return c30TLV{kind: kind, obj: &packet.ChecksumTLV{TLVType: packet.ChecksumTLVType, TLVLength: 2, Checksum: ck}, typ: 12, raw: c30U16(ck), check: func(dec packet.TLV) string {
			d, ok := dec.(*packet.ChecksumTLV)
			if !ok {
				return fmt.Sprintf("decoded as %T", dec)
			}
			if d.Checksum != ck {
				return fmt.Sprintf("checksum decoded %#x, serialized %#x", d.Checksum, ck)
			}
			return ""
		}}
	case "isneigh":
		snpa := c30GenSysID(t, label+"_snpa")
		return c30TLV{kind: kind, obj: &packet.ISNeighborsTLV{TLVType: packet.ISNeighborsTLVType, TLVLength: 6, NeighborSNPA: snpa}, typ: 6, raw: append([]byte(nil), snpa[:]...), check: func(dec packet.TLV) string {
			d, ok := dec.(*packet.ISNeighborsTLV)
			if !ok {
				return fmt.Sprintf("decoded as %T", dec)
			}
			if d.NeighborSNPA != snpa {
				return fmt.Sprintf("SNPA decoded %x, serialized %x", d.NeighborSNPA, snpa)
			}
			return ""
		}}
	case "terid":
		a := c30GenU32(t, label+"_addr")
		return c30TLV{kind: kind, obj: packet.NewTrafficEngineeringRouterIDTLV(a), typ: 134, raw: c30U32(a)}
	case "extip":
		o := packet.NewExtendedIPReachabilityTLV()
		var raw []byte
		for i, n := 0, rapid.IntRange(0, 8).Draw(t, label+"_n"); i < n; i++ {
			metric := c30GenU32(t, label+"_metric")
			plen := uint8(rapid.IntRange(0, 32).Draw(t, label+"_plen"))
			addr := c30GenU32(t, label+"_addr")
			if plen < 32 { // callers pass the base address of an interface prefix
				addr &^= (uint32(1) << (32 - plen)) - 1
			}
			// control octet: up/down bit (RFC 5305 section 4) | sub-TLV bit (never set: bio-rd has no sub-TLVs to send) | 6 bit prefix length
			ctl := plen
			if rapid.IntRange(0, 3).Draw(t, label+"_updown") == 0 {
				ctl |= 0x80
			}
			o.AddExtendedIPReachability(packet.NewExtendedIPReachability(metric, ctl, addr))
			raw = append(raw, c30U32(metric)...)
			raw = append(raw, ctl)
			raw = append(raw, c30U32(addr)[:(int(plen)+7)/8]...)
		}
		return c30TLV{kind: kind, obj: o, typ: 135, raw: raw}
	case "extis":
		o := packet.NewExtendedISReachabilityTLV()
		var raw []byte
		for i, n := 0, rapid.IntRange(0, 3).Draw(t, label+"_n"); i < n; i++ {
			id := types.SourceID{SystemID: c30GenSysID(t, label+"_nid"), CircuitID: rapid.Byte().Draw(t, label+"_ncirc")}
			metric := uint32(rapid.IntRange(0, 0xffffff).Draw(t, label+"_metric"))
			nb := packet.NewExtendedISReachabilityNeighbor(id, metric)
			var sub []byte
			for j, m := 0, rapid.IntRange(0, 2).Draw(t, label+"_nifa"); j < m; j++ {
				a := c30GenU32(t, label+"_ifa")
				nb.AddSubTLV(packet.NewIPv4InterfaceAddressSubTLV(a))
				sub = append(sub, 6, 4)
				sub = append(sub, c30U32(a)...)
			}
			for j, m := 0, rapid.IntRange(0, 2).Draw(t, label+"_nnbr"); j < m; j++ {
				a := c30GenU32(t, label+"_nbr")
				nb.AddSubTLV(packet.NewIPv4NeighborAddressSubTLV(a))
				sub = append(sub, 8, 4)
				sub = append(sub, c30U32(a)...)
			}
			if rapid.Bool().Draw(t, label+"_llri") {
				l, r := c30GenU32(t, label+"_local"), c30GenU32(t, label+"_remote")
				nb.AddSubTLV(packet.NewLinkLocalRemoteIdentifiersSubTLV(l, r))
				sub = append(sub, 4, 8)
				sub = append(sub, c30U32(l)...)
				sub = append(sub, c30U32(r)...)
			}
			o.AddNeighbor(nb)
			raw = append(raw, id.SystemID[:]...)
			raw = append(raw, id.CircuitID)
			raw = append(raw, c30U32(metric)[1:]...)
			raw = append(raw, byte(len(sub)))
			raw = append(raw, sub...)
		}
		return c30TLV{kind: kind, obj: o, typ: 22, raw: raw}
	default: // lspentries, at most 15 (one TLV)
		var es []*packet.LSPEntry
		for i, n := 0, rapid.SampledFrom([]int{0, 1, 2, 3, 14, 15}).Draw(t, label+"_n"); i < n; i++ {
			es = append(es, c30GenEntry(t, fmt.Sprintf("%s_e%d", label, i)))
		}
		return c30EntriesTLV(es)
	}
}

// c30PDU is one generated PDU: the bio-rd objects and the expected wire image.
type c30PDU struct {
	name  string
	hdr   packet.ISISHeader
	body  packet.Serializable
	fixed []byte // expected fixed part (after the header)
	tlvs  []c30TLV
	// compares the decoded body's fixed fields with the generated ones
	cmpFixed func(body interface{}) string
}

func c30GenHeader(t *rapid.T, pduType uint8) packet.ISISHeader {
	h := packet.ISISHeader{ProtoDiscriminator: 0x83, LengthIndicator: 0, ProtocolIDExtension: 1, IDLength: 0, PDUType: pduType, Version: 1, MaxAreaAddresses: 0}
	switch pduType { // as server.getHeader
	case packet.P2P_HELLO:
		h.LengthIndicator = packet.P2PHelloMinLen
	case packet.L2_LS_PDU_TYPE:
		h.LengthIndicator = packet.LSPDUMinLen
	case packet.L2_CSNP_TYPE:
		h.LengthIndicator = packet.CSNPMinLen
	case packet.L2_PSNP_TYPE:
		h.LengthIndicator = packet.PSNPMinLen
	}
	if rapid.IntRange(0, 3).Draw(t, "hdr_random") == 0 {
		h.ProtoDiscriminator = rapid.Byte().Draw(t, "hdr_pd")
		h.LengthIndicator = rapid.Byte().Draw(t, "hdr_li")
		h.ProtocolIDExtension = rapid.Byte().Draw(t, "hdr_ext")
		h.IDLength = rapid.Byte().Draw(t, "hdr_idlen")
		h.Version = rapid.Byte().Draw(t, "hdr_ver")
		h.MaxAreaAddresses = rapid.Byte().Draw(t, "hdr_maxarea")
	}
	return h
}

func c30HeaderBytes(h packet.ISISHeader) []byte {
	return []byte{h.ProtoDiscriminator, h.LengthIndicator, h.ProtocolIDExtension, h.IDLength, h.PDUType, h.Version, 0, h.MaxAreaAddresses}
}

func c30TLVObjs(tlvs []c30TLV) []packet.TLV {
	out := make([]packet.TLV, len(tlvs))
	for i := range tlvs {
		out[i] = tlvs[i].obj
	}
	return out
}

func c30TLVsLen(tlvs []c30TLV) int {
	n := 0
	for _, tl := range tlvs {
		n += 2 + len(tl.raw)
	}
	return n
}

func c30GenPDU(t *rapid.T) *c30PDU {
	which := rapid.SampledFrom([]string{"hello", "lsp", "csnp", "psnp"}).Draw(t, "pdu")
	p := &c30PDU{name: which}
	switch which {
	case "hello", "lsp":
		for i, n := 0, rapid.IntRange(0, 6).Draw(t, "ntlv"); i < n; i++ {
			p.tlvs = append(p.tlvs, c30GenTLV(t, fmt.Sprintf("tlv%d", i)))
		}
		// an LSP / hello is at most ~1492 bytes on the wire; keep the generated PDU within an MTU
		for c30TLVsLen(p.tlvs) > 1400 {
			p.tlvs = p.tlvs[:len(p.tlvs)-1]
		}
	default: // SNPs carry LSP entries TLVs (each at most 15 entries)
		for i, n := 0, rapid.IntRange(0, 3).Draw(t, "ntlv"); i < n; i++ {
			var es []*packet.LSPEntry
			for j, m := 0, rapid.SampledFrom([]int{1, 2, 15}).Draw(t, fmt.Sprintf("tlv%d_n", i)); j < m; j++ {
				es = append(es, c30GenEntry(t, fmt.Sprintf("tlv%d_e%d", i, j)))
			}
			p.tlvs = append(p.tlvs, c30EntriesTLV(es))
		}
		if rapid.IntRange(0, 3).Draw(t, "snp_extra") == 0 {
			p.tlvs = append(p.tlvs, c30GenTLV(t, "extra"))
		}
	}
	tl := c30TLVsLen(p.tlvs)
	switch which {
	case "hello":
		h := &packet.P2PHello{
			CircuitType:    rapid.SampledFrom([]uint8{1, 2, 3, 0, 255}).Draw(t, "circuittype"),
			SystemID:       c30GenSysID(t, "sys"),
			HoldingTimer:   c30GenU16(t, "hold"),
			PDULength:      packet.P2PHelloMinLen, // Serialize computes it (as hello_sender.go relies on)
			LocalCircuitID: rapid.Byte().Draw(t, "lcid"),
			TLVs:           c30TLVObjs(p.tlvs),
		}
		p.hdr, p.body = c30GenHeader(t, packet.P2P_HELLO), h
		p.fixed = append([]byte{h.CircuitType}, h.SystemID[:]...)
		p.fixed = append(p.fixed, c30U16(h.HoldingTimer)...)
		p.fixed = append(p.fixed, c30U16(uint16(20+tl))...)
		p.fixed = append(p.fixed, h.LocalCircuitID)
		want := *h
		p.cmpFixed = func(body interface{}) string {
			d := body.(*packet.P2PHello)
			if d.CircuitType != want.CircuitType || d.SystemID != want.SystemID || d.HoldingTimer != want.HoldingTimer || d.LocalCircuitID != want.LocalCircuitID || int(d.PDULength) != 20+tl {
				return fmt.Sprintf("hello fixed fields decoded {ct=%d sys=%x hold=%d len=%d lcid=%d}, serialized {ct=%d sys=%x hold=%d len=%d lcid=%d}",
					d.CircuitType, d.SystemID, d.HoldingTimer, d.PDULength, d.LocalCircuitID, want.CircuitType, want.SystemID, want.HoldingTimer, 20+tl, want.LocalCircuitID)
			}
			return ""
		}
	case "lsp":
		l := &packet.LSPDU{
			RemainingLifetime: c30GenU16(t, "life"),
			LSPID:             c30GenLSPID(t, "lspid"),
			SequenceNumber:    c30GenU32(t, "seq"),
			TypeBlock:         rapid.SampledFrom([]uint8{0, 1, 3, 0x0b, 0xff}).Draw(t, "typeblock"),
			TLVs:              c30TLVObjs(p.tlvs),
		}
		l.UpdateLength() // as generateLocalLSP does
		l.SetChecksum()
		p.hdr, p.body = c30GenHeader(t, packet.L2_LS_PDU_TYPE), l
		p.fixed = append(c30U16(uint16(27+tl)), c30U16(l.RemainingLifetime)...)
		p.fixed = append(p.fixed, c30LSPIDBytes(l.LSPID)...)
		p.fixed = append(p.fixed, c30U32(l.SequenceNumber)...)
		p.fixed = append(p.fixed, c30U16(l.Checksum)...)
		p.fixed = append(p.fixed, l.TypeBlock)
		want := *l
		p.cmpFixed = func(body interface{}) string {
			d := body.(*packet.LSPDU)
			if int(d.Length) != 27+tl || d.RemainingLifetime != want.RemainingLifetime || d.LSPID != want.LSPID || d.SequenceNumber != want.SequenceNumber || d.Checksum != want.Checksum || d.TypeBlock != want.TypeBlock {
				return fmt.Sprintf("LSP fixed fields decoded {len=%d life=%d id=%v seq=%d cks=%#x tb=%#x}, serialized {len=%d life=%d id=%v seq=%d cks=%#x tb=%#x}",
					d.Length, d.RemainingLifetime, d.LSPID, d.SequenceNumber, d.Checksum, d.TypeBlock, 27+tl, want.RemainingLifetime, want.LSPID, want.SequenceNumber, want.Checksum, want.TypeBlock)
			}
			return ""
		}
	case "csnp":
		s := &packet.CSNP{
			PDULength:  uint16(packet.CSNPMinLen + tl), // as newCSNP computes it
			SourceID:   types.SourceID{SystemID: c30GenSysID(t, "src"), CircuitID: rapid.Byte().Draw(t, "srccirc")},
			StartLSPID: c30GenLSPID(t, "start"),
			EndLSPID:   c30GenLSPID(t, "end"),
			TLVs:       c30TLVObjs(p.tlvs),
		}
		p.hdr, p.body = c30GenHeader(t, packet.L2_CSNP_TYPE), s
		p.fixed = append(c30U16(s.PDULength), s.SourceID.SystemID[:]...)
		p.fixed = append(p.fixed, s.SourceID.CircuitID)
		p.fixed = append(p.fixed, c30LSPIDBytes(s.StartLSPID)...)
		p.fixed = append(p.fixed, c30LSPIDBytes(s.EndLSPID)...)
		want := *s
		p.cmpFixed = func(body interface{}) string {
			d := body.(*packet.CSNP)
			if d.PDULength != want.PDULength || d.SourceID != want.SourceID || d.StartLSPID != want.StartLSPID || d.EndLSPID != want.EndLSPID {
				return fmt.Sprintf("CSNP fixed fields decoded {len=%d src=%v start=%v end=%v}, serialized {len=%d src=%v start=%v end=%v}",
					d.PDULength, d.SourceID, d.StartLSPID, d.EndLSPID, want.PDULength, want.SourceID, want.StartLSPID, want.EndLSPID)
			}
			return ""
		}
	default:
		s := &packet.PSNP{
			PDULength: uint16(packet.PSNPMinLen + tl),
			SourceID:  types.SourceID{SystemID: c30GenSysID(t, "src"), CircuitID: rapid.Byte().Draw(t, "srccirc")},
			TLVs:      c30TLVObjs(p.tlvs),
		}
		p.hdr, p.body = c30GenHeader(t, packet.L2_PSNP_TYPE), s
		p.fixed = append(c30U16(s.PDULength), s.SourceID.SystemID[:]...)
		p.fixed = append(p.fixed, s.SourceID.CircuitID)
		want := *s
		p.cmpFixed = func(body interface{}) string {
			d := body.(*packet.PSNP)
			if d.PDULength != want.PDULength || d.SourceID != want.SourceID {
				return fmt.Sprintf("PSNP fixed fields decoded {len=%d src=%v}, serialized {len=%d src=%v}", d.PDULength, d.SourceID, want.PDULength, want.SourceID)
			}
			return ""
		}
	}
	return p
}

// c30Wire serializes header+body the way net_ifa_tx.go does and prepends the
// LLC the ethernet layer adds. A panic is returned as text.
func c30Wire(hdr packet.ISISHeader, body packet.Serializable) (wire []byte, msg string) {
	if p := c30Safely("Serialize", func() {
		buf := bytes.NewBuffer(nil)
		body.Serialize(buf)
		hb := bytes.NewBuffer(nil)
		hdr.Serialize(hb)
		hb.Write(buf.Bytes())
		wire = append(append([]byte(nil), c30LLC[:]...), hb.Bytes()...)
	}); p != nil {
		return nil, fmt.Sprintf("Serialize panicked: %v", p.val)
	}
	return wire, ""
}

func c30DecodedTLVs(body interface{}) []packet.TLV {
	switch b := body.(type) {
	case *packet.P2PHello:
		return b.TLVs
	case *packet.LSPDU:
		return b.TLVs
	case *packet.CSNP:
		return b.TLVs
	case *packet.PSNP:
		return b.TLVs
	}
	return nil
}

func c30TLVBytes(tl packet.TLV) []byte {
	buf := bytes.NewBuffer(nil)
	tl.Serialize(buf)
	return buf.Bytes()
}

// c30CheckRoundTrip is the round-trip oracle for one generated PDU.
func c30CheckRoundTrip(p *c30PDU) string {
	wire, msg := c30Wire(p.hdr, p.body)
	if msg != "" {
		return msg
	}
	// (a) independent strict parse of what was serialized
	w, err := kit.ParseISIS(wire)
	if err != nil {
		return fmt.Sprintf("%s: serialized PDU is not a well-formed IS-IS PDU: %v\nwire: %x", p.name, err, wire)
	}
	if !bytes.Equal(w.Hdr[:], c30HeaderBytes(p.hdr)) {
		return fmt.Sprintf("%s: common header on the wire %x, fields say %x", p.name, w.Hdr, c30HeaderBytes(p.hdr))
	}
	if !bytes.Equal(w.Fixed, p.fixed) {
		return fmt.Sprintf("%s: fixed part on the wire %x, fields (ISO 10589 layout) say %x", p.name, w.Fixed, p.fixed)
	}
	if dl, ok := w.DeclaredPDULength(); ok && dl != len(wire)-3 {
		return fmt.Sprintf("%s: PDU length field says %d, PDU is %d bytes", p.name, dl, len(wire)-3)
	}
	if len(w.TLVs) != len(p.tlvs) {
		return fmt.Sprintf("%s: %d TLVs on the wire, %d serialized\nwire: %x", p.name, len(w.TLVs), len(p.tlvs), wire)
	}
	for i, tl := range p.tlvs {
		if w.TLVs[i].Type != tl.typ || !bytes.Equal(w.TLVs[i].Value, tl.raw) {
			return fmt.Sprintf("%s: TLV %d (%s) on the wire is (type %d, len %d, %x), contents say (type %d, len %d, %x)", p.name, i, tl.kind, w.TLVs[i].Type, w.TLVs[i].Len, w.TLVs[i].Value, tl.typ, len(tl.raw), tl.raw)
		}
	}
	// (b) bio-rd decodes it to the same content
	var pkt *packet.ISISPacket
	if pn := c30Safely("Decode", func() { pkt, err = packet.Decode(bytes.NewBuffer(append([]byte(nil), wire...))) }); pn != nil {
		return fmt.Sprintf("%s: packet.Decode panicked on a PDU bio-rd serialized: %v\nwire: %x", p.name, pn.val, wire)
	}
	if err != nil {
		return fmt.Sprintf("%s: packet.Decode rejects a PDU bio-rd serialized: %v\nwire: %x", p.name, err, wire)
	}
	if *pkt.Header != p.hdr {
		return fmt.Sprintf("%s: header decoded %+v, serialized %+v", p.name, *pkt.Header, p.hdr)
	}
	if got, want := c30BodyName(pkt.Body), c30WantBody(p.hdr.PDUType); got != want {
		return fmt.Sprintf("%s: decoded body %s, want %s", p.name, got, want)
	}
	if m := p.cmpFixed(pkt.Body); m != "" {
		return p.name + ": " + m
	}
	dt := c30DecodedTLVs(pkt.Body)
	if len(dt) != len(p.tlvs) {
		return fmt.Sprintf("%s: %d TLVs decoded, %d serialized\nwire: %x", p.name, len(dt), len(p.tlvs), wire)
	}
	for i, tl := range p.tlvs {
		want := append([]byte{tl.typ, byte(len(tl.raw))}, tl.raw...)
		if dt[i].Type() != tl.typ || int(dt[i].Length()) != len(tl.raw) || !bytes.Equal(c30TLVBytes(dt[i]), want) {
			return fmt.Sprintf("%s: TLV %d (%s) decoded as (type %d, len %d, %x), serialized (type %d, len %d, %x)", p.name, i, tl.kind, dt[i].Type(), dt[i].Length(), c30TLVBytes(dt[i]), tl.typ, len(tl.raw), want)
		}
		if tl.check != nil {
			if m := tl.check(dt[i]); m != "" {
				return fmt.Sprintf("%s: TLV %d (%s): %s", p.name, i, tl.kind, m)
			}
		}
	}
	// (c) serialize(decode(x)) == x
	var again []byte
	if pn := c30Safely("Serialize(decoded)", func() { again = c30SerializePacket(pkt) }); pn != nil {
		return fmt.Sprintf("%s: serializing the decoded PDU panicked: %v", p.name, pn.val)
	}
	if !bytes.Equal(again, wire[3:]) {
		return fmt.Sprintf("%s: serialize(decode(x)) differs from x\n x: %x\n y: %x", p.name, wire[3:], again)
	}
	return ""
}

func TestVerifC30RoundTrip(t *testing.T) {
	rec := kit.NewRecorder(t, "C30", c30Rule)
	rapid.Check(t, func(t *rapid.T) {
		c := rec.Case()
		defer c.Done()
		p := c30GenPDU(t)
		kinds := map[string]bool{}
		var ks []string
		for _, tl := range p.tlvs {
			kinds[tl.kind] = true
			ks = append(ks, fmt.Sprintf("%s:%x", tl.kind, tl.raw))
			c.Class("tlv_" + tl.kind)
		}
		c.Logf("roundtrip %s hdr=%x fixed=%x tlvs=%v", p.name, c30HeaderBytes(p.hdr), p.fixed, ks)
		c.Class("pdu_" + p.name)
		c.NonTrivialIf(len(kinds) >= 3)
		if msg := c30CheckRoundTrip(p); msg != "" {
			t.Fatalf("%s", msg)
		}
	})
}

// ---------------------------------------------------------------------------
// SNP sets

const (
	c30SigCSNPLeft = "C30/newsnps-partial-last-pdu"
	c30SigTLVWrap  = "C30/lsp-entries-tlv-length-wrap"
)

// c30MakeEntries builds n entries with distinct LSP IDs (the LSDB is a map
// keyed by LSP ID) in a shuffled order; the other fields vary.
func c30MakeEntries(n int, salt uint32, shuffle func(i int) int) []*packet.LSPEntry {
	es := make([]*packet.LSPEntry, n)
	for i := 0; i < n; i++ {
		k := uint32(i)*2654435761 + salt
		es[i] = &packet.LSPEntry{
			RemainingLifetime: uint16(k>>7) | 1,
			LSPID: packet.LSPID{
				SystemID:     types.SystemID{byte(salt), byte(salt >> 8), 0, 0, byte(i >> 8), byte(i)},
				PseudonodeID: byte(k >> 3 & 1),
				LSPNumber:    0,
			},
			SequenceNumber: k | 1,
			LSPChecksum:    uint16(k >> 11),
		}
	}
	for i := n - 1; i > 0; i-- {
		j := shuffle(i)
		es[i], es[j] = es[j], es[i]
	}
	return es
}

func c30EntryKey(e packet.LSPEntry) string {
	return fmt.Sprintf("%x/%02x/%02x seq=%d life=%d cks=%d", e.LSPID.SystemID, e.LSPID.PseudonodeID, e.LSPID.LSPNumber, e.SequenceNumber, e.RemainingLifetime, e.LSPChecksum)
}

func c30SameMultiset(got []packet.LSPEntry, want []packet.LSPEntry) string {
	g := make([]string, len(got))
	w := make([]string, len(want))
	for i, e := range got {
		g[i] = c30EntryKey(e)
	}
	for i, e := range want {
		w[i] = c30EntryKey(e)
	}
	sort.Strings(g)
	sort.Strings(w)
	if len(g) != len(w) {
		return fmt.Sprintf("%d entries, want %d", len(g), len(w))
	}
	for i := range g {
		if g[i] != w[i] {
			return fmt.Sprintf("entry sets differ, first difference: got %q want %q", g[i], w[i])
		}
	}
	return ""
}

func c30WireEntries(w *kit.ISISPDU) ([]packet.LSPEntry, string) {
	var out []packet.LSPEntry
	for i, tl := range w.TLVs {
		if tl.Type != 9 {
			continue
		}
		if len(tl.Value)%16 != 0 {
			return nil, fmt.Sprintf("LSP entries TLV %d has length %d, not a multiple of 16", i, len(tl.Value))
		}
		for o := 0; o < len(tl.Value); o += 16 {
			v := tl.Value[o : o+16]
			var e packet.LSPEntry
			e.RemainingLifetime = binary.BigEndian.Uint16(v)
			copy(e.LSPID.SystemID[:], v[2:8])
			e.LSPID.PseudonodeID, e.LSPID.LSPNumber = v[8], v[9]
			e.SequenceNumber = binary.BigEndian.Uint32(v[10:])
			e.LSPChecksum = binary.BigEndian.Uint16(v[14:])
			out = append(out, e)
		}
	}
	return out, ""
}

// c30CheckSNPSet runs NewCSNPs or NewPSNPs and judges the produced set.
// It returns (violation text, signature, number of PDUs).
func c30CheckSNPSet(csnp bool, entries []*packet.LSPEntry, mtu int) (string, string, int) {
	name := "NewPSNPs"
	if csnp {
		name = "NewCSNPs"
	}
	want := make([]packet.LSPEntry, len(entries))
	for i, e := range entries {
		want[i] = *e
	}
	in := make([]*packet.LSPEntry, len(entries))
	for i := range entries {
		x := *entries[i]
		in[i] = &x
	}
	src := types.SourceID{SystemID: types.SystemID{12, 12, 12, 13, 13, 13}}
	var bodies []packet.Serializable
	var memTLVs [][]packet.TLV
	var getEntries []func() []*packet.LSPEntry
	if p := c30Safely(name, func() {
		if csnp {
			res := packet.NewCSNPs(src, in, mtu)
			for i := range res {
				bodies = append(bodies, &res[i])
				memTLVs = append(memTLVs, res[i].TLVs)
			}
		} else {
			res := packet.NewPSNPs(src, in, mtu)
			for i := range res {
				bodies = append(bodies, &res[i])
				memTLVs = append(memTLVs, res[i].TLVs)
			}
		}
	}); p != nil {
		return fmt.Sprintf("%s(%d entries, MTU %d) panicked: %v", name, len(entries), mtu, p.val), c30SigCSNPLeft, 0
	}
	_ = getEntries
	// union in memory
	var mem []packet.LSPEntry
	for _, tlvs := range memTLVs {
		for _, tl := range tlvs {
			if l, ok := tl.(*packet.LSPEntriesTLV); ok {
				for _, e := range l.LSPEntries {
					mem = append(mem, *e)
				}
			}
		}
	}
	if m := c30SameMultiset(mem, want); m != "" {
		return fmt.Sprintf("%s(%d entries, MTU %d): union of the entries of the %d produced PDUs != input: %s", name, len(entries), mtu, len(bodies), m), "", len(bodies)
	}
	pduType := uint8(packet.L2_PSNP_TYPE)
	if csnp {
		pduType = packet.L2_CSNP_TYPE
	}
	hdr := packet.ISISHeader{ProtoDiscriminator: 0x83, LengthIndicator: packet.PSNPMinLen, ProtocolIDExtension: 1, PDUType: pduType, Version: 1}
	var onWire, decoded, viaGetter []packet.LSPEntry
	for i, b := range bodies {
		wire, msg := c30Wire(hdr, b)
		if msg != "" {
			return fmt.Sprintf("%s(%d entries, MTU %d) PDU %d: %s", name, len(entries), mtu, i, msg), "", len(bodies)
		}
		w, err := kit.ParseISIS(wire)
		if err != nil {
			return fmt.Sprintf("%s(%d entries, MTU %d) PDU %d of %d is not a well-formed PDU on the wire: %v (%d bytes)", name, len(entries), mtu, i, len(bodies), err, len(wire)), c30SigTLVWrap, len(bodies)
		}
		if dl, ok := w.DeclaredPDULength(); ok && dl != len(wire)-3 {
			return fmt.Sprintf("%s(%d entries, MTU %d) PDU %d: PDU length field %d, PDU is %d bytes", name, len(entries), mtu, i, dl, len(wire)-3), "", len(bodies)
		}
		we, m := c30WireEntries(w)
		if m != "" {
			return fmt.Sprintf("%s(%d entries, MTU %d) PDU %d: %s", name, len(entries), mtu, i, m), c30SigTLVWrap, len(bodies)
		}
		onWire = append(onWire, we...)
		var pkt *packet.ISISPacket
		if pn := c30Safely("Decode", func() { pkt, err = packet.Decode(bytes.NewBuffer(append([]byte(nil), wire...))) }); pn != nil {
			return fmt.Sprintf("%s(%d entries, MTU %d) PDU %d: Decode panicked: %v", name, len(entries), mtu, i, pn.val), "", len(bodies)
		}
		if err != nil {
			return fmt.Sprintf("%s(%d entries, MTU %d) PDU %d of %d: packet.Decode rejects it: %v", name, len(entries), mtu, i, len(bodies), err), c30SigTLVWrap, len(bodies)
		}
		for _, tl := range c30DecodedTLVs(pkt.Body) {
			if l, ok := tl.(*packet.LSPEntriesTLV); ok {
				for _, e := range l.LSPEntries {
					decoded = append(decoded, *e)
				}
			}
		}
		var ge []*packet.LSPEntry
		switch b := pkt.Body.(type) {
		case *packet.CSNP:
			ge = b.GetLSPEntries()
		case *packet.PSNP:
			ge = b.GetLSPEntries()
		}
		for _, e := range ge {
			viaGetter = append(viaGetter, *e)
		}
		if again := c30SerializePacket(pkt); !bytes.Equal(again, wire[3:]) {
			return fmt.Sprintf("%s(%d entries, MTU %d) PDU %d: serialize(decode(x)) != x (%d vs %d bytes)", name, len(entries), mtu, i, len(again), len(wire)-3), c30SigTLVWrap, len(bodies)
		}
	}
	if m := c30SameMultiset(onWire, want); m != "" {
		return fmt.Sprintf("%s(%d entries, MTU %d): union of the entries on the wire over %d PDUs != input: %s", name, len(entries), mtu, len(bodies), m), c30SigTLVWrap, len(bodies)
	}
	if m := c30SameMultiset(decoded, want); m != "" {
		return fmt.Sprintf("%s(%d entries, MTU %d): union of the decoded entries over %d PDUs != input: %s", name, len(entries), mtu, len(bodies), m), c30SigTLVWrap, len(bodies)
	}
	if m := c30SameMultiset(viaGetter, want); m != "" {
		return fmt.Sprintf("%s(%d entries, MTU %d): union of GetLSPEntries() of the decoded PDUs (%d PDUs) != input: %s", name, len(entries), mtu, len(bodies), m), "", len(bodies)
	}
	return "", "", len(bodies)
}

func TestVerifC30SNPSets(t *testing.T) {
	rec := kit.NewRecorder(t, "C30", c30Rule)
	rapid.Check(t, func(t *rapid.T) {
		c := rec.Case()
		defer c.Done()
		mtu := rapid.IntRange(256, 1500).Draw(t, "mtu")
		if rapid.IntRange(0, 2).Draw(t, "mtu_boundary") == 0 {
			mtu = rapid.SampledFrom([]int{256, 257, 273, 274, 275, 289, 290, 291, 512, 576, 1280, 1492, 1497, 1499, 1500}).Draw(t, "mtu_b")
		}
		csnp := rapid.Bool().Draw(t, "csnp")
		// sizes around multiples of what fits one PDU, and anything in 0..300
		n := rapid.IntRange(0, 300).Draw(t, "n")
		if rapid.Bool().Draw(t, "n_boundary") {
			per := (mtu - 35) / 16
			if per < 1 {
				per = 1
			}
			n = per*rapid.IntRange(0, 3).Draw(t, "n_mult") + rapid.IntRange(-2, 2).Draw(t, "n_delta")
			if n < 0 {
				n = 0
			}
			if n > 300 {
				n = 300
			}
		}
		salt := rapid.Uint32().Draw(t, "salt")
		perm := make([]int, n)
		for i := 1; i < n; i++ {
			perm[i] = rapid.IntRange(0, i).Draw(t, "perm")
		}
		es := c30MakeEntries(n, salt, func(i int) int { return perm[i] })
		c.Logf("snpset csnp=%v n=%d mtu=%d salt=%d perm=%v", csnp, n, mtu, salt, perm)
		c30Journal("C30 snpset csnp=%v n=%d mtu=%d salt=%d", csnp, n, mtu, salt)
		msg, sig, npdu := c30CheckSNPSet(csnp, es, mtu)
		c.NonTrivialIf(npdu >= 2 || (msg != "" && n > 15))
		c.ClassIf(csnp, "csnp")
		c.ClassIf(!csnp, "psnp")
		c.ClassIf(n == 0, "empty")
		c.ClassIf(npdu >= 2, "multi_pdu")
		c.ClassIf(n > 15, "more_than_15_entries")
		if msg != "" {
			if sig != "" && rec.Known(sig) {
				return
			}
			t.Fatalf("%s", msg)
		}
	})
}

// TestVerifC30SNPSweep: every n in 0..300 x selected MTUs (quick: boundary
// MTUs plus a seed-dependent stride; thorough: every MTU 256..1500, sharded).
func TestVerifC30SNPSweep(t *testing.T) {
	rec := kit.NewRecorder(t, "C30", c30Rule)
	full := kit.Tier() == "thorough"
	seed := int(kit.Seed())
	shard, shards := kit.Shard()
	boundary := map[int]bool{256: true, 257: true, 289: true, 290: true, 291: true, 1492: true, 1499: true, 1500: true}
	k := 0
	for mtu := 256; mtu <= 1500; mtu++ {
		if !full && !boundary[mtu] && (mtu+seed*7)%97 != 0 {
			continue
		}
		for _, csnp := range []bool{true, false} {
			for n := 0; n <= 300; n++ {
				k++
				if k%shards != shard {
					continue
				}
				if full && n > 40 && (n+mtu)%3 != 0 { // thorough: all MTUs x (all small n, every third large n)
					continue
				}
				c := rec.Case()
				salt := uint32(mtu*1000003 + n*31 + seed)
				es := c30MakeEntries(n, salt, func(i int) int { return int((uint32(i)*2246822519 + salt) % uint32(i+1)) })
				c.Logf("sweep csnp=%v n=%d mtu=%d salt=%d", csnp, n, mtu, salt)
				c30Journal("C30 sweep csnp=%v n=%d mtu=%d salt=%d", csnp, n, mtu, salt)
				msg, sig, npdu := c30CheckSNPSet(csnp, es, mtu)
				c.NonTrivialIf(npdu >= 2 || (msg != "" && n > 15))
				c.ClassIf(npdu >= 2, "multi_pdu")
				c.ClassIf(n > 15, "more_than_15_entries")
				c.Done()
				if msg != "" {
					if sig != "" && rec.Known(sig) {
						continue
					}
					t.Fatalf("%s", msg)
				}
			}
		}
	}
}

//go:build verif

package server

import (
	"fmt"
	"sort"
	"strings"
	"testing"
	"time"

	"github.com/bio-routing/bio-rd/net/ethernet"
	"github.com/bio-routing/bio-rd/protocols/isis/packet"
	"github.com/bio-routing/bio-rd/protocols/isis/types"
	"pgregory.net/rapid"
	kit "verifkit"
)

const c31Rule = "histories of 4..28 steps on a not-started server with two operational p2p L2 interfaces (distinct circuit ids): P2P hellos (raw bytes through netIfa.processPkt) from three neighbour slots (two share eth0) whose three-way TLV is absent / without neighbour / names another system / names this system with the other circuit / names this system and circuit, holding times 1..30 s, interleaved with harness-clock advances of 0.25..170 s during which every 1 s adjacency-checker tick is delivered and awaited; oracle: per-slot model of what the statement allows, checked after every hello and every tick instant, local LSP IS-reachability = Up adjacencies after every step, final silence of hold+down-timeout+10 s must remove every neighbour. Non-trivial: some neighbour reached Up and later went Down because its holding time passed."

const (
	c31Absent = -1
	c31SUp    = int(packet.P2PAdjStateUp)
	c31SInit  = int(packet.P2PAdjStateInit)
	c31SDown  = int(packet.P2PAdjStateDown)
)

func c31StateName(s int) string {
	switch s {
	case c31Absent:
		return "absent"
	case c31SUp:
		return "Up"
	case c31SInit:
		return "Init"
	case c31SDown:
		return "Down"
	}
	return fmt.Sprintf("state(%d)", s)
}

// hello kinds (what the three-way adjacency TLV says)
const (
	c31KNoTLV = iota
	c31KNoNbr
	c31KOtherSys
	c31KWrongCircuit
	c31KUs
)

var c31KindNames = []string{"noTLV", "tlvWithoutNeighbour", "namesOtherSystem", "namesUsWrongCircuit", "namesUs"}

// slack granted to the 1 s adjacency-checker period when judging "Down when
// the holding time passes"
const c31TickSlack = 2 * time.Second

// bound that turns "disappears eventually" into a testable statement: holding
// time + the down-adjacency retention of the implementation + slack
const c31RemovalSlack = 10 * time.Second

type c31Slot struct {
	idx    int
	ifc    *c31Iface
	mac    ethernet.MACAddr
	sys    types.SystemID
	prev   int // last observed status
	heard  bool
	expMin time.Time // earliest moment the holding time of the last hello(s) can be taken to expire
	expMax time.Time // latest such moment
	// statistics
	wasUp         bool
	downByTimeout bool
}

type c31Machine struct {
	t     *rapid.T
	c     *kit.Case
	rig   *c31Rig
	slots []*c31Slot
}

func (m *c31Machine) observe() map[int]int {
	res := map[int]int{}
	for _, s := range m.slots {
		res[s.idx] = c31Absent
	}
	seen := map[string]bool{}
	for _, a := range m.rig.srv.GetAdjacencies() {
		key := a.InterfaceName + "/" + a.Address.String()
		if seen[key] {
			m.t.Fatalf("adjacency table lists %s twice", key)
		}
		seen[key] = true
		found := false
		for _, s := range m.slots {
			if s.ifc.name == a.InterfaceName && s.mac == a.Address {
				res[s.idx] = int(a.Status)
				found = true
				if a.SystemID != s.sys {
					m.t.Fatalf("adjacency %s has system id %v, the neighbour's hellos carry %v", key, a.SystemID, s.sys)
				}
			}
		}
		if !found {
			m.t.Fatalf("adjacency table lists %s from which no hello was ever sent", key)
		}
	}
	return res
}

// checkLSP: "The local LSP advertises exactly the Up adjacencies once it has
// been regenerated" — regenerate synchronously and compare.
func (m *c31Machine) checkLSP(obs map[int]int) {
	lsp := m.rig.srv.generateLocalLSP()
	var got []string
	n := 0
	for _, tlv := range lsp.TLVs {
		if tlv.Type() != packet.ExtendedISReachabilityType {
			continue
		}
		n++
		for _, nb := range tlv.(*packet.ExtendedISReachabilityTLV).Neighbors {
			got = append(got, nb.NeighborID.SystemID.String())
		}
	}
	if n != 1 {
		m.t.Fatalf("regenerated local LSP carries %d extended IS reachability TLVs", n)
	}
	var want []string
	for _, s := range m.slots {
		if obs[s.idx] == c31SUp {
			want = append(want, s.sys.String())
		}
	}
	sort.Strings(got)
	sort.Strings(want)
	if strings.Join(got, ",") != strings.Join(want, ",") {
		m.t.Fatalf("regenerated local LSP advertises IS neighbours [%s], the Up adjacencies are [%s]", strings.Join(got, ","), strings.Join(want, ","))
	}
}

func (m *c31Machine) hello(s *c31Slot, kind int, hold uint16, adjState uint8) {
	now := m.rig.clk.Now()
	h := c31Hello{sysID: s.sys, hold: hold, withTLV: kind != c31KNoTLV, withNbr: kind >= c31KOtherSys, adjState: adjState,
		extCirc: uint32(40 + s.idx), ip: s.ifc.base + 1}
	switch kind {
	case c31KOtherSys:
		h.nbrSys = types.SystemID{9, 9, 9, 9, 9, 9}
		h.nbrCirc = uint32(s.ifc.index)
	case c31KWrongCircuit:
		h.nbrSys = c31OwnSysID
		// the circuit id of the *other* interface of this system
		other := m.rig.ifaces[0]
		if other == s.ifc {
			other = m.rig.ifaces[1]
		}
		h.nbrCirc = uint32(other.index)
	case c31KUs:
		h.nbrSys = c31OwnSysID
		h.nbrCirc = uint32(s.ifc.index)
	}
	err := m.rig.deliver(s.ifc, s.mac, h.bytes())
	if err != nil && kind != c31KNoTLV {
		m.t.Fatalf("well-formed hello rejected: %v", err)
	}
	obs := m.observe()
	before, after := s.prev, obs[s.idx]
	exp := now.Add(time.Duration(hold) * time.Second)
	desc := fmt.Sprintf("slot %d (%s %v) hello %s hold=%d at +%v: %s -> %s", s.idx, s.ifc.name, s.mac, c31KindNames[kind], hold, m.since(), c31StateName(before), c31StateName(after))
	switch {
	case kind == c31KNoTLV:
		// Not a three-way hello: it can never justify Up; whether it counts as "a hello" for the
		// holding time is not stated -> both readings are kept.
		if before != c31SUp && after == c31SUp {
			m.t.Fatalf("%s: Up after a hello without three-way adjacency TLV", desc)
		}
		if before != c31Absent || after != c31Absent {
			if !s.heard {
				s.heard, s.expMin, s.expMax = true, exp, exp
			} else {
				if exp.Before(s.expMin) {
					s.expMin = exp
				}
				if exp.After(s.expMax) {
					s.expMax = exp
				}
			}
		}
	case kind == c31KUs:
		if before != c31Absent && after != c31SUp {
			m.t.Fatalf("%s: a hello of a known neighbour lists this system and circuit, adjacency must be Up", desc)
		}
		if after == c31Absent {
			m.t.Fatalf("%s: valid hello did not create an adjacency", desc)
		}
		s.heard, s.expMin, s.expMax = true, exp, exp
	default:
		if after == c31SUp {
			m.t.Fatalf("%s: Up although the hello's three-way TLV does not list this system and circuit", desc)
		}
		if before == c31SUp && after != c31SDown {
			m.t.Fatalf("%s: an Up adjacency must go Down when a later hello no longer lists this system", desc)
		}
		if before == c31Absent && after == c31Absent {
			m.t.Fatalf("%s: valid hello did not create an adjacency", desc)
		}
		s.heard, s.expMin, s.expMax = true, exp, exp
	}
	// other neighbours: never Up without their own hello; untouched on other interfaces
	for _, o := range m.slots {
		if o == s {
			continue
		}
		ob, oa := o.prev, obs[o.idx]
		if ob != c31SUp && oa == c31SUp {
			m.t.Fatalf("%s: made slot %d %s -> Up", desc, o.idx, c31StateName(ob))
		}
		if o.ifc != s.ifc && ob != oa {
			m.t.Fatalf("%s: changed slot %d on another interface %s -> %s", desc, o.idx, c31StateName(ob), c31StateName(oa))
		}
	}
	m.commit(obs)
}

func (m *c31Machine) since() time.Duration {
	return m.rig.clk.Now().Sub(c31Epoch)
}

func (m *c31Machine) commit(obs map[int]int) {
	for _, s := range m.slots {
		a := obs[s.idx]
		if a == c31SUp {
			s.wasUp = true
		}
		if a == c31Absent && s.prev != c31Absent {
			// forget the holding timers of the adjacency that is gone
			s.heard = false
		}
		s.prev = a
	}
}

// tickCheck judges the adjacency table at a quiescent instant `now` reached by
// the passage of time only.
func (m *c31Machine) tickCheck(now time.Time) {
	obs := m.observe()
	for _, s := range m.slots {
		before, after := s.prev, obs[s.idx]
		desc := fmt.Sprintf("slot %d (%s %v) at +%v (holding time expires at +%v): %s -> %s by passage of time", s.idx, s.ifc.name, s.mac,
			m.since(), s.expMax.Sub(c31Epoch), c31StateName(before), c31StateName(after))
		switch before {
		case c31Absent:
			if after != c31Absent {
				m.t.Fatalf("%s: adjacency appeared without a hello", desc)
			}
			continue
		case c31SUp:
			if !now.After(s.expMin) && after != c31SUp {
				m.t.Fatalf("%s: Up adjacency lost before its holding time passed", desc)
			}
			if !now.Before(s.expMax.Add(c31TickSlack)) && after == c31SUp {
				m.t.Fatalf("%s: adjacency still Up %v after its holding time passed", desc, now.Sub(s.expMax))
			}
			if after == c31SDown || after == c31Absent {
				s.downByTimeout = true
			}
			if after == c31SInit {
				m.t.Fatalf("%s: Up adjacency fell back to Init", desc)
			}
		default:
			if after == c31SUp {
				m.t.Fatalf("%s: Up without a hello", desc)
			}
		}
		if s.heard && after != c31Absent {
			bound := s.expMax.Add(neighborDownTimeoutS*time.Second + c31RemovalSlack)
			if !now.Before(bound) {
				m.t.Fatalf("%s: the holding time of the neighbour's last hello ran out %v ago and it is still listed (%s): a silent neighbour must disappear eventually",
					desc, now.Sub(s.expMax), c31StateName(after))
			}
		}
	}
	m.commit(obs)
}

func (m *c31Machine) advance(d time.Duration, inclusive bool) {
	to := m.rig.clk.Now().Add(d)
	last := time.Time{}
	m.rig.advance(to, inclusive, func(now time.Time) {
		last = now
		m.tickCheck(now)
	})
	if !last.Equal(to) {
		m.tickCheck(to)
	}
}

func c31Run(t *rapid.T, rec *kit.Recorder) {
	c := rec.Case()
	defer c.Done()
	rig := c31NewRig(2, false)
	defer rig.close()
	m := &c31Machine{t: t, c: c, rig: rig}
	m.slots = []*c31Slot{
		{idx: 0, ifc: rig.ifaces[0], mac: ethernet.MACAddr{0xde, 0xad, 0xbe, 0xef, 0, 1}, sys: types.SystemID{0xaa, 0, 0, 0, 0, 1}, prev: c31Absent},
		{idx: 1, ifc: rig.ifaces[0], mac: ethernet.MACAddr{0xde, 0xad, 0xbe, 0xef, 0, 2}, sys: types.SystemID{0xaa, 0, 0, 0, 0, 2}, prev: c31Absent},
		{idx: 2, ifc: rig.ifaces[1], mac: ethernet.MACAddr{0xde, 0xad, 0xbe, 0xef, 0, 3}, sys: types.SystemID{0xaa, 0, 0, 0, 0, 3}, prev: c31Absent},
	}
	// 1 or 2 neighbours take part (the quantifier's domain); which ones is drawn
	active := rapid.SampledFrom([][]int{{0}, {2}, {0, 2}, {0, 1}, {0, 2}, {1, 2}}).Draw(t, "active")
	steps := rapid.IntRange(4, 28).Draw(t, "steps")
	nKinds := map[int]int{}
	for i := 0; i < steps; i++ {
		if rapid.IntRange(0, 9).Draw(t, "op") < 6 {
			s := m.slots[active[rapid.IntRange(0, len(active)-1).Draw(t, "slot")]]
			kind := rapid.SampledFrom([]int{c31KUs, c31KUs, c31KUs, c31KUs, c31KNoTLV, c31KNoNbr, c31KOtherSys, c31KWrongCircuit}).Draw(t, "kind")
			hold := uint16(rapid.SampledFrom([]int{1, 2, 3, 5, 9, 16, 30, rapid.IntRange(1, 30).Draw(t, "holdU")}).Draw(t, "hold"))
			adjState := uint8(rapid.IntRange(0, 2).Draw(t, "adjState"))
			c.Logf("hello slot=%d kind=%s hold=%d adjstate=%d", s.idx, c31KindNames[kind], hold, adjState)
			nKinds[kind]++
			m.hello(s, kind, hold, adjState)
		} else {
			var d time.Duration
			switch rapid.IntRange(0, 5).Draw(t, "advKind") {
			case 0:
				d = time.Duration(rapid.IntRange(1, 7).Draw(t, "q")) * 250 * time.Millisecond
			case 1, 2:
				d = time.Duration(rapid.IntRange(1, 6).Draw(t, "s")) * time.Second
			case 3, 4:
				d = time.Duration(rapid.IntRange(4, 40).Draw(t, "m")) * time.Second
			default:
				d = time.Duration(rapid.IntRange(100, 170).Draw(t, "l")) * time.Second
			}
			// schedule: do the checker ticks that fall exactly on the new instant run before (true)
			// or after (false) the next harness action at that instant?
			incl := rapid.IntRange(0, 3).Draw(t, "ticksFirst") != 2
			c.Logf("advance %v ticksFirst=%v", d, incl)
			c.ClassIf(!incl, "hello_may_precede_tick_at_same_instant")
			m.advance(d, incl)
		}
		m.checkLSP(m.observe())
	}
	// every neighbour now stops sending hellos: all must disappear
	c.Logf("silence")
	m.advance(30*time.Second+neighborDownTimeoutS*time.Second+c31RemovalSlack+2*time.Second, true)
	for _, s := range m.slots {
		if s.prev != c31Absent {
			t.Fatalf("slot %d still listed (%s) after %v of silence", s.idx, c31StateName(s.prev), 30*time.Second+neighborDownTimeoutS*time.Second+c31RemovalSlack+2*time.Second)
		}
	}
	m.checkLSP(m.observe())

	nt := false
	for _, s := range m.slots {
		c.ClassIf(s.wasUp, "reached_up")
		if s.wasUp && s.downByTimeout {
			nt = true
		}
	}
	c.ClassIf(nt, "up_then_down_by_timeout")
	c.ClassIf(len(active) == 2, "two_neighbours")
	c.ClassIf(len(active) == 2 && m.slots[active[0]].ifc == m.slots[active[1]].ifc, "two_on_one_interface")
	c.ClassIf(nKinds[c31KWrongCircuit] > 0, "wrong_circuit_hello")
	c.ClassIf(nKinds[c31KNoTLV] > 0, "hello_without_tlv")
	c.NonTrivialIf(nt)
}

func TestVerifC31Adjacency(t *testing.T) {
	rec := kit.NewRecorder(t, "C31", c31Rule)
	rapid.Check(t, func(t *rapid.T) { c31Run(t, rec) })
}

//go:build verif

package server

// Rig shared by the C31 and C32 checks (C32.json lists files_for ["C31","C32"]).
//
// * c31Clock — a harness-owned implementation of the benbjohnson Clock
//   interface that is installed in the package variable `clock`. Time only
//   moves when the harness says so and a ticker fires only when the harness
//   sends on its (unbuffered) channel, so a tick has been *received* by the
//   ticking goroutine when the send returns.
// * c31Quiesce — establishes that every adjacency-checker goroutine is parked
//   in its select again (goroutine dump), i.e. the tick body has run to
//   completion. This is a protocol handshake, not a sleep: a real-time
//   deadline only ever ends the process as "inconclusive" (exit 3).
// * mock device updater / devices with distinct interface indexes, the mock
//   ethernet factory of the repo, a hello builder (raw bytes, independent of
//   the repo's serializers).

import (
	"bytes"
	"fmt"
	"os"
	"runtime"
	"strings"
	"sync"
	"time"

	bbclock "github.com/benbjohnson/clock"
	bnet "github.com/bio-routing/bio-rd/net"
	"github.com/bio-routing/bio-rd/net/ethernet"
	"github.com/bio-routing/bio-rd/protocols/device"
	"github.com/bio-routing/bio-rd/protocols/isis/packet"
	"github.com/bio-routing/bio-rd/protocols/isis/types"
)

// ---------------------------------------------------------------------------
// inconclusive

const c31RealDeadline = 20 * time.Second

// c31Inconclusive ends the test process without a test verdict; the driver
// maps that to exit 2 (inconclusive), never to a violation.
func c31Inconclusive(format string, args ...interface{}) {
	fmt.Fprintf(os.Stderr, "C31/C32 harness inconclusive: "+format+"\n", args...)
	os.Exit(3)
}

// ---------------------------------------------------------------------------
// clock

type c31Ticker struct {
	ch      chan time.Time
	d       time.Duration
	next    time.Time
	created time.Time
	id      int
	kind    string    // "", "hello", "adj", "other"
	n       *neighbor // for kind "adj"
	dead    bool
	// orig is the channel of the embedded mock's ticker (never read by bio-rd: its public field was replaced);
	// the embedded mock still ticks into it unless the ticker was stopped, which makes Stop() observable
	orig <-chan time.Time
	// rider: this neighbour's checker has no ticker of its own; it waits on the (shared) ticker `rider`.
	// never: that ticker has been stopped, so no tick will ever arrive (the harness never fires it either)
	rider *c31Ticker
	never bool
}

type c31Clock struct {
	*bbclock.Mock // supplies the methods bio-rd's IS-IS server never calls and makes Ticker.Stop work
	mu            sync.Mutex
	now           time.Time
	tickers       []*c31Ticker
}

var c31Epoch = time.Date(2023, 1, 23, 0, 0, 0, 0, time.UTC)

func c31NewClock() *c31Clock {
	return &c31Clock{
		Mock: bbclock.NewMock(),
		now:  c31Epoch,
	}
}

func (c *c31Clock) Now() time.Time {
	c.mu.Lock()
	defer c.mu.Unlock()
	return c.now
}

func (c *c31Clock) Since(t time.Time) time.Duration { return c.Now().Sub(t) }
func (c *c31Clock) Until(t time.Time) time.Duration { return t.Sub(c.Now()) }

// Ticker returns a real *bbclock.Ticker of the embedded (never advanced) mock
// so that Stop() works, with its public channel replaced by a harness-owned
// unbuffered channel.
func (c *c31Clock) Ticker(d time.Duration) *bbclock.Ticker {
	t := c.Mock.Ticker(d)
	orig := t.C
	ch := make(chan time.Time)
	t.C = ch
	c.mu.Lock()
	defer c.mu.Unlock()
	c.tickers = append(c.tickers, &c31Ticker{ch: ch, d: d, next: c.now.Add(d), created: c.now, id: len(c.tickers), orig: orig})
	return t
}

// stopped reports whether Stop() was called on the ticker: the embedded mock (whose own time nobody else uses) is
// advanced by one period; a live ticker puts a value into its original channel, a stopped one does not.
func (c *c31Clock) stopped(t *c31Ticker) bool {
	for {
		select {
		case <-t.orig:
			continue
		default:
		}
		break
	}
	c.Mock.Add(t.d)
	select {
	case <-t.orig:
		return false
	default:
		return true
	}
}

// adjTickers lists the tickers tagged as adjacency-checker tickers, oldest first.
func (c *c31Clock) adjTickers() []*c31Ticker {
	c.mu.Lock()
	defer c.mu.Unlock()
	var r []*c31Ticker
	for _, t := range c.tickers {
		if t.kind == "adj" {
			r = append(r, t)
		}
	}
	return r
}

func (c *c31Clock) setNow(t time.Time) {
	c.mu.Lock()
	c.now = t
	c.mu.Unlock()
}

// untagged returns the tickers that were created since the last tagging.
func (c *c31Clock) untagged() []*c31Ticker {
	c.mu.Lock()
	defer c.mu.Unlock()
	var r []*c31Ticker
	for _, t := range c.tickers {
		if t.kind == "" {
			r = append(r, t)
		}
	}
	return r
}

func (c *c31Clock) tagAll(kind string) {
	for _, t := range c.untagged() {
		t.kind = kind
	}
}

// ---------------------------------------------------------------------------
// quiescence of the adjacency checkers

var c31DumpBuf = make([]byte, 1<<20)

// c31AdjCheckers returns (number of adjacency-checker goroutines, number of
// those parked in select).
func c31AdjCheckers() (total, parked int) {
	var n int
	for {
		n = runtime.Stack(c31DumpBuf, true)
		if n < len(c31DumpBuf) {
			break
		}
		c31DumpBuf = make([]byte, 2*len(c31DumpBuf))
	}
	dump := c31DumpBuf[:n]
	for len(dump) > 0 {
		var block []byte
		if i := bytes.Index(dump, []byte("\n\n")); i >= 0 {
			block, dump = dump[:i], dump[i+2:]
		} else {
			block, dump = dump, nil
		}
		// the root frame of these goroutines; "created by" lines name addNeighborIfNotExists instead
		if !bytes.Contains(block, []byte("server.(*neighborManager).adjChecker(")) {
			continue
		}
		total++
		// goroutine 12 [select]:   /   goroutine 12 [select, 2 minutes]:
		h := block
		if i := bytes.IndexByte(h, '\n'); i >= 0 {
			h = h[:i]
		}
		o, cl := bytes.IndexByte(h, '['), bytes.IndexByte(h, ']')
		if o < 0 || cl < o {
			continue
		}
		st := string(h[o+1 : cl])
		if i := strings.IndexByte(st, ','); i >= 0 {
			st = st[:i]
		}
		if st == "select" {
			parked++
		}
	}
	return
}

// c31Quiesce waits until exactly `want` adjacency-checker goroutines exist and
// all of them are parked in their select (ticker channel unbuffered, so
// nothing is in flight).
func c31Quiesce(want int) {
	deadline := time.Now().Add(c31RealDeadline)
	for i := 0; ; i++ {
		total, parked := c31AdjCheckers()
		if total == want && parked == want {
			return
		}
		if time.Now().After(deadline) {
			c31Inconclusive("adjacency checkers did not quiesce: want %d, have %d of which %d parked", want, total, parked)
		}
		if i < 50 {
			runtime.Gosched()
		} else {
			time.Sleep(50 * time.Microsecond)
		}
	}
}

// ---------------------------------------------------------------------------
// devices

type c31Device struct {
	index uint64
	oper  uint8
	addrs []*bnet.Prefix
}

func (d *c31Device) GetIndex() uint64         { return d.index }
func (d *c31Device) GetOperState() uint8      { return d.oper }
func (d *c31Device) GetAddrs() []*bnet.Prefix { return d.addrs }

// c31Updater mimics device.Server.Subscribe: a device that exists is reported
// to the client at subscription time, whatever its operational state.
type c31Updater struct {
	devs    map[string]*c31Device
	clients map[string]device.Client
}

func c31NewUpdater() *c31Updater {
	return &c31Updater{devs: map[string]*c31Device{}, clients: map[string]device.Client{}}
}

func (u *c31Updater) Subscribe(c device.Client, name string) {
	u.clients[name] = c
	if d, ok := u.devs[name]; ok {
		cp := *d
		c.DeviceUpdate(&cp)
	}
}
func (u *c31Updater) Unsubscribe(device.Client, string) {}
func (u *c31Updater) Start() error                      { return nil }

// ---------------------------------------------------------------------------
// mock ethernet interface (the repo's mock offers no non-blocking read of
// what was sent and blocks the sender after 1024 frames)

type c31Eth struct {
	mu     sync.Mutex
	frames [][]byte
	dsts   []ethernet.MACAddr
	closed chan struct{}
}

type c31EthFactory struct{}

func (c31EthFactory) New(name string, bpf *ethernet.BPF, llc ethernet.LLC) (ethernet.EthernetInterfaceI, error) {
	return &c31Eth{closed: make(chan struct{})}, nil
}

func (e *c31Eth) RecvPacket() ([]byte, ethernet.MACAddr, error) {
	<-e.closed
	return nil, ethernet.MACAddr{}, fmt.Errorf("socket closed")
}

func (e *c31Eth) SendPacket(dst ethernet.MACAddr, pkt []byte) error {
	e.mu.Lock()
	defer e.mu.Unlock()
	e.frames = append(e.frames, append([]byte(nil), pkt...))
	e.dsts = append(e.dsts, dst)
	return nil
}

func (e *c31Eth) MCastJoin(ethernet.MACAddr) error { return nil }
func (e *c31Eth) GetMTU() int                      { return 1500 }
func (e *c31Eth) Close()                           { close(e.closed) }

// take returns and forgets the frames sent so far.
func (e *c31Eth) take() [][]byte {
	e.mu.Lock()
	defer e.mu.Unlock()
	f := e.frames
	e.frames, e.dsts = nil, nil
	return f
}

// ---------------------------------------------------------------------------
// rig

var (
	c31OwnSysID = types.SystemID{12, 12, 12, 13, 13, 13}
	c31Area     = types.AreaID{0x49, 0x00}
)

type c31Iface struct {
	name  string
	index uint64
	base  uint32 // IPv4 /31 base address
	nifa  *netIfa
	eth   *c31Eth
}

type c31Rig struct {
	clk    *c31Clock
	srv    *Server
	upd    *c31Updater
	ifaces []*c31Iface
	// adjacency checkers known to the harness
	adj map[*neighbor]*c31Ticker
}

// c31NewRig builds a server with nUp operational, active point-to-point L2
// interfaces (eth0..), optionally one further interface whose device exists
// but is operationally down (never came up). The server is NOT started.
func c31NewRig(nUp int, withDownIface bool) *c31Rig {
	r := &c31Rig{clk: c31NewClock(), upd: c31NewUpdater(), adj: map[*neighbor]*c31Ticker{}}
	SetClock(r.clk)
	for i := 0; i < nUp; i++ {
		base := uint32(169)<<24 | uint32(254)<<16 | uint32(100+i)<<8
		ifc := &c31Iface{name: fmt.Sprintf("eth%d", i), index: uint64(100 + i), base: base}
		r.ifaces = append(r.ifaces, ifc)
		r.upd.devs[ifc.name] = &c31Device{index: ifc.index, oper: device.IfOperUp, addrs: []*bnet.Prefix{bnet.NewPfx(bnet.IPv4(base), 31).Ptr()}}
	}
	if withDownIface {
		r.upd.devs["down0"] = &c31Device{index: 900, oper: device.IfOperDown, addrs: []*bnet.Prefix{bnet.NewPfx(bnet.IPv4(uint32(10)<<24), 31).Ptr()}}
	}
	s, err := New([]*types.NET{{AreaID: c31Area, SystemID: c31OwnSysID, SEL: 0}}, r.upd, 3600)
	if err != nil {
		panic(err)
	}
	s.SetEthernetInterfaceFactory(c31EthFactory{})
	s.SetHostnameFunc(func() (string, error) { return "verif", nil })
	r.srv = s
	names := []string{}
	for _, ifc := range r.ifaces {
		names = append(names, ifc.name)
	}
	if withDownIface {
		names = append(names, "down0")
	}
	for _, name := range names {
		err := s.AddInterface(&InterfaceConfig{
			Name:         name,
			PointToPoint: true,
			Level2:       &InterfaceLevelConfig{HelloInterval: 4, HoldingTimer: 16, Metric: 10},
		})
		if err != nil {
			panic(err)
		}
	}
	r.clk.tagAll("hello") // the hello tickers of newNetIfa; never fired by the harness
	for _, ifc := range r.ifaces {
		ifc.nifa = s.netIfaManager.getInterface(ifc.name)
		ifc.eth = ifc.nifa.ethernetInterface.(*c31Eth)
	}
	// drop the refresh request of _start; nobody consumes it while the server is not started
	r.drainRefresh()
	return r
}

func (r *c31Rig) drainRefresh() bool {
	select {
	case <-r.srv.lsdbL2.refreshCh:
		return true
	default:
		return false
	}
}

// liveAdj is the number of adjacency-checker goroutines that must exist.
func (r *c31Rig) liveAdj() int {
	n := 0
	for _, t := range r.adj {
		if t != nil && !t.dead {
			n++
		}
	}
	return n
}

// deliver hands a raw frame (LLC + IS-IS PDU) from src to the interface's
// packet entry point synchronously and then waits for the adjacency checker
// of a newly created neighbour to have parked.
func (r *c31Rig) deliver(ifc *c31Iface, src ethernet.MACAddr, raw []byte) error {
	err := ifc.nifa.processPkt(src, raw)
	nm := ifc.nifa.neighborManagerL2
	nm.neighborsMu.RLock()
	n := nm.neighbors[src]
	nm.neighborsMu.RUnlock()
	if n != nil {
		if _, known := r.adj[n]; !known {
			// a new neighbour: its goroutine creates a 1 s ticker asynchronously
			r.adj[n] = nil
			deadline := time.Now().Add(c31RealDeadline)
			for {
				if u := r.clk.untagged(); len(u) > 0 {
					if len(u) != 1 || u[0].d != time.Second {
						panic(fmt.Sprintf("C31 rig: unexpected tickers created by one hello: %d", len(u)))
					}
					u[0].kind = "adj"
					u[0].n = n
					r.adj[n] = u[0]
					break
				}
				// No ticker of its own? If the new checker goroutine is parked all the same it waits on something
				// else. The harness can tell only one case apart soundly: it takes a tick offered on the channel
				// of an adjacency ticker whose own checker has ended (nobody else can be listening there). Whether
				// that ticker is alive or has been stopped is read from the embedded mock; a stopped one is never
				// fired, as in reality.
				r.refreshDead()
				if total, parked := c31AdjCheckers(); total == r.liveAdj()+1 && parked == total && time.Since(deadline.Add(-c31RealDeadline)) > 20*time.Millisecond {
					var ride *c31Ticker
					for _, tk := range r.clk.adjTickers() {
						ownerGone := false
						for _, e := range r.adj {
							if e == tk && e.dead {
								ownerGone = true
							}
						}
						if !ownerGone {
							continue
						}
						select {
						case tk.ch <- r.clk.Now():
							ride = tk
						default:
						}
						if ride != nil {
							break
						}
					}
					if ride != nil {
						r.adj[n] = &c31Ticker{kind: "adj-rider", n: n, rider: ride, never: r.clk.stopped(ride), id: -1, next: time.Unix(1<<40, 0)}
						break
					}
				}
				if time.Now().After(deadline) {
					c31Inconclusive("adjacency checker of a new neighbour did not create its ticker")
				}
				runtime.Gosched()
			}
		}
	}
	c31Quiesce(r.liveAdj())
	return err
}

// advance moves mock time to `to`, firing every adjacency-checker ticker in
// chronological order (ties in creation order). After each fired instant
// `each` is called at a quiescent point.
//
// With inclusive == false the ticks that fall exactly on `to` stay pending and
// are delivered by the next advance, i.e. *after* whatever the harness does at
// `to` (a hello arriving at the very instant of a tick is processed first).
func (r *c31Rig) advance(to time.Time, inclusive bool, each func(now time.Time)) {
	for {
		var next *c31Ticker
		r.refreshDead()
		for _, t := range r.adj {
			if t != nil && !t.dead && t.rider != nil && !t.never {
				c31Inconclusive("an adjacency checker waits on a live ticker whose own checker has ended: the harness cannot drive it")
			}
		}
		for _, t := range r.adj {
			if t == nil || t.dead || t.rider != nil {
				continue
			}
			if t.next.After(to) || (!inclusive && t.next.Equal(to)) {
				continue
			}
			if next == nil || t.next.Before(next.next) || (t.next.Equal(next.next) && t.id < next.id) {
				next = t
			}
		}
		if next == nil {
			break
		}
		at := next.next
		r.clk.setNow(at)
		// all tickers due at this very instant, in creation order
		for {
			var due *c31Ticker
			for _, t := range r.adj {
				if t != nil && !t.dead && t.rider == nil && t.next.Equal(at) && (due == nil || t.id < due.id) {
					due = t
				}
			}
			if due == nil {
				break
			}
			r.fire(due, at)
			due.next = at.Add(due.d)
		}
		if each != nil {
			each(at)
		}
	}
	r.clk.setNow(to)
}

// refreshDead marks the entries whose checker goroutine has ended. A ticker whose owner has ended but which still
// has riders stays in play as long as it has not been stopped.
func (r *c31Rig) refreshDead() {
	for _, t := range r.adj {
		if t == nil || t.dead {
			continue
		}
		select {
		case <-t.n.done:
			t.dead = true
		default:
		}
	}
}

func (r *c31Rig) fire(t *c31Ticker, at time.Time) {
	timer := time.NewTimer(c31RealDeadline)
	defer timer.Stop()
	select {
	case t.ch <- at:
	case <-t.n.done:
		t.dead = true
	case <-timer.C:
		c31Inconclusive("adjacency checker did not take its tick")
	}
	// wait for the body to complete: the goroutine is parked again, or gone
	// (n.done is only ever closed by the checker itself, inside a tick body)
	deadline := time.Now().Add(c31RealDeadline)
	for i := 0; ; i++ {
		r.refreshDead()
		want := r.liveAdj()
		total, parked := c31AdjCheckers()
		if total == want && parked == want {
			return
		}
		if time.Now().After(deadline) {
			c31Inconclusive("adjacency checkers did not quiesce after a tick: want %d, have %d of which %d parked", want, total, parked)
		}
		if i < 50 {
			runtime.Gosched()
		} else {
			time.Sleep(50 * time.Microsecond)
		}
	}
}

// close tears the rig down: all goroutines of the case are gone afterwards.
func (r *c31Rig) close() {
	for n, t := range r.adj {
		if t != nil && t.dead {
			continue
		}
		select {
		case <-n.done:
		default:
			close(n.done) // the checker returns without calling dispose()
		}
		if t != nil {
			t.dead = true
		}
	}
	for _, ifc := range r.ifaces {
		ifc.eth.take()
		_ = r.srv.RemoveInterface(ifc.name)
	}
	deadline := time.Now().Add(c31RealDeadline)
	for {
		total, _ := c31AdjCheckers()
		if total == 0 {
			break
		}
		if time.Now().After(deadline) {
			c31Inconclusive("adjacency checkers did not terminate at teardown")
		}
		runtime.Gosched()
	}
}

// ---------------------------------------------------------------------------
// wire builders (raw bytes; 3 LLC bytes + 8 byte IS-IS header + body)

func c31Header(pduType, lenInd uint8) []byte {
	return []byte{0, 0, 0, 0x83, lenInd, 1, 0, pduType, 1, 0, 0}
}

type c31Hello struct {
	sysID     types.SystemID
	hold      uint16
	withTLV   bool // three-way adjacency TLV present
	withNbr   bool // TLV carries neighbour system id + circuit (length 15)
	adjState  uint8
	extCirc   uint32
	nbrSys    types.SystemID
	nbrCirc   uint32
	ip        uint32
	circuitTy uint8
}

func c31U16(v uint16) []byte { return []byte{byte(v >> 8), byte(v)} }
func c31U32(v uint32) []byte { return []byte{byte(v >> 24), byte(v >> 16), byte(v >> 8), byte(v)} }

func (h c31Hello) bytes() []byte {
	var tl []byte
	if h.withTLV {
		if h.withNbr {
			tl = append(tl, 240, 15, h.adjState)
			tl = append(tl, c31U32(h.extCirc)...)
			tl = append(tl, h.nbrSys[:]...)
			tl = append(tl, c31U32(h.nbrCirc)...)
		} else {
			tl = append(tl, 240, 5, h.adjState)
			tl = append(tl, c31U32(h.extCirc)...)
		}
	}
	tl = append(tl, 129, 2, 204, 142)
	tl = append(tl, 132, 4)
	tl = append(tl, c31U32(h.ip)...)
	tl = append(tl, 1, 3, 2, 0x49, 0)
	b := c31Header(packet.P2P_HELLO, 20)
	ct := h.circuitTy
	if ct == 0 {
		ct = 2
	}
	b = append(b, ct)
	b = append(b, h.sysID[:]...)
	b = append(b, c31U16(h.hold)...)
	b = append(b, c31U16(uint16(20+len(tl)))...)
	b = append(b, 1)
	b = append(b, tl...)
	return b
}

// c31BringUp makes the neighbour (mac, sys) Up on ifc with two hellos naming
// this system and circuit (the first one only creates the neighbour).
func (r *c31Rig) c31BringUp(ifc *c31Iface, mac ethernet.MACAddr, sys types.SystemID, hold uint16) error {
	h := c31Hello{sysID: sys, hold: hold, withTLV: true, withNbr: true, adjState: packet.P2PAdjStateInit, extCirc: 7,
		nbrSys: c31OwnSysID, nbrCirc: uint32(ifc.index), ip: ifc.base + 1}
	for i := 0; i < 2; i++ {
		if err := r.deliver(ifc, mac, h.bytes()); err != nil {
			return err
		}
	}
	if !ifc.nifa.neighborManagerL2.neighborUp(mac) {
		return fmt.Errorf("neighbour %v on %s not Up after two hellos naming this system and circuit", mac, ifc.name)
	}
	return nil
}

//go:build verif

package server

// C32, ISO 10589 7.3.16.1 under the real updater goroutine: a copy of the
// router's own LSP with a higher sequence number arrives while the updater
// (lsdb.l2LSPUpdater) is in the middle of generating the local LSP. The
// harness parks the updater inside generateLocalLSP (the configurable
// hostname function is called there, after the sequence number of the LSP
// under construction has been taken), delivers 1-3 own copies through the
// packet entry point of an interface with an Up adjacency, releases the
// updater and waits until it is parked in its select with no request pending.
// Then the local LSP in the database must carry a sequence number above every
// copy received.

import (
	"bytes"
	"fmt"
	"runtime"
	"strings"
	"sync"
	"testing"
	"time"

	"github.com/bio-routing/bio-rd/net/ethernet"
	"github.com/bio-routing/bio-rd/protocols/isis/packet"
	"github.com/bio-routing/bio-rd/protocols/isis/types"
	"pgregory.net/rapid"
	kit "verifkit"
)

const c32oRule = "1-2 interfaces with Up adjacencies, local LSP originated, real updater goroutine started; an update request parks the updater inside generateLocalLSP (hostname hook); 1-3 copies of the own LSP with sequence numbers above the database's arrive meanwhile (and 0-2 before); the updater is released and runs until it is parked with no request pending. Non-trivial: the updater was parked and an own copy with a higher sequence number arrived meanwhile."

// c32UpdaterParked: the updater goroutine exists and sits in its select.
func c32UpdaterParked() bool {
	buf := make([]byte, 1<<20)
	for {
		n := runtime.Stack(buf, true)
		if n < len(buf) {
			buf = buf[:n]
			break
		}
		buf = make([]byte, 2*len(buf))
	}
	for _, g := range strings.Split(string(buf), "\n\n") {
		if strings.Contains(g, "server.(*lsdb).l2LSPUpdater(") {
			return strings.HasPrefix(g[strings.Index(g, "[")+1:], "select") && !strings.Contains(g, "updateL2LSP")
		}
	}
	return false
}

func TestVerifC32OwnCopyDuringOrigination(t *testing.T) {
	rec := kit.NewRecorder(t, "C32", c32oRule)
	unjudged := 0
	rapid.Check(t, func(t *rapid.T) {
		c := rec.Case()
		defer c.Done()
		n := rapid.IntRange(1, 2).Draw(t, "ifaces")
		rig := c31NewRig(n, false)
		defer rig.close()
		var macs []ethernet.MACAddr
		for i, ifc := range rig.ifaces {
			mac := ethernet.MACAddr{0xde, 0xad, 0xbe, 0xef, 1, byte(i)}
			macs = append(macs, mac)
			if err := rig.c31BringUp(ifc, mac, types.SystemID{0xbb, 0, 0, 0, 0, byte(i)}, 30); err != nil {
				t.Fatalf("rig: %v", err)
			}
		}
		rig.drainRefresh()
		l := rig.srv.lsdbL2
		own := c32IDs[0]
		l.updateL2LSP() // what Start() does first
		dbSeq := func() uint32 {
			l.lspsMu.RLock()
			defer l.lspsMu.RUnlock()
			if e := l.lsps[own]; e != nil {
				return e.lspdu.SequenceNumber
			}
			return 0
		}
		maxRecv := uint32(0)
		send := func(what string, seq uint32) {
			lsp := &packet.LSPDU{RemainingLifetime: 1200, LSPID: own, SequenceNumber: seq, TypeBlock: 3,
				TLVs: []packet.TLV{packet.NewAreaAddressesTLV([]types.AreaID{c31Area}), packet.NewDynamicHostnameTLV([]byte(fmt.Sprintf("r%d", seq)))}}
			lsp.UpdateLength()
			lsp.SetChecksum()
			buf := bytes.NewBuffer(c31Header(packet.L2_LS_PDU_TYPE, packet.LSPDUMinLen))
			lsp.Serialize(buf)
			ci := rapid.IntRange(0, n-1).Draw(t, what+"_if")
			c.Logf("%s: own LSP copy seq=%d received on if%d (database has %d)", what, seq, ci, dbSeq())
			if err := rig.ifaces[ci].nifa.processPkt(macs[ci], buf.Bytes()); err != nil {
				t.Fatalf("%s: %v", what, err)
			}
			if seq > maxRecv {
				maxRecv = seq
			}
		}
		// gate in the hostname hook
		var mu sync.Mutex
		armed := false
		reached, release := make(chan struct{}), make(chan struct{})
		rig.srv.SetHostnameFunc(func() (string, error) {
			mu.Lock()
			a := armed
			armed = false
			mu.Unlock()
			if a {
				close(reached)
				<-release
			}
			return "verif", nil
		})
		l.wg.Add(1)
		go l.l2LSPUpdater()
		stop := func() {
			close(l.done)
			l.wg.Wait()
		}
		quiesce := func() bool {
			deadline := time.Now().Add(10 * time.Second)
			for time.Now().Before(deadline) {
				if len(l.refreshCh) == 0 && c32UpdaterParked() && len(l.refreshCh) == 0 {
					return true
				}
				time.Sleep(200 * time.Microsecond)
			}
			return false
		}
		for i, k := 0, rapid.IntRange(0, 2).Draw(t, "before"); i < k; i++ {
			send(fmt.Sprintf("before%d", i), dbSeq()+uint32(rapid.IntRange(1, 5).Draw(t, "inc")))
			if !quiesce() {
				unjudged++
				c.Class("unjudged")
				close(release)
				stop()
				return
			}
		}
		mu.Lock()
		armed = true
		mu.Unlock()
		l.requestL2LSPUpdate()
		gated := false
		select {
		case <-reached:
			gated = true
		case <-time.After(5 * time.Second):
		}
		base := dbSeq()
		if maxRecv > base {
			base = maxRecv
		}
		for i, k := 0, rapid.IntRange(1, 3).Draw(t, "during"); i < k; i++ {
			base += uint32(rapid.IntRange(1, 5).Draw(t, "inc"))
			send(fmt.Sprintf("during%d", i), base)
		}
		close(release)
		if !quiesce() {
			unjudged++
			c.Class("unjudged")
			stop()
			return
		}
		got := dbSeq()
		stop()
		c.ClassIf(gated, "updater_parked_inside_generation")
		c.NonTrivialIf(gated)
		if got <= maxRecv {
			t.Fatalf("C32/own-copy-during-origination: changes stopped and the updater is idle, but the local LSP in the database has sequence number %d, not above the copy with sequence number %d received from the network (ISO 10589 7.3.16.1)\n%s", got, maxRecv, c.String())
		}
	})
	if unjudged > 0 {
		t.Logf("C32/own-copy-during-origination: %d cases unjudged (a real-time deadline passed)", unjudged)
	}
}

//go:build verif

package server

// C32 — the L2 LSDB follows the ISO 10589 update process.
//
// Server NOT started: every routine body (decrementRemainingLifetimes,
// sendLSPDUs, sendPSNPss, sendCSNPss, the LSP updater body updateL2LSP) is
// called synchronously by the harness, PDUs enter as raw frames through
// netIfa.processPkt from the Up neighbour of the receiving interface.
//
// Reference model (c32Model): ISO 10589 7.3.15.1 (receipt of LSPs), 7.3.15.2
// (receipt of sequence number PDUs, partial and complete), 7.3.15.4/5 (what
// is transmitted when the PSNP / LSP interval expires on a point-to-point
// circuit), 7.3.16.1 / 7.3.6 (own LSP: sequence number above any received
// copy, refresh before expiry), restricted to the sub-set the statement
// names. Purges (zero remaining lifetime) are not implemented by bio-rd and
// the statement is silent about them: an LSP id touched by a purge is "don't
// care" until a copy newer than everything seen so far arrives.

import (
	"bytes"
	"fmt"
	"sort"
	"strings"
	"testing"

	"github.com/bio-routing/bio-rd/net/ethernet"
	"github.com/bio-routing/bio-rd/protocols/isis/packet"
	"github.com/bio-routing/bio-rd/protocols/isis/types"
	"pgregory.net/rapid"
	kit "verifkit"
)

const c32Rule = "histories of 6..40 steps on a not-started server with 2..3 operational p2p L2 interfaces each holding one Up neighbour (fixed during the exchange) and in half of the cases one configured interface whose link never came up: receptions (raw frames through processPkt) of LSPs (own and 5 foreign LSP ids incl. a second fragment and a pseudonode id, sequence 1..5, lifetimes 1/2/300/1200, rarely 0), CSNPs (full or partial range, entries in 1..2 LSP-entries TLVs) and PSNPs with entries of sequence 0..5, interleaved with aging ticks (1..1501), sendLSPDUs, sendPSNPss, sendCSNPss and own-LSP regeneration (updater body run whenever a refresh is pending); after every step database contents and SRM/SSN flags per interface are compared with an ISO 10589 7.3.15-7.3.17 model, transmitted LSPs/PSNP entries with the flags, own LSP present with lifetime>0 after every tick, every origination's sequence number above any received own copy. Non-trivial: one LSP id saw a newer, a same and an older LSP reception and was mentioned in an SNP."

var (
	c32SysA = types.SystemID{0x0a, 0, 0, 0, 0, 1}
	c32SysB = types.SystemID{0x0b, 0, 0, 0, 0, 2}
	c32SysC = types.SystemID{0x0e, 0, 0, 0, 0, 3}
)

// c32IDs: index 0 is the own LSP.
var c32IDs = []packet.LSPID{
	{SystemID: c31OwnSysID},
	{SystemID: c32SysA},
	{SystemID: c32SysA, LSPNumber: 1},
	{SystemID: c32SysB},
	{SystemID: c32SysC, PseudonodeID: 1},
	{SystemID: c32SysC},
}

func c32IDLess(a, b packet.LSPID) bool {
	if c := bytes.Compare(a.SystemID[:], b.SystemID[:]); c != 0 {
		return c < 0
	}
	if a.PseudonodeID != b.PseudonodeID {
		return a.PseudonodeID < b.PseudonodeID
	}
	return a.LSPNumber < b.LSPNumber
}

func c32IDStr(id packet.LSPID) string { return id.String() }

type c32Entry struct {
	seq uint32
	rl  uint16
	srm map[int]bool
	ssn map[int]bool
}

func c32Set(m map[int]bool) string {
	var k []int
	for i, v := range m {
		if v {
			k = append(k, i)
		}
	}
	sort.Ints(k)
	return fmt.Sprint(k)
}

func (e *c32Entry) String() string {
	if e == nil {
		return "absent"
	}
	return fmt.Sprintf("{seq=%d rl=%d SRM=%s SSN=%s}", e.seq, e.rl, c32Set(e.srm), c32Set(e.ssn))
}

type c32Model struct {
	n          int // interfaces with an Up neighbour: 0..n-1
	db         map[packet.LSPID]*c32Entry
	dontCare   map[packet.LSPID]bool
	maxSeen    map[packet.LSPID]uint32 // highest sequence number ever received / originated per id
	maxOwnRecv uint32
}

func c32NewModel(n int) *c32Model {
	return &c32Model{n: n, db: map[packet.LSPID]*c32Entry{}, dontCare: map[packet.LSPID]bool{}, maxSeen: map[packet.LSPID]uint32{}}
}

func (m *c32Model) newEntry(seq uint32, rl uint16) *c32Entry {
	return &c32Entry{seq: seq, rl: rl, srm: map[int]bool{}, ssn: map[int]bool{}}
}

// setSRM: 7.3.15.2 b.4 "Under no circumstances shall SRMflag be set for such an LSP with zero sequence number".
func (e *c32Entry) setSRM(c int) {
	if e.seq != 0 {
		e.srm[c] = true
	}
}

func (m *c32Model) see(id packet.LSPID, seq uint32) {
	if seq > m.maxSeen[id] {
		m.maxSeen[id] = seq
	}
}

// recvLSP — 7.3.15.1 e) for LSPs with non-zero remaining lifetime. Returns a
// label of the branch taken.
func (m *c32Model) recvLSP(c int, id packet.LSPID, seq uint32, rl uint16) string {
	own := id == c32IDs[0]
	prevMax := m.maxSeen[id]
	m.see(id, seq)
	if own && seq > m.maxOwnRecv {
		m.maxOwnRecv = seq
	}
	if rl == 0 {
		// purge: not judged
		m.dontCare[id] = true
		return "purge"
	}
	if m.dontCare[id] {
		if !own && seq > prevMax {
			// newer than anything that can be in the database, whatever happened to the purge
			delete(m.dontCare, id)
			e := m.newEntry(seq, rl)
			for i := 0; i < m.n; i++ {
				if i != c {
					e.setSRM(i)
				}
			}
			e.ssn[c] = true
			m.db[id] = e
			return "newer"
		}
		return "dontcare"
	}
	e := m.db[id]
	switch {
	case e == nil || seq > e.seq:
		if own {
			// 7.3.16.1: the next origination must exceed seq; what the database holds until
			// then is not stated by the property.
			m.dontCare[id] = true
			return "own_newer"
		}
		// e.1: store, SRM on all other circuits, clear SRM on C, SSN on C (non-broadcast), clear SSN elsewhere
		ne := m.newEntry(seq, rl)
		for i := 0; i < m.n; i++ {
			if i != c {
				ne.setSRM(i)
			}
		}
		ne.ssn[c] = true
		m.db[id] = ne
		return "newer"
	case seq == e.seq:
		// e.2: clear SRM on C, set SSN on C
		delete(e.srm, c)
		e.ssn[c] = true
		return "same"
	default:
		// e.3: set SRM on C, clear SSN on C
		e.setSRM(c)
		delete(e.ssn, c)
		return "older"
	}
}

type c32SNPEntry struct {
	id  packet.LSPID
	seq uint32
	rl  uint16
	cks uint16
}

// recvSNPEntry — 7.3.15.2 b) for one reported LSP.
func (m *c32Model) recvSNPEntry(c int, x c32SNPEntry) {
	if m.dontCare[x.id] {
		return
	}
	e := m.db[x.id]
	if e == nil {
		// b.4
		if x.rl != 0 && x.seq != 0 && x.cks != 0 {
			ne := m.newEntry(0, x.rl)
			ne.ssn[c] = true
			m.db[x.id] = ne
		}
		return
	}
	if x.rl == 0 {
		// zero remaining lifetime in an SNP entry is only defined by the purge rules
		m.dontCare[x.id] = true
		return
	}
	switch {
	case x.seq == e.seq:
		delete(e.srm, c) // b.1
	case x.seq < e.seq:
		delete(e.ssn, c) // b.2
		e.setSRM(c)
	default:
		e.ssn[c] = true // b.3
		delete(e.srm, c)
	}
}

// recvCSNPRest — 7.3.15.2 c).
func (m *c32Model) recvCSNPRest(c int, start, end packet.LSPID, mentioned map[packet.LSPID]bool) {
	for id, e := range m.db {
		if m.dontCare[id] || e.seq == 0 || e.rl == 0 {
			continue
		}
		if c32IDLess(id, start) || c32IDLess(end, id) {
			continue
		}
		if !mentioned[id] {
			e.setSRM(c)
		}
	}
}

func (m *c32Model) tick() {
	for id, e := range m.db {
		if e.seq == 0 {
			// placeholder created from an SNP: its lifetime is not specified, so after a tick it
			// may or may not exist any more (this matters: 7.3.15.2 b.3 vs b.4 for a later SNP entry)
			m.dontCare[id] = true
			continue
		}
		if e.rl <= 1 {
			delete(m.db, id)
			continue
		}
		e.rl--
	}
}

func (m *c32Model) originate(seq uint32) {
	id := c32IDs[0]
	e := m.newEntry(seq, defaultLifetimeSeconds)
	for i := 0; i < m.n; i++ {
		e.setSRM(i)
	}
	m.db[id] = e
	delete(m.dontCare, id)
	m.see(id, seq)
}

// ---------------------------------------------------------------------------

type c32Machine struct {
	t    *rapid.T
	c    *kit.Case
	rec  *kit.Recorder
	rig  *c31Rig
	macs []ethernet.MACAddr
	m    *c32Model
	idx  map[*netIfa]int
	// statistics per LSP id
	saw map[packet.LSPID]map[string]bool
	// deferUpdater: do not play the updater goroutine right after the next own-LSP reception
	deferUpdater bool
}

func (x *c32Machine) note(id packet.LSPID, what string) {
	if x.saw[id] == nil {
		x.saw[id] = map[string]bool{}
	}
	x.saw[id][what] = true
}

func (x *c32Machine) real() map[packet.LSPID]*c32Entry {
	l := x.rig.srv.lsdbL2
	l.lspsMu.RLock()
	defer l.lspsMu.RUnlock()
	res := map[packet.LSPID]*c32Entry{}
	for id, e := range l.lsps {
		e.mutex.RLock()
		ce := &c32Entry{seq: e.lspdu.SequenceNumber, rl: e.lspdu.RemainingLifetime, srm: map[int]bool{}, ssn: map[int]bool{}}
		for ifa := range e.srmFlags {
			if i, ok := x.idx[ifa]; ok {
				ce.srm[i] = true
			}
		}
		for ifa := range e.ssnFlags {
			if i, ok := x.idx[ifa]; ok {
				ce.ssn[i] = true
			}
		}
		e.mutex.RUnlock()
		if id != e.lspdu.LSPID {
			x.t.Fatalf("database key %s holds LSP %s", c32IDStr(id), c32IDStr(e.lspdu.LSPID))
		}
		res[id] = ce
	}
	return res
}

func c32Vacant(e *c32Entry) bool {
	return e == nil || (e.seq == 0 && len(e.srm) == 0 && len(e.ssn) == 0)
}

// compare judges database and flags against the model after step `what`.
func (x *c32Machine) compare(what string) {
	real := x.real()
	ids := map[packet.LSPID]bool{}
	for id := range real {
		ids[id] = true
	}
	for id := range x.m.db {
		ids[id] = true
	}
	var order []packet.LSPID
	for id := range ids {
		order = append(order, id)
	}
	sort.Slice(order, func(i, j int) bool { return c32IDLess(order[i], order[j]) })
	for _, id := range order {
		if x.m.dontCare[id] {
			continue
		}
		me, re := x.m.db[id], real[id]
		if c32Vacant(me) {
			// aged out / never stored: absent, an expired header (lifetime 0) or a flagless placeholder
			if c32Vacant(re) || re.rl == 0 {
				continue
			}
			x.t.Fatalf("after %s: LSP %s is in the database as %v, the update process has no such LSP (never received, or aged out)", what, c32IDStr(id), re)
		}
		if re == nil {
			x.t.Fatalf("after %s: LSP %s is missing from the database, expected %v", what, c32IDStr(id), me)
		}
		if re.seq != me.seq {
			x.t.Fatalf("after %s: LSP %s held with sequence number %d, the highest received/originated copy not yet aged out has %d (database %v, model %v)", what, c32IDStr(id), re.seq, me.seq, re, me)
		}
		if me.seq != 0 && re.rl != me.rl {
			x.t.Fatalf("after %s: LSP %s remaining lifetime %d, expected %d", what, c32IDStr(id), re.rl, me.rl)
		}
		if c32Set(re.srm) != c32Set(me.srm) {
			x.t.Fatalf("after %s: LSP %s SRM flags on interfaces %s, ISO 10589 7.3.15 gives %s (database %v, model %v)", what, c32IDStr(id), c32Set(re.srm), c32Set(me.srm), re, me)
		}
		if c32Set(re.ssn) != c32Set(me.ssn) {
			x.t.Fatalf("after %s: LSP %s SSN flags on interfaces %s, ISO 10589 7.3.15 gives %s (database %v, model %v)", what, c32IDStr(id), c32Set(re.ssn), c32Set(me.ssn), re, me)
		}
	}
}

func (x *c32Machine) ownCheck(what string) {
	l := x.rig.srv.lsdbL2
	l.lspsMu.RLock()
	e := l.lsps[c32IDs[0]]
	var rl uint16
	if e != nil {
		rl = e.lspdu.RemainingLifetime
	}
	l.lspsMu.RUnlock()
	if e == nil || rl == 0 {
		x.t.Fatalf("after %s: the local LSP is not in the database with a non-zero lifetime (refresh before expiry)", what)
	}
}

// runUpdater plays the l2LSPUpdater goroutine: while a refresh request is
// pending, run its body. Returns the number of originations.
func (x *c32Machine) runUpdater(what string) int {
	n := 0
	for x.rig.drainRefresh() {
		x.originate(what)
		n++
	}
	return n
}

func (x *c32Machine) originate(what string) {
	l := x.rig.srv.lsdbL2
	var before uint32
	l.lspsMu.RLock()
	if e := l.lsps[c32IDs[0]]; e != nil {
		before = e.lspdu.SequenceNumber
	}
	l.lspsMu.RUnlock()
	l.updateL2LSP()
	l.lspsMu.RLock()
	e := l.lsps[c32IDs[0]]
	var seq uint32
	if e != nil {
		seq = e.lspdu.SequenceNumber
	}
	l.lspsMu.RUnlock()
	if e == nil {
		x.t.Fatalf("%s: origination left no local LSP in the database", what)
	}
	if seq <= x.m.maxOwnRecv {
		x.t.Fatalf("%s: local LSP originated with sequence number %d although a copy with sequence number %d was received from the network (database held %d before)", what, seq, x.m.maxOwnRecv, before)
	}
	if seq <= x.m.maxSeen[c32IDs[0]] {
		x.t.Fatalf("%s: local LSP originated with sequence number %d, not above the previous own sequence number %d", what, seq, x.m.maxSeen[c32IDs[0]])
	}
	x.m.originate(seq)
	x.c.ClassIf(x.m.maxOwnRecv > 0, "originated_after_own_copy_received")
}

func (x *c32Machine) frame(pduType, lenInd uint8, body packet.Serializable) []byte {
	buf := bytes.NewBuffer(c31Header(pduType, lenInd))
	body.Serialize(buf)
	return buf.Bytes()
}

func (x *c32Machine) recvLSP(c int, id packet.LSPID, seq uint32, rl uint16) {
	lsp := &packet.LSPDU{
		RemainingLifetime: rl,
		LSPID:             id,
		SequenceNumber:    seq,
		TypeBlock:         3,
		TLVs: []packet.TLV{
			packet.NewAreaAddressesTLV([]types.AreaID{c31Area}),
			packet.NewDynamicHostnameTLV([]byte(fmt.Sprintf("r%d", seq))),
		},
	}
	lsp.UpdateLength()
	lsp.SetChecksum()
	what := fmt.Sprintf("LSP %s seq=%d lifetime=%d received on if%d", c32IDStr(id), seq, rl, c)
	if err := x.rig.ifaces[c].nifa.processPkt(x.macs[c], x.frame(packet.L2_LS_PDU_TYPE, packet.LSPDUMinLen, lsp)); err != nil {
		x.t.Fatalf("%s: %v", what, err)
	}
	br := x.m.recvLSP(c, id, seq, rl)
	x.note(id, "lsp_"+br)
	x.c.Class("lsp_" + br)
	if !x.deferUpdater {
		x.runUpdater(what)
	}
	x.deferUpdater = false
	x.compare(what)
}

func (x *c32Machine) entriesTLVs(es []c32SNPEntry, split bool) []packet.TLV {
	var pe []*packet.LSPEntry
	for _, e := range es {
		pe = append(pe, &packet.LSPEntry{RemainingLifetime: e.rl, LSPID: e.id, SequenceNumber: e.seq, LSPChecksum: e.cks})
	}
	if len(pe) == 0 {
		return nil
	}
	if split && len(pe) >= 2 {
		h := len(pe) / 2
		return []packet.TLV{packet.NewLSPEntriesTLV(pe[:h]), packet.NewLSPEntriesTLV(pe[h:])}
	}
	return []packet.TLV{packet.NewLSPEntriesTLV(pe)}
}

func c32EntriesStr(es []c32SNPEntry) string {
	var s []string
	for _, e := range es {
		s = append(s, fmt.Sprintf("%s/seq=%d/rl=%d/ck=%d", c32IDStr(e.id), e.seq, e.rl, e.cks))
	}
	return "[" + strings.Join(s, " ") + "]"
}

func (x *c32Machine) recvPSNP(c int, es []c32SNPEntry, split bool) {
	tlvs := x.entriesTLVs(es, split)
	l := 0
	for _, t := range tlvs {
		l += 2 + int(t.Length())
	}
	p := &packet.PSNP{PDULength: uint16(packet.PSNPMinLen + l), SourceID: types.SourceID{SystemID: c32SysA}, TLVs: tlvs}
	what := fmt.Sprintf("PSNP %s (tlvs=%d) received on if%d", c32EntriesStr(es), len(tlvs), c)
	if err := x.rig.ifaces[c].nifa.processPkt(x.macs[c], x.frame(packet.L2_PSNP_TYPE, packet.PSNPMinLen, p)); err != nil {
		x.t.Fatalf("%s: %v", what, err)
	}
	for _, e := range es {
		x.m.recvSNPEntry(c, e)
		x.note(e.id, "snp")
	}
	x.runUpdater(what)
	x.compare(what)
}

func (x *c32Machine) recvCSNP(c int, start, end packet.LSPID, es []c32SNPEntry, split bool) {
	tlvs := x.entriesTLVs(es, split)
	l := 0
	for _, t := range tlvs {
		l += 2 + int(t.Length())
	}
	p := &packet.CSNP{PDULength: uint16(packet.CSNPMinLen + l), SourceID: types.SourceID{SystemID: c32SysA}, StartLSPID: start, EndLSPID: end, TLVs: tlvs}
	what := fmt.Sprintf("CSNP [%s..%s] %s (tlvs=%d) received on if%d", c32IDStr(start), c32IDStr(end), c32EntriesStr(es), len(tlvs), c)
	if err := x.rig.ifaces[c].nifa.processPkt(x.macs[c], x.frame(packet.L2_CSNP_TYPE, packet.CSNPMinLen, p)); err != nil {
		x.t.Fatalf("%s: %v", what, err)
	}
	mentioned := map[packet.LSPID]bool{}
	for _, e := range es {
		x.m.recvSNPEntry(c, e)
		mentioned[e.id] = true
		x.note(e.id, "snp")
	}
	x.m.recvCSNPRest(c, start, end, mentioned)
	x.runUpdater(what)
	x.compare(what)
}

func (x *c32Machine) ticks(k int) {
	l := x.rig.srv.lsdbL2
	for i := 0; i < k; i++ {
		// "until it ages out": an aging tick never makes a stored foreign LSP younger, whatever else is (not)
		// specified about it (purged LSPs, placeholders). Only the own LSP is refreshed locally.
		before := map[packet.LSPID]uint16{}
		l.lspsMu.RLock()
		for id, e := range l.lsps {
			before[id] = e.lspdu.RemainingLifetime
		}
		l.lspsMu.RUnlock()
		l.decrementRemainingLifetimes()
		l.lspsMu.RLock()
		for id, e := range l.lsps {
			if rl, ok := before[id]; ok && id != c32IDs[0] && e.lspdu.RemainingLifetime > rl {
				l.lspsMu.RUnlock()
				x.t.Fatalf("aging tick %d of %d: remaining lifetime of stored LSP %s grew from %d to %d", i+1, k, c32IDStr(id), rl, e.lspdu.RemainingLifetime)
			}
		}
		l.lspsMu.RUnlock()
		x.m.tick()
		what := fmt.Sprintf("aging tick %d of %d", i+1, k)
		x.runUpdater(what)
		x.ownCheck(what)
	}
	x.compare(fmt.Sprintf("%d aging ticks", k))
}

// sent drains the frames the server put on the ethernet of interface c.
func (x *c32Machine) sent(c int) []*packet.ISISPacket {
	var res []*packet.ISISPacket
	for _, f := range x.rig.ifaces[c].eth.take() {
		pkt, err := packet.Decode(bytes.NewBuffer(append([]byte{0, 0, 0}, f...)))
		if err != nil {
			x.t.Fatalf("frame sent on if%d does not decode: %v (% x)", c, err, f)
		}
		res = append(res, pkt)
	}
	return res
}

func (x *c32Machine) sendLSPs() {
	for c := range x.rig.ifaces {
		x.sent(c)
	}
	x.rig.srv.lsdbL2.sendLSPDUs()
	for c := range x.rig.ifaces {
		var got, want []string
		for _, p := range x.sent(c) {
			if p.Header.PDUType != packet.L2_LS_PDU_TYPE {
				x.t.Fatalf("sendLSPDUs put PDU type %d on if%d", p.Header.PDUType, c)
			}
			l := p.Body.(*packet.LSPDU)
			if x.m.dontCare[l.LSPID] {
				continue
			}
			got = append(got, fmt.Sprintf("%s/seq=%d", c32IDStr(l.LSPID), l.SequenceNumber))
		}
		for id, e := range x.m.db {
			if !x.m.dontCare[id] && e.srm[c] {
				want = append(want, fmt.Sprintf("%s/seq=%d", c32IDStr(id), e.seq))
			}
		}
		sort.Strings(got)
		sort.Strings(want)
		if strings.Join(got, " ") != strings.Join(want, " ") {
			x.t.Fatalf("minimum LSP transmission interval expired: LSPs sent on if%d [%s], LSPs with SRM set for it [%s]", c, strings.Join(got, " "), strings.Join(want, " "))
		}
		x.c.ClassIf(len(want) > 0, "lsp_flooded")
	}
	// point-to-point: SRM stays set until acknowledged (7.3.15.5)
	x.compare("sendLSPDUs")
}

func (x *c32Machine) sendPSNPs() {
	for c := range x.rig.ifaces {
		x.sent(c)
	}
	x.rig.srv.lsdbL2.sendPSNPss()
	for c := range x.rig.ifaces {
		var got, want []string
		for _, p := range x.sent(c) {
			if p.Header.PDUType != packet.L2_PSNP_TYPE {
				x.t.Fatalf("sendPSNPss put PDU type %d on if%d", p.Header.PDUType, c)
			}
			for _, e := range p.Body.(*packet.PSNP).GetLSPEntries() {
				if x.m.dontCare[e.LSPID] {
					continue
				}
				got = append(got, fmt.Sprintf("%s/seq=%d", c32IDStr(e.LSPID), e.SequenceNumber))
			}
		}
		for id, e := range x.m.db {
			if !x.m.dontCare[id] && e.ssn[c] {
				want = append(want, fmt.Sprintf("%s/seq=%d", c32IDStr(id), e.seq))
			}
		}
		sort.Strings(got)
		sort.Strings(want)
		if strings.Join(got, " ") != strings.Join(want, " ") {
			x.t.Fatalf("partial SNP interval expired: PSNP entries sent on if%d [%s], LSPs with SSN set for it [%s]", c, strings.Join(got, " "), strings.Join(want, " "))
		}
		x.c.ClassIf(len(want) > 0, "psnp_ack_sent")
	}
	// 7.3.15.4: SSN cleared for the LSPs described
	for _, e := range x.m.db {
		e.ssn = map[int]bool{}
	}
	x.compare("sendPSNPss")
}

func (x *c32Machine) sendCSNPs() {
	x.rig.srv.lsdbL2.sendCSNPss()
	for c := range x.rig.ifaces {
		n := 0
		for _, p := range x.sent(c) {
			if p.Header.PDUType != packet.L2_CSNP_TYPE {
				x.t.Fatalf("sendCSNPss put PDU type %d on if%d", p.Header.PDUType, c)
			}
			n++
		}
		if n == 0 {
			x.t.Fatalf("sendCSNPss sent no CSNP on if%d although it has an Up neighbour and the database holds the local LSP", c)
		}
	}
	x.compare("sendCSNPss")
}

// ---------------------------------------------------------------------------
// generator

func c32GenEntries(t *rapid.T, m *c32Model, start, end packet.LSPID) []c32SNPEntry {
	var es []c32SNPEntry
	for _, id := range c32IDs {
		if c32IDLess(id, start) || c32IDLess(end, id) {
			continue
		}
		if rapid.IntRange(0, 9).Draw(t, "mention") >= 5 {
			continue
		}
		e := c32SNPEntry{id: id, cks: uint16(rapid.IntRange(1, 0xffff).Draw(t, "cks"))}
		// sequence number: biased to the neighbourhood of what the database holds
		cur := uint32(0)
		if me := m.db[id]; me != nil {
			cur = me.seq
		}
		switch rapid.IntRange(0, 5).Draw(t, "seqKind") {
		case 0:
			e.seq = 0
		case 1, 2:
			e.seq = cur
		case 3:
			if cur > 0 {
				e.seq = cur - 1
			}
		case 4:
			e.seq = cur + 1
		default:
			e.seq = uint32(rapid.IntRange(0, 5).Draw(t, "seqU"))
		}
		e.rl = uint16(rapid.SampledFrom([]int{1, 2, 300, 1200, 1200, 1200, 1200, 300, 1200, 1200, 1200, 0}).Draw(t, "rl"))
		if rapid.IntRange(0, 19).Draw(t, "zeroCks") == 7 {
			e.cks = 0
		}
		es = append(es, e)
	}
	return es
}

func c32Run(t *rapid.T, rec *kit.Recorder) {
	c := rec.Case()
	defer c.Done()
	n := rapid.IntRange(2, 3).Draw(t, "ifaces")
	withDown := rapid.Bool().Draw(t, "linkNeverUp")
	rig := c31NewRig(n, withDown)
	defer rig.close()
	x := &c32Machine{t: t, c: c, rec: rec, rig: rig, m: c32NewModel(n), idx: map[*netIfa]int{}, saw: map[packet.LSPID]map[string]bool{}}
	for i, ifc := range rig.ifaces {
		mac := ethernet.MACAddr{0xde, 0xad, 0xbe, 0xef, 1, byte(i)}
		x.macs = append(x.macs, mac)
		x.idx[ifc.nifa] = i
		if err := rig.c31BringUp(ifc, mac, types.SystemID{0xbb, 0, 0, 0, 0, byte(i)}, 30); err != nil {
			t.Fatalf("rig: %v", err)
		}
	}
	rig.drainRefresh()
	c.Logf("ifaces=%d linkNeverUp=%v", n, withDown)
	c.ClassIf(withDown, "with_link_never_up")
	// Start() originates the local LSP before anything else happens
	x.originate("initial origination")
	x.compare("initial origination")

	steps := rapid.IntRange(6, 40).Draw(t, "steps")
	focus := rapid.IntRange(1, len(c32IDs)-1).Draw(t, "focus") // the LSP id most receptions of this history are about
	for i := 0; i < steps; i++ {
		op := rapid.SampledFrom([]string{"lsp", "lsp", "lsp", "lsp", "lsp", "csnp", "csnp", "psnp", "psnp", "tick", "tick", "sendlsp", "sendpsnp", "sendcsnp", "regen"}).Draw(t, "op")
		switch op {
		case "lsp":
			ci := rapid.IntRange(0, n-1).Draw(t, "if")
			id := c32IDs[rapid.SampledFrom([]int{focus, focus, focus, focus, focus, 0, 0, 1, 2, 3, 4, 5}).Draw(t, "id")]
			cur := uint32(0)
			if me := x.m.db[id]; me != nil {
				cur = me.seq
			}
			var seq uint32
			switch rapid.IntRange(0, 4).Draw(t, "seqKind") {
			case 0:
				seq = cur
			case 1:
				seq = cur + 1
			case 2:
				if cur > 1 {
					seq = cur - 1
				}
			default:
				seq = uint32(rapid.IntRange(1, 5).Draw(t, "seqU"))
			}
			if seq == 0 {
				seq = 1
			}
			rl := uint16(rapid.SampledFrom([]int{1, 2, 300, 1200, 1200, 1200, 300, 2, 1200, 300, 1200, 1200}).Draw(t, "rl"))
			if rapid.IntRange(0, 39).Draw(t, "purge") == 17 {
				rl = 0
			}
			// The updater goroutine regenerates the own LSP some time after a newer own copy arrived; in one third
			// of the receptions it is "slow": the request stays pending until a later step plays the updater, so
			// that several own copies can arrive before the next origination.
			x.deferUpdater = id == c32IDs[0] && rapid.IntRange(0, 2).Draw(t, "slow_updater") == 0
			c.Logf("lsp if=%d id=%s seq=%d rl=%d slow_updater=%v", ci, c32IDStr(id), seq, rl, x.deferUpdater)
			c.ClassIf(x.deferUpdater, "own_copy_with_slow_updater")
			x.recvLSP(ci, id, seq, rl)
		case "csnp", "psnp":
			ci := rapid.IntRange(0, n-1).Draw(t, "if")
			start := packet.LSPID{}
			end := packet.LSPID{SystemID: types.SystemID{0xff, 0xff, 0xff, 0xff, 0xff, 0xff}, PseudonodeID: 0xff, LSPNumber: 0xff}
			if op == "csnp" && rapid.IntRange(0, 2).Draw(t, "partial") == 0 {
				a := rapid.IntRange(0, len(c32IDs)-1).Draw(t, "a")
				b := rapid.IntRange(0, len(c32IDs)-1).Draw(t, "b")
				ids := append([]packet.LSPID(nil), c32IDs...)
				sort.Slice(ids, func(i, j int) bool { return c32IDLess(ids[i], ids[j]) })
				if a > b {
					a, b = b, a
				}
				start, end = ids[a], ids[b]
				c.Class("csnp_partial_range")
			}
			es := c32GenEntries(t, x.m, start, end)
			split := rapid.IntRange(0, 3).Draw(t, "split") == 0
			c.ClassIf(split && len(es) >= 2, "snp_two_entry_tlvs")
			if op == "csnp" {
				c.Logf("csnp if=%d range=%s..%s entries=%s split=%v", ci, c32IDStr(start), c32IDStr(end), c32EntriesStr(es), split)
				x.recvCSNP(ci, start, end, es, split)
			} else {
				c.Logf("psnp if=%d entries=%s split=%v", ci, c32EntriesStr(es), split)
				x.recvPSNP(ci, es, split)
			}
		case "tick":
			k := rapid.SampledFrom([]int{1, 1, 1, 2, 3, 5, 298, 299, 300, 301, 1198, 1199, 1200, 1201, 1499, 1500, 1501}).Draw(t, "k")
			c.Logf("tick %d", k)
			x.ticks(k)
		case "sendlsp":
			c.Logf("sendLSPDUs")
			x.sendLSPs()
		case "sendpsnp":
			c.Logf("sendPSNPs")
			x.sendPSNPs()
		case "sendcsnp":
			c.Logf("sendCSNPs")
			x.sendCSNPs()
		case "regen":
			// an event that makes the server regenerate its LSP (7.3.6), e.g. an adjacency change
			c.Logf("regenerate")
			rig.srv.updateL2LSP()
			if x.runUpdater("event-driven regeneration") != 1 {
				t.Fatalf("Server.updateL2LSP() did not queue exactly one refresh request")
			}
			x.compare("event-driven regeneration")
		}
	}
	// the local LSP survives a further 2 500 ticks
	c.Logf("tick 2500")
	x.ticks(2500)

	nt := false
	for id, s := range x.saw {
		if s["lsp_newer"] && s["lsp_same"] && s["lsp_older"] && s["snp"] {
			nt = true
		}
		if id == c32IDs[0] && s["lsp_own_newer"] {
			c.Class("own_copy_with_higher_seq_received")
		}
	}
	c.NonTrivialIf(nt)
}

func TestVerifC32LSDB(t *testing.T) {
	rec := kit.NewRecorder(t, "C32", c32Rule)
	rapid.Check(t, func(t *rapid.T) { c32Run(t, rec) })
}

//go:build verif

package server

// C33 — IS-IS survives any sequence of interface state changes.
//
// Every sequence of link events (up / down / unknown) of length 0..6 is
// enumerated for an active and for a passive point-to-point L2 interface, in
// several modes:
//   plain   only the events
//   timers  after every event the bodies of the periodic server routines
//           (LSP origination request, lifetime decrement, LSP / PSNP / CSNP
//           transmission) are run once, synchronously on a harness goroutine
//   nbr     (active only) whenever the link is up after an event a neighbour
//           answers the hellos so that an adjacency exists when the next event
//           arrives
//
// Events enter through the device-updater seam (device.Client.DeviceUpdate of
// the subscribed interface) on a harness goroutine whose panic is recovered.
// The hello sender / receiver goroutines the interface starts are the real
// ones; the harness decides only at *quiescent* points: a goroutine dump in
// which every goroutine with a frame of this package is parked on a channel
// or semaphore. At such a point nothing can happen until the harness acts, so
// "no hello was sent for this tick" and "the event handler never returned"
// are decided exactly; a real-time deadline only ever ends the run as
// inconclusive.
//
// Oracle (statement): no panic; the interface mutex is free again after every
// event and the server API still answers (server "running"); whenever the
// link is up on an active interface the interface has an open ethernet
// handle, a hello of this system leaves on *that* handle for every hello tick,
// and a neighbour naming this system in its three-way TLV reaches adjacency
// state Up (GetAdjacencies) within three hellos.

import (
	"bytes"
	"fmt"
	"os"
	"runtime"
	"strings"
	"sync"
	"sync/atomic"
	"testing"
	"time"

	bbclock "github.com/benbjohnson/clock"
	bnet "github.com/bio-routing/bio-rd/net"
	"github.com/bio-routing/bio-rd/net/ethernet"
	"github.com/bio-routing/bio-rd/protocols/device"
	"github.com/bio-routing/bio-rd/protocols/isis/packet"
	"github.com/bio-routing/bio-rd/protocols/isis/types"
	biolog "github.com/bio-routing/bio-rd/util/log"
	kit "verifkit"
)

const c33Rule = "all sequences over {up, down, unknown} of length 0..N (N=6 quick) x {active, passive} interface x mode {plain, timers, nbr, timers+nbr, events while a hello is built, first multicast join fails, address configured after the carrier}; after every event: recovered panic / mutex / deadlock check at a quiescent point, and while the link is up on an active interface: hello on the current ethernet handle per tick and adjacency Up after a neighbour's three-way hello. Non-trivial: the sequence contains >= 2 transitions to up."

const c33RealDeadline = 120 * time.Second

// c33Inconclusive ends the process without a test verdict (driver: exit 2).
func c33Inconclusive(format string, args ...interface{}) {
	fmt.Fprintf(os.Stderr, "C33 harness inconclusive: "+format+"\n", args...)
	os.Exit(3)
}

// ---------------------------------------------------------------------------
// goroutine snapshot / quiescence

var c33DumpBuf = make([]byte, 1<<20)

type c33Snapshot struct {
	total  int      // goroutines (other than the caller) with a frame of package server
	busy   int      // of those: not parked
	states []string // "state: first frames"
}

var c33Parked = map[string]bool{
	"chan receive": true, "chan send": true, "select": true, "select (no cases)": true,
	"chan receive (nil chan)": true, "chan send (nil chan)": true,
	"semacquire": true, "sync.Mutex.Lock": true, "sync.RWMutex.Lock": true, "sync.RWMutex.RLock": true,
	"sync.Cond.Wait": true, "sync.WaitGroup.Wait": true,
}

func c33Snap() c33Snapshot {
	var n int
	for {
		n = runtime.Stack(c33DumpBuf, true)
		if n < len(c33DumpBuf) {
			break
		}
		c33DumpBuf = make([]byte, 2*len(c33DumpBuf))
	}
	var s c33Snapshot
	blocks := strings.Split(string(c33DumpBuf[:n]), "\n\n")
	for i, b := range blocks {
		if i == 0 { // the calling goroutine
			continue
		}
		if !strings.Contains(b, "bio-rd/protocols/isis/server.") {
			continue
		}
		s.total++
		h := b
		if j := strings.IndexByte(h, '\n'); j >= 0 {
			h = h[:j]
		}
		st := ""
		if o, c := strings.IndexByte(h, '['), strings.LastIndexByte(h, ']'); o >= 0 && c > o {
			st = h[o+1 : c]
		}
		if j := strings.IndexByte(st, ','); j >= 0 {
			st = st[:j]
		}
		parked := c33Parked[st]
		if st == "semacquire" && !strings.Contains(b, "\nsync.") {
			// runtime-internal semaphore (e.g. a goroutine that wants to start a GC cycle waits
			// for the world semaphore this very dump holds): transient, not parked
			parked = false
		}
		if !parked {
			s.busy++
		}
		fr := ""
		for _, l := range strings.Split(b, "\n") {
			if strings.Contains(l, "isis/server.") && !strings.HasPrefix(l, "\t") {
				fr = l
				break
			}
		}
		s.states = append(s.states, st+": "+fr)
	}
	return s
}

// c33WaitQuiet waits until every server goroutine is parked.
func c33WaitQuiet(what string) c33Snapshot {
	deadline := time.Now().Add(c33RealDeadline)
	for i := 0; ; i++ {
		s := c33Snap()
		if s.busy == 0 {
			// confirm on a second dump after yielding
			runtime.Gosched()
			s = c33Snap()
		}
		if s.busy == 0 {
			if i > 50 && os.Getenv("VERIF_C33_DEBUG") != "" {
				fmt.Fprintf(os.Stderr, "C33 debug: %s: quiescent after %d rounds, %v: %v\n", what, i, time.Since(deadline.Add(-c33RealDeadline)), s.states)
			}
			return s
		}
		if time.Now().After(deadline) {
			c33Inconclusive("%s: goroutines did not become quiescent: %v", what, s.states)
		}
		if i%2000 == 1999 && os.Getenv("VERIF_C33_DEBUG") != "" {
			fmt.Fprintf(os.Stderr, "C33 debug: %s: waiting for quiescence, round %d: %v\n", what, i, s.states)
		}
		if i < 20 {
			runtime.Gosched()
		} else {
			time.Sleep(100 * time.Microsecond)
		}
	}
}

// c33WaitGone waits until no server goroutine is left (end of a case).
func c33WaitGone(what string) {
	deadline := time.Now().Add(c33RealDeadline)
	for i := 0; ; i++ {
		s := c33Snap()
		if s.total == 0 {
			return
		}
		if time.Now().After(deadline) {
			c33Inconclusive("%s: goroutines of the case are still alive: %v", what, s.states)
		}
		if i < 20 {
			runtime.Gosched()
		} else {
			time.Sleep(100 * time.Microsecond)
		}
	}
}

// c33Op runs fn on its own goroutine. It returns the recovered panic (with
// stack) or reports a deadlock: fn has not returned although every server
// goroutine, fn's included, is parked — decided on two consecutive dumps.
func c33Op(what string, fn func()) (panicText string, deadlock string) {
	done := make(chan string, 1)
	go func() {
		defer func() {
			if r := recover(); r != nil {
				buf := make([]byte, 4096)
				buf = buf[:runtime.Stack(buf, false)]
				done <- fmt.Sprintf("%v\n%s", r, c33TrimStack(string(buf)))
				return
			}
			done <- ""
		}()
		fn()
	}()
	deadline := time.Now().Add(c33RealDeadline)
	quietRounds := 0
	for i := 0; ; i++ {
		select {
		case p := <-done:
			return p, ""
		default:
		}
		s := c33Snap()
		if s.busy == 0 && s.total > 0 {
			quietRounds++
			if quietRounds >= 3 {
				select {
				case p := <-done:
					return p, ""
				default:
				}
				return "", fmt.Sprintf("%s never returned and every goroutine is parked: %v", what, s.states)
			}
		} else {
			quietRounds = 0
		}
		if time.Now().After(deadline) {
			c33Inconclusive("%s did not return within the real-time deadline, goroutines: %v", what, s.states)
		}
		if i < 20 {
			runtime.Gosched()
		} else {
			time.Sleep(100 * time.Microsecond)
		}
	}
}

func c33TrimStack(s string) string {
	var out []string
	for _, l := range strings.Split(s, "\n") {
		if strings.Contains(l, "isis/server.") || strings.Contains(l, "isis/server/") {
			out = append(out, strings.TrimSpace(l))
		}
		if len(out) >= 12 {
			break
		}
	}
	return strings.Join(out, "\n")
}

// ---------------------------------------------------------------------------
// seams: device, updater, ethernet

type c33Dev struct {
	oper  uint8
	addrs []*bnet.Prefix
	gate  *c33Gate
}

const c33IfIndex = 7

// c33Gate holds the hello sender inside p2pHello() (its first call into the
// device object after a hello tick) until the harness has issued the next
// device event and that event has taken the interface mutex: the schedule
// "link event while a hello is being built". The gate never parks (it spins),
// so the quiescence based deadlock detector cannot mistake it for a deadlock,
// and it lets go by itself after a bounded real time.
type c33Gate struct {
	armed   int32
	reached int32
	issued  int32
	nifa    *netIfa
}

func (g *c33Gate) hit() {
	if !atomic.CompareAndSwapInt32(&g.armed, 1, 0) {
		return
	}
	atomic.StoreInt32(&g.reached, 1)
	deadline := time.Now().Add(200 * time.Millisecond)
	for atomic.LoadInt32(&g.issued) == 0 && time.Now().Before(deadline) {
		runtime.Gosched()
	}
	// wait until the device update holds the interface mutex (it then waits for this goroutine to end)
	deadline = time.Now().Add(50 * time.Millisecond)
	for time.Now().Before(deadline) {
		if !g.nifa.mu.TryLock() {
			break
		}
		g.nifa.mu.Unlock()
		runtime.Gosched()
	}
}

func (d *c33Dev) GetIndex() uint64 {
	if d.gate != nil {
		d.gate.hit()
	}
	return c33IfIndex
}
func (d *c33Dev) GetOperState() uint8      { return d.oper }
func (d *c33Dev) GetAddrs() []*bnet.Prefix { return d.addrs }

// c33Updater is the device-updater seam: it remembers the subscribed client.
type c33Updater struct {
	clients map[string]device.Client
}

func (u *c33Updater) Subscribe(c device.Client, name string) { u.clients[name] = c }
func (u *c33Updater) Unsubscribe(device.Client, string)      {}
func (u *c33Updater) Start() error                           { return nil }

type c33Pkt struct {
	src ethernet.MACAddr
	pkt []byte
}

// c33Eth is a mock ethernet handle modelled on ethernet.MockEthernetInterface,
// with deterministic behaviour after Close and inspectable state.
type c33Eth struct {
	id         int
	mu         sync.Mutex
	sent       [][]byte
	closed     bool
	failJoin   bool
	closeCalls int
	closedCh   chan struct{}
	recvCh     chan c33Pkt
}

func (e *c33Eth) RecvPacket() ([]byte, ethernet.MACAddr, error) {
	select {
	case <-e.closedCh:
		return nil, ethernet.MACAddr{}, fmt.Errorf("socket closed")
	default:
	}
	select {
	case <-e.closedCh:
		return nil, ethernet.MACAddr{}, fmt.Errorf("socket closed")
	case p := <-e.recvCh:
		return p.pkt, p.src, nil
	}
}

func (e *c33Eth) SendPacket(dst ethernet.MACAddr, pkt []byte) error {
	e.mu.Lock()
	defer e.mu.Unlock()
	if e.closed {
		return fmt.Errorf("socket closed")
	}
	e.sent = append(e.sent, append([]byte(nil), pkt...))
	return nil
}

func (e *c33Eth) MCastJoin(ethernet.MACAddr) error {
	if e.failJoin {
		return fmt.Errorf("c33: multicast join failed (device not ready)")
	}
	return nil
}
func (e *c33Eth) GetMTU() int { return 1500 }

func (e *c33Eth) Close() {
	e.mu.Lock()
	defer e.mu.Unlock()
	e.closeCalls++
	if !e.closed {
		e.closed = true
		close(e.closedCh)
	}
}

func (e *c33Eth) isClosed() bool {
	e.mu.Lock()
	defer e.mu.Unlock()
	return e.closed
}

func (e *c33Eth) take() [][]byte {
	e.mu.Lock()
	defer e.mu.Unlock()
	s := e.sent
	e.sent = nil
	return s
}

type c33Factory struct {
	mu   sync.Mutex
	eths []*c33Eth
	// failNext: the multicast join of the next handle fails (fault injection); faulted: that happened
	failNext bool
	faulted  bool
}

func (f *c33Factory) New(name string, bpf *ethernet.BPF, llc ethernet.LLC) (ethernet.EthernetInterfaceI, error) {
	f.mu.Lock()
	defer f.mu.Unlock()
	e := &c33Eth{id: len(f.eths), closedCh: make(chan struct{}), recvCh: make(chan c33Pkt, 64)}
	if f.failNext {
		f.failNext, f.faulted, e.failJoin = false, true, true
	}
	f.eths = append(f.eths, e)
	return e, nil
}

func (f *c33Factory) takeFaulted() bool {
	f.mu.Lock()
	defer f.mu.Unlock()
	v := f.faulted
	f.faulted = false
	return v
}

func (f *c33Factory) all() []*c33Eth {
	f.mu.Lock()
	defer f.mu.Unlock()
	return append([]*c33Eth(nil), f.eths...)
}

// ---------------------------------------------------------------------------
// the rig of one case

var (
	c33OurSys  = types.SystemID{12, 12, 12, 13, 13, 13}
	c33NbrSys  = types.SystemID{0xde, 0xad, 0xbe, 0xef, 0xff, 0x01}
	c33NbrMAC  = ethernet.MACAddr{0xde, 0xad, 0xbe, 0xef, 0x12, 0x34}
	c33IfAddrs = []*bnet.Prefix{bnet.NewPfx(bnet.IPv4FromOctets(169, 254, 100, 0), 31).Ptr()}
)

const (
	c33EvUp = iota
	c33EvDown
	c33EvUnknown
)

var c33EvName = []string{"U", "D", "N"}
var c33EvOper = []uint8{device.IfOperUp, device.IfOperDown, device.IfOperUnknown}

type c33Case struct {
	passive bool
	timers  bool
	nbr     bool
	started bool // real Server.Start() goroutines, mock clock advanced past the SNP timers after every event
	// midHello: an event that arrives while the link is up is delivered while the hello sender is building a hello
	midHello bool
	// joinFault: the multicast join of the first ethernet handle fails (that link up does not bring the interface up)
	joinFault bool
	// lateAddr: every link-up is reported twice, first without any address on the interface (the carrier is
	// there before the address is configured), then with the address, the link staying up
	lateAddr bool
	seq      []int
}

func (c c33Case) String() string {
	var sb strings.Builder
	for _, e := range c.seq {
		sb.WriteString(c33EvName[e])
	}
	k := "active"
	if c.passive {
		k = "passive"
	}
	if c.started {
		k += " started"
	}
	if c.midHello {
		k += " midhello"
	}
	if c.joinFault {
		k += " joinfault"
	}
	if c.lateAddr {
		k += " lateaddr"
	}
	return fmt.Sprintf("%s timers=%v nbr=%v seq=[%s]", k, c.timers, c.nbr, sb.String())
}

type c33Rig struct {
	cs     c33Case
	clk    *bbclock.Mock
	srv    *Server
	upd    *c33Updater
	fac    *c33Factory
	nifa   *netIfa
	client device.Client
	up     bool     // the interface is expected to be operational (hellos, adjacencies)
	linkUp bool     // operational state the device updater reported last
	stuck  bool     // the case ended in a confirmed deadlock
	gate   *c33Gate // gate of the device object the interface came up with
}

type c33Violation struct {
	sig  string
	text string
}

func c33NewRig(cs c33Case) *c33Rig {
	r := &c33Rig{cs: cs, clk: bbclock.NewMock(), upd: &c33Updater{clients: map[string]device.Client{}}, fac: &c33Factory{}}
	r.clk.Set(time.Date(2023, 1, 23, 0, 0, 0, 0, time.UTC))
	SetClock(r.clk)
	srv, err := New([]*types.NET{{AreaID: types.AreaID{0x49, 0x00}, SystemID: c33OurSys, SEL: 0}}, r.upd, 3600)
	if err != nil {
		panic(err)
	}
	srv.SetEthernetInterfaceFactory(r.fac)
	srv.SetHostnameFunc(func() (string, error) { return "c33", nil })
	r.srv = srv
	if cs.started { // as cmd/bio-rd does: Start() before the interfaces are added
		srv.Start()
	}
	err = srv.AddInterface(&InterfaceConfig{
		Name:         "eth0",
		Passive:      cs.passive,
		PointToPoint: true,
		Level2:       &InterfaceLevelConfig{HelloInterval: 4, HoldingTimer: 16, Metric: 10, Passive: cs.passive},
	})
	if err != nil {
		panic(err)
	}
	r.nifa = srv.netIfaManager.getInterface("eth0")
	r.client = r.upd.clients["eth0"]
	if r.client == nil {
		panic("C33 rig: AddInterface did not subscribe to the device updater")
	}
	return r
}

// remote hello naming us in the three-way TLV (RFC 5303), with LLC
func c33RemoteHello() []byte {
	p := &kit.ISISPDU{LLC: [3]byte{0xfe, 0xfe, 0x03}, Hdr: [8]byte{0x83, 20, 1, 0, packet.P2P_HELLO, 1, 0, 0}}
	p.Fixed = append([]byte{2}, c33NbrSys[:]...)
	p.Fixed = append(p.Fixed, 0, 16, 0, 0, 1)
	adj := []byte{packet.P2PAdjStateInit, 0, 0, 0, 100}
	adj = append(adj, c33OurSys[:]...)
	adj = append(adj, 0, 0, 0, c33IfIndex)
	p.TLVs = []kit.ISISTLV{
		kit.NewISISTLV(240, adj),
		kit.NewISISTLV(129, []byte{packet.NLPIDIPv4, packet.NLPIDIPv6}),
		kit.NewISISTLV(132, []byte{169, 254, 100, 1}),
		kit.NewISISTLV(1, []byte{2, 0x49, 0}),
	}
	p.FixPDULength()
	return p.Bytes()
}

func (r *c33Rig) timerBodies() {
	l := r.srv.lsdbL2
	select {
	case <-l.refreshCh:
		l.updateL2LSP()
	default:
	}
	l.decrementRemainingLifetimes()
	l.sendLSPDUs()
	l.sendPSNPss()
	l.sendCSNPss()
}

// step runs fn as an operation and converts panic / deadlock / a mutex left
// locked into a violation.
func (r *c33Rig) step(kind, what string, fn func()) *c33Violation {
	p, dl := c33Op(what, fn)
	if p != "" {
		return &c33Violation{sig: "C33/panic/" + kind + "/" + c33TopFrame(p), text: fmt.Sprintf("%s panicked: %s", what, p)}
	}
	if dl != "" {
		return &c33Violation{sig: "C33/deadlock/" + kind, text: dl}
	}
	// state that only the (finished) operation changes is judged before waiting for the
	// goroutines: with a closed handle the receiver would spin and never become quiescent
	if kind == "DeviceUpdate" && r.up && !r.cs.passive {
		if v := r.checkHandle(); v != nil {
			return v
		}
	}
	c33WaitQuiet(what)
	if !r.nifa.mu.TryLock() {
		return &c33Violation{sig: "C33/mutex-left-locked", text: fmt.Sprintf("after %s the interface mutex is still held although every goroutine is parked", what)}
	}
	r.nifa.mu.Unlock()
	return nil
}

// c33TopFrame names the innermost bio-rd function of a recovered panic's stack.
func c33TopFrame(p string) string {
	for _, l := range strings.Split(p, "\n") {
		if !strings.Contains(l, "isis/server.") || strings.Contains(l, "c33") || strings.HasPrefix(l, "/") {
			continue
		}
		if i := strings.Index(l, "isis/server."); i >= 0 {
			l = l[i+len("isis/server."):]
		}
		if i := strings.LastIndexByte(l, '('); i > 0 {
			l = l[:i]
		}
		return c33Slug(l)
	}
	return "unknown"
}

func c33Slug(s string) string {
	var sb strings.Builder
	for _, c := range s {
		switch {
		case c >= 'a' && c <= 'z', c >= 'A' && c <= 'Z', c >= '0' && c <= '9':
			sb.WriteRune(c)
		default:
			if sb.Len() > 0 && !strings.HasSuffix(sb.String(), "-") {
				sb.WriteByte('-')
			}
		}
		if sb.Len() > 60 {
			break
		}
	}
	return strings.Trim(sb.String(), "-")
}

// checkHandle: the link is up on an active interface, so it has an open ethernet handle.
func (r *c33Rig) checkHandle() *c33Violation {
	ei := r.srv.GetEthernetInterface("eth0")
	cur, _ := ei.(*c33Eth)
	if ei == nil || cur == nil {
		return &c33Violation{sig: "C33/up-without-ethernet", text: fmt.Sprintf("link is up but the interface has no ethernet handle (%T)", ei)}
	}
	if cur.isClosed() {
		return &c33Violation{sig: "C33/up-with-closed-ethernet", text: fmt.Sprintf("link is up but the interface's current ethernet handle (#%d of %d created) is closed: no hello can leave", cur.id, len(r.fac.all()))}
	}
	return nil
}

// checkUp: the link is up on an active interface.
func (r *c33Rig) checkUp(formAdjacency bool) *c33Violation {
	if v := r.checkHandle(); v != nil {
		return v
	}
	cur := r.srv.GetEthernetInterface("eth0").(*c33Eth)
	for tick := 0; tick < 2; tick++ {
		cur.take()
		r.clk.Add(4 * time.Second) // hello interval
		c33WaitQuiet("hello tick")
		if v := r.findHello(cur, tick); v != nil {
			return v
		}
	}
	if !formAdjacency {
		return nil
	}
	hello := c33RemoteHello()
	for i := 0; i < 3; i++ {
		if cur.isClosed() {
			return &c33Violation{sig: "C33/up-with-closed-ethernet", text: "ethernet handle closed while the link is up"}
		}
		cur.recvCh <- c33Pkt{src: c33NbrMAC, pkt: append([]byte(nil), hello...)}
		c33WaitQuiet("remote hello")
		if len(cur.recvCh) != 0 {
			return &c33Violation{sig: "C33/receiver-not-running", text: fmt.Sprintf("a frame handed to the current ethernet handle (#%d) is never read although every goroutine is parked: no receiver is running", cur.id)}
		}
		var adj []*Adjacency
		if p, _ := c33Op("GetAdjacencies", func() { adj = r.srv.GetAdjacencies() }); p != "" {
			return &c33Violation{sig: "C33/panic/GetAdjacencies", text: "GetAdjacencies panicked: " + p}
		}
		for _, a := range adj {
			if a.SystemID == c33NbrSys && a.InterfaceName == "eth0" && a.Status == packet.P2PAdjStateUp {
				return nil
			}
		}
	}
	return &c33Violation{sig: "C33/adjacency-not-up", text: "after three hellos of a neighbour naming this system and circuit the adjacency is not Up: " + r.adjString()}
}

func (r *c33Rig) adjString() string {
	var out []string
	for _, a := range r.srv.GetAdjacencies() {
		out = append(out, fmt.Sprintf("%x@%s status=%d", a.SystemID, a.InterfaceName, a.Status))
	}
	return fmt.Sprintf("%v", out)
}

func (r *c33Rig) findHello(cur *c33Eth, tick int) *c33Violation {
	sent := cur.take()
	for _, raw := range sent {
		if len(raw) < 8 || raw[4] != packet.P2P_HELLO {
			continue
		}
		pkt, err := packet.Decode(bytes.NewBuffer(append([]byte{0xfe, 0xfe, 0x03}, raw...)))
		if err != nil {
			continue
		}
		if h, ok := pkt.Body.(*packet.P2PHello); ok && h.SystemID == c33OurSys {
			return nil
		}
	}
	var others []string
	for _, e := range r.fac.all() {
		if e != cur {
			if n := len(e.take()); n > 0 {
				others = append(others, fmt.Sprintf("#%d got %d frames", e.id, n))
			}
		}
	}
	return &c33Violation{sig: "C33/no-hello-after-up", text: fmt.Sprintf("link is up, hello tick %d delivered, every goroutine parked, but no hello of this system was sent on the current ethernet handle #%d (frames there: %d; other handles: %v)", tick, cur.id, len(sent), others)}
}

// advance moves the mock clock past the 5 s PSNP/LSP and 10 s CSNP timers in
// 1 s steps; the routines Start() launched run on their own goroutines (a
// panic there ends the process: the journal names the case).
func (r *c33Rig) advance() {
	for i := 0; i < 11; i++ {
		r.clk.Add(time.Second)
		c33WaitQuiet("clock advance")
	}
}

// close ends the case: link down, everything stopped, no goroutine left.
func (r *c33Rig) close(broken bool) {

	if r.up && !broken {
		c33Op("cleanup down", func() { r.client.DeviceUpdate(&c33Dev{oper: device.IfOperDown, addrs: c33IfAddrs}) })
	}
	// white-box fallback for whatever is still running
	func() {
		defer func() { recover() }()
		close(r.nifa.done)
	}()
	for _, e := range r.fac.all() {
		if !e.isClosed() {
			e.Close()
		}
	}
	for _, nm := range []*neighborManager{r.nifa.neighborManagerL1, r.nifa.neighborManagerL2} {
		if nm == nil {
			continue
		}
		for _, n := range nm.getNeighbors() {
			func() {
				defer func() { recover() }()
				close(n.done)
			}()
		}
	}
	if r.cs.started {
		c33Op("lsdb stop", func() { r.srv.lsdbL2.stop() })
	}
	if r.stuck {
		return
	}
	c33WaitGone("end of case " + r.cs.String())
}

// c33RunCase executes one case; it returns the first violation.
func c33RunCase(cs c33Case) *c33Violation {
	r := c33NewRig(cs)
	var v *c33Violation
	defer func() {
		// after a deadlock the blocked goroutines can never go away: the enumeration stops at once (FailNow),
		// waiting for them would only turn the violation into "inconclusive"
		r.stuck = v != nil && (strings.HasPrefix(v.sig, "C33/deadlock") || v.sig == "C33/mutex-left-locked")
		r.close(v != nil)
	}()
	if cs.timers {
		if v = r.step("timers", "timer routines (no event yet)", r.timerBodies); v != nil {
			return v
		}
	}
	if cs.started {
		r.advance()
	}
	if cs.joinFault {
		r.fac.failNext = true
	}
	for i, e := range cs.seq {
		dev := &c33Dev{oper: c33EvOper[e], addrs: c33IfAddrs}
		if e == c33EvUp {
			dev.gate = &c33Gate{nifa: r.nifa}
		}
		what := fmt.Sprintf("DeviceUpdate(%s) [event %d]", c33EvName[e], i)
		if cs.midHello && r.up && !cs.passive && r.gate != nil {
			// fire a hello tick and hold the sender inside p2pHello() until the event below has been issued
			g := r.gate
			atomic.StoreInt32(&g.issued, 0)
			atomic.StoreInt32(&g.reached, 0)
			atomic.StoreInt32(&g.armed, 1)
			r.clk.Add(4 * time.Second)
			for dl := time.Now().Add(2 * time.Second); atomic.LoadInt32(&g.reached) == 0 && time.Now().Before(dl); {
				time.Sleep(50 * time.Microsecond)
			}
			atomic.StoreInt32(&g.armed, 0)
			what += " while a hello is being built"
			atomic.StoreInt32(&g.issued, 1)
		}
		r.fac.mu.Lock()
		willFault := r.fac.failNext && !cs.passive
		r.fac.mu.Unlock()
		// The interface is (re)started on an operational state transition to up. A start whose multicast join
		// fails leaves it down until the link has gone down and come back ("after a link comes back up").
		switch {
		case e != c33EvUp:
			r.up = false
		case !r.linkUp:
			r.up = !willFault
		}
		r.linkUp = e == c33EvUp
		if cs.lateAddr && e == c33EvUp {
			bare := &c33Dev{oper: c33EvOper[e]}
			if v = r.step("DeviceUpdate", what+" (no address yet)", func() { r.client.DeviceUpdate(bare) }); v != nil {
				v.text = fmt.Sprintf("after event %d (%s without address): %s", i, c33EvName[e], v.text)
				return v
			}
			what += " (now with the address)"
		}
		if v = r.step("DeviceUpdate", what, func() { r.client.DeviceUpdate(dev) }); v != nil {
			v.text = fmt.Sprintf("after event %d (%s): %s", i, c33EvName[e], v.text)
			return v
		}
		r.fac.takeFaulted()
		if r.up && dev.gate != nil {
			r.gate = dev.gate // the hello sender reads the device object of the latest update
		}
		if !r.up {
			r.gate = nil
		}
		if cs.started {
			r.advance()
		}
		if cs.timers {
			if v = r.step("timers", fmt.Sprintf("timer routines after event %d (%s)", i, c33EvName[e]), r.timerBodies); v != nil {
				return v
			}
		}
		last := i == len(cs.seq)-1
		if r.up && !cs.passive && (cs.nbr || last) {
			if v = r.checkUp(cs.nbr); v != nil {
				v.text = fmt.Sprintf("after event %d (%s): %s", i, c33EvName[e], v.text)
				return v
			}
			if cs.timers {
				if v = r.step("timers", fmt.Sprintf("timer routines with link up after event %d", i), r.timerBodies); v != nil {
					return v
				}
			}
			if cs.started {
				r.advance()
			}
		}
	}
	// the server still answers
	if v = r.step("api", "server API (GetInterfaceNames, GetAdjacencies, GetLSDB)", func() {
		r.srv.GetInterfaceNames()
		r.srv.GetAdjacencies()
		r.srv.GetLSDB()
	}); v != nil {
		return v
	}
	return nil
}

// ---------------------------------------------------------------------------
// enumeration

var c33JournalFile *os.File

func c33Journal(s string) {
	if c33JournalFile == nil {
		d := os.Getenv("VERIF_WORK")
		if d == "" {
			return
		}
		f, err := os.OpenFile(d+"/journal.txt", os.O_CREATE|os.O_WRONLY|os.O_TRUNC, 0o644)
		if err != nil {
			return
		}
		c33JournalFile = f
	}
	c33JournalFile.Seek(0, 0)
	c33JournalFile.Truncate(0)
	fmt.Fprintf(c33JournalFile, "C33 case (executing): %s\n", s)
}

type c33Discard struct{}

func (c33Discard) Errorf(string, ...interface{})                     {}
func (c33Discard) Infof(string, ...interface{})                      {}
func (c33Discard) Debugf(string, ...interface{})                     {}
func (c33Discard) Error(string)                                      {}
func (c33Discard) Info(string)                                       {}
func (c33Discard) Debug(string)                                      {}
func (d c33Discard) WithFields(biolog.Fields) biolog.LoggerInterface { return d }
func (d c33Discard) WithError(error) biolog.LoggerInterface          { return d }

func c33Sequences(maxLen int) [][]int {
	out := [][]int{{}}
	prev := [][]int{{}}
	for l := 1; l <= maxLen; l++ {
		var next [][]int
		for _, p := range prev {
			for e := 0; e < 3; e++ {
				s := append(append([]int(nil), p...), e)
				next = append(next, s)
			}
		}
		out = append(out, next...)
		prev = next
	}
	return out
}

func c33Transitions(seq []int) int {
	n, up := 0, false
	for _, e := range seq {
		if e == c33EvUp && !up {
			n++
		}
		up = e == c33EvUp
	}
	return n
}

type c33Mode struct {
	passive, timers, nbr, started, midHello, joinFault, lateAddr bool
	maxLen                                                       int // 0: the enumeration's default
}

func c33Enumerate(t *testing.T, maxLen int, modes []c33Mode) {
	biolog.SetLogger(c33Discard{})
	rec := kit.NewRecorder(t, "C33", c33Rule)
	shard, shards := kit.Shard()
	seqs := c33Sequences(maxLen)
	// VERIF_C33_FILTER=<substring of the case string> re-executes single cases (replay of a journal entry)
	filter := os.Getenv("VERIF_C33_FILTER")
	var viols []*c33Violation
	seen := map[string]bool{}
	k := 0
	for _, m := range modes {
		for _, seq := range seqs {
			if m.maxLen > 0 && len(seq) > m.maxLen {
				continue
			}
			k++
			if k%shards != shard {
				continue
			}
			cs := c33Case{passive: m.passive, timers: m.timers, nbr: m.nbr, started: m.started, midHello: m.midHello, joinFault: m.joinFault, lateAddr: m.lateAddr, seq: seq}
			if filter != "" && !strings.Contains(cs.String(), filter) {
				continue
			}
			c33Journal(cs.String())
			c := rec.Case()
			c.Logf("%s", cs.String())
			tr := c33Transitions(seq)
			c.NonTrivialIf(tr >= 2)
			c.ClassIf(m.passive, "passive")
			c.ClassIf(!m.passive, "active")
			c.ClassIf(m.timers, "timers")
			c.ClassIf(m.nbr, "nbr")
			c.ClassIf(m.started, "started")
			c.ClassIf(m.midHello, "event_while_hello_is_built")
			c.ClassIf(m.joinFault, "multicast_join_fault")
			c.ClassIf(len(seq) > 0 && seq[len(seq)-1] == c33EvUp, "ends_up")
			c.Class(fmt.Sprintf("up_transitions_%d", tr))
			v := c33RunCase(cs)
			c.Done()
			if v == nil {
				continue
			}
			if rec.Known(v.sig) {
				continue
			}
			if !seen[v.sig] {
				seen[v.sig] = true
				v.text = fmt.Sprintf("case %s: [%s] %s", cs.String(), v.sig, v.text)
				viols = append(viols, v)
				t.Errorf("%s", v.text)
			}
			if len(viols) >= 8 || strings.HasPrefix(v.sig, "C33/deadlock") || v.sig == "C33/mutex-left-locked" {
				t.FailNow()
			}
		}
	}
	rec.SetExhaustive(len(viols) == 0 && filter == "")
}

// TestVerifC33Exhaustive enumerates all sequences up to length 6 (quick) or 7 (thorough).
func TestVerifC33Exhaustive(t *testing.T) {
	c33Enumerate(t, kit.Scale(6, 7), []c33Mode{
		{passive: false}, {passive: false, timers: true}, {passive: false, nbr: true}, {passive: false, timers: true, nbr: true},
		{passive: true}, {passive: true, timers: true},
		// schedule: events delivered while the hello sender is inside p2pHello(); fault: first multicast join fails
		{midHello: true, maxLen: kit.Scale(4, 5)}, {midHello: true, nbr: true, maxLen: kit.Scale(4, 5)},
		{joinFault: true, maxLen: kit.Scale(5, 6)}, {joinFault: true, timers: true, nbr: true, maxLen: kit.Scale(5, 6)},
		// the address arrives after the carrier
		{lateAddr: true, maxLen: kit.Scale(5, 6)}, {lateAddr: true, timers: true, nbr: true, maxLen: kit.Scale(4, 5)},
	})
}

// TestVerifC33Started repeats the enumeration on shorter sequences (length
// 0..4, thorough 0..5) with the real Server.Start() goroutines: after every
// event the mock clock is advanced 11 s in 1 s steps, so the real PSNP/LSP
// (5 s) and CSNP (10 s) routines run against the interface in whatever state
// the events left it. A panic in one of those goroutines cannot be recovered:
// it ends the process and the journal names the case.
func TestVerifC33Started(t *testing.T) {
	c33Enumerate(t, kit.Scale(4, 5), []c33Mode{
		{passive: false, started: true}, {passive: false, started: true, nbr: true}, {passive: true, started: true},
	})
}

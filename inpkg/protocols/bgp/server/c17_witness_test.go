//go:build verif

package server

// Deterministic witnesses of the known findings of property C17. Each FAILS
// while the defect is present.

import (
	"strings"
	"testing"

	bnet "github.com/bio-routing/bio-rd/net"
	"github.com/bio-routing/bio-rd/protocols/bgp/packet"
	"github.com/bio-routing/bio-rd/protocols/bgp/types"
	"github.com/bio-routing/bio-rd/route"
	kit "verifkit"
)

func c17WitnessUpdate(t *testing.T, s c17Session, p *route.Path) (*kit.WUpdate, *kit.WErr, []byte) {
	u := s.sender()
	pa, err := packet.PathAttributes(p, u.iBGP, u.rrClient)
	if err != nil {
		t.Fatal(err)
	}
	upd := u.updateMessageForPrefixes([]*bnet.Prefix{bnet.NewPfx(bnet.IPv4FromOctets(192, 0, 2, 0), 24).Ptr()}, pa, 0)
	m, err := upd.SerializeUpdate(u.options)
	if err != nil {
		t.Fatal(err)
	}
	_, body, e := kit.ParseHeader(m)
	if e != nil {
		t.Fatal(e)
	}
	ku, e := kit.ParseUpdate(body, s.wopts())
	return ku, e, m
}

func c17WitnessPath(asns ...uint32) *route.Path {
	asp := types.ASPath{{Type: types.ASSequence, ASNs: asns}}
	return &route.Path{Type: route.BGPPathType, BGPPath: &route.BGPPath{
		ASPath:   &asp,
		BGPPathA: &route.BGPPathA{NextHop: bnet.IPv4FromOctets(10, 0, 0, 1).Ptr(), Source: bnet.IPv4FromOctets(10, 0, 0, 2).Ptr(), LocalPref: 100},
	}}
}

// RFC 6793 §4.1/§4.2.3: between two speakers that negotiated 4-octet AS
// numbers the AGGREGATOR attribute carries a 4-octet AS (8 bytes). bio-rd
// always writes the 6-byte form (types.Aggregator.ASN is uint16,
// serializeAggregator has no options), so every conforming peer sees an
// attribute length error on an ASN4 session.
func TestVerifC17WitnessAggregatorASN4(t *testing.T) {
	s := c17Session{afi: packet.AFIIPv4, ibgp: true, asn4: true, localASN: 65000, peerASN: 65000}
	p := c17WitnessPath(64512)
	p.BGPPath.BGPPathA.Aggregator = &types.Aggregator{ASN: 64512, Address: 0x0a000001}
	ku, e, m := c17WitnessUpdate(t, s, p)
	if e != nil {
		t.Fatalf("UPDATE with AGGREGATOR for a 4-octet-AS session is malformed: %v\nhex: %x", e, m)
	}
	if ku.AggrASN == nil || *ku.AggrASN != 64512 {
		t.Fatalf("aggregator AS %v", ku.AggrASN)
	}
}

// RFC 6793 §4.2.2: towards a peer that did not negotiate 4-octet AS numbers a
// non-mappable AS number is sent as AS_TRANS (23456) (and the real path in
// AS4_PATH). bio-rd truncates the AS number to its low 16 bits instead: AS
// 4200000000 appears as AS 10752 — a different, assignable AS.
func TestVerifC17WitnessASTrans(t *testing.T) {
	s := c17Session{afi: packet.AFIIPv4, ibgp: true, asn4: false, localASN: 65000, peerASN: 65000}
	ku, e, m := c17WitnessUpdate(t, s, c17WitnessPath(4200000000, 64512))
	if e != nil {
		t.Fatalf("%v\nhex: %x", e, m)
	}
	if len(ku.ASPath) != 1 || len(ku.ASPath[0].ASNs) != 2 {
		t.Fatalf("AS_PATH %+v", ku.ASPath)
	}
	if got := ku.ASPath[0].ASNs[0]; got != packet.ASTransASN {
		t.Fatalf("AS 4200000000 on a 2-octet-AS session is on the wire as AS %d, want AS_TRANS %d (%s)", got, packet.ASTransASN, strings.TrimSpace("RFC 6793 4.2.2"))
	}
}

//go:build verif

package server

// C26 — the session layer is free of data races (server level).
//
// The C25 live-server workload (c25_server_test.go: two sessions over the
// harness conn, route updates, policy replacement, DisposePeer/AddPeer, and
// the readers Metrics / GetRIBIn / GetRIBOut + Dump / GetPeers) runs in a
// child process of the race-instrumented binary; the parent parses the race
// detector log files (see c26_tables_test.go in routingtable/adjRIBOut).

import (
	"fmt"
	"os"
	"os/exec"
	"path/filepath"
	"sort"
	"strings"
	"testing"

	kit "verifkit"

	"pgregory.net/rapid"
)

const c26SrvRule = "the C25 live two-session server workload (remote scripts + API readers/writers in 3-8 goroutines) under the race detector; non-trivial = round in which an API operation overlapped a session event"

func c26SrvRounds() int {
	n := kit.Scale(1200, 2500)
	if v := os.Getenv("C26_SRV_ROUNDS"); v != "" {
		fmt.Sscanf(v, "%d", &n)
	}
	return n
}

func TestVerifC26ChildServer(t *testing.T) {
	if os.Getenv("VERIF_C26_CHILD") == "" {
		t.Skip("runs as child of TestVerifC26Server")
	}
	rec := kit.NewRecorder(t, "C26", c26SrvRule)
	gmp := os.Getenv("GOMAXPROCS")
	seed := kit.Seed()*1000213 + 9
	for _, ch := range gmp {
		seed = seed*131 + uint64(ch)
	}
	s := kit.NewSplitMix(seed)
	n := c26SrvRounds()
	for i := 0; i < n; i++ {
		if !c25SrvRound(t, rec, s, fmt.Sprintf("seed=%d gomaxprocs=%s round=%d", kit.Seed(), gmp, i)) {
			return
		}
	}
}

func c26SrvRunChild(t *testing.T, test, tag string, extra ...string) {
	rec := kit.NewRecorder(t, "C26", "")
	work := os.Getenv("VERIF_WORK")
	if work == "" {
		work = t.TempDir()
	}
	prefix := filepath.Join(work, "c26race-"+tag)
	cmd := exec.Command(os.Args[0], append([]string{"-test.run", "^" + test + "$", "-test.count", "1", "-test.timeout", "0"}, extra...)...)
	cmd.Env = append(os.Environ(), "VERIF_C26_CHILD=1", "GORACE=halt_on_error=0 history_size=5 log_path="+prefix)
	out, err := cmd.CombinedOutput()
	_ = os.WriteFile(filepath.Join(work, "c26child-"+tag+".txt"), out, 0o644)
	so := string(out)
	tail := so
	if len(tail) > 6000 {
		tail = tail[len(tail)-6000:]
	}
	switch {
	case strings.Contains(so, "fatal error: concurrent map"):
		t.Fatalf("C26 unsynchronised map access killed the workload process (sig=C26/fatal-concurrent-map)\n%s", tail)
	case strings.Contains(so, "VERIF-INCONCLUSIVE") || strings.Contains(so, "C25 DEADLOCK"):
		fmt.Printf("C26 workload child did not finish (deadlock/watchdog: judged by C25, not by C26)\n%s\n", tail)
		kit.ExitInconclusive("C26 %s workload did not finish", tag)
	case strings.Contains(so, "panic:") || strings.Contains(so, "fatal error:"):
		t.Fatalf("C26 workload process crashed (sig=C26/crash)\n%s", tail)
	case !strings.Contains(so, "PASS") && !strings.Contains(so, "FAIL"):
		fmt.Printf("C26 workload child gave no verdict (err=%v)\n%s\n", err, tail)
		kit.ExitInconclusive("C26 %s workload child gave no verdict", tag)
	}
	reps, perr := kit.ParseRaceLogs(prefix + ".*")
	if perr != nil {
		kit.ExitInconclusive("C26 cannot read race logs: %v", perr)
	}
	newSigs := map[string]string{}
	harness, unrest := 0, 0
	for _, r := range reps {
		switch {
		case r.HarnessOnly():
			harness++
			fmt.Printf("C26 HARNESS RACE (harness bug):\n%s\n", r.Text)
		case r.Unrestorable():
			unrest++
		default:
			sig := r.Sig("C26")
			if rec.Known(sig) {
				continue
			}
			if _, ok := newSigs[sig]; !ok {
				newSigs[sig] = r.Text
			}
		}
	}
	rec.Note("%s: %d race reports, %d with an unrestorable stack (not classifiable), %d new signatures", tag, len(reps), unrest, len(newSigs))
	if harness > 0 {
		kit.ExitInconclusive("C26 %d race reports with harness-only stacks", harness)
	}
	sigs := make([]string, 0, len(newSigs))
	for s := range newSigs {
		sigs = append(sigs, s)
	}
	sort.Strings(sigs)
	for _, s := range sigs {
		t.Errorf("C26 DATA RACE sig=%s\n%s\n", s, newSigs[s])
	}
	if len(sigs) > 0 {
		t.Logf("C26 new race signatures:\n%s", strings.Join(sigs, "\n"))
	}
}

func TestVerifC26Server(t *testing.T) {
	if os.Getenv("VERIF_C26_CHILD") != "" {
		t.Skip("parent only")
	}
	c26SrvRunChild(t, "TestVerifC26ChildServer", "server")
}

// Second workload: two consecutive sessions on one FSM address family (the C10 two-session machine: real init()
// / dispose(), the connection swapped in between as connectState does) under the race detector. What the
// teardown of the first session leaves running must not touch what the second session sets up.
func TestVerifC26ChildSessions(t *testing.T) {
	if os.Getenv("VERIF_C26_CHILD") == "" {
		t.Skip("runs as child of TestVerifC26Sessions")
	}
	c10InstallLogger()
	rec := kit.NewRecorder(t, "C26", "two consecutive sessions (init / dispose / new connection / init) of one FSM address family with Loc-RIB changes before, between and after, under the race detector; non-trivial = a route was added within the aggregation interval before the first session ended")
	n := 0
	rapid.Check(t, c10SecondSessionProp(rec, &n))
}

func TestVerifC26Sessions(t *testing.T) {
	if os.Getenv("VERIF_C26_CHILD") != "" {
		t.Skip("parent only")
	}
	c26SrvRunChild(t, "TestVerifC26ChildSessions", "sessions", fmt.Sprintf("-rapid.checks=%d", kit.Scale(500, 3000)), fmt.Sprintf("-rapid.seed=%d", kit.Seed()+1))
}

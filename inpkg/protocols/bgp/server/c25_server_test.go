//go:build verif

package server

// C25 — session control never deadlocks (server level, white box).
//
// Rig: a real bgpServer with a harness ListenerManagerI whose AcceptCh
// delivers harness in-memory conns (the path incomingConnectionWorker uses),
// two passive peers (generated: iBGP/eBGP, add-path send), real FSM
// goroutines, real Adj-RIBs / LocRIB / update senders. The remote ends are
// scripted by the harness (OPEN/KEEPALIVE handshake, UPDATEs, NOTIFICATION).
//
// Operations: remote announce / withdraw / keepalive / notification /
// second connection; API: Metrics, GetRIBIn/GetRIBOut + Dump (what the gRPC
// API does), GetPeers, GetPeerConfig, ReplaceImportFilterChain,
// ReplaceExportFilterChain, LocRIB.AddPath/RemovePath from another protocol,
// DisposePeer, AddPeer.
//
// Oracle: every operation completes (kit.WaitOps, see c25_tables_test.go).

import (
	"errors"
	"fmt"
	"io"
	"net"
	"os"
	"runtime"
	"strings"
	"sync"
	"sync/atomic"
	"testing"
	"time"

	kit "verifkit"

	bnet "github.com/bio-routing/bio-rd/net"
	"github.com/bio-routing/bio-rd/net/tcp"
	"github.com/bio-routing/bio-rd/protocols/bgp/packet"
	"github.com/bio-routing/bio-rd/protocols/bgp/types"
	"github.com/bio-routing/bio-rd/route"
	"github.com/bio-routing/bio-rd/routingtable"
	"github.com/bio-routing/bio-rd/routingtable/filter"
	"github.com/bio-routing/bio-rd/routingtable/filter/actions"
	"github.com/bio-routing/bio-rd/routingtable/vrf"
	"pgregory.net/rapid"
)

const c25SrvRule = "generated peer configurations (iBGP/eBGP, add-path) and histories/mixes of session events and server API calls on a live in-process server; non-trivial = (sequential) a stop/dispose/policy operation ran on an established session, (concurrent) an API operation overlapped a session event"

// Same signature as in the table-level harness: while listed, export policy
// replacement is serialised against route changes (excluded by construction).
const c25SrvInvSig = "C25/deadlock:routingtable/adjRIBOut.(*AdjRIBOut).AddPath|routingtable/locRIB.(*LocRIB).RefreshClient"

var (
	c25SrvWatchLimit = 10 * time.Second
	c25SrvWatchGap   = 2 * time.Second
)

type c25SrvSrc interface{ Intn(n int) int }

type c25SrvRapidSrc struct{ t *rapid.T }

func (s c25SrvRapidSrc) Intn(n int) int {
	if n <= 1 {
		return 0
	}
	return rapid.IntRange(0, n-1).Draw(s.t, "i")
}

// ---------------------------------------------------------------------------
// race-free in-memory conn

type c25Addr struct{ s string }

func (a c25Addr) Network() string { return "tcp" }
func (a c25Addr) String() string  { return a.s }

type c25Conn struct {
	mu            sync.Mutex
	cond          *sync.Cond
	buf           []byte
	closed        bool
	readerWaiting bool
	peer          *c25Conn
	local, remote c25Addr
	failWrites    atomic.Bool // injected fault: every Write on this end fails from now on (reads are unaffected)
}

func c25Pipe(srvAddr, remoteAddr string) (srvSide, remoteSide *c25Conn) {
	a := &c25Conn{local: c25Addr{srvAddr}, remote: c25Addr{remoteAddr}}
	b := &c25Conn{local: c25Addr{remoteAddr}, remote: c25Addr{srvAddr}}
	a.cond = sync.NewCond(&a.mu)
	b.cond = sync.NewCond(&b.mu)
	a.peer, b.peer = b, a
	return a, b
}

func (c *c25Conn) Read(p []byte) (int, error) {
	c.mu.Lock()
	defer c.mu.Unlock()
	for len(c.buf) == 0 && !c.closed {
		c.readerWaiting = true
		c.cond.Broadcast()
		c.cond.Wait()
	}
	c.readerWaiting = false
	if len(c.buf) == 0 {
		return 0, io.EOF
	}
	n := copy(p, c.buf)
	c.buf = c.buf[n:]
	return n, nil
}

func (c *c25Conn) Write(p []byte) (int, error) {
	if c.failWrites.Load() {
		return 0, errors.New("c25: write: broken pipe")
	}
	d := c.peer
	d.mu.Lock()
	defer d.mu.Unlock()
	if d.closed {
		return 0, io.ErrClosedPipe
	}
	d.buf = append(d.buf, p...)
	d.cond.Broadcast()
	return len(p), nil
}

func (c *c25Conn) Close() error {
	for _, x := range []*c25Conn{c, c.peer} {
		x.mu.Lock()
		x.closed = true
		x.cond.Broadcast()
		x.mu.Unlock()
	}
	return nil
}

// waitDrained blocks until the reader of this end is parked in Read on an
// empty buffer, or the conn is closed.
func (c *c25Conn) waitDrained() {
	c.mu.Lock()
	defer c.mu.Unlock()
	for !c.closed && !(c.readerWaiting && len(c.buf) == 0) {
		c.cond.Wait()
	}
}

func (c *c25Conn) isClosed() bool {
	c.mu.Lock()
	defer c.mu.Unlock()
	return c.closed
}

func (c *c25Conn) LocalAddr() net.Addr              { return c.local }
func (c *c25Conn) RemoteAddr() net.Addr             { return c.remote }
func (c *c25Conn) SetDeadline(time.Time) error      { return nil }
func (c *c25Conn) SetReadDeadline(time.Time) error  { return nil }
func (c *c25Conn) SetWriteDeadline(time.Time) error { return nil }

// ---------------------------------------------------------------------------
// listener manager

type c25LM struct{ ch chan tcp.ConnWithVRF }

func (l *c25LM) ListenAddrsPerVRF(*vrf.VRF) []string         { return nil }
func (l *c25LM) GetListeners(*vrf.VRF) []tcp.ListenerI       { return nil }
func (l *c25LM) CreateListenersIfNotExists(v *vrf.VRF) error { return nil }
func (l *c25LM) AcceptCh() chan tcp.ConnWithVRF              { return l.ch }

// ---------------------------------------------------------------------------
// rig

type c25PeerCfg struct {
	ibgp, addPath bool
	v6            bool // IPv6 unicast configured as well (multiprotocol UPDATEs)
}

type c25SrvCfg struct {
	peers [2]c25PeerCfg
}

func (c c25SrvCfg) String() string {
	return fmt.Sprintf("peer0{ibgp=%v ap=%v v6=%v} peer1{ibgp=%v ap=%v v6=%v}", c.peers[0].ibgp, c.peers[0].addPath, c.peers[0].v6, c.peers[1].ibgp, c.peers[1].addPath, c.peers[1].v6)
}

type c25Session struct {
	remote *c25Conn // harness end
	srv    *c25Conn // server end
	eof    chan struct{}
}

type c25Remote struct {
	idx   int
	addr  *bnet.IP
	asn   uint32
	cfg   c25PeerCfg
	mu    sync.Mutex // guards sessions (read by the dispose operation)
	sess  []*c25Session
	cur   *c25Session // owner worker only
	conMu sync.Mutex  // serialises connection setup against DisposePeer/AddPeer of this peer
}

type c25SrvRig struct {
	cfg      c25SrvCfg
	srv      *bgpServer
	lm       *c25LM
	v        *vrf.VRF
	remotes  [2]*c25Remote
	present  [2]atomic.Bool
	guardInv bool // serialise export policy replacement against route changes (listed finding c25SrvInvSig)
	h        sync.RWMutex
	directMu sync.Mutex
	direct   map[int]*route.Path
	inRemote atomic.Int32
	inAPI    atomic.Int32
	overlap  atomic.Bool
}

var c25SrvPfxs = func() []*bnet.Prefix {
	var out []*bnet.Prefix
	for _, s := range []string{"10.0.0.0/8", "10.1.0.0/16", "10.1.2.0/24", "192.0.2.0/24", "198.51.100.0/25"} {
		p, err := bnet.PrefixFromString(s)
		if err != nil {
			panic(err)
		}
		out = append(out, p.Dedup())
	}
	return out
}()

var c25SrvPfxs6 = func() []*bnet.Prefix {
	var out []*bnet.Prefix
	for _, s := range []string{"2001:db8::/32", "2001:db8:1::/48", "2001:db8:1:2::/64", "2001:db8:ffff::/48"} {
		p, err := bnet.PrefixFromString(s)
		if err != nil {
			panic(err)
		}
		out = append(out, p.Dedup())
	}
	return out
}()

func c25SrvChain(i int) filter.Chain {
	switch i % 4 {
	case 0:
		return filter.NewAcceptAllFilterChain()
	case 1:
		return filter.NewDrainFilterChain()
	case 2:
		return filter.Chain{
			filter.NewFilter("C25A", []*filter.Term{
				filter.NewTerm("ten", []*filter.TermCondition{
					filter.NewTermConditionWithRouteFilters(filter.NewRouteFilter(c25SrvPfxs[0], filter.NewOrLongerMatcher())),
				}, []actions.Action{actions.NewSetLocalPrefAction(300), actions.NewAcceptAction()}),
				filter.NewTerm("rest", nil, []actions.Action{actions.NewRejectAction()}),
			}),
		}
	default:
		return filter.Chain{
			filter.NewFilter("C25B", []*filter.Term{
				filter.NewTerm("all", nil, []actions.Action{actions.NewSetMEDAction(77), actions.NewAcceptAction()}),
			}),
		}
	}
}

func c25SrvGenCfg(s c25SrvSrc) c25SrvCfg {
	var c c25SrvCfg
	for i := range c.peers {
		c.peers[i] = c25PeerCfg{ibgp: s.Intn(2) == 0, addPath: s.Intn(2) == 0, v6: s.Intn(2) == 0}
	}
	return c
}

func (r *c25SrvRig) peerConfig(i int) PeerConfig {
	rm := r.remotes[i]
	af := &AddressFamilyConfig{
		ImportFilterChain: filter.NewAcceptAllFilterChain(),
		ExportFilterChain: filter.NewAcceptAllFilterChain(),
		AddPathSend:       routingtable.ClientOptions{BestOnly: true},
	}
	if rm.cfg.addPath {
		af.AddPathSend = routingtable.ClientOptions{MaxPaths: 4}
	}
	pc := PeerConfig{
		AdminEnabled: true,
		KeepAlive:    30 * time.Second,
		HoldTime:     90 * time.Second,
		LocalAddress: bnet.IPv4FromOctets(172, 16, 0, 1).Ptr(),
		PeerAddress:  rm.addr,
		LocalAS:      65000,
		PeerAS:       rm.asn,
		Passive:      true,
		RouterID:     0x0a000001,
		IPv4:         af,
		VRF:          r.v,
	}
	if rm.cfg.v6 {
		pc.IPv6 = &AddressFamilyConfig{
			ImportFilterChain: filter.NewAcceptAllFilterChain(),
			ExportFilterChain: filter.NewAcceptAllFilterChain(),
			AddPathSend:       routingtable.ClientOptions{BestOnly: true},
		}
	}
	return pc
}

// c25NewSrvRig builds the server. noExport: the history contains no ReplaceExportFilterChain, so the listed
// lock-order inversion cannot occur and no guard (harness serialisation) is needed: DisposePeer/AddPeer then race
// freely with incoming connections and session events.
func c25NewSrvRig(cfg c25SrvCfg, noExport bool) *c25SrvRig {
	r := &c25SrvRig{cfg: cfg, guardInv: kit.IsKnown(c25SrvInvSig) && !noExport, direct: map[int]*route.Path{}}
	r.v = vrf.NewUntrackedVRF("c25srv", 0)
	r.v.CreateIPv4UnicastLocRIB("inet.0")
	r.v.CreateIPv6UnicastLocRIB("inet6.0")
	lp := uint32(100)
	r.srv = newBGPServer(BGPServerConfig{RouterID: 0x0a000001, DefaultVRF: r.v, DefaultLocalPreference: &lp})
	r.lm = &c25LM{ch: make(chan tcp.ConnWithVRF)}
	r.srv.SetListenerManager(r.lm)
	r.srv.Start()
	for i := range r.remotes {
		rm := &c25Remote{idx: i, addr: bnet.IPv4FromOctets(172, 16, 0, uint8(10+i)).Dedup(), cfg: cfg.peers[i], asn: 65000}
		if !rm.cfg.ibgp {
			rm.asn = 65010 + uint32(i)
		}
		r.remotes[i] = rm
		if err := r.srv.AddPeer(r.peerConfig(i)); err != nil {
			panic(err)
		}
		r.present[i].Store(true)
	}
	return r
}

// ---------------------------------------------------------------------------
// remote side

func c25ReadMsg(c *c25Conn) (uint8, error) {
	hdr := make([]byte, 19)
	if _, err := io.ReadFull(c, hdr); err != nil {
		return 0, err
	}
	l := int(hdr[16])<<8 | int(hdr[17])
	if l < 19 || l > 4096 {
		return 0, errors.New("bad length")
	}
	if _, err := io.ReadFull(c, make([]byte, l-19)); err != nil {
		return 0, err
	}
	return hdr[18], nil
}

// connect opens a new connection to the server and runs the handshake.
func (r *c25SrvRig) connect(rm *c25Remote) bool {
	// conMu: DisposePeer/AddPeer of this peer are not issued between the accept of a connection and the moment
	// its FSM has taken the connection over (the server's OPEN arrives). In that window a ManualStop makes
	// activeState.manualStop() close a nil conn (daemon crash, outside C25's oracle; see notes/C25.md).
	rm.conMu.Lock()
	locked := true
	unlock := func() {
		if locked {
			locked = false
			rm.conMu.Unlock()
		}
	}
	defer unlock()
	srvSide, remSide := c25Pipe("172.16.0.1:179", fmt.Sprintf("%s:%d", rm.addr.String(), 40000+rm.idx))
	s := &c25Session{remote: remSide, srv: srvSide, eof: make(chan struct{})}
	rm.mu.Lock()
	rm.sess = append(rm.sess, s)
	rm.mu.Unlock()
	r.lm.ch <- tcp.ConnWithVRF{Conn: srvSide, VRF: r.v}
	fail := func() bool {
		remSide.Close()
		close(s.eof)
		return false
	}
	if t, err := c25ReadMsg(remSide); err != nil || t != packet.OpenMsg {
		return fail()
	}
	unlock()
	caps := packet.Capabilities{
		{Code: packet.ASN4CapabilityCode, Value: packet.ASN4Capability{ASN4: rm.asn}},
	}
	if rm.cfg.v6 {
		caps = append(caps,
			packet.Capability{Code: packet.MultiProtocolCapabilityCode, Value: packet.MultiProtocolCapability{AFI: packet.AFIIPv4, SAFI: packet.SAFIUnicast}},
			packet.Capability{Code: packet.MultiProtocolCapabilityCode, Value: packet.MultiProtocolCapability{AFI: packet.AFIIPv6, SAFI: packet.SAFIUnicast}})
	}
	if rm.cfg.addPath {
		caps = append(caps, packet.Capability{Code: packet.AddPathCapabilityCode, Value: packet.AddPathCapability{
			packet.AddPathCapabilityTuple{AFI: packet.AFIIPv4, SAFI: packet.SAFIUnicast, SendReceive: packet.AddPathReceive},
		}})
	}
	open := packet.SerializeOpenMsg(&packet.BGPOpen{
		Version: 4, ASN: uint16(rm.asn), HoldTime: 90, BGPIdentifier: 0x0a00000a + uint32(rm.idx),
		OptParams: []packet.OptParam{{Type: packet.CapabilitiesParamType, Value: caps}},
	})
	remSide.Write(open)
	remSide.Write(packet.SerializeKeepaliveMsg())
	if t, err := c25ReadMsg(remSide); err != nil || t != packet.KeepaliveMsg {
		return fail()
	}
	go func() {
		for {
			if _, err := c25ReadMsg(remSide); err != nil {
				close(s.eof)
				return
			}
		}
	}()
	rm.cur = s
	r.sync(s)
	return true
}

// sync: two trailing KEEPALIVEs, then wait until the server's receiver is
// parked on an empty buffer: msgRecvCh is unbuffered, so everything before
// the second KEEPALIVE has been processed completely by the FSM goroutine.
func (r *c25SrvRig) sync(s *c25Session) {
	s.remote.Write(packet.SerializeKeepaliveMsg())
	s.remote.Write(packet.SerializeKeepaliveMsg())
	s.srv.waitDrained()
}

func (r *c25SrvRig) update(rm *c25Remote, pi, v int, withdraw bool) []byte {
	pfx := c25SrvPfxs[pi%len(c25SrvPfxs)]
	u := &packet.BGPUpdate{}
	if rm.cfg.v6 && v%2 == 1 {
		// multiprotocol IPv6: MP_UNREACH_NLRI, MP_REACH_NLRI, or (v = 1, 5) both in one UPDATE
		p6 := c25SrvPfxs6[pi%len(c25SrvPfxs6)]
		other := c25SrvPfxs6[(pi+1)%len(c25SrvPfxs6)]
		var first, last *packet.PathAttribute
		add := func(pa *packet.PathAttribute) {
			if first == nil {
				first = pa
			} else {
				last.Next = pa
			}
			last = pa
		}
		if withdraw || v%4 == 1 {
			wp := p6
			if !withdraw {
				wp = other
			}
			add(&packet.PathAttribute{TypeCode: packet.MultiProtocolUnreachNLRIAttr, Value: packet.MultiProtocolUnreachNLRI{AFI: packet.AFIIPv6, SAFI: packet.SAFIUnicast, NLRI: &packet.NLRI{Prefix: wp}}})
		}
		if !withdraw {
			asns := []uint32{65300 + uint32(v)}
			if !rm.cfg.ibgp {
				asns = append([]uint32{rm.asn}, asns...)
			}
			add(&packet.PathAttribute{TypeCode: packet.OriginAttr, Value: uint8(0)})
			add(&packet.PathAttribute{TypeCode: packet.ASPathAttr, Value: types.NewASPath(asns)})
			if rm.cfg.ibgp {
				add(&packet.PathAttribute{TypeCode: packet.LocalPrefAttr, Value: uint32(100 + 10*v)})
			}
			nh6 := bnet.IPv6FromBlocks(0x2001, 0xdb8, 0, 0, 0, 0, 0, uint16(0x100+rm.idx)).Dedup()
			add(&packet.PathAttribute{TypeCode: packet.MultiProtocolReachNLRIAttr, Value: packet.MultiProtocolReachNLRI{AFI: packet.AFIIPv6, SAFI: packet.SAFIUnicast, NextHop: nh6, NLRI: &packet.NLRI{Prefix: p6}}})
		}
		u.PathAttributes = first
		b, err := u.SerializeUpdate(&packet.EncodeOptions{Use32BitASN: true})
		if err != nil {
			panic(err)
		}
		return b
	}
	if withdraw {
		u.WithdrawnRoutes = &packet.NLRI{Prefix: pfx}
	} else {
		asns := []uint32{65300 + uint32(v)}
		if !rm.cfg.ibgp {
			asns = append([]uint32{rm.asn}, asns...)
		}
		attrs := &packet.PathAttribute{TypeCode: packet.OriginAttr, Value: uint8(0)}
		asp := &packet.PathAttribute{TypeCode: packet.ASPathAttr, Value: types.NewASPath(asns)}
		nh := &packet.PathAttribute{TypeCode: packet.NextHopAttr, Value: rm.addr}
		attrs.Next = asp
		asp.Next = nh
		last := nh
		if rm.cfg.ibgp {
			lp := &packet.PathAttribute{TypeCode: packet.LocalPrefAttr, Value: uint32(100 + 10*v)}
			last.Next = lp
			last = lp
		}
		if v%4 == 3 {
			com := &packet.PathAttribute{TypeCode: packet.CommunitiesAttr, Value: &types.Communities{types.WellKnownCommunityNoAdvertise}}
			last.Next = com
		}
		u.PathAttributes = attrs
		u.NLRI = &packet.NLRI{Prefix: pfx}
	}
	b, err := u.SerializeUpdate(&packet.EncodeOptions{Use32BitASN: true})
	if err != nil {
		panic(err)
	}
	return b
}

// ---------------------------------------------------------------------------
// operations

const (
	c25RAnnounce = iota
	c25RWithdraw
	c25RKeepalive
	c25RNotify
	c25RSecondConn
	c25RWriteFault
	c25AMetrics
	c25ADumpIn
	c25ADumpOut
	c25AGetPeers
	c25ARFCImport
	c25ARFCExport
	c25ADirectFeed
	c25ADirectWithdraw
	c25ADispose
	c25AAddPeer
	c25SrvNKinds
)

var c25SrvKindName = [...]string{"RAnnounce", "RWithdraw", "RKeepalive", "RNotify", "RSecondConn", "RWriteFault",
	"AMetrics", "ADumpIn", "ADumpOut", "AGetPeers", "ARFCImport", "ARFCExport", "ADirectFeed", "ADirectWithdraw", "ADispose", "AAddPeer"}

var c25SrvWeights = [...]int{12, 5, 2, 2, 1, 2,
	6, 4, 4, 2, 4, 6, 5, 2, 2, 2}

const c25SrvFirstAPI = c25AMetrics

type c25SrvOp struct{ kind, peer, pfx, v int }

func (o c25SrvOp) String() string {
	return fmt.Sprintf("%s(peer%d,p%d,v%d)", c25SrvKindName[o.kind], o.peer, o.pfx, o.v)
}

// c25SrvGenOp draws an operation; which: 0 any, 1 remote kinds only, 2 API kinds only.
func c25SrvGenOp(s c25SrvSrc, which int) c25SrvOp {
	lo, hi := 0, c25SrvNKinds
	if which == 1 {
		hi = c25SrvFirstAPI
	} else if which == 2 {
		lo = c25SrvFirstAPI
	}
	total := 0
	for k := lo; k < hi; k++ {
		total += c25SrvWeights[k]
	}
	x := s.Intn(total)
	k := lo
	for ; k < hi; k++ {
		if x < c25SrvWeights[k] {
			break
		}
		x -= c25SrvWeights[k]
	}
	return c25SrvOp{kind: k, peer: s.Intn(2), pfx: s.Intn(len(c25SrvPfxs)), v: s.Intn(8)}
}

func c25SrvOpsString(ops []c25SrvOp) string {
	var sb strings.Builder
	for i, o := range ops {
		if i > 0 {
			sb.WriteByte(' ')
		}
		sb.WriteString(o.String())
	}
	return sb.String()
}

func (r *c25SrvRig) routeChange(f func()) {
	if r.guardInv {
		r.h.RLock()
		defer r.h.RUnlock()
	}
	f()
}

func (r *c25SrvRig) markRemote() func() {
	r.inRemote.Add(1)
	if r.inAPI.Load() > 0 {
		r.overlap.Store(true)
	}
	return func() { r.inRemote.Add(-1) }
}

func (r *c25SrvRig) markAPI() func() {
	r.inAPI.Add(1)
	if r.inRemote.Load() > 0 {
		r.overlap.Store(true)
	}
	return func() { r.inAPI.Add(-1) }
}

// live returns the remote's current session if it is still open, connecting
// first when there is none (and the peer is configured).
func (r *c25SrvRig) live(rm *c25Remote) *c25Session {
	if rm.cur != nil && !rm.cur.remote.isClosed() {
		return rm.cur
	}
	rm.cur = nil
	if !r.present[rm.idx].Load() {
		return nil
	}
	ok := false
	r.routeChange(func() { ok = r.connect(rm) })
	if !ok {
		return nil
	}
	return rm.cur
}

// exec runs one operation. Remote kinds must be executed by the goroutine that
// owns remote op.peer.
func (r *c25SrvRig) exec(op c25SrvOp) string {
	rm := r.remotes[op.peer]
	pip := rm.addr
	switch op.kind {
	case c25RAnnounce, c25RWithdraw:
		defer r.markRemote()()
		s := r.live(rm)
		if s == nil {
			return ""
		}
		msg := r.update(rm, op.pfx, op.v, op.kind == c25RWithdraw)
		r.routeChange(func() {
			s.remote.Write(msg)
			r.sync(s)
		})
		if op.kind == c25RWithdraw {
			return "remote_withdraw"
		}
		return "remote_announce"
	case c25RKeepalive:
		defer r.markRemote()()
		s := r.live(rm)
		if s == nil {
			return ""
		}
		s.remote.Write(packet.SerializeKeepaliveMsg())
		return "remote_keepalive"
	case c25RNotify:
		defer r.markRemote()()
		if rm.cur == nil || rm.cur.remote.isClosed() {
			return ""
		}
		s := rm.cur
		r.routeChange(func() {
			s.remote.Write(packet.SerializeNotificationMsg(&packet.BGPNotification{ErrorCode: packet.Cease, ErrorSubcode: 0}))
			<-s.eof // the server tears the session down (withdraws its routes) and closes the conn
		})
		rm.cur = nil
		return "remote_notification"
	case c25RWriteFault:
		defer r.markRemote()()
		s := r.live(rm)
		if s == nil {
			return ""
		}
		// the path to the neighbour breaks in the outbound direction: whatever the server writes from now on
		// (UPDATEs of the sender goroutine, KEEPALIVEs, the final NOTIFICATION) fails; the session stays up
		// until a later event ends it
		s.srv.failWrites.Store(true)
		return "remote_write_fault"
	case c25RSecondConn:
		defer r.markRemote()()
		if rm.cur == nil || rm.cur.remote.isClosed() || !r.present[rm.idx].Load() {
			return ""
		}
		// a second connection while the first is up (connection collision path)
		old := rm.cur
		ok := false
		r.routeChange(func() { ok = r.connect(rm) })
		if !ok {
			rm.cur = old
		}
		return "remote_second_connection"
	case c25AMetrics:
		defer r.markAPI()()
		m, err := r.srv.Metrics()
		if err == nil {
			for _, p := range m.Peers {
				_ = p.State
			}
		}
		return "api_metrics"
	case c25ADumpIn:
		defer r.markAPI()()
		afis := []uint16{packet.AFIIPv4}
		nonEmpty6 := false
		if rm.cfg.v6 {
			afis = []uint16{packet.AFIIPv6, packet.AFIIPv4}
		}
		for _, afi := range afis {
			rib := r.srv.GetRIBIn(r.v, pip, afi, packet.SAFIUnicast)
			if rib == nil {
				continue
			}
			// what the RIS / gRPC API readers do; repeated so that a reader is likely to be active while the
			// session stores a new path
			for k := 0; k < 4; k++ {
				for _, rt := range rib.Dump() {
					nonEmpty6 = nonEmpty6 || afi == packet.AFIIPv6
					_ = rt.ToProto()
					if got := rib.Get(rt.Prefix()); got != nil {
						_ = got.ToProto()
					}
				}
				runtime.Gosched()
			}
		}
		if nonEmpty6 {
			return "api_dump_rib_in_v6_routes"
		}
		return "api_dump_rib_in"
	case c25ADumpOut:
		defer r.markAPI()()
		afi := uint16(packet.AFIIPv4)
		if rm.cfg.v6 && op.v%2 == 1 {
			afi = packet.AFIIPv6
		}
		if rib := r.srv.GetRIBOut(r.v, pip, afi, packet.SAFIUnicast); rib != nil {
			for _, rt := range rib.Dump() {
				_ = rt.ToProto()
			}
		}
		return "api_dump_rib_out"
	case c25AGetPeers:
		defer r.markAPI()()
		_ = r.srv.GetPeers()
		_ = r.srv.GetPeerConfig(r.v, pip)
		return "api_get_peers"
	case c25ARFCImport:
		defer r.markAPI()()
		r.routeChange(func() { r.srv.ReplaceImportFilterChain(r.v, pip, c25SrvChain(op.v)) })
		return "api_replace_import"
	case c25ARFCExport:
		defer r.markAPI()()
		if r.guardInv {
			r.h.Lock()
			defer r.h.Unlock()
		}
		r.srv.ReplaceExportFilterChain(r.v, pip, c25SrvChain(op.v))
		return "api_replace_export"
	case c25ADirectFeed, c25ADirectWithdraw:
		defer r.markAPI()()
		// another protocol (static/IS-IS) feeding the VRF's LocRIB; serialised like one protocol instance
		r.directMu.Lock()
		defer r.directMu.Unlock()
		pi := op.pfx % len(c25SrvPfxs)
		old := r.direct[pi]
		rib := r.v.IPv4UnicastRIB()
		if op.kind == c25ADirectWithdraw {
			if old == nil {
				return ""
			}
			r.routeChange(func() { rib.RemovePath(c25SrvPfxs[pi], old) })
			delete(r.direct, pi)
			return "api_direct_withdraw"
		}
		asp := types.NewASPath([]uint32{65400 + uint32(op.v)})
		np := &route.Path{Type: route.BGPPathType, BGPPath: &route.BGPPath{
			BGPPathA: &route.BGPPathA{NextHop: bnet.IPv4FromOctets(172, 18, 0, uint8(1+op.v)).Dedup(), Source: bnet.IPv4FromOctets(172, 16, 1, 1).Dedup(), LocalPref: 100, EBGP: true},
			ASPath:   asp, ASPathLen: asp.Length()}}
		r.routeChange(func() {
			if old != nil {
				rib.RemovePath(c25SrvPfxs[pi], old)
			}
			rib.AddPath(c25SrvPfxs[pi], np)
		})
		r.direct[pi] = np
		return "api_direct_feed"
	case c25ADispose:
		defer r.markAPI()()
		did := false
		// harness lock order: h before conMu (as in connect)
		r.routeChange(func() {
			rm.conMu.Lock()
			defer rm.conMu.Unlock()
			if !r.present[op.peer].Swap(false) {
				return
			}
			did = true
			r.srv.DisposePeer(r.v, pip)
			if r.guardInv {
				// the FSMs tear their sessions down asynchronously (route withdrawals): wait for it while
				// export policy changes are still excluded
				rm.mu.Lock()
				ss := append([]*c25Session(nil), rm.sess...)
				rm.mu.Unlock()
				for _, s := range ss {
					<-s.eof
				}
			}
		})
		if !did {
			return ""
		}
		return "api_dispose_peer"
	case c25AAddPeer:
		defer r.markAPI()()
		rm.conMu.Lock()
		defer rm.conMu.Unlock()
		if r.present[op.peer].Load() {
			return ""
		}
		if err := r.srv.AddPeer(r.peerConfig(op.peer)); err != nil {
			panic(err)
		}
		r.present[op.peer].Store(true)
		return "api_add_peer"
	}
	return ""
}

// shutdown disposes both peers (an operation as well).
func (r *c25SrvRig) shutdown() {
	for i := range r.remotes {
		r.remotes[i].conMu.Lock()
		if r.present[i].Swap(false) {
			r.srv.DisposePeer(r.v, r.remotes[i].addr)
		}
		r.remotes[i].conMu.Unlock()
		r.remotes[i].mu.Lock()
		for _, s := range r.remotes[i].sess {
			s.remote.Close()
		}
		r.remotes[i].mu.Unlock()
	}
	_, _ = r.srv.Metrics()
	_ = r.v.IPv4UnicastRIB().Dump()
}

// ---------------------------------------------------------------------------
// verdict

func c25SrvJudge(t interface {
	Fatalf(string, ...interface{})
}, rec *kit.Recorder, rep *kit.StuckReport, what string) bool {
	if rep == nil {
		return true
	}
	if !rep.Confirmed {
		fmt.Printf("C25 watchdog expired but no deadlock confirmed (%s)\ncase: %s\n%s\n", rep.Reason, what, c25SrvTrim(rep.Relevant))
		kit.ExitInconclusive("C25 server watchdog: %s", rep.Reason)
	}
	for _, s := range rep.CandidateSigs("C25") {
		if rec.Known(s) {
			return false
		}
	}
	t.Fatalf("C25 DEADLOCK sig=%s\ncase: %s\nblocked in: %v\n--- stacks of the stuck operations and of busy bio-rd goroutines (second of two identical dumps) ---\n%s", rep.Sig("C25"), what, rep.Frames, c25SrvTrim(rep.Relevant))
	return false
}

func c25SrvTrim(d string) string {
	if len(d) > 80000 {
		return d[:80000] + "\n…(truncated)"
	}
	return d
}

// ---------------------------------------------------------------------------
// (a) sequential histories

func TestVerifC25ServerSequential(t *testing.T) {
	rec := kit.NewRecorder(t, "C25", c25SrvRule)
	rapid.Check(t, func(t *rapid.T) {
		c := rec.Case()
		defer c.Done()
		s := c25SrvRapidSrc{t}
		cfg := c25SrvGenCfg(s)
		n := rapid.IntRange(3, 25).Draw(t, "n")
		ops := make([]c25SrvOp, n)
		for i := range ops {
			ops[i] = c25SrvGenOp(s, 0)
		}
		c.Logf("cfg %s", cfg)
		c.Logf("ops %s", c25SrvOpsString(ops))
		rig := c25NewSrvRig(cfg, false)
		established, interesting := false, false
		for i, op := range ops {
			var class string
			done := kit.GoOp(func() { class = rig.exec(op) })
			rep := kit.WaitOps([]<-chan struct{}{done}, c25SrvWatchLimit, c25SrvWatchGap)
			if !c25SrvJudge(t, rec, rep, fmt.Sprintf("cfg %s; sequential history, stuck at op #%d %s of: %s", cfg, i, op, c25SrvOpsString(ops))) {
				c.Class("known_deadlock")
				return
			}
			if class != "" {
				c.Class(class)
			}
			switch class {
			case "remote_announce":
				established = true
			case "api_dispose_peer", "api_replace_export", "api_replace_import", "remote_notification", "remote_second_connection":
				if established {
					interesting = true
				}
			}
		}
		done := kit.GoOp(rig.shutdown)
		rep := kit.WaitOps([]<-chan struct{}{done}, c25SrvWatchLimit, c25SrvWatchGap)
		if !c25SrvJudge(t, rec, rep, fmt.Sprintf("cfg %s; shutdown (DisposePeer of every peer) after: %s", cfg, c25SrvOpsString(ops))) {
			c.Class("known_deadlock")
			return
		}
		c.NonTrivialIf(interesting)
	})
}

// ---------------------------------------------------------------------------
// (b) concurrent mixes: worker 0/1 script the two remote peers, workers >=2
// issue API calls.

func c25SrvRound(t *testing.T, rec *kit.Recorder, s c25SrvSrc, label string) bool {
	c := rec.Case()
	defer c.Done()
	cfg := c25SrvGenCfg(s)
	noExport := kit.IsKnown(c25SrvInvSig) && s.Intn(2) == 0
	workers := 2 + s.Intn(7)
	if workers < 3 {
		workers = 3
	}
	per := 6 + s.Intn(20)
	lists := make([][]c25SrvOp, workers)
	for g := range lists {
		lists[g] = make([]c25SrvOp, per)
		for i := range lists[g] {
			if g < 2 {
				op := c25SrvGenOp(s, 1)
				op.peer = g
				lists[g][i] = op
			} else {
				op := c25SrvGenOp(s, 2)
				if noExport && op.kind == c25ARFCExport {
					op.kind = c25ARFCImport
				}
				lists[g][i] = op
			}
		}
	}
	c.Logf("%s cfg %s noExport=%v", label, cfg, noExport)
	for g := range lists {
		c.Logf("w%d %s", g, c25SrvOpsString(lists[g]))
	}
	rig := c25NewSrvRig(cfg, noExport)
	if rig.guardInv || noExport {
		rec.Excluded(c25SrvInvSig)
	}
	c.ClassIf(noExport, "unguarded_no_export_policy")
	c.ClassIf(!noExport, "with_export_policy")
	classes := make([]map[string]struct{}, workers)
	start := make(chan struct{})
	dones := make([]<-chan struct{}, workers)
	for g := 0; g < workers; g++ {
		g := g
		classes[g] = map[string]struct{}{}
		dones[g] = kit.GoOp(func() {
			<-start
			for _, op := range lists[g] {
				if cl := rig.exec(op); cl != "" {
					classes[g][cl] = struct{}{}
				}
			}
		})
	}
	close(start)
	what := func() string {
		var sb strings.Builder
		fmt.Fprintf(&sb, "%s cfg %s noExport=%v\n", label, cfg, noExport)
		for g := range lists {
			fmt.Fprintf(&sb, "  w%d: %s\n", g, c25SrvOpsString(lists[g]))
		}
		return sb.String()
	}
	rep := kit.WaitOps(dones, c25SrvWatchLimit, c25SrvWatchGap)
	if !c25SrvJudge(t, rec, rep, what()) {
		c.Class("known_deadlock")
		return false
	}
	done := kit.GoOp(rig.shutdown)
	rep = kit.WaitOps([]<-chan struct{}{done}, c25SrvWatchLimit, c25SrvWatchGap)
	if !c25SrvJudge(t, rec, rep, "shutdown after "+what()) {
		c.Class("known_deadlock")
		return false
	}
	for g := range classes {
		for cl := range classes[g] {
			c.Class(cl)
		}
	}
	c.NonTrivialIf(rig.overlap.Load())
	return true
}

func c25SrvRounds() int {
	n := kit.Scale(400, 3000)
	if v := os.Getenv("C25_SRV_ROUNDS"); v != "" {
		fmt.Sscanf(v, "%d", &n)
	}
	return n
}

func TestVerifC25ServerConcurrent(t *testing.T) {
	rec := kit.NewRecorder(t, "C25", c25SrvRule)
	gmp := os.Getenv("GOMAXPROCS")
	seed := kit.Seed()*1000033 + 17
	for _, ch := range gmp {
		seed = seed*131 + uint64(ch)
	}
	s := kit.NewSplitMix(seed)
	n := c25SrvRounds()
	known := 0
	for i := 0; i < n; i++ {
		if !c25SrvRound(t, rec, s, fmt.Sprintf("seed=%d gomaxprocs=%s round=%d", kit.Seed(), gmp, i)) {
			known++
			if known >= 3 {
				break
			}
		}
		if t.Failed() {
			return
		}
	}
}

//go:build verif

package server

// Shared rig of the C10 (peer view == Adj-RIB-Out under any timing) and C18
// (UPDATE packing) checks: a hand-built Established-like FSM address family
// with a REAL adjRIBOut.AdjRIBOut and the REAL UpdateSender registered as its
// client exactly as fsmAddressFamily.init() does, bound to a capture
// connection. The sender's ticker is only started by the "ticker" mode; the
// controlled mode executes the sender goroutine's loop body itself, one queue
// entry at a time, in an order chosen by the generator.
//
// Both C10.json and C18.json list "files_for": ["C10","C18"], so this file is
// compiled for both properties. Identifiers are prefixed c10 / c18.

import (
	"encoding/binary"
	"fmt"
	"sort"
	"strings"
	"sync"

	bnet "github.com/bio-routing/bio-rd/net"
	"github.com/bio-routing/bio-rd/protocols/bgp/packet"
	"github.com/bio-routing/bio-rd/protocols/bgp/types"
	"github.com/bio-routing/bio-rd/route"
	"github.com/bio-routing/bio-rd/routingtable"
	"github.com/bio-routing/bio-rd/routingtable/adjRIBOut"
	"github.com/bio-routing/bio-rd/routingtable/filter"
	"github.com/bio-routing/bio-rd/routingtable/locRIB"
	"github.com/bio-routing/bio-rd/routingtable/vrf"
	biolog "github.com/bio-routing/bio-rd/util/log"
	kit "verifkit"
)

// ---------------------------------------------------------------------------
// session description

const (
	c10FamV4   = 0 // IPv4 unicast, classic NLRI / withdrawn routes fields
	c10FamV6   = 1 // IPv6 unicast, MP_REACH / MP_UNREACH
	c10FamV4MP = 2 // IPv4 unicast with the IPv4 multiprotocol capability advertised by both sides
)

const (
	c10KindIBGP     = 0 // iBGP, peer is not a route reflector client
	c10KindRRClient = 1 // iBGP, peer is a route reflector client
	c10KindEBGP     = 2 // eBGP (prepend + next hop self)
	c10KindRSClient = 3 // eBGP route server client (no rewrite)
)

const (
	c10LocalASN  = 64900
	c10PeerASN   = 64901
	c10ClusterID = 0x0a0000fe
	c10RouterID  = 0x0a000001
)

type c10Sess struct {
	fam     int
	kind    int
	addPath bool
	asn4    bool
}

func (s c10Sess) String() string {
	return fmt.Sprintf("fam=%s kind=%s addpath=%v asn4=%v",
		[]string{"v4", "v6mp", "v4mp"}[s.fam], []string{"ibgp", "rrclient", "ebgp", "rsclient"}[s.kind], s.addPath, s.asn4)
}

func (s c10Sess) iBGP() bool     { return s.kind == c10KindIBGP || s.kind == c10KindRRClient }
func (s c10Sess) rrClient() bool { return s.kind == c10KindRRClient }
func (s c10Sess) v6() bool       { return s.fam == c10FamV6 }
func (s c10Sess) mp() bool       { return s.fam != c10FamV4 }
func (s c10Sess) width() int {
	if s.v6() {
		return 128
	}
	return 32
}

// wopts are the options the PEER negotiated for decoding what we send.
func (s c10Sess) wopts() kit.WOpts {
	return kit.WOpts{AddPath4: s.addPath && !s.v6(), AddPath6: s.addPath && s.v6(), ASN4: s.asn4}
}

func c10IP(s c10Sess, host uint32) *bnet.IP {
	if s.v6() {
		return bnet.IPv6(0x20010db800000000, uint64(host)).Ptr()
	}
	return bnet.IPv4(0xc6336400 | host&0xff).Ptr() // 198.51.100.x
}

func c10Pfx(b kit.Bits) *bnet.Prefix {
	if b.W == 32 {
		return bnet.NewPfx(bnet.IPv4(b.U32()), uint8(b.L)).Ptr()
	}
	hi, lo := b.HiLo()
	return bnet.NewPfx(bnet.IPv6(hi, lo), uint8(b.L)).Ptr()
}

func c10Bits(p *bnet.Prefix) kit.Bits {
	var b kit.Bits
	a := p.Addr()
	by := a.Bytes()
	if a.IsIPv4() {
		b.W = 32
	} else {
		b.W = 128
	}
	copy(b.A[:], by)
	b.L = int(p.Len())
	return b
}

// ---------------------------------------------------------------------------
// rig

type c10Rig struct {
	sess c10Sess
	conn *kit.Conn
	fsm  *FSM
	fam  *fsmAddressFamily
	rib  *adjRIBOut.AdjRIBOut
	us   *UpdateSender
}

// c10NewRig builds the session objects the way newPeer/newFSM/openSentState and
// fsmAddressFamily.init() do for an Established session, except that the
// Adj-RIB-In is not needed and the update sender's ticker is not started.
func c10NewRig(s c10Sess) *c10Rig {
	peerASN := uint32(c10PeerASN)
	if s.iBGP() {
		peerASN = c10LocalASN
	}
	p := &peer{
		addr:                 c10IP(s, 2),
		localAddr:            c10IP(s, 1),
		localASN:             c10LocalASN,
		peerASN:              peerASN,
		routerID:             c10RouterID,
		routeReflectorClient: s.kind == c10KindRRClient,
		routeServerClient:    s.kind == c10KindRSClient,
		clusterID:            c10ClusterID,
		vrf:                  vrf.NewUntrackedVRF("c10", 0),
		adjRIBInFactory:      adjRIBInFactory{},
	}
	send := routingtable.ClientOptions{BestOnly: true}
	if s.addPath {
		send = routingtable.ClientOptions{MaxPaths: 3}
	}
	paf := &peerAddressFamily{
		rib:               locRIB.New("c10"),
		importFilterChain: filter.NewAcceptAllFilterChain(),
		exportFilterChain: filter.NewAcceptAllFilterChain(),
		addPathSend:       send,
	}
	afi := uint16(packet.AFIIPv4)
	if s.v6() {
		p.ipv6 = paf
		afi = packet.AFIIPv6
	} else {
		p.ipv4 = paf
		p.ipv4MultiProtocolAdvertised = s.fam == c10FamV4MP
	}
	fsm := newFSM(p)
	f := fsm.addressFamily(afi, packet.SAFIUnicast)
	// what openSentState.processCapability leaves behind
	f.multiProtocol = s.mp()
	if s.addPath {
		f.addPathTX = paf.addPathSend
	}
	fsm.supports4OctetASN = s.asn4
	conn := kit.NewConn(nil, nil)
	fsm.con = conn

	// fsmAddressFamily.init(), minus Adj-RIB-In and minus updateSender.Start()
	out := adjRIBOut.New(f.rib, f.getSessionAttrs(), f.exportFilterChain)
	f.adjRIBOut = out
	f.updateSender = newUpdateSender(f)
	f.adjRIBOut.Register(f.updateSender)

	return &c10Rig{sess: s, conn: conn, fsm: fsm, fam: f, rib: out, us: f.updateSender}
}

// queueKeys returns the sorted keys of the update sender's queue.
func (r *c10Rig) queueKeys() []string {
	r.us.toSendMu.Lock()
	defer r.us.toSendMu.Unlock()
	ks := make([]string, 0, len(r.us.toSend))
	for k := range r.us.toSend {
		ks = append(ks, k)
	}
	sort.Strings(ks)
	return ks
}

// queued reports whether an announcement of pfx is waiting in the queue.
func (r *c10Rig) queued(pfx *bnet.Prefix) bool {
	r.us.toSendMu.Lock()
	defer r.us.toSendMu.Unlock()
	for _, e := range r.us.toSend {
		for _, q := range e.pfxs {
			if q.Equal(pfx) {
				return true
			}
		}
	}
	return false
}

func (r *c10Rig) queueLen() int {
	r.us.toSendMu.Lock()
	defer r.us.toSendMu.Unlock()
	return len(r.us.toSend)
}

// flushKey performs the body of the sender goroutine's loop
// (UpdateSender.sender: `for key, pathNLRIs := range u.toSend { ... }`) for
// exactly the queue entry `key`. The calls and their order are those of the
// loop body; the only difference is that the entry is picked by the caller
// instead of by Go's map iteration order. The harness is single threaded in
// this mode, so whether toSendMu is released before or after sendUpdates
// makes no difference here.
func (r *c10Rig) flushKey(key string) {
	u := r.us
	u.toSendMu.Lock()
	pathNLRIs, ok := u.toSend[key]
	if !ok {
		u.toSendMu.Unlock()
		return
	}
	pathAttrs, updatesPrefixes, pathID := u._getUpdateInformation(pathNLRIs)
	delete(u.toSend, key)
	u.toSendMu.Unlock()

	u.sendUpdates(pathAttrs, updatesPrefixes, pathID)
}

// flushAll runs one complete aggregation round; reverse chooses the order.
func (r *c10Rig) flushAll(reverse bool) {
	for {
		ks := r.queueKeys()
		if len(ks) == 0 {
			return
		}
		if reverse {
			for i := len(ks) - 1; i >= 0; i-- {
				r.flushKey(ks[i])
			}
		} else {
			for _, k := range ks {
				r.flushKey(k)
			}
		}
	}
}

// ---------------------------------------------------------------------------
// attribute sets and paths as the Loc-RIB holds them (built like
// fsmAddressFamily.newRoutePath + processAttributes build received paths)

type c10Attrs struct {
	src        uint32 // host part of Source / BGPIdentifier of the peer the path was learned from
	nh         uint32 // host part of the next hop
	ebgp       bool
	localPref  uint32
	med        uint32
	origin     uint8
	segs       []types.ASPathSegment
	comms      []uint32
	lcomms     [][3]uint32
	cluster    []uint32 // nil = attribute absent
	originator uint32
	atomic     bool
	aggr       *types.Aggregator
	unknown    []types.UnknownPathAttribute
}

func (a c10Attrs) String() string {
	var sb strings.Builder
	fmt.Fprintf(&sb, "src=%d nh=%d ebgp=%v lp=%d med=%d origin=%d aspath=", a.src, a.nh, a.ebgp, a.localPref, a.med, a.origin)
	for _, s := range a.segs {
		if len(s.ASNs) > 6 {
			fmt.Fprintf(&sb, "{t%d n=%d first=%d}", s.Type, len(s.ASNs), s.ASNs[0])
		} else {
			fmt.Fprintf(&sb, "{t%d %v}", s.Type, s.ASNs)
		}
	}
	fmt.Fprintf(&sb, " comms=%d lcomms=%d", len(a.comms), len(a.lcomms))
	if len(a.comms) > 0 && len(a.comms) <= 4 {
		fmt.Fprintf(&sb, "%v", a.comms)
	}
	if a.cluster != nil {
		fmt.Fprintf(&sb, " cluster=%d", len(a.cluster))
	}
	if a.originator != 0 {
		fmt.Fprintf(&sb, " originator=%d", a.originator)
	}
	if a.atomic {
		sb.WriteString(" atomic")
	}
	if a.aggr != nil {
		fmt.Fprintf(&sb, " aggr=%d/%#x", a.aggr.ASN, a.aggr.Address)
	}
	for _, u := range a.unknown {
		if len(u.Value) > 8 {
			fmt.Fprintf(&sb, " unk(t%d opt=%v len=%d)", u.TypeCode, u.Optional, len(u.Value))
		} else {
			fmt.Fprintf(&sb, " unk(t%d opt=%v %x)", u.TypeCode, u.Optional, u.Value)
		}
	}
	return sb.String()
}

// path builds a fresh Loc-RIB path object with these attributes.
func (a c10Attrs) path(s c10Sess) *route.Path {
	asp := make(types.ASPath, len(a.segs))
	for i, sg := range a.segs {
		asp[i] = types.ASPathSegment{Type: sg.Type, ASNs: append([]uint32{}, sg.ASNs...)}
	}
	bp := &route.BGPPath{
		BGPPathA: &route.BGPPathA{
			Source:          c10IP(s, a.src),
			NextHop:         c10IP(s, a.nh),
			EBGP:            a.ebgp,
			LocalPref:       a.localPref,
			MED:             a.med,
			Origin:          a.origin,
			BGPIdentifier:   0x0a000000 | a.src,
			OriginatorID:    a.originator,
			AtomicAggregate: a.atomic,
		},
		ASPath: &asp,
	}
	bp.ASPathLen = bp.ASPath.Length()
	if a.aggr != nil {
		ag := *a.aggr
		bp.BGPPathA.Aggregator = &ag
	}
	if len(a.comms) > 0 {
		c := types.Communities(append([]uint32{}, a.comms...))
		bp.Communities = &c
	}
	if len(a.lcomms) > 0 {
		lc := make(types.LargeCommunities, len(a.lcomms))
		for i, x := range a.lcomms {
			lc[i] = types.LargeCommunity{GlobalAdministrator: x[0], DataPart1: x[1], DataPart2: x[2]}
		}
		bp.LargeCommunities = &lc
	}
	if a.cluster != nil {
		cl := types.ClusterList(append([]uint32{}, a.cluster...))
		bp.ClusterList = &cl
	}
	for _, u := range a.unknown {
		bp.UnknownAttributes = append(bp.UnknownAttributes, types.UnknownPathAttribute{
			Optional: u.Optional, Transitive: true, Partial: u.Partial, TypeCode: u.TypeCode,
			Value: append([]byte{}, u.Value...),
		})
	}
	return &route.Path{Type: route.BGPPathType, BGPPath: bp}
}

// ---------------------------------------------------------------------------
// canonical renderings of "the attributes on the wire"

func c10RenderSegs(sb *strings.Builder, segs []kit.WSeg) {
	// adjacent AS_SEQUENCE segments are one sequence; empty segments carry nothing
	var norm []kit.WSeg
	for _, s := range segs {
		if len(s.ASNs) == 0 {
			continue
		}
		if s.Type == 2 && len(norm) > 0 && norm[len(norm)-1].Type == 2 {
			norm[len(norm)-1].ASNs = append(append([]uint32{}, norm[len(norm)-1].ASNs...), s.ASNs...)
			continue
		}
		norm = append(norm, kit.WSeg{Type: s.Type, ASNs: s.ASNs})
	}
	sb.WriteString(" aspath=")
	for _, s := range norm {
		fmt.Fprintf(sb, "{t%d %v}", s.Type, s.ASNs)
	}
}

type c10View struct {
	origin     uint8
	segs       []kit.WSeg
	nh         []byte
	med        *uint32
	lp         *uint32
	atomic     bool
	aggrASN    *uint32
	aggrAddr   []byte
	comms      []uint32
	lcomms     [][3]uint32
	originator *uint32
	cluster    []uint32
	unknown    []string
}

func (v c10View) String() string {
	var sb strings.Builder
	fmt.Fprintf(&sb, "origin=%d", v.origin)
	c10RenderSegs(&sb, v.segs)
	fmt.Fprintf(&sb, " nh=%x", v.nh)
	if v.med != nil {
		fmt.Fprintf(&sb, " med=%d", *v.med)
	}
	if v.lp != nil {
		fmt.Fprintf(&sb, " lp=%d", *v.lp)
	}
	if v.atomic {
		sb.WriteString(" atomic")
	}
	if v.aggrASN != nil {
		fmt.Fprintf(&sb, " aggr=%d/%x", *v.aggrASN, v.aggrAddr)
	}
	if len(v.comms) > 0 {
		fmt.Fprintf(&sb, " comms=%v", v.comms)
	}
	if len(v.lcomms) > 0 {
		fmt.Fprintf(&sb, " lcomms=%v", v.lcomms)
	}
	if v.originator != nil {
		fmt.Fprintf(&sb, " originator=%d", *v.originator)
	}
	if len(v.cluster) > 0 {
		fmt.Fprintf(&sb, " cluster=%v", v.cluster)
	}
	us := append([]string{}, v.unknown...)
	sort.Strings(us)
	for _, u := range us {
		sb.WriteString(" unk(" + u + ")")
	}
	return sb.String()
}

func c10U32(v uint32) *uint32 { return &v }

// c10WireView renders what a parsed UPDATE says about its announced routes.
func c10WireView(u *kit.WUpdate, s c10Sess) string {
	v := c10View{
		segs: u.ASPath, med: u.MED, lp: u.LocalPref, atomic: u.AtomicAggr, aggrASN: u.AggrASN, aggrAddr: u.AggrAddr,
		comms: u.Communities, lcomms: u.LargeComm, originator: u.OriginatorID, cluster: u.ClusterList,
	}
	if u.Origin != nil {
		v.origin = *u.Origin
	}
	if s.mp() {
		if u.MPReach != nil {
			v.nh = u.MPReach.NextHop
		}
	} else {
		v.nh = u.NextHop
	}
	for _, a := range u.Unknown {
		v.unknown = append(v.unknown, fmt.Sprintf("t%d opt=%v %x", a.Type, a.Flags&kit.FlOptional != 0, a.Value))
	}
	return v.String()
}

// c10PathView renders what an Adj-RIB-Out path must look like on the wire of
// session s (written from RFC 4271 §5 / RFC 4456 §8, not from bio-rd's
// serializer): LOCAL_PREF only on iBGP sessions, MED when set (bio-rd's path
// model has no "MED absent", 0 means none), ORIGINATOR_ID/CLUSTER_LIST only
// towards route reflector clients, empty optional attributes omitted.
func c10PathView(p *route.Path, s c10Sess) string {
	b := p.BGPPath
	v := c10View{origin: b.BGPPathA.Origin, atomic: b.BGPPathA.AtomicAggregate}
	if b.ASPath != nil {
		for _, sg := range *b.ASPath {
			v.segs = append(v.segs, kit.WSeg{Type: sg.Type, ASNs: sg.ASNs})
		}
	}
	v.nh = b.BGPPathA.NextHop.Bytes()
	if b.BGPPathA.MED != 0 {
		v.med = c10U32(b.BGPPathA.MED)
	}
	if s.iBGP() {
		v.lp = c10U32(b.BGPPathA.LocalPref)
	}
	if b.BGPPathA.Aggregator != nil {
		v.aggrASN = c10U32(uint32(b.BGPPathA.Aggregator.ASN))
		v.aggrAddr = binary.BigEndian.AppendUint32(nil, b.BGPPathA.Aggregator.Address)
	}
	if b.Communities != nil {
		v.comms = *b.Communities
	}
	if b.LargeCommunities != nil {
		for _, l := range *b.LargeCommunities {
			v.lcomms = append(v.lcomms, [3]uint32{l.GlobalAdministrator, l.DataPart1, l.DataPart2})
		}
	}
	if s.rrClient() {
		v.originator = c10U32(b.BGPPathA.OriginatorID)
		if b.ClusterList != nil {
			v.cluster = *b.ClusterList
		}
	}
	for _, a := range b.UnknownAttributes {
		v.unknown = append(v.unknown, fmt.Sprintf("t%d opt=%v %x", a.TypeCode, a.Optional, a.Value))
	}
	return v.String()
}

// ---------------------------------------------------------------------------
// the peer: replays captured UPDATEs into a table keyed (prefix, path id)

type c10Key struct {
	p  kit.Bits
	id uint32
}

func (k c10Key) String() string { return fmt.Sprintf("%v#%d", k.p, k.id) }

type c10Peer struct {
	sess     c10Sess
	table    map[c10Key]string
	msgs     int // UPDATE messages seen
	annMsgs  int // UPDATEs carrying at least one announcement
	maxLen   int
	announce int // announced NLRI in total
}

func c10NewPeer(s c10Sess) *c10Peer { return &c10Peer{sess: s, table: map[c10Key]string{}} }

// consume parses everything written so far. onAnnounce, when non-nil, sees
// each announced key (for C18's exactly-once accounting). It returns an
// error text when the byte stream is not a sequence of well-formed UPDATE /
// KEEPALIVE messages of at most 4096 bytes.
func (pe *c10Peer) consume(stream []byte, onAnnounce func(k c10Key, view string)) string {
	msgs, rest := kit.SplitStream(stream)
	if len(rest) != 0 {
		l := -1
		if len(rest) >= 19 {
			l = int(binary.BigEndian.Uint16(rest[16:]))
		}
		return fmt.Sprintf("after %d messages the stream does not continue with a valid BGP header (declared length %d, %d bytes left; limit 4096)", len(msgs), l, len(rest))
	}
	for i, m := range msgs {
		typ, body, e := kit.ParseHeader(m)
		if e != nil {
			return fmt.Sprintf("message %d: %v", i, e)
		}
		if len(m) > pe.maxLen {
			pe.maxLen = len(m)
		}
		if typ == kit.MsgKeepalive {
			continue
		}
		if typ != kit.MsgUpdate {
			return fmt.Sprintf("message %d: unexpected type %d from the update sender", i, typ)
		}
		pe.msgs++
		u, e := kit.ParseUpdate(body, pe.sess.wopts())
		if e != nil {
			return fmt.Sprintf("message %d (%d bytes) is not a well-formed UPDATE: %v", i, len(m), e)
		}
		// RFC 4271 §3.1/§9: withdrawn routes are removed, NLRI are installed and
		// replace an existing route to the same destination (RFC 7911 §3: the
		// destination is (prefix, path identifier)).
		del := func(ns []kit.WNLRI) {
			for _, n := range ns {
				delete(pe.table, c10Key{p: n.P.Canon(), id: n.PathID})
			}
		}
		del(u.Withdrawn)
		if u.MPUnreach != nil {
			del(u.MPUnreach.NLRI)
		}
		var ann []kit.WNLRI
		ann = append(ann, u.NLRI...)
		if u.MPReach != nil {
			ann = append(ann, u.MPReach.NLRI...)
		}
		if len(ann) > 0 {
			pe.annMsgs++
			view := c10WireView(u, pe.sess)
			for _, n := range ann {
				k := c10Key{p: n.P.Canon(), id: n.PathID}
				pe.table[k] = view
				pe.announce++
				if onAnnounce != nil {
					onAnnounce(k, view)
				}
			}
		}
	}
	return ""
}

// c10Expected renders AdjRIBOut.Dump() as the table the peer must hold.
// dup is non-empty when two stored paths of one prefix share a path id (the
// peer cannot tell them apart; not judged here, see C11).
func c10Expected(r *c10Rig) (want map[c10Key]string, dup string) {
	want = map[c10Key]string{}
	for _, rt := range r.rib.Dump() {
		b := c10Bits(rt.Prefix())
		for _, p := range rt.Paths() {
			id := uint32(0)
			if r.sess.addPath {
				id = p.BGPPath.PathIdentifier
			}
			k := c10Key{p: b, id: id}
			v := c10PathView(p, r.sess)
			if old, ok := want[k]; ok && old != v {
				// (two stored paths with one identifier AND one advertised form are one route for the peer)
				dup = k.String()
			}
			want[k] = v
		}
	}
	return want, dup
}

// c10Diff compares peer table and expectation; "" when equal.
func c10Diff(have, want map[c10Key]string) string {
	var out []string
	for k, w := range want {
		h, ok := have[k]
		if !ok {
			out = append(out, fmt.Sprintf("Adj-RIB-Out holds %v [%s] but the peer has no such route", k, w))
		} else if h != w {
			out = append(out, fmt.Sprintf("route %v: peer holds [%s], Adj-RIB-Out holds [%s]", k, h, w))
		}
	}
	for k, h := range have {
		if _, ok := want[k]; !ok {
			out = append(out, fmt.Sprintf("peer holds %v [%s] which is not in the Adj-RIB-Out", k, h))
		}
	}
	sort.Strings(out)
	if len(out) > 6 {
		out = append(out[:6], fmt.Sprintf("... and %d more", len(out)-6))
	}
	return strings.Join(out, "\n")
}

// ---------------------------------------------------------------------------
// log capture (the update sender reports serialization failures only through
// the logger); used for diagnostics, never as an oracle.

type c10Logger struct {
	mu   sync.Mutex
	errs []string
}

var c10Log = &c10Logger{}

func (l *c10Logger) add(s string) {
	l.mu.Lock()
	if len(l.errs) < 8 {
		l.errs = append(l.errs, s)
	}
	l.mu.Unlock()
}
func (l *c10Logger) take() []string {
	l.mu.Lock()
	defer l.mu.Unlock()
	e := l.errs
	l.errs = nil
	return e
}
func (l *c10Logger) Errorf(format string, args ...interface{}) { l.add(fmt.Sprintf(format, args...)) }
func (l *c10Logger) Infof(format string, args ...interface{})  {}
func (l *c10Logger) Debugf(format string, args ...interface{}) {}
func (l *c10Logger) Error(msg string)                          { l.add(msg) }
func (l *c10Logger) Info(msg string)                           {}
func (l *c10Logger) Debug(msg string)                          {}
func (l *c10Logger) WithFields(fields biolog.Fields) biolog.LoggerInterface {
	return l
}
func (l *c10Logger) WithError(err error) biolog.LoggerInterface { return l }

func c10InstallLogger() { biolog.SetLogger(c10Log) }

//go:build verif

package server

// C23 — abstract RFC 4271 session FSM model (harness side).
//
// State = (St, Attached, ConnOpen, Routes):
//   St        Idle / Connect / Active / OpenSent / OpenConfirm / Established / Cease
//             (Cease = bio-rd's "FSM disposed" end state, entered by the internal
//             Cease event used for connection-collision dumps),
//   Attached  the session's RIBs are attached to the Loc-RIB,
//   ConnOpen  the session's transport connection is open,
//   Routes    a route learned from an UPDATE of this session is in the Loc-RIB.
// The transition relation is written from RFC 4271 §8.2.2 (events 1-3, 8-11,
// 16-28), abstracted to the events the harness can inject, and is
// nondeterministic: timer events (hold timer, keepalive timer with a broken
// transport, connect-retry) are internal moves (tau) that may fire at any time.
// Where RFC 4271 marks an event optional (AutomaticStop) the model allows both
// the RFC transition and ignoring the event.
//
// The requirements of the property are *invariants of this model*, checked
// exhaustively by BFS (TestVerifC23ModelBFS):
//   Attached <=> St == Established, Routes => Attached,
//   ConnOpen => St in {OpenSent, OpenConfirm, Established},
//   every transition from OpenSent/OpenConfirm/Established to Idle ends with
//   ConnOpen == false.
// The implementation check (c23_refine_test.go) then demands that every
// observed trace is accepted by this model (subset construction).

import "fmt"

const (
	c23Idle = iota
	c23Connect
	c23Active
	c23OpenSent
	c23OpenConfirm
	c23Established
	c23Cease
)

var c23StNames = [...]string{stateNameIdle, stateNameConnect, stateNameActive, stateNameOpenSent, stateNameOpenConfirm, stateNameEstablished, "gone(cease)"}

type c23State struct {
	St       int
	Attached bool
	ConnOpen bool
	Routes   bool
}

func (s c23State) String() string {
	return fmt.Sprintf("(%s attached=%v connOpen=%v routes=%v)", c23StNames[s.St], s.Attached, s.ConnOpen, s.Routes)
}

const (
	c23EvStart = iota // AutomaticStart / ManualStart
	c23EvManualStop
	c23EvAutoStop
	c23EvCease
	c23EvConnUp // transport connection established (outgoing connect succeeded)
	c23EvOpenGood
	c23EvOpenBad // OPEN with an unacceptable field (peer AS, BGP identifier, role)
	c23EvKeepalive
	c23EvUpdate
	c23EvNotification
	c23EvMalformed
	c23EvWriteFail // transport starts failing writes (no FSM event by itself)
	c23EvWait      // let time pass
	c23NumEvents
)

var c23EvNames = [...]string{"Start", "ManualStop", "AutomaticStop", "Cease", "ConnUp", "OPEN", "badOPEN", "KEEPALIVE", "UPDATE", "NOTIFICATION", "malformed", "WriteFail", "Wait"}

// c23Env is what the harness knows deterministically about the session.
type c23Env struct {
	HoldZero    bool // negotiated hold time is 0 (no hold/keepalive timers in Established)
	WriteBroken bool // the current connection fails writes
}

var (
	c23IdleClosed = c23State{St: c23Idle}
	c23CeaseState = c23State{St: c23Cease}
)

func c23IsSession(st int) bool {
	return st == c23OpenSent || st == c23OpenConfirm || st == c23Established
}

// c23Step is the RFC transition relation for injected events.
func c23Step(s c23State, e int, env c23Env) []c23State {
	if s.St == c23Cease {
		return []c23State{s}
	}
	switch e {
	case c23EvStart:
		if s.St == c23Idle {
			return []c23State{{St: c23Connect}}
		}
		return []c23State{s} // start events are ignored in every other state
	case c23EvManualStop:
		switch s.St {
		case c23Idle:
			return []c23State{s}
		default:
			return []c23State{c23IdleClosed}
		}
	case c23EvAutoStop:
		if s.St == c23Idle {
			return []c23State{s}
		}
		return []c23State{c23IdleClosed, s} // optional event: RFC transition or ignored
	case c23EvCease:
		return []c23State{c23CeaseState}
	case c23EvConnUp:
		if s.St == c23Connect || s.St == c23Active {
			return []c23State{{St: c23OpenSent, ConnOpen: true}}
		}
		return []c23State{s}
	case c23EvOpenGood:
		switch s.St {
		case c23OpenSent:
			if env.WriteBroken {
				// the KEEPALIVE answer cannot be sent: TcpConnectionFails
				return []c23State{{St: c23Active}, c23IdleClosed}
			}
			return []c23State{{St: c23OpenConfirm, ConnOpen: true}}
		case c23OpenConfirm, c23Established:
			return []c23State{c23IdleClosed}
		}
		return []c23State{s}
	case c23EvOpenBad, c23EvNotification, c23EvMalformed:
		if c23IsSession(s.St) {
			return []c23State{c23IdleClosed}
		}
		return []c23State{s}
	case c23EvKeepalive:
		switch s.St {
		case c23OpenSent:
			return []c23State{c23IdleClosed}
		case c23OpenConfirm:
			return []c23State{{St: c23Established, Attached: true, ConnOpen: true}}
		}
		return []c23State{s}
	case c23EvUpdate:
		switch s.St {
		case c23OpenSent, c23OpenConfirm:
			return []c23State{c23IdleClosed}
		case c23Established:
			n := s
			n.Routes = true
			return []c23State{n}
		}
		return []c23State{s}
	case c23EvWriteFail, c23EvWait:
		return []c23State{s}
	}
	panic("c23Step: unknown event")
}

// c23Tau lists the internal (timer) moves enabled in s.
func c23Tau(s c23State, env c23Env) []c23State {
	switch s.St {
	case c23Connect:
		return nil // connect-retry: stays in Connect
	case c23Active:
		return []c23State{{St: c23Connect}} // connect-retry timer
	case c23OpenSent:
		if env.WriteBroken {
			// TcpConnectionFails (Event 18) noticed on any write: OpenSent -> Active
			return []c23State{c23IdleClosed, {St: c23Active}}
		}
		return []c23State{c23IdleClosed} // hold timer
	case c23OpenConfirm:
		return []c23State{c23IdleClosed} // hold timer; keepalive send failure
	case c23Established:
		if env.HoldZero {
			return nil
		}
		return []c23State{c23IdleClosed}
	}
	return nil
}

type c23Set map[c23State]struct{}

func c23SetOf(ss ...c23State) c23Set {
	out := c23Set{}
	for _, s := range ss {
		out[s] = struct{}{}
	}
	return out
}

func (S c23Set) String() string {
	var out []string
	for s := range S {
		out = append(out, s.String())
	}
	// small sets; order for readability
	for i := range out {
		for j := i + 1; j < len(out); j++ {
			if out[j] < out[i] {
				out[i], out[j] = out[j], out[i]
			}
		}
	}
	return fmt.Sprint(out)
}

// c23Closure adds everything reachable by internal moves.
func c23Closure(S c23Set, env c23Env) c23Set {
	out := c23Set{}
	var work []c23State
	for s := range S {
		out[s] = struct{}{}
		work = append(work, s)
	}
	for len(work) > 0 {
		s := work[len(work)-1]
		work = work[:len(work)-1]
		for _, n := range c23Tau(s, env) {
			if _, ok := out[n]; !ok {
				out[n] = struct{}{}
				work = append(work, n)
			}
		}
	}
	return out
}

// c23Post is the subset-construction step: internal moves, the event, internal
// moves again.
func c23Post(S c23Set, e int, env c23Env) c23Set {
	out := c23Set{}
	for s := range c23Closure(S, env) {
		for _, n := range c23Step(s, e, env) {
			out[n] = struct{}{}
		}
	}
	return c23Closure(out, env)
}

// c23Invariant checks the property's requirements on one model state.
func c23Invariant(s c23State) string {
	if s.Attached != (s.St == c23Established) {
		return "attached <=> Established violated"
	}
	if s.Routes && !s.Attached {
		return "routes in the Loc-RIB while not attached"
	}
	if s.ConnOpen && !c23IsSession(s.St) {
		return "connection open outside OpenSent/OpenConfirm/Established"
	}
	return ""
}

// c23TransitionInvariant checks one model transition.
func c23TransitionInvariant(from, to c23State) string {
	if c23IsSession(from.St) && to.St == c23Idle && to.ConnOpen {
		return "return to Idle with the connection open"
	}
	if from.St != c23Established && to.Routes && !from.Routes {
		return "UPDATE took effect outside Established"
	}
	return ""
}

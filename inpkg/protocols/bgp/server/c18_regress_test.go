//go:build verif

package server

// Deterministic regressions for the defects the C18 search found (fixed in the
// repository; these fail on a tree without the fixes).

import (
	"testing"

	"github.com/bio-routing/bio-rd/protocols/bgp/types"
)

// iBGP MP-IPv6 session with add-path; every UPDATE after the first one of a
// queue entry got one NLRI more than fits (4101 bytes) and was dropped.
func TestVerifC18RegressFollowUpUpdate(t *testing.T) {
	s := c10Sess{fam: c10FamV6, kind: c10KindIBGP, addPath: true, asn4: true}
	a := c10Attrs{src: 10, nh: 20, ebgp: true, localPref: 4294967295,
		segs: []types.ASPathSegment{
			{Type: types.ASSequence, ASNs: []uint32{64000, 64001, 64002, 64003, 64004}},
			{Type: types.ASSequence, ASNs: []uint32{64007, 64008, 64009, 64010}}},
		comms: []uint32{64500<<16 | 1, 64500<<16 | 2, 64500<<16 | 3}}
	for i := 0; i < 15; i++ {
		a.lcomms = append(a.lcomms, [3]uint32{64500, 1, uint32(i + 1)})
	}
	res := c18RunOne(t, s, a, c18Prefixes(128, 577, 1, 0), 0, "sender-loop")
	if res.annMsgs < 3 {
		t.Fatalf("expected at least 3 UPDATEs, got %d", res.annMsgs)
	}
}

// Attribute block whose real size exceeds BGPPath.Length(): AGGREGATOR,
// ATOMIC_AGGREGATE, extended lengths.
func TestVerifC18RegressAttributeEstimate(t *testing.T) {
	s := c10Sess{fam: c10FamV4, kind: c10KindIBGP, addPath: true, asn4: false}
	a := c10Attrs{src: 10, nh: 20, ebgp: true, localPref: 100, med: 7, atomic: true,
		aggr:    &types.Aggregator{ASN: 64500, Address: 0xc0000201},
		unknown: []types.UnknownPathAttribute{{Optional: true, Transitive: true, TypeCode: 100, Value: make([]byte, 255)}}}
	for i := 0; i < 644; i++ {
		a.comms = append(a.comms, 64500<<16|uint32(i+1))
	}
	for i := 0; i < 9; i++ {
		a.lcomms = append(a.lcomms, [3]uint32{64500, 1, uint32(i + 1)})
	}
	// every alignment of the budget boundary inside a /24 add-path NLRI (8 bytes)
	for pad := 0; pad < 8; pad++ {
		ap := a
		ap.unknown = append(append([]types.UnknownPathAttribute{}, a.unknown...), types.UnknownPathAttribute{Optional: true, Transitive: true, TypeCode: 250, Value: make([]byte, pad)})
		c18RunOne(t, s, ap, c18Prefixes(32, 339, 2, 1), 1, "end-of-rib")
	}
	// MP-IPv4 session (next hop length was taken as 1 byte)
	s = c10Sess{fam: c10FamV4MP, kind: c10KindRRClient, addPath: true, asn4: true}
	b := c10Attrs{src: 10, nh: 20, ebgp: true, med: 7, origin: 2, segs: []types.ASPathSegment{{Type: types.ASSequence, ASNs: []uint32{64000, 64001}}}}
	for i := 0; i < 40; i++ {
		b.comms = append(b.comms, 64500<<16|uint32(i+1))
	}
	for i := 0; i < 5; i++ {
		b.lcomms = append(b.lcomms, [3]uint32{64500, 1, uint32(i + 1)})
	}
	for pad := 0; pad < 8; pad++ {
		bp := b
		bp.unknown = []types.UnknownPathAttribute{{Optional: true, Transitive: true, TypeCode: 250, Value: make([]byte, pad)}}
		c18RunOne(t, s, bp, c18Prefixes(32, 1500, 3, 2), 2, "sender-loop-reverse")
	}
}

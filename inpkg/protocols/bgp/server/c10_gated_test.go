//go:build verif

package server

// C10, third machine: a route change that arrives while the update sender is
// in the middle of writing a queued announcement. The harness owns that
// schedule: the connection parks the sender's first Write on a gate; while it
// is parked a second goroutine withdraws (or replaces) a generated route;
// then the gate is released. When both have returned and the queue is empty,
// replaying the peer's byte stream must give exactly AdjRIBOut.Dump().
// Whether the change waits for the write (bio-rd: the sender keeps its queue
// lock while writing) or overtakes it is not judged — only the peer's view.

import (
	"sync/atomic"
	"testing"
	"time"

	"github.com/bio-routing/bio-rd/route"
	"pgregory.net/rapid"
	kit "verifkit"
)

type c10GateConn struct {
	*kit.Conn
	armed   int32
	reached chan struct{}
	release chan struct{}
}

func (g *c10GateConn) Write(b []byte) (int, error) {
	if atomic.CompareAndSwapInt32(&g.armed, 1, 0) {
		close(g.reached)
		<-g.release
	}
	return g.Conn.Write(b)
}

func TestVerifC10WriteGated(t *testing.T) {
	c10InstallLogger()
	rec := kit.NewRecorder(t, "C10", c10Rule+" [write-gated mode: real sender goroutine (1 ms aggregation), its first write of an announcement is parked on a harness gate while another goroutine withdraws or replaces a generated route; judged once both returned and the queue is empty. Non-trivial: the gate was reached and the changed route was announced in the parked message or still queued]")
	unjudged := 0
	rapid.Check(t, func(t *rapid.T) {
		c := rec.Case()
		defer c.Done()
		c10Log.take()
		cs := c10GenCase(t, rec, c)
		d := c10NewDriver(t, c, cs, true)
		rig := d.rig
		gate := &c10GateConn{Conn: rig.conn, reached: make(chan struct{}), release: make(chan struct{})}
		rig.fsm.con = gate
		// announce 1..4 (prefix, attrs) pairs; they all sit in the sender's queue
		type ann struct{ pi, ai int }
		var anns []ann
		n := rapid.IntRange(1, 4).Draw(t, "nann")
		for i := 0; i < n; i++ {
			pi := rapid.IntRange(0, len(d.bpfx)-1).Draw(t, "pfx")
			ai := rapid.IntRange(0, len(cs.attrs)-1).Draw(t, "attrs")
			if len(d.present[pi]) > 0 && !(cs.sess.addPath && len(d.present[pi]) < 3) {
				continue
			}
			if _, dup := d.present[pi][ai]; dup || !d.exportable(ai) {
				continue
			}
			p := cs.attrs[ai].path(cs.sess)
			c.Logf("announce p%d a%d", pi, ai)
			rig.rib.AddPath(d.bpfx[pi], p)
			d.present[pi][ai] = p
			anns = append(anns, ann{pi, ai})
		}
		if len(anns) == 0 {
			return
		}
		victim := anns[rapid.IntRange(0, len(anns)-1).Draw(t, "victim")]
		var repl *route.Path
		replace := false
		if !cs.sess.addPath && rapid.Bool().Draw(t, "replace") {
			for ai := range cs.attrs {
				if ai != victim.ai && d.exportable(ai) {
					repl, replace = cs.attrs[ai].path(cs.sess), true
					c.Logf("concurrent change: replace p%d a%d by a%d", victim.pi, victim.ai, ai)
					break
				}
			}
		}
		if !replace {
			c.Logf("concurrent change: withdraw p%d a%d", victim.pi, victim.ai)
		}
		atomic.StoreInt32(&gate.armed, 1)
		rig.us.Start(time.Millisecond)
		select {
		case <-gate.reached:
			c.Class("gate_reached")
		case <-time.After(5 * time.Second):
			rig.us.Destroy()
			unjudged++
			c.Class("gated_unjudged")
			return
		}
		done := make(chan struct{})
		go func() {
			defer close(done)
			if replace {
				rig.rib.AddPath(d.bpfx[victim.pi], repl) // Adj-RIB-Out's own replacement on a best-only session
			} else {
				rig.rib.RemovePath(d.bpfx[victim.pi], d.present[victim.pi][victim.ai])
			}
		}()
		select { // sensitivity only: let the change run if it can
		case <-done:
			c.Class("change_overtook_the_write")
		case <-time.After(10 * time.Millisecond):
			c.Class("change_waited_for_the_write")
		}
		close(gate.release)
		select {
		case <-done:
		case <-time.After(10 * time.Second):
			unjudged++
			c.Class("gated_unjudged")
			return
		}
		deadline := time.Now().Add(5 * time.Second)
		for rig.queueLen() > 0 {
			if time.Now().After(deadline) {
				rig.us.Destroy()
				unjudged++
				c.Class("gated_unjudged")
				return
			}
			time.Sleep(200 * time.Microsecond)
		}
		rig.us.Destroy()
		c.NonTrivial()
		if msg := d.peer.consume(rig.conn.TakeWritten(), nil); msg != "" {
			t.Fatalf("C10 %v: %s", cs.sess, msg)
		}
		d.compare("after a route change that arrived while the sender was writing")
	})
	if unjudged > 0 {
		rec.Note("write-gated mode: %d cases hit a real-time deadline and were not judged", unjudged)
	}
}

//go:build verif

package server

// C36 (server side) — the in-place policy replacement a configuration reload
// performs must leave the real BGP server's peer with the same effective
// policies as a peer freshly added with the new policies.
//
// cmd/bio-rd's bgpConfigurator.reconfigureModifiedSession calls
// BGPServer.ReplaceImportFilterChain / ReplaceExportFilterChain with the
// neighbour's new chains when no restart is needed; a fresh start hands the
// same chains to AddPeer inside PeerConfig.IPv4/IPv6. The C36 harness in
// cmd/bio-rd uses a fake server that assumes "Replace*FilterChain sets the
// effective chain, like AddPeer would"; this test checks that assumption on the
// real server, for every session state a reload can meet:
//   nofsm        passive peer, nobody connected yet (peer.fsms empty)
//   fsm_down     an FSM exists but is not established (adjRIBIn/adjRIBOut nil):
//                an active peer that is connecting, or an incoming connection
//                that is still in OpenSent/OpenConfirm
//   established  the FSM's address families hold Adj-RIBs
// Effective policy = the chains used by every existing FSM address family and
// the chains a session created afterwards gets (newFSM(peer), which is what
// incomingConnectionWorker does for every accepted connection). They are
// compared by behaviour on probe routes with those of a freshly added peer.
// (What a replacement does to routes already in the Adj-RIBs is C12's subject.)

import (
	"fmt"
	"github.com/bio-routing/bio-rd/net/tcp"
	"net"
	"strings"
	"testing"
	"time"

	bnet "github.com/bio-routing/bio-rd/net"
	"github.com/bio-routing/bio-rd/protocols/bgp/types"
	"github.com/bio-routing/bio-rd/route"
	"github.com/bio-routing/bio-rd/routingtable"
	"github.com/bio-routing/bio-rd/routingtable/adjRIBIn"
	"github.com/bio-routing/bio-rd/routingtable/adjRIBOut"
	"github.com/bio-routing/bio-rd/routingtable/filter"
	"github.com/bio-routing/bio-rd/routingtable/filter/actions"
	"github.com/bio-routing/bio-rd/routingtable/vrf"
	biolog "github.com/bio-routing/bio-rd/util/log"
	"pgregory.net/rapid"
	kit "verifkit"
)

const c36SrvRule = "peer added to the real bgpServer with generated import/export chains (0-2 filters x 1-2 terms; empty chain = no policy configured), in session state nofsm/fsm_down/established and family set v4/v6/both, then 1-3 Replace{Import,Export}FilterChain rounds as a reload issues them; chains of existing and of later created FSMs compared by behaviour on 12 probe routes with a peer freshly added with the last chains. Non-trivial: some round changes the behaviour of the import or the export chain."

type c36SrvNullLog struct{}

func (c36SrvNullLog) Errorf(string, ...interface{})                   {}
func (c36SrvNullLog) Infof(string, ...interface{})                    {}
func (c36SrvNullLog) Debugf(string, ...interface{})                   {}
func (c36SrvNullLog) Error(string)                                    {}
func (c36SrvNullLog) Info(string)                                     {}
func (c36SrvNullLog) Debug(string)                                    {}
func (c36SrvNullLog) WithFields(biolog.Fields) biolog.LoggerInterface { return c36SrvNullLog{} }
func (c36SrvNullLog) WithError(error) biolog.LoggerInterface          { return c36SrvNullLog{} }

var c36SrvProbeStr = []string{
	"0.0.0.0/0", "10.0.0.0/8", "10.1.0.0/16", "10.1.1.0/24", "10.1.1.128/25", "10.2.0.0/16", "192.0.2.0/24",
	"::/0", "2001:db8::/32", "2001:db8:1::/48", "2001:db8:1:1::/64", "2001:db9::/32",
}

var c36SrvProbes []*bnet.Prefix

func init() {
	for _, s := range c36SrvProbeStr {
		p, err := bnet.PrefixFromString(s)
		if err != nil {
			panic(err)
		}
		c36SrvProbes = append(c36SrvProbes, p)
	}
}

func c36SrvBehaviour(c filter.Chain) string {
	nh := bnet.IPv4FromOctets(203, 0, 113, 1)
	var sb strings.Builder
	for i, p := range c36SrvProbes {
		if i > 0 {
			sb.WriteByte(' ')
		}
		pa := &route.Path{
			Type: route.BGPPathType,
			BGPPath: &route.BGPPath{
				BGPPathA:  &route.BGPPathA{NextHop: nh.Dedup(), Source: nh.Dedup(), LocalPref: 100, MED: 7, EBGP: true},
				ASPath:    types.NewASPath([]uint32{64999}),
				ASPathLen: 1,
			},
		}
		res, reject := c.Process(p, pa)
		if reject {
			sb.WriteString("R")
			continue
		}
		fmt.Fprintf(&sb, "A(lp=%d,med=%d)", res.BGPPath.BGPPathA.LocalPref, res.BGPPath.BGPPathA.MED)
	}
	return sb.String()
}

// c36SrvGenChain draws a chain from exported constructors only and returns it
// with a textual description. An empty chain is what the configurator passes
// for a neighbour without import/export statement.
func c36SrvGenChain(t *rapid.T, label string) (filter.Chain, string) {
	nf := rapid.SampledFrom([]int{0, 1, 1, 1, 2}).Draw(t, label+"_nfilters")
	var c filter.Chain
	var desc []string
	for i := 0; i < nf; i++ {
		nt := rapid.IntRange(1, 2).Draw(t, fmt.Sprintf("%s_f%d_nterms", label, i))
		var terms []*filter.Term
		var tds []string
		for j := 0; j < nt; j++ {
			l := fmt.Sprintf("%s_f%d_t%d", label, i, j)
			var conds []*filter.TermCondition
			td := ""
			if rapid.Bool().Draw(t, l+"_hasrf") {
				ps := rapid.SampledFrom([]string{"10.0.0.0/8", "10.1.0.0/16", "2001:db8::/32"}).Draw(t, l+"_pfx")
				m := rapid.SampledFrom([]string{"exact", "orlonger", "longer"}).Draw(t, l+"_matcher")
				pfx, _ := bnet.PrefixFromString(ps)
				var pm filter.PrefixMatcher
				switch m {
				case "exact":
					pm = filter.NewExactMatcher()
				case "orlonger":
					pm = filter.NewOrLongerMatcher()
				default:
					pm = filter.NewLongerMatcher()
				}
				conds = append(conds, filter.NewTermConditionWithRouteFilters(filter.NewRouteFilter(pfx, pm)))
				td = fmt.Sprintf("from %s %s ", ps, m)
			}
			var acts []actions.Action
			switch rapid.IntRange(0, 4).Draw(t, l+"_action") {
			case 0:
				acts = []actions.Action{actions.NewAcceptAction()}
				td += "accept"
			case 1:
				acts = []actions.Action{actions.NewRejectAction()}
				td += "reject"
			case 2:
				v := rapid.SampledFrom([]uint32{50, 200}).Draw(t, l+"_lp")
				acts = []actions.Action{actions.NewSetLocalPrefAction(v), actions.NewAcceptAction()}
				td += fmt.Sprintf("local_pref %d accept", v)
			case 3:
				v := rapid.SampledFrom([]uint32{10, 1337}).Draw(t, l+"_med")
				acts = []actions.Action{actions.NewSetMEDAction(v), actions.NewAcceptAction()}
				td += fmt.Sprintf("med %d accept", v)
			case 4:
				v := rapid.SampledFrom([]uint32{50, 200}).Draw(t, l+"_lp")
				acts = []actions.Action{actions.NewSetLocalPrefAction(v)}
				td += fmt.Sprintf("local_pref %d (next term)", v)
			}
			terms = append(terms, filter.NewTerm(fmt.Sprintf("t%d", j), conds, acts))
			tds = append(tds, td)
		}
		c = append(c, filter.NewFilter(fmt.Sprintf("%s_F%d", label, i), terms))
		desc = append(desc, "{"+strings.Join(tds, "; ")+"}")
	}
	if nf == 0 {
		return c, "[] (none configured)"
	}
	return c, "[" + strings.Join(desc, " ") + "]"
}

type c36SrvChains struct {
	imp, exp filter.Chain
}

func c36SrvPeerConfig(v *vrf.VRF, addr *bnet.IP, fam string, ch c36SrvChains) PeerConfig {
	local := bnet.IPv4FromOctets(192, 0, 2, 1)
	c := PeerConfig{
		AdminEnabled: true,
		LocalAS:      65100,
		PeerAS:       65200,
		PeerAddress:  addr,
		LocalAddress: local.Dedup(),
		Passive:      true, // AddPeer must not start anything
		RouterID:     0xc0000201,
		VRF:          v,
	}
	af := func() *AddressFamilyConfig {
		return &AddressFamilyConfig{
			ImportFilterChain: ch.imp,
			ExportFilterChain: ch.exp,
			AddPathSend:       routingtable.ClientOptions{BestOnly: true},
		}
	}
	if fam == "v4" || fam == "both" {
		c.IPv4 = af()
	}
	if fam == "v6" || fam == "both" {
		c.IPv6 = af()
	}
	return c
}

func c36SrvNewServer(v *vrf.VRF) *bgpServer {
	lp := uint32(100)
	return newBGPServer(BGPServerConfig{
		RouterID:               0xc0000201,
		DefaultVRF:             v,
		ListenAddrsByVRF:       map[string][]string{},
		DefaultLocalPreference: &lp,
	})
}

// c36SrvFamilies lists the chains of the address families of one FSM.
func c36SrvFamilies(name string, fsm *FSM) []string {
	var out []string
	for _, f := range []struct {
		n  string
		af *fsmAddressFamily
	}{{"ipv4", fsm.ipv4Unicast}, {"ipv6", fsm.ipv6Unicast}} {
		if f.af == nil {
			out = append(out, fmt.Sprintf("%s %s: absent", name, f.n))
			continue
		}
		out = append(out, fmt.Sprintf("%s %s import: %s", name, f.n, c36SrvBehaviour(f.af.importFilterChain)))
		out = append(out, fmt.Sprintf("%s %s export: %s", name, f.n, c36SrvBehaviour(f.af.exportFilterChain)))
	}
	return out
}

func c36SrvReplaceBoth(s *bgpServer, v *vrf.VRF, addr *bnet.IP, ch c36SrvChains) (err error) {
	defer func() {
		if r := recover(); r != nil {
			err = fmt.Errorf("panic: %v", r)
		}
	}()
	if e := s.ReplaceImportFilterChain(v, addr, ch.imp); e != nil {
		return e
	}
	return s.ReplaceExportFilterChain(v, addr, ch.exp)
}

// c36SrvScenario runs one scenario; it returns "" or the description of the
// first divergence. Shared by the property and the witness tests.
func c36SrvScenario(fam, state string, seq []c36SrvChains) string {
	v := vrf.NewUntrackedVRF("master", 0)
	v.CreateIPv4UnicastLocRIB("inet.0")
	v.CreateIPv6UnicastLocRIB("inet6.0")
	addrV := bnet.IPv4FromOctets(192, 0, 2, 2)
	addr := addrV.Dedup()

	live := c36SrvNewServer(v)
	if err := live.AddPeer(c36SrvPeerConfig(v, addr, fam, seq[0])); err != nil {
		return "harness: AddPeer failed: " + err.Error()
	}
	p := live.peers.get(v, addr)
	if p == nil {
		return "harness: peer not found after AddPeer"
	}
	if state != "nofsm" {
		// what incomingConnectionWorker does for an accepted connection
		fsm := NewActiveFSM(p)
		p.fsmsMu.Lock()
		p.fsms = append(p.fsms, fsm)
		p.fsmsMu.Unlock()
		if state == "established" {
			for _, f := range []*fsmAddressFamily{fsm.ipv4Unicast, fsm.ipv6Unicast} {
				if f == nil {
					continue
				}
				// the Adj-RIBs establishedState.init() creates (no update sender: nothing is sent here)
				sa := f.getSessionAttrs()
				f.adjRIBIn = adjRIBIn.New(f.importFilterChain, v, sa)
				f.adjRIBOut = adjRIBOut.New(f.rib, sa, f.exportFilterChain)
				f.initialized = true
			}
		}
	}

	for i := 1; i < len(seq); i++ {
		if err := c36SrvReplaceBoth(live, v, addr, seq[i]); err != nil {
			return fmt.Sprintf("round %d: Replace{Import,Export}FilterChain on a configured peer (state %s) failed: %v", i, state, err)
		}

		fresh := c36SrvNewServer(v)
		if err := fresh.AddPeer(c36SrvPeerConfig(v, addr, fam, seq[i])); err != nil {
			return "harness: AddPeer (fresh) failed: " + err.Error()
		}
		want := c36SrvFamilies("session", newFSM(fresh.peers.get(v, addr)))

		p.fsmsMu.Lock()
		fsms := append([]*FSM{}, p.fsms...)
		p.fsmsMu.Unlock()
		for k, fsm := range fsms {
			got := c36SrvFamilies("session", fsm)
			for j := range want {
				if got[j] != want[j] {
					return fmt.Sprintf("round %d: existing session %d (state %s) after the replacement has\n    %s\n  a freshly configured peer has\n    %s", i, k, state, got[j], want[j])
				}
			}
		}
		got := c36SrvFamilies("session", newFSM(p))
		for j := range want {
			if got[j] != want[j] {
				return fmt.Sprintf("round %d: a session created after the replacement (next incoming connection) gets\n    %s\n  a freshly configured peer has\n    %s", i, got[j], want[j])
			}
		}
	}
	return ""
}

func TestVerifC36ServerReplaceChains(t *testing.T) {
	biolog.SetLogger(c36SrvNullLog{})
	rec := kit.NewRecorder(t, "C36", c36SrvRule)
	rapid.Check(t, func(t *rapid.T) {
		c := rec.Case()
		defer c.Done()

		fam := rapid.SampledFrom([]string{"v4", "v6", "both"}).Draw(t, "families")
		state := rapid.SampledFrom([]string{"nofsm", "fsm_down", "established"}).Draw(t, "state")
		rounds := rapid.SampledFrom([]int{1, 1, 2, 3}).Draw(t, "rounds")
		c.Logf("families=%s state=%s", fam, state)
		c.Class("state_" + state)
		c.Class("fam_" + fam)

		var seq []c36SrvChains
		for i := 0; i <= rounds; i++ {
			var ch c36SrvChains
			var di, de string
			keepImp := i > 0 && rapid.IntRange(0, 3).Draw(t, fmt.Sprintf("r%d_keep_import", i)) == 1
			keepExp := i > 0 && rapid.IntRange(0, 3).Draw(t, fmt.Sprintf("r%d_keep_export", i)) == 1
			if keepImp {
				ch.imp, di = seq[i-1].imp, "(unchanged)"
			} else {
				ch.imp, di = c36SrvGenChain(t, fmt.Sprintf("r%d_imp", i))
			}
			if keepExp {
				ch.exp, de = seq[i-1].exp, "(unchanged)"
			} else {
				ch.exp, de = c36SrvGenChain(t, fmt.Sprintf("r%d_exp", i))
			}
			c.Logf("round %d import=%s export=%s", i, di, de)
			c.ClassIf(len(ch.imp) == 0 || len(ch.exp) == 0, "empty_chain")
			if i > 0 {
				eff := func(x filter.Chain) string { return c36SrvBehaviour(filterOrDefault(x)) }
				c.NonTrivialIf(eff(ch.imp) != eff(seq[i-1].imp) || eff(ch.exp) != eff(seq[i-1].exp))
			}
			seq = append(seq, ch)
		}

		if msg := c36SrvScenario(fam, state, seq); msg != "" {
			t.Fatalf("C36 (server) violated: in-place policy replacement differs from adding the peer with the new policies:\n  %s\ncase:\n%s", msg, c.String())
		}
	})
}

// TestVerifC36ReplaceWhileConnecting: a policy-only reload replaces the chains of a neighbour (real
// bgpServer.Replace{Import,Export}FilterChain) while that neighbour opens another connection (real
// incomingConnectionWorker, connection handed over through the listener manager's accept channel). The harness
// owns the schedule: it keeps the existing session busy (holds its state lock, as the session's own goroutine does
// during RIB set-up and teardown) so that the replacement is parked in the middle, lets the connection in, and
// releases. Afterwards every session of the neighbour, old or new, and any later one must carry the new chains.
func TestVerifC36ReplaceWhileConnecting(t *testing.T) {
	rec := kit.NewRecorder(t, "C36", "real started bgpServer, passive neighbour with generated chains and one existing session (OpenSent or Established); Replace{Import,Export}FilterChain with new generated chains parked on the busy existing session while 1-2 further connections of the neighbour arrive; chains of all sessions compared by behaviour on 12 probe routes with the new chains. Non-trivial: the new chains behave differently from the old ones and a connection arrived while the replacement was parked.")
	var inc c21Inc
	rapid.Check(t, func(t *rapid.T) {
		c := rec.Case()
		defer c.Done()
		impA, dA := c36SrvGenChain(t, "impA")
		expA, _ := c36SrvGenChain(t, "expA")
		impB, dB := c36SrvGenChain(t, "impB")
		expB, _ := c36SrvGenChain(t, "expB")
		establish := rapid.Bool().Draw(t, "established")
		nconn := rapid.IntRange(1, 2).Draw(t, "connections")
		c.Logf("import %s -> %s; first session established=%v; %d connection(s) during the replacement", dA, dB, establish, nconn)
		var verdict string
		differ := c36SrvBehaviour(filterOrDefault(impA)) != c36SrvBehaviour(filterOrDefault(impB)) || c36SrvBehaviour(filterOrDefault(expA)) != c36SrvBehaviour(filterOrDefault(expB))
		ok := inc.c21Run(c, func() {
			r := c00NewRig(0x0a000001)
			c36PeerSeq++
			ip := bnet.IPv4FromOctets(10, 7, uint8(c36PeerSeq>>8), uint8(c36PeerSeq))
			cfg := r.c00PeerCfg(ip, bnet.IPv4FromOctets(10, 0, 0, 1), 65000, 65001)
			cfg.IPv4.ImportFilterChain, cfg.IPv4.ExportFilterChain = impA, expA
			if err := r.srv.AddPeer(cfg); err != nil {
				panic(err)
			}
			conn1, f1 := r.c00Connect(ip)
			if establish {
				if ok, s := r.c00Establish(conn1, f1, c00Open(65001, 0x0a000002, 90, kit.CapASN4(65001))); !ok {
					panic(c00Inconclusive{"first session did not establish: " + s})
				}
				c00Barrier(conn1, f1)
			}
			defer func() { go r.srv.DisposePeer(r.vrf, ip.Dedup()) }()
			f1.stateMu.Lock()
			locked := true
			unlock := func() {
				if locked {
					locked = false
					f1.stateMu.Unlock()
				}
			}
			defer unlock()
			repDone := make(chan error, 1)
			go func() {
				if e := r.srv.ReplaceImportFilterChain(r.vrf, ip.Dedup(), impB); e != nil {
					repDone <- e
					return
				}
				repDone <- r.srv.ReplaceExportFilterChain(r.vrf, ip.Dedup(), expB)
			}()
			time.Sleep(2 * time.Millisecond) // (sensitivity only) let the replacement reach the busy session
			// the accept loop is one goroutine: the second connection is taken once the first has its session
			accepted := make(chan bool, 1)
			go func() {
				for k := 0; k < nconn; k++ {
					cn := kit.NewConn(&net.TCPAddr{IP: net.IPv4(127, 0, 0, 1), Port: 179}, &net.TCPAddr{IP: ip.ToNetIP(), Port: 40000 + k})
					select {
					case r.lm.ch <- tcp.ConnWithVRF{Conn: cn, VRF: r.vrf}:
					case <-time.After(c00Deadline):
						accepted <- false
						return
					}
				}
				accepted <- true
			}()
			time.Sleep(2 * time.Millisecond)
			unlock()
			if !<-accepted {
				panic(c00Inconclusive{"server did not accept the connection"})
			}
			select {
			case e := <-repDone:
				if e != nil {
					verdict = "Replace{Import,Export}FilterChain failed: " + e.Error()
					return
				}
			case <-time.After(c00Deadline):
				panic(c00Inconclusive{"replacement did not return"})
			}
			c00WaitFor("sessions of the new connections registered", func() bool { return len(r.c00FSMs(ip)) >= 1+nconn })
			wantImp, wantExp := c36SrvBehaviour(filterOrDefault(impB)), c36SrvBehaviour(filterOrDefault(expB))
			p := r.c00Peer(ip)
			fsms := append(r.c00FSMs(ip), newFSM(p))
			for k, f := range fsms {
				f.stateMu.RLock()
				gi, ge := c36SrvBehaviour(f.ipv4Unicast.importFilterChain), c36SrvBehaviour(f.ipv4Unicast.exportFilterChain)
				f.stateMu.RUnlock()
				who := fmt.Sprintf("session %d of %d", k, len(fsms)-1)
				if k == len(fsms)-1 {
					who = "a session created after the replacement"
				}
				if gi != wantImp {
					verdict = fmt.Sprintf("%s still uses an import policy that is not the new one:\n    %s\n  new policy:\n    %s", who, gi, wantImp)
					return
				}
				if ge != wantExp {
					verdict = fmt.Sprintf("%s still uses an export policy that is not the new one:\n    %s\n  new policy:\n    %s", who, ge, wantExp)
					return
				}
			}
		})
		if !ok {
			c.Logf("inconclusive: %s", inc.last)
			return
		}
		c.NonTrivialIf(differ)
		c.ClassIf(differ, "chains_differ")
		c.ClassIf(establish, "first_session_established")
		if verdict != "" {
			t.Fatalf("C36/replace-while-connecting: %s\n%s", verdict, c.String())
		}
	})
	inc.c21Finish(t, "C36")
}

var c36PeerSeq uint32

//go:build verif

package server

// Deterministic regressions for the defects the C10 search found (all fixed in
// the repository; these fail on a tree without the fixes). They run with the
// controlled machine.

import (
	"testing"

	"github.com/bio-routing/bio-rd/protocols/bgp/types"
	kit "verifkit"
)

func c10RegressCheck(t *testing.T, r *c10Rig, pe *c10Peer, what string) {
	t.Helper()
	if msg := pe.consume(r.conn.TakeWritten(), nil); msg != "" {
		t.Fatalf("%s: %s", what, msg)
	}
	want, _ := c10Expected(r)
	if d := c10Diff(pe.table, want); d != "" {
		t.Fatalf("%s: peer view differs from AdjRIBOut.Dump():\n%s", what, d)
	}
}

var c10RegressSess = c10Sess{fam: c10FamV4, kind: c10KindRSClient, asn4: true}

func c10RegressAttrs(lp uint32) c10Attrs {
	return c10Attrs{src: 10, nh: 20, ebgp: true, localPref: lp, med: lp, segs: []types.ASPathSegment{{Type: types.ASSequence, ASNs: []uint32{64500}}}}
}

// A route is withdrawn while its announcement is still queued: the withdraw
// was written at once, the announcement one aggregation round later.
func TestVerifC10RegressWithdrawWhileQueued(t *testing.T) {
	for _, s := range []c10Sess{c10RegressSess, {fam: c10FamV6, kind: c10KindIBGP, addPath: true, asn4: true}} {
		r := c10NewRig(s)
		pe := c10NewPeer(s)
		pfx := c10Pfx(c10ProbePrefix(s))
		p := c10RegressAttrs(100).path(s)
		r.rib.AddPath(pfx, p)
		r.rib.RemovePath(pfx, p)
		r.flushAll(false)
		c10RegressCheck(t, r, pe, "add, remove, flush on "+s.String())
	}
}

// Two generations of one prefix queued under different attribute hashes were
// flushed in map order; whichever order the runtime picked, one of the two
// orders leaves the peer with the old attributes.
func TestVerifC10RegressTwoGenerations(t *testing.T) {
	for _, reverse := range []bool{false, true} {
		s := c10RegressSess
		r := c10NewRig(s)
		pe := c10NewPeer(s)
		pfx := c10Pfx(kit.V4(0x0a000000, 8))
		r.rib.AddPath(pfx, c10RegressAttrs(100).path(s))
		r.rib.AddPath(pfx, c10RegressAttrs(200).path(s)) // best-only replacement inside the Adj-RIB-Out
		r.flushAll(reverse)
		c10RegressCheck(t, r, pe, "add, replace, flush")
	}
}

// Two paths that differ only in ATOMIC_AGGREGATE shared one queue entry and
// were both announced with the attributes of the first.
func TestVerifC10RegressHashTwin(t *testing.T) {
	s := c10RegressSess
	r := c10NewRig(s)
	pe := c10NewPeer(s)
	a := c10RegressAttrs(100)
	b := a
	b.atomic = true
	r.rib.AddPath(c10Pfx(kit.V4(0x0a000000, 8)), a.path(s))
	r.rib.AddPath(c10Pfx(kit.V4(0x0b000000, 8)), b.path(s))
	r.flushAll(false)
	c10RegressCheck(t, r, pe, "two prefixes, attributes differ in ATOMIC_AGGREGATE only")
}

//go:build verif

package server

// C12 — Replacing a policy converges to the new policy's result.
//
// Differential: rig A = session (real peer / FSM / fsmAddressFamily.init(),
// real AdjRIBIn, LocRIB, AdjRIBOut) set up with the OLD import and export
// policies, routes loaded, then the policies replaced through the public
// bgpServer.ReplaceImportFilterChain / ReplaceExportFilterChain path (peer ->
// FSM -> fsmAddressFamily.replace*FilterChain incl. the skip-if-Equal logic ->
// AdjRIBIn/AdjRIBOut.ReplaceFilterChain). Rig B = fresh session with the NEW
// policies, same routes in the same order. Oracle: LocRIB.Dump() and
// AdjRIBOut.Dump() of A and B are equal as multisets of (prefix, path value),
// path identifiers ignored.

import (
	"fmt"
	"net"
	"sort"
	"strings"
	"testing"
	"time"

	bnet "github.com/bio-routing/bio-rd/net"
	"github.com/bio-routing/bio-rd/protocols/bgp/packet"
	"github.com/bio-routing/bio-rd/protocols/bgp/types"
	"github.com/bio-routing/bio-rd/route"
	"github.com/bio-routing/bio-rd/routingtable"
	"github.com/bio-routing/bio-rd/routingtable/filter"
	"github.com/bio-routing/bio-rd/routingtable/filter/actions"
	"github.com/bio-routing/bio-rd/routingtable/locRIB"
	"github.com/bio-routing/bio-rd/routingtable/vrf"
	biolog "github.com/bio-routing/bio-rd/util/log"
	"pgregory.net/rapid"
	kit "verifkit"
)

// ---------------------------------------------------------------------------
// logging off

type c12NullLog struct{}

func (c12NullLog) Errorf(string, ...interface{})                   {}
func (c12NullLog) Infof(string, ...interface{})                    {}
func (c12NullLog) Debugf(string, ...interface{})                   {}
func (c12NullLog) Error(string)                                    {}
func (c12NullLog) Info(string)                                     {}
func (c12NullLog) Debug(string)                                    {}
func (c12NullLog) WithFields(biolog.Fields) biolog.LoggerInterface { return c12NullLog{} }
func (c12NullLog) WithError(error) biolog.LoggerInterface          { return c12NullLog{} }

// c12Conn swallows everything the update sender writes.
type c12Conn struct{}

func (c12Conn) Read(b []byte) (int, error)       { select {} }
func (c12Conn) Write(b []byte) (int, error)      { return len(b), nil }
func (c12Conn) Close() error                     { return nil }
func (c12Conn) LocalAddr() net.Addr              { return &net.TCPAddr{} }
func (c12Conn) RemoteAddr() net.Addr             { return &net.TCPAddr{} }
func (c12Conn) SetDeadline(time.Time) error      { return nil }
func (c12Conn) SetReadDeadline(time.Time) error  { return nil }
func (c12Conn) SetWriteDeadline(time.Time) error { return nil }

// ---------------------------------------------------------------------------
// model <-> bio-rd translation (exported constructors only; same as the C14 harness)

func c12IP(b kit.Bits) bnet.IP {
	if b.W == 32 {
		return bnet.IPv4(b.U32())
	}
	hi, lo := b.HiLo()
	return bnet.IPv6(hi, lo)
}

func c12Bits(ip *bnet.IP) kit.Bits {
	var b kit.Bits
	if ip == nil {
		return b
	}
	if ip.IsIPv4() {
		b.W = 32
	} else {
		b.W = 128
	}
	copy(b.A[:], ip.Bytes())
	b.L = b.W
	return b
}

func c12Pfx(b kit.Bits) *bnet.Prefix { return bnet.NewPfx(c12IP(b), uint8(b.L)).Ptr() }

func c12PfxBits(p *bnet.Prefix) kit.Bits {
	a := p.Addr()
	b := c12Bits(&a)
	b.L = int(p.Len())
	return b
}

type c12Builder struct{ pfx map[int]*bnet.Prefix }

func c12NewBuilder() *c12Builder { return &c12Builder{pfx: map[int]*bnet.Prefix{}} }

func (b *c12Builder) pat(p kit.PolPattern) *bnet.Prefix {
	if x, ok := b.pfx[p.ID]; ok {
		return x
	}
	x := c12Pfx(p.P)
	b.pfx[p.ID] = x
	return x
}

func c12Matcher(m kit.PolMatcher) filter.PrefixMatcher {
	switch m.Kind {
	case kit.PolExact:
		return filter.NewExactMatcher()
	case kit.PolOrLonger:
		return filter.NewOrLongerMatcher()
	case kit.PolLonger:
		return filter.NewLongerMatcher()
	}
	return filter.NewInRangeMatcher(m.Min, m.Max)
}

func (b *c12Builder) cond(c kit.PolCond) *filter.TermCondition {
	var pls []*filter.PrefixList
	for _, l := range c.PLs {
		var ps []*bnet.Prefix
		for _, e := range l.Pfxs {
			ps = append(ps, b.pat(e))
		}
		if l.WithMatcher {
			pls = append(pls, filter.NewPrefixListWithMatcher(c12Matcher(l.M), ps...))
		} else {
			pls = append(pls, filter.NewPrefixList(ps...))
		}
	}
	var rfs []*filter.RouteFilter
	for _, r := range c.RFs {
		rfs = append(rfs, filter.NewRouteFilter(b.pat(r.Pat), c12Matcher(r.M)))
	}
	switch c.Ctor {
	case kit.PolCondRF:
		return filter.NewTermConditionWithRouteFilters(rfs...)
	case kit.PolCondPL:
		return filter.NewTermConditionWithPrefixLists(pls...)
	case kit.PolCondProtos:
		return filter.NewTermConditionWithProtocols(c.Protos...)
	}
	return filter.NewTermCondition(pls, rfs)
}

func c12Action(a kit.PolAction) actions.Action {
	switch a.Kind {
	case kit.PolAccept:
		return actions.NewAcceptAction()
	case kit.PolReject:
		return actions.NewRejectAction()
	case kit.PolSetLocalPref:
		return actions.NewSetLocalPrefAction(a.U32)
	case kit.PolSetMED:
		return actions.NewSetMEDAction(a.U32)
	case kit.PolSetNextHop:
		return actions.NewSetNextHopAction(c12IP(a.IP).Ptr())
	}
	return actions.NewASPathPrependAction(a.U32, a.Count)
}

func (b *c12Builder) chain(c kit.PolChain) filter.Chain {
	out := filter.Chain{}
	for _, f := range c {
		var terms []*filter.Term
		for _, t := range f.Terms {
			from := []*filter.TermCondition{}
			for _, cd := range t.From {
				from = append(from, b.cond(cd))
			}
			then := []actions.Action{}
			for _, a := range t.Then {
				then = append(then, c12Action(a))
			}
			terms = append(terms, filter.NewTerm(t.Name, from, then))
		}
		out = append(out, filter.NewFilter(f.Name, terms))
	}
	return out
}

// c12FillBGP copies the attribute values of the model into b (a BGPPath whose
// BGPPathA exists), the way processAttributes fills a freshly received path.
func c12FillBGP(b *route.BGPPath, p kit.PolPath) {
	a := b.BGPPathA
	a.NextHop = c12IP(p.NextHop).Ptr()
	a.LocalPref, a.MED, a.Origin = p.LocalPref, p.MED, p.Origin
	a.OriginatorID, a.AtomicAggregate, a.OnlyToCustomer = p.OriginatorID, p.AtomicAggregate, p.OTC
	if p.HasAggregator {
		a.Aggregator = &types.Aggregator{Address: p.AggAddr, ASN: p.AggASN}
	}
	ap := types.ASPath{}
	for _, s := range p.ASPath {
		seg := types.ASPathSegment{Type: types.ASSequence, ASNs: append([]uint32{}, s.ASNs...)}
		if s.Set {
			seg.Type = types.ASSet
		}
		ap = append(ap, seg)
	}
	b.ASPath = &ap
	b.ASPathLen = b.ASPath.Length()
	if p.HasClusterList {
		cl := types.ClusterList(append([]uint32{}, p.ClusterList...))
		b.ClusterList = &cl
	}
	if p.HasCommunities {
		cm := types.Communities(append([]uint32{}, p.Communities...))
		b.Communities = &cm
	}
	if p.HasLarge {
		lc := types.LargeCommunities{}
		for _, l := range p.Large {
			lc = append(lc, types.LargeCommunity{GlobalAdministrator: l.G, DataPart1: l.D1, DataPart2: l.D2})
		}
		b.LargeCommunities = &lc
	}
	for _, u := range p.Unknown {
		b.UnknownAttributes = append(b.UnknownAttributes, types.UnknownPathAttribute{
			Optional: u.Optional, Transitive: u.Transitive, Partial: u.Partial, TypeCode: u.Code, Value: append([]byte{}, u.Value...)})
	}
}

// c12FromPath takes a deep value snapshot of r.
func c12FromPath(r *route.Path) kit.PolPath {
	p := kit.PolPath{Type: r.Type, RedistributedFrom: r.RedistributedFrom, HiddenReason: r.HiddenReason, LTime: r.LTime}
	// A redistributed path (Type BGP, RedistributedFrom static) still drags the StaticPath of its origin along;
	// that is not part of the advertised form (two static routes differing only in their next hop are advertised
	// identically with next-hop-self), so it is only rendered for paths that ARE static paths.
	if r.StaticPath != nil && r.Type == route.StaticPathType {
		p.HasStatic = true
		p.StaticNH = c12Bits(r.StaticPath.NextHop)
	}
	if b := r.BGPPath; b != nil {
		p.HasBGP = true
		if a := b.BGPPathA; a != nil {
			p.NextHop, p.Source = c12Bits(a.NextHop), c12Bits(a.Source)
			p.LocalPref, p.MED, p.BGPIdentifier, p.OriginatorID, p.OTC = a.LocalPref, a.MED, a.BGPIdentifier, a.OriginatorID, a.OnlyToCustomer
			p.EBGP, p.AtomicAggregate, p.Origin = a.EBGP, a.AtomicAggregate, a.Origin
			if a.Aggregator != nil {
				p.HasAggregator, p.AggAddr, p.AggASN = true, a.Aggregator.Address, a.Aggregator.ASN
			}
		}
		if b.ASPath == nil {
			p.ASPathNil = true
		} else {
			for _, s := range *b.ASPath {
				p.ASPath = append(p.ASPath, kit.PolSeg{Set: s.Type == types.ASSet, ASNs: append([]uint32{}, s.ASNs...)})
			}
		}
		p.ASPathLen = b.ASPathLen
		if b.ClusterList != nil {
			p.HasClusterList = true
			p.ClusterList = append([]uint32{}, *b.ClusterList...)
		}
		if b.Communities != nil {
			p.HasCommunities = true
			p.Communities = append([]uint32{}, *b.Communities...)
		}
		if b.LargeCommunities != nil {
			p.HasLarge = true
			for _, l := range *b.LargeCommunities {
				p.Large = append(p.Large, kit.PolLC{G: l.GlobalAdministrator, D1: l.DataPart1, D2: l.DataPart2})
			}
		}
		for _, u := range b.UnknownAttributes {
			p.Unknown = append(p.Unknown, kit.PolUnknown{Optional: u.Optional, Transitive: u.Transitive, Partial: u.Partial, Code: u.TypeCode, Value: append([]byte{}, u.Value...)})
		}
		p.PathID = b.PathIdentifier
		p.BMPPostPolicy = b.BMPPostPolicy
	}
	return p
}

// ---------------------------------------------------------------------------
// session rig

const (
	c12LocalASN  = 65100
	c12RemoteASN = 65200
	c12RouterID  = 100
	c12ClusterID = 4242
	c12LTime     = 1000
)

const (
	c12EBGP = iota
	c12IBGP
	c12IBGPRRClient
	c12EBGPRSClient
)

var c12KindName = []string{"ebgp", "ibgp", "ibgp-rr-client", "ebgp-rs-client"}

type c12Session struct {
	w    int // 32 / 128: address family of the session's RIBs
	kind int
	// addPath: 0 = best path only, N > 1 = add-path send with up to N paths per prefix
	addPath int
	// dual: the neighbour has the other address family configured too, with chains of its own (0 = the same as
	// the session's family, 1 = accept all, 2 = reject all); a replacement goes to both families
	dual               bool
	otherImp, otherExp int
}

func (s c12Session) peerAddr() kit.Bits {
	if s.w == 32 {
		return kit.V4(0xc0000202, 32) // 192.0.2.2
	}
	return kit.V6(0x20010db8000000ff, 2, 128)
}

func (s c12Session) localAddr() kit.Bits {
	if s.w == 32 {
		return kit.V4(0xc0000201, 32)
	}
	return kit.V6(0x20010db8000000ff, 1, 128)
}

func (s c12Session) otherAddr(i int) kit.Bits {
	if s.w == 32 {
		return kit.V4(0xc6336400+uint32(10+i), 32) // 198.51.100.x
	}
	return kit.V6(0x20010db8000000fe, uint64(10+i), 128)
}

func (s c12Session) ebgp() bool { return s.kind == c12EBGP || s.kind == c12EBGPRSClient }

type c12Rig struct {
	sess   c12Session
	srv    *bgpServer
	vrf    *vrf.VRF
	peerIP *bnet.IP
	rib    *locRIB.LocRIB
	f      *fsmAddressFamily
	g      *fsmAddressFamily // the other address family of a dual-stack neighbour (nil otherwise)
	ribO   *locRIB.LocRIB
	// paths this harness put into the LocRIB on behalf of other sources (an
	// AdjRIBIn replaces the path of a prefix, it never adds a second one)
	others map[string]*route.Path
}

// c12NewRig builds a real peer/FSM for the session and brings its address
// family up exactly as establishedState does (fsmAddressFamily.init()).
// c12OtherChain: the chain the other family starts with.
func c12OtherChain(mode int, same filter.Chain) filter.Chain {
	switch mode {
	case 1:
		return filter.NewAcceptAllFilterChain()
	case 2:
		return filter.NewDrainFilterChain()
	}
	return same
}

func c12NewRig(s c12Session, imp, exp filter.Chain) *c12Rig {
	return c12NewRigDual(s, imp, exp, c12OtherChain(s.otherImp, imp), c12OtherChain(s.otherExp, exp))
}

func c12NewRigDual(s c12Session, imp, exp, oImp, oExp filter.Chain) *c12Rig {
	v := vrf.NewUntrackedVRF("c12", 0)
	rib := locRIB.New("c12")
	dlp := uint32(100)
	srv := &bgpServer{peers: newPeerManager()}
	srv.config.RouterID = c12RouterID
	srv.config.DefaultLocalPreference = &dlp
	p := &peer{
		server:          srv,
		addr:            c12IP(s.peerAddr()).Dedup(),
		localAddr:       c12IP(s.localAddr()).Dedup(),
		routerID:        c12RouterID,
		localASN:        c12LocalASN,
		peerASN:         c12RemoteASN,
		clusterID:       c12ClusterID,
		vrf:             v,
		adjRIBInFactory: adjRIBInFactory{},
	}
	switch s.kind {
	case c12IBGP:
		p.peerASN = c12LocalASN
	case c12IBGPRRClient:
		p.peerASN = c12LocalASN
		p.routeReflectorClient = true
	case c12EBGPRSClient:
		p.routeServerClient = true
	}
	paf := &peerAddressFamily{
		rib:               rib,
		importFilterChain: imp,
		exportFilterChain: exp,
		addPathSend:       routingtable.ClientOptions{BestOnly: true},
	}
	if s.w == 32 {
		p.ipv4 = paf
	} else {
		p.ipv6 = paf
	}
	var ribO *locRIB.LocRIB
	if s.dual {
		ribO = locRIB.New("c12other")
		pafO := &peerAddressFamily{rib: ribO, importFilterChain: oImp, exportFilterChain: oExp, addPathSend: routingtable.ClientOptions{BestOnly: true}}
		if s.w == 32 {
			p.ipv6 = pafO
		} else {
			p.ipv4 = pafO
		}
	}
	fsm := newFSM(p)
	fsm.con = c12Conn{}
	fsm.supports4OctetASN = true
	p.fsms = []*FSM{fsm}
	srv.peers.add(p)
	f := fsm.ipv4Unicast
	if s.w == 128 {
		f = fsm.ipv6Unicast
		f.multiProtocol = true
	}
	if s.addPath > 0 {
		// what openSentState.processAddPathCapability leaves behind when both sides agreed on add-path send
		f.addPathTX = routingtable.ClientOptions{MaxPaths: uint(s.addPath)}
	}
	f.init()
	// The update sender only turns Adj-RIB-Out changes into messages; its ticker
	// goroutine is not needed (and must not outlive the case).
	f.updateSender.Destroy()
	r := &c12Rig{sess: s, srv: srv, vrf: v, peerIP: p.addr, rib: rib, f: f, others: map[string]*route.Path{}}
	if s.dual {
		g := fsm.ipv6Unicast
		if s.w == 128 {
			g = fsm.ipv4Unicast
		} else {
			g.multiProtocol = true
		}
		g.init()
		g.updateSender.Destroy()
		r.g, r.ribO = g, ribO
		r.loadOther()
	}
	return r
}

// loadOther puts two fixed routes into the other family's tables: one received from the neighbour, one static.
func (r *c12Rig) loadOther() {
	var pfxR, pfxS *bnet.Prefix
	var nh bnet.IP
	if r.sess.w == 32 { // the other family is IPv6
		pfxR = bnet.NewPfx(bnet.IPv6(0x20010db800010000, 0), 48).Ptr()
		pfxS = bnet.NewPfx(bnet.IPv6(0x20010db800020000, 0), 48).Ptr()
		nh = bnet.IPv6(0x20010db8000000ff, 2)
	} else {
		pfxR = bnet.NewPfx(bnet.IPv4FromOctets(10, 99, 0, 0), 16).Ptr()
		pfxS = bnet.NewPfx(bnet.IPv4FromOctets(10, 98, 0, 0), 16).Ptr()
		nh = bnet.IPv4FromOctets(192, 0, 2, 2)
	}
	path := r.g.newRoutePath(false, c12LTime)
	path.BGPPath.BGPPathA.NextHop = nh.Ptr()
	path.BGPPath.BGPPathA.LocalPref = 100
	asn := uint32(c12RemoteASN)
	if !r.sess.ebgp() {
		asn = 64999
	}
	path.BGPPath.ASPath = types.NewASPath([]uint32{asn})
	path.BGPPath.ASPathLen = path.BGPPath.ASPath.Length()
	r.g.adjRIBIn.AddPath(pfxR, path)
	r.ribO.AddPath(pfxS, &route.Path{Type: route.StaticPathType, LTime: c12LTime, StaticPath: &route.StaticPath{NextHop: nh.Ptr()}})
}

// c12Op is one step of the history.
type c12Op struct {
	kind string // "recv" (UPDATE from the session's peer), "other" (LocRIB path of another source), "static", "withdraw", "replace-import", "replace-export"
	pfx  kit.Bits
	path kit.PolPath // attribute values
	src  int         // index of the other source
	pol  int         // index into the policy list
	// "bounce": the session leaves Established (fsmAddressFamily.dispose()), the import (imp) or export (!imp)
	// policy is replaced with pol while it is down, and it establishes again (init())
	imp bool
}

func (r *c12Rig) apply(op c12Op, pols []filter.Chain) {
	switch op.kind {
	case "recv":
		path := r.f.newRoutePath(false, c12LTime)
		c12FillBGP(path.BGPPath, op.path)
		r.f.adjRIBIn.AddPath(c12Pfx(op.pfx), path)
	case "withdraw":
		// the attribute-less path fsmAddressFamily.withdraws() uses
		r.f.adjRIBIn.RemovePath(c12Pfx(op.pfx), &route.Path{LTime: c12LTime, BGPPath: &route.BGPPath{}})
	case "other":
		path := &route.Path{Type: route.BGPPathType, LTime: c12LTime, BGPPath: &route.BGPPath{BGPPathA: &route.BGPPathA{
			Source: c12IP(r.sess.otherAddr(op.src)).Ptr(), EBGP: op.path.EBGP, BGPIdentifier: op.path.BGPIdentifier}}}
		c12FillBGP(path.BGPPath, op.path)
		k := fmt.Sprintf("other%d|%s", op.src, op.pfx.Key())
		if old := r.others[k]; old != nil {
			r.rib.RemovePath(c12Pfx(op.pfx), old)
		}
		r.others[k] = path
		r.rib.AddPath(c12Pfx(op.pfx), path)
	case "static":
		k := "static|" + op.pfx.Key() + "|" + op.path.StaticNH.String()
		if r.others[k] != nil {
			return
		}
		path := &route.Path{Type: route.StaticPathType, LTime: c12LTime, StaticPath: &route.StaticPath{NextHop: c12IP(op.path.StaticNH).Ptr()}}
		r.others[k] = path
		r.rib.AddPath(c12Pfx(op.pfx), path)
	case "replace-import":
		if err := r.srv.ReplaceImportFilterChain(r.vrf, r.peerIP, pols[op.pol]); err != nil {
			panic(err)
		}
	case "replace-export":
		if err := r.srv.ReplaceExportFilterChain(r.vrf, r.peerIP, pols[op.pol]); err != nil {
			panic(err)
		}
	case "bounce":
		us := r.f.updateSender
		go func() { <-us.destroyCh }() // the sender's goroutine was stopped in c12NewRig; dispose() stops it again
		r.f.dispose()
		if r.g != nil {
			usg := r.g.updateSender
			go func() { <-usg.destroyCh }()
			r.g.dispose()
		}
		if op.pol >= 0 {
			var err error
			if op.imp {
				err = r.srv.ReplaceImportFilterChain(r.vrf, r.peerIP, pols[op.pol])
			} else {
				err = r.srv.ReplaceExportFilterChain(r.vrf, r.peerIP, pols[op.pol])
			}
			if err != nil {
				panic(err)
			}
		}
		r.f.init()
		r.f.updateSender.Destroy()
		if r.g != nil {
			r.g.init()
			r.g.updateSender.Destroy()
			r.loadOther() // the neighbour announces its routes again
		}
	}
}

func c12DumpTable(routes []*route.Route) []string {
	var out []string
	for _, r := range routes {
		pb := c12PfxBits(r.Prefix())
		for _, p := range r.Paths() {
			out = append(out, fmt.Sprintf("%v | %s", pb, c12FromPath(p).Render(false)))
		}
	}
	sort.Strings(out)
	return out
}

func c12Diff(a, b []string) string {
	count := map[string]int{}
	for _, x := range a {
		count[x]++
	}
	for _, x := range b {
		count[x]--
	}
	var keys []string
	for k, n := range count {
		if n != 0 {
			keys = append(keys, k)
		}
	}
	sort.Strings(keys)
	var sb strings.Builder
	for _, k := range keys {
		if count[k] > 0 {
			fmt.Fprintf(&sb, "    only after replacement (A) x%d: %s\n", count[k], k)
		} else {
			fmt.Fprintf(&sb, "    only in fresh session  (B) x%d: %s\n", -count[k], k)
		}
	}
	return sb.String()
}

// ---------------------------------------------------------------------------

const c12Rule = "session (IPv4 or IPv6 family; eBGP / iBGP / iBGP RR client / eBGP RS client; best path only or add-path send 2..3, on best-only sessions some routes carry NO_EXPORT / NO_ADVERTISE) with generated import and export policies from the C14 grammar; history = routes received from the peer (eligible announcements, prefixes related to the policies' patterns), LocRIB paths of other sources and static routes, withdrawals, and 1-3 policy replacements (import and/or export; new policy = one-parameter mutation of the current one, an independent policy, or a copy) through bgpServer.ReplaceImportFilterChain/ReplaceExportFilterChain, with more route changes between replacements; 1 in 4 replacements happens while the session is down (dispose, replace, init, routes announced again afterwards). Rig B is a fresh session with the final policies and the same route history. Compared: LocRIB.Dump and AdjRIBOut.Dump as multisets of (prefix, path value) without path ids. Non-trivial: a replaced policy and its successor treat at least one route that is stored at replacement time differently, or a policy replaced while the session is down differs from its predecessor."

type c12Plan struct {
	sess   c12Session
	mpols  []kit.PolChain // policy list (models)
	descs  []string
	ops    []c12Op
	impIdx int // initial import policy
	expIdx int // initial export policy
	finImp int
	finExp int
}

func c12GenRecv(t *rapid.T, s c12Session, label string) kit.PolPath {
	p := kit.GenPolBGPPath(t, s.w, label)
	// eligible by construction: no own ASN / cluster id / router id, eBGP AS path non-empty, no OTC (roles off)
	p.OTC = 0
	if p.OriginatorID == c12RouterID {
		p.OriginatorID = 0
	}
	for i := range p.ClusterList {
		if p.ClusterList[i] == c12ClusterID {
			p.ClusterList[i] = 1
		}
	}
	if s.ebgp() {
		p.HasClusterList, p.ClusterList, p.OriginatorID = false, nil, 0
		if len(p.ASPath) == 0 || len(p.ASPath[0].ASNs) == 0 {
			p.ASPath = append([]kit.PolSeg{{ASNs: []uint32{c12RemoteASN}}}, p.ASPath...)
		}
		if rapid.IntRange(0, 2).Draw(t, label+"_lp0") > 0 {
			p.LocalPref = 0 // LOCAL_PREF is normally absent on eBGP: default local preference applies
		}
	}
	p.ASPathLen = kit.PolASPathLen(p.ASPath)
	return p
}

func c12GenPlan(t *rapid.T) c12Plan {
	var pl c12Plan
	pl.sess = c12Session{w: kit.GenFamily(t), kind: rapid.IntRange(0, 3).Draw(t, "kind"), addPath: rapid.SampledFrom([]int{0, 0, 0, 2, 3}).Draw(t, "addpath")}
	if rapid.IntRange(0, 2).Draw(t, "dual_stack") == 0 {
		pl.sess.dual = true
		pl.sess.otherImp = rapid.IntRange(0, 2).Draw(t, "other_import")
		pl.sess.otherExp = rapid.IntRange(0, 2).Draw(t, "other_export")
	}
	g := kit.NewPolGen(t) // both families in the policies; routes are of the session's family
	g.NH = []kit.Bits{pl.sess.otherAddr(50), pl.sess.otherAddr(51)}
	addPol := func(c kit.PolChain, d string) int {
		pl.mpols = append(pl.mpols, c)
		pl.descs = append(pl.descs, d)
		return len(pl.mpols) - 1
	}
	genPol := func(label string) kit.PolChain {
		switch rapid.IntRange(0, 5).Draw(t, label+"_shape") {
		case 0:
			return kit.PolChain{{Name: "ACCEPT_ALL", Terms: []kit.PolTerm{{Name: "a", Then: []kit.PolAction{{Kind: kit.PolAccept}}}}}}
		default:
			return g.GenChain(t, label)
		}
	}
	pl.impIdx = addPol(genPol("imp"), "initial import")
	pl.expIdx = addPol(genPol("exp"), "initial export")
	curImp, curExp := pl.impIdx, pl.expIdx

	pats := func() []kit.Bits {
		var out []kit.Bits
		for _, c := range pl.mpols {
			for _, p := range c.Patterns() {
				if p.W == pl.sess.w {
					out = append(out, p)
				}
			}
		}
		return out
	}
	var used []kit.Bits
	// With add-path send, a path the propagation rules exclude (learned from this very peer, NO_EXPORT,
	// NO_ADVERTISE) makes AdjRIBOut.AddPath withdraw the other advertised paths of its prefix (known finding
	// C08/addpath-wipe-on-unexportable), which a later policy refresh undoes — the two rigs would then differ
	// because of that finding, not because of the replacement. On add-path sessions prefixes received from the
	// peer and prefixes of other sources are therefore kept disjoint and no well-known communities are used.
	class := map[string]string{}
	genPfxRaw := func(label string) kit.Bits {
		if len(used) > 0 && rapid.IntRange(0, 3).Draw(t, label+"_again") == 0 {
			return rapid.SampledFrom(used).Draw(t, label+"_pick")
		}
		for tries := 0; ; tries++ {
			p := g.GenInputPrefix(t, pats(), label)
			if p.W == pl.sess.w {
				return p
			}
			if tries > 4 {
				return kit.GenPrefix(t, pl.sess.w, label+"_f")
			}
		}
	}
	genPfxOK := func(label, cls string) (kit.Bits, bool) {
		for tries := 0; tries < 6; tries++ {
			p := genPfxRaw(fmt.Sprintf("%s_%d", label, tries))
			if pl.sess.addPath > 0 {
				if c, ok := class[p.Key()]; ok && c != cls {
					continue
				}
				class[p.Key()] = cls
			}
			used = append(used, p)
			return p, true
		}
		return kit.Bits{}, false
	}
	wellKnown := func(p *kit.PolPath, label string) {
		if pl.sess.addPath == 0 && rapid.IntRange(0, 4).Draw(t, label+"_wk") == 0 {
			p.HasCommunities = true
			p.Communities = append(p.Communities, rapid.SampledFrom([]uint32{0xFFFFFF01, 0xFFFFFF02}).Draw(t, label+"_wkc")) // NO_EXPORT, NO_ADVERTISE
		}
	}
	genRoutes := func(label string, n int) {
		for i := 0; i < n; i++ {
			l := fmt.Sprintf("%s%d", label, i)
			switch rapid.SampledFrom([]string{"recv", "recv", "recv", "recv", "other", "other", "static", "withdraw"}).Draw(t, l+"_op") {
			case "recv":
				if pfx, ok := genPfxOK(l, "recv"); ok {
					p := c12GenRecv(t, pl.sess, l)
					wellKnown(&p, l)
					pl.ops = append(pl.ops, c12Op{kind: "recv", pfx: pfx, path: p})
				}
			case "other":
				p := kit.GenPolBGPPath(t, pl.sess.w, l)
				p.OTC = 0
				wellKnown(&p, l)
				if pfx, ok := genPfxOK(l, "other"); ok {
					pl.ops = append(pl.ops, c12Op{kind: "other", pfx: pfx, path: p, src: rapid.IntRange(0, 1).Draw(t, l+"_src")})
				}
			case "static":
				if pfx, ok := genPfxOK(l, "other"); ok {
					pl.ops = append(pl.ops, c12Op{kind: "static", pfx: pfx, path: kit.GenPolStaticPath(t, pl.sess.w, l)})
				}
			case "withdraw":
				if len(used) > 0 {
					pl.ops = append(pl.ops, c12Op{kind: "withdraw", pfx: rapid.SampledFrom(used).Draw(t, l+"_wd")})
				}
			}
		}
	}
	genRoutes("r", rapid.IntRange(1, 6).Draw(t, "nroutes"))
	nrep := rapid.SampledFrom([]int{1, 1, 1, 2, 3}).Draw(t, "nrep")
	for k := 0; k < nrep; k++ {
		l := fmt.Sprintf("rep%d", k)
		imp := rapid.Bool().Draw(t, l+"_import")
		cur := curExp
		if imp {
			cur = curImp
		}
		var np kit.PolChain
		var d string
		switch rapid.IntRange(0, 9).Draw(t, l+"_how") {
		case 0:
			np, d = pl.mpols[cur].Clone(), "copy"
		case 1, 2:
			np, d = genPol(l+"_new"), "independent policy"
		default:
			np, d = g.Mutate(t, pl.mpols[cur], l+"_mut")
		}
		idx := addPol(np, fmt.Sprintf("replaces #%d: %s", cur, d))
		down := rapid.IntRange(0, 3).Draw(t, l+"_while_down") == 0
		switch {
		case down:
			pl.ops = append(pl.ops, c12Op{kind: "bounce", pol: idx, imp: imp})
		case imp:
			pl.ops = append(pl.ops, c12Op{kind: "replace-import", pol: idx})
		default:
			pl.ops = append(pl.ops, c12Op{kind: "replace-export", pol: idx})
		}
		if imp {
			curImp = idx
		} else {
			curExp = idx
		}
		if down && rapid.Bool().Draw(t, l+"_then_routes") {
			genRoutes(l+"d", rapid.IntRange(1, 3).Draw(t, l+"_ndown"))
		}
		if k+1 < nrep || rapid.IntRange(0, 3).Draw(t, l+"_more") == 0 {
			genRoutes(l+"r", rapid.IntRange(0, 3).Draw(t, l+"_nmore"))
		}
	}
	pl.finImp, pl.finExp = curImp, curExp
	return pl
}

// c12Signature of known findings (see /verif/known_findings.txt); empty when
// the failing case is none of them.
func c12Check(t *rapid.T, c *kit.Case, rec *kit.Recorder) {
	biolog.SetLogger(c12NullLog{})
	if route.StaticPathType != kit.PolTypeStatic || route.BGPPathType != kit.PolTypeBGP || packet.AFIIPv4 != 1 {
		t.Fatalf("harness: constants changed")
	}
	pl := c12GenPlan(t)
	b := c12NewBuilder()
	pols := make([]filter.Chain, len(pl.mpols))
	for i, m := range pl.mpols {
		pols[i] = b.chain(m)
	}
	c.Logf("session: family=%d kind=%s addpath-send=%d dual-stack=%v (other family starts with import mode %d, export mode %d; 0 = same chain, 1 = accept all, 2 = reject all)", pl.sess.w, c12KindName[pl.sess.kind], pl.sess.addPath, pl.sess.dual, pl.sess.otherImp, pl.sess.otherExp)
	c.ClassIf(pl.sess.addPath > 0, "addpath_send")
	for i, m := range pl.mpols {
		c.Logf("policy #%d (%s):\n%v", i, pl.descs[i], m)
	}
	c.Class("kind=" + c12KindName[pl.sess.kind])
	c.ClassIf(pl.sess.w == 128, "v6")

	// model of what is stored at each replacement (for the non-triviality rule and classes)
	stored := map[string]kit.PolPath{} // "recv|pfx", "other<i>|pfx", "static|pfx"
	storedPfx := map[string]kit.Bits{}
	curImp, curExp := pl.impIdx, pl.expIdx
	for i, op := range pl.ops {
		switch op.kind {
		case "recv":
			p := op.path
			p.Source, p.EBGP = pl.sess.peerAddr(), pl.sess.ebgp()
			stored["recv|"+op.pfx.Key()], storedPfx["recv|"+op.pfx.Key()] = p, op.pfx
			c.Logf("op %d: recv %v %s", i, op.pfx, op.path.Render(false))
		case "withdraw":
			delete(stored, "recv|"+op.pfx.Key())
			c.Logf("op %d: withdraw %v", i, op.pfx)
		case "other":
			k := fmt.Sprintf("other%d|%s", op.src, op.pfx.Key())
			stored[k], storedPfx[k] = op.path, op.pfx
			c.Logf("op %d: other source %d %v %s", i, op.src, op.pfx, op.path.Render(false))
		case "static":
			k := "static|" + op.pfx.Key() + "|" + op.path.StaticNH.String()
			stored[k], storedPfx[k] = op.path, op.pfx
			c.Logf("op %d: static %v nh=%v", i, op.pfx, op.path.StaticNH)
		case "bounce":
			c.Logf("op %d: session goes down, %s policy replaced with #%d (%s) while it is down, session establishes again", i, map[bool]string{true: "import", false: "export"}[op.imp], op.pol, pl.descs[op.pol])
			for k := range stored {
				if strings.HasPrefix(k, "recv|") {
					delete(stored, k)
				}
			}
			old := curExp
			if op.imp {
				old, curImp = curImp, op.pol
			} else {
				curExp = op.pol
			}
			c.Class("replaced_while_session_down")
			c.NonTrivialIf(!pols[old].Equal(pols[op.pol]))
		case "replace-import", "replace-export":
			c.Logf("op %d: %s with policy #%d (%s)", i, op.kind, op.pol, pl.descs[op.pol])
			old := curExp
			if op.kind == "replace-import" {
				old = curImp
			}
			differ := false
			for k, p := range stored {
				if op.kind == "replace-import" && !strings.HasPrefix(k, "recv|") {
					continue
				}
				o1, r1, _ := kit.PolEval(pl.mpols[old], storedPfx[k], p)
				o2, r2, _ := kit.PolEval(pl.mpols[op.pol], storedPfx[k], p)
				if r1 != r2 || (!r1 && o1.Render(false) != o2.Render(false)) {
					differ = true
					c.ClassIf(r1 && !r2, op.kind+":reject->accept")
					c.ClassIf(!r1 && r2, op.kind+":accept->reject")
					c.ClassIf(!r1 && !r2, op.kind+":rewrite-changed")
				}
			}
			c.NonTrivialIf(differ)
			c.ClassIf(differ, op.kind+":differs")
			c.ClassIf(!differ, op.kind+":same-treatment")
			c.ClassIf(pols[old].Equal(pols[op.pol]), "chains-compare-equal")
			if op.kind == "replace-import" {
				curImp = op.pol
			} else {
				curExp = op.pol
			}
		}
	}

	a := c12NewRig(pl.sess, pols[pl.impIdx], pols[pl.expIdx])
	for _, op := range pl.ops {
		a.apply(op, pols)
	}
	// fresh session with the final policies: a family's chain of a kind is the new one iff that kind was replaced
	oImp, oExp := c12OtherChain(pl.sess.otherImp, pols[pl.impIdx]), c12OtherChain(pl.sess.otherExp, pols[pl.expIdx])
	for _, op := range pl.ops {
		if op.kind == "replace-import" || (op.kind == "bounce" && op.imp) {
			oImp = pols[pl.finImp]
		}
		if op.kind == "replace-export" || (op.kind == "bounce" && !op.imp) {
			oExp = pols[pl.finExp]
		}
	}
	bb := c12NewRigDual(pl.sess, pols[pl.finImp], pols[pl.finExp], oImp, oExp)
	for _, op := range pl.ops {
		if op.kind == "replace-import" || op.kind == "replace-export" {
			continue
		}
		if op.kind == "bounce" {
			op.pol = -1 // the same session history, without the replacement
		}
		bb.apply(op, pols)
	}
	la, lb := c12DumpTable(a.rib.Dump()), c12DumpTable(bb.rib.Dump())
	oa, ob := c12DumpTable(a.f.adjRIBOut.Dump()), c12DumpTable(bb.f.adjRIBOut.Dump())
	c.ClassIf(len(lb) > 0, "locrib_nonempty")
	c.ClassIf(len(ob) > 0, "adjribout_nonempty")
	if d := c12Diff(la, lb); d != "" {
		t.Fatalf("C12/locrib: Loc-RIB after replacing the policies differs from a fresh session with the final policies (import #%d, export #%d)\n%s\ncase:\n%s", pl.finImp, pl.finExp, d, c.String())
	}
	if pl.sess.dual {
		c.Class("dual_stack")
		c.ClassIf(pl.sess.otherImp != 0 || pl.sess.otherExp != 0, "dual_stack_chains_differ")
		if d := c12Diff(c12DumpTable(a.ribO.Dump()), c12DumpTable(bb.ribO.Dump())); d != "" {
			t.Fatalf("C12/locrib-other-family: Loc-RIB of the neighbour's other address family after replacing the policies differs from a fresh session with the final policies\n%s\ncase:\n%s", d, c.String())
		}
		if d := c12Diff(c12DumpTable(a.g.adjRIBOut.Dump()), c12DumpTable(bb.g.adjRIBOut.Dump())); d != "" {
			t.Fatalf("C12/adjribout-other-family: Adj-RIB-Out of the neighbour's other address family after replacing the policies differs from a fresh session with the final policies\n%s\ncase:\n%s", d, c.String())
		}
	}
	if d := c12Diff(oa, ob); d != "" {
		t.Fatalf("C12/adjribout: Adj-RIB-Out after replacing the policies differs from a fresh session with the final policies (import #%d, export #%d)\n%s\ncase:\n%s", pl.finImp, pl.finExp, d, c.String())
	}
}

func TestVerifC12Replace(t *testing.T) {
	rec := kit.NewRecorder(t, "C12", c12Rule)
	rapid.Check(t, func(t *rapid.T) {
		c := rec.Case()
		defer c.Done()
		c12Check(t, c, rec)
	})
}

//go:build verif

package server

// C10 — the peer's view equals the Adj-RIB-Out under any timing.
//
// Controlled mode: a generated history of Adj-RIB-Out add / remove / replace
// calls (issued exactly as the Loc-RIB issues them to its client) is
// interleaved with flush steps chosen by the generator. A flush step is the
// loop body of UpdateSender.sender for ONE queue entry picked from the sorted
// key list, so the order in which queue entries leave is decided by rapid, not
// by Go's map iteration. Ticker mode: the real sender goroutine runs with a
// 1 ms ticker while the history is applied with generated pauses.
//
// Oracle: every byte the session wrote is parsed by the kit's reference parser
// with the options the peer negotiated and replayed into a table keyed
// (prefix, path id) — announcement = insert/replace, withdrawal = delete.
// Whenever the queue is empty (after a full flush, and at the end) the table
// must equal AdjRIBOut.Dump() by key and by the attributes on the wire.

import (
	"fmt"
	"sync"
	"testing"
	"time"

	bnet "github.com/bio-routing/bio-rd/net"
	"github.com/bio-routing/bio-rd/protocols/bgp/types"
	"github.com/bio-routing/bio-rd/route"
	"pgregory.net/rapid"
	kit "verifkit"
)

const c10Rule = "case = session (IPv4 / MP-IPv6 / MP-IPv4 x iBGP / RR-client / eBGP / RS-client x add-path x 4-octet ASN) + history of <=40 Adj-RIB-Out AddPath/RemovePath calls (add, remove, Loc-RIB style replace = remove old + add new, direct replace = add over a stored path, additional add-path paths) over 2-4 related prefixes and 2-4 attribute sets (some differing only in ATOMIC_AGGREGATE / AGGREGATOR / an unknown attribute; on add-path sessions some differing only in the next hop, which next-hop-self sessions advertise in one form under one path identifier), interleaved with flush steps: one queue entry chosen from the sorted key list, or all (controlled mode), or real 1 ms ticker with generated pauses (ticker mode). Non-trivial: a remove or replace hit a prefix whose announcement was still queued."

// C08's removePath defect (Adj-RIB-Out looks the path up / hands it to its
// clients in the un-rewritten Loc-RIB form) makes Dump() itself stale for
// sessions that rewrite attributes. It belongs to C08; here such session
// kinds are used only when a deterministic probe shows that a plain
// add-then-remove leaves the Adj-RIB-Out empty.
const c10SigRewriteRemove = "C08/remove-unrewritten-path"

var (
	c10ProbeMu  sync.Mutex
	c10ProbeRes = map[string]bool{}
)

func c10RemoveWorks(s c10Sess) bool {
	key := fmt.Sprintf("%d/%d/%v", s.fam, s.kind, s.addPath)
	c10ProbeMu.Lock()
	defer c10ProbeMu.Unlock()
	if v, ok := c10ProbeRes[key]; ok {
		return v
	}
	r := c10NewRig(s)
	a := c10Attrs{src: 10, nh: 20, ebgp: true, localPref: 100, segs: []types.ASPathSegment{{Type: types.ASSequence, ASNs: []uint32{64500}}}}
	pfx := c10Pfx(c10ProbePrefix(s))
	p := a.path(s)
	r.rib.AddPath(pfx, p)
	r.rib.RemovePath(pfx, p)
	ok := len(r.rib.Dump()) == 0
	c10ProbeRes[key] = ok
	return ok
}

func c10ProbePrefix(s c10Sess) kit.Bits {
	if s.v6() {
		return kit.V6(0x20010db8aaaa0000, 0, 48)
	}
	return kit.V4(0xcb007100, 24)
}

func c10GenSess(t *rapid.T, rec *kit.Recorder) c10Sess {
	s := c10Sess{
		fam:     rapid.SampledFrom([]int{c10FamV4, c10FamV4, c10FamV6, c10FamV6, c10FamV4MP}).Draw(t, "fam"),
		kind:    rapid.IntRange(0, 3).Draw(t, "kind"),
		addPath: rapid.IntRange(0, 2).Draw(t, "addpath") == 0,
		asn4:    rapid.IntRange(0, 3).Draw(t, "asn4") != 0,
	}
	if !c10RemoveWorks(s) {
		// fall back to the session kind of the same class (iBGP / eBGP) that does not rewrite
		rec.Excluded(c10SigRewriteRemove)
		if s.kind == c10KindRRClient {
			s.kind = c10KindIBGP
		} else {
			s.kind = c10KindRSClient
		}
	}
	return s
}

var c10ASNs = []uint32{64500, 64501, 64502, 64503, 65010, 65011}

func c10GenSmallAttrs(t *rapid.T, s c10Sess, i int) c10Attrs {
	l := fmt.Sprintf("a%d_", i)
	a := c10Attrs{
		src:       uint32(10 + rapid.IntRange(0, 2).Draw(t, l+"src")),
		nh:        uint32(20 + rapid.IntRange(0, 1).Draw(t, l+"nh")),
		ebgp:      true,
		localPref: rapid.SampledFrom([]uint32{0, 100, 200}).Draw(t, l+"lp"),
		med:       rapid.SampledFrom([]uint32{0, 0, 5}).Draw(t, l+"med"),
		origin:    uint8(rapid.IntRange(0, 2).Draw(t, l+"origin")),
	}
	if s.iBGP() && rapid.IntRange(0, 5).Draw(t, l+"ibgp_learned") == 0 {
		a.ebgp = false
	}
	nseg := rapid.IntRange(0, 2).Draw(t, l+"nseg")
	for j := 0; j < nseg; j++ {
		sg := types.ASPathSegment{Type: types.ASSequence}
		if rapid.IntRange(0, 4).Draw(t, l+"set") == 0 {
			sg.Type = types.ASSet
		}
		n := rapid.IntRange(1, 3).Draw(t, l+"nasn")
		for k := 0; k < n; k++ {
			sg.ASNs = append(sg.ASNs, rapid.SampledFrom(c10ASNs).Draw(t, l+"asn"))
		}
		a.segs = append(a.segs, sg)
	}
	for j, n := 0, rapid.IntRange(0, 2).Draw(t, l+"ncomm"); j < n; j++ {
		a.comms = append(a.comms, 64500<<16|uint32(rapid.IntRange(1, 3).Draw(t, l+"comm")))
	}
	if rapid.IntRange(0, 3).Draw(t, l+"lcomm") == 0 {
		a.lcomms = [][3]uint32{{64500, 1, uint32(rapid.IntRange(1, 2).Draw(t, l+"lc"))}}
	}
	if s.rrClient() && !a.ebgp {
		a.originator = rapid.SampledFrom([]uint32{0, 7}).Draw(t, l+"originator")
		switch rapid.IntRange(0, 3).Draw(t, l+"cluster") {
		case 1:
			a.cluster = []uint32{}
		case 2:
			a.cluster = []uint32{1}
		case 3:
			a.cluster = []uint32{1, 2}
		}
	}
	a.atomic = rapid.IntRange(0, 4).Draw(t, l+"atomic") == 0
	if !s.asn4 && rapid.IntRange(0, 4).Draw(t, l+"aggr") == 0 {
		a.aggr = &types.Aggregator{ASN: 64500, Address: 0xc0000201}
	}
	if rapid.IntRange(0, 4).Draw(t, l+"unk") == 0 {
		a.unknown = []types.UnknownPathAttribute{{Optional: true, Transitive: true, TypeCode: 200, Value: []byte{1, byte(rapid.IntRange(0, 1).Draw(t, l+"unkv"))}}}
	}
	return a
}

// c10Twin derives an attribute set that differs from a only in an attribute
// bio-rd's queue hash may not look at.
func c10Twin(t *rapid.T, s c10Sess, a c10Attrs, i int) c10Attrs {
	l := fmt.Sprintf("a%d_twin", i)
	modes := []int{0, 2, 3}
	if !s.asn4 {
		modes = append(modes, 1)
		if a.aggr != nil {
			modes = append(modes, 4, 4)
		}
	}
	switch rapid.SampledFrom(modes).Draw(t, l) {
	case 0:
		a.atomic = !a.atomic
	case 1:
		if a.aggr == nil {
			a.aggr = &types.Aggregator{ASN: 64501, Address: 0xc0000202}
		} else {
			a.aggr = nil
		}
	case 2:
		if len(a.unknown) == 0 {
			a.unknown = []types.UnknownPathAttribute{{Optional: true, Transitive: true, TypeCode: 201, Value: []byte{9}}}
		} else {
			a.unknown = nil
		}
	case 4:
		ag := *a.aggr
		ag.Address ^= 0x100
		a.aggr = &ag
	case 3:
		if a.localPref == 100 {
			a.localPref = 200
		} else {
			a.localPref = 100
		}
		if !s.iBGP() {
			a.med = a.med + 1
		}
	}
	return a
}

type c10Case struct {
	sess  c10Sess
	pfxs  []kit.Bits
	attrs []c10Attrs
}

func c10GenCase(t *rapid.T, rec *kit.Recorder, c *kit.Case) c10Case {
	cs := c10Case{sess: c10GenSess(t, rec)}
	cs.pfxs = kit.GenUniverse(t, cs.sess.width(), rapid.IntRange(2, 4).Draw(t, "npfx"), "pfx")
	// distinct prefixes only
	seen := map[kit.Bits]bool{}
	var ps []kit.Bits
	for _, p := range cs.pfxs {
		p = p.Canon()
		if !seen[p] {
			seen[p] = true
			ps = append(ps, p)
		}
	}
	cs.pfxs = ps
	n := rapid.IntRange(2, 4).Draw(t, "nattrs")
	for i := 0; i < n; i++ {
		var a c10Attrs
		if i > 0 && !cs.sess.addPath && rapid.IntRange(0, 1).Draw(t, fmt.Sprintf("a%d_derive", i)) == 0 {
			a = c10Twin(t, cs.sess, cs.attrs[rapid.IntRange(0, i-1).Draw(t, fmt.Sprintf("a%d_of", i))], i)
		} else {
			a = c10GenSmallAttrs(t, cs.sess, i)
		}
		if cs.sess.addPath {
			// additional paths of one prefix come from different neighbours (RFC 7911);
			// paths of one prefix that differ only in attributes outside the path-id hash are C11's subject
			a.src = uint32(10 + i)
			if i > 0 && rapid.IntRange(0, 2).Draw(t, fmt.Sprintf("a%d_nhtwin", i)) == 0 {
				// ... except two paths of one neighbour that differ in the next hop only: where the session
				// sets the next hop to itself both are advertised in one form under one path identifier
				// (the Adj-RIB-Out keeps both and withdraws when the last one goes)
				a = cs.attrs[rapid.IntRange(0, i-1).Draw(t, fmt.Sprintf("a%d_nhtwin_of", i))]
				a.nh ^= 1
				c.Class("addpath_next_hop_twin")
			}
		}
		cs.attrs = append(cs.attrs, a)
	}
	c.Logf("session %v", cs.sess)
	for i, p := range cs.pfxs {
		c.Logf("prefix %d = %v", i, p)
	}
	for i, a := range cs.attrs {
		c.Logf("attrs %d = %v", i, a)
	}
	c.Class(fmt.Sprintf("sess_%s_%s", []string{"v4", "v6mp", "v4mp"}[cs.sess.fam], []string{"ibgp", "rrclient", "ebgp", "rsclient"}[cs.sess.kind]))
	c.ClassIf(cs.sess.addPath, "addpath")
	return cs
}

// c10Run applies a generated history. flushStep is called for the generator's
// flush decisions (nil in ticker mode, where pause() is used instead).
type c10Driver struct {
	t       *rapid.T
	c       *kit.Case
	cs      c10Case
	rig     *c10Rig
	peer    *c10Peer
	bpfx    []*bnet.Prefix
	present []map[int]*route.Path // per prefix: attribute set index -> the Loc-RIB path object announced to the Adj-RIB-Out
	ticker  bool
}

func (d *c10Driver) drain() {
	if d.ticker {
		return // bytes are judged at the end only; the sender goroutine is writing concurrently
	}
	if msg := d.peer.consume(d.rig.conn.TakeWritten(), nil); msg != "" {
		d.t.Fatalf("C10 %v: %s", d.cs.sess, msg)
	}
}

func (d *c10Driver) compare(when string) {
	want, dup := c10Expected(d.rig)
	if dup != "" {
		// two stored paths of one prefix share a path identifier: the peer cannot hold both (C11)
		d.c.Class("dup_path_id")
		return
	}
	if diff := c10Diff(d.peer.table, want); diff != "" {
		d.t.Fatalf("C10 %s: peer view differs from AdjRIBOut.Dump() on session %v\n%s\nsender log: %v", when, d.cs.sess, diff, c10Log.take())
	}
}

func (d *c10Driver) pause() {
	switch rapid.IntRange(0, 5).Draw(d.t, "pause") {
	case 0:
		time.Sleep(1200 * time.Microsecond)
	case 1:
		time.Sleep(2500 * time.Microsecond)
	case 2:
		time.Sleep(200 * time.Microsecond)
	}
}

func (d *c10Driver) step(i int) {
	t, c, rig := d.t, d.c, d.rig
	np := len(d.bpfx)
	maxPaths := 1
	if d.cs.sess.addPath {
		maxPaths = 3
	}
	op := rapid.SampledFrom([]string{"add", "add", "add", "add", "remove", "remove", "remove", "replace", "replace", "replace", "flush1", "flush1", "flush1", "flushall", "eor"}).Draw(t, "op")
	if d.ticker && (op == "flush1" || op == "flushall") {
		op = "pause"
	}
	switch op {
	case "add":
		pi := rapid.IntRange(0, np-1).Draw(t, "pfx")
		ai := rapid.IntRange(0, len(d.cs.attrs)-1).Draw(t, "attrs")
		if _, dupl := d.present[pi][ai]; dupl {
			// the Loc-RIB never announces a path twice
			c.Logf("%d: add p%d a%d skipped (already announced)", i, pi, ai)
			return
		}
		if len(d.present[pi]) >= maxPaths {
			if d.cs.sess.addPath {
				c.Logf("%d: add p%d a%d skipped (max paths)", i, pi, ai)
				return
			}
			// best-only client, prefix already has a path: AddPath without a preceding RemovePath
			// (Adj-RIB-Out's own replacement: rt.ReplacePath + withdraw old + announce new).
			// The Loc-RIB itself always removes the old best path first; an AddPath over a stored
			// path is only meaningful for a path the session exports, otherwise the Loc-RIB way
			// (remove, then add) is used.
			if !d.exportable(ai) {
				old, _ := c10Pick(t, d.present[pi])
				c.Logf("%d: replace p%d a%d -> a%d (new path not exportable)", i, pi, old, ai)
				rig.rib.RemovePath(d.bpfx[pi], d.present[pi][old])
				p := d.cs.attrs[ai].path(d.cs.sess)
				rig.rib.AddPath(d.bpfx[pi], p)
				d.present[pi] = map[int]*route.Path{ai: p}
				d.drain()
				return
			}
			was := rig.queued(d.bpfx[pi])
			c.Logf("%d: direct-replace p%d -> a%d (queued=%v)", i, pi, ai, was)
			c.NonTrivialIf(was)
			c.ClassIf(was, "direct_replace_while_queued")
			p := d.cs.attrs[ai].path(d.cs.sess)
			rig.rib.AddPath(d.bpfx[pi], p)
			d.present[pi] = map[int]*route.Path{ai: p}
			return
		}
		c.Logf("%d: add p%d a%d", i, pi, ai)
		p := d.cs.attrs[ai].path(d.cs.sess)
		rig.rib.AddPath(d.bpfx[pi], p)
		d.present[pi][ai] = p
		c.ClassIf(len(d.present[pi]) > 1, "additional_path")
	case "remove":
		pi := rapid.IntRange(0, np-1).Draw(t, "pfx")
		ai, ok := c10Pick(t, d.present[pi])
		if !ok {
			c.Logf("%d: remove p%d skipped (nothing announced)", i, pi)
			return
		}
		was := rig.queued(d.bpfx[pi])
		c.Logf("%d: remove p%d a%d (queued=%v)", i, pi, ai, was)
		c.NonTrivialIf(was)
		c.ClassIf(was, "remove_while_queued")
		rig.rib.RemovePath(d.bpfx[pi], d.present[pi][ai])
		delete(d.present[pi], ai)
	case "replace":
		// Loc-RIB style (LocRIB.propagateChanges): RemovePath(old) then AddPath(new)
		pi := rapid.IntRange(0, np-1).Draw(t, "pfx")
		old, ok := c10Pick(t, d.present[pi])
		ai := rapid.IntRange(0, len(d.cs.attrs)-1).Draw(t, "attrs")
		if _, dupl := d.present[pi][ai]; !ok || dupl {
			c.Logf("%d: replace p%d skipped", i, pi)
			return
		}
		was := rig.queued(d.bpfx[pi])
		c.Logf("%d: replace p%d a%d -> a%d (queued=%v)", i, pi, old, ai, was)
		c.NonTrivialIf(was)
		c.ClassIf(was, "replace_while_queued")
		rig.rib.RemovePath(d.bpfx[pi], d.present[pi][old])
		delete(d.present[pi], old)
		if d.ticker && rapid.IntRange(0, 3).Draw(t, "mid_pause") == 0 {
			d.pause()
		}
		p := d.cs.attrs[ai].path(d.cs.sess)
		rig.rib.AddPath(d.bpfx[pi], p)
		d.present[pi][ai] = p
	case "flush1":
		ks := rig.queueKeys()
		if len(ks) == 0 {
			c.Logf("%d: flush1 (queue empty)", i)
			return
		}
		k := rapid.IntRange(0, len(ks)-1).Draw(t, "entry")
		c.Logf("%d: flush entry %d of %d", i, k, len(ks))
		c.ClassIf(len(ks) > 1, "flush_choice_among_several")
		rig.flushKey(ks[k])
	case "flushall":
		rev := rapid.Bool().Draw(t, "reverse")
		c.Logf("%d: flush all reverse=%v", i, rev)
		rig.flushAll(rev)
		d.drain()
		d.compare(fmt.Sprintf("after step %d (flush all)", i))
		return
	case "eor":
		// AdjRIBOut.EndOfRIB -> UpdateSender.EndOfRIB: flushes the queue and writes the End-of-RIB marker
		c.Logf("%d: end-of-rib", i)
		rig.rib.EndOfRIB()
		if !d.ticker {
			d.drain()
			d.compare(fmt.Sprintf("after step %d (end-of-rib)", i))
		}
		return
	case "pause":
		c.Logf("%d: pause", i)
		d.pause()
		return
	}
	d.drain()
}

// exportable: iBGP-learned paths are not sent to an iBGP peer that is not a route
// reflector client (AdjRIBOut.checkPropagateUpdateIBGP); everything else the
// generator produces is exported (no well-known communities, never the peer's own path).
func (d *c10Driver) exportable(ai int) bool {
	return !(d.cs.sess.kind == c10KindIBGP && !d.cs.attrs[ai].ebgp)
}

func c10Pick(t *rapid.T, m map[int]*route.Path) (int, bool) {
	if len(m) == 0 {
		return 0, false
	}
	ks := make([]int, 0, len(m))
	for k := 0; k < 8; k++ {
		if _, ok := m[k]; ok {
			ks = append(ks, k)
		}
	}
	return ks[rapid.IntRange(0, len(ks)-1).Draw(t, "which")], true
}

func c10NewDriver(t *rapid.T, c *kit.Case, cs c10Case, ticker bool) *c10Driver {
	d := &c10Driver{t: t, c: c, cs: cs, rig: c10NewRig(cs.sess), peer: c10NewPeer(cs.sess), ticker: ticker}
	for _, p := range cs.pfxs {
		d.bpfx = append(d.bpfx, c10Pfx(p))
		d.present = append(d.present, map[int]*route.Path{})
	}
	return d
}

func TestVerifC10Controlled(t *testing.T) {
	c10InstallLogger()
	rec := kit.NewRecorder(t, "C10", c10Rule)
	maxSteps := kit.Scale(30, 60)
	rapid.Check(t, func(t *rapid.T) {
		c := rec.Case()
		defer c.Done()
		c10Log.take()
		cs := c10GenCase(t, rec, c)
		d := c10NewDriver(t, c, cs, false)
		n := rapid.IntRange(3, maxSteps).Draw(t, "steps")
		for i := 0; i < n; i++ {
			d.step(i)
		}
		// changes stop: one more complete aggregation round
		d.rig.flushAll(rapid.Bool().Draw(t, "final_reverse"))
		d.drain()
		d.compare("at the end (after the final full flush)")
		c.ClassIf(len(d.peer.table) > 0, "final_nonempty")
	})
}

func TestVerifC10Ticker(t *testing.T) {
	c10InstallLogger()
	rec := kit.NewRecorder(t, "C10", c10Rule+" [ticker mode: real sender goroutine]")
	maxSteps := kit.Scale(20, 40)
	rapid.Check(t, func(t *rapid.T) {
		c := rec.Case()
		defer c.Done()
		c10Log.take()
		cs := c10GenCase(t, rec, c)
		d := c10NewDriver(t, c, cs, true)
		d.rig.us.Start(time.Millisecond)
		n := rapid.IntRange(3, maxSteps).Draw(t, "steps")
		for i := 0; i < n; i++ {
			d.step(i)
		}
		// changes stop: wait until the sender has emptied the queue, then stop it.
		// Destroy() is only received by the sender goroutine between two rounds, so
		// after it returns no entry is in flight.
		deadline := time.Now().Add(5 * time.Second)
		for d.rig.queueLen() > 0 {
			if time.Now().After(deadline) {
				d.rig.us.Destroy()
				c.Class("ticker_timeout_inconclusive")
				rec.Note("ticker mode: queue not drained within 5 s; case not judged")
				return
			}
			time.Sleep(200 * time.Microsecond)
		}
		d.rig.us.Destroy()
		d.rig.us.wg.Wait()
		if d.rig.queueLen() != 0 {
			c.Class("ticker_requeued_inconclusive")
			return
		}
		if msg := d.peer.consume(d.rig.conn.TakeWritten(), nil); msg != "" {
			t.Fatalf("C10 ticker %v: %s", cs.sess, msg)
		}
		d.compare("ticker mode, after the queue drained")
		c.ClassIf(len(d.peer.table) > 0, "final_nonempty")
	})
}

//go:build verif

package server

// C24 — connection collisions leave at most one Established session.
//
// Rig: shared asynchronous session rig (c00). One fresh peer per case with two
// simultaneous connections A and B to the same neighbour (same BGP identifier
// and AS on both). Two modes:
//   in+in  : both connections arrive through the listener's AcceptCh
//            (incomingConnectionWorker creates one FSM per connection);
//   out+in : the peer is not passive; its own FSM (peer.fsms[0]) is started by
//            the real reconnect logic (Idle -> AutomaticStart -> Connect) and the
//            harness hands it connection A over fsm.conCh - exactly what
//            tcpConnector does after a successful dial (the real dial of the
//            unroutable peer address fails in the background); B is inbound.
// The delivery order of {OPEN_A, KEEPALIVE_A, OPEN_B, KEEPALIVE_B} is drawn by
// rapid (6 interleavings); after every step the harness waits for quiescence
// by protocol: the FSM that got the message has left its state (or closed),
// and the other FSM either accepted a no-op event on its unbuffered eventCh
// (it is back in its select loop, so a Cease sent to it earlier would already
// have been consumed) or its conn is closed.
//
// Oracle:
//   - at every observation point at most one FSM of the peer is Established;
//   - RFC 4271 §6.8: when an OPEN arrives while the other connection is in
//     OpenConfirm the collision MUST be resolved then: exactly one of the two
//     conns is closed, and it carries a Cease NOTIFICATION (code 6, any
//     subcode); when the other connection is already Established the new one
//     is the one closed;
//   - out+in: the survivor is the connection initiated by the speaker with the
//     higher BGP identifier (RFC 4271 §6.8), on equal identifiers (eBGP) by
//     the speaker with the larger AS (RFC 6286 §2.3). For in+in the RFCs do
//     not say which of two remotely initiated connections survives: silent;
//   - the survivor becomes Established after its KEEPALIVE; routes announced
//     on both conns afterwards are in the Loc-RIB from at most one of them.
// Non-trivial: both connections reached OpenConfirm.

import (
	"fmt"
	"testing"
	"time"

	bnet "github.com/bio-routing/bio-rd/net"
	"pgregory.net/rapid"
	kit "verifkit"
)

const c24Rule = "one neighbour, two simultaneous connections (in+in: two inbound; out+in: the peer's own outgoing FSM fed through conCh plus one inbound), iBGP/eBGP, neighbour identifier <, > or = ours (= with both AS orders, eBGP only), one of the 6 delivery orders of {OPEN_A, KEEPALIVE_A, OPEN_B, KEEPALIVE_B} with a protocol quiescence wait after each step, then one UPDATE per connection. Non-trivial: both connections reached OpenConfirm."

const c24RouterID = 0x0a000064

const (
	c24OpenSent = iota
	c24OpenConfirm
	c24Established
	c24Lost
)

var c24StNames = []string{"OpenSent", "OpenConfirm", "Established", "closed"}

type c24Side struct {
	name     string
	conn     *kit.Conn
	f        *FSM
	outgoing bool
	st       int // model state
	reached  bool
	pfx      uint32
}

var c24Orders = [][]string{
	{"OA", "KA", "OB", "KB"},
	{"OA", "OB", "KA", "KB"},
	{"OA", "OB", "KB", "KA"},
	{"OB", "OA", "KA", "KB"},
	{"OB", "OA", "KB", "KA"},
	{"OB", "KB", "OA", "KA"},
}

var c24PeerSeq uint32

// c24Probe: is the FSM back in its select loop (alive) or is its conn closed?
// eventCh is unbuffered and unknown events are ignored by every state, so an
// accepted no-op event proves that everything sent to the FSM before has been
// consumed.
func c24Probe(s *c24Side) (alive bool) {
	deadline := time.Now().Add(c00Deadline)
	for {
		if s.conn.Closed() {
			return false
		}
		select {
		case s.f.eventCh <- 0:
			return true
		case <-time.After(300 * time.Microsecond):
		}
		if time.Now().After(deadline) {
			panic(c00Inconclusive{"FSM of connection " + s.name + " neither accepts events nor closed its conn"})
		}
	}
}

func c24CountEstablished(r *c00Rig, ip bnet.IP) int {
	n := 0
	for _, f := range r.c00FSMs(ip) {
		if c00State(f) == stateNameEstablished {
			n++
		}
	}
	return n
}

func c24HasCease(c *kit.Conn) bool {
	for _, n := range c00Notifications(c) {
		if n[0] == 6 {
			return true
		}
	}
	return false
}

func c24HoldExpired(sides []*c24Side) {
	for _, s := range sides {
		if c22Has(c00Notifications(s.conn), 4, 0) {
			panic(c00Inconclusive{"hold timer expired on connection " + s.name + " (bio-rd's ~1 s OpenSent window)"})
		}
	}
}

func c24Teardown(s *c24Side) {
	defer func() {
		if r := recover(); r != nil {
			if _, ok := r.(c00Inconclusive); ok {
				return
			}
			panic(r)
		}
	}()
	if s == nil || s.f == nil {
		return
	}
	if !s.conn.Closed() {
		// the way collision handling stops an FSM for good: Cease event
		deadline := time.Now().Add(2 * time.Second)
		for !s.conn.Closed() && time.Now().Before(deadline) {
			select {
			case s.f.eventCh <- Cease:
				deadline = time.Now()
			case <-time.After(time.Millisecond):
			}
		}
	}
	s.conn.FeedEOF()
}

// c24Case runs one case; returns a violation text or "".
func c24Case(r *c00Rig, c *kit.Case, outIn, ibgp bool, idRel int, localASLarger bool, order []string) string {
	localAS := uint32(65000)
	peerAS := localAS
	if !ibgp {
		peerAS = 65001
		if localASLarger {
			peerAS = 64999
		}
	}
	peerID := uint32(c24RouterID)
	switch idRel {
	case -1:
		peerID = c24RouterID - 7
	case 1:
		peerID = c24RouterID + 7
	}
	c24PeerSeq++
	n := c24PeerSeq
	ip := bnet.IPv4FromOctets(10, 3+uint8(n>>16), uint8(n>>8), uint8(n))
	cfg := r.c00PeerCfg(ip, bnet.IPv4FromOctets(10, 0, 0, 1), localAS, peerAS)
	if outIn {
		cfg.Passive = false
		cfg.ReconnectInterval = time.Millisecond
	}
	if err := r.srv.AddPeer(cfg); err != nil {
		panic(err)
	}
	A := &c24Side{name: "A", outgoing: outIn, pfx: 0xc6336400}
	B := &c24Side{name: "B", pfx: 0xc6336500}
	sides := []*c24Side{A, B}
	defer c24Teardown(A)
	defer c24Teardown(B)

	if outIn {
		fs := r.c00FSMs(ip)
		if len(fs) != 1 {
			return fmt.Sprintf("non-passive peer has %d FSMs after AddPeer", len(fs))
		}
		A.f = fs[0]
		c00WaitState(A.f, stateNameConnect)
		r.port++
		A.conn = kit.NewConn(nil, nil)
		select {
		case A.f.conCh <- A.conn:
		case <-time.After(c00Deadline):
			panic(c00Inconclusive{"outgoing FSM did not take the connection"})
		}
		if !A.conn.WaitWritten(19, c00Deadline) {
			panic(c00Inconclusive{"outgoing FSM sent no OPEN"})
		}
	} else {
		A.conn, A.f = r.c00Connect(ip)
	}
	B.conn, B.f = r.c00Connect(ip)

	open := c00Open(peerAS, peerID, 90, kit.CapASN4(peerAS))
	// who must survive a collision between an outgoing and an incoming connection
	localWins := c24RouterID > peerID || (c24RouterID == peerID && localAS > peerAS)

	observe := func(step string) string {
		if n := c24CountEstablished(r, ip); n > 1 {
			return fmt.Sprintf("after %s: %d FSMs of the peer are Established", step, n)
		}
		return ""
	}

	for _, ev := range order {
		x, other := A, B
		if ev[1] == 'B' {
			x, other = B, A
		}
		if ev[0] == 'O' {
			if x.st != c24OpenSent {
				continue
			}
			otherSt := other.st
			x.conn.Feed(open)
			c00WaitFor("reaction to OPEN on "+x.name, func() bool {
				if x.conn.Closed() {
					return true
				}
				s := c00State(x.f)
				return s != stateNameOpenSent && s != stateNameActive && s != stateNameConnect
			})
			xAlive := !x.conn.Closed()
			if xAlive {
				// must be OpenConfirm now
				if s := c00State(x.f); s != stateNameOpenConfirm {
					c24HoldExpired(sides)
					return fmt.Sprintf("after OPEN_%s: state %s with the conn open", x.name, s)
				}
			}
			otherAlive := other.st != c24Lost
			if otherAlive && (otherSt == c24OpenConfirm || otherSt == c24Established) {
				otherAlive = c24Probe(other)
			}
			c24HoldExpired(sides)
			if v := observe("OPEN_" + x.name); v != "" {
				return v
			}
			detectable := otherSt == c24OpenConfirm || otherSt == c24Established
			c.Logf("  OPEN_%s: other=%s detectable=%v -> %s alive=%v, %s alive=%v", x.name, c24StNames[otherSt], detectable, x.name, xAlive, other.name, otherAlive)
			if !detectable {
				if !xAlive {
					return fmt.Sprintf("OPEN_%s with the other connection in %s: connection %s was closed (notifications %v)", x.name, c24StNames[otherSt], x.name, c00Notifications(x.conn))
				}
				x.st, x.reached = c24OpenConfirm, true
				continue
			}
			// RFC 4271 §6.8: resolve now
			if xAlive && otherAlive {
				return fmt.Sprintf("collision not resolved: OPEN_%s received while connection %s is in %s, both connections stay open", x.name, other.name, c24StNames[otherSt])
			}
			if !xAlive && !otherAlive {
				return fmt.Sprintf("collision at OPEN_%s closed BOTH connections (A: %v, B: %v)", x.name, c00Notifications(A.conn), c00Notifications(B.conn))
			}
			loser, winner := x, other
			if xAlive {
				loser, winner = other, x
			}
			if !c24HasCease(loser.conn) {
				return fmt.Sprintf("collision at OPEN_%s: connection %s closed without a Cease NOTIFICATION (notifications %v)", x.name, loser.name, c00Notifications(loser.conn))
			}
			if otherSt == c24Established && loser != x {
				return fmt.Sprintf("collision with an Established connection: the Established connection %s was closed instead of the new one", other.name)
			}
			if otherSt == c24OpenConfirm && outIn {
				wantWinnerOutgoing := localWins
				if winner.outgoing != wantWinnerOutgoing {
					return fmt.Sprintf("collision at OPEN_%s: surviving connection %s is outgoing=%v, but the connection initiated by the %s speaker must survive (local id %#x AS %d, remote id %#x AS %d)", x.name, winner.name, winner.outgoing, map[bool]string{true: "local", false: "remote"}[localWins], uint32(c24RouterID), localAS, peerID, peerAS)
				}
			}
			loser.st = c24Lost
			if winner == x {
				x.st, x.reached = c24OpenConfirm, true
			}
			c.Class("collision-resolved")
			continue
		}
		// KEEPALIVE
		if x.st != c24OpenConfirm {
			continue
		}
		x.conn.Feed(kit.Keepalive())
		c00WaitFor("reaction to KEEPALIVE on "+x.name, func() bool {
			return x.conn.Closed() || c00State(x.f) != stateNameOpenConfirm
		})
		c24HoldExpired(sides)
		if v := observe("KEEPALIVE_" + x.name); v != "" {
			return v
		}
		if x.conn.Closed() || c00State(x.f) != stateNameEstablished {
			return fmt.Sprintf("KEEPALIVE_%s in OpenConfirm did not establish: state %s closed=%v notifications %v", x.name, c00State(x.f), x.conn.Closed(), c00Notifications(x.conn))
		}
		x.st = c24Established
	}
	c.NonTrivialIf(A.reached && B.reached)
	c.ClassIf(A.reached && B.reached, "both-reached-OpenConfirm")
	// final: exactly one survivor, Established
	alive := 0
	for _, s := range sides {
		if s.st == c24Established {
			alive++
		} else if s.st != c24Lost {
			return fmt.Sprintf("connection %s ended the schedule in model state %s", s.name, c24StNames[s.st])
		}
	}
	if alive != 1 {
		return fmt.Sprintf("%d connections Established at the end of the schedule", alive)
	}
	// one UPDATE per connection; at most one may contribute to the Loc-RIB
	for _, s := range sides {
		if s.conn.Closed() {
			continue
		}
		var lp *uint32
		if ibgp {
			v := uint32(100)
			lp = &v
		}
		path := []uint32{peerAS}
		if ibgp {
			path = []uint32{64999}
		}
		s.conn.Feed(c00Update(path, [4]byte{10, 3, 0, 1}, lp, true, false, kit.WNLRI{P: kit.V4(s.pfx, 24)}))
		if c00State(s.f) == stateNameEstablished {
			c00Barrier(s.conn, s.f)
		}
	}
	if v := observe("UPDATEs"); v != "" {
		return v
	}
	got := r.c00RIBFromPeer(ip, false)
	if len(got) > 1 {
		return fmt.Sprintf("routes of both connections are in the Loc-RIB: %v", got)
	}
	return ""
}

func TestVerifC24Collision(t *testing.T) {
	rec := kit.NewRecorder(t, "C24", c24Rule)
	var inc c21Inc
	var rig *c00Rig
	used := 0
	caseNo := 0
	rapid.Check(t, func(t *rapid.T) {
		c := rec.Case()
		defer c.Done()
		caseNo++
		outIn := rapid.Bool().Draw(t, "outIn")
		ibgp := rapid.Bool().Draw(t, "ibgp")
		idRel := rapid.IntRange(0, 8).Draw(t, "idRel")%3 - 1
		if ibgp && idRel == 0 {
			idRel = rapid.SampledFrom([]int{-1, 1}).Draw(t, "idRelIBGP") // identifier = ours is a Bad BGP Identifier on iBGP
		}
		localASLarger := rapid.Bool().Draw(t, "localASLarger")
		order := rapid.SampledFrom(c24Orders).Draw(t, "order")
		mode := "in+in"
		if outIn {
			mode = "out+in"
		}
		c.Logf("mode=%s ibgp=%v peerID-ourID=%d localASLarger=%v order=%v", mode, ibgp, idRel*7, localASLarger && !ibgp, order)
		c.Class("mode:" + mode)
		c.Class(fmt.Sprintf("id:%+d", idRel))
		c00Journal("C24 case %d mode=%s ibgp=%v idRel=%d localASLarger=%v order=%v", caseNo, mode, ibgp, idRel, localASLarger, order)
		var verdict string
		ok := inc.c21Run(c, func() {
			if rig == nil || used >= 300 {
				rig = c00NewRig(c24RouterID)
				used = 0
			}
			used++
			verdict = c24Case(rig, c, outIn, ibgp, idRel, localASLarger, order)
		})
		if !ok {
			rig = nil
			return
		}
		if verdict != "" {
			t.Fatalf("C24 violation: %s\ncase: %s", verdict, c.String())
		}
	})
	inc.c21Finish(t, "C24")
}

//go:build verif

package server

// C27 — a monitored router cannot crash, exhaust or wedge the BMP receiver.
//
// Every case builds a byte stream (valid BMP conversation + structured
// mutations, or random bytes), puts it into an in-memory conn that ends in EOF
// and runs the real Router.serve(conn) to completion. Oracle:
//   - no panic,
//   - serve returns (watchdog; a parked goroutine seen at the same place in two
//     dumps is a wedge, anything else on expiry is inconclusive),
//   - heap bytes allocated while serving (runtime TotalAlloc delta) stay within
//     c27AllocBase + c27AllocPerFrame*frames + c27AllocPerByte*len(stream).
// A fatal out-of-memory cannot be recovered, so each case is journalled (hex)
// to $VERIF_WORK/journal.txt before it is executed.

import (
	"bytes"
	"encoding/hex"
	"fmt"
	"net"
	"os"
	"path/filepath"
	"runtime"
	"strings"
	"testing"
	"time"

	bmppkt "github.com/bio-routing/bio-rd/protocols/bmp/packet"
	"pgregory.net/rapid"
	kit "verifkit"
)

const c27Rule = "byte streams for one router session: a generated BMP conversation (initiation, peer-up with OPENs, route monitoring, stats, peer-down, termination over 1-3 peers) with per-message mutations (common-header length short/huge, empty/truncated TLVs, stats count huge, OPENs disagreeing with the per-peer header, route monitoring carrying OPEN/NOTIFICATION/KEEPALIVE/malformed UPDATE, unknown peers) and stream mutations (bit flips, truncation, insertion, random bytes), delivered in random read chunks, optionally followed by a second stream on the same router (reconnect). Non-trivial: at least one frame of the stream is accepted by bmp/packet.Decode."

// Allocation budget. The statement forbids memory "out of proportion to the
// bytes received"; the constants are deliberately generous: a fixed base, a
// per-frame allowance (the receiver's 4 KiB frame buffer, one 16-bit-length
// TLV buffer, VRF/RIB creation on peer-up) and a per-byte allowance (route
// and path objects for 1-byte NLRIs). The defects this guards against allocate
// megabytes to gigabytes from tens of bytes.
const (
	c27AllocBase     = 1 << 20
	c27AllocPerFrame = 192 << 10
	c27AllocPerByte  = 8 << 10
	c27Watchdog      = 20 * time.Second
)

func c27Budget(stream []byte) uint64 {
	fr, _ := c27Frames(stream)
	return uint64(c27AllocBase) + uint64(c27AllocPerFrame)*uint64(len(fr)+1) + uint64(c27AllocPerByte)*uint64(len(stream))
}

// c27Outcome is what one serve() run produced.
type c27Outcome struct {
	panicked bool
	panicVal interface{}
	stack    string
	alloc    uint64
	wedge    string // non-empty: parked at the same place in two dumps
	timeout  bool   // watchdog expired without a conclusive wedge
}

// c27ServeOn runs r.serve on the stream and measures it.
func c27ServeOn(r *Router, stream []byte, chunk int) c27Outcome {
	conn := c27NewConn(stream, chunk)
	var out c27Outcome
	done := make(chan struct{})
	var before, after runtime.MemStats
	runtime.ReadMemStats(&before)
	go func() {
		defer close(done)
		defer func() {
			if v := recover(); v != nil {
				out.panicked = true
				out.panicVal = v
				buf := make([]byte, 16<<10)
				out.stack = string(buf[:runtime.Stack(buf, false)])
			}
		}()
		c27ServeFrame(r, conn)
	}()
	timer := time.NewTimer(c27Watchdog)
	select {
	case <-done:
		timer.Stop()
	case <-timer.C:
		d1 := c27ServeGoroutine()
		time.Sleep(2 * time.Second)
		select {
		case <-done:
			// finished late: slow machine, not a wedge
			runtime.ReadMemStats(&after)
			out.alloc = after.TotalAlloc - before.TotalAlloc
			return out
		default:
		}
		d2 := c27ServeGoroutine()
		if d1 != "" && d1 == d2 && c27Parked(d1) {
			out.wedge = d1
		} else {
			out.timeout = true
		}
		return out
	}
	runtime.ReadMemStats(&after)
	out.alloc = after.TotalAlloc - before.TotalAlloc
	return out
}

// c27ServeFrame is a distinct frame to find the serving goroutine in dumps.
//
//go:noinline
func c27ServeFrame(r *Router, conn net.Conn) {
	_ = r.serve(conn)
}

// c27ServeGoroutine returns the dump of the goroutine running c27ServeFrame
// with addresses/arguments stripped (function names and file:line only).
func c27ServeGoroutine() string {
	buf := make([]byte, 4<<20)
	buf = buf[:runtime.Stack(buf, true)]
	for _, g := range strings.Split(string(buf), "\n\n") {
		if !strings.Contains(g, "c27ServeFrame") {
			continue
		}
		var sb strings.Builder
		for i, ln := range strings.Split(g, "\n") {
			if i == 0 {
				// "goroutine 12 [semacquire, 2 minutes]:" -> keep the state word only
				if a := strings.Index(ln, "["); a >= 0 {
					st := ln[a+1:]
					if b := strings.IndexAny(st, ",]"); b >= 0 {
						st = st[:b]
					}
					sb.WriteString("[" + st + "]\n")
				}
				continue
			}
			if strings.HasPrefix(ln, "\t") {
				if k := strings.Index(ln, " +0x"); k >= 0 {
					ln = ln[:k]
				}
				sb.WriteString(ln + "\n")
			} else {
				if k := strings.LastIndex(ln, "("); k >= 0 {
					ln = ln[:k]
				}
				sb.WriteString(ln + "\n")
			}
		}
		return sb.String()
	}
	return ""
}

func c27Parked(dump string) bool {
	first := dump
	if i := strings.Index(dump, "\n"); i >= 0 {
		first = dump[:i]
	}
	switch first {
	case "[running]", "[runnable]", "[syscall]":
		return false
	}
	return true
}

// c27Journal records the case before execution (process-killing failures).
func c27Journal(streams [][]byte, chunk int, cfg RouterConfig) {
	wd := os.Getenv("VERIF_WORK")
	if wd == "" {
		return
	}
	var sb strings.Builder
	fmt.Fprintf(&sb, "# C27 case about to execute; replay: VERIF_C27_JOURNAL=<this file> harness.test -test.run TestVerifC27ReplayJournal\nchunk %d\ncfg %d %v %v\n", chunk, len(cfg.IgnorePeerASNs), cfg.IgnorePrePolicy, cfg.IgnorePostPolicy)
	for _, s := range streams {
		fmt.Fprintf(&sb, "stream %s\n", hex.EncodeToString(s))
	}
	_ = os.WriteFile(filepath.Join(wd, "journal.txt"), []byte(sb.String()), 0o644)
}

// c27Judge executes the streams one after the other on one router and returns
// a violation text ("" = ok). inconclusive is set on an unexplained watchdog
// expiry.
func c27Judge(streams [][]byte, chunk int, cfg RouterConfig) (violation string, inconclusive bool) {
	r := newRouter(net.IP{10, 0, 0, 1}, 1790, adjRIBInFactory{}, cfg)
	for i, s := range streams {
		o := c27ServeOn(r, s, chunk)
		switch {
		case o.panicked:
			return fmt.Sprintf("serve panicked on stream %d (%d bytes): %v\n%s", i, len(s), o.panicVal, o.stack), false
		case o.wedge != "":
			return fmt.Sprintf("serve did not return %v after EOF on stream %d; parked at the same place in two dumps:\n%s", c27Watchdog, i, o.wedge), false
		case o.timeout:
			return "", true
		}
		c27NoteRatio(o.alloc, c27Budget(s), len(s))
		if b := c27Budget(s); o.alloc > b {
			return fmt.Sprintf("serve allocated %d bytes for a %d-byte stream (stream %d), budget %d", o.alloc, len(s), i, b), false
		}
	}
	return "", false
}

// largest observed alloc/budget ratio (reported as an evidence note so that the
// head-room of the budget constants stays visible)
var c27Ratio struct {
	permille uint64
	alloc    uint64
	n        int
}

func c27NoteRatio(alloc, budget uint64, n int) {
	if pm := alloc * 1000 / budget; pm > c27Ratio.permille {
		c27Ratio.permille, c27Ratio.alloc, c27Ratio.n = pm, alloc, n
	}
}

func c27Inconclusive(msg string) {
	fmt.Fprintf(os.Stderr, "INCONCLUSIVE C27: %s\n", msg)
	os.Exit(3)
}

// ---------------------------------------------------------------------------
// generator

type c27GenPeer struct {
	pph     c27PPH
	local   [16]byte
	localAS uint32
	localID uint32
	addPath bool
}

// Huge values stop at 64 MiB / 4M entries: far above the budget, yet cheap to
// allocate when a bound is missing (multi-GiB allocations take minutes on a
// loaded machine and would turn a violation into a deadline). The 4 GiB
// extremes live at the end of the regression list.
var c27Lengths = []uint32{0, 1, 5, 6, 7, 10, 47, 48, 49, 4095, 4096, 4097, 65535, 65536, 1 << 20, 1 << 24, 1 << 26}
var c27Counts = []uint32{0, 1, 2, 3, 255, 65535, 65536, 1 << 20, 1 << 21, 1 << 22}

func c27GenAddr(t *rapid.T, v6 bool, label string) [16]byte {
	var a [16]byte
	if v6 {
		a[0], a[1] = 0x20, 0x01
		a[15] = byte(rapid.IntRange(1, 4).Draw(t, label))
		return a
	}
	return c27V4(10, 0, 0, byte(rapid.IntRange(1, 4).Draw(t, label)))
}

func c27GenPeers(t *rapid.T) []c27GenPeer {
	n := rapid.IntRange(1, 3).Draw(t, "npeers")
	ps := make([]c27GenPeer, n)
	for i := range ps {
		v6 := rapid.IntRange(0, 3).Draw(t, "v6") == 0
		p := &ps[i]
		p.pph.PeerType = uint8(rapid.SampledFrom([]int{0, 0, 0, 1, 2, 3, 255}).Draw(t, "ptype"))
		if v6 {
			p.pph.Flags |= c27FlagV
		}
		if rapid.IntRange(0, 3).Draw(t, "post") == 0 {
			p.pph.Flags |= c27FlagL
		}
		if rapid.IntRange(0, 5).Draw(t, "aflag") == 0 {
			p.pph.Flags |= c27FlagA
		}
		p.pph.RD = rapid.SampledFrom([]uint64{0, 0, 1, 100, 0xffffffffffffffff}).Draw(t, "rd")
		p.pph.Addr = c27GenAddr(t, v6, "paddr")
		p.pph.AS = rapid.SampledFrom([]uint32{65001, 65002, 64512, 23456, 4200000001, 0}).Draw(t, "pas")
		p.pph.BGPID = uint32(rapid.IntRange(1, 5).Draw(t, "pid"))
		p.pph.TS = uint32(rapid.IntRange(0, 2).Draw(t, "ts"))
		p.local = c27GenAddr(t, v6, "laddr")
		p.localAS = rapid.SampledFrom([]uint32{65000, 65001, 23456, 4200000000}).Draw(t, "las")
		p.localID = uint32(rapid.IntRange(1, 5).Draw(t, "lid"))
		p.addPath = rapid.IntRange(0, 2).Draw(t, "ap") == 0
	}
	return ps
}

func c27GoodOpen(as, id uint32, addPath bool, apMode uint16) []byte {
	caps := [][]byte{c27CapMP(1, 1), c27CapMP(2, 1), c27CapASN4(as)}
	if addPath {
		caps = append(caps, c27CapAddPath([3]uint16{1, 1, apMode}, [3]uint16{2, 1, apMode}))
	}
	return c27Open(c27AS2(as), 90, id, caps...)
}

// c27GenOpen draws an OPEN that is mostly consistent with (as,id) but may
// disagree or be malformed.
func c27GenOpen(t *rapid.T, as, id uint32, addPath bool, label string) ([]byte, string) {
	switch rapid.IntRange(0, 15).Draw(t, label) {
	case 0: // AS differs from the per-peer header / sent open
		return c27GoodOpen(as+1, id, addPath, 3), "as_differs"
	case 1: // AS_TRANS without ASN4 capability
		return c27Open(23456, 90, id), "astrans_nocap"
	case 2: // ASN4 capability disagrees with 2-byte field
		return c27Open(c27AS2(as), 90, id, c27CapASN4(as+7)), "asn4_differs"
	case 3: // no capabilities at all
		return c27Open(c27AS2(as), 90, id), "nocaps"
	case 4: // opt param length says more than is present
		o := c27GoodOpen(as, id, addPath, 3)
		o[28] += byte(rapid.IntRange(1, 200).Draw(t, "optlie"))
		return o, "optlen_lies"
	case 5: // truncated inside the capabilities, BGP length fixed up
		o := c27GoodOpen(as, id, addPath, 3)
		cut := rapid.IntRange(19, len(o)-1).Draw(t, "cut")
		o = o[:cut]
		copy(o[16:18], c27u16(uint16(len(o))))
		return o, "open_truncated"
	case 6: // hold time 1/2 (illegal), version 3, id 0
		o := c27GoodOpen(as, id, addPath, 3)
		switch rapid.IntRange(0, 2).Draw(t, "bad") {
		case 0:
			copy(o[22:24], c27u16(uint16(rapid.IntRange(1, 2).Draw(t, "hold"))))
		case 1:
			o[19] = 3
		case 2:
			copy(o[24:28], c27u32(0))
		}
		return o, "open_invalid_field"
	case 7: // not an OPEN at all
		return rapid.SampledFrom([][]byte{c27Keepalive(), c27Notification(6, 2, nil), {}}).Draw(t, "notopen"), "not_open"
	case 8: // add-path capability with odd length / unknown AFI / bad mode
		v := rapid.SliceOfN(rapid.Byte(), 0, 9).Draw(t, "apraw")
		return c27Open(c27AS2(as), 90, id, c27cat([]byte{69, byte(len(v))}, v)), "addpath_raw"
	case 9: // random capability bytes
		v := rapid.SliceOfN(rapid.Byte(), 0, 20).Draw(t, "capraw")
		o := c27Open(c27AS2(as), 90, id)
		o = append(o, v...)
		o[28] = byte(len(v))
		copy(o[16:18], c27u16(uint16(len(o))))
		return o, "caps_raw"
	case 10: // add-path in one direction only
		return c27GoodOpen(as, id, true, uint16(rapid.IntRange(0, 4).Draw(t, "apmode"))), "addpath_mode"
	case 11: // hold time 0
		o := c27GoodOpen(as, id, addPath, 3)
		copy(o[22:24], c27u16(0))
		return o, "hold0"
	}
	return c27GoodOpen(as, id, addPath, 3), ""
}

func c27GenPrefix(t *rapid.T, v6 bool) c27NLRI {
	n := c27NLRI{PathID: uint32(rapid.IntRange(0, 3).Draw(t, "pathid"))}
	if v6 {
		n.Len = uint8(rapid.SampledFrom([]int{0, 1, 32, 48, 64, 127, 128}).Draw(t, "plen6"))
		n.Addr = make([]byte, 16)
		n.Addr[0], n.Addr[1] = 0x20, 0x01
		n.Addr[5] = byte(rapid.IntRange(0, 3).Draw(t, "pfx6"))
	} else {
		n.Len = uint8(rapid.SampledFrom([]int{0, 1, 8, 16, 24, 24, 24, 25, 32}).Draw(t, "plen4"))
		n.Addr = []byte{10, byte(rapid.IntRange(0, 3).Draw(t, "pfx4")), byte(rapid.IntRange(0, 3).Draw(t, "pfx4b")), 0}
	}
	// clear host bits
	for i := int(n.Len); i < len(n.Addr)*8; i++ {
		n.Addr[i/8] &^= 0x80 >> uint(i%8)
	}
	return n
}

func c27GenUpdate(t *rapid.T, p c27GenPeer) ([]byte, string) {
	as4 := p.pph.Flags&c27FlagA == 0
	ap := p.addPath && rapid.IntRange(0, 9).Draw(t, "apenc") != 0 // sometimes encode against negotiation
	if !p.addPath {
		ap = rapid.IntRange(0, 19).Draw(t, "apenc2") == 0
	}
	nAnn := rapid.IntRange(0, 4).Draw(t, "nann")
	nWd := rapid.IntRange(0, 2).Draw(t, "nwd")
	v6 := rapid.IntRange(0, 2).Draw(t, "upd6") == 0
	var ann, wd []c27NLRI
	for i := 0; i < nAnn; i++ {
		ann = append(ann, c27GenPrefix(t, v6))
	}
	for i := 0; i < nWd; i++ {
		wd = append(wd, c27GenPrefix(t, v6))
	}
	asns := []uint32{}
	for i, n := 0, rapid.IntRange(0, 3).Draw(t, "npath"); i < n; i++ {
		asns = append(asns, rapid.SampledFrom([]uint32{65001, 65002, 65000, 3320, 15169}).Draw(t, "asn"))
	}
	attrs := c27cat(c27AttrOrigin(uint8(rapid.IntRange(0, 2).Draw(t, "origin"))), c27AttrASPath(asns, as4))
	if rapid.Bool().Draw(t, "lp") {
		attrs = append(attrs, c27AttrLocalPref(uint32(rapid.IntRange(0, 300).Draw(t, "lpv")))...)
	}
	if rapid.Bool().Draw(t, "med") {
		attrs = append(attrs, c27AttrMED(uint32(rapid.IntRange(0, 3).Draw(t, "medv")))...)
	}
	if rapid.IntRange(0, 3).Draw(t, "comm") == 0 {
		attrs = append(attrs, c27AttrCommunities(0xffffff01, 65000<<16|1)...)
	}
	if rapid.IntRange(0, 3).Draw(t, "xattr") == 0 {
		// one more attribute of any type code (biased to the assigned range), short value
		ty := rapid.OneOf(rapid.IntRange(16, 40), rapid.IntRange(0, 255)).Draw(t, "xtype")
		fl := rapid.SampledFrom([]uint8{0xc0, 0xe0, 0x80, 0x40}).Draw(t, "xflags")
		attrs = append(attrs, c27Attr(fl, uint8(ty), rapid.SliceOfN(rapid.Byte(), 0, 12).Draw(t, "xval"))...)
	}
	if v6 {
		var nh [16]byte
		nh[0], nh[1], nh[15] = 0x20, 0x01, 9
		if len(wd) > 0 {
			attrs = append(attrs, c27AttrMPUnreach(wd, ap)...)
		}
		if len(ann) > 0 || len(wd) == 0 {
			attrs = append(attrs, c27AttrMPReach(nh, ann, ap)...)
		}
		return c27Update(nil, attrs, nil), "upd_v6"
	}
	attrs = append(attrs, c27AttrNextHop([4]byte{10, 9, 9, 9})...)
	if nAnn == 0 {
		attrs = nil
	}
	return c27Update(c27NLRIs(wd, ap), attrs, c27NLRIs(ann, ap)), "upd_v4"
}

// c27GenBGPForRM draws the BGP message carried by a route-monitoring message.
func c27GenBGPForRM(t *rapid.T, p c27GenPeer) ([]byte, string) {
	switch rapid.IntRange(0, 19).Draw(t, "rmkind") {
	case 0:
		return c27Keepalive(), "rm_keepalive"
	case 1:
		return c27Notification(6, 2, nil), "rm_notification"
	case 2:
		return c27GoodOpen(p.pph.AS, p.pph.BGPID, false, 3), "rm_open"
	case 3:
		return c27BGP(5, []byte{0, 1, 0, 1}), "rm_routerefresh"
	case 4:
		return nil, "rm_empty"
	case 5: // bad marker / length field
		u, _ := c27GenUpdate(t, p)
		switch rapid.IntRange(0, 2).Draw(t, "hdrbad") {
		case 0:
			u[rapid.IntRange(0, 15).Draw(t, "mk")] = 0
		case 1:
			copy(u[16:18], c27u16(uint16(rapid.SampledFrom([]int{0, 18, 19, 20, len(u) - 1, len(u) + 1, 4096, 4097, 65535}).Draw(t, "blen"))))
		case 2:
			u[18] = byte(rapid.IntRange(0, 255).Draw(t, "btype"))
		}
		return u, "rm_bgphdr_bad"
	case 6: // lengths inside the UPDATE lie
		u, _ := c27GenUpdate(t, p)
		if len(u) > 23 {
			i := rapid.IntRange(19, len(u)-1).Draw(t, "ui")
			u[i] = byte(rapid.SampledFrom([]int{0, 1, 0x7f, 0x80, 0xff, 33, 129}).Draw(t, "uv"))
		}
		return u, "rm_update_mutated"
	case 7: // truncated update, BGP length fixed up
		u, _ := c27GenUpdate(t, p)
		u = u[:rapid.IntRange(19, len(u)).Draw(t, "ucut")]
		copy(u[16:18], c27u16(uint16(len(u))))
		return u, "rm_update_truncated"
	case 8: // many 1-byte NLRIs: the densest legitimate input
		n := rapid.IntRange(100, 4000).Draw(t, "dense")
		attrs := c27cat(c27AttrOrigin(0), c27AttrASPath([]uint32{65009}, p.pph.Flags&c27FlagA == 0), c27AttrNextHop([4]byte{10, 9, 9, 9}))
		return c27Update(nil, attrs, make([]byte, n)), "rm_dense_nlri"
	case 9: // random attribute area
		raw := rapid.SliceOfN(rapid.Byte(), 0, 40).Draw(t, "attrraw")
		return c27Update(nil, raw, []byte{24, 10, 1, 1}), "rm_attrs_raw"
	}
	return c27GenUpdate(t, p)
}

// c27GenConversation draws one stream. It returns the messages and the labels
// of the mutation classes used.
func c27GenConversation(t *rapid.T, peers []c27GenPeer) (msgs [][]byte, classes []string) {
	add := func(m []byte, cls string) {
		msgs = append(msgs, m)
		if cls != "" {
			classes = append(classes, cls)
		}
	}
	// initiation (usually)
	switch rapid.IntRange(0, 9).Draw(t, "init") {
	case 0:
	case 1:
		add(c27Initiation(c27TLV(2, nil)), "init_tlv_empty")
	case 2:
		add(c27Initiation(c27TLVRaw(1, uint16(rapid.SampledFrom([]int{1, 5, 4096, 65535}).Draw(t, "tl")), []byte("ab"))), "init_tlv_truncated")
	case 3:
		add(c27Initiation(c27TLV(2, []byte("r1")), []byte{0, 1, 0}), "init_tlv_cut_header")
	default:
		add(c27Initiation(c27TLV(1, []byte("descr")), c27TLV(2, []byte("router1")), c27TLV(0, []byte("hi"))), "")
	}
	nsteps := rapid.IntRange(1, 12).Draw(t, "nsteps")
	for i := 0; i < nsteps; i++ {
		p := peers[rapid.IntRange(0, len(peers)-1).Draw(t, "peer")]
		switch rapid.SampledFrom([]string{"up", "up", "rm", "rm", "rm", "rm", "stats", "down", "term", "mirror", "unknown", "init"}).Draw(t, "step") {
		case "up":
			so, c1 := c27GenOpen(t, p.localAS, p.localID, p.addPath, "sentopen")
			ro, c2 := c27GenOpen(t, p.pph.AS, p.pph.BGPID, p.addPath, "recvopen")
			info := []byte(nil)
			if rapid.IntRange(0, 4).Draw(t, "info") == 0 {
				info = rapid.SliceOfN(rapid.Byte(), 0, 12).Draw(t, "infob")
			}
			cls := ""
			if c1 != "" {
				cls = "up_sent_" + c1
			}
			if c2 != "" {
				cls = "up_recv_" + c2
			}
			add(c27PeerUp(p.pph, p.local, 179, 40000, so, ro, info), cls)
		case "rm":
			pph := p.pph
			if rapid.IntRange(0, 7).Draw(t, "rmflags") == 0 {
				pph.Flags ^= uint8(rapid.SampledFrom([]int{c27FlagL, c27FlagA, c27FlagV}).Draw(t, "flip"))
			}
			b, cls := c27GenBGPForRM(t, p)
			add(c27RouteMon(pph, b), cls)
		case "stats":
			n := rapid.IntRange(0, 3).Draw(t, "nstats")
			tl := [][]byte{}
			for k := 0; k < n; k++ {
				tl = append(tl, c27TLV(uint16(k), c27u32(uint32(k))))
			}
			cnt := uint32(n)
			cls := ""
			if rapid.IntRange(0, 2).Draw(t, "cntlie") == 0 {
				cnt = rapid.SampledFrom(c27Counts).Draw(t, "cnt")
				cls = "stats_count_lies"
				if cnt >= 1<<20 {
					cls = "stats_count_huge"
				}
			}
			add(c27Stats(p.pph, cnt, tl...), cls)
		case "down":
			reason := uint8(rapid.SampledFrom([]int{0, 1, 2, 3, 4, 5, 255}).Draw(t, "reason"))
			var data []byte
			switch rapid.IntRange(0, 3).Draw(t, "ddata") {
			case 0:
				data = c27Notification(6, 2, nil)
			case 1:
				data = []byte{0, 2}
			case 2:
				data = rapid.SliceOfN(rapid.Byte(), 0, 30).Draw(t, "draw")
			}
			add(c27PeerDown(p.pph, reason, data), "")
		case "term":
			switch rapid.IntRange(0, 5).Draw(t, "termk") {
			case 0:
				add(c27Termination(c27TLV(1, nil)), "term_reason_empty")
			case 1:
				add(c27Termination(c27TLV(1, []byte{3})), "term_reason_1byte")
			case 2:
				add(c27Termination(c27TLVRaw(1, 2, []byte{0})), "term_tlv_truncated")
			case 3:
				add(c27Termination(), "term_no_tlv")
			default:
				add(c27Termination(c27TLV(0, []byte("bye")), c27TLV(1, c27u16(uint16(rapid.IntRange(0, 5).Draw(t, "why"))))), "term")
			}
		case "mirror":
			add(c27Mirroring(p.pph, c27TLV(0, c27Keepalive()), c27TLVRaw(1, uint16(rapid.IntRange(0, 9).Draw(t, "ml")), c27u16(1))), "mirroring")
		case "unknown":
			pph := p.pph
			pph.Addr[15] ^= 0x40
			if rapid.Bool().Draw(t, "unk") {
				b, _ := c27GenUpdate(t, p)
				add(c27RouteMon(pph, b), "rm_unknown_peer")
			} else {
				add(c27PeerDown(pph, 4, nil), "down_unknown_peer")
			}
		case "init":
			add(c27Initiation(c27TLV(2, []byte("again"))), "init_repeated")
		}
	}
	// per-message framing mutations
	for k, n := 0, rapid.SampledFrom([]int{0, 0, 0, 1, 1, 2}).Draw(t, "nhdrmut"); k < n && len(msgs) > 0; k++ {
		i := rapid.IntRange(0, len(msgs)-1).Draw(t, "mi")
		m := append([]byte(nil), msgs[i]...)
		switch rapid.IntRange(0, 3).Draw(t, "hm") {
		case 0, 1:
			var l uint32
			if rapid.Bool().Draw(t, "rel") {
				l = uint32(int(len(m)) + rapid.SampledFrom([]int{-7, -2, -1, 1, 2, 42, 43}).Draw(t, "dl"))
			} else {
				l = rapid.SampledFrom(c27Lengths).Draw(t, "len")
			}
			copy(m[1:5], c27u32(l))
			switch {
			case l < 6:
				classes = append(classes, "hdr_len_short")
			case l >= 1<<20:
				classes = append(classes, "hdr_len_huge")
			default:
				classes = append(classes, "hdr_len_wrong")
			}
		case 2:
			m[0] = byte(rapid.SampledFrom([]int{0, 1, 2, 4, 255}).Draw(t, "ver"))
			classes = append(classes, "hdr_version")
		case 3:
			m[5] = byte(rapid.SampledFrom([]int{0, 1, 2, 3, 4, 5, 6, 7, 255}).Draw(t, "typ"))
			classes = append(classes, "hdr_type_swapped")
		}
		msgs[i] = m
	}
	return msgs, classes
}

// c27GenStream draws a full stream (conversation + stream-level mutations, or
// random bytes).
func c27GenStream(t *rapid.T, peers []c27GenPeer) ([]byte, []string) {
	switch rapid.IntRange(0, 11).Draw(t, "streamkind") {
	case 0:
		return rapid.SliceOfN(rapid.Byte(), 0, 200).Draw(t, "random"), []string{"random_bytes"}
	case 1: // valid-looking common header, random body
		body := rapid.SliceOfN(rapid.Byte(), 0, 120).Draw(t, "body")
		typ := uint8(rapid.IntRange(0, 7).Draw(t, "rtyp"))
		return c27BMP(typ, body), []string{"random_body"}
	}
	msgs, classes := c27GenConversation(t, peers)
	stream := c27cat(msgs...)
	switch rapid.IntRange(0, 9).Draw(t, "smut") {
	case 0:
		if len(stream) > 0 {
			for k, n := 0, rapid.IntRange(1, 3).Draw(t, "nflip"); k < n; k++ {
				i := rapid.IntRange(0, len(stream)-1).Draw(t, "fi")
				stream[i] ^= 1 << uint(rapid.IntRange(0, 7).Draw(t, "fb"))
			}
			classes = append(classes, "bitflip")
		}
	case 1:
		stream = stream[:rapid.IntRange(0, len(stream)).Draw(t, "trunc")]
		classes = append(classes, "truncated")
	case 2:
		i := rapid.IntRange(0, len(stream)).Draw(t, "ins")
		ins := rapid.SliceOfN(rapid.Byte(), 1, 8).Draw(t, "insb")
		stream = c27cat(stream[:i], ins, stream[i:])
		classes = append(classes, "inserted")
	}
	return stream, classes
}

func c27Classify(stream []byte) (frames, decoded int) {
	fr, _ := c27Frames(stream)
	for _, f := range fr {
		if _, err := bmppkt.Decode(f); err == nil {
			decoded++
		}
	}
	return len(fr), decoded
}

func TestVerifC27Serve(t *testing.T) {
	rec := kit.NewRecorder(t, "C27", c27Rule)
	defer func() {
		rec.Note("largest alloc/budget ratio %d permille (%d bytes allocated for a %d-byte stream)", c27Ratio.permille, c27Ratio.alloc, c27Ratio.n)
	}()
	rapid.Check(t, func(t *rapid.T) {
		c := rec.Case()
		defer c.Done()
		peers := c27GenPeers(t)
		nstreams := rapid.SampledFrom([]int{1, 1, 1, 2}).Draw(t, "nstreams")
		var streams [][]byte
		for i := 0; i < nstreams; i++ {
			s, classes := c27GenStream(t, peers)
			streams = append(streams, s)
			for _, cl := range classes {
				c.Class(cl)
			}
		}
		chunk := rapid.SampledFrom([]int{0, 0, 1, 3, 7, 64, 1500}).Draw(t, "chunk")
		cfg := RouterConfig{Passive: true}
		switch rapid.IntRange(0, 7).Draw(t, "cfg") {
		case 0:
			cfg.IgnorePeerASNs = []uint32{65001}
			c.Class("cfg_ignore_asn")
		case 1:
			cfg.IgnorePrePolicy = true
		case 2:
			cfg.IgnorePostPolicy = true
		}
		c.ClassIf(nstreams > 1, "reconnect")
		c.Logf("chunk %d cfg %+v", chunk, cfg)
		for _, s := range streams {
			c.Logf("stream %x", s)
		}
		c27Journal(streams, chunk, cfg)
		v, inc := c27Judge(streams, chunk, cfg)
		if inc {
			c27Inconclusive("watchdog expired without a conclusive wedge")
		}
		// classification after execution (uses the decoder under test only to label)
		nt := false
		for _, s := range streams {
			fr, dec := c27Classify(s)
			nt = nt || dec > 0
			c.ClassIf(fr > 0 && dec == fr, "all_frames_decode")
			c.ClassIf(dec == 0, "no_frame_decodes")
		}
		c.NonTrivialIf(nt)
		if v != "" {
			t.Fatalf("C27 violated: %s", v)
		}
	})
}

// ---------------------------------------------------------------------------
// deterministic regression inputs: one per defect class this check has found
// (kept so that re-introducing a removed bound is caught immediately).

func c27RegressionPeer() c27GenPeer {
	return c27GenPeer{
		pph:     c27PPH{Addr: c27V4(10, 0, 0, 2), AS: 65002, BGPID: 2},
		local:   c27V4(10, 0, 0, 1),
		localAS: 65000, localID: 1,
	}
}

type c27Regression struct {
	name    string
	streams [][]byte
}

func c27Regressions() []c27Regression {
	p := c27RegressionPeer()
	up := c27PeerUp(p.pph, p.local, 179, 40000, c27GoodOpen(65000, 1, false, 3), c27GoodOpen(65002, 2, false, 3), nil)
	init := c27Initiation(c27TLV(2, []byte("r1")))
	attrs := c27cat(c27AttrOrigin(0), c27AttrASPath([]uint32{65002}, true), c27AttrNextHop([4]byte{10, 0, 0, 2}))
	upd := c27Update(nil, attrs, []byte{24, 10, 1, 1})
	hdr := func(l uint32, typ uint8) []byte { return c27cat([]byte{3}, c27u32(l), []byte{typ}) }
	return []c27Regression{
		{"hdr_len_64MiB_after_init", [][]byte{c27cat(init, hdr(1<<26, 0), []byte{1, 2, 3})}},
		{"hdr_len_0", [][]byte{hdr(0, 4)}},
		{"hdr_len_5", [][]byte{c27cat(init, hdr(5, 4))}},
		{"stats_count_2^22", [][]byte{c27cat(init, up, c27Stats(p.pph, 1<<22))}},
		{"stats_count_2^21_truncated_tlv", [][]byte{c27Stats(p.pph, 1<<21, []byte{0, 1})}},
		{"term_reason_empty", [][]byte{c27cat(init, c27Termination(c27TLV(1, nil)))}},
		{"peerup_recv_open_as_differs", [][]byte{c27cat(init, c27PeerUp(p.pph, p.local, 179, 40000, c27GoodOpen(65000, 1, false, 3), c27GoodOpen(65003, 2, false, 3), nil))}},
		{"rm_notification", [][]byte{c27cat(init, up, c27RouteMon(p.pph, upd), c27RouteMon(p.pph, c27Notification(6, 2, nil)))}},
		{"rm_open", [][]byte{c27cat(init, up, c27RouteMon(p.pph, c27GoodOpen(65002, 2, false, 3)))}},
		{"rm_malformed_update", [][]byte{c27cat(init, up, c27RouteMon(p.pph, c27Update(nil, []byte{0x40, 1, 1}, nil)))}},
		{"rm_keepalive_then_update", [][]byte{c27cat(init, up, c27RouteMon(p.pph, c27Keepalive()), c27RouteMon(p.pph, upd))}},
		{"rm_empty_bgp", [][]byte{c27cat(init, up, c27RouteMon(p.pph, nil))}},
		{"duplicate_peer_up_then_down", [][]byte{c27cat(init, up, c27RouteMon(p.pph, upd), up, c27PeerDown(p.pph, 4, nil), c27PeerDown(p.pph, 4, nil))}},
		{"reconnect_after_eof_with_routes", [][]byte{c27cat(init, up, c27RouteMon(p.pph, upd)), c27cat(init, up, c27RouteMon(p.pph, upd), c27Termination(c27TLV(1, c27u16(0))))}},
		{"term_then_more", [][]byte{c27cat(init, up, c27RouteMon(p.pph, upd), c27Termination(c27TLV(1, c27u16(0))), c27RouteMon(p.pph, upd))}},
		// extremes last (only reached when everything above is within budget)
		{"hdr_len_2GiB", [][]byte{hdr(0x80000000, 0)}},
		{"hdr_len_4GiB", [][]byte{hdr(0xffffffff, 4)}},
		{"stats_count_2^32-1", [][]byte{c27cat(init, up, c27Stats(p.pph, 0xffffffff))}},
	}
}

func TestVerifC27Regressions(t *testing.T) {
	rec := kit.NewRecorder(t, "C27", c27Rule)
	for _, rg := range c27Regressions() {
		for _, chunk := range []int{0, 1} {
			c := rec.Case()
			c.Class("regression_" + rg.name)
			c.Logf("regression %s chunk %d", rg.name, chunk)
			for _, s := range rg.streams {
				c.Logf("stream %x", s)
			}
			c27Journal(rg.streams, chunk, RouterConfig{Passive: true})
			v, inc := c27Judge(rg.streams, chunk, RouterConfig{Passive: true})
			if inc {
				c27Inconclusive("watchdog expired in regression " + rg.name)
			}
			nt := false
			for _, s := range rg.streams {
				_, dec := c27Classify(s)
				nt = nt || dec > 0
			}
			c.NonTrivialIf(nt)
			c.Done()
			if v != "" {
				if os.Getenv("VERIF_C27_ALL") != "" && !strings.Contains(rg.name, "GiB") && !strings.Contains(rg.name, "2^32") {
					t.Errorf("C27 violated by regression input %q (chunk %d): %s", rg.name, chunk, c27FirstLines(v, 14))
					continue
				}
				t.Fatalf("C27 violated by regression input %q (chunk %d): %s", rg.name, chunk, v)
			}
		}
	}
}

// TestVerifC27ReplayJournal re-executes a journal written before a
// process-killing failure: VERIF_C27_JOURNAL=<file>.
func TestVerifC27ReplayJournal(t *testing.T) {
	fn := os.Getenv("VERIF_C27_JOURNAL")
	if fn == "" {
		t.Skip("VERIF_C27_JOURNAL not set")
	}
	b, err := os.ReadFile(fn)
	if err != nil {
		t.Fatal(err)
	}
	chunk := 0
	cfg := RouterConfig{Passive: true}
	var streams [][]byte
	for _, ln := range bytes.Split(b, []byte("\n")) {
		f := strings.Fields(string(ln))
		if len(f) == 2 && f[0] == "chunk" {
			fmt.Sscanf(f[1], "%d", &chunk)
		}
		if len(f) == 4 && f[0] == "cfg" {
			if f[1] != "0" {
				cfg.IgnorePeerASNs = []uint32{65001}
			}
			cfg.IgnorePrePolicy = f[2] == "true"
			cfg.IgnorePostPolicy = f[3] == "true"
		}
		if len(f) >= 1 && f[0] == "stream" {
			s := []byte{}
			if len(f) == 2 {
				s, err = hex.DecodeString(f[1])
				if err != nil {
					t.Fatal(err)
				}
			}
			streams = append(streams, s)
		}
	}
	v, inc := c27Judge(streams, chunk, cfg)
	if inc {
		t.Skip("inconclusive: watchdog")
	}
	if v != "" {
		t.Fatalf("C27 violated: %s", v)
	}
}

func c27FirstLines(s string, n int) string {
	ls := strings.Split(s, "\n")
	if len(ls) > n {
		ls = ls[:n]
	}
	return strings.Join(ls, "\n")
}

//go:build verif

package server

// C28 — the BMP receiver's per-VRF tables mirror the monitored sessions.
//
// A generated, well-formed BMP message sequence (initiation, peer-up,
// route monitoring with announcements/withdrawals for IPv4 and IPv6, with and
// without add-path, peer-down, termination, connection loss and reconnect) is
// fed message by message through the synchronous Router.processMsg; connection
// loss is the real serve() returning on EOF (its deferred cleanup). After
// every message an explicit model (per VRF, per up peer: the set of announced
// and not withdrawn routes with their attributes) is compared with the
// Loc-RIB dumps of Router.GetVRF(rd); observers registered on those tables
// (the way the RIS server registers: MaxPaths 100) must not keep a route of a
// peer that went down unless they were told Dispose().

import (
	"fmt"
	"net"
	"sort"
	"strings"
	"testing"

	bnet "github.com/bio-routing/bio-rd/net"
	"github.com/bio-routing/bio-rd/route"
	"github.com/bio-routing/bio-rd/routingtable"
	"github.com/bio-routing/bio-rd/routingtable/locRIB"
	"pgregory.net/rapid"
	kit "verifkit"
)

const c28Rule = "well-formed BMP histories over 2-3 peers in 2 VRFs (RDs), IPv4 and IPv6 peers, add-path yes/no, one policy flavour per peer (the other flavour only when the router is configured to ignore it): peer-up, announce/withdraw (IPv4 NLRI and IPv6 MP_REACH/MP_UNREACH, 1-3 prefixes per UPDATE, re-announcement with changed attributes, withdraw of unknown prefixes), statistics/initiation noise, route monitoring for a peer that is down, peer-down, termination, connection loss (serve returns on EOF) and reconnect. Non-trivial: at least two peers held routes in one VRF at the same time and a peer-down, termination or connection loss happened while routes were stored."

// ---------------------------------------------------------------------------
// model

type c28Route struct {
	pfx    string // canonical text, e.g. 10.0.1.0/24
	v6     bool
	pathID uint32
	nh     string
	lp     uint32
	med    uint32
	origin uint8
	asPath string
	post   bool
}

type c28Peer struct {
	idx      int
	bulkLeft int
	pph      c27PPH
	local    [16]byte
	localAS  uint32
	localID  uint32
	addPath  bool
	addrStr  string

	up     bool
	routes map[string]c28Route // key: prefix[#pathid]
}

func (p *c28Peer) key(pfx string, id uint32) string {
	if p.addPath {
		return fmt.Sprintf("%s#%d", pfx, id)
	}
	return pfx
}

// render gives the canonical text of one stored route of a peer.
func c28Render(src string, r c28Route, addPath bool) string {
	id := uint32(0)
	if addPath {
		id = r.pathID
	}
	return fmt.Sprintf("%s src=%s id=%d nh=%s lp=%d med=%d origin=%d aspath=[%s] post=%v", r.pfx, src, id, r.nh, r.lp, r.med, r.origin, r.asPath, r.post)
}

// c28RenderPath renders a path found in a table / given to an observer.
func c28RenderPath(pfx *bnet.Prefix, p *route.Path) string {
	if p == nil || p.BGPPath == nil || p.BGPPath.BGPPathA == nil {
		return fmt.Sprintf("%s <non-BGP path>", pfx.String())
	}
	a := p.BGPPath.BGPPathA
	src, nh := "<nil>", "<nil>"
	if a.Source != nil {
		src = a.Source.String()
	}
	if a.NextHop != nil {
		nh = a.NextHop.String()
	}
	asp := ""
	if p.BGPPath.ASPath != nil {
		asp = p.BGPPath.ASPath.String()
	}
	return fmt.Sprintf("%s src=%s id=%d nh=%s lp=%d med=%d origin=%d aspath=[%s] post=%v", pfx.String(), src, p.BGPPath.PathIdentifier, nh, a.LocalPref, a.MED, a.Origin, asp, p.BGPPath.BMPPostPolicy)
}

func c28SrcOf(rendered string) string {
	i := strings.Index(rendered, " src=")
	if i < 0 {
		return ""
	}
	s := rendered[i+5:]
	if j := strings.Index(s, " "); j >= 0 {
		s = s[:j]
	}
	return s
}

// ---------------------------------------------------------------------------
// observer (what the RIS server's ribClient is to a Loc-RIB)

type c28Observer struct {
	rd       uint64
	v6       bool
	rib      *locRIB.LocRIB
	view     map[string]int
	disposed bool
	events   int
}

func (o *c28Observer) AddPath(pfx *bnet.Prefix, p *route.Path) error {
	o.view[c28RenderPath(pfx, p)]++
	o.events++
	return nil
}
func (o *c28Observer) AddPathInitialDump(pfx *bnet.Prefix, p *route.Path) error {
	return o.AddPath(pfx, p)
}
func (o *c28Observer) EndOfRIB() {}
func (o *c28Observer) RemovePath(pfx *bnet.Prefix, p *route.Path) bool {
	k := c28RenderPath(pfx, p)
	o.events++
	if o.view[k] > 0 {
		o.view[k]--
		if o.view[k] == 0 {
			delete(o.view, k)
		}
	}
	return true
}
func (o *c28Observer) ReplacePath(pfx *bnet.Prefix, old *route.Path, new *route.Path) {
	o.RemovePath(pfx, old)
	o.AddPath(pfx, new)
}
func (o *c28Observer) RefreshRoute(*bnet.Prefix, []*route.Path) {}
func (o *c28Observer) Dispose()                                 { o.disposed = true }

// ---------------------------------------------------------------------------
// world: router under test + model

type c28World struct {
	r         *Router
	cfg       RouterConfig
	peers     []*c28Peer
	rds       []uint64
	observers []*c28Observer
	log       func(format string, args ...interface{})

	sawTwoPeersWithRoutes bool
	sawDownWithRoutes     bool

	// viaReader: every message goes through recvBMPMsg (the framing function of Router.serve) on a connection
	// that delivers it in chunks of `chunk` bytes, then to processMsg, as serve's loop does
	viaReader bool
	chunk     int
	readerErr string
}

func (w *c28World) deliver(msg []byte) {
	if !w.viaReader {
		w.r.processMsg(msg)
		return
	}
	got, err := recvBMPMsg(c27NewConn(msg, w.chunk))
	if err != nil {
		if w.readerErr == "" {
			w.readerErr = fmt.Sprintf("recvBMPMsg failed on a well-formed message of %d bytes: %v", len(msg), err)
		}
		return
	}
	w.r.processMsg(got)
}

func c28PrefixPool(v6 bool) []c27NLRI {
	if v6 {
		mk := func(l uint8, b ...byte) c27NLRI {
			a := make([]byte, 16)
			copy(a, b)
			return c27NLRI{Addr: a, Len: l}
		}
		return []c27NLRI{
			mk(48, 0x20, 0x01, 0x0d, 0xb8, 0, 1), mk(48, 0x20, 0x01, 0x0d, 0xb8, 0, 2), mk(64, 0x20, 0x01, 0x0d, 0xb8, 0, 1, 0, 1),
			mk(32, 0x20, 0x01, 0x0d, 0xb8), mk(0), mk(128, 0x20, 0x01, 0x0d, 0xb8, 0, 0, 0, 0, 0, 0, 0, 0, 0, 0, 0, 1),
		}
	}
	mk := func(l uint8, b ...byte) c27NLRI { return c27NLRI{Addr: b, Len: l} }
	return []c27NLRI{
		mk(24, 10, 0, 1, 0), mk(24, 10, 0, 2, 0), mk(24, 10, 0, 3, 0), mk(16, 10, 0, 0, 0),
		mk(25, 10, 0, 1, 128), mk(0, 0, 0, 0, 0), mk(32, 192, 0, 2, 1), mk(8, 10, 0, 0, 0),
	}
}

func c28PfxString(n c27NLRI) string {
	if len(n.Addr) == 4 {
		return fmt.Sprintf("%d.%d.%d.%d/%d", n.Addr[0], n.Addr[1], n.Addr[2], n.Addr[3], n.Len)
	}
	ip, _ := bnet.IPFromBytes(n.Addr)
	return fmt.Sprintf("%s/%d", ip.String(), n.Len)
}

func c28AddrString(a [16]byte, v6 bool) string {
	if v6 {
		ip, _ := bnet.IPFromBytes(a[:])
		return ip.String()
	}
	return fmt.Sprintf("%d.%d.%d.%d", a[12], a[13], a[14], a[15])
}

func (w *c28World) peerUpMsg(p *c28Peer) []byte {
	mode := uint16(3)
	so := c27GoodOpen(p.localAS, p.localID, p.addPath, mode)
	ro := c27GoodOpen(p.pph.AS, p.pph.BGPID, p.addPath, mode)
	return c27PeerUp(p.pph, p.local, 179, 40000, so, ro, nil)
}

// c28Update is one generated UPDATE for one peer.
type c28Update struct {
	v6       bool
	announce []c27NLRI
	withdraw []c27NLRI
	attrs    c28Route // template (nh, lp, med, origin, aspath)
	asns     []uint32
	legacy   bool // AS_PATH in the legacy 2-octet format (the message carries the A flag, RFC 7854 4.2)
}

func (u c28Update) bytes(addPath bool) []byte {
	attrs := c27cat(c27AttrOrigin(u.attrs.origin), c27AttrASPath(u.asns, !u.legacy), c27AttrLocalPref(u.attrs.lp), c27AttrMED(u.attrs.med))
	if u.v6 {
		var nh [16]byte
		nh[0], nh[1], nh[2], nh[3], nh[15] = 0x20, 0x01, 0x0d, 0xb8, 0x99
		if len(u.announce) == 0 {
			attrs = nil
		}
		if len(u.withdraw) > 0 {
			attrs = append(attrs, c27AttrMPUnreach(u.withdraw, addPath)...)
		}
		if len(u.announce) > 0 {
			attrs = append(attrs, c27AttrMPReach(nh, u.announce, addPath)...)
		}
		return c27Update(nil, attrs, nil)
	}
	if len(u.announce) == 0 {
		attrs = nil
	} else {
		attrs = append(attrs, c27AttrNextHop([4]byte{10, 9, 9, byte(u.attrs.med + 1)})...)
	}
	return c27Update(c27NLRIs(u.withdraw, addPath), attrs, c27NLRIs(u.announce, addPath))
}

func (u c28Update) nextHop() string {
	if u.v6 {
		return "2001:db8::99"
	}
	return fmt.Sprintf("10.9.9.%d", u.attrs.med+1)
}

// apply updates the model of peer p.
func (u c28Update) apply(p *c28Peer, post bool) {
	for _, n := range u.withdraw {
		delete(p.routes, p.key(c28PfxString(n), n.PathID))
	}
	for _, n := range u.announce {
		r := u.attrs
		r.pfx = c28PfxString(n)
		r.v6 = u.v6
		r.pathID = n.PathID
		r.nh = u.nextHop()
		r.post = post
		p.routes[p.key(r.pfx, n.PathID)] = r
	}
}

func c28ASPathString(asns []uint32) string {
	parts := make([]string, len(asns))
	for i, a := range asns {
		parts[i] = fmt.Sprintf("%d", a)
	}
	return strings.Join(parts, " ")
}

// expected renders the model of one table.
func (w *c28World) expected(rd uint64, v6 bool) []string {
	out := []string{}
	for _, p := range w.peers {
		if !p.up || p.pph.RD != rd {
			continue
		}
		for _, r := range p.routes {
			if r.v6 == v6 {
				out = append(out, c28Render(p.addrStr, r, p.addPath))
			}
		}
	}
	sort.Strings(out)
	return out
}

func (w *c28World) actual(rd uint64, v6 bool) (rows []string, present bool) {
	v := w.r.GetVRF(rd)
	if v == nil {
		return nil, false
	}
	rib := v.IPv4UnicastRIB()
	if v6 {
		rib = v.IPv6UnicastRIB()
	}
	if rib == nil {
		return nil, false
	}
	rows = []string{}
	for _, rt := range rib.Dump() {
		for _, p := range rt.Paths() {
			rows = append(rows, c28RenderPath(rt.Prefix(), p))
		}
	}
	sort.Strings(rows)
	return rows, true
}

// attachObservers registers an observer on every table that has none yet.
func (w *c28World) attachObservers() {
	for _, rd := range w.rds {
		v := w.r.GetVRF(rd)
		if v == nil {
			continue
		}
		for _, v6 := range []bool{false, true} {
			rib := v.IPv4UnicastRIB()
			if v6 {
				rib = v.IPv6UnicastRIB()
			}
			if rib == nil {
				continue
			}
			have := false
			for _, o := range w.observers {
				if o.rib == rib && !o.disposed {
					have = true
				}
			}
			if have {
				continue
			}
			o := &c28Observer{rd: rd, v6: v6, rib: rib, view: map[string]int{}}
			w.observers = append(w.observers, o)
			rib.RegisterWithOptions(o, routingtable.ClientOptions{MaxPaths: 100})
		}
	}
}

// check compares model and tables; returns a violation text or "".
func (w *c28World) check(after string) string {
	if w.readerErr != "" {
		return w.readerErr
	}
	for _, rd := range w.rds {
		for _, v6 := range []bool{false, true} {
			want := w.expected(rd, v6)
			got, present := w.actual(rd, v6)
			if !present {
				got = []string{}
			}
			if strings.Join(want, "\n") != strings.Join(got, "\n") {
				fam := "IPv4"
				if v6 {
					fam = "IPv6"
				}
				return fmt.Sprintf("after %s: %s table of VRF rd=%d (present=%v) differs from the routes announced and not withdrawn by its up peers\n  table:\n    %s\n  model:\n    %s",
					after, fam, rd, present, strings.Join(got, "\n    "), strings.Join(want, "\n    "))
			}
		}
	}
	// observers: nothing of a peer that is down may remain, unless Dispose() was signalled
	for _, o := range w.observers {
		if o.disposed {
			continue
		}
		for k := range o.view {
			src := c28SrcOf(k)
			alive := false
			for _, p := range w.peers {
				if p.up && p.pph.RD == o.rd && p.addrStr == src {
					alive = true
				}
			}
			if !alive {
				return fmt.Sprintf("after %s: observer of VRF rd=%d (v6=%v) was never told that %q went away (peer %s is not up) and got no Dispose()", after, o.rd, o.v6, k, src)
			}
		}
	}
	// coverage bookkeeping
	for _, rd := range w.rds {
		n := 0
		for _, p := range w.peers {
			if p.up && p.pph.RD == rd && len(p.routes) > 0 {
				n++
			}
		}
		if n >= 2 {
			w.sawTwoPeersWithRoutes = true
		}
	}
	return ""
}

func (w *c28World) allDown() {
	for _, p := range w.peers {
		if p.up && len(p.routes) > 0 {
			w.sawDownWithRoutes = true
		}
		p.up = false
		p.routes = map[string]c28Route{}
	}
}

// loss makes the real serve() run into EOF: its deferred cleanup is what the
// receiver does when the BMP connection is lost.
func (w *c28World) loss() {
	_ = w.r.serve(c27NewConn(nil, 0))
	w.allDown()
	// a fresh connection for the next session (processTerminationMsg closes r.con)
	w.r.con = c27NewConn(nil, 0)
}

func c28GenWorld(t *rapid.T, logf func(string, ...interface{})) *c28World {
	w := &c28World{log: logf}
	w.cfg = RouterConfig{Passive: true}
	switch rapid.IntRange(0, 9).Draw(t, "cfg") {
	case 0:
		w.cfg.IgnorePrePolicy = true
	case 1:
		w.cfg.IgnorePostPolicy = true
	}
	// route distinguishers: type 0 (2-octet AS : 4-octet number), type 1 (IPv4 : 2-octet number), type 2
	// (4-octet AS : 2-octet number) or no VRF; the second VRF's differs from the first in one bit anywhere
	w.rds = []uint64{rapid.SampledFrom([]uint64{0, 100, 0x0000fde800000064, 0x0001c0000201000a, 0x00020003fde80007}).Draw(t, "rdA"), 0}
	w.rds[1] = w.rds[0] ^ 1<<uint(rapid.SampledFrom([]int{0, 0, 16, 31, 32, 47, 48, 49, 63}).Draw(t, "rdB_bit"))
	n := rapid.IntRange(2, 3).Draw(t, "npeers")
	for i := 0; i < n; i++ {
		p := &c28Peer{idx: i, routes: map[string]c28Route{}}
		v6 := rapid.IntRange(0, 3).Draw(t, "peer_v6") == 0
		p.pph.RD = w.rds[0]
		if i == 2 && rapid.Bool().Draw(t, "rdB") {
			p.pph.RD = w.rds[1]
		}
		if v6 {
			p.pph.Flags |= c27FlagV
			p.pph.Addr[0], p.pph.Addr[1], p.pph.Addr[2], p.pph.Addr[3] = 0x20, 0x01, 0x0d, 0xb8
			p.pph.Addr[15] = byte(i + 1)
			p.local = p.pph.Addr
			p.local[15] = 0x10
		} else {
			// peer 2 in the second VRF may reuse the address of peer 0 (same address, different RD)
			last := byte(i + 1)
			if i == 2 && p.pph.RD == w.rds[1] && rapid.Bool().Draw(t, "sameaddr") {
				last = 1
			}
			p.pph.Addr = c27V4(10, 0, 0, last)
			p.local = c27V4(10, 0, 0, 100)
		}
		// the other flavour than the ignored one (if any), else drawn
		post := rapid.Bool().Draw(t, "post")
		if w.cfg.IgnorePrePolicy {
			post = true
		}
		if w.cfg.IgnorePostPolicy {
			post = false
		}
		if post {
			p.pph.Flags |= c27FlagL
		}
		p.pph.AS = rapid.SampledFrom([]uint32{65001, 65002, 65000, 4200000001}).Draw(t, "peeras")
		p.pph.BGPID = uint32(0x0a000000 + i + 1)
		p.pph.TS = 1700000000
		p.localAS = 65000
		p.localID = 0x0a0000fe
		p.addPath = rapid.IntRange(0, 2).Draw(t, "addpath") == 0
		p.addrStr = c28AddrString(p.pph.Addr, v6)
		if i == 0 && rapid.IntRange(0, 5).Draw(t, "bulk_case") == 0 {
			p.bulkLeft = 1 // one table-dump sized UPDATE in this history
		}
		w.peers = append(w.peers, p)
		logf("peer %d rd=%d addr=%s as=%d addpath=%v post=%v", i, p.pph.RD, p.addrStr, p.pph.AS, p.addPath, post)
	}
	// two peers of one VRF must not share an address (they would be one peer)
	w.r = newRouter(net.IP{10, 0, 0, 254}, 1790, adjRIBInFactory{}, w.cfg)
	w.r.con = c27NewConn(nil, 0)
	if rapid.Bool().Draw(t, "via_reader") {
		w.viaReader = true
		w.chunk = rapid.SampledFrom([]int{0, 1, 7, 1000, 4096}).Draw(t, "chunk")
	}
	logf("messages through recvBMPMsg: %v (chunk %d)", w.viaReader, w.chunk)
	return w
}

func c28GenUpdate(t *rapid.T, p *c28Peer) c28Update {
	u := c28Update{v6: rapid.IntRange(0, 2).Draw(t, "upd_v6") == 0}
	pool := c28PrefixPool(u.v6)
	if !u.v6 && p.bulkLeft > 0 && rapid.IntRange(0, 5).Draw(t, "bulk") == 0 {
		p.bulkLeft--
		// table-dump sized UPDATE: several hundred /24s with one attribute set (a BMP message above 4096 bytes
		// once the per-peer header is in front of a full-size UPDATE)
		k := rapid.SampledFrom([]int{250, 900, 1005}).Draw(t, "bulk_n")
		id := uint32(0)
		if p.addPath {
			k = (k + 1) / 2
			id = uint32(rapid.IntRange(1, 3).Draw(t, "bulk_id"))
		}
		for i := 0; i < k; i++ {
			u.announce = append(u.announce, c27NLRI{Addr: []byte{20, byte(i >> 8), byte(i), 0}, Len: 24, PathID: id})
		}
		u.asns = []uint32{65001}
		u.attrs = c28Route{lp: 100, med: uint32(rapid.IntRange(0, 3).Draw(t, "bulk_med")), asPath: c28ASPathString(u.asns)}
		return u
	}
	kind := rapid.SampledFrom([]string{"ann", "ann", "ann", "wd", "both"}).Draw(t, "kind")
	used := map[string]bool{}
	pick := func(label string) (c27NLRI, bool) {
		n := pool[rapid.IntRange(0, len(pool)-1).Draw(t, label)]
		if p.addPath {
			n.PathID = uint32(rapid.IntRange(1, 3).Draw(t, label+"_id"))
		}
		k := p.key(c28PfxString(n), n.PathID)
		if used[k] {
			return n, false
		}
		used[k] = true
		return n, true
	}
	if kind == "ann" || kind == "both" {
		for i, k := 0, rapid.IntRange(1, 3).Draw(t, "nann"); i < k; i++ {
			if n, ok := pick("ann"); ok {
				u.announce = append(u.announce, n)
			}
		}
	}
	if kind == "wd" || kind == "both" {
		for i, k := 0, rapid.IntRange(1, 2).Draw(t, "nwd"); i < k; i++ {
			if n, ok := pick("wd"); ok {
				u.withdraw = append(u.withdraw, n)
			}
		}
	}
	// attributes; the AS path is never empty (an eBGP route without AS path is
	// ineligible by RFC 4271 5.1.2 and is not stored in the Loc-RIB) and never
	// contains the monitored router's own AS.
	nas := rapid.IntRange(1, 3).Draw(t, "nas")
	for i := 0; i < nas; i++ {
		u.asns = append(u.asns, rapid.SampledFrom([]uint32{65001, 65002, 3320, 15169, 4200000001}).Draw(t, "asn"))
	}
	u.attrs = c28Route{
		lp:     uint32(rapid.IntRange(1, 3).Draw(t, "lp")) * 100,
		med:    uint32(rapid.IntRange(0, 3).Draw(t, "med")),
		origin: uint8(rapid.IntRange(0, 2).Draw(t, "origin")),
		asPath: c28ASPathString(u.asns),
	}
	return u
}

func c28Describe(u c28Update) string {
	var a, wd []string
	for _, n := range u.announce {
		a = append(a, fmt.Sprintf("%s#%d", c28PfxString(n), n.PathID))
	}
	for _, n := range u.withdraw {
		wd = append(wd, fmt.Sprintf("%s#%d", c28PfxString(n), n.PathID))
	}
	return fmt.Sprintf("announce %v withdraw %v lp=%d med=%d origin=%d aspath=[%s]", a, wd, u.attrs.lp, u.attrs.med, u.attrs.origin, u.attrs.asPath)
}

// c28Run executes one generated history; returns a violation or "".
func c28Run(t *rapid.T, c *kit.Case) string {
	w := c28GenWorld(t, c.Logf)
	w.deliver(c27Initiation(c27TLV(2, []byte("r1"))))
	nsteps := rapid.IntRange(4, 50).Draw(t, "nsteps")
	for s := 0; s < nsteps; s++ {
		p := w.peers[rapid.IntRange(0, len(w.peers)-1).Draw(t, "peer")]
		step := rapid.SampledFrom([]string{"up", "up", "rm", "rm", "rm", "rm", "rm", "rm", "rm", "rm", "rm", "rm", "rm", "rm", "down", "down", "noise", "term", "loss", "eor"}).Draw(t, "step")
		desc := ""
		if step == "rm" && !p.up && rapid.IntRange(0, 7).Draw(t, "rm_down_anyway") != 0 {
			step = "up" // mostly bring the peer up instead of talking about a peer that is down
		}
		switch step {
		case "up":
			if p.up {
				// a second peer-up for an established peer is not well-formed; announce instead
				step = "rm"
			} else {
				desc = fmt.Sprintf("peer-up peer %d", p.idx)
				w.deliver(w.peerUpMsg(p))
				p.up = true
				p.routes = map[string]c28Route{}
				c.Class("peer_up")
			}
		}
		switch step {
		case "up":
		case "rm":
			u := c28GenUpdate(t, p)
			pph := p.pph
			ignoredFlavour := false
			if (w.cfg.IgnorePrePolicy || w.cfg.IgnorePostPolicy) && rapid.IntRange(0, 3).Draw(t, "otherflavour") == 0 {
				pph.Flags ^= c27FlagL // the flavour the router is configured to ignore
				ignoredFlavour = true
				c.Class("rm_ignored_flavour")
			}
			fits := true
			for _, a := range u.asns {
				fits = fits && a <= 65535
			}
			if fits && rapid.IntRange(0, 3).Draw(t, "legacy_aspath") == 0 {
				u.legacy = true
				pph.Flags |= c27FlagA
				c.Class("rm_legacy_aspath_format")
			}
			desc = fmt.Sprintf("route-monitoring peer %d (up=%v ignoredFlavour=%v A=%v) %s", p.idx, p.up, ignoredFlavour, u.legacy, c28Describe(u))
			w.deliver(c27RouteMon(pph, u.bytes(p.addPath)))
			if p.up && !ignoredFlavour {
				u.apply(p, p.pph.Flags&c27FlagL != 0)
			}
			c.ClassIf(!p.up, "rm_for_down_peer")
			c.ClassIf(p.addPath, "rm_addpath")
			c.ClassIf(u.v6, "rm_v6")
			c.ClassIf(len(u.withdraw) > 0, "rm_withdraw")
		case "eor":
			desc = fmt.Sprintf("end-of-rib peer %d", p.idx)
			w.deliver(c27RouteMon(p.pph, c27Update(nil, nil, nil)))
		case "down":
			desc = fmt.Sprintf("peer-down peer %d (up=%v, %d routes)", p.idx, p.up, len(p.routes))
			reason := uint8(rapid.SampledFrom([]int{1, 2, 3, 4, 5}).Draw(t, "reason"))
			var data []byte
			switch reason {
			case 1, 3:
				data = c27Notification(6, 2, nil)
			case 2:
				data = []byte{0, 1}
			}
			w.deliver(c27PeerDown(p.pph, reason, data))
			if p.up && len(p.routes) > 0 {
				w.sawDownWithRoutes = true
				c.Class("down_with_routes")
			}
			p.up = false
			p.routes = map[string]c28Route{}
		case "noise":
			desc = "stats + initiation"
			w.deliver(c27Stats(p.pph, 1, c27TLV(7, c27u64(3))))
			w.deliver(c27Initiation(c27TLV(0, []byte("x"))))
		case "term":
			desc = "termination"
			w.deliver(c27Termination(c27TLV(0, []byte("bye")), c27TLV(1, c27u16(0))))
			w.allDown()
			c.Class("termination")
			if v := w.check(fmt.Sprintf("step %d: %s", s, desc)); v != "" {
				return v
			}
			// the router closed the connection: serve() ends
			w.loss()
			desc = "termination + connection closed"
		case "loss":
			desc = "connection loss"
			w.loss()
			c.Class("connection_loss")
		}
		c.Logf("step %d: %s", s, desc)
		if v := w.check(fmt.Sprintf("step %d: %s", s, desc)); v != "" {
			return v
		}
		if step == "loss" || step == "term" {
			// nothing of the session may remain
			for _, rd := range w.rds {
				if v := w.r.GetVRF(rd); v != nil {
					for _, rib := range []*locRIB.LocRIB{v.IPv4UnicastRIB(), v.IPv6UnicastRIB()} {
						if rib != nil && rib.RouteCount() != 0 {
							return fmt.Sprintf("after %s: VRF rd=%d still holds %d routes", desc, rd, rib.RouteCount())
						}
					}
				}
			}
			for _, o := range w.observers {
				if !o.disposed && len(o.view) > 0 {
					return fmt.Sprintf("after %s: observer of VRF rd=%d still holds %d paths and got no Dispose()", desc, o.rd, len(o.view))
				}
			}
			if n := len(w.r.neighborManager.list()); n != 0 {
				return fmt.Sprintf("after %s: %d neighbors still registered", desc, n)
			}
		}
		w.attachObservers()
	}
	c.ClassIf(w.sawTwoPeersWithRoutes, "two_peers_one_vrf")
	c.NonTrivialIf(w.sawTwoPeersWithRoutes && w.sawDownWithRoutes)
	return ""
}

func TestVerifC28Mirror(t *testing.T) {
	rec := kit.NewRecorder(t, "C28", c28Rule)
	rapid.Check(t, func(t *rapid.T) {
		c := rec.Case()
		defer c.Done()
		if v := c28Run(t, c); v != "" {
			t.Fatalf("C28 violated: %s\nhistory:\n%s", v, c.String())
		}
	})
}

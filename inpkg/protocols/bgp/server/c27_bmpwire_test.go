//go:build verif

package server

// Harness-owned BMP/BGP wire builders and a race-free in-memory net.Conn.
// Used by the C27 (robustness) and C28 (table mirror) checks. Nothing in this
// file is an oracle; the builders only *generate* bytes (RFC 7854 / RFC 4271 /
// RFC 4760 / RFC 7911 layouts written out by hand, no bio-rd serializer).

import (
	"encoding/binary"
	"errors"
	"io"
	"net"
	"sync"
	"time"
)

// ---------------------------------------------------------------------------
// in-memory conn

// c27Conn is a net.Conn whose read side is a pre-filled byte string ending in
// EOF. Reads are delivered in chunks of at most `chunk` bytes (0 = unlimited)
// to emulate TCP segmentation. Writes are counted and discarded. After Close
// every Read fails. All methods are safe for concurrent use.
type c27Conn struct {
	mu      sync.Mutex
	data    []byte
	pos     int
	chunk   int
	closed  bool
	closes  int
	written int
	reads   int
}

func c27NewConn(data []byte, chunk int) *c27Conn {
	return &c27Conn{data: data, chunk: chunk}
}

var errC27Closed = errors.New("c27Conn: use of closed connection")

func (c *c27Conn) Read(p []byte) (int, error) {
	c.mu.Lock()
	defer c.mu.Unlock()
	c.reads++
	if c.closed {
		return 0, errC27Closed
	}
	if len(p) == 0 {
		return 0, nil
	}
	if c.pos >= len(c.data) {
		return 0, io.EOF
	}
	n := len(p)
	if c.chunk > 0 && n > c.chunk {
		n = c.chunk
	}
	if n > len(c.data)-c.pos {
		n = len(c.data) - c.pos
	}
	copy(p, c.data[c.pos:c.pos+n])
	c.pos += n
	return n, nil
}

func (c *c27Conn) Write(p []byte) (int, error) {
	c.mu.Lock()
	defer c.mu.Unlock()
	if c.closed {
		return 0, errC27Closed
	}
	c.written += len(p)
	return len(p), nil
}

func (c *c27Conn) Close() error {
	c.mu.Lock()
	defer c.mu.Unlock()
	c.closed = true
	c.closes++
	return nil
}

func (c *c27Conn) isClosed() bool {
	c.mu.Lock()
	defer c.mu.Unlock()
	return c.closed
}

func (c *c27Conn) consumed() int {
	c.mu.Lock()
	defer c.mu.Unlock()
	return c.pos
}

type c27Addr struct{}

func (c27Addr) Network() string { return "c27" }
func (c27Addr) String() string  { return "c27:0" }

func (c *c27Conn) LocalAddr() net.Addr                { return c27Addr{} }
func (c *c27Conn) RemoteAddr() net.Addr               { return c27Addr{} }
func (c *c27Conn) SetDeadline(t time.Time) error      { return nil }
func (c *c27Conn) SetReadDeadline(t time.Time) error  { return nil }
func (c *c27Conn) SetWriteDeadline(t time.Time) error { return nil }

// ---------------------------------------------------------------------------
// byte helpers

func c27u16(v uint16) []byte { b := make([]byte, 2); binary.BigEndian.PutUint16(b, v); return b }
func c27u32(v uint32) []byte { b := make([]byte, 4); binary.BigEndian.PutUint32(b, v); return b }
func c27u64(v uint64) []byte { b := make([]byte, 8); binary.BigEndian.PutUint64(b, v); return b }

func c27cat(parts ...[]byte) []byte {
	n := 0
	for _, p := range parts {
		n += len(p)
	}
	out := make([]byte, 0, n)
	for _, p := range parts {
		out = append(out, p...)
	}
	return out
}

// ---------------------------------------------------------------------------
// BMP (RFC 7854)

const (
	c27MsgRouteMon  = 0
	c27MsgStats     = 1
	c27MsgPeerDown  = 2
	c27MsgPeerUp    = 3
	c27MsgInit      = 4
	c27MsgTerm      = 5
	c27MsgMirroring = 6

	c27FlagV = 0x80 // IPv6 peer address
	c27FlagL = 0x40 // post-policy
	c27FlagA = 0x20 // legacy 2-byte AS_PATH
)

// c27BMP frames body with the common header (version 3, length = 6+len(body)).
func c27BMP(typ uint8, body []byte) []byte {
	return c27cat([]byte{3}, c27u32(uint32(6+len(body))), []byte{typ}, body)
}

// c27PPH is the 42-byte per-peer header.
type c27PPH struct {
	PeerType uint8
	Flags    uint8
	RD       uint64
	Addr     [16]byte
	AS       uint32
	BGPID    uint32
	TS       uint32
	TSus     uint32
}

func (p c27PPH) bytes() []byte {
	return c27cat([]byte{p.PeerType, p.Flags}, c27u64(p.RD), p.Addr[:], c27u32(p.AS), c27u32(p.BGPID), c27u32(p.TS), c27u32(p.TSus))
}

// c27V4 maps an IPv4 address into the 16-byte BMP address field.
func c27V4(a, b, c, d byte) [16]byte {
	var r [16]byte
	r[12], r[13], r[14], r[15] = a, b, c, d
	return r
}

func c27TLV(typ uint16, val []byte) []byte {
	return c27cat(c27u16(typ), c27u16(uint16(len(val))), val)
}

// c27TLVRaw lets the caller lie about the length.
func c27TLVRaw(typ uint16, declared uint16, val []byte) []byte {
	return c27cat(c27u16(typ), c27u16(declared), val)
}

func c27Initiation(tlvs ...[]byte) []byte  { return c27BMP(c27MsgInit, c27cat(tlvs...)) }
func c27Termination(tlvs ...[]byte) []byte { return c27BMP(c27MsgTerm, c27cat(tlvs...)) }

func c27PeerUp(pph c27PPH, local [16]byte, lport, rport uint16, sentOpen, recvOpen, info []byte) []byte {
	return c27BMP(c27MsgPeerUp, c27cat(pph.bytes(), local[:], c27u16(lport), c27u16(rport), sentOpen, recvOpen, info))
}

func c27PeerDown(pph c27PPH, reason uint8, data []byte) []byte {
	return c27BMP(c27MsgPeerDown, c27cat(pph.bytes(), []byte{reason}, data))
}

func c27RouteMon(pph c27PPH, bgp []byte) []byte {
	return c27BMP(c27MsgRouteMon, c27cat(pph.bytes(), bgp))
}

func c27Stats(pph c27PPH, count uint32, tlvs ...[]byte) []byte {
	return c27BMP(c27MsgStats, c27cat(pph.bytes(), c27u32(count), c27cat(tlvs...)))
}

func c27Mirroring(pph c27PPH, tlvs ...[]byte) []byte {
	return c27BMP(c27MsgMirroring, c27cat(pph.bytes(), c27cat(tlvs...)))
}

// ---------------------------------------------------------------------------
// BGP (RFC 4271)

func c27BGP(typ uint8, body []byte) []byte {
	m := make([]byte, 16, 19+len(body))
	for i := range m {
		m[i] = 0xff
	}
	m = append(m, c27u16(uint16(19+len(body)))...)
	m = append(m, typ)
	return append(m, body...)
}

func c27Keepalive() []byte { return c27BGP(4, nil) }

func c27Notification(code, sub uint8, data []byte) []byte {
	return c27BGP(3, c27cat([]byte{code, sub}, data))
}

// capability encodings (each returned slice is one capability TLV)
func c27CapMP(afi uint16, safi uint8) []byte {
	return c27cat([]byte{1, 4}, c27u16(afi), []byte{0, safi})
}
func c27CapASN4(asn uint32) []byte { return c27cat([]byte{65, 4}, c27u32(asn)) }

// c27CapAddPath: tuples of (afi, safi, send/receive)
func c27CapAddPath(tuples ...[3]uint16) []byte {
	v := []byte{}
	for _, t := range tuples {
		v = append(v, c27u16(t[0])...)
		v = append(v, byte(t[1]), byte(t[2]))
	}
	return c27cat([]byte{69, byte(len(v))}, v)
}

// c27Open builds an OPEN; every capability travels in its own optional
// parameter of type 2 (what most implementations emit).
func c27Open(as2 uint16, hold uint16, id uint32, caps ...[]byte) []byte {
	opt := []byte{}
	for _, c := range caps {
		opt = append(opt, 2, byte(len(c)))
		opt = append(opt, c...)
	}
	body := c27cat([]byte{4}, c27u16(as2), c27u16(hold), c27u32(id), []byte{byte(len(opt))}, opt)
	return c27BGP(1, body)
}

// c27AS2 gives the 2-byte "My Autonomous System" value for an ASN.
func c27AS2(asn uint32) uint16 {
	if asn > 65535 {
		return 23456
	}
	return uint16(asn)
}

// path attributes
func c27Attr(flags, typ uint8, val []byte) []byte {
	if len(val) > 255 {
		return c27cat([]byte{flags | 0x10, typ}, c27u16(uint16(len(val))), val)
	}
	return c27cat([]byte{flags &^ 0x10, typ, byte(len(val))}, val)
}

func c27AttrOrigin(o uint8) []byte { return c27Attr(0x40, 1, []byte{o}) }

// c27AttrASPath: one AS_SEQUENCE; as4 selects 4-byte ASNs.
func c27AttrASPath(asns []uint32, as4 bool) []byte {
	v := []byte{}
	if len(asns) > 0 {
		v = append(v, 2, byte(len(asns)))
		for _, a := range asns {
			if as4 {
				v = append(v, c27u32(a)...)
			} else {
				v = append(v, c27u16(uint16(a))...)
			}
		}
	}
	return c27Attr(0x40, 2, v)
}

func c27AttrNextHop(nh [4]byte) []byte { return c27Attr(0x40, 3, nh[:]) }
func c27AttrMED(v uint32) []byte       { return c27Attr(0x80, 4, c27u32(v)) }
func c27AttrLocalPref(v uint32) []byte { return c27Attr(0x40, 5, c27u32(v)) }
func c27AttrCommunities(cs ...uint32) []byte {
	v := []byte{}
	for _, c := range cs {
		v = append(v, c27u32(c)...)
	}
	return c27Attr(0xc0, 8, v)
}

// c27NLRI is one prefix in NLRI encoding (optionally preceded by a path id).
type c27NLRI struct {
	Addr   []byte // 4 or 16 bytes, host bits zero
	Len    uint8
	PathID uint32
}

func (n c27NLRI) bytes(addPath bool) []byte {
	out := []byte{}
	if addPath {
		out = append(out, c27u32(n.PathID)...)
	}
	out = append(out, n.Len)
	return append(out, n.Addr[:(int(n.Len)+7)/8]...)
}

func c27NLRIs(ns []c27NLRI, addPath bool) []byte {
	out := []byte{}
	for _, n := range ns {
		out = append(out, n.bytes(addPath)...)
	}
	return out
}

// c27AttrMPReach: IPv6 unicast MP_REACH_NLRI with a 16-byte next hop.
func c27AttrMPReach(nh [16]byte, ns []c27NLRI, addPath bool) []byte {
	v := c27cat(c27u16(2), []byte{1, 16}, nh[:], []byte{0}, c27NLRIs(ns, addPath))
	return c27Attr(0x80, 14, v)
}

func c27AttrMPUnreach(ns []c27NLRI, addPath bool) []byte {
	v := c27cat(c27u16(2), []byte{1}, c27NLRIs(ns, addPath))
	return c27Attr(0x80, 15, v)
}

// c27Update builds an UPDATE from raw withdrawn-routes, attribute and NLRI bytes.
func c27Update(withdrawn, attrs, nlri []byte) []byte {
	return c27BGP(2, c27cat(c27u16(uint16(len(withdrawn))), withdrawn, c27u16(uint16(len(attrs))), attrs, nlri))
}

// c27Frames splits a stream the way a BMP receiver must (6-byte common header,
// 4-byte length at offset 1). Used for classification of generated streams
// only. Stops at the first frame that is short, has a length < 6 or runs past
// the end of the stream.
func c27Frames(stream []byte) (frames [][]byte, rest []byte) {
	for len(stream) >= 6 {
		l := binary.BigEndian.Uint32(stream[1:5])
		if l < 6 || uint64(l) > uint64(len(stream)) {
			break
		}
		frames = append(frames, stream[:l])
		stream = stream[l:]
	}
	return frames, stream
}

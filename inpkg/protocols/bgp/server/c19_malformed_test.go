//go:build verif

package server

// C19 - malformed UPDATEs never install routes.
//
// Generator: valid UPDATE (c19GenMsg) + one or two mutations from a catalogue.
// Self-check: the kit's strict reference parser accepts the original and
// rejects the mutant for one of the four clauses of the statement
//   a  withdrawn / attribute / NLRI lengths do not add up to the message length
//   b  an attribute's content does not match its declared length
//   c  an announced NLRI has a prefix length > 32 (IPv4) / > 128 (IPv6, MP_REACH)
//   d  reachable NLRI without ORIGIN, AS_PATH or next hop
// (anything else the parser might say - duplicate attribute, unknown segment
// type, a bad length in the *withdrawn* routes - is not a C19 clause: the
// mutation is discarded and counted).
// Oracle: the mutant goes through establishedState.msgReceived of a
// synchronous rig that already holds routes from valid UPDATEs (learn time
// 1000); afterwards every (table, prefix, path) of Adj-RIB-In and LocRIB must
// already have been there before the mutant (learn time 2000) was processed,
// and nothing may panic. Removal of routes (treat-as-withdraw, session reset)
// is not judged.

import (
	"bytes"
	"encoding/binary"
	"encoding/hex"
	"fmt"
	"sort"
	"strings"
	"testing"

	"github.com/bio-routing/bio-rd/protocols/bgp/packet"
	"pgregory.net/rapid"
	kit "verifkit"
)

const c19Rule = "valid UPDATE (1..4 NLRI per list, classic IPv4 / MP_REACH IPv6 / IPv4-over-MP, iBGP+eBGP, add-path on/off, 2/4-byte ASN) + 1..2 mutations (section/attribute/header length +-k, fixed-size attribute resized, AS_PATH segment overrun, NLRI prefix length beyond the family maximum, removal of ORIGIN/AS_PATH/NEXT_HOP/all attributes, MP next hop removed); kept only if the reference parser accepts the original and rejects the mutant for a C19 clause. Non-trivial: the unmutated UPDATE installs >= 1 route on a twin session (so only the malformation stands between the message and the tables), or packet.Decode accepts the mutant."

// c19RawN is an NLRI entry with optional raw overrides.
type c19RawN struct {
	N      kit.WNLRI
	RawLen int    // -1: encode N.P.L
	Bytes  []byte // prefix bytes when RawLen >= 0
}

type c19RawMP struct {
	AFI   uint16
	SAFI  uint8
	NH    []byte
	NHLen int // declared next hop length (-1: len(NH))
	NLRI  []c19RawN
	AP    bool
	Reach bool
}

func c19EncN(ns []c19RawN, addPath bool) []byte {
	var b []byte
	for _, n := range ns {
		if n.RawLen < 0 {
			b = append(b, kit.EncodeNLRI(n.N, addPath)...)
			continue
		}
		if addPath {
			b = binary.BigEndian.AppendUint32(b, n.N.PathID)
		}
		b = append(b, byte(n.RawLen))
		b = append(b, n.Bytes...)
	}
	return b
}

func (m *c19RawMP) value() []byte {
	v := binary.BigEndian.AppendUint16(nil, m.AFI)
	v = append(v, m.SAFI)
	if m.Reach {
		l := len(m.NH)
		if m.NHLen >= 0 {
			l = m.NHLen
		}
		v = append(v, byte(l))
		v = append(v, m.NH...)
		v = append(v, 0)
	}
	return append(v, c19EncN(m.NLRI, m.AP)...)
}

// c19Plan is a message under mutation.
type c19Plan struct {
	s        c19Sess
	wd, nl   []c19RawN
	attrs    []kit.WAttr
	reach    *c19RawMP
	unreach  *c19RawMP
	rawWL    *int
	rawAL    *int
	hdrDelta int
	keepTail bool
	filler   []byte
	muts     []string
}

func c19Raw(ns []kit.WNLRI) []c19RawN {
	var out []c19RawN
	for _, n := range ns {
		out = append(out, c19RawN{N: n, RawLen: -1})
	}
	return out
}

func c19NewPlan(m *c19Msg, s c19Sess) *c19Plan {
	p := &c19Plan{s: s, wd: c19Raw(m.Wd), nl: c19Raw(m.Nl), attrs: m.wattrs(s)}
	if m.Reach != nil {
		p.reach = &c19RawMP{AFI: m.Reach.AFI, SAFI: m.Reach.SAFI, NH: m.Reach.NextHop, NHLen: -1, NLRI: c19Raw(m.Reach.NLRI), Reach: true,
			AP: (m.Reach.AFI == 1 && s.AP4) || (m.Reach.AFI == 2 && s.AP6)}
	}
	if m.Unreach != nil {
		p.unreach = &c19RawMP{AFI: m.Unreach.AFI, SAFI: m.Unreach.SAFI, NLRI: c19Raw(m.Unreach.NLRI),
			AP: (m.Unreach.AFI == 1 && s.AP4) || (m.Unreach.AFI == 2 && s.AP6)}
	}
	return p
}

func (p *c19Plan) attrIdx(typ uint8) int {
	for i, a := range p.attrs {
		if a.Type == typ {
			return i
		}
	}
	return -1
}

func (p *c19Plan) bytes() []byte {
	// re-encode MP attributes from their raw structure
	for i := range p.attrs {
		if p.attrs[i].Type == kit.AtMPReach && p.reach != nil {
			p.attrs[i].Value = p.reach.value()
		}
		if p.attrs[i].Type == kit.AtMPUnreach && p.unreach != nil {
			p.attrs[i].Value = p.unreach.value()
		}
	}
	w := c19EncN(p.wd, p.s.AP4)
	var at []byte
	for _, a := range p.attrs {
		at = append(at, a.Encode()...)
	}
	wl, al := len(w), len(at)
	if p.rawWL != nil {
		wl = *p.rawWL
	}
	if p.rawAL != nil {
		al = *p.rawAL
	}
	b := binary.BigEndian.AppendUint16(nil, uint16(wl))
	b = append(b, w...)
	b = binary.BigEndian.AppendUint16(b, uint16(al))
	b = append(b, at...)
	b = append(b, c19EncN(p.nl, p.s.AP4)...)
	m := kit.Header(kit.MsgUpdate, b)
	if p.hdrDelta != 0 {
		stream := append(append([]byte{}, m...), p.filler...)
		nl := len(m) + p.hdrDelta
		if nl < 23 {
			nl = 23
		}
		if nl > len(stream) {
			nl = len(stream)
		}
		if p.keepTail && nl < len(m) {
			// the declared message ends early but the bytes behind it are still in the buffer: what the BMP router
			// hands over when the route monitoring message is longer than the BGP PDU it carries (a BGP session's
			// recvMsg cuts the buffer at the header length)
			binary.BigEndian.PutUint16(m[16:], uint16(nl))
			return m
		}
		m = stream[:nl]
		binary.BigEndian.PutUint16(m[16:], uint16(nl))
	}
	return m
}

func c19Delta(t *rapid.T, label string) int {
	d := rapid.SampledFrom([]int{-8, -5, -4, -3, -2, -1, 1, 2, 3, 4, 5, 7, 8, 19}).Draw(t, label)
	return d
}

// the mutation catalogue; each returns false when not applicable.
var c19Mutations = []struct {
	name string
	f    func(t *rapid.T, p *c19Plan) bool
}{
	{"wlen", func(t *rapid.T, p *c19Plan) bool {
		cur := len(c19EncN(p.wd, p.s.AP4))
		n := cur + c19Delta(t, "wlen_d")
		if rapid.IntRange(0, 9).Draw(t, "wlen_big") == 0 {
			n = rapid.SampledFrom([]int{4000, 0xffff, 0xfffc}).Draw(t, "wlen_v")
		}
		if n < 0 {
			n = 0
		}
		if n == cur {
			return false
		}
		p.rawWL = &n
		return true
	}},
	{"alen", func(t *rapid.T, p *c19Plan) bool {
		cur := 0
		for _, a := range p.attrs {
			cur += len(a.Encode())
		}
		n := cur + c19Delta(t, "alen_d")
		switch rapid.IntRange(0, 9).Draw(t, "alen_special") {
		case 0:
			n = rapid.SampledFrom([]int{4000, 0xffff, 0xfffc}).Draw(t, "alen_v")
		case 1:
			n = 0
		}
		if n < 0 {
			n = 0
		}
		if n == cur {
			return false
		}
		p.rawAL = &n
		return true
	}},
	{"hdr", func(t *rapid.T, p *c19Plan) bool {
		p.hdrDelta = c19Delta(t, "hdr_d")
		p.keepTail = rapid.Bool().Draw(t, "hdr_keeptail")
		switch rapid.IntRange(0, 2).Draw(t, "hdr_fill") {
		case 0:
			p.filler = make([]byte, 32)
		case 1:
			p.filler = append(kit.Keepalive(), kit.Keepalive()...)
		default:
			p.filler = rapid.SliceOfN(rapid.Byte(), 32, 32).Draw(t, "hdr_bytes")
		}
		return true
	}},
	{"attrlen", func(t *rapid.T, p *c19Plan) bool {
		if len(p.attrs) == 0 {
			return false
		}
		i := rapid.IntRange(0, len(p.attrs)-1).Draw(t, "attrlen_i")
		p.bytes() // make MP values current
		n := len(p.attrs[i].Value) + c19Delta(t, "attrlen_d")
		if n < 0 {
			n = 0
		}
		if n == len(p.attrs[i].Value) {
			return false
		}
		p.attrs[i].RawLen = &n
		p.muts = append(p.muts, fmt.Sprintf("(attr %d)", p.attrs[i].Type))
		return true
	}},
	{"fixedsize", func(t *rapid.T, p *c19Plan) bool {
		var cand []int
		for i, a := range p.attrs {
			switch a.Type {
			case kit.AtOrigin, kit.AtNextHop, kit.AtMED, kit.AtLocalPref, kit.AtAtomicAggr, kit.AtAggregator, kit.AtOriginatorID,
				kit.AtCommunities, kit.AtClusterList, kit.AtLargeComm:
				cand = append(cand, i)
			}
		}
		if len(cand) == 0 {
			return false
		}
		i := cand[rapid.IntRange(0, len(cand)-1).Draw(t, "fixed_i")]
		a := &p.attrs[i]
		cur := len(a.Value)
		// (+255 .. +512: lengths that equal the right one modulo 256 or need the extended length form)
		n := cur + rapid.SampledFrom([]int{-4, -3, -2, -1, 1, 2, 3, 4, 1, 2, 4, 255, 256, 256, 257, 512}).Draw(t, "fixed_d")
		if n < 0 {
			n = cur + 1
		}
		switch a.Type {
		case kit.AtCommunities, kit.AtClusterList:
			if n%4 == 0 {
				n++
			}
		case kit.AtLargeComm:
			if n%12 == 0 {
				n++
			}
		}
		v := make([]byte, n)
		copy(v, a.Value)
		for j := cur; j < n; j++ {
			v[j] = byte(rapid.SampledFrom([]int{0, 0x40, 0xff, 1, 24}).Draw(t, "fixed_b"))
		}
		a.Value = v
		p.muts = append(p.muts, fmt.Sprintf("(attr %d: %d->%d bytes)", a.Type, cur, n))
		return true
	}},
	{"aspathcount", func(t *rapid.T, p *c19Plan) bool {
		i := p.attrIdx(kit.AtASPath)
		if i < 0 || len(p.attrs[i].Value) < 2 {
			return false
		}
		v := append([]byte{}, p.attrs[i].Value...)
		sz := 2
		if p.s.ASN4 {
			sz = 4
		}
		// walk to a drawn segment
		var offs []int
		for o := 0; o+2 <= len(v); o += 2 + int(v[o+1])*sz {
			offs = append(offs, o)
		}
		o := offs[rapid.IntRange(0, len(offs)-1).Draw(t, "aspath_seg")]
		rest := (len(v) - o - 2) / sz // ASNs' worth of bytes left after this header
		n := rest + rapid.IntRange(1, 4).Draw(t, "aspath_over")
		if rapid.IntRange(0, 4).Draw(t, "aspath_255") == 0 || n > 255 {
			n = 255
		}
		v[o+1] = byte(n)
		p.attrs[i].Value = v
		return true
	}},
	{"pfxlen", func(t *rapid.T, p *c19Plan) bool {
		var lists []*[]c19RawN
		var widths []int
		if len(p.nl) > 0 {
			lists, widths = append(lists, &p.nl), append(widths, 32)
		}
		if p.reach != nil && len(p.reach.NLRI) > 0 {
			w := 32
			if p.reach.AFI == 2 {
				w = 128
			}
			lists, widths = append(lists, &p.reach.NLRI), append(widths, w)
		}
		if len(lists) == 0 {
			return false
		}
		li := rapid.IntRange(0, len(lists)-1).Draw(t, "pfxlen_list")
		l, w := *lists[li], widths[li]
		i := rapid.IntRange(0, len(l)-1).Draw(t, "pfxlen_i")
		nl := rapid.IntRange(w+1, 255).Draw(t, "pfxlen_v")
		switch rapid.IntRange(0, 5).Draw(t, "pfxlen_mode") {
		case 0:
			nl = w + 1
		case 1:
			nl = w + 8
		case 2:
			nl = 255
		case 3:
			if w == 32 {
				nl = rapid.SampledFrom([]int{33, 40, 64, 128, 129}).Draw(t, "pfxlen_v4")
			} else {
				nl = rapid.SampledFrom([]int{129, 136, 160, 192, 248}).Draw(t, "pfxlen_v6")
			}
		}
		e := &l[i]
		orig := append([]byte{}, e.N.P.A[:(e.N.P.L+7)/8]...)
		e.RawLen = nl
		switch rapid.IntRange(0, 2).Draw(t, "pfxlen_bytes") {
		case 0: // as many bytes as the declared length asks for, zero padded
			e.Bytes = make([]byte, (nl+7)/8)
			copy(e.Bytes, orig)
		case 1: // as many bytes, padded with ones
			e.Bytes = bytes.Repeat([]byte{0xff}, (nl+7)/8)
			copy(e.Bytes, orig)
		default: // only the original bytes: the prefix overruns what follows
			e.Bytes = orig
		}
		p.muts = append(p.muts, fmt.Sprintf("(w%d len %d)", w, nl))
		return true
	}},
	{"remove", func(t *rapid.T, p *c19Plan) bool {
		which := rapid.SampledFrom([]uint8{kit.AtOrigin, kit.AtASPath, kit.AtNextHop, 0, 255}).Draw(t, "remove_which")
		var keep []kit.WAttr
		for _, a := range p.attrs {
			mp := a.Type == kit.AtMPReach || a.Type == kit.AtMPUnreach
			switch {
			case which == 0 && !mp: // every non-MP attribute
			case which == 255: // no attributes at all
			case a.Type == which:
			default:
				keep = append(keep, a)
			}
		}
		if len(keep) == len(p.attrs) {
			return false
		}
		if which == 255 {
			p.reach, p.unreach = nil, nil
		}
		p.attrs = keep
		p.muts = append(p.muts, fmt.Sprintf("(%d)", which))
		return true
	}},
	{"mpnexthop", func(t *rapid.T, p *c19Plan) bool {
		if p.reach == nil {
			return false
		}
		switch rapid.IntRange(0, 2).Draw(t, "mpnh_mode") {
		case 0: // no next hop at all
			p.reach.NH = nil
		case 1: // declared length differs from the bytes present
			p.reach.NHLen = len(p.reach.NH) + c19Delta(t, "mpnh_d")
			if p.reach.NHLen < 0 {
				p.reach.NHLen = 0
			}
		default: // declared length zero, bytes still there
			p.reach.NHLen = 0
		}
		return true
	}},
}

// c19Class maps the reference parser's verdict to the clause of the statement
// ("" = not a C19 clause).
func c19Class(e *kit.WErr) string {
	switch e.Clause {
	case "upd-lengths", "attr-overrun":
		return "a"
	case "nlri-overrun":
		if strings.HasPrefix(e.Msg, "mp_") {
			return "b"
		}
		return "a"
	case "attr-len":
		// OTC is an opaque unknown attribute to bio-rd's decoder (no fixed size to
		// violate); AGGREGATOR is 6 or 8 bytes depending on what the sender thinks
		// was negotiated (bio-rd itself always sends 6) - both sizes are left alone.
		if strings.HasPrefix(e.Msg, "attribute 35 ") || strings.HasPrefix(e.Msg, "attribute 7 has length 6,") || strings.HasPrefix(e.Msg, "attribute 7 has length 8,") {
			return ""
		}
		return "b"
	case "aspath":
		if strings.Contains(e.Msg, "segment type") {
			return ""
		}
		return "b"
	case "nlri-pfxlen":
		if strings.HasPrefix(e.Msg, "nlri") || strings.HasPrefix(e.Msg, "mp_reach") {
			return "c"
		}
		return ""
	case "missing-wellknown":
		return "d"
	}
	return ""
}

// c19RefParse runs the reference parser on a complete message.
func c19RefParse(msg []byte, o kit.WOpts) *kit.WErr {
	// A message ends where its header says; bytes behind it (keepTail) are not part of it.
	if len(msg) >= 19 {
		if l := int(binary.BigEndian.Uint16(msg[16:])); l >= 19 && l < len(msg) {
			msg = msg[:l]
		}
	}
	typ, body, e := kit.ParseHeader(msg)
	if e != nil {
		return e
	}
	if typ != kit.MsgUpdate {
		return &kit.WErr{Clause: "not-update"}
	}
	_, e = kit.ParseUpdate(body, o)
	return e
}

func c19DecodeAccepts(data []byte, opt *packet.DecodeOptions) (ok bool) {
	defer func() {
		if recover() != nil {
			ok = false
		}
	}()
	_, err := packet.Decode(bytes.NewBuffer(data), opt)
	return err == nil
}

func c19Diff(before, after map[string]struct{}) []string {
	var out []string
	for k := range after {
		if _, ok := before[k]; !ok {
			out = append(out, k)
		}
	}
	sort.Strings(out)
	return out
}

const (
	c19BaseTime = 1000
	c19MutTime  = 2000
)

func c19RunCase(t *rapid.T, rec *kit.Recorder) {
	c := rec.Case()
	defer c.Done()
	s := c19GenSess(t)
	u := c19GenUniverse(t)
	c.Logf("%v", s)
	var base [][]byte
	nb := rapid.IntRange(0, 2).Draw(t, "nbase")
	for i := 0; i < nb; i++ {
		bm := c19GenMsg(t, s, u, 4, true)
		c.Logf("base %v", bm)
		base = append(base, bm.build(s))
	}
	orig := c19GenMsg(t, s, u, 4, rapid.IntRange(0, 9).Draw(t, "want_announce") > 0)
	c.Logf("orig %v", orig)
	ob := orig.build(s)
	if e := c19RefParse(ob, s.opts()); e != nil {
		t.Fatalf("harness: reference parser rejects the generated valid UPDATE: %v\n%s", e, hex.EncodeToString(ob))
	}

	// draw mutations until the self-check passes
	var mutant []byte
	var plan *c19Plan
	var class string
	var verdict *kit.WErr
	for attempt := 0; attempt < 6 && mutant == nil; attempt++ {
		p := c19NewPlan(orig, s)
		want := 1
		if rapid.IntRange(0, 3).Draw(t, "two") == 0 {
			want = 2
		}
		applied := 0
		for tries := 0; tries < 4 && applied < want; tries++ {
			m := c19Mutations[rapid.IntRange(0, len(c19Mutations)-1).Draw(t, "mut")]
			mark := len(p.muts)
			p.muts = append(p.muts, m.name) // details appended by the mutation follow the name
			if m.f(t, p) {
				applied++
			} else {
				p.muts = p.muts[:mark]
			}
		}
		if len(p.muts) == 0 {
			c.Class("discard/not-applicable")
			continue
		}
		b := p.bytes()
		if len(b) > 4096 || bytes.Equal(b, ob) {
			c.Class("discard/unchanged")
			continue
		}
		e := c19RefParse(b, s.opts())
		if e == nil {
			c.Class("discard/still-valid")
			continue
		}
		cl := c19Class(e)
		if cl == "" {
			c.Class("discard/other-clause:" + e.Clause)
			continue
		}
		mutant, plan, class, verdict = b, p, cl, e
	}
	if mutant == nil {
		c.Class("no-mutant")
		return
	}
	mutName := strings.Join(plan.muts, "+")
	c.Logf("mutations %s -> clause %s (%v)", mutName, class, verdict)
	c.Logf("mutant %s", hex.EncodeToString(mutant))
	padded := rapid.Bool().Draw(t, "via_recvMsg")
	c.Logf("via recvMsg %v", padded)
	c.Class("clause/" + class)
	for _, m := range plan.muts {
		if !strings.HasPrefix(m, "(") {
			c.Class("mut/" + m)
		}
	}
	c.ClassIf(s.IBGP, "ibgp")
	c.ClassIf(!s.IBGP, "ebgp")
	c.ClassIf(padded, "via_recvMsg")

	rig := c19NewRig(s)
	twin := c19NewRig(s)
	for i, b := range base {
		for _, r := range []*c19Rig{rig, twin} {
			if pv, _, _ := r.feed(c19Frame(b, padded), c19BaseTime); pv != nil {
				t.Fatalf("a VALID UPDATE (base %d) panicked in msgReceived: %v\n%s", i, pv, hex.EncodeToString(b))
			}
		}
	}
	// twin: does the unmutated message install anything?
	if pv, _, _ := twin.feed(c19Frame(ob, padded), c19MutTime); pv != nil {
		t.Fatalf("the VALID original UPDATE panicked in msgReceived: %v\n%s", pv, hex.EncodeToString(ob))
	}
	origInstalls := 0
	for k := range twin.c19Snapshot() {
		if strings.Contains(k, fmt.Sprintf("|ltime=%d ", c19MutTime)) {
			origInstalls++
		}
	}
	data := c19Frame(mutant, padded)
	accepts := c19DecodeAccepts(data, rig.fsm.decodeOptions())
	if accepts {
		c.Class("decode_accepts/" + class)
	} else {
		c.Class("decode_rejects/" + class)
	}
	c.ClassIf(origInstalls > 0, "orig_installs/"+class)
	c.NonTrivialIf(origInstalls > 0 || accepts)

	before := rig.c19Snapshot()
	pv, st, why := rig.feed(data, c19MutTime)
	if pv != nil {
		t.Fatalf("C19/panic clause=%s mutations=%s %v: msgReceived panicked: %v\nmutant: %s\nreference parser: %v", class, mutName, s, pv, hex.EncodeToString(mutant), verdict)
	}
	var after map[string]struct{}
	func() {
		defer func() {
			if x := recover(); x != nil {
				t.Fatalf("C19/panic-after clause=%s mutations=%s %v: dumping the tables after the mutant panicked: %v\nmutant: %s", class, mutName, s, x, hex.EncodeToString(mutant))
			}
		}()
		after = rig.c19Snapshot()
	}()
	if d := c19Diff(before, after); len(d) > 0 {
		t.Fatalf("C19/installed clause=%s mutations=%s %v viaRecvMsg=%v: malformed UPDATE installed %d path(s) (next state %s, %q; packet.Decode accepts=%v)\nmutant: %s\nreference parser: %v\noriginal: %s\ninstalled:\n  %s",
			class, mutName, s, padded, len(d), st, why, accepts, hex.EncodeToString(mutant), verdict, hex.EncodeToString(ob), strings.Join(d, "\n  "))
	}
}

func TestVerifC19Malformed(t *testing.T) {
	rec := kit.NewRecorder(t, "C19", c19Rule)
	rapid.Check(t, func(t *rapid.T) { c19RunCase(t, rec) })
}

//go:build verif

package server

// C23 — the real session FSM refines the abstract RFC 4271 model.
//
// (1) TestVerifC23ModelBFS explores the abstract model (c23_model_test.go)
//     exhaustively and checks its invariants (the requirements of the property).
// (2) TestVerifC23Refine runs event sequences against the REAL FSM goroutine of a
//     real bgpServer (shared rig c00). Events use the entry points production
//     code uses: peer.stop() for ManualStop, FSM.eventCh for AutomaticStart
//     (what FSM.activate() sends), AutomaticStop, Cease (what FSM.cease()
//     sends), the server's accept channel for inbound connections, FSM.conCh for
//     the outcome of an outgoing connect (what FSM.tcpConnector sends), bytes on
//     the connection for messages, a write-failing connection for keepalive /
//     answer failures, and waiting for the 1 s tick for hold-timer expiry.
//     After every event the harness takes an atomic observation
//     (state name, Adj-RIB-Out registered at the Loc-RIB, ASN contributing,
//     connection open, route of the session in the Loc-RIB) and the set of model
//     states compatible with the trace so far (subset construction, internal
//     timer moves allowed at any time) must stay non-empty.
//
// Atomic observation: the FSM publishes a NEW state object after every handler
// (even when the state kind does not change) and only accepts an event from
// eventCh while parked in a state's select loop. The harness sends a no-op
// event value (ignored by every state's `default:` branch) as barrier, reads
// the state object p1 and the observables, sends a second barrier and reads
// the state object p2: p1 == p2 implies that no handler ran between the two
// reads, i.e. the observables belong to one quiescent moment. Otherwise it
// retries. A FSM goroutine that ended (Cease) is recognised by the absence of
// a goroutine running (*FSM).run with this receiver in a full stack dump.

import (
	"errors"
	"fmt"
	"net"
	"os"
	"regexp"
	"runtime"
	"strconv"
	"strings"
	"sync"
	"testing"
	"time"
	"unsafe"

	bnet "github.com/bio-routing/bio-rd/net"
	"pgregory.net/rapid"
	kit "verifkit"
)

const c23Rule = "event sequences (length <= 8) over {Start, ManualStop (peer.stop()), AutomaticStop, Cease, ConnUp, good OPEN, bad OPEN (peer AS / identifier / role / version), KEEPALIVE, UPDATE, NOTIFICATION, malformed message, transport write failure, wait for timers} against a real FSM goroutine; session kinds: inbound connection on a passive peer, outgoing FSM of an active peer (connections handed over through conCh); hold time 90 s / 4 s / 0 / 60 ms local; iBGP/eBGP, peer role on/off. All sequences along the model's main line up to a length bound are enumerated, longer ones are drawn with rapid. Non-trivial: the observed trace reaches Established and leaves it."

// c23NotifCodes: the (code, subcode) a peer's NOTIFICATION carries, chosen by the event's variant
// (Cease, message header, OPEN, UPDATE, hold timer, FSM error).
var c23NotifCodes = [][2]uint8{{6, 2}, {1, 1}, {2, 1}, {3, 1}, {4, 0}, {5, 0}}

type c23Ev struct {
	Kind    int
	Variant int
}

type c23Case struct {
	Active bool
	IBGP   bool
	Role   bool
	Hold   int // 0: OPEN hold 90, 1: OPEN hold 4, 2: OPEN hold 0, 3: local hold 60 ms
	// NotifFail: every NOTIFICATION bio-rd writes fails (fault injected on each connection of the case); all
	// other writes succeed. The model does not know about it: what a session does on its way out must not
	// depend on whether the peer still reads.
	NotifFail bool
	Events    []c23Ev
}

func (c c23Case) String() string {
	var sb strings.Builder
	fmt.Fprintf(&sb, "active=%v ibgp=%v role=%v hold=%d notif-writes-fail=%v:", c.Active, c.IBGP, c.Role, c.Hold, c.NotifFail)
	for _, e := range c.Events {
		fmt.Fprintf(&sb, " %s", c23EvNames[e.Kind])
		if e.Variant != 0 {
			fmt.Fprintf(&sb, "#%d", e.Variant)
		}
	}
	return sb.String()
}

type c23Obs struct {
	St       int
	Clients  bool // Adj-RIB-Out registered at the Loc-RIB
	ASN      bool // local ASN contributing
	ConnOpen bool
	Routes   bool
}

func (o c23Obs) String() string {
	return fmt.Sprintf("(%s adjRIBOutRegistered=%v asnContributing=%v connOpen=%v routes=%v)", c23StNames[o.St], o.Clients, o.ASN, o.ConnOpen, o.Routes)
}

func (o c23Obs) matches(s c23State) bool {
	return o.St == s.St && o.Clients == s.Attached && o.ASN == s.Attached && o.ConnOpen == s.ConnOpen && o.Routes == s.Routes
}

var c23NameToSt = map[string]int{stateNameIdle: c23Idle, stateNameConnect: c23Connect, stateNameActive: c23Active, stateNameOpenSent: c23OpenSent, stateNameOpenConfirm: c23OpenConfirm, stateNameEstablished: c23Established, stateNameCease: c23Cease}

var c23StackMu sync.Mutex

// c23FSMGone reports whether no goroutine runs (*FSM).run for f any more.
func c23FSMGone(f *FSM) bool {
	c23StackMu.Lock()
	defer c23StackMu.Unlock()
	buf := make([]byte, 1<<20)
	for {
		n := runtime.Stack(buf, true)
		if n < len(buf) {
			buf = buf[:n]
			break
		}
		buf = make([]byte, 2*len(buf))
	}
	re := regexp.MustCompile(`server\.\(\*FSM\)\.run\(0x` + strconv.FormatUint(uint64(c23Ptr(f)), 16) + `[?)]`)
	return !re.Match(buf)
}

type c23Runner struct {
	c      c23Case
	r      *c00Rig
	peerIP bnet.IP
	peerAS uint32
	f      *FSM
	conn   *kit.Conn
	port   int
	env    c23Env
	S      c23Set
	base   uint64
	last   c23Obs
	gone   bool
	trace  []string
	visitE bool
	leftE  bool
	class  map[string]bool
}

func (x *c23Runner) logf(format string, args ...interface{}) {
	x.trace = append(x.trace, fmt.Sprintf(format, args...))
}

func (x *c23Runner) barrier() bool {
	select {
	case x.f.eventCh <- 0: // no administrative event has value 0; every state ignores it
		return true
	case <-time.After(50 * time.Millisecond):
		return false
	}
}

func (x *c23Runner) statePtr() state {
	x.f.stateMu.RLock()
	defer x.f.stateMu.RUnlock()
	return x.f.state
}

func (x *c23Runner) readObs(st int) c23Obs {
	o := c23Obs{St: st}
	o.Clients = x.r.vrf.IPv4UnicastRIB().ClientCount() > x.base
	o.ASN = x.r.vrf.IsContributingASN(65000)
	o.ConnOpen = x.conn != nil && !x.conn.Closed()
	o.Routes = len(x.r.c00RIBFromPeer(x.peerIP, false)) > 0
	return o
}

// observe takes an atomic observation (see file comment).
func (x *c23Runner) observe() c23Obs {
	deadline := time.Now().Add(c00Deadline)
	misses := 0
	for {
		if time.Now().After(deadline) {
			panic(c00Inconclusive{"no quiescent observation of the FSM"})
		}
		if x.gone || !x.barrier() {
			misses++
			if x.gone || x.name() == stateNameCease || (misses%4 == 0 && c23FSMGone(x.f)) {
				x.gone = true
				return x.readObs(c23Cease)
			}
			continue
		}
		p1 := x.statePtr()
		o := x.readObs(c23NameToSt[stateName(p1)])
		if !x.barrier() {
			continue
		}
		if p2 := x.statePtr(); p1 == p2 {
			return o
		}
	}
}

func (x *c23Runner) armConn() {
	if !x.c.NotifFail {
		return
	}
	x.class["notification_writes_fail"] = true
	x.conn.SetWriteFault(func(b []byte) error {
		if len(b) >= 19 && b[18] == kit.MsgNotification {
			return errors.New("c23: connection reset by peer")
		}
		return nil
	})
}

func (x *c23Runner) send(ev int) {
	select {
	case x.f.eventCh <- ev:
	case <-time.After(c00Deadline):
		panic(c00Inconclusive{"FSM did not take an event from eventCh"})
	}
}

func (x *c23Runner) name() string { return c00State(x.f) }

// waitChange lets time pass until the state name changes (stimulus only).
func (x *c23Runner) waitChange(from string, max time.Duration) {
	end := time.Now().Add(max)
	for time.Now().Before(end) {
		if x.name() != from {
			return
		}
		time.Sleep(2 * time.Millisecond)
	}
}

func (x *c23Runner) open(variant int) []byte {
	hold := []uint16{90, 4, 0, 90}[x.c.Hold]
	as, id := x.peerAS, uint32(0x0a000002)
	caps := []kit.WCap{kit.CapASN4(x.peerAS)}
	if x.c.Role {
		caps = append(caps, kit.CapRole(3)) // we are provider, the peer says customer
	}
	switch variant {
	case 1: // bad peer AS
		as = x.peerAS + 7
		caps[0] = kit.CapASN4(as)
	case 2: // bad BGP identifier (iBGP: same as ours)
		if x.c.IBGP {
			id = 0x0a000001
		} else {
			as = x.peerAS + 7
			caps[0] = kit.CapASN4(as)
		}
	case 3: // role mismatch (eBGP with roles), else unsupported version
		if x.c.Role {
			caps[len(caps)-1] = kit.CapRole(0) // provider <-> provider
		} else {
			o := &kit.WOpen{Version: 3, AS: uint16(as), HoldTime: hold, ID: id, Caps: caps}
			return o.Build()
		}
	}
	return c00Open(as, id, hold, caps...)
}

func (x *c23Runner) update() []byte {
	asPath := []uint32{64600}
	var lp *uint32
	if x.c.IBGP {
		v := uint32(100)
		lp = &v
	} else {
		asPath = []uint32{x.peerAS, 64600}
	}
	return c00Update(asPath, [4]byte{10, 0, 0, 2}, lp, true, false, kit.WNLRI{P: kit.V4(0xc0000200, 24)})
}

// feed delivers a message and waits until the FSM has taken it (or cannot any more).
func (x *c23Runner) feed(b []byte) {
	x.conn.Feed(b)
	c00WaitFor("message taken by the FSM", func() bool {
		if x.conn.IsDrained() || x.conn.Closed() {
			return true
		}
		switch x.name() {
		case stateNameIdle, stateNameConnect, stateNameActive:
			return true
		}
		return false
	})
}

// exec performs one event; false = not applicable in the current real state (skipped).
func (x *c23Runner) exec(e c23Ev) bool {
	st := x.last.St
	session := c23IsSession(st) && x.conn != nil && !x.conn.Closed()
	switch e.Kind {
	case c23EvStart:
		if e.Variant%2 == 0 {
			x.send(AutomaticStart)
		} else {
			x.send(ManualStart)
		}
	case c23EvManualStop:
		p := x.f.peer
		c23Bounded("peer.stop()", p.stop)
	case c23EvAutoStop:
		x.send(AutomaticStop)
	case c23EvCease:
		x.send(Cease)
	case c23EvConnUp:
		if st != c23Connect && st != c23Active {
			return false
		}
		x.port++
		c := kit.NewConn(&net.TCPAddr{IP: net.IPv4(10, 0, 0, 1), Port: x.port}, &net.TCPAddr{IP: x.peerIP.ToNetIP(), Port: 179})
		select {
		case x.f.conCh <- c:
		case <-time.After(c00Deadline):
			panic(c00Inconclusive{"FSM did not take the connection from conCh"})
		}
		x.conn = c
		x.armConn()
		x.env.WriteBroken = false
	case c23EvOpenGood:
		if !session {
			return false
		}
		x.feed(x.open(0))
	case c23EvOpenBad:
		if !session {
			return false
		}
		x.feed(x.open(1 + e.Variant%3))
	case c23EvKeepalive:
		if !session {
			return false
		}
		x.feed(kit.Keepalive())
	case c23EvUpdate:
		if !session {
			return false
		}
		x.feed(x.update())
	case c23EvNotification:
		if !session {
			return false
		}
		nc := c23NotifCodes[e.Variant%len(c23NotifCodes)]
		x.feed(kit.Notification(nc[0], nc[1], nil))
	case c23EvMalformed:
		if !session {
			return false
		}
		m := kit.Keepalive()
		if e.Variant%2 == 0 {
			m[0] = 0 // bad marker
		} else {
			m[18] = 9 // unknown type
		}
		x.feed(m)
	case c23EvWriteFail:
		if !session || x.env.WriteBroken {
			return false
		}
		x.conn.SetWriteError(errors.New("c23: broken pipe"))
		x.env.WriteBroken = true
		if x.c.Hold == 3 && (st == c23OpenConfirm || st == c23Established) {
			x.waitChange(c23StNames[st], 3*time.Second) // 20 ms keepalive timer
		}
	case c23EvWait:
		if !session {
			return false
		}
		switch {
		case st == c23OpenSent:
			x.waitChange(c23StNames[st], 3*time.Second) // 1 s tick
		case st == c23OpenConfirm && x.c.Hold == 2:
			x.waitChange(c23StNames[st], 3*time.Second)
		case x.c.Hold == 1:
			x.waitChange(c23StNames[st], 8*time.Second) // 4 s hold time, 1 s ticks
		default:
			return false // nothing can expire in test time
		}
	}
	return true
}

func c23Ptr(f *FSM) uintptr { return uintptr(unsafe.Pointer(f)) }

func c23Bounded(what string, fn func()) {
	done := make(chan struct{})
	go func() { defer close(done); fn() }()
	select {
	case <-done:
	case <-time.After(c00Deadline):
		panic(c00Inconclusive{what + " did not return"})
	}
}

type c23Result struct {
	idx          int
	c            c23Case
	violation    string
	inconclusive string
	nontrivial   bool
	class        map[string]bool
	trace        []string
}

func (x *c23Runner) check(what string) string {
	o := x.observe()
	x.last = o
	next := c23Set{}
	for s := range x.S {
		if o.matches(s) {
			next[s] = struct{}{}
		}
	}
	x.logf("%s -> %s", what, o)
	if o.St == c23Established {
		x.visitE = true
	} else if x.visitE {
		x.leftE = true
	}
	x.class["state_"+c23StNames[o.St]] = true
	if len(next) == 0 {
		return fmt.Sprintf("after %s the implementation is in %s, the model allows only %s", what, o, x.S)
	}
	x.S = next
	return ""
}

func (x *c23Runner) run() string {
	c := x.c
	x.r = c00NewRig(0x0a000001)
	x.peerIP = bnet.IPv4FromOctets(10, 0, 0, 2)
	if c.Active {
		// the real tcpConnector dials this address; loopback refuses at once
		x.peerIP = bnet.IPv4FromOctets(127, 0, 0, 77)
	}
	x.peerAS = 65001
	if c.IBGP {
		x.peerAS = 65000
	}
	x.port = 30000
	cfg := x.r.c00PeerCfg(x.peerIP, bnet.IPv4FromOctets(10, 0, 0, 1), 65000, x.peerAS)
	cfg.Passive = !c.Active
	if c.Hold == 3 {
		cfg.HoldTime = 60 * time.Millisecond
		cfg.KeepAlive = 20 * time.Millisecond
	}
	if c.Role {
		cfg.PeerRole = PeerConfigRoleProvider
	}
	x.env.HoldZero = c.Hold == 2
	x.base = x.r.vrf.IPv4UnicastRIB().ClientCount()
	if err := x.r.srv.AddPeer(cfg); err != nil {
		panic(err)
	}
	defer func() {
		if !x.gone && x.f != nil {
			p := x.f.peer
			go p.stop() // tidy up (ends 20 ms keepalive loops); not part of the check
		}
	}()
	if c.Active {
		x.f = x.r.c00FSMs(x.peerIP)[0]
		x.S = c23Closure(c23SetOf(c23State{St: c23Idle}), x.env)
		if v := x.check("AddPeer"); v != "" {
			return v
		}
	} else {
		x.conn, x.f = x.r.c00Connect(x.peerIP)
		x.armConn()
		x.S = c23Post(c23SetOf(c23State{St: c23Active}), c23EvConnUp, x.env)
		if v := x.check("inbound connection"); v != "" {
			return v
		}
	}
	for i, e := range c.Events {
		if x.gone {
			break
		}
		name := fmt.Sprintf("event %d %s", i, c23EvNames[e.Kind])
		if !x.exec(e) {
			x.logf("%s skipped in %s", name, c23StNames[x.last.St])
			continue
		}
		x.class["ev_"+c23EvNames[e.Kind]+"_in_"+c23StNames[x.last.St]] = true
		x.S = c23Post(x.S, e.Kind, x.env)
		if v := x.check(name); v != "" {
			return v
		}
	}
	return ""
}

func c23RunCase(idx int, c c23Case) (res c23Result) {
	res.idx, res.c = idx, c
	x := &c23Runner{c: c, class: map[string]bool{}}
	defer func() {
		res.nontrivial, res.class, res.trace = x.visitE && x.leftE, x.class, x.trace
		if r := recover(); r != nil {
			if e, ok := r.(c00Inconclusive); ok {
				res.inconclusive = e.what
				return
			}
			panic(r)
		}
	}()
	res.violation = x.run()
	return
}

// ---------------------------------------------------------------------------
// case sources

// c23MainLine is the deterministic "nothing spontaneous happens" successor used
// to enumerate sequences (first outcome of the model; Wait = the timer fires).
func c23MainLine(s c23State, e int, env c23Env) c23State {
	if e == c23EvWait {
		if t := c23Tau(s, env); len(t) > 0 && c23IsSession(s.St) {
			return t[0]
		}
		return s
	}
	return c23Step(s, e, env)[0]
}

func c23Applicable(s c23State, e int, env c23Env) bool {
	switch e {
	case c23EvStart:
		return s.St == c23Idle
	case c23EvManualStop, c23EvAutoStop, c23EvCease:
		return s.St != c23Cease
	case c23EvConnUp:
		return s.St == c23Connect || s.St == c23Active
	case c23EvWriteFail:
		return c23IsSession(s.St) && !env.WriteBroken
	case c23EvWait:
		return c23IsSession(s.St)
	default:
		return c23IsSession(s.St)
	}
}

// c23Enumerate lists all maximal main-line sequences that start with prefix
// and continue with <= depth further events.
func c23Enumerate(base c23Case, prefix []int, depth int) []c23Case {
	var out []c23Case
	var rec func(s c23State, env c23Env, evs []c23Ev)
	rec = func(s c23State, env c23Env, evs []c23Ev) {
		if len(evs) == len(prefix)+depth || s.St == c23Cease {
			c := base
			c.Events = append([]c23Ev{}, evs...)
			out = append(out, c)
			return
		}
		for e := 0; e < c23NumEvents; e++ {
			if len(evs) < len(prefix) && e != prefix[len(evs)] {
				continue
			}
			if !c23Applicable(s, e, env) {
				continue
			}
			if e == c23EvWait {
				// waits that cannot end in test time are skipped by the runner
				if !(s.St == c23OpenSent || (s.St == c23OpenConfirm && base.Hold == 2) || base.Hold == 1) {
					continue
				}
			}
			env2 := env
			if e == c23EvWriteFail {
				env2.WriteBroken = true
			}
			if e == c23EvConnUp {
				env2.WriteBroken = false
			}
			v := len(evs) + len(out) // vary the variants deterministically
			if e == c23EvNotification && len(evs) >= len(prefix) {
				// every NOTIFICATION error code gets its own case
				for k := range c23NotifCodes {
					rec(c23MainLine(s, e, env2), env2, append(append([]c23Ev{}, evs...), c23Ev{Kind: e, Variant: k}))
				}
				continue
			}
			if e == c23EvOpenBad && len(evs) >= len(prefix) {
				// every kind of unacceptable OPEN (peer AS / identifier / role or version) gets its own case
				for k := 0; k < 3; k++ {
					rec(c23MainLine(s, e, env2), env2, append(append([]c23Ev{}, evs...), c23Ev{Kind: e, Variant: k}))
				}
				continue
			}
			rec(c23MainLine(s, e, env2), env2, append(evs, c23Ev{Kind: e, Variant: v % 6}))
		}
	}
	start := c23State{St: c23Idle}
	if !base.Active {
		start = c23State{St: c23OpenSent, ConnOpen: true}
	}
	rec(start, c23Env{HoldZero: base.Hold == 2}, nil)
	return out
}

var c23Gen = rapid.Custom(func(t *rapid.T) c23Case {
	var c c23Case
	c.Active = rapid.Bool().Draw(t, "active")
	c.IBGP = rapid.Bool().Draw(t, "ibgp")
	if !c.IBGP {
		c.Role = rapid.IntRange(0, 2).Draw(t, "role") == 0
	}
	c.Hold = rapid.SampledFrom([]int{0, 0, 0, 1, 2, 3, 3}).Draw(t, "hold")
	c.NotifFail = rapid.IntRange(0, 3).Draw(t, "notif_fail") == 0
	// guided walk along the model so that long sequences stay meaningful, with
	// some arbitrary events mixed in
	s := c23State{St: c23Idle}
	if !c.Active {
		s = c23State{St: c23OpenSent, ConnOpen: true}
	}
	env := c23Env{HoldZero: c.Hold == 2}
	n := rapid.IntRange(3, 8).Draw(t, "len")
	for i := 0; i < n && s.St != c23Cease; i++ {
		var e int
		if rapid.IntRange(0, 5).Draw(t, "wild") == 0 {
			e = rapid.IntRange(0, c23NumEvents-1).Draw(t, "ev")
		} else {
			var app []int
			for k := 0; k < c23NumEvents; k++ {
				if !c23Applicable(s, k, env) {
					continue
				}
				w := 2
				switch {
				case k == c23EvCease:
					w = 1
				case k == c23EvWait && !(s.St == c23OpenSent || (s.St == c23OpenConfirm && c.Hold == 2)):
					// 5 s hold expiry: rare
					if c.Hold != 1 {
						continue
					}
					w = 6
				case k == c23EvOpenGood && s.St == c23OpenSent, k == c23EvKeepalive && s.St == c23OpenConfirm:
					w = 40
				case k == c23EvConnUp, k == c23EvStart:
					w = 12
				case k == c23EvUpdate && s.St == c23Established:
					w = 4
				}
				for j := 0; j < w; j++ {
					app = append(app, k)
				}
			}
			e = rapid.SampledFrom(app).Draw(t, "ev")
		}
		c.Events = append(c.Events, c23Ev{Kind: e, Variant: rapid.IntRange(0, 5).Draw(t, "variant")})
		if c23Applicable(s, e, env) {
			if e == c23EvWriteFail {
				env.WriteBroken = true
			}
			if e == c23EvConnUp {
				env.WriteBroken = false
			}
			s = c23MainLine(s, e, env)
		}
	}
	return c
})

// c23RandomCount is the number of rapid-generated cases per process.
func c23RandomCount() int { return kit.Scale(300, 500) }

func c23Cases() []c23Case {
	var cases []c23Case
	x := kit.Scale(0, 1) // extra depth in the thorough tier
	toOS := []int{c23EvStart, c23EvConnUp}
	toOC := []int{c23EvOpenGood}
	toE := []int{c23EvOpenGood, c23EvKeepalive}
	cat := func(a, b []int) []int { return append(append([]int{}, a...), b...) }
	type spec struct {
		base   c23Case
		prefix []int
		depth  int
	}
	specs := []spec{
		// inbound connection on a passive peer
		{c23Case{}, nil, 3 + x},
		{c23Case{}, toOC, 2 + x},
		{c23Case{}, toE, 2 + x},
		{c23Case{IBGP: true, Hold: 1}, toE, 1 + x}, // 4 s hold time: Wait = hold-timer expiry in Established
		{c23Case{Hold: 1}, cat(toE, []int{c23EvUpdate, c23EvWait}), 1},
		{c23Case{Active: true, Hold: 1}, cat(toOS, cat(toE, []int{c23EvWait})), 1},
		{c23Case{Hold: 1}, toOC, 1 + x},
		{c23Case{Hold: 2}, toOC, 1 + x}, // hold time 0
		{c23Case{Hold: 2}, toE, 1 + x},
		{c23Case{IBGP: true, Hold: 3}, toOC, 2}, // 60 ms hold: WriteFail = keepalive send failure
		{c23Case{Hold: 3}, toE, 2 + x},
		{c23Case{Role: true}, nil, 2 + x},
		// outgoing FSM of an active peer
		{c23Case{Active: true, IBGP: true}, nil, 3 + x},
		{c23Case{Active: true, IBGP: true}, toOS, 2 + x},
		{c23Case{Active: true}, cat(toOS, toE), 2 + x},
		{c23Case{Active: true, Hold: 3}, cat(toOS, toE), 1 + x},
		// Active state: OpenSent, transport breaks, OPEN cannot be answered
		{c23Case{Active: true}, cat(toOS, []int{c23EvWriteFail, c23EvOpenGood}), 2 + x},
		{c23Case{}, []int{c23EvWriteFail, c23EvOpenGood}, 2 + x},
		// second session on the same FSM
		{c23Case{Active: true, IBGP: true}, cat(cat(toOS, toE), cat([]int{c23EvUpdate, c23EvNotification}, cat(toOS, toE))), 1 + x},
	}
	for _, sp := range specs {
		cases = append(cases, c23Enumerate(sp.base, sp.prefix, sp.depth)...)
	}
	// every way out of OpenConfirm / Established once more with failing NOTIFICATION writes
	for _, b := range []c23Case{{NotifFail: true}, {NotifFail: true, Hold: 1}, {NotifFail: true, Active: true, IBGP: true}} {
		pre := toE
		if b.Active {
			pre = cat(toOS, toE)
		}
		cases = append(cases, c23Enumerate(b, pre, 1)...)
		cases = append(cases, c23Enumerate(b, pre[:len(pre)-1], 1)...)
		if b.Hold == 1 {
			cases = append(cases, c23Enumerate(b, cat(pre, []int{c23EvUpdate, c23EvWait}), 0)...)
		}
	}
	// hand-written sequences the main-line enumeration cannot reach (its Wait always lets the timer fire):
	// second connection of the same FSM, time passing in OpenSent before the neighbour's OPEN arrives
	for _, ib := range []bool{false, true} {
		for _, exit := range []int{c23EvNotification, c23EvMalformed, c23EvAutoStop} {
			for _, waits := range []int{1, 2} {
				evs := cat(cat(toOS, toE), []int{exit, c23EvStart, c23EvConnUp})
				for w := 0; w < waits; w++ {
					evs = append(evs, c23EvWait)
				}
				evs = append(evs, c23EvOpenGood, c23EvKeepalive, c23EvUpdate)
				c := c23Case{Active: true, IBGP: ib}
				for _, e := range evs {
					c.Events = append(c.Events, c23Ev{Kind: e})
				}
				cases = append(cases, c)
			}
		}
	}
	seed := int(kit.Seed() % 1000000)
	for i := 0; i < c23RandomCount(); i++ {
		cases = append(cases, c23Gen.Example(seed*4096+i))
	}
	return cases
}

func TestVerifC23Refine(t *testing.T) {
	rec := kit.NewRecorder(t, "C23", c23Rule)
	all := c23Cases()
	shard, shards := kit.Shard()
	only := -1
	if s := os.Getenv("VERIF_C23_CASE"); s != "" {
		only, _ = strconv.Atoi(s)
	}
	par := kit.Scale(16, 6)
	jobs := make(chan int)
	results := make(chan c23Result)
	var wg sync.WaitGroup
	for w := 0; w < par; w++ {
		wg.Add(1)
		go func() {
			defer wg.Done()
			for i := range jobs {
				c00Journal("C23 case %d: %s", i, all[i])
				results <- c23RunCase(i, all[i])
			}
		}()
	}
	go func() {
		for i := range all {
			if only >= 0 && i != only {
				continue
			}
			// enumerated cases are split over the shards; the random ones differ per shard by seed
			if only < 0 && i%shards != shard && i < len(all)-c23RandomCount() {
				continue
			}
			jobs <- i
		}
		close(jobs)
		wg.Wait()
		close(results)
	}()
	total, inconcl, viol := 0, 0, 0
	for res := range results {
		total++
		ec := rec.Case()
		ec.Logf("%s", res.c)
		for k := range res.class {
			ec.Class(k)
		}
		ec.ClassIf(res.c.Active, "active_peer")
		ec.ClassIf(!res.c.Active, "passive_peer")
		ec.Class(fmt.Sprintf("hold_%d", res.c.Hold))
		ec.NonTrivialIf(res.nontrivial)
		if res.inconclusive != "" {
			inconcl++
			ec.Class("inconclusive")
			t.Logf("case %d inconclusive: %s [%s] trace=%v", res.idx, res.inconclusive, res.c, res.trace)
		}
		if res.violation != "" {
			sig := c23Sig(res)
			if rec.Known(sig) {
				ec.Class("known_finding")
			} else {
				viol++
				if viol <= 5 {
					t.Errorf("C23 violated (sig %s) in case %d (replay: VERIF_C23_CASE=%d, same seed/tier):\n  %s\n  case: %s\n  trace:\n    %s", sig, res.idx, res.idx, res.violation, res.c, strings.Join(res.trace, "\n    "))
				}
			}
		}
		ec.Done()
	}
	if viol == 0 && inconcl > 2 && inconcl*20 > total {
		rec.Flush()
		fmt.Printf("C23 INCONCLUSIVE: %d of %d cases hit a real-time deadline\n", inconcl, total)
		os.Exit(2)
	}
}

// c23Sig is a narrow signature of a refinement failure: last event and the
// observation that was not accepted.
func c23Sig(res c23Result) string {
	if len(res.trace) == 0 {
		return "C23/refine"
	}
	last := res.trace[len(res.trace)-1]
	last = regexp.MustCompile(`^event \d+ `).ReplaceAllString(last, "")
	return "C23/refine:" + strings.NewReplacer(" ", "", "->", ">").Replace(last)
}

// ---------------------------------------------------------------------------
// (1) model exploration

func TestVerifC23ModelBFS(t *testing.T) {
	rec := kit.NewRecorder(t, "C23", "abstract model: every (state, environment) reachable by event sequences of length <= 10 from Idle (outgoing FSM) and Active (inbound connection), every event and internal move from it; invariants: attached <=> Established, routes => attached, connection open only in OpenSent/OpenConfirm/Established, every move OpenSent/OpenConfirm/Established -> Idle ends with the connection closed, UPDATE takes effect only in Established; subset construction never gets stuck")
	type node struct {
		s   c23State
		env c23Env
	}
	for _, holdZero := range []bool{false, true} {
		seen := map[node]int{}
		var frontier []node
		for _, s0 := range []c23State{{St: c23Idle}, {St: c23Active}} {
			n := node{s0, c23Env{HoldZero: holdZero}}
			seen[n] = 0
			frontier = append(frontier, n)
		}
		for depth := 0; depth < 10; depth++ {
			var next []node
			for _, n := range frontier {
				if msg := c23Invariant(n.s); msg != "" {
					t.Fatalf("model invariant: %s in %v", msg, n.s)
				}
				moves := map[int][]c23State{}
				for e := 0; e < c23NumEvents; e++ {
					env := n.env
					if e == c23EvWriteFail && c23IsSession(n.s.St) {
						env.WriteBroken = true
					}
					if e == c23EvConnUp && (n.s.St == c23Connect || n.s.St == c23Active) {
						env.WriteBroken = false
					}
					succ := c23Step(n.s, e, env)
					if len(succ) == 0 {
						t.Fatalf("model is not input-enabled: %v has no successor for %s", n.s, c23EvNames[e])
					}
					moves[e] = succ
					for _, s2 := range succ {
						ec := rec.Case()
						ec.Logf("depth %d %v env=%+v --%s--> %v", depth, n.s, n.env, c23EvNames[e], s2)
						ec.NonTrivialIf(s2 != n.s)
						ec.Class("ev_" + c23EvNames[e])
						ec.Done()
						if msg := c23TransitionInvariant(n.s, s2); msg != "" {
							t.Fatalf("model transition invariant: %s: %v --%s--> %v", msg, n.s, c23EvNames[e], s2)
						}
						if e != c23EvUpdate && s2.Routes && !n.s.Routes {
							t.Fatalf("routes appear without UPDATE: %v --%s--> %v", n.s, c23EvNames[e], s2)
						}
						n2 := node{s2, env}
						if _, ok := seen[n2]; !ok {
							seen[n2] = depth + 1
							next = append(next, n2)
						}
					}
				}
				for _, s2 := range c23Tau(n.s, n.env) {
					ec := rec.Case()
					ec.Logf("depth %d %v env=%+v --tau--> %v", depth, n.s, n.env, s2)
					ec.NonTrivial()
					ec.Class("tau")
					ec.Done()
					if msg := c23TransitionInvariant(n.s, s2); msg != "" {
						t.Fatalf("model transition invariant: %s: %v --tau--> %v", msg, n.s, s2)
					}
					n2 := node{s2, n.env}
					if _, ok := seen[n2]; !ok {
						seen[n2] = depth + 1
						next = append(next, n2)
					}
				}
			}
			frontier = next
		}
		if len(frontier) != 0 {
			t.Fatalf("model exploration did not reach a fixpoint within depth 10 (%d new nodes)", len(frontier))
		}
		for n := range seen {
			if msg := c23Invariant(n.s); msg != "" {
				t.Fatalf("model invariant: %s in %v", msg, n.s)
			}
		}
		rec.Note("holdZero=%v: %d reachable (state, environment) nodes, fixpoint before depth 10", holdZero, len(seen))
	}
	rec.SetExhaustive(true)
}

//go:build verif

package server

// C20 on a BMP-monitored session: the UPDATEs a monitored router mirrors in
// route-monitoring messages go through the same per-NLRI processing, with the
// session options taken from the two OPENs of the peer-up notification. The
// valid-UPDATE generator and the per-NLRI model are those of
// c20_pernlri_test.go; the bytes travel peer-up -> route monitoring through
// Router.processMsg, and the Adj-RIB-Ins of the mirrored session are compared
// with the model after every message.

import (
	"encoding/hex"
	"net"
	"testing"

	"pgregory.net/rapid"
	kit "verifkit"
)

const c20bRule = "BMP router, one monitored peer (iBGP/eBGP, add-path negotiated per family in the peer-up OPENs or not, 2/4-byte ASN) x sequences of 2..8 valid UPDATEs of the C20 generator carried in route-monitoring messages. Non-trivial: a message has a list of >= 2 NLRI carrying >= 2 distinct path identifiers (add-path family) ."

func TestVerifC20BMP(t *testing.T) {
	rec := kit.NewRecorder(t, "C20", c20bRule)
	rapid.Check(t, func(t *rapid.T) {
		c := rec.Case()
		defer c.Done()
		s := c19GenSess(t)
		s.V4, s.V6 = true, true // a mirrored session always has both tables
		s.AP4 = rapid.Bool().Draw(t, "bmp_ap4")
		s.AP6 = rapid.Bool().Draw(t, "bmp_ap6")
		u := c19GenUniverse(t)
		peerAS := uint32(c19PeerASN)
		if s.IBGP {
			peerAS = c19LocalASN
		}
		caps := func(as uint32) [][]byte {
			cs := [][]byte{c27CapMP(1, 1), c27CapMP(2, 1)}
			if s.ASN4 {
				cs = append(cs, c27CapASN4(as))
			}
			var tuples [][3]uint16
			if s.AP4 {
				tuples = append(tuples, [3]uint16{1, 1, 3})
			}
			if s.AP6 {
				tuples = append(tuples, [3]uint16{2, 1, 3})
			}
			if len(tuples) > 0 {
				cs = append(cs, c27CapAddPath(tuples...))
			}
			return cs
		}
		pph := c27PPH{Addr: c27V4(169, 254, 100, 100), AS: peerAS, BGPID: 0x0a0a0a0b, TS: 1700000000}
		if !s.ASN4 {
			pph.Flags |= c27FlagA
		}
		r := newRouter(net.IP{10, 0, 0, 254}, 1790, adjRIBInFactory{}, RouterConfig{})
		r.con = c27NewConn(nil, 0)
		r.processMsg(c27Initiation(c27TLV(2, []byte("r1"))))
		r.processMsg(c27PeerUp(pph, c27V4(169, 254, 100, 1), 179, 40000,
			c27Open(uint16(c19LocalASN), 90, c19RouterID, caps(c19LocalASN)...),
			c27Open(uint16(peerAS), 90, pph.BGPID, caps(peerAS)...), nil))
		n := r.neighborManager.getNeighbor(0, pph.Addr)
		if n == nil {
			t.Fatalf("harness: the peer-up notification did not create the neighbor (%v)", s)
		}
		if n.fsm.ipv4Unicast.addPathRX != s.AP4 || n.fsm.ipv6Unicast.addPathRX != s.AP6 || n.fsm.supports4OctetASN != s.ASN4 {
			t.Fatalf("harness: mirrored session options differ from the OPENs: %v, bio-rd: ap4=%v ap6=%v asn4=%v", s, n.fsm.ipv4Unicast.addPathRX, n.fsm.ipv6Unicast.addPathRX, n.fsm.supports4OctetASN)
		}
		c.Logf("%v", s)
		m4, m6 := c20Model{}, c20Model{}
		nontrivial := false
		for i, nmsg := 0, rapid.IntRange(2, 8).Draw(t, "nmsg"); i < nmsg; i++ {
			// RFC 7854 4.2: the A flag (legacy 2-octet AS_PATH format) belongs to the message, not to the peer
			sm := s
			if s.ASN4 && rapid.IntRange(0, 3).Draw(t, "legacy_aspath_format") == 0 {
				sm.ASN4 = false
				c.Class("a_flag_differs_from_session")
			}
			mp := pph
			if !sm.ASN4 {
				mp.Flags |= c27FlagA
			}
			m := c19GenMsg(t, sm, u, 6, false)
			b := m.build(sm)
			c.Logf("msg %d (A flag %v): %v", i, !sm.ASN4, m)
			if len(m.Nl) > 0 {
				m4.announce(m.Nl, s.AP4, c20Expect(m, s, m.A.NextHop[:]))
			}
			if m.Reach != nil && m.Reach.AFI == 1 {
				m4.announce(m.Reach.NLRI, s.AP4, c20Expect(m, s, m.Reach.NextHop[:4]))
			}
			m4.withdraw(m.Wd, s.AP4)
			if m.Unreach != nil && m.Unreach.AFI == 1 {
				m4.withdraw(m.Unreach.NLRI, s.AP4)
			}
			if m.Reach != nil && m.Reach.AFI == 2 {
				m6.announce(m.Reach.NLRI, s.AP6, c20Expect(m, s, m.Reach.NextHop[:16]))
			}
			if m.Unreach != nil && m.Unreach.AFI == 2 {
				m6.withdraw(m.Unreach.NLRI, s.AP6)
			}
			nontrivial = nontrivial || (s.AP4 && (c20DistinctIDs(m.Nl) || c20DistinctIDs(m.Wd) || (m.Reach != nil && m.Reach.AFI == 1 && c20DistinctIDs(m.Reach.NLRI)))) ||
				(s.AP6 && ((m.Reach != nil && m.Reach.AFI == 2 && c20DistinctIDs(m.Reach.NLRI)) || (m.Unreach != nil && m.Unreach.AFI == 2 && c20DistinctIDs(m.Unreach.NLRI))))
			pv := func() (pv interface{}) {
				defer func() { pv = recover() }()
				r.processMsg(c27RouteMon(mp, b))
				return nil
			}()
			if pv != nil {
				t.Fatalf("C20/bmp-panic %v: route monitoring message %d panicked: %v\nmessage: %v\nbytes: %s", s, i, pv, m, hex.EncodeToString(b))
			}
			if r.neighborManager.getNeighbor(0, pph.Addr) != n {
				t.Fatalf("C20/bmp-rejected %v: valid UPDATE %d in a route monitoring message took the mirrored session down\nmessage: %v\nbytes: %s", s, i, m, hex.EncodeToString(b))
			}
			if d := c20Diff(m4.lines(), c20Actual(n.fsm.ipv4Unicast.adjRIBIn, s)); d != "" {
				t.Fatalf("C20/bmp-adj-rib-in-ipv4 %v: after UPDATE %d the IPv4 Adj-RIB-In of the mirrored session differs from the per-NLRI model\nmessage: %v\nbytes: %s\n%s", s, i, m, hex.EncodeToString(b), d)
			}
			if d := c20Diff(m6.lines(), c20Actual(n.fsm.ipv6Unicast.adjRIBIn, s)); d != "" {
				t.Fatalf("C20/bmp-adj-rib-in-ipv6 %v: after UPDATE %d the IPv6 Adj-RIB-In of the mirrored session differs from the per-NLRI model\nmessage: %v\nbytes: %s\n%s", s, i, m, hex.EncodeToString(b), d)
			}
		}
		c.ClassIf(s.AP4, "addpath4")
		c.ClassIf(s.AP6, "addpath6")
		c.ClassIf(s.IBGP, "ibgp")
		c.NonTrivialIf(nontrivial)
	})
}

//go:build verif

package server

// C05 from the wire: the Loc-RIB mirrors what the session's Adj-RIB-In
// accepted when the announcements arrive as real UPDATE bytes (the synchronous
// session rig of c19_rig_test.go and the valid-UPDATE generator of C19/C20:
// classic NLRI, MP_REACH/MP_UNREACH for IPv6 and IPv4-over-MP, several NLRI
// with their own path identifiers per message). A model (prefix, path id) ->
// (attributes, eligible) is updated per NLRI; after every message the Loc-RIB
// of each configured family must hold exactly the eligible entries, each once,
// under its own path identifier; when the Adj-RIB-In is finally unregistered
// from the Loc-RIB (what leaving Established does) the Loc-RIB must be empty.

import (
	"encoding/hex"
	"fmt"
	"sort"
	"testing"

	"pgregory.net/rapid"
	kit "verifkit"
)

const c05wRule = "sessions (iBGP/eBGP, add-path RX on/off per family, 2/4-byte ASN, IPv4 and/or IPv6) x sequences of 2..8 valid UPDATEs (0..6 classic NLRI / withdrawn routes, MP_REACH / MP_UNREACH, distinct path ids inside a message) over 2..7 related prefixes per family, then Unregister. Non-trivial: an add-path session received one list with >= 2 NLRI carrying >= 2 path identifiers and a later message withdrew or re-announced a stored (prefix, id)."

// c05wEligible is the harness's own reading of RFC 4271 9.1.2 / 4456 sect. 8
// for the rig's session (local AS 65000, router id 10.10.10.10, no cluster id).
func c05wEligible(m *c19Msg, s c19Sess) bool {
	if !s.IBGP && len(m.A.Segs) == 0 {
		return false
	}
	for _, sg := range m.A.Segs {
		for _, a := range sg.ASNs {
			if a == c19LocalASN {
				return false
			}
		}
	}
	if m.A.Originator != nil && *m.A.Originator == c19RouterID {
		return false
	}
	return true
}

type c05wModel struct {
	attrs c20Model
	elig  map[c20Key]bool
}

func (mo *c05wModel) announce(ns []kit.WNLRI, addPath bool, attrs string, elig bool) (replaced bool) {
	for _, n := range ns {
		id := uint32(0)
		if addPath {
			id = n.PathID
		}
		k := c20Key{c20PfxKey(n.P), id}
		if _, ok := mo.attrs[k]; ok {
			replaced = true
		}
		mo.elig[k] = elig
	}
	mo.attrs.announce(ns, addPath, attrs)
	return
}

func (mo *c05wModel) withdraw(ns []kit.WNLRI, addPath bool) (hit bool) {
	before := len(mo.attrs)
	mo.attrs.withdraw(ns, addPath)
	for k := range mo.elig {
		if _, ok := mo.attrs[k]; !ok {
			delete(mo.elig, k)
		}
	}
	return len(mo.attrs) != before
}

func (mo *c05wModel) lines() []string {
	var out []string
	for k, v := range mo.attrs {
		if mo.elig[k] {
			out = append(out, fmt.Sprintf("%s #%d %s", k.Pfx, k.ID, v))
		}
	}
	sort.Strings(out)
	return out
}

func TestVerifC05Wire(t *testing.T) {
	rec := kit.NewRecorder(t, "C05", c05wRule)
	rapid.Check(t, func(t *rapid.T) {
		c := rec.Case()
		defer c.Done()
		s := c19GenSess(t)
		u := c19GenUniverse(t)
		rig := c19NewRig(s)
		c.Logf("%v", s)
		m4 := &c05wModel{c20Model{}, map[c20Key]bool{}}
		m6 := &c05wModel{c20Model{}, map[c20Key]bool{}}
		nmsg := rapid.IntRange(2, 8).Draw(t, "nmsg")
		multi, touched := false, false
		for i := 0; i < nmsg; i++ {
			m := c19GenMsg(t, s, u, 6, false)
			b := m.build(s)
			c.Logf("msg %d: %v", i, m)
			el := c05wEligible(m, s)
			hit := false
			if s.V4 {
				if len(m.Nl) > 0 {
					hit = m4.announce(m.Nl, s.AP4, c20Expect(m, s, m.A.NextHop[:]), el) || hit
				}
				if m.Reach != nil && m.Reach.AFI == 1 {
					hit = m4.announce(m.Reach.NLRI, s.AP4, c20Expect(m, s, m.Reach.NextHop[:4]), el) || hit
				}
				hit = m4.withdraw(m.Wd, s.AP4) || hit
				if m.Unreach != nil && m.Unreach.AFI == 1 {
					hit = m4.withdraw(m.Unreach.NLRI, s.AP4) || hit
				}
			}
			if s.V6 {
				if m.Reach != nil && m.Reach.AFI == 2 {
					hit = m6.announce(m.Reach.NLRI, s.AP6, c20Expect(m, s, m.Reach.NextHop[:16]), el) || hit
				}
				if m.Unreach != nil && m.Unreach.AFI == 2 {
					hit = m6.withdraw(m.Unreach.NLRI, s.AP6) || hit
				}
			}
			if multi && hit {
				touched = true
			}
			if el && ((s.AP4 && s.V4 && (c20DistinctIDs(m.Nl) || (m.Reach != nil && m.Reach.AFI == 1 && c20DistinctIDs(m.Reach.NLRI)))) ||
				(s.AP6 && s.V6 && m.Reach != nil && m.Reach.AFI == 2 && c20DistinctIDs(m.Reach.NLRI))) {
				multi = true
			}
			c.ClassIf(!el, "ineligible_announcement")
			pv, st, why := rig.feed(c19Frame(b, false), uint32(3000+i))
			if pv != nil || st != stateNameEstablished {
				t.Fatalf("harness: valid UPDATE %d not accepted (panic %v, state %s, %q)\nmessage: %v\nbytes: %s", i, pv, st, why, m, hex.EncodeToString(b))
			}
			if s.V4 {
				if d := c20Diff(m4.lines(), c20Actual(rig.rib4, s)); d != "" {
					t.Fatalf("C05/wire-ipv4 %v: after UPDATE %d the IPv4 Loc-RIB differs from the eligible announcements of the session\nmessage: %v\nbytes: %s\n%s\n%s", s, i, m, hex.EncodeToString(b), d, c.String())
				}
			}
			if s.V6 {
				if d := c20Diff(m6.lines(), c20Actual(rig.rib6, s)); d != "" {
					t.Fatalf("C05/wire-ipv6 %v: after UPDATE %d the IPv6 Loc-RIB differs from the eligible announcements of the session\nmessage: %v\nbytes: %s\n%s\n%s", s, i, m, hex.EncodeToString(b), d, c.String())
				}
			}
		}
		if s.V4 {
			rig.in4.Unregister(rig.rib4)
			if got := c20Actual(rig.rib4, s); len(got) != 0 {
				t.Fatalf("C05/wire-unregister %v: IPv4 Loc-RIB keeps paths of the session after its Adj-RIB-In was unregistered: %v\n%s", s, got, c.String())
			}
		}
		if s.V6 {
			rig.in6.Unregister(rig.rib6)
			if got := c20Actual(rig.rib6, s); len(got) != 0 {
				t.Fatalf("C05/wire-unregister %v: IPv6 Loc-RIB keeps paths of the session after its Adj-RIB-In was unregistered: %v\n%s", s, got, c.String())
			}
		}
		c.ClassIf(multi, "multi_id_list")
		c.ClassIf(s.AP4 || s.AP6, "addpath")
		c.NonTrivialIf(multi && touched)
	})
}

//go:build verif

package server

// C22 — OPEN negotiation admits only valid sessions and negotiates correctly.
//
// Rig: shared asynchronous session rig (c00): real bgpServer, real FSM
// goroutines, in-memory conns through AcceptCh. One bystander session per rig
// puts 192.0.2.0/24 into the Loc-RIB so that every accepted session has a
// route to export. Per case: a fresh peer with a generated local
// configuration and 1-2 consecutive connections, each with a generated OPEN.
//
// Oracle: c22Decide, a reference decision function written from the statement
// and the RFCs it rests on (4271 §4.2/§6.2, 6793, 6286, 9234 §4.2, 7911 §4,
// 4760 §8). "Advertised by our side" is taken from bio-rd's own OPEN as
// captured on the conn (parsed by the kit), not from the configuration.
//   reject: first NOTIFICATION on the conn is OPEN Message Error (2) with a
//           subcode belonging to one of the applicable reasons, the conn is
//           closed, the FSM is Idle (never Established);
//   accept: KEEPALIVE answered, OpenConfirm, Established after our
//           KEEPALIVE; then, with the FSM quiescent, fsm.holdTime,
//           fsm.decodeOptions(), each family's addPathRX/addPathTX/
//           multiProtocol and the update sender's encode options equal the
//           reference; one UPDATE each way shows the encoding really used
//           (path identifiers, AS number width, MP_REACH for IPv4).
// Real-time deadlines and bio-rd's ~1 s OpenSent window / expired negotiated
// hold timers (Hold Timer Expired on the conn) are inconclusive.

import (
	"fmt"
	"sort"
	"strings"
	"testing"
	"time"

	bnet "github.com/bio-routing/bio-rd/net"
	"github.com/bio-routing/bio-rd/routingtable"
	"github.com/bio-routing/bio-rd/routingtable/filter"
	"pgregory.net/rapid"
	kit "verifkit"
)

const c22Rule = "local peer configuration (iBGP/eBGP, 2-/4-octet local and peer AS, RFC 9234 role off / 5 roles / strict, hold time, add-path send/receive per family, IPv6 family on/off, IPv4 multiprotocol advertised or not) x 1-2 consecutive connections of the same peer (on fresh FSMs of a passive peer, or both on the own FSM of a non-passive peer), each with a generated OPEN (My AS incl. AS_TRANS + 4-octet capability, right/wrong AS, identifier incl. 0 and ours, hold time {0,1,2,3,5,90,65535}, capability sets incl. duplicates, unknown codes, two different roles, both optional-parameter layouts). Non-trivial: an OPEN that must be rejected for exactly one reason, or an accepted one that negotiates >= 2 capabilities."

const (
	c22RouterID = 0x0a000001
	c22ByAS     = 65002
	c22ByRoute  = "192.0.2.0/24"
	c22ASTrans  = 23456
)

// RFC 9234 role values on the wire.
const (
	c22RoleProvider = 0
	c22RoleRS       = 1
	c22RoleRSClient = 2
	c22RoleCustomer = 3
	c22RolePeer     = 4
)

type c22Cfg struct {
	localAS, peerAS uint32
	role            uint8 // PeerConfigRole* (0 = off)
	strict          bool
	hold            int // seconds
	v4Send, v6Send  int // 0 = best only, else MaxPaths
	v4Recv, v6Recv  bool
	v6              bool
	mp4             bool
	// active: the peer is not passive; both sessions run on the peer's own FSM (handed a connection through
	// conCh the way tcpConnector does), so the second session re-uses the FSM object of the first
	active bool
}

func (c c22Cfg) ibgp() bool { return c.localAS == c.peerAS }

func (c c22Cfg) String() string {
	return fmt.Sprintf("localAS=%d peerAS=%d role=%d strict=%v hold=%d v4{send=%d recv=%v mp=%v} v6{on=%v send=%d recv=%v} active=%v", c.localAS, c.peerAS, c.role, c.strict, c.hold, c.v4Send, c.v4Recv, c.mp4, c.v6, c.v6Send, c.v6Recv, c.active)
}

type c22Open struct {
	as16   uint16
	hold   uint16
	id     uint32
	caps   []kit.WCap
	onePer bool
}

func (o c22Open) String() string {
	var cs []string
	for _, c := range o.caps {
		cs = append(cs, fmt.Sprintf("%d:%x", c.Code, c.Value))
	}
	return fmt.Sprintf("as=%d hold=%d id=%#x onePer=%v caps=[%s]", o.as16, o.hold, o.id, o.onePer, strings.Join(cs, " "))
}

func (o c22Open) build() []byte {
	return (&kit.WOpen{Version: 4, AS: o.as16, HoldTime: o.hold, ID: o.id, Caps: o.caps, OneParamPerCap: o.onePer}).Build()
}

// c22Caps is the capability view of one side's OPEN.
type c22Caps struct {
	asn4     bool
	asn4Val  uint32
	mp       map[[2]uint16]bool // (afi, safi)
	apSend   map[uint16]bool    // afi (safi unicast): side can send multiple paths
	apRecv   map[uint16]bool    // side can receive
	apAmbig  map[uint16]bool    // several add-path tuples for the family that disagree
	roles    []uint8
	unknowns int
}

func c22ParseCaps(caps []kit.WCap) c22Caps {
	v := c22Caps{mp: map[[2]uint16]bool{}, apSend: map[uint16]bool{}, apRecv: map[uint16]bool{}, apAmbig: map[uint16]bool{}}
	seenAP := map[uint16]uint8{}
	for _, c := range caps {
		switch c.Code {
		case 1:
			if len(c.Value) == 4 {
				v.mp[[2]uint16{uint16(c.Value[0])<<8 | uint16(c.Value[1]), uint16(c.Value[3])}] = true
			}
		case 65:
			if len(c.Value) == 4 {
				if !v.asn4 {
					v.asn4Val = uint32(c.Value[0])<<24 | uint32(c.Value[1])<<16 | uint32(c.Value[2])<<8 | uint32(c.Value[3])
				}
				v.asn4 = true
			}
		case 69:
			for i := 0; i+4 <= len(c.Value); i += 4 {
				afi := uint16(c.Value[i])<<8 | uint16(c.Value[i+1])
				safi, sr := c.Value[i+2], c.Value[i+3]
				if safi != 1 {
					continue
				}
				if prev, ok := seenAP[afi]; ok && prev != sr {
					v.apAmbig[afi] = true
				}
				seenAP[afi] = sr
				// RFC 7911 §4: 1 receive, 2 send, 3 both; other values: ignored
				if sr == 1 || sr == 3 {
					v.apRecv[afi] = true
				}
				if sr == 2 || sr == 3 {
					v.apSend[afi] = true
				}
			}
		case 9:
			if len(c.Value) == 1 {
				v.roles = append(v.roles, c.Value[0])
			}
		default:
			v.unknowns++
		}
	}
	return v
}

type c22FamExp struct {
	rx, tx, mp bool
	ambig      bool
}

type c22Verdict struct {
	reasons map[uint8][]string // OPEN error subcode -> why (empty: accept)
	hold    int
	asn4    bool
	fam     map[uint16]c22FamExp
	ncaps   int
}

func c22RolesCompatible(local, remote uint8) bool {
	switch {
	case local == c22RoleProvider && remote == c22RoleCustomer, local == c22RoleCustomer && remote == c22RoleProvider:
		return true
	case local == c22RoleRS && remote == c22RoleRSClient, local == c22RoleRSClient && remote == c22RoleRS:
		return true
	case local == c22RolePeer && remote == c22RolePeer:
		return true
	}
	return false
}

// c22Decide is the reference. ours = what bio-rd advertised on this conn.
func c22Decide(cfg c22Cfg, ourID uint32, ours *kit.WOpen, o c22Open) c22Verdict {
	v := c22Verdict{reasons: map[uint8][]string{}, fam: map[uint16]c22FamExp{}}
	add := func(sub uint8, why string) { v.reasons[sub] = append(v.reasons[sub], why) }
	pc := c22ParseCaps(o.caps)
	lc := c22ParseCaps(ours.Caps)

	// RFC 4271 §6.2 / RFC 6286 §2.2
	if o.id == 0 {
		add(3, "identifier 0")
	}
	if cfg.ibgp() && o.id == ourID {
		add(3, "identifier equals ours on an internal session")
	}
	// RFC 4271 §4.2
	if o.hold == 1 || o.hold == 2 {
		add(6, fmt.Sprintf("hold time %d", o.hold))
	}
	// RFC 6793 §4.1: AS from the capability when My AS is AS_TRANS
	peerAS := uint32(o.as16)
	if o.as16 == c22ASTrans && pc.asn4 {
		peerAS = pc.asn4Val
	}
	if peerAS != cfg.peerAS {
		add(2, fmt.Sprintf("peer AS %d, configured %d", peerAS, cfg.peerAS))
	}
	// RFC 9234 §4.2 (eBGP only, only when we advertised a role)
	localRoles := lc.roles
	if !cfg.ibgp() && len(localRoles) > 0 {
		lr := localRoles[0]
		switch {
		case len(pc.roles) == 0:
			if cfg.strict {
				add(11, "strict mode and no role advertised")
			}
		default:
			same := true
			for _, r := range pc.roles {
				if r != pc.roles[0] {
					same = false
				}
			}
			if !same {
				add(11, fmt.Sprintf("different roles advertised %v", pc.roles))
			} else if !c22RolesCompatible(lr, pc.roles[0]) {
				add(11, fmt.Sprintf("local role %d, remote role %d", lr, pc.roles[0]))
			}
		}
	}
	// negotiated values
	v.hold = int(ours.HoldTime)
	if int(o.hold) < v.hold {
		v.hold = int(o.hold)
	}
	v.asn4 = lc.asn4 && pc.asn4
	if v.asn4 {
		v.ncaps++
	}
	afis := []uint16{1}
	if cfg.v6 {
		afis = append(afis, 2)
	}
	for _, afi := range afis {
		e := c22FamExp{
			rx:    lc.apRecv[afi] && pc.apSend[afi],
			tx:    lc.apSend[afi] && pc.apRecv[afi],
			mp:    lc.mp[[2]uint16{afi, 1}] && pc.mp[[2]uint16{afi, 1}],
			ambig: pc.apAmbig[afi],
		}
		v.fam[afi] = e
		for _, b := range []bool{e.rx, e.tx, e.mp} {
			if b {
				v.ncaps++
			}
		}
	}
	return v
}

func (v c22Verdict) String() string {
	if len(v.reasons) > 0 {
		var subs []int
		for s := range v.reasons {
			subs = append(subs, int(s))
		}
		sort.Ints(subs)
		var parts []string
		for _, s := range subs {
			parts = append(parts, fmt.Sprintf("2/%d (%s)", s, strings.Join(v.reasons[uint8(s)], "; ")))
		}
		return "reject " + strings.Join(parts, ", ")
	}
	return fmt.Sprintf("accept hold=%d asn4=%v v4=%+v v6=%+v", v.hold, v.asn4, v.fam[1], v.fam[2])
}

// ---------------------------------------------------------------------------
// generators

func c22GenCfg(t *rapid.T) c22Cfg {
	var c c22Cfg
	c.localAS = rapid.SampledFrom([]uint32{65000, 65000, 4200000000}).Draw(t, "localAS")
	if rapid.IntRange(0, 2).Draw(t, "ibgp") == 0 {
		c.peerAS = c.localAS
	} else {
		c.peerAS = rapid.SampledFrom([]uint32{65001, 65001, 4200000001, 196618}).Draw(t, "peerAS")
	}
	if rapid.Bool().Draw(t, "roleOn") {
		c.role = uint8(rapid.IntRange(PeerConfigRoleProvider, PeerConfigRolePeer).Draw(t, "role"))
		c.strict = rapid.Bool().Draw(t, "strict")
	}
	c.hold = rapid.SampledFrom([]int{90, 90, 30, 3, 240, 0}).Draw(t, "localHold")
	c.v4Send = rapid.SampledFrom([]int{0, 0, 2, 3}).Draw(t, "v4Send")
	c.v4Recv = rapid.Bool().Draw(t, "v4Recv")
	c.mp4 = rapid.Bool().Draw(t, "mp4")
	c.v6 = rapid.Bool().Draw(t, "v6")
	if c.v6 {
		c.v6Send = rapid.SampledFrom([]int{0, 0, 2, 3}).Draw(t, "v6Send")
		c.v6Recv = rapid.Bool().Draw(t, "v6Recv")
	}
	return c
}

func c22SendOpt(n int) routingtable.ClientOptions {
	if n == 0 {
		return routingtable.ClientOptions{BestOnly: true}
	}
	return routingtable.ClientOptions{MaxPaths: uint(n)}
}

func (c c22Cfg) peerConfig(r *c00Rig, ip bnet.IP) PeerConfig {
	pc := r.c00PeerCfg(ip, bnet.IPv4FromOctets(10, 0, 0, 1), c.localAS, c.peerAS)
	pc.HoldTime = time.Duration(c.hold) * time.Second
	pc.KeepAlive = pc.HoldTime / 3
	pc.PeerRole = c.role
	pc.PeerRoleStrictMode = c.strict
	pc.AdvertiseIPv4MultiProtocol = c.mp4
	if c.active {
		pc.Passive = false
		pc.ReconnectInterval = time.Millisecond
	}
	pc.IPv4.AddPathSend = c22SendOpt(c.v4Send)
	pc.IPv4.AddPathRecv = c.v4Recv
	if c.v6 {
		pc.IPv6 = &AddressFamilyConfig{
			ImportFilterChain: filter.NewAcceptAllFilterChain(),
			ExportFilterChain: filter.NewAcceptAllFilterChain(),
			AddPathSend:       c22SendOpt(c.v6Send),
			AddPathRecv:       c.v6Recv,
		}
	}
	return pc
}

// c22CompatibleRole returns the RFC role value that matches the local config role.
func c22CompatibleRole(cfgRole uint8) uint8 {
	switch cfgRole {
	case PeerConfigRoleProvider:
		return c22RoleCustomer
	case PeerConfigRoleCustomer:
		return c22RoleProvider
	case PeerConfigRoleRS:
		return c22RoleRSClient
	case PeerConfigRoleRSClient:
		return c22RoleRS
	}
	return c22RolePeer
}

// c22GenOpen draws an OPEN: mostly valid for cfg, with 0-2 deliberate defects.
func c22GenOpen(t *rapid.T, cfg c22Cfg, label string, wantRole int) c22Open {
	var o c22Open
	o.onePer = rapid.Bool().Draw(t, label+"onePer")
	o.hold = uint16(rapid.SampledFrom([]int{90, 90, 90, 0, 3, 5, 65535, 1, 2}).Draw(t, label+"hold"))
	// identifier
	switch rapid.IntRange(0, 9).Draw(t, label+"idMode") {
	case 0:
		o.id = 0
	case 1, 2:
		o.id = c22RouterID
	case 3:
		o.id = c22RouterID + 1
	default:
		o.id = rapid.Uint32Range(1, 0xffffffff).Draw(t, label+"id")
	}
	// AS
	asMode := rapid.IntRange(0, 9).Draw(t, label+"asMode")
	asn4Cap := rapid.IntRange(0, 4).Draw(t, label+"asn4") != 0
	asn4Val := cfg.peerAS
	switch {
	case asMode == 0: // wrong AS
		wrong := rapid.SampledFrom([]uint32{65009, 64512, 4200000009, c22ASTrans, cfg.localAS, cfg.peerAS + 1}).Draw(t, label+"wrongAS")
		if wrong == cfg.peerAS {
			wrong++
		}
		asn4Val = wrong
	case asMode == 1: // AS_TRANS without the capability
		asn4Cap = false
		o.as16 = c22ASTrans
	case asMode == 2: // AS_TRANS + capability although the AS would fit
		asn4Cap = true
		o.as16 = c22ASTrans
	}
	if o.as16 == 0 {
		if asn4Val > 65535 {
			o.as16 = c22ASTrans
		} else {
			o.as16 = uint16(asn4Val)
		}
	}
	var caps []kit.WCap
	if asn4Cap {
		caps = append(caps, kit.CapASN4(asn4Val))
	}
	// multiprotocol
	if rapid.IntRange(0, 2).Draw(t, label+"mp4") == 0 {
		caps = append(caps, kit.CapMP(1, 1))
	}
	if rapid.IntRange(0, 2).Draw(t, label+"mp6") != 0 {
		caps = append(caps, kit.CapMP(2, 1))
	}
	if rapid.IntRange(0, 5).Draw(t, label+"mpOther") == 0 {
		caps = append(caps, kit.CapMP(uint16(rapid.SampledFrom([]int{1, 2, 25}).Draw(t, label+"mpAfi")), uint8(rapid.SampledFrom([]int{2, 4, 128}).Draw(t, label+"mpSafi"))))
	}
	// add-path
	var tuples [][3]uint16
	for _, afi := range []uint16{1, 2} {
		if rapid.IntRange(0, 2).Draw(t, fmt.Sprintf("%sap%d", label, afi)) != 0 {
			tuples = append(tuples, [3]uint16{afi, 1, uint16(rapid.SampledFrom([]int{1, 2, 3, 3, 0, 4}).Draw(t, fmt.Sprintf("%sapsr%d", label, afi)))})
		}
	}
	if rapid.IntRange(0, 7).Draw(t, label+"apOther") == 0 {
		tuples = append(tuples, [3]uint16{1, 2, 3}) // multicast: irrelevant
	}
	if len(tuples) > 0 {
		if rapid.Bool().Draw(t, label+"apSplit") {
			for _, tu := range tuples {
				caps = append(caps, kit.CapAddPath(tu))
			}
		} else {
			caps = append(caps, kit.CapAddPath(tuples...))
		}
		if rapid.IntRange(0, 5).Draw(t, label+"apDup") == 0 {
			caps = append(caps, kit.CapAddPath(tuples[0])) // identical duplicate
		}
		if rapid.IntRange(0, 9).Draw(t, label+"apConflict") == 0 {
			tu := tuples[0]
			tu[2] = tu[2]%3 + 1
			caps = append(caps, kit.CapAddPath(tu)) // disagreeing duplicate: reference is silent
		}
	}
	// roles
	roleMode := rapid.IntRange(0, 9).Draw(t, label+"roleMode")
	if wantRole >= 0 {
		roleMode = wantRole
	}
	switch roleMode {
	case 0, 1, 2: // none
	case 3, 4, 5, 6: // the compatible one
		caps = append(caps, kit.CapRole(c22CompatibleRole(cfg.role)))
		if rapid.IntRange(0, 4).Draw(t, label+"roleDup") == 0 {
			caps = append(caps, kit.CapRole(c22CompatibleRole(cfg.role)))
		}
	case 7, 8: // any single role
		caps = append(caps, kit.CapRole(uint8(rapid.SampledFrom([]int{0, 1, 2, 3, 4, 5, 255}).Draw(t, label+"roleAny"))))
	default: // two different roles, one of them the compatible one
		a := c22CompatibleRole(cfg.role)
		b := uint8(rapid.IntRange(0, 4).Draw(t, label+"role2"))
		if b == a {
			b = (a + 1) % 5
		}
		if rapid.Bool().Draw(t, label+"roleOrder") {
			a, b = b, a
		}
		caps = append(caps, kit.CapRole(a), kit.CapRole(b))
	}
	// unknown capabilities
	for i, n := 0, rapid.IntRange(0, 2).Draw(t, label+"nUnknown"); i < n; i++ {
		code := uint8(rapid.SampledFrom([]int{2, 64, 70, 71, 73, 128, 131, 200}).Draw(t, label+"unkCode"))
		caps = append(caps, kit.WCap{Code: code, Value: rapid.SliceOfN(rapid.Byte(), 0, 6).Draw(t, label+"unkVal")})
	}
	if rapid.IntRange(0, 5).Draw(t, label+"dupASN4") == 0 && asn4Cap {
		caps = append(caps, kit.CapASN4(asn4Val))
	}
	// order
	if rapid.Bool().Draw(t, label+"shuffle") && len(caps) > 1 {
		perm := rapid.Permutation(caps).Draw(t, label+"perm")
		// keep role caps in their relative order irrelevant; all orders are valid
		caps = perm
	}
	o.caps = caps
	return o
}

// ---------------------------------------------------------------------------
// environment

type c22Env struct {
	rig    *c00Rig
	byIP   bnet.IP
	byConn *kit.Conn
	byFSM  *FSM
	used   int
}

var c22PeerSeq uint32

func c22NewEnv() *c22Env {
	r := c00NewRig(c22RouterID)
	e := &c22Env{rig: r, byIP: bnet.IPv4FromOctets(10, 0, 0, 2)}
	if err := r.srv.AddPeer(r.c00PeerCfg(e.byIP, bnet.IPv4FromOctets(10, 0, 0, 1), 64900, c22ByAS)); err != nil {
		panic(err)
	}
	e.byConn, e.byFSM = r.c00Connect(e.byIP)
	ok, s := r.c00Establish(e.byConn, e.byFSM, c00Open(c22ByAS, 0x0a000002, 0, kit.CapASN4(c22ByAS)))
	if !ok {
		panic(c00Inconclusive{"bystander did not establish: " + s})
	}
	e.byConn.Feed(c00Update([]uint32{c22ByAS}, [4]byte{10, 0, 0, 2}, nil, true, false, kit.WNLRI{P: kit.V4(0xc0000200, 24)}))
	c00Barrier(e.byConn, e.byFSM)
	if !e.healthy() {
		panic(c00Inconclusive{"bystander not healthy after setup"})
	}
	return e
}

func (e *c22Env) healthy() bool {
	if c00State(e.byFSM) != stateNameEstablished || e.byConn.Closed() {
		return false
	}
	got := e.rig.c00RIBFromPeer(e.byIP, false)
	return len(got) == 1 && got[0] == c22ByRoute
}

func (e *c22Env) dispose() { c22Teardown(e.byConn, e.byFSM) }

func c22Teardown(c *kit.Conn, f *FSM) {
	defer func() {
		if r := recover(); r != nil {
			if _, ok := r.(c00Inconclusive); ok {
				return
			}
			panic(r)
		}
	}()
	if s := c00State(f); !c22IsDown(s) {
		select {
		case f.eventCh <- ManualStop:
			c22WaitDown(f)
		case <-time.After(2 * time.Second):
		}
	}
	c.FeedEOF()
	if c00State(f) == stateNameIdle && f.ribsInitialized {
		(&establishedState{fsm: f}).uninit()
	}
}

// c22IsDown: the session is over. A passive peer's FSM stays in Idle; the FSM of an active peer restarts by
// itself and is in Connect or Active soon after.
func c22IsDown(state string) bool {
	return state == stateNameIdle || state == stateNameConnect || state == stateNameActive
}

func c22WaitDown(f *FSM) { c00WaitState(f, stateNameIdle, stateNameConnect, stateNameActive) }

func c22Has(ns [][2]uint8, code, sub uint8) bool {
	for _, n := range ns {
		if n[0] == code && n[1] == sub {
			return true
		}
	}
	return false
}

// c22HoldExpired panics inconclusive when the conn shows Hold Timer Expired:
// bio-rd's OpenSent window (~1 s) or a small negotiated hold time ran out
// before the harness got there - a real-time race, not a verdict.
func c22HoldExpired(conn *kit.Conn, where string) {
	if c22Has(c00Notifications(conn), 4, 0) {
		panic(c00Inconclusive{"hold timer expired " + where})
	}
}

type c22Ctx struct {
	env  *c22Env
	cfg  c22Cfg
	ip   bnet.IP
	c    *kit.Case
	note func(string)
}

// c22Session runs one connection of the peer with the given OPEN and returns
// a violation text ("" = fine).
func c22Session(x *c22Ctx, o c22Open, sessNo int) string {
	r := x.env.rig
	var conn *kit.Conn
	var f *FSM
	if x.cfg.active {
		f = r.c00FSMs(x.ip)[0]
		if c00State(f) == stateNameIdle {
			// a stopped FSM waits for a start event (the first start comes from AddPeer)
			select {
			case f.eventCh <- AutomaticStart:
			case <-time.After(c00Deadline):
				panic(c00Inconclusive{"idle FSM did not take AutomaticStart"})
			}
		}
		c00WaitState(f, stateNameConnect)
		conn = kit.NewConn(nil, nil)
		select {
		case f.conCh <- conn:
		case <-time.After(c00Deadline):
			panic(c00Inconclusive{"outgoing FSM did not take the connection"})
		}
		if !conn.WaitWritten(19, c00Deadline) {
			panic(c00Inconclusive{"outgoing FSM sent no OPEN"})
		}
	} else {
		conn, f = r.c00Connect(x.ip)
	}
	defer c22Teardown(conn, f)
	msgs := c00Msgs(conn)
	if len(msgs) == 0 || msgs[0][18] != kit.MsgOpen {
		c22HoldExpired(conn, "before bio-rd's OPEN was seen")
		return fmt.Sprintf("first message of bio-rd on the conn is not an OPEN: %x", conn.Written())
	}
	ours, perr := kit.ParseOpen(msgs[0][19:])
	if perr != nil {
		return "bio-rd's OPEN does not parse: " + perr.Error()
	}
	v := c22Decide(x.cfg, c22RouterID, ours, o)
	x.c.Logf("session %d: ours{as=%d hold=%d caps=%d} expect: %v", sessNo, ours.AS, ours.HoldTime, len(ours.Caps), v)
	if len(v.reasons) == 1 {
		x.c.NonTrivial()
		for s := range v.reasons {
			x.c.Class(fmt.Sprintf("reject-one-reason:2/%d", s))
		}
	}
	x.c.ClassIf(len(v.reasons) > 1, "reject-several-reasons")
	x.c.ClassIf(len(v.reasons) == 0, "accept")
	if len(v.reasons) == 0 && v.ncaps >= 2 {
		x.c.NonTrivial()
		x.c.Class("accept-2+caps")
	}

	conn.Feed(o.build())
	c00WaitFor("reaction to OPEN", func() bool {
		if conn.Closed() {
			return true
		}
		s := c00State(f)
		return s != stateNameOpenSent && s != stateNameActive && s != stateNameConnect
	})
	if conn.Closed() {
		c22WaitDown(f)
	}
	state := c00State(f)
	ns := c00Notifications(conn)

	if len(v.reasons) > 0 {
		// must be rejected
		if state == stateNameOpenConfirm || state == stateNameEstablished {
			return fmt.Sprintf("OPEN that must be rejected (%v) was accepted: state %s", v, state)
		}
		c22HoldExpired(conn, "in OpenSent")
		if len(ns) == 0 {
			return fmt.Sprintf("OPEN rejected (%v) without NOTIFICATION; state %s, conn closed=%v", v, state, conn.Closed())
		}
		if ns[0][0] != 2 || v.reasons[ns[0][1]] == nil {
			return fmt.Sprintf("OPEN rejected with NOTIFICATION %d/%d, expected %v", ns[0][0], ns[0][1], v)
		}
		if !conn.Closed() {
			return fmt.Sprintf("OPEN rejected with NOTIFICATION %d/%d but the connection was not closed (state %s)", ns[0][0], ns[0][1], state)
		}
		if !c22IsDown(state) {
			return fmt.Sprintf("OPEN rejected but FSM state is %s", state)
		}
		// a KEEPALIVE afterwards must not revive anything
		return ""
	}

	// must be accepted
	if state != stateNameOpenConfirm {
		c22HoldExpired(conn, "in OpenSent")
		return fmt.Sprintf("valid OPEN not accepted: state %s, notifications %v, conn closed=%v", state, ns, conn.Closed())
	}
	conn.Feed(kit.Keepalive())
	if s := c00WaitState(f, stateNameEstablished, stateNameIdle); s != stateNameEstablished {
		c22HoldExpired(conn, "in OpenConfirm")
		return fmt.Sprintf("valid OPEN + KEEPALIVE did not establish: state %s, notifications %v", s, c00Notifications(conn))
	}
	// the answer to our OPEN must have been a KEEPALIVE
	if ms := c00Msgs(conn); len(ms) < 2 || ms[1][18] != kit.MsgKeepalive {
		return fmt.Sprintf("accepted OPEN was not answered with a KEEPALIVE: %x", conn.Written())
	}
	// quiescent point: Established reached, receiver parked
	c00Barrier(conn, f)
	if c00State(f) != stateNameEstablished {
		c22HoldExpired(conn, "right after Established")
		return fmt.Sprintf("session left Established right after the handshake: notifications %v", c00Notifications(conn))
	}
	// white box: negotiated values
	if got := int(f.holdTime / time.Second); got != v.hold || f.holdTime%time.Second != 0 {
		return fmt.Sprintf("negotiated hold time %v, expected %d s (ours %d, peer %d)", f.holdTime, v.hold, ours.HoldTime, o.hold)
	}
	dopt := f.decodeOptions()
	if dopt.Use32BitASN != v.asn4 {
		return fmt.Sprintf("decodeOptions.Use32BitASN=%v, expected %v", dopt.Use32BitASN, v.asn4)
	}
	type famView struct {
		afi  uint16
		fam  *fsmAddressFamily
		drx  bool
		send int
	}
	views := []famView{{1, f.ipv4Unicast, dopt.AddPathIPv4Unicast, x.cfg.v4Send}}
	if x.cfg.v6 {
		views = append(views, famView{2, f.ipv6Unicast, dopt.AddPathIPv6Unicast, x.cfg.v6Send})
	} else if f.ipv6Unicast != nil {
		return "IPv6 family present on the FSM although not configured"
	}
	for _, fv := range views {
		e := v.fam[fv.afi]
		if fv.fam == nil {
			return fmt.Sprintf("AFI %d: configured family missing on the FSM", fv.afi)
		}
		if fv.fam.multiProtocol != e.mp {
			return fmt.Sprintf("AFI %d: multiProtocol=%v, expected %v (both sides advertised: %v)", fv.afi, fv.fam.multiProtocol, e.mp, e.mp)
		}
		if e.ambig {
			x.c.Class("addpath-duplicate-disagrees(silent)")
			continue
		}
		if fv.fam.addPathRX != e.rx || fv.drx != e.rx {
			return fmt.Sprintf("AFI %d: addPathRX=%v decodeOptions=%v, expected %v", fv.afi, fv.fam.addPathRX, fv.drx, e.rx)
		}
		wantTX := routingtable.ClientOptions{BestOnly: true}
		if e.tx {
			wantTX = c22SendOpt(fv.send)
		}
		if fv.fam.addPathTX != wantTX {
			return fmt.Sprintf("AFI %d: addPathTX=%+v, expected %+v", fv.afi, fv.fam.addPathTX, wantTX)
		}
		if us := fv.fam.updateSender; us == nil {
			return fmt.Sprintf("AFI %d: no update sender in Established", fv.afi)
		} else if us.options.UseAddPath != e.tx || us.options.Use32BitASN != v.asn4 {
			return fmt.Sprintf("AFI %d: update sender options %+v, expected UseAddPath=%v Use32BitASN=%v", fv.afi, *us.options, e.tx, v.asn4)
		}
	}
	e4 := v.fam[1]
	if e4.ambig {
		return ""
	}
	// RX on the wire: one IPv4 UPDATE in the negotiated encoding must install its route
	first := x.cfg.peerAS
	if !v.asn4 && first > 65535 {
		first = c22ASTrans
	}
	var lp *uint32
	if x.cfg.ibgp() {
		l := uint32(100)
		lp = &l
	}
	nl := kit.WNLRI{P: kit.V4(0xc6336400, 24)}
	if e4.rx {
		nl.PathID, nl.HasID = 7, true
	}
	ip4 := x.ip.ToNetIP().To4()
	asPath := []uint32{first, 64999}
	if x.cfg.ibgp() {
		asPath = []uint32{64999} // our own AS in the path would make the route ineligible
	}
	conn.Feed(c00Update(asPath, [4]byte{ip4[0], ip4[1], ip4[2], ip4[3]}, lp, v.asn4, e4.rx, nl))
	c00Barrier(conn, f)
	if c00State(f) != stateNameEstablished {
		c22HoldExpired(conn, "while announcing")
		return fmt.Sprintf("UPDATE in the negotiated encoding (add-path=%v asn4=%v) ended the session: notifications %v", e4.rx, v.asn4, c00Notifications(conn))
	}
	if got := r.c00RIBFromPeer(x.ip, false); len(got) != 1 || got[0] != "198.51.100.0/24" {
		return fmt.Sprintf("UPDATE in the negotiated encoding (add-path=%v asn4=%v) installed %v, expected [198.51.100.0/24]", e4.rx, v.asn4, got)
	}
	// TX on the wire: the bystander's route must arrive in the negotiated encoding
	wopts := kit.WOpts{AddPath4: e4.tx, ASN4: v.asn4}
	var found *kit.WUpdate
	var perrTX string
	c00WaitFor("export of the bystander's route", func() bool {
		for _, m := range c00Msgs(conn) {
			if m[18] != kit.MsgUpdate || len(m) <= 23 {
				continue
			}
			u, e := kit.ParseUpdate(m[19:], wopts)
			if e != nil {
				perrTX = fmt.Sprintf("%v: %x", e, m)
				return true
			}
			if len(u.NLRI) > 0 || (u.MPReach != nil && len(u.MPReach.NLRI) > 0) {
				found = u
				return true
			}
		}
		if c00State(f) != stateNameEstablished {
			return true
		}
		return false
	})
	if found == nil && perrTX == "" {
		c22HoldExpired(conn, "while waiting for the export")
		return fmt.Sprintf("session left Established while waiting for the export: %v", c00Notifications(conn))
	}
	if perrTX != "" {
		return fmt.Sprintf("UPDATE sent by bio-rd does not parse with the negotiated options %+v: %s", wopts, perrTX)
	}
	nlri := found.NLRI
	viaMP := false
	if found.MPReach != nil && len(found.MPReach.NLRI) > 0 {
		nlri, viaMP = found.MPReach.NLRI, true
		if found.MPReach.AFI != 1 || found.MPReach.SAFI != 1 {
			return fmt.Sprintf("first exported UPDATE carries MP_REACH for AFI/SAFI %d/%d", found.MPReach.AFI, found.MPReach.SAFI)
		}
	}
	if viaMP != e4.mp {
		return fmt.Sprintf("IPv4 route exported via MP_REACH=%v, expected %v (IPv4 multiprotocol negotiated: %v)", viaMP, e4.mp, e4.mp)
	}
	if len(nlri) != 1 || nlri[0].P != kit.V4(0xc0000200, 24) || nlri[0].HasID != e4.tx {
		return fmt.Sprintf("exported NLRI %v parsed with add-path=%v, expected [192.0.2.0/24] (path id present: %v)", nlri, e4.tx, e4.tx)
	}
	if !found.HasASPath || len(found.ASPath) == 0 {
		return fmt.Sprintf("exported UPDATE has no AS_PATH when parsed with asn4=%v", v.asn4)
	}
	var flat []uint32
	for _, s := range found.ASPath {
		flat = append(flat, s.ASNs...)
	}
	wantLast := uint32(c22ByAS)
	if len(flat) == 0 || flat[len(flat)-1] != wantLast {
		return fmt.Sprintf("exported AS_PATH %v parsed with asn4=%v does not end in %d", flat, v.asn4, wantLast)
	}
	x.c.Class("wire-checked")
	// peer-initiated shutdown
	conn.Feed(kit.Notification(6, 2, nil))
	c22WaitDown(f)
	return ""
}

func TestVerifC22Open(t *testing.T) {
	rec := kit.NewRecorder(t, "C22", c22Rule)
	var inc c21Inc
	var env *c22Env
	defer func() {
		if env != nil {
			env.dispose()
		}
	}()
	caseNo := 0
	rapid.Check(t, func(t *rapid.T) {
		c := rec.Case()
		defer c.Done()
		caseNo++
		cfg := c22GenCfg(t)
		nsess := 1
		if rapid.IntRange(0, 3).Draw(t, "twoSessions") == 0 {
			nsess = 2
			cfg.active = rapid.Bool().Draw(t, "sameFSM")
		}
		var opens []c22Open
		for i := 0; i < nsess; i++ {
			want := -1
			if nsess == 2 && cfg.role != 0 && !cfg.ibgp() && rapid.Bool().Draw(t, "roleThenNone") {
				// first session advertises the compatible role, the second none
				want = 3
				if i == 1 {
					want = 0
				}
			}
			opens = append(opens, c22GenOpen(t, cfg, fmt.Sprintf("s%d.", i), want))
		}
		c.Logf("cfg: %v", cfg)
		for i, o := range opens {
			c.Logf("open %d: %v", i, o)
		}
		c.ClassIf(cfg.ibgp(), "ibgp")
		c.ClassIf(!cfg.ibgp(), "ebgp")
		c.ClassIf(nsess == 2, "two-sessions")
		c.ClassIf(cfg.active, "two-sessions-on-one-fsm")
		c.ClassIf(cfg.role != 0 && !cfg.ibgp(), "role-configured")
		c00Journal("C22 case %d cfg=%v opens=%v", caseNo, cfg, opens)

		var verdict string
		ok := inc.c21Run(c, func() {
			if env == nil || env.used >= 400 || !env.healthy() {
				if env != nil {
					env.dispose()
				}
				env = nil
				env = c22NewEnv()
			}
			env.used++
			c22PeerSeq++
			n := c22PeerSeq
			ip := bnet.IPv4FromOctets(10, 2+uint8(n>>16), uint8(n>>8), uint8(n))
			if err := env.rig.srv.AddPeer(cfg.peerConfig(env.rig, ip)); err != nil {
				panic(err)
			}
			x := &c22Ctx{env: env, cfg: cfg, ip: ip, c: c}
			if cfg.active {
				// the own FSM of a non-passive peer reconnects for ever (1 ms interval): end it with the case, the way
				// collision handling ends an FSM for good (its goroutine and its connector return)
				defer func() {
					for _, f := range env.rig.c00FSMs(ip) {
						select {
						case f.eventCh <- Cease:
						case <-time.After(2 * time.Second):
						}
					}
				}()
			}
			for i, o := range opens {
				if verdict = c22Session(x, o, i); verdict != "" {
					verdict = fmt.Sprintf("session %d: %s", i, verdict)
					return
				}
			}
			if !env.healthy() {
				verdict = "bystander session disturbed"
			}
		})
		if !ok {
			env = nil
			return
		}
		if verdict != "" {
			t.Fatalf("C22 violation: %s\ncase: %s", verdict, c.String())
		}
	})
	inc.c21Finish(t, "C22")
}

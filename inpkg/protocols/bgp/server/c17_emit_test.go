//go:build verif

package server

// C17 — every OPEN, UPDATE, NOTIFICATION and KEEPALIVE bio-rd serializes is
// at most 4096 bytes, its header length equals its real length, and decoding
// it with the session's negotiated options yields the same content.
//
// UPDATEs are built exactly the way a session builds them: a real
// UpdateSender (newUpdateSender on a hand-made fsmAddressFamily),
// packet.PathAttributes, updateMessageForPrefixes / withdrawPrefix,
// SerializeUpdate with the sender's EncodeOptions. OPENs come from newPeer +
// FSM.openMessage. The bytes are judged by the kit's strict reference parser
// and by bio-rd's own packet.Decode + the receive-side processAttributes.
// An error return of the serializer is not judged here (loss is C18).

import (
	"bytes"
	"encoding/hex"
	"fmt"
	"sort"
	"strings"
	"testing"
	"time"

	bnet "github.com/bio-routing/bio-rd/net"
	"github.com/bio-routing/bio-rd/protocols/bgp/packet"
	"github.com/bio-routing/bio-rd/protocols/bgp/types"
	"github.com/bio-routing/bio-rd/route"
	"github.com/bio-routing/bio-rd/routingtable"
	"github.com/bio-routing/bio-rd/routingtable/vrf"
	"pgregory.net/rapid"
	kit "verifkit"
)

const c17Rule = "session kinds (IPv4 classic / IPv4 over MP_REACH incl. IPv6 next hop / IPv6 MP) x iBGP|eBGP|RR-client x 2|4-octet ASN x add-path; paths as bio-rd holds them: received-like AS_PATH (segments of 1..255 ASNs) then BGPPath.Prepend up to 300x (+ eBGP prepend), 0..300 communities, 0..100 large communities, CLUSTER_LIST up to 100 (+RR prepend), unknown transitive attributes up to 1000 bytes, add-path ids; 1..50 prefixes; announcements and withdrawals. Non-trivial: serializer returned bytes and some attribute value exceeds 255 bytes or the AS path holds more than 255 ASNs."

const (
	c17SigAggregator = "C17/aggregator-2octet-on-asn4-session"
	c17SigASTrans    = "C17/asn4-truncated-on-2octet-session"
)

// ---------------------------------------------------------------------------
// session kinds

type c17Session struct {
	afi      uint16
	mp       bool // NLRI travel in MP_REACH/MP_UNREACH
	ibgp     bool
	rr       bool
	asn4     bool
	addPath  bool
	localASN uint32
	peerASN  uint32
}

func (s c17Session) String() string {
	return fmt.Sprintf("afi=%d mp=%v ibgp=%v rr=%v asn4=%v addpath=%v local=%d peer=%d", s.afi, s.mp, s.ibgp, s.rr, s.asn4, s.addPath, s.localASN, s.peerASN)
}

func c17GenSession(t *rapid.T) c17Session {
	s := c17Session{afi: packet.AFIIPv4}
	switch rapid.IntRange(0, 3).Draw(t, "family") {
	case 1:
		s.mp = true
	case 2, 3:
		s.afi, s.mp = packet.AFIIPv6, true
	}
	s.asn4 = rapid.IntRange(0, 3).Draw(t, "asn4") != 0
	s.addPath = rapid.Bool().Draw(t, "addpath")
	s.localASN = uint32(rapid.IntRange(1, 65534).Draw(t, "localas"))
	if s.asn4 && rapid.Bool().Draw(t, "localas_wide") {
		s.localASN = rapid.Uint32Range(65536, 4294967294).Draw(t, "localas4")
	}
	s.ibgp = rapid.Bool().Draw(t, "ibgp")
	s.peerASN = s.localASN
	if !s.ibgp {
		s.peerASN = uint32(rapid.IntRange(1, 65534).Draw(t, "peeras"))
		if s.peerASN == s.localASN {
			s.peerASN++
		}
	} else {
		s.rr = rapid.Bool().Draw(t, "rrclient")
	}
	return s
}

// sender builds the session's UpdateSender with bio-rd's own constructor.
func (s c17Session) sender() *UpdateSender {
	f := &fsmAddressFamily{
		afi:           s.afi,
		safi:          packet.SAFIUnicast,
		multiProtocol: s.mp,
		addPathTX:     routingtable.ClientOptions{BestOnly: !s.addPath, MaxPaths: 4},
		fsm: &FSM{
			supports4OctetASN: s.asn4,
			peer:              &peer{localASN: s.localASN, peerASN: s.peerASN, routeReflectorClient: s.rr},
		},
	}
	return newUpdateSender(f)
}

func (s c17Session) wopts() kit.WOpts {
	return kit.WOpts{AddPath4: s.addPath && s.afi == packet.AFIIPv4, AddPath6: s.addPath && s.afi == packet.AFIIPv6, ASN4: s.asn4}
}

func (s c17Session) dopts() *packet.DecodeOptions {
	return &packet.DecodeOptions{AddPathIPv4Unicast: s.addPath && s.afi == packet.AFIIPv4, AddPathIPv6Unicast: s.addPath && s.afi == packet.AFIIPv6, Use32BitASN: s.asn4}
}

// ---------------------------------------------------------------------------
// expected content (plain values, independent of bio-rd's types)

type c17Unknown struct {
	code                          uint8
	optional, transitive, partial bool
	value                         []byte
}

type c17Want struct {
	origin     uint8
	segs       []kit.WSeg // adjacent AS_SEQUENCEs merged
	nextHop    []byte
	med        uint32
	ibgp       bool
	localPref  uint32
	atomic     bool
	hasAggr    bool
	aggrASN    uint32
	aggrAddr   uint32
	rr         bool
	originator uint32
	cluster    []uint32
	comms      []uint32
	large      [][3]uint32
	unknown    []c17Unknown
	nlri       []string // sorted canonical renderings
}

// c17NormSegs merges adjacent AS_SEQUENCE segments (the same path, however
// it is cut into segments) and drops nothing else.
func c17NormSegs(in []kit.WSeg) []kit.WSeg {
	var out []kit.WSeg
	for _, s := range in {
		if n := len(out); n > 0 && s.Type == 2 && out[n-1].Type == 2 {
			out[n-1].ASNs = append(out[n-1].ASNs, s.ASNs...)
			continue
		}
		out = append(out, kit.WSeg{Type: s.Type, ASNs: append([]uint32{}, s.ASNs...)})
	}
	return out
}

func c17SegsEqual(a, b []kit.WSeg) bool {
	if len(a) != len(b) {
		return false
	}
	for i := range a {
		if a[i].Type != b[i].Type || len(a[i].ASNs) != len(b[i].ASNs) {
			return false
		}
		for j := range a[i].ASNs {
			if a[i].ASNs[j] != b[i].ASNs[j] {
				return false
			}
		}
	}
	return true
}

func c17SegsString(s []kit.WSeg) string {
	var sb strings.Builder
	for _, x := range s {
		fmt.Fprintf(&sb, "{t%d n%d", x.Type, len(x.ASNs))
		for i, a := range x.ASNs {
			if i >= 6 {
				sb.WriteString(" …")
				break
			}
			fmt.Fprintf(&sb, " %d", a)
		}
		sb.WriteString("}")
	}
	return sb.String()
}

func c17U32sEqual(a, b []uint32) bool {
	if len(a) != len(b) {
		return false
	}
	for i := range a {
		if a[i] != b[i] {
			return false
		}
	}
	return true
}

func c17NLRIString(b kit.Bits, id uint32, hasID bool) string {
	if hasID {
		return fmt.Sprintf("%s#%d", b.Canon().String(), id)
	}
	return b.Canon().String()
}

func c17FromPfx(p *bnet.Prefix) kit.Bits {
	var b kit.Bits
	a := p.Addr()
	if a.IsIPv4() {
		b.W = 32
	} else {
		b.W = 128
	}
	copy(b.A[:], a.Bytes())
	b.L = int(p.Len())
	return b
}

func c17ToPfx(b kit.Bits) *bnet.Prefix {
	if b.W == 32 {
		return bnet.NewPfx(bnet.IPv4(b.U32()), uint8(b.L)).Ptr()
	}
	hi, lo := b.HiLo()
	return bnet.NewPfx(bnet.IPv6(hi, lo), uint8(b.L)).Ptr()
}

// c17WantFromPath copies the content of the path (as handed to the update
// sender) into plain values.
func c17WantFromPath(p *route.Path, s c17Session, pfxs []kit.Bits) *c17Want {
	b := p.BGPPath
	w := &c17Want{
		origin:    b.BGPPathA.Origin,
		nextHop:   append([]byte{}, b.BGPPathA.NextHop.Bytes()...),
		med:       b.BGPPathA.MED,
		ibgp:      s.ibgp,
		localPref: b.BGPPathA.LocalPref,
		atomic:    b.BGPPathA.AtomicAggregate,
		rr:        s.rr,
	}
	var segs []kit.WSeg
	for _, sg := range *b.ASPath {
		segs = append(segs, kit.WSeg{Type: sg.Type, ASNs: append([]uint32{}, sg.ASNs...)})
	}
	w.segs = c17NormSegs(segs)
	if b.BGPPathA.Aggregator != nil {
		w.hasAggr, w.aggrASN, w.aggrAddr = true, uint32(b.BGPPathA.Aggregator.ASN), b.BGPPathA.Aggregator.Address
	}
	if s.rr {
		w.originator = b.BGPPathA.OriginatorID
		if b.ClusterList != nil {
			w.cluster = append([]uint32{}, (*b.ClusterList)...)
		}
	}
	if b.Communities != nil {
		w.comms = append([]uint32{}, (*b.Communities)...)
	}
	if b.LargeCommunities != nil {
		for _, c := range *b.LargeCommunities {
			w.large = append(w.large, [3]uint32{c.GlobalAdministrator, c.DataPart1, c.DataPart2})
		}
	}
	for _, u := range b.UnknownAttributes {
		w.unknown = append(w.unknown, c17Unknown{code: u.TypeCode, optional: u.Optional, transitive: u.Transitive, partial: u.Partial, value: append([]byte{}, u.Value...)})
	}
	for _, x := range pfxs {
		w.nlri = append(w.nlri, c17NLRIString(x, b.PathIdentifier, s.addPath))
	}
	sort.Strings(w.nlri)
	return w
}

// c17Got is what a decoder saw.
type c17Got struct {
	c17Want
	hasOrigin, hasASPath, hasLocalPref, hasOriginator bool
}

func c17GotFromKit(u *kit.WUpdate, s c17Session) *c17Got {
	g := &c17Got{}
	if u.Origin != nil {
		g.hasOrigin, g.origin = true, *u.Origin
	}
	g.hasASPath = u.HasASPath
	g.segs = c17NormSegs(u.ASPath)
	nl := u.NLRI
	g.nextHop = u.NextHop
	if s.mp && u.MPReach != nil {
		nl = u.MPReach.NLRI
		g.nextHop = u.MPReach.NextHop
	}
	if u.MED != nil {
		g.med = *u.MED
	}
	if u.LocalPref != nil {
		g.hasLocalPref, g.localPref = true, *u.LocalPref
	}
	g.atomic = u.AtomicAggr
	if u.AggrASN != nil {
		g.hasAggr, g.aggrASN = true, *u.AggrASN
		g.aggrAddr = uint32(u.AggrAddr[0])<<24 | uint32(u.AggrAddr[1])<<16 | uint32(u.AggrAddr[2])<<8 | uint32(u.AggrAddr[3])
	}
	if u.OriginatorID != nil {
		g.hasOriginator, g.originator = true, *u.OriginatorID
	}
	g.cluster = u.ClusterList
	g.comms = u.Communities
	g.large = u.LargeComm
	for _, a := range u.Unknown {
		g.unknown = append(g.unknown, c17Unknown{code: a.Type, optional: a.Flags&kit.FlOptional != 0, transitive: a.Flags&kit.FlTransitive != 0, partial: a.Flags&kit.FlPartial != 0, value: a.Value})
	}
	for _, n := range nl {
		g.nlri = append(g.nlri, c17NLRIString(n.P, n.PathID, n.HasID))
	}
	sort.Strings(g.nlri)
	return g
}

// c17GotFromBio runs the receive side of bio-rd over a decoded UPDATE:
// processAttributes fills a fresh path the way fsmAddressFamily.updates does.
func c17GotFromBio(u *packet.BGPUpdate, s c17Session) *c17Got {
	g := &c17Got{}
	p := &route.Path{Type: route.BGPPathType, BGPPath: &route.BGPPath{BGPPathA: &route.BGPPathA{}}}
	(&fsmAddressFamily{}).processAttributes(u.PathAttributes, p)
	nl := u.NLRI
	for pa := u.PathAttributes; pa != nil; pa = pa.Next {
		switch pa.TypeCode {
		case packet.OriginAttr:
			g.hasOrigin = true
		case packet.ASPathAttr:
			g.hasASPath = true
		case packet.LocalPrefAttr:
			g.hasLocalPref = true
		case packet.OriginatorIDAttr:
			g.hasOriginator = true
		case packet.MultiProtocolReachNLRIAttr:
			if s.mp {
				v := pa.Value.(packet.MultiProtocolReachNLRI)
				nl = v.NLRI
				p.BGPPath.BGPPathA.NextHop = v.NextHop
			}
		}
	}
	b := p.BGPPath
	g.origin = b.BGPPathA.Origin
	if b.ASPath != nil {
		var segs []kit.WSeg
		for _, sg := range *b.ASPath {
			segs = append(segs, kit.WSeg{Type: sg.Type, ASNs: sg.ASNs})
		}
		g.segs = c17NormSegs(segs)
	}
	if b.BGPPathA.NextHop != nil {
		g.nextHop = b.BGPPathA.NextHop.Bytes()
	}
	g.med = b.BGPPathA.MED
	g.localPref = b.BGPPathA.LocalPref
	g.atomic = b.BGPPathA.AtomicAggregate
	if b.BGPPathA.Aggregator != nil {
		g.hasAggr, g.aggrASN, g.aggrAddr = true, uint32(b.BGPPathA.Aggregator.ASN), b.BGPPathA.Aggregator.Address
	}
	g.originator = b.BGPPathA.OriginatorID
	if b.ClusterList != nil {
		g.cluster = *b.ClusterList
	}
	if b.Communities != nil {
		g.comms = *b.Communities
	}
	if b.LargeCommunities != nil {
		for _, c := range *b.LargeCommunities {
			g.large = append(g.large, [3]uint32{c.GlobalAdministrator, c.DataPart1, c.DataPart2})
		}
	}
	for _, x := range b.UnknownAttributes {
		g.unknown = append(g.unknown, c17Unknown{code: x.TypeCode, optional: x.Optional, transitive: x.Transitive, partial: x.Partial, value: x.Value})
	}
	for n := nl; n != nil; n = n.Next {
		g.nlri = append(g.nlri, c17NLRIString(c17FromPfx(n.Prefix), n.PathIdentifier, s.addPath))
	}
	sort.Strings(g.nlri)
	return g
}

// c17Diff compares decoded content with the source; returns (clause, text) of
// the first difference or "".
func c17Diff(w *c17Want, g *c17Got, who string) (clause, text string) {
	d := func(c, f string, a ...interface{}) (string, string) { return c, who + ": " + fmt.Sprintf(f, a...) }
	if !g.hasOrigin || g.origin != w.origin {
		return d("origin", "ORIGIN present=%v value=%d, source %d", g.hasOrigin, g.origin, w.origin)
	}
	if !g.hasASPath || !c17SegsEqual(w.segs, g.segs) {
		return d("aspath", "AS_PATH present=%v %s, source %s", g.hasASPath, c17SegsString(g.segs), c17SegsString(w.segs))
	}
	if !bytes.Equal(g.nextHop, w.nextHop) {
		return d("nexthop", "next hop %x, source %x", g.nextHop, w.nextHop)
	}
	if g.med != w.med {
		return d("med", "MED %d, source %d", g.med, w.med)
	}
	if w.ibgp && (!g.hasLocalPref || g.localPref != w.localPref) {
		return d("localpref", "LOCAL_PREF present=%v value=%d, source %d (iBGP session)", g.hasLocalPref, g.localPref, w.localPref)
	}
	if g.atomic != w.atomic {
		return d("atomic", "ATOMIC_AGGREGATE %v, source %v", g.atomic, w.atomic)
	}
	if g.hasAggr != w.hasAggr || g.aggrASN != w.aggrASN || g.aggrAddr != w.aggrAddr {
		return d("aggregator", "AGGREGATOR present=%v %d/%#x, source present=%v %d/%#x", g.hasAggr, g.aggrASN, g.aggrAddr, w.hasAggr, w.aggrASN, w.aggrAddr)
	}
	if w.rr {
		if !g.hasOriginator || g.originator != w.originator {
			return d("originator", "ORIGINATOR_ID present=%v %d, source %d (RR client session)", g.hasOriginator, g.originator, w.originator)
		}
		if !c17U32sEqual(g.cluster, w.cluster) {
			return d("clusterlist", "CLUSTER_LIST of %d ids %v…, source %d ids", len(g.cluster), c17Head(g.cluster), len(w.cluster))
		}
	}
	if !c17U32sEqual(g.comms, w.comms) {
		return d("communities", "COMMUNITIES %d values %v…, source %d values", len(g.comms), c17Head(g.comms), len(w.comms))
	}
	if len(g.large) != len(w.large) {
		return d("largecommunities", "LARGE_COMMUNITIES %d values, source %d", len(g.large), len(w.large))
	}
	for i := range w.large {
		if g.large[i] != w.large[i] {
			return d("largecommunities", "LARGE_COMMUNITIES[%d] = %v, source %v", i, g.large[i], w.large[i])
		}
	}
	for _, wu := range w.unknown {
		found := false
		for _, gu := range g.unknown {
			if gu.code != wu.code {
				continue
			}
			found = true
			if !bytes.Equal(gu.value, wu.value) {
				return d("unknown-value", "unknown attribute %d: %d value bytes, source %d bytes (first difference matters)", wu.code, len(gu.value), len(wu.value))
			}
			if gu.optional != wu.optional || gu.transitive != wu.transitive || gu.partial != wu.partial {
				return d("unknown-flags", "unknown attribute %d flags optional=%v transitive=%v partial=%v, source optional=%v transitive=%v partial=%v", wu.code, gu.optional, gu.transitive, gu.partial, wu.optional, wu.transitive, wu.partial)
			}
		}
		if !found {
			return d("unknown-missing", "unknown attribute %d (%d bytes) of the source path is not in the message", wu.code, len(wu.value))
		}
	}
	if strings.Join(g.nlri, " ") != strings.Join(w.nlri, " ") {
		return d("nlri", "NLRI %v, source %v", g.nlri, w.nlri)
	}
	return "", ""
}

func c17Head(x []uint32) []uint32 {
	if len(x) > 4 {
		return x[:4]
	}
	return x
}

// ---------------------------------------------------------------------------
// generators

func c17GenASN(t *rapid.T, wide bool, label string) uint32 {
	if wide && rapid.IntRange(0, 2).Draw(t, label+"_w") == 0 {
		return rapid.Uint32Range(65536, 4294967295).Draw(t, label+"4")
	}
	return uint32(rapid.IntRange(1, 65535).Draw(t, label))
}

// c17GenSize draws an attribute element count: absent, small, straddling the
// 255-byte boundary (around `edge` elements) or up to max.
func c17GenSize(t *rapid.T, edge, max int, label string) int {
	switch rapid.IntRange(0, 9).Draw(t, label+"_m") {
	case 0, 1, 2, 3:
		return 0
	case 4, 5, 6:
		return rapid.IntRange(1, 5).Draw(t, label+"_s")
	case 7, 8:
		return rapid.IntRange(edge-2, edge+3).Draw(t, label+"_e")
	default:
		return rapid.IntRange(1, max).Draw(t, label+"_l")
	}
}

type c17PathInfo struct {
	wideOn2 bool // an ASN > 65535 on a 2-octet session
	prepend int
	big     bool
}

var c17UnknownCodes = []int{11, 12, 13, 16, 17, 19, 20, 21, 22, 23, 26, 27, 29, 33, 34, 40, 128, 129, 200, 254, 255} // not 35: the reference parser interprets OTC

func c17GenPath(t *rapid.T, s c17Session) (*route.Path, c17PathInfo) {
	var info c17PathInfo
	wide := s.asn4
	if !s.asn4 && rapid.IntRange(0, 19).Draw(t, "wide_on_2octet") == 11 {
		wide = true
	}
	// received-like AS_PATH: every segment holds 1..255 ASNs
	asp := types.ASPath{}
	for i, n := 0, rapid.IntRange(0, 3).Draw(t, "nseg"); i < n; i++ {
		seg := types.ASPathSegment{Type: types.ASSequence}
		if rapid.IntRange(0, 4).Draw(t, "segtype") == 0 {
			seg.Type = types.ASSet
		}
		cnt := 0
		switch rapid.IntRange(0, 9).Draw(t, "segmode") {
		case 0, 1, 2, 3, 4, 5:
			cnt = rapid.IntRange(1, 6).Draw(t, "segcnt")
		case 6, 7:
			cnt = rapid.IntRange(250, 255).Draw(t, "segcnt_edge")
		default:
			cnt = rapid.IntRange(1, 255).Draw(t, "segcnt_any")
		}
		for j := 0; j < cnt; j++ {
			seg.ASNs = append(seg.ASNs, c17GenASN(t, wide, "asn"))
		}
		asp = append(asp, seg)
	}
	b := &route.BGPPath{
		ASPath:         &asp,
		BGPPathA:       &route.BGPPathA{},
		PathIdentifier: rapid.Uint32().Draw(t, "pathid"),
	}
	b.ASPathLen = b.ASPath.Length()
	a := b.BGPPathA
	a.Origin = uint8(rapid.IntRange(0, 2).Draw(t, "origin"))
	a.EBGP = rapid.Bool().Draw(t, "learned_ebgp")
	a.Source = bnet.IPv4(rapid.Uint32().Draw(t, "source")).Ptr()
	nhV6 := s.afi == packet.AFIIPv6 || (s.mp && rapid.IntRange(0, 2).Draw(t, "extnh") == 0)
	if nhV6 {
		a.NextHop = bnet.IPv6(0x20010db800000000|uint64(rapid.Uint32().Draw(t, "nh_hi")), rapid.Uint64().Draw(t, "nh_lo")).Ptr()
	} else {
		a.NextHop = bnet.IPv4(rapid.Uint32().Draw(t, "nh")).Ptr()
	}
	if rapid.Bool().Draw(t, "has_med") {
		a.MED = rapid.Uint32().Draw(t, "med")
	}
	a.LocalPref = rapid.Uint32().Draw(t, "localpref")
	a.AtomicAggregate = rapid.IntRange(0, 4).Draw(t, "atomic") == 0
	aggrOdds := 5
	if s.asn4 {
		aggrOdds = 25 // known finding c17SigAggregator ends the case: keep it rare
	}
	if rapid.IntRange(0, aggrOdds).Draw(t, "aggr") == 3 {
		a.Aggregator = &types.Aggregator{ASN: uint16(rapid.IntRange(1, 65535).Draw(t, "aggr_asn")), Address: rapid.Uint32().Draw(t, "aggr_addr")}
	}

	// policy prepends, then the eBGP export prepend (adjRIBOut)
	for i, n := 0, rapid.IntRange(0, 2).Draw(t, "nprepend"); i < n; i++ {
		times := rapid.SampledFrom([]int{1, 2, 3, 10, 100, 200, 250, 254, 255, 256, 257, 300}).Draw(t, "prepend_times")
		b.Prepend(c17GenASN(t, wide, "prepend_asn"), uint16(times))
		info.prepend += times
	}
	if !s.ibgp {
		b.Prepend(s.localASN, 1)
		info.prepend++
	}

	if n := c17GenSize(t, 64, 300, "ncomm"); n > 0 {
		cs := make(types.Communities, n)
		for i := range cs {
			cs[i] = rapid.Uint32().Draw(t, "comm")
		}
		b.Communities = &cs
		info.big = info.big || n*4 > 255
	}
	if n := c17GenSize(t, 21, 100, "nlarge"); n > 0 {
		cs := make(types.LargeCommunities, n)
		for i := range cs {
			cs[i] = types.LargeCommunity{GlobalAdministrator: rapid.Uint32().Draw(t, "lc_ga"), DataPart1: rapid.Uint32().Draw(t, "lc_d1"), DataPart2: rapid.Uint32().Draw(t, "lc_d2")}
		}
		b.LargeCommunities = &cs
		info.big = info.big || n*12 > 255
	}
	// reflection attributes as adjRIBOut leaves them for an RR client: the
	// originator id is set and the local cluster id was prepended.
	if n := c17GenSize(t, 63, 100, "ncluster"); n > 0 || s.rr {
		cl := make(types.ClusterList, 0, n+1)
		if s.rr {
			cl = append(cl, rapid.Uint32Range(1, 4294967295).Draw(t, "clusterid"))
		}
		for i := 0; i < n; i++ {
			cl = append(cl, rapid.Uint32().Draw(t, "cluster"))
		}
		b.ClusterList = &cl
		info.big = info.big || (s.rr && len(cl)*4 > 255)
	}
	if s.rr || rapid.IntRange(0, 3).Draw(t, "has_originator") == 0 {
		a.OriginatorID = rapid.Uint32Range(1, 4294967295).Draw(t, "originator")
	}
	nu := rapid.IntRange(0, 9).Draw(t, "nunknown") - 6
	used := map[int]bool{}
	for i := 0; i < nu; i++ {
		code := rapid.SampledFrom(c17UnknownCodes).Draw(t, "ucode")
		if used[code] {
			continue
		}
		used[code] = true
		l := 0
		switch rapid.IntRange(0, 5).Draw(t, "ulen_m") {
		case 0, 1:
			l = rapid.IntRange(0, 12).Draw(t, "ulen_s")
		case 2, 3:
			l = rapid.IntRange(250, 260).Draw(t, "ulen_e")
		default:
			l = rapid.IntRange(0, 1000).Draw(t, "ulen")
		}
		v := rapid.SliceOfN(rapid.Byte(), l, l).Draw(t, "uval")
		b.UnknownAttributes = append(b.UnknownAttributes, types.UnknownPathAttribute{
			// processUnknownAttribute keeps only transitive attributes
			Transitive: true,
			Optional:   rapid.IntRange(0, 4).Draw(t, "uopt") != 0,
			Partial:    rapid.Bool().Draw(t, "upartial"),
			TypeCode:   uint8(code),
			Value:      v,
		})
		info.big = info.big || l > 255
	}
	nASN := 0
	for _, sg := range *b.ASPath {
		nASN += len(sg.ASNs)
		for _, x := range sg.ASNs {
			if x > 65535 && !s.asn4 {
				info.wideOn2 = true
			}
		}
	}
	info.big = info.big || nASN > 255 || (nASN > 63 && s.asn4) || nASN > 127
	return &route.Path{Type: route.BGPPathType, BGPPath: b}, info
}

func c17GenPrefixes(t *rapid.T, s c17Session) []kit.Bits {
	w := 32
	if s.afi == packet.AFIIPv6 {
		w = 128
	}
	if rapid.IntRange(0, 7).Draw(t, "bulk") == 5 {
		// many prefixes of one length: the sender has to cut them into several
		// messages, each close to the 4096-byte limit
		n := rapid.IntRange(200, 1500).Draw(t, "npfx_bulk")
		base := kit.GenAddr(t, w, "bulk_base")
		l := rapid.IntRange(9, 32).Draw(t, "bulk_len")
		if w == 128 {
			l = rapid.IntRange(17, 64).Draw(t, "bulk_len6")
		}
		base = base.WithLen(l).Canon()
		out := make([]kit.Bits, 0, n)
		for i := 0; i < n; i++ {
			q := base
			// write i into the 16 bits that end at bit l (distinct for i < 65536)
			for k := 0; k < 16 && k < l; k++ {
				q = q.SetBit(l-1-k, (i>>uint(k))&1 == 1)
			}
			out = append(out, q)
		}
		return out
	}
	n := rapid.IntRange(1, 6).Draw(t, "npfx")
	if rapid.IntRange(0, 9).Draw(t, "manypfx") == 0 {
		n = rapid.IntRange(7, 50).Draw(t, "npfx_many")
	}
	seen := map[string]bool{}
	var out []kit.Bits
	for i := 0; i < n; i++ {
		p := kit.GenPrefix(t, w, "pfx")
		if seen[p.Key()] {
			continue
		}
		seen[p.Key()] = true
		out = append(out, p)
	}
	return out
}

// ---------------------------------------------------------------------------
// the property: announcements

// c17Frame checks size and header of one emitted message and returns the body.
func c17Frame(t *rapid.T, m []byte, wantType uint8, what string) []byte {
	if len(m) > 4096 {
		t.Fatalf("%s: serialized message is %d bytes (> 4096)\nhex: %s", what, len(m), c17Hex(m))
	}
	typ, body, e := kit.ParseHeader(m)
	if e != nil {
		t.Fatalf("%s: header of the emitted %d-byte message is not well-formed: %v\nhex: %s", what, len(m), e, c17Hex(m))
	}
	if typ != wantType {
		t.Fatalf("%s: emitted message type %d, want %d", what, typ, wantType)
	}
	return body
}

func c17Hex(m []byte) string {
	if len(m) > 600 {
		return hex.EncodeToString(m[:600]) + "…"
	}
	return hex.EncodeToString(m)
}

func c17CheckAnnounce(t *rapid.T, rec *kit.Recorder, c *kit.Case, s c17Session) {
	p, info := c17GenPath(t, s)
	pfxs := c17GenPrefixes(t, s)
	want := c17WantFromPath(p, s, nil)
	c.Logf("announce %v", s)
	c.Logf("aspath %s prepends=%d", c17SegsString(want.segs), info.prepend)
	c.Logf("nh=%x med=%d lp=%d atomic=%v aggr=%v/%d/%#x orig=%d cluster=%d comm=%d large=%d pathid=%d", want.nextHop, want.med, want.localPref, want.atomic, want.hasAggr, want.aggrASN, want.aggrAddr, want.originator, len(want.cluster), len(want.comms), len(want.large), p.BGPPath.PathIdentifier)
	for _, u := range want.unknown {
		c.Logf("unknown code=%d opt=%v partial=%v len=%d %x", u.code, u.optional, u.partial, len(u.value), c17HeadBytes(u.value))
	}
	c.Logf("nlri n=%d first=%v last=%v", len(pfxs), pfxs[0], pfxs[len(pfxs)-1])
	c.Logf("comms %v large %v cluster %v", c17Head(want.comms), len(want.large), c17Head(want.cluster))

	u := s.sender()
	bpfx := make([]*bnet.Prefix, len(pfxs))
	back := map[*bnet.Prefix]kit.Bits{}
	for i, x := range pfxs {
		bpfx[i] = c17ToPfx(x)
		back[bpfx[i]] = x
	}
	// exactly what UpdateSender.sender()/_flush() do with a queue entry
	pa, chunks, pathID := u._getUpdateInformation(&pathPfxs{path: p, pfxs: bpfx})
	if pa == nil {
		c.Class("pathattributes_error")
		return
	}
	c.ClassIf(len(chunks) > 1, "several_updates")
	for ci, chunk := range chunks {
		if len(chunk) == 0 {
			continue // an empty first chunk when not even one prefix fits the budget (C18's subject)
		}
		upd := u.updateMessageForPrefixes(chunk, pa, pathID)
		if upd == nil {
			t.Fatalf("updateMessageForPrefixes returned nil for %v", s)
		}
		m, err := upd.SerializeUpdate(u.options)
		if err != nil {
			c.Class("serialize_error(not judged)")
			continue
		}
		cw := *want
		for _, x := range chunk {
			cw.nlri = append(cw.nlri, c17NLRIString(back[x], p.BGPPath.PathIdentifier, s.addPath))
		}
		sort.Strings(cw.nlri)
		if c17JudgeAnnounce(t, rec, c, s, info, &cw, m, fmt.Sprintf("UPDATE %d/%d for session {%v}", ci+1, len(chunks), s)) {
			return
		}
	}
}

// c17JudgeAnnounce applies the oracle to one emitted UPDATE; returns true when
// the case ended on a known finding.
func c17JudgeAnnounce(t *rapid.T, rec *kit.Recorder, c *kit.Case, s c17Session, info c17PathInfo, want *c17Want, m []byte, what string) bool {
	c.Class("serialized")
	c.NonTrivialIf(info.big)
	c.ClassIf(info.big, "big_attribute")
	c.ClassIf(info.prepend >= 255, "prepend>=255")
	c.ClassIf(len(m) > 2048, "msg>2048")
	c.ClassIf(len(m) > 3800, "msg>3800")
	c.ClassIf(len(m) > 4080, "msg>4080")

	body := c17Frame(t, m, kit.MsgUpdate, what)

	// 1. the strict reference parser accepts the message ...
	ku, e := kit.ParseUpdate(body, s.wopts())
	if e != nil {
		if want.hasAggr && s.asn4 && e.Clause == "attr-len" && strings.Contains(e.Msg, "attribute 7 ") && rec.Known(c17SigAggregator) {
			c.Class("known:" + c17SigAggregator)
			return true
		}
		t.Fatalf("%s: reference parser rejects the emitted message: %v\n%s\nhex: %s", what, e, c.String(), c17Hex(m))
	}
	// ... and sees the source attributes
	kw := *want
	if info.wideOn2 {
		// RFC 6793 §4.2.2: an OLD peer must see AS_TRANS for non-mappable ASNs
		kw.segs = nil
		for _, sg := range want.segs {
			x := kit.WSeg{Type: sg.Type}
			for _, a := range sg.ASNs {
				if a > 65535 {
					a = packet.ASTransASN
				}
				x.ASNs = append(x.ASNs, a)
			}
			kw.segs = append(kw.segs, x)
		}
	}
	if clause, txt := c17Diff(&kw, c17GotFromKit(ku, s), "reference parser"); clause != "" {
		if clause == "aspath" && info.wideOn2 && rec.Known(c17SigASTrans) {
			c.Class("known:" + c17SigASTrans)
			return true
		}
		t.Fatalf("%s: %s\n%s\nhex: %s", what, txt, c.String(), c17Hex(m))
	}
	if s.mp && (ku.MPReach == nil || ku.MPReach.AFI != s.afi || ku.MPReach.SAFI != packet.SAFIUnicast) {
		t.Fatalf("%s: MP_REACH_NLRI missing or for another family: %+v", what, ku.MPReach)
	}

	// 2. bio-rd's own decoder with the matching options yields the same content
	msg, derr := packet.Decode(bytes.NewBuffer(append([]byte{}, m...)), s.dopts())
	if derr != nil {
		t.Fatalf("%s: packet.Decode rejects bio-rd's own message: %v\n%s\nhex: %s", what, derr, c.String(), c17Hex(m))
	}
	bu, ok := msg.Body.(*packet.BGPUpdate)
	if !ok {
		t.Fatalf("%s: packet.Decode returned body %T", what, msg.Body)
	}
	if int(msg.Header.Length) != len(m) {
		t.Fatalf("%s: decoded header length %d, message has %d bytes", what, msg.Header.Length, len(m))
	}
	if info.wideOn2 {
		// content cannot be "the same" on a 2-octet session (judged above)
		c.Class("wide_on_2octet_bio_decode_skipped")
		return false
	}
	if clause, txt := c17Diff(want, c17GotFromBio(bu, s), "packet.Decode + processAttributes"); clause != "" {
		t.Fatalf("%s: %s\n%s\nhex: %s", what, txt, c.String(), c17Hex(m))
	}
	return false
}

func c17HeadBytes(b []byte) []byte {
	if len(b) > 8 {
		return b[:8]
	}
	return b
}

// c17CheckWithdraw: withdrawals are built by UpdateSender.withdrawPrefix.
func c17CheckWithdraw(t *rapid.T, c *kit.Case, s c17Session) {
	pfx := c17GenPrefixes(t, s)[0]
	id := rapid.Uint32().Draw(t, "pathid")
	c.Logf("withdraw %v %v id=%d", s, pfx, id)
	u := s.sender()
	var out bytes.Buffer
	p := &route.Path{Type: route.BGPPathType, BGPPath: &route.BGPPath{BGPPathA: &route.BGPPathA{}, ASPath: &types.ASPath{}, PathIdentifier: id}}
	if err := u.withdrawPrefix(&out, c17ToPfx(pfx), p); err != nil {
		c.Class("withdraw_error(not judged)")
		return
	}
	m := out.Bytes()
	if len(m) == 0 {
		c.Class("withdraw_nothing_written(not judged)")
		return
	}
	c.Class("withdraw_serialized")
	c.NonTrivial()
	what := fmt.Sprintf("withdrawal for session {%v}", s)
	body := c17Frame(t, m, kit.MsgUpdate, what)
	ku, e := kit.ParseUpdate(body, s.wopts())
	if e != nil {
		t.Fatalf("%s: reference parser rejects the emitted message: %v\nhex: %s", what, e, c17Hex(m))
	}
	want := c17NLRIString(pfx, id, s.addPath)
	var got []string
	wl := ku.Withdrawn
	if s.mp {
		if ku.MPUnreach == nil || ku.MPUnreach.AFI != s.afi || ku.MPUnreach.SAFI != packet.SAFIUnicast {
			t.Fatalf("%s: MP_UNREACH_NLRI missing or for another family: %+v\nhex: %s", what, ku.MPUnreach, c17Hex(m))
		}
		wl = ku.MPUnreach.NLRI
	}
	for _, n := range wl {
		got = append(got, c17NLRIString(n.P, n.PathID, n.HasID))
	}
	if len(got) != 1 || got[0] != want {
		t.Fatalf("%s: reference parser sees withdrawn %v, source %s\nhex: %s", what, got, want, c17Hex(m))
	}
	msg, derr := packet.Decode(bytes.NewBuffer(append([]byte{}, m...)), s.dopts())
	if derr != nil {
		t.Fatalf("%s: packet.Decode rejects bio-rd's own message: %v\nhex: %s", what, derr, c17Hex(m))
	}
	bu := msg.Body.(*packet.BGPUpdate)
	nl := bu.WithdrawnRoutes
	if s.mp {
		nl = nil
		for pa := bu.PathAttributes; pa != nil; pa = pa.Next {
			if v, ok := pa.Value.(packet.MultiProtocolUnreachNLRI); ok && pa.TypeCode == packet.MultiProtocolUnreachNLRIAttr {
				nl = v.NLRI
			}
		}
	}
	got = nil
	for n := nl; n != nil; n = n.Next {
		got = append(got, c17NLRIString(c17FromPfx(n.Prefix), n.PathIdentifier, s.addPath))
	}
	if len(got) != 1 || got[0] != want {
		t.Fatalf("%s: packet.Decode sees withdrawn %v, source %s\nhex: %s", what, got, want, c17Hex(m))
	}
}

func TestVerifC17Update(t *testing.T) {
	rec := kit.NewRecorder(t, "C17", c17Rule)
	rapid.Check(t, func(t *rapid.T) {
		c := rec.Case()
		defer c.Done()
		s := c17GenSession(t)
		c.Class(fmt.Sprintf("afi%d_mp%v", s.afi, s.mp))
		c.ClassIf(s.rr, "rr_client")
		c.ClassIf(!s.asn4, "2octet_session")
		if rapid.IntRange(0, 9).Draw(t, "withdraw") == 0 {
			c17CheckWithdraw(t, c, s)
			return
		}
		c17CheckAnnounce(t, rec, c, s)
	})
}

// ---------------------------------------------------------------------------
// OPEN, NOTIFICATION, KEEPALIVE

const c17OpenRule = "OPEN: generated PeerConfig (local AS incl. 4-octet, hold time, router id, IPv4/IPv6 families, add-path send/receive, extended next hop, multiprotocol IPv4, peer role) -> newPeer -> FSM.openMessage -> SerializeOpenMsg; NOTIFICATION: every (code, subcode) pair bio-rd sends; KEEPALIVE. Non-trivial: OPEN with at least 3 capabilities, or a NOTIFICATION."

func c17ExpectCaps(t *rapid.T, params []packet.OptParam) []kit.WCap {
	var out []kit.WCap
	for _, p := range params {
		caps, ok := p.Value.(packet.Capabilities)
		if !ok {
			t.Fatalf("optional parameter value %T", p.Value)
		}
		for _, cp := range caps {
			switch v := cp.Value.(type) {
			case packet.MultiProtocolCapability:
				out = append(out, kit.CapMP(v.AFI, v.SAFI))
			case packet.ASN4Capability:
				out = append(out, kit.CapASN4(v.ASN4))
			case packet.PeerRoleCapability:
				out = append(out, kit.CapRole(v.PeerRole))
			case packet.AddPathCapability:
				var tu [][3]uint16
				for _, x := range v {
					tu = append(tu, [3]uint16{x.AFI, uint16(x.SAFI), uint16(x.SendReceive)})
				}
				out = append(out, kit.CapAddPath(tu...))
			case packet.ExtendedNextHopCapability:
				var tu [][3]uint16
				for _, x := range v {
					tu = append(tu, [3]uint16{x.AFI, x.SAFI, x.NextHopAFI})
				}
				out = append(out, kit.CapExtNH(tu...))
			default:
				t.Fatalf("capability value %T", cp.Value)
			}
			if out[len(out)-1].Code != cp.Code {
				t.Fatalf("capability code %d carries a %T", cp.Code, cp.Value)
			}
		}
	}
	return out
}

func c17CapsString(cs []kit.WCap) string {
	var sb strings.Builder
	for _, c := range cs {
		fmt.Fprintf(&sb, "[%d:%x]", c.Code, c.Value)
	}
	return sb.String()
}

func c17CheckOpen(t *rapid.T, c *kit.Case) {
	v := vrf.NewUntrackedVRF("c17", 0)
	v.CreateIPv4UnicastLocRIB("inet.0")
	v.CreateIPv6UnicastLocRIB("inet6.0")
	cfg := PeerConfig{
		Passive:                    true,
		PeerAddress:                bnet.IPv4(0x0a000002).Ptr(),
		LocalAddress:               bnet.IPv4(0x0a000001).Ptr(),
		LocalAS:                    uint32(rapid.IntRange(1, 65535).Draw(t, "localas")),
		RouterID:                   rapid.Uint32Range(1, 4294967295).Draw(t, "routerid"),
		HoldTime:                   time.Duration(rapid.SampledFrom([]int{0, 3, 30, 90, 180, 65535}).Draw(t, "hold")) * time.Second,
		AdvertiseIPv4MultiProtocol: rapid.Bool().Draw(t, "adv_v4_mp"),
		PeerRole:                   uint8(rapid.IntRange(0, 6).Draw(t, "role")),
		RouteReflectorClient:       rapid.Bool().Draw(t, "rr"),
		VRF:                        v,
	}
	if rapid.Bool().Draw(t, "localas_wide") {
		cfg.LocalAS = rapid.Uint32Range(65536, 4294967295).Draw(t, "localas4")
	}
	cfg.PeerAS = cfg.LocalAS
	if rapid.Bool().Draw(t, "ebgp") {
		cfg.PeerAS = cfg.LocalAS ^ 1
		if cfg.PeerAS == 0 {
			cfg.PeerAS = 2
		}
	}
	fam := func(label string) *AddressFamilyConfig {
		if rapid.IntRange(0, 3).Draw(t, label) == 0 {
			return nil
		}
		return &AddressFamilyConfig{
			AddPathRecv:     rapid.Bool().Draw(t, label+"_aprx"),
			AddPathSend:     routingtable.ClientOptions{BestOnly: rapid.Bool().Draw(t, label+"_bestonly"), MaxPaths: 4},
			NextHopExtended: rapid.Bool().Draw(t, label+"_extnh"),
		}
	}
	cfg.IPv4, cfg.IPv6 = fam("v4"), fam("v6")
	if cfg.IPv4 == nil && cfg.IPv6 == nil {
		cfg.IPv4 = &AddressFamilyConfig{AddPathSend: routingtable.ClientOptions{BestOnly: true}}
	}
	c.Logf("open las=%d pas=%d id=%d hold=%v mp4=%v role=%d v4=%+v v6=%+v", cfg.LocalAS, cfg.PeerAS, cfg.RouterID, cfg.HoldTime, cfg.AdvertiseIPv4MultiProtocol, cfg.PeerRole, cfg.IPv4, cfg.IPv6)
	p, err := newPeer(cfg, nil)
	if err != nil {
		t.Fatalf("newPeer: %v", err)
	}
	p.routerID = cfg.RouterID // bgpServer.AddPeer does this right after newPeer
	fsm := newFSM(p)
	src := fsm.openMessage()
	m := packet.SerializeOpenMsg(src)
	what := fmt.Sprintf("OPEN (local AS %d)", cfg.LocalAS)
	body := c17Frame(t, m, kit.MsgOpen, what)
	ko, e := kit.ParseOpen(body)
	if e != nil {
		t.Fatalf("%s: reference parser rejects the emitted OPEN: %v\nhex: %s", what, e, c17Hex(m))
	}
	wantAS := uint16(cfg.LocalAS)
	if cfg.LocalAS > 65535 {
		wantAS = 23456
	}
	if ko.Version != 4 || ko.AS != wantAS || ko.AS != src.ASN || ko.HoldTime != src.HoldTime || time.Duration(ko.HoldTime)*time.Second != cfg.HoldTime || ko.ID != cfg.RouterID {
		t.Fatalf("%s: reference parser sees version=%d as=%d hold=%d id=%d; source as=%d hold=%v id=%d\nhex: %s", what, ko.Version, ko.AS, ko.HoldTime, ko.ID, wantAS, cfg.HoldTime, cfg.RouterID, c17Hex(m))
	}
	wantCaps := c17ExpectCaps(t, src.OptParams)
	if c17CapsString(ko.Caps) != c17CapsString(wantCaps) {
		t.Fatalf("%s: reference parser sees capabilities %s, source %s\nhex: %s", what, c17CapsString(ko.Caps), c17CapsString(wantCaps), c17Hex(m))
	}
	// the 4-octet AS capability must carry the real local AS
	if a := ko.FindCaps(65); len(a) != 1 || len(a[0].Value) != 4 || uint32(a[0].Value[0])<<24|uint32(a[0].Value[1])<<16|uint32(a[0].Value[2])<<8|uint32(a[0].Value[3]) != cfg.LocalAS {
		t.Fatalf("%s: 4-octet AS capability %v does not carry the local AS", what, a)
	}
	c.NonTrivialIf(len(wantCaps) >= 3)
	c.Class(fmt.Sprintf("open_caps:%d", len(wantCaps)))

	msg, derr := packet.Decode(bytes.NewBuffer(append([]byte{}, m...)), &packet.DecodeOptions{})
	if derr != nil {
		t.Fatalf("%s: packet.Decode rejects bio-rd's own OPEN: %v\nhex: %s", what, derr, c17Hex(m))
	}
	bo, ok := msg.Body.(*packet.BGPOpen)
	if !ok {
		t.Fatalf("%s: packet.Decode returned body %T", what, msg.Body)
	}
	if int(msg.Header.Length) != len(m) || bo.Version != src.Version || bo.ASN != src.ASN || bo.HoldTime != src.HoldTime || bo.BGPIdentifier != src.BGPIdentifier {
		t.Fatalf("%s: packet.Decode yields %+v (header %+v), source %+v", what, bo, msg.Header, src)
	}
	if got := c17CapsString(c17ExpectCaps(t, bo.OptParams)); got != c17CapsString(wantCaps) {
		t.Fatalf("%s: packet.Decode yields capabilities %s, source %s\nhex: %s", what, got, c17CapsString(wantCaps), c17Hex(m))
	}
}

// c17NotificationPairs lists every (code, subcode) bio-rd passes to
// FSM.sendNotification: literal call sites plus the BGPError values its
// decoder returns (which the FSM states forward as a NOTIFICATION).
var c17NotificationPairs = [][2]uint8{
	{packet.Cease, 0},
	{packet.HoldTimeExpired, 0},
	{packet.FiniteStateMachineError, 0},
	{packet.OpenMessageError, packet.BadBGPIdentifier},
	{packet.OpenMessageError, packet.BadPeerAS},
	{packet.OpenMessageError, packet.RoleMismatchError},
	{packet.OpenMessageError, packet.UnsupportedVersionNumber},
	{packet.MessageHeaderError, packet.ConnectionNotSync},
	{packet.MessageHeaderError, packet.BadMessageLength},
	{packet.MessageHeaderError, packet.BadMessageType},
}

func c17CheckNotification(t *rapid.T, c *kit.Case) {
	pair := c17NotificationPairs[rapid.IntRange(0, len(c17NotificationPairs)-1).Draw(t, "pair")]
	c.Logf("notification %d/%d", pair[0], pair[1])
	c.NonTrivial()
	c.Class("notification")
	if problem := c17NotificationProblem(pair[0], pair[1]); problem != "" {
		t.Fatalf("%s", problem)
	}
}

func c17NotificationProblem(code, sub uint8) string {
	m := packet.SerializeNotificationMsg(&packet.BGPNotification{ErrorCode: code, ErrorSubcode: sub})
	what := fmt.Sprintf("NOTIFICATION %d/%d", code, sub)
	if len(m) > 4096 {
		return fmt.Sprintf("%s: %d bytes", what, len(m))
	}
	typ, body, e := kit.ParseHeader(m)
	if e != nil || typ != kit.MsgNotification {
		return fmt.Sprintf("%s: header not well-formed: type %d %v\nhex: %x", what, typ, e, m)
	}
	kc, ks, _, e := kit.ParseNotification(body)
	if e != nil || kc != code || ks != sub {
		return fmt.Sprintf("%s: reference parser sees %d/%d (%v)\nhex: %x", what, kc, ks, e, m)
	}
	msg, derr := packet.Decode(bytes.NewBuffer(append([]byte{}, m...)), &packet.DecodeOptions{})
	if derr != nil {
		return fmt.Sprintf("%s: packet.Decode rejects bio-rd's own NOTIFICATION: %v\nhex: %x", what, derr, m)
	}
	bn, ok := msg.Body.(*packet.BGPNotification)
	if !ok || bn.ErrorCode != code || bn.ErrorSubcode != sub || int(msg.Header.Length) != len(m) {
		return fmt.Sprintf("%s: packet.Decode yields %+v (header %+v)", what, msg.Body, msg.Header)
	}
	return ""
}

func c17CheckKeepalive(t *rapid.T, c *kit.Case) {
	c.Logf("keepalive")
	c.Class("keepalive")
	m := packet.SerializeKeepaliveMsg()
	c17Frame(t, m, kit.MsgKeepalive, "KEEPALIVE")
	msg, derr := packet.Decode(bytes.NewBuffer(append([]byte{}, m...)), &packet.DecodeOptions{})
	if derr != nil || msg.Header.Type != packet.KeepaliveMsg || msg.Header.Length != 19 || msg.Body != nil {
		t.Fatalf("KEEPALIVE: packet.Decode yields %+v, %v", msg, derr)
	}
}

func TestVerifC17Open(t *testing.T) {
	rec := kit.NewRecorder(t, "C17", c17OpenRule)
	rapid.Check(t, func(t *rapid.T) {
		c := rec.Case()
		defer c.Done()
		switch rapid.IntRange(0, 19).Draw(t, "kind") {
		case 18:
			c17CheckKeepalive(t, c)
		case 19, 17:
			c17CheckNotification(t, c)
		default:
			c17CheckOpen(t, c)
		}
	})
}

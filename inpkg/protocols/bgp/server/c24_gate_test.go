//go:build verif

package server

// C24 with a harness-owned schedule for the one interleaving the step-wise
// machine of c24_collision_test.go cannot produce: the KEEPALIVE on connection
// A is being processed (A is on its way from OpenConfirm to Established, the
// new state not yet published) while the OPEN on connection B runs the
// collision detection against A. FSM.run() logs every state change before it
// publishes the new state; the harness installs a logger that parks A's
// goroutine at that log line, lets B's OPEN in, waits until B's goroutine has
// either lost (its conn is closed) or is delivering the Cease event to A, and
// only then lets A go on. If bio-rd stops logging there the gate is simply
// never reached and the case degenerates into the plain schedule OA KA OB.
//
// Oracle (the same clauses as the step-wise machine): never two Established
// FSMs; the OPEN on B arrived while A was in OpenConfirm, so exactly one of the
// two connections is closed, with a Cease NOTIFICATION; out+in: the survivor
// is the one RFC 4271 6.8 / RFC 6286 2.3 name; the survivor establishes; routes
// of at most one connection reach the Loc-RIB.

import (
	"fmt"
	"os"
	"runtime"
	"strings"
	"sync"
	"testing"
	"time"

	bnet "github.com/bio-routing/bio-rd/net"
	biolog "github.com/bio-routing/bio-rd/util/log"
	"pgregory.net/rapid"
	kit "verifkit"
)

const c24gRule = "one neighbour, two simultaneous connections (in+in / out+in), iBGP/eBGP, neighbour identifier <, > or = ours; schedule: OPEN_A, then KEEPALIVE_A parked between the end of OpenConfirm and the publication of Established, OPEN_B with its collision detection running meanwhile, release, KEEPALIVE on the survivor, one UPDATE per connection. Non-trivial: A's goroutine was parked and B's decision (B closed, or B delivering Cease to A) was observed before the release."

type c24GateState struct {
	mu      sync.Mutex
	trans   []string // state changes logged for the armed peer address (diagnostics)
	watch   string
	peer    string
	parked  chan struct{}
	release chan struct{}
}

var c24Gate c24GateState

func (g *c24GateState) arm(peer string) (parked, release chan struct{}) {
	g.mu.Lock()
	defer g.mu.Unlock()
	g.peer, g.parked, g.release = peer, make(chan struct{}), make(chan struct{})
	g.watch, g.trans = peer, nil
	return g.parked, g.release
}

func (g *c24GateState) transitions() []string {
	g.mu.Lock()
	defer g.mu.Unlock()
	return append([]string{}, g.trans...)
}

func (g *c24GateState) disarm() {
	g.mu.Lock()
	defer g.mu.Unlock()
	g.peer = ""
}

type c24GateLog struct{ fields biolog.Fields }

func (l c24GateLog) Errorf(string, ...interface{}) {}
func (l c24GateLog) Infof(string, ...interface{})  {}
func (l c24GateLog) Debugf(string, ...interface{}) {}
func (l c24GateLog) Error(string)                  {}
func (l c24GateLog) Debug(string)                  {}
func (l c24GateLog) WithFields(f biolog.Fields) biolog.LoggerInterface {
	return c24GateLog{fields: f}
}
func (l c24GateLog) WithError(error) biolog.LoggerInterface { return l }
func (l c24GateLog) Info(string) {
	if l.fields == nil || l.fields["new_state"] == nil {
		return
	}
	peer, _ := l.fields["peer"].(string)
	g := &c24Gate
	g.mu.Lock()
	if peer == g.watch {
		var sb [64]byte
		gid := strings.Fields(string(sb[:runtime.Stack(sb[:], false)]))[1]
		g.trans = append(g.trans, fmt.Sprintf("g%s %v->%v (%v)", gid, l.fields["last_state"], l.fields["new_state"], l.fields["reason"]))
	}
	if l.fields["new_state"] != stateNameEstablished {
		g.mu.Unlock()
		return
	}
	if g.peer == "" || g.peer != peer {
		g.mu.Unlock()
		return
	}
	g.peer = ""
	p, r := g.parked, g.release
	g.mu.Unlock()
	close(p)
	<-r
}

// c24InCollisionSend: some goroutine is inside peer.collisionHandling handing an event to another FSM.
func c24InCollisionSend() bool {
	buf := make([]byte, 1<<20)
	for {
		n := runtime.Stack(buf, true)
		if n < len(buf) {
			buf = buf[:n]
			break
		}
		buf = make([]byte, 2*len(buf))
	}
	for _, g := range strings.Split(string(buf), "\n\n") {
		if strings.Contains(g, "(*peer).collisionHandling") && strings.Contains(g, "(*FSM).sendEvent") {
			return true
		}
	}
	return false
}

// c24FSMStack returns the stack of the goroutine running (*FSM).run for f ("" when it has ended).
func c24FSMStack(f *FSM) string {
	buf := make([]byte, 1<<20)
	for {
		n := runtime.Stack(buf, true)
		if n < len(buf) {
			buf = buf[:n]
			break
		}
		buf = make([]byte, 2*len(buf))
	}
	for _, g := range strings.Split(string(buf), "\n\n") {
		if strings.Contains(g, fmt.Sprintf("server.(*FSM).run(%p", f)) {
			return g
		}
	}
	return ""
}

func c24GateCase(r *c00Rig, c *kit.Case, outIn, ibgp bool, idRel int, localASLarger bool) string {
	localAS := uint32(65000)
	peerAS := localAS
	if !ibgp {
		peerAS = 65001
		if localASLarger {
			peerAS = 64999
		}
	}
	peerID := uint32(c24RouterID)
	switch idRel {
	case -1:
		peerID = c24RouterID - 7
	case 1:
		peerID = c24RouterID + 7
	}
	c24PeerSeq++
	n := c24PeerSeq
	ip := bnet.IPv4FromOctets(10, 3+uint8(n>>16), uint8(n>>8), uint8(n))
	cfg := r.c00PeerCfg(ip, bnet.IPv4FromOctets(10, 0, 0, 1), localAS, peerAS)
	if outIn {
		cfg.Passive = false
		cfg.ReconnectInterval = time.Millisecond
	}
	if err := r.srv.AddPeer(cfg); err != nil {
		panic(err)
	}
	A := &c24Side{name: "A", outgoing: outIn, pfx: 0xc6336400}
	B := &c24Side{name: "B", pfx: 0xc6336500}
	sides := []*c24Side{A, B}
	var release chan struct{}
	released := false
	letGo := func() {
		c24Gate.disarm()
		if release != nil && !released {
			released = true
			close(release)
		}
	}
	defer c24Teardown(A)
	defer c24Teardown(B)
	defer letGo()

	if outIn {
		fs := r.c00FSMs(ip)
		if len(fs) != 1 {
			return fmt.Sprintf("non-passive peer has %d FSMs after AddPeer", len(fs))
		}
		A.f = fs[0]
		c00WaitState(A.f, stateNameConnect)
		A.conn = kit.NewConn(nil, nil)
		select {
		case A.f.conCh <- A.conn:
		case <-time.After(c00Deadline):
			panic(c00Inconclusive{"outgoing FSM did not take the connection"})
		}
		if !A.conn.WaitWritten(19, c00Deadline) {
			panic(c00Inconclusive{"outgoing FSM sent no OPEN"})
		}
	} else {
		A.conn, A.f = r.c00Connect(ip)
	}
	B.conn, B.f = r.c00Connect(ip)
	open := c00Open(peerAS, peerID, 90, kit.CapASN4(peerAS))
	localWins := c24RouterID > peerID || (c24RouterID == peerID && localAS > peerAS)

	// OPEN_A
	A.conn.Feed(open)
	c00WaitFor("reaction to OPEN on A", func() bool {
		if A.conn.Closed() {
			return true
		}
		s := c00State(A.f)
		return s != stateNameOpenSent && s != stateNameActive && s != stateNameConnect
	})
	c24HoldExpired(sides)
	if A.conn.Closed() || c00State(A.f) != stateNameOpenConfirm {
		return fmt.Sprintf("OPEN_A with the other connection in OpenSent: A closed=%v state %s notifications %v", A.conn.Closed(), c00State(A.f), c00Notifications(A.conn))
	}
	// KEEPALIVE_A, parked before Established is published
	var parked chan struct{}
	parked, release = c24Gate.arm(ip.String())
	A.conn.Feed(kit.Keepalive())
	gated := false
	select {
	case <-parked:
		gated = true
	case <-time.After(3 * time.Second):
		letGo() // no log line at the transition (or a very slow machine): plain schedule
	}
	if gated && c00State(A.f) != stateNameOpenConfirm {
		return "" // the log line no longer precedes the publication of the state: nothing staged, nothing to judge
	}
	// OPEN_B
	B.conn.Feed(open)
	decided := false
	if gated {
		deadline := time.Now().Add(3 * time.Second)
		for time.Now().Before(deadline) {
			if B.conn.Closed() || c24InCollisionSend() {
				decided = true
				break
			}
			time.Sleep(200 * time.Microsecond)
		}
		c.Logf("  A parked at the OpenConfirm->Established transition; OPEN_B decided=%v (B closed=%v)", decided, B.conn.Closed())
	}
	letGo()
	c00WaitFor("both connections settled", func() bool {
		aDone := A.conn.Closed() || c00State(A.f) == stateNameEstablished
		bs := c00State(B.f)
		bDone := B.conn.Closed() || bs == stateNameOpenConfirm
		return aDone && bDone
	})
	c.Logf("  settled: A %s closed=%v, B %s closed=%v", c00State(A.f), A.conn.Closed(), c00State(B.f), B.conn.Closed())
	aAlive, bAlive := c24Probe(A), c24Probe(B)
	c.Logf("  probed: A alive=%v %s closed=%v, B alive=%v %s closed=%v", aAlive, c00State(A.f), A.conn.Closed(), bAlive, c00State(B.f), B.conn.Closed())
	// (a Cease handed to either FSM before the probes has been acted upon now)
	if aAlive && A.conn.Closed() {
		aAlive = false
	}
	if bAlive && B.conn.Closed() {
		bAlive = false
	}
	c24HoldExpired(sides)
	// A connection that has been closed is over; FSM.run() publishes the state that follows only after the
	// state's handler (NOTIFICATION, RIB teardown, Close) has returned. Wait for the label to catch up before
	// counting Established FSMs.
	for _, s := range sides {
		if s.conn.Closed() {
			f := s.f
			c00WaitFor("state of the closed connection "+s.name+" published", func() bool { return c00State(f) != stateNameEstablished })
		}
	}
	c.ClassIf(gated, "keepalive_parked")
	c.ClassIf(gated && decided, "decision_while_parked")
	c.NonTrivialIf(gated && decided)
	if n := c24CountEstablished(r, ip); n > 1 {
		return fmt.Sprintf("after OPEN_B raced with KEEPALIVE_A: %d FSMs of the peer are Established", n)
	}
	if aAlive && bAlive {
		return fmt.Sprintf("collision not resolved: OPEN_B was received while connection A was in OpenConfirm (its KEEPALIVE being processed), both connections stay open (A %s, B %s)", c00State(A.f), c00State(B.f))
	}
	if !aAlive && !bAlive {
		return fmt.Sprintf("collision at OPEN_B closed BOTH connections (A: %v, B: %v)", c00Notifications(A.conn), c00Notifications(B.conn))
	}
	loser, winner := A, B
	if aAlive {
		loser, winner = B, A
	}
	c.Class("loser_" + loser.name)
	if !c24HasCease(loser.conn) {
		return fmt.Sprintf("collision at OPEN_B: connection %s closed without a Cease NOTIFICATION (notifications %v)", loser.name, c00Notifications(loser.conn))
	}
	if outIn && gated && decided && winner.outgoing != localWins {
		return fmt.Sprintf("collision at OPEN_B: surviving connection %s is outgoing=%v, but the connection initiated by the %s speaker must survive (local id %#x AS %d, remote id %#x AS %d)", winner.name, winner.outgoing, map[bool]string{true: "local", false: "remote"}[localWins], uint32(c24RouterID), localAS, peerID, peerAS)
	}
	if winner == B {
		B.conn.Feed(kit.Keepalive())
		c00WaitFor("reaction to KEEPALIVE on B", func() bool {
			return B.conn.Closed() || c00State(B.f) != stateNameOpenConfirm
		})
		c24HoldExpired(sides)
		if B.conn.Closed() || c00State(B.f) != stateNameEstablished {
			return fmt.Sprintf("KEEPALIVE_B in OpenConfirm did not establish: state %s closed=%v notifications %v", c00State(B.f), B.conn.Closed(), c00Notifications(B.conn))
		}
	}
	if n := c24CountEstablished(r, ip); n != 1 {
		var d []string
		for i, f := range r.c00FSMs(ip) {
			d = append(d, fmt.Sprintf("fsm%d(A=%v B=%v) %s", i, f == A.f, f == B.f, c00State(f)))
		}
		if d := os.Getenv("VERIF_WORK"); d != "" {
			buf := make([]byte, 8<<20)
			buf = buf[:runtime.Stack(buf, true)]
			os.WriteFile(d+"/c24-goroutines.txt", append([]byte(fmt.Sprintf("A.f=%p B.f=%p\n", A.f, B.f)), buf...), 0o644)
		}
		return fmt.Sprintf("%d connections Established at the end of the schedule: %v; A closed=%v notifications %v; B closed=%v notifications %v\nstate changes logged: %v\nFSM goroutine of A:\n%s", n, d, A.conn.Closed(), c00Notifications(A.conn), B.conn.Closed(), c00Notifications(B.conn), c24Gate.transitions(), c24FSMStack(A.f))
	}
	for _, s := range sides {
		if s.conn.Closed() {
			continue
		}
		var lp *uint32
		path := []uint32{peerAS}
		if ibgp {
			v := uint32(100)
			lp = &v
			path = []uint32{64999}
		}
		s.conn.Feed(c00Update(path, [4]byte{10, 3, 0, 1}, lp, true, false, kit.WNLRI{P: kit.V4(s.pfx, 24)}))
		if c00State(s.f) == stateNameEstablished {
			c00Barrier(s.conn, s.f)
		}
	}
	if got := r.c00RIBFromPeer(ip, false); len(got) > 1 {
		return fmt.Sprintf("routes of both connections are in the Loc-RIB: %v", got)
	}
	return ""
}

func TestVerifC24KeepaliveRace(t *testing.T) {
	biolog.SetLogger(c24GateLog{})
	rec := kit.NewRecorder(t, "C24", c24gRule)
	var inc c21Inc
	var rig *c00Rig
	used := 0
	rapid.Check(t, func(t *rapid.T) {
		c := rec.Case()
		defer c.Done()
		outIn := rapid.Bool().Draw(t, "outIn")
		ibgp := rapid.Bool().Draw(t, "ibgp")
		idRel := rapid.IntRange(0, 8).Draw(t, "idRel")%3 - 1
		if ibgp && idRel == 0 {
			idRel = rapid.SampledFrom([]int{-1, 1}).Draw(t, "idRelIBGP")
		}
		localASLarger := rapid.Bool().Draw(t, "localASLarger")
		mode := "in+in"
		if outIn {
			mode = "out+in"
		}
		c.Logf("mode=%s ibgp=%v peerID-ourID=%d localASLarger=%v schedule: OA, KA parked, OB, release", mode, ibgp, idRel*7, localASLarger && !ibgp)
		c.Class("mode:" + mode)
		var verdict string
		ok := inc.c21Run(c, func() {
			if rig == nil || used >= 300 {
				rig = c00NewRig(c24RouterID)
				used = 0
			}
			used++
			verdict = c24GateCase(rig, c, outIn, ibgp, idRel, localASLarger)
		})
		if !ok {
			rig = nil
			return
		}
		if verdict != "" {
			t.Fatalf("C24 violation: %s\ncase: %s", verdict, c.String())
		}
	})
	inc.c21Finish(t, "C24")
}

//go:build verif

package server

// C25 — the accept loop survives a peer that is removed while it connects.
//
// A passive neighbour X opens a connection (handed to the real incomingConnectionWorker through the listener
// manager's accept channel) while DisposePeer(X) runs with a generated delay: the stop event may reach the new
// FSM before the accept loop has handed the connection over. Whatever the order, both operations must complete
// and the accept loop must go on serving: a connection of a second neighbour Y is accepted and gets its session.
// Blocked operations are judged by the two-dump rule (kit.WaitOps), not by a timeout.

import (
	"fmt"
	"net"
	"testing"
	"time"

	bnet "github.com/bio-routing/bio-rd/net"
	"github.com/bio-routing/bio-rd/net/tcp"
	"pgregory.net/rapid"
	kit "verifkit"
)

func TestVerifC25DisposeWhileConnecting(t *testing.T) {
	rec := kit.NewRecorder(t, "C25", "real started bgpServer with two passive neighbours; a connection of X is accepted while DisposePeer(X) runs 0-1000 us later; then a connection of Y. Every operation must complete (two-dump deadlock rule) and Y must get its FSM. Non-trivial: X's FSM was stopped before or right after the hand-over (it is Idle, not OpenSent, afterwards).")
	var seq uint32
	rapid.Check(t, func(t *rapid.T) {
		c := rec.Case()
		defer c.Done()
		delay := time.Duration(rapid.SampledFrom([]int{0, 0, 20, 50, 100, 200, 500, 1000}).Draw(t, "dispose_delay_us")) * time.Microsecond
		disposeFirst := rapid.IntRange(0, 3).Draw(t, "dispose_first") == 0
		seq++
		r := c00NewRig(0x0a000001)
		ipX := bnet.IPv4FromOctets(10, 8, uint8(seq>>8), uint8(seq))
		ipY := bnet.IPv4FromOctets(10, 9, uint8(seq>>8), uint8(seq))
		for _, ip := range []bnet.IP{ipX, ipY} {
			if err := r.srv.AddPeer(r.c00PeerCfg(ip, bnet.IPv4FromOctets(10, 0, 0, 1), 65000, 65001)); err != nil {
				t.Fatalf("harness: AddPeer: %v", err)
			}
		}
		conn := func(ip bnet.IP, port int) tcp.ConnWithVRF {
			return tcp.ConnWithVRF{Conn: kit.NewConn(&net.TCPAddr{IP: net.IPv4(127, 0, 0, 1), Port: 179}, &net.TCPAddr{IP: ip.ToNetIP(), Port: port}), VRF: r.vrf}
		}
		c.Logf("connection of X accepted, DisposePeer(X) %v later (dispose first: %v)", delay, disposeFirst)
		cx := conn(ipX, 40001)
		accept := func() { r.lm.ch <- cx }
		dispose := func() { r.srv.DisposePeer(r.vrf, ipX.Dedup()) }
		first, second := accept, dispose
		if disposeFirst {
			first, second = dispose, accept
		}
		d1 := kit.GoOp(first)
		d2 := kit.GoOp(func() { time.Sleep(delay); second() })
		judge := func(rep *kit.StuckReport, what string) {
			if rep == nil {
				return
			}
			if !rep.Confirmed {
				kit.ExitInconclusive("C25 accept watchdog: %s", rep.Reason)
			}
			t.Fatalf("C25 DEADLOCK sig=%s\n%s\nblocked in: %v\n%s\n%s", rep.Sig("C25"), what, rep.Frames, c25SrvTrim(rep.Relevant), c.String())
		}
		judge(kit.WaitOps([]<-chan struct{}{d1, d2}, c25SrvWatchLimit, c25SrvWatchGap), "a connection of X and DisposePeer(X) at the same time")
		cy := conn(ipY, 40002)
		d3 := kit.GoOp(func() { r.lm.ch <- cy })
		judge(kit.WaitOps([]<-chan struct{}{d3}, c25SrvWatchLimit, c25SrvWatchGap), fmt.Sprintf("the next connection (neighbour Y) after X connected while it was disposed (delay %v): the accept loop does not take it", delay))
		var inc string
		func() {
			defer c00Recover(&inc)
			c00WaitFor("session of Y created", func() bool { return len(r.c00FSMs(ipY)) == 1 })
			if !cy.Conn.(*kit.Conn).WaitWritten(19, c00Deadline) {
				panic(c00Inconclusive{"no OPEN for Y"})
			}
		}()
		if inc != "" {
			c.Class("inconclusive")
			return
		}
		// X: which order did the race take?
		stoppedEarly := true
		if p := r.c00Peer(ipX); p != nil {
			stoppedEarly = false // the peer was disposed before the connection arrived: "unknown source"
		}
		c.ClassIf(cx.Conn.(*kit.Conn).Closed(), "x_connection_closed")
		c.NonTrivialIf(stoppedEarly)
		go r.srv.DisposePeer(r.vrf, ipY.Dedup())
	})
}

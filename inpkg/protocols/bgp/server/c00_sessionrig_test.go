//go:build verif

package server

// Shared asynchronous session rig (used by C07, C21, C22, C23, C24 via
// "files_for": [..., "C00"]). A real bgpServer with a harness
// ListenerManagerI whose AcceptCh delivers in-memory connections; this is the
// path incomingConnectionWorker uses for every inbound TCP connection. All FSM
// goroutines are the real ones. Quiescence is established by protocol
// handshakes (see WaitDrained / barrier), and every wait has a deadline that
// means "inconclusive" (c00Inconclusive panic value), never a violation.

import (
	"fmt"
	"net"
	"os"
	"sort"
	"strings"
	"time"

	bnet "github.com/bio-routing/bio-rd/net"
	"github.com/bio-routing/bio-rd/net/tcp"
	"github.com/bio-routing/bio-rd/route"
	"github.com/bio-routing/bio-rd/routingtable"
	"github.com/bio-routing/bio-rd/routingtable/filter"
	"github.com/bio-routing/bio-rd/routingtable/vrf"
	kit "verifkit"
)

// c00Inconclusive is panicked when a real-time deadline passes; callers turn it
// into t.Skip-like behaviour (the driver maps it to exit 2 when it dominates).
type c00Inconclusive struct{ what string }

func (e c00Inconclusive) Error() string { return "inconclusive: " + e.what }

const c00Deadline = 20 * time.Second

type c00LM struct{ ch chan tcp.ConnWithVRF }

func (l *c00LM) ListenAddrsPerVRF(*vrf.VRF) []string       { return nil }
func (l *c00LM) GetListeners(*vrf.VRF) []tcp.ListenerI     { return nil }
func (l *c00LM) CreateListenersIfNotExists(*vrf.VRF) error { return nil }
func (l *c00LM) AcceptCh() chan tcp.ConnWithVRF            { return l.ch }

// c00Rig is one server instance.
type c00Rig struct {
	srv      *bgpServer
	lm       *c00LM
	vrf      *vrf.VRF
	routerID uint32
	port     int
}

// c00NewRig creates a started server with an untracked VRF holding IPv4 and
// IPv6 unicast Loc-RIBs.
func c00NewRig(routerID uint32) *c00Rig {
	v := vrf.NewUntrackedVRF("c00vrf", 0)
	v.CreateIPv4UnicastLocRIB("inet.0")
	v.CreateIPv6UnicastLocRIB("inet6.0")
	lp := uint32(100)
	srv := newBGPServer(BGPServerConfig{RouterID: routerID, DefaultVRF: v, DefaultLocalPreference: &lp})
	lm := &c00LM{ch: make(chan tcp.ConnWithVRF)}
	srv.SetListenerManager(lm)
	srv.Start()
	return &c00Rig{srv: srv, lm: lm, vrf: v, routerID: routerID, port: 20000}
}

// c00PeerCfg returns a passive peer configuration (sessions are driven by the
// harness connecting in). TTL handling is a no-op for non-TCP conns.
func (r *c00Rig) c00PeerCfg(peerIP, localIP bnet.IP, localAS, peerAS uint32) PeerConfig {
	return PeerConfig{
		AdminEnabled: true,
		KeepAlive:    30 * time.Second,
		HoldTime:     90 * time.Second,
		LocalAddress: localIP.Ptr(),
		PeerAddress:  peerIP.Ptr(),
		LocalAS:      localAS,
		PeerAS:       peerAS,
		Passive:      true,
		RouterID:     r.routerID,
		VRF:          r.vrf,
		IPv4: &AddressFamilyConfig{
			ImportFilterChain: filter.NewAcceptAllFilterChain(),
			ExportFilterChain: filter.NewAcceptAllFilterChain(),
			AddPathSend:       routingtableBestOnly(),
		},
	}
}

func routingtableBestOnly() routingtable.ClientOptions {
	return routingtable.ClientOptions{BestOnly: true}
}

// c00Connect delivers a new inbound connection from peerIP to the server and
// waits until the new FSM has sent its OPEN (i.e. is in OpenSent with its
// receiver started). Returns the conn and the FSM created for it.
func (r *c00Rig) c00Connect(peerIP bnet.IP) (*kit.Conn, *FSM) {
	before := len(r.c00FSMs(peerIP))
	r.port++
	c := kit.NewConn(&net.TCPAddr{IP: net.IPv4(127, 0, 0, 1), Port: 179}, &net.TCPAddr{IP: peerIP.ToNetIP(), Port: r.port})
	select {
	case r.lm.ch <- tcp.ConnWithVRF{Conn: c, VRF: r.vrf}:
	case <-time.After(c00Deadline):
		panic(c00Inconclusive{"server did not accept the connection"})
	}
	// the FSM is appended before conCh delivery; wait for it and for its OPEN
	var f *FSM
	c00WaitFor("new FSM registered", func() bool {
		fs := r.c00FSMs(peerIP)
		if len(fs) > before {
			f = fs[len(fs)-1]
			return true
		}
		return false
	})
	if !c.WaitWritten(19, c00Deadline) && !c.Closed() {
		panic(c00Inconclusive{"no OPEN written by the new FSM"})
	}
	return c, f
}

// c00FSMs lists the peer's FSMs (copy, under fsmsMu).
func (r *c00Rig) c00FSMs(peerIP bnet.IP) []*FSM {
	p := r.srv.peers.get(r.vrf, peerIP.Dedup())
	if p == nil {
		return nil
	}
	p.fsmsMu.Lock()
	defer p.fsmsMu.Unlock()
	return append([]*FSM{}, p.fsms...)
}

func (r *c00Rig) c00Peer(peerIP bnet.IP) *peer {
	return r.srv.peers.get(r.vrf, peerIP.Dedup())
}

// c00State reads the FSM state name under stateMu.
func c00State(f *FSM) string {
	f.stateMu.RLock()
	defer f.stateMu.RUnlock()
	return stateName(f.state)
}

// c00WaitFor polls pred until it holds; a deadline panics c00Inconclusive.
func c00WaitFor(what string, pred func() bool) {
	deadline := time.Now().Add(c00Deadline)
	for i := 0; ; i++ {
		if pred() {
			return
		}
		if time.Now().After(deadline) {
			panic(c00Inconclusive{what})
		}
		if i < 100 {
			time.Sleep(50 * time.Microsecond)
		} else {
			time.Sleep(time.Millisecond)
		}
	}
}

// c00WaitState waits until the FSM is in one of the named states.
func c00WaitState(f *FSM, names ...string) string {
	var got string
	c00WaitFor("state "+strings.Join(names, "|"), func() bool {
		got = c00State(f)
		for _, n := range names {
			if got == n {
				return true
			}
		}
		return false
	})
	return got
}

// c00Open is the harness-side OPEN for a peer.
func c00Open(as uint32, id uint32, hold uint16, caps ...kit.WCap) []byte {
	as16 := uint16(as)
	if as > 65535 {
		as16 = 23456
	}
	o := &kit.WOpen{Version: 4, AS: as16, HoldTime: hold, ID: id, Caps: caps}
	return o.Build()
}

// c00Establish performs OPEN/KEEPALIVE on a fresh connection and waits for
// Established. Returns false if the session did not establish (state name in
// the second result).
func (r *c00Rig) c00Establish(c *kit.Conn, f *FSM, open []byte) (bool, string) {
	c.Feed(open)
	// bio-rd answers a good OPEN with a KEEPALIVE; a bad one with NOTIFICATION/close
	c00WaitFor("reaction to OPEN", func() bool {
		s := c00State(f)
		return s != stateNameOpenSent && s != stateNameActive && s != stateNameConnect
	})
	if s := c00State(f); s != stateNameOpenConfirm {
		return false, s
	}
	c.Feed(kit.Keepalive())
	s := c00WaitState(f, stateNameEstablished, stateNameIdle, stateNameCease)
	return s == stateNameEstablished, s
}

// c00Barrier makes sure every message fed so far has been fully processed by
// an ESTABLISHED session: it feeds a trailing KEEPALIVE and waits until the
// receiver goroutine is parked in Read on an empty buffer again. msgRecvCh is
// unbuffered, so once the receiver is back in Read the KEEPALIVE has been
// handed to the FSM, hence everything before it was processed completely. If
// the session left Established meanwhile (conn closed) the barrier returns
// after the FSM has reached Idle/Cease.
func c00Barrier(c *kit.Conn, f *FSM) {
	c.Feed(kit.Keepalive())
	c00WaitFor("barrier", func() bool {
		if c.IsDrained() {
			return true
		}
		// The session may have left Established because of a fed message: the
		// receiver is then either failed (conn closed) or blocked handing a
		// message to an FSM nobody listens on any more. Quiescent once the FSM
		// goroutine has settled in Idle/Cease.
		s := c00State(f)
		return s == stateNameIdle || s == stateNameCease
	})
}

// c00Msgs splits everything written to the conn so far into BGP messages.
func c00Msgs(c *kit.Conn) [][]byte {
	msgs, _ := kit.SplitStream(c.Written())
	return msgs
}

// c00Notifications extracts (code, subcode) of all NOTIFICATIONs written.
func c00Notifications(c *kit.Conn) [][2]uint8 {
	var out [][2]uint8
	for _, m := range c00Msgs(c) {
		if m[18] == kit.MsgNotification && len(m) >= 21 {
			out = append(out, [2]uint8{m[19], m[20]})
		}
	}
	return out
}

// c00RIBFromPeer lists "prefix" strings of Loc-RIB routes that have a path
// whose BGP source is peerIP.
func (r *c00Rig) c00RIBFromPeer(peerIP bnet.IP, v6 bool) []string {
	rib := r.vrf.IPv4UnicastRIB()
	if v6 {
		rib = r.vrf.IPv6UnicastRIB()
	}
	var out []string
	for _, rt := range rib.Dump() {
		for _, p := range rt.Paths() {
			if p.Type == route.BGPPathType && p.BGPPath != nil && p.BGPPath.BGPPathA != nil && p.BGPPath.BGPPathA.Source != nil && p.BGPPath.BGPPathA.Source.Equal(peerIP) {
				out = append(out, rt.Prefix().String())
			}
		}
	}
	sort.Strings(out)
	return out
}

// c00Recover converts a c00Inconclusive panic into ok=false; other panics
// propagate. Use: defer c00Recover(&inconclusive).
func c00Recover(inconclusive *string) {
	if r := recover(); r != nil {
		if e, ok := r.(c00Inconclusive); ok {
			*inconclusive = e.what
			return
		}
		panic(r)
	}
}

// c00Journal appends a line to $VERIF_WORK/journal.txt (reproducer for
// process-killing failures).
func c00Journal(format string, args ...interface{}) {
	d := os.Getenv("VERIF_WORK")
	if d == "" {
		return
	}
	f, err := os.OpenFile(d+"/journal.txt", os.O_APPEND|os.O_CREATE|os.O_WRONLY, 0o644)
	if err != nil {
		return
	}
	fmt.Fprintf(f, format+"\n", args...)
	f.Close()
}

// c00Update builds a classic IPv4 UPDATE announcing the prefixes with a
// minimal valid attribute set.
func c00Update(asPath []uint32, nextHop [4]byte, localPref *uint32, asn4 bool, addPath bool, nlri ...kit.WNLRI) []byte {
	u := &kit.WUpdate{NLRI: nlri}
	var segs []kit.WSeg
	if len(asPath) > 0 {
		segs = []kit.WSeg{{Type: 2, ASNs: asPath}}
	}
	u.Attrs = []kit.WAttr{kit.AttrOrigin(0), kit.AttrASPath(segs, asn4), kit.AttrNextHop(nextHop)}
	if localPref != nil {
		u.Attrs = append(u.Attrs, kit.AttrLocalPref(*localPref))
	}
	return u.Build(kit.WOpts{AddPath4: addPath, ASN4: asn4}, nil)
}

//go:build verif

package server

// C07 — leaving Established withdraws everything the session contributed.
//
// Every case runs real sessions on the shared asynchronous rig (c00): a
// passive peer A (iBGP or eBGP, optionally route-reflector client, optionally
// with IPv6 configured, import policy accept-all or rewriting), optionally a
// bystander peer B with one route, a static route in the Loc-RIB. A case is 1–3
// rounds of {establish A on a fresh connection, k UPDATEs, one exit}. Oracle
// after every exit (once the FSM goroutine has finished the transition):
//   - no Loc-RIB path (IPv4/IPv6) has A as its BGP source,
//   - Loc-RIB client counts are back to the baseline measured before A's first
//     session, and a later Loc-RIB change writes nothing to the old conn,
//   - vrf.IsContributingASN(local AS of A) / IsContributingClusterID are
//     withdrawn (unless the bystander shares the local AS and is Established),
//   - the bystander is untouched (still Established, route still present).
// After every (re-)establishment: A's new Adj-RIB-In is empty, the Loc-RIB has
// nothing from A, and (round >= 2) everything the first session was sent as
// initial advertisement (static route, bystander route) is advertised again on
// the new connection. The outbound side is made quiescent by a handshake
// (update-sender queue empty, then a marker route added to the Loc-RIB is
// waited for on the wire; the single sender goroutine works sequentially, so
// everything queued before the marker has been written by then).
//
// All waits are polls with the rig's 20 s deadline; a passed deadline is
// "inconclusive", never a violation.

import (
	"errors"
	"fmt"
	"os"
	"runtime"
	"sort"
	"strconv"
	"strings"
	"sync"
	"testing"
	"time"

	bnet "github.com/bio-routing/bio-rd/net"
	"github.com/bio-routing/bio-rd/route"
	"github.com/bio-routing/bio-rd/routingtable/filter"
	"github.com/bio-routing/bio-rd/routingtable/filter/actions"
	"pgregory.net/rapid"
	kit "verifkit"
)

const c07Rule = "sessions on the asynchronous rig: peer A iBGP/eBGP x RR-client x IPv6 configured x import policy {accept-all, set-local-pref, set-MED, prepend, set-next-hop} x bystander peer (same/different local AS, established before or after A); 1-3 rounds of {establish on a fresh conn, 0-4 UPDATEs announcing/withdrawing prefixes of an 8-prefix universe (one overlaps the bystander's route), exit in {NOTIFICATION, hold-timer expiry (OPEN hold 4 s), keepalive send failure (60 ms local hold, conn made write-failing), malformed message (10 header/attribute/NLRI mutations), unexpected OPEN, peer.stop(), DisposePeer (+AddPeer again), AutomaticStop, Cease} x {NOTIFICATION writes succeed, fail}}. Non-trivial: an exit other than NOTIFICATION taken while >= 1 route of the session was installed in the Loc-RIB."

const (
	c07ExitNotification = iota
	c07ExitHold
	c07ExitKeepaliveFail
	c07ExitMalformed
	c07ExitUnexpectedOpen
	c07ExitPeerStop
	c07ExitDispose
	c07ExitAutomaticStop
	c07ExitCease
	c07NumExits
)

var c07ExitNames = [...]string{"notification", "holdexpiry", "keepalivefail", "malformed", "unexpectedopen", "peerstop", "dispose", "automaticstop", "cease"}

const c07NumMalformed = 10

type c07Upd struct {
	Ann []int
	Wd  []int
	V6  bool
}

type c07Round struct {
	Upds      []c07Upd
	Exit      int
	Mal       int
	NotifFail bool // every NOTIFICATION written from the exit on fails (fault injected on the conn)
}

type c07Case struct {
	IBGP      bool
	RR        bool
	V6        bool
	V6NoCap   bool // IPv6 is configured locally, the neighbour's OPEN does not carry the multiprotocol capability for it
	Bystander bool
	BySameAS  bool
	ByLate    bool // the bystander establishes after A's first session did (its contributions are registered after A's)
	FastKA    bool
	Policy    int
	Rounds    []c07Round
}

func (c c07Case) String() string {
	var sb strings.Builder
	fmt.Fprintf(&sb, "ibgp=%v rr=%v v6=%v(nocap=%v) bystander=%v sameAS=%v late=%v fastKA=%v policy=%d", c.IBGP, c.RR, c.V6, c.V6NoCap, c.Bystander, c.BySameAS, c.ByLate, c.FastKA, c.Policy)
	for i, r := range c.Rounds {
		fmt.Fprintf(&sb, " | round%d", i)
		for _, u := range r.Upds {
			fmt.Fprintf(&sb, " upd(ann=%v wd=%v v6=%v)", u.Ann, u.Wd, u.V6)
		}
		fmt.Fprintf(&sb, " exit=%s", c07ExitNames[r.Exit])
		if r.Exit == c07ExitMalformed {
			fmt.Fprintf(&sb, "#%d", r.Mal)
		}
		if r.NotifFail {
			sb.WriteString("+notification-write-fails")
		}
	}
	return sb.String()
}

var c07Gen = rapid.Custom(func(t *rapid.T) c07Case {
	var c c07Case
	c.IBGP = rapid.Bool().Draw(t, "ibgp")
	if c.IBGP {
		c.RR = rapid.Bool().Draw(t, "rr")
	}
	c.V6 = rapid.IntRange(0, 2).Draw(t, "v6") == 0
	if c.V6 {
		c.V6NoCap = rapid.IntRange(0, 2).Draw(t, "v6_nocap") == 0
	}
	c.Bystander = rapid.IntRange(0, 2).Draw(t, "bystander") != 0
	if c.Bystander {
		c.BySameAS = rapid.Bool().Draw(t, "sameAS")
		c.ByLate = rapid.Bool().Draw(t, "late")
	}
	c.FastKA = rapid.IntRange(0, 3).Draw(t, "fastKA") == 0
	c.Policy = rapid.IntRange(0, 4).Draw(t, "policy")
	nr := rapid.SampledFrom([]int{1, 1, 2, 2, 2, 3}).Draw(t, "rounds")
	for i := 0; i < nr; i++ {
		var r c07Round
		nu := rapid.IntRange(0, 4).Draw(t, "nupd")
		if i == 0 && nu == 0 {
			nu = 1
		}
		for j := 0; j < nu; j++ {
			var u c07Upd
			u.Ann = rapid.SliceOfNDistinct(rapid.IntRange(0, 7), 0, 3, rapid.ID[int]).Draw(t, "ann")
			if rapid.IntRange(0, 2).Draw(t, "wdp") == 0 {
				u.Wd = rapid.SliceOfNDistinct(rapid.IntRange(0, 7), 1, 2, rapid.ID[int]).Draw(t, "wd")
			}
			if c.V6 {
				u.V6 = rapid.IntRange(0, 2).Draw(t, "u6") == 0
			}
			if len(u.Ann) == 0 && len(u.Wd) == 0 {
				u.Ann = []int{rapid.IntRange(0, 7).Draw(t, "ann1")}
			}
			r.Upds = append(r.Upds, u)
		}
		// exit kinds: hold expiry costs ~5 s, keep it rarer; the timer mode of the
		// case decides which timer exit is reachable (with a 60 ms hold time the 1 s
		// hold-timer tick never fires because the 20 ms keepalive timer restarts
		// the state first).
		var kinds []int
		for k := 0; k < c07NumExits; k++ {
			switch {
			case k == c07ExitHold && c.FastKA, k == c07ExitKeepaliveFail && !c.FastKA:
				continue
			case k == c07ExitMalformed:
				kinds = append(kinds, k, k, k)
			case k == c07ExitHold:
				kinds = append(kinds, k)
			default:
				kinds = append(kinds, k, k)
			}
		}
		r.Exit = rapid.SampledFrom(kinds).Draw(t, "exit")
		if r.Exit == c07ExitMalformed {
			r.Mal = rapid.IntRange(0, c07NumMalformed-1).Draw(t, "mal")
		}
		if r.Exit != c07ExitNotification && r.Exit != c07ExitKeepaliveFail {
			r.NotifFail = rapid.IntRange(0, 3).Draw(t, "notif_fail") == 0
		}
		c.Rounds = append(c.Rounds, r)
	}
	return c
})

// universe of IPv4 prefixes; index 0 equals the bystander's route.
var c07Universe = []kit.Bits{
	kit.V4(0xc6336400, 24), // 198.51.100.0/24 (bystander announces it too)
	kit.V4(0xc0000200, 24), // 192.0.2.0/24
	kit.V4(0xc0000280, 25), // 192.0.2.128/25
	kit.V4(0x0a640000, 16), // 10.100.0.0/16
	kit.V4(0x0a640100, 24), // 10.100.1.0/24
	kit.V4(0xac100000, 12), // 172.16.0.0/12
	kit.V4(0x08080808, 32), // 8.8.8.8/32
	kit.V4(0x80000000, 1),  // 128.0.0.0/1
}

func c07PfxString(b kit.Bits) string {
	return fmt.Sprintf("%d.%d.%d.%d/%d", b.A[0], b.A[1], b.A[2], b.A[3], b.L)
}

func c07Policy(n int) filter.Chain {
	var acts []actions.Action
	switch n {
	case 0:
		return filter.NewAcceptAllFilterChain()
	case 1:
		acts = append(acts, actions.NewSetLocalPrefAction(250))
	case 2:
		acts = append(acts, actions.NewSetMEDAction(77))
	case 3:
		acts = append(acts, actions.NewASPathPrependAction(64999, 2))
	case 4:
		acts = append(acts, actions.NewSetNextHopAction(bnet.IPv4FromOctets(10, 9, 9, 9).Ptr()))
	}
	acts = append(acts, actions.NewAcceptAction())
	return filter.Chain{filter.NewFilter("c07rewrite", []*filter.Term{filter.NewTerm("t", nil, acts)})}
}

// c07Violation is a failed oracle clause.
type c07Violation struct {
	sig  string
	text string
}

func c07V(sig, format string, args ...interface{}) *c07Violation {
	return &c07Violation{sig: sig, text: fmt.Sprintf(format, args...)}
}

// c07Send delivers an administrative event through the FSM's event channel
// (what peer.stop()/fsm.cease() do), bounded by the rig deadline.
func c07Send(f *FSM, ev int) {
	select {
	case f.eventCh <- ev:
	case <-time.After(c00Deadline):
		panic(c00Inconclusive{"FSM did not take an event from eventCh"})
	}
}

func c07Bounded(what string, fn func()) {
	done := make(chan struct{})
	go func() { defer close(done); fn() }()
	select {
	case <-done:
	case <-time.After(c00Deadline):
		panic(c00Inconclusive{what + " did not return"})
	}
}

// c07Announced extracts the classic IPv4 NLRI of all UPDATEs in stream.
func c07Announced(stream []byte) map[string]bool {
	out := map[string]bool{}
	msgs, _ := kit.SplitStream(stream)
	for _, m := range msgs {
		if len(m) < 23 || m[18] != kit.MsgUpdate {
			continue
		}
		body := m[19:]
		wl := int(body[0])<<8 | int(body[1])
		p := 2 + wl
		if p+2 > len(body) {
			continue
		}
		al := int(body[p])<<8 | int(body[p+1])
		p += 2 + al
		if p > len(body) {
			continue
		}
		nlri := body[p:]
		for len(nlri) > 0 {
			l := int(nlri[0])
			n := (l + 7) / 8
			if l > 32 || 1+n > len(nlri) {
				break
			}
			var a [4]byte
			copy(a[:], nlri[1:1+n])
			out[fmt.Sprintf("%d.%d.%d.%d/%d", a[0], a[1], a[2], a[3], l)] = true
			nlri = nlri[1+n:]
		}
	}
	return out
}

type c07Run struct {
	c        c07Case
	r        *c00Rig
	aIP, bIP bnet.IP
	localAS  uint32
	peerAS   uint32
	bLocalAS uint32
	cluster  uint32
	cfgA     PeerConfig
	markerN  uint32
	fsmsA    []*FSM // every FSM created for the current peer object of A
	ceased   []*FSM
	bConn    *kit.Conn
	bFSM     *FSM
	base4    uint64
	base6    uint64
	initial  map[string]bool // initial advertisement of round 0
	trace    []string
	nontriv  bool
	classes  map[string]bool
}

func (x *c07Run) logf(format string, args ...interface{}) {
	x.trace = append(x.trace, fmt.Sprintf(format, args...))
}

func (x *c07Run) staticPath(nh bnet.IP) *route.Path {
	return &route.Path{Type: route.StaticPathType, StaticPath: &route.StaticPath{NextHop: nh.Ptr()}}
}

// outQuiesce makes the outbound side of an Established session quiescent and
// returns everything announced on conn so far (marker excluded).
func (x *c07Run) outQuiesce(f *FSM, conn *kit.Conn) map[string]bool {
	us := f.ipv4Unicast.updateSender // safe: written in init(), which happened before the barrier completed
	c00WaitFor("update sender queue empty", func() bool {
		us.toSendMu.Lock()
		defer us.toSendMu.Unlock()
		return len(us.toSend) == 0
	})
	x.markerN++
	mp := bnet.NewPfx(bnet.IPv4(0xe9fc0000+x.markerN), 32) // 233.252.0.N/32
	path := x.staticPath(bnet.IPv4FromOctets(10, 0, 0, 253))
	rib := x.r.vrf.IPv4UnicastRIB()
	rib.AddPath(mp.Ptr(), path)
	key := mp.String()
	var ann map[string]bool
	c00WaitFor("marker route on the wire", func() bool {
		ann = c07Announced(conn.Written())
		return ann[key] || conn.Closed()
	})
	rib.RemovePath(mp.Ptr(), path)
	for k := range ann {
		if strings.HasPrefix(k, "233.252.0.") {
			delete(ann, k)
		}
	}
	return ann
}

func (x *c07Run) update(u c07Upd, idx int) []byte {
	w := &kit.WUpdate{}
	for _, i := range u.Wd {
		w.Withdrawn = append(w.Withdrawn, kit.WNLRI{P: c07Universe[i]})
	}
	var asPath []uint32
	if !x.c.IBGP {
		asPath = append(asPath, x.peerAS)
	}
	asPath = append(asPath, 64512+uint32(idx))
	if len(u.Ann) > 0 || u.V6 {
		w.Attrs = []kit.WAttr{kit.AttrOrigin(0), kit.AttrASPath([]kit.WSeg{{Type: 2, ASNs: asPath}}, true), kit.AttrNextHop([4]byte{10, 0, 0, 2})}
		if x.c.IBGP {
			w.Attrs = append(w.Attrs, kit.AttrLocalPref(100+uint32(idx)))
		}
	}
	if u.V6 {
		nh := make([]byte, 16)
		nh[0], nh[1], nh[15] = 0x20, 0x01, 2
		w.Attrs = append(w.Attrs, kit.AttrMPReach(kit.WMP{AFI: 2, SAFI: 1, NextHop: nh, NLRI: []kit.WNLRI{{P: kit.V6(0x20010db800000000+uint64(idx)<<16, 0, 48)}}}, false))
	}
	for _, i := range u.Ann {
		w.NLRI = append(w.NLRI, kit.WNLRI{P: c07Universe[i]})
	}
	return w.Build(kit.WOpts{ASN4: true}, nil)
}

// c07Malformed builds message variant n; the header length always equals the
// number of bytes supplied (so the receiver never waits for more) and stays
// within 19..4096 (lengths outside are C21's subject).
func c07Malformed(n int, peerAS uint32) []byte {
	iv := func(v int) *int { return &v }
	good := &kit.WUpdate{
		Attrs: []kit.WAttr{kit.AttrOrigin(0), kit.AttrASPath([]kit.WSeg{{Type: 2, ASNs: []uint32{peerAS}}}, true), kit.AttrNextHop([4]byte{10, 0, 0, 2}), kit.AttrLocalPref(100)},
		NLRI:  []kit.WNLRI{{P: kit.V4(0xc0a80000, 16)}},
	}
	switch n {
	case 0: // bad marker
		m := kit.Keepalive()
		m[0] = 0
		return m
	case 1: // unknown message type
		m := kit.Keepalive()
		m[18] = 9
		return m
	case 2: // KEEPALIVE with a body
		return kit.Header(kit.MsgKeepalive, []byte{0})
	case 3: // attribute section longer than the message
		return good.Build(kit.WOpts{ASN4: true}, &kit.RawUpdate{AttrLen: iv(200)})
	case 4: // ORIGIN with 2 value bytes
		g := *good
		g.Attrs = append([]kit.WAttr{{Flags: kit.FlTransitive, Type: kit.AtOrigin, Value: []byte{0, 0}}}, good.Attrs[1:]...)
		return g.Build(kit.WOpts{ASN4: true}, nil)
	case 5: // NLRI prefix length 33
		b := good.Build(kit.WOpts{ASN4: true}, nil)
		b = append(b, 33, 1, 2, 3, 4, 5)
		b[16], b[17] = byte(len(b)>>8), byte(len(b))
		return b
	case 6: // withdrawn section longer than the message
		return good.Build(kit.WOpts{ASN4: true}, &kit.RawUpdate{WithdrawnLen: iv(300)})
	case 7: // truncated NLRI
		b := good.Build(kit.WOpts{ASN4: true}, nil)
		b = append(b, 24, 1)
		b[16], b[17] = byte(len(b)>>8), byte(len(b))
		return b
	case 8: // NOTIFICATION too short
		return kit.Header(kit.MsgNotification, []byte{6})
	default: // truncated OPEN
		return kit.Header(kit.MsgOpen, []byte{4, 0xfd, 0xe9})
	}
}

func (x *c07Run) establishA(hold uint16) (*kit.Conn, *FSM) {
	caps := []kit.WCap{kit.CapASN4(x.peerAS)}
	if x.c.V6 && !x.c.V6NoCap {
		caps = append(caps, kit.CapMP(2, 1))
	}
	for try := 0; try < 4; try++ {
		conn, f := x.r.c00Connect(x.aIP)
		x.fsmsA = append(x.fsmsA, f)
		ok, s := x.r.c00Establish(conn, f, c00Open(x.peerAS, 0x0a000002, hold, caps...))
		if ok {
			return conn, f
		}
		// OpenSent has a 1 s hold timer in bio-rd: on a loaded machine the session
		// may time out before the harness sends its OPEN. Try again.
		x.logf("establish attempt %d ended in %s", try, s)
	}
	panic(c00Inconclusive{"session A did not establish in 4 attempts"})
}

// stopLike runs peer.stop()/DisposePeer. They hand ManualStop to every FSM of
// the peer in turn. If the call does not return, the harness confirms a
// permanent block soundly before reporting it: the goroutine of a ceased FSM
// is gone (nobody will ever read its eventCh) and every other FSM of the peer
// accepts a no-op event while the call is still pending (channel senders are
// served first-come-first-served, so the pending call is not waiting on any
// of those). Anything else that exceeds the deadline is inconclusive.
func (x *c07Run) stopLike(what string, fn func()) *c07Violation {
	done := make(chan struct{})
	go func() { defer close(done); fn() }()
	deadline := time.Now().Add(c00Deadline)
	for {
		select {
		case <-done:
			return nil
		case <-time.After(200 * time.Millisecond):
		}
		gone := false
		for _, cf := range x.ceased {
			if c07FSMGone(cf) {
				gone = true
			}
		}
		if gone {
			allLive := true
			for _, lf := range x.fsmsA {
				isCeased := false
				for _, cf := range x.ceased {
					if cf == lf {
						isCeased = true
					}
				}
				if isCeased {
					continue
				}
				select {
				case lf.eventCh <- 0: // ignored by every state
				case <-done:
					return nil
				case <-time.After(5 * time.Second):
					allLive = false
				}
			}
			select {
			case <-done:
				return nil
			default:
			}
			if allLive {
				return c07V("C07/stop-blocked-by-ceased-fsm", "%s never returns: it is parked sending ManualStop to an FSM that was ceased earlier (its goroutine has ended, nobody reads its event channel); the Established session of the peer is never stopped and its routes stay: %v", what, x.r.c00RIBFromPeer(x.aIP, false))
			}
		}
		if time.Now().After(deadline) {
			panic(c00Inconclusive{what + " did not return"})
		}
	}
}

func (x *c07Run) clientCounts() (uint64, uint64) {
	return x.r.vrf.IPv4UnicastRIB().ClientCount(), x.r.vrf.IPv6UnicastRIB().ClientCount()
}

func (x *c07Run) bystanderOK() *c07Violation {
	if !x.c.Bystander {
		return nil
	}
	if s := c00State(x.bFSM); s != stateNameEstablished {
		return c07V("C07/bystander-state", "bystander session is %s after A's exit", s)
	}
	if got := x.r.c00RIBFromPeer(x.bIP, false); len(got) != 1 {
		return c07V("C07/bystander-route", "bystander's route set in the Loc-RIB is %v after A's exit", got)
	}
	return nil
}

// run executes the case; it returns the first violated clause.
func (x *c07Run) run() *c07Violation {
	c := x.c
	x.r = c00NewRig(0x0a000001)
	x.aIP = bnet.IPv4FromOctets(10, 0, 0, 2)
	x.bIP = bnet.IPv4FromOctets(10, 0, 0, 3)
	x.localAS = 65000
	x.peerAS = 65001
	if c.IBGP {
		x.peerAS = 65000
	}
	x.bLocalAS = 65010
	if c.BySameAS {
		x.bLocalAS = x.localAS
	}
	x.cluster = 0x01020304
	rib4 := x.r.vrf.IPv4UnicastRIB()
	rib6 := x.r.vrf.IPv6UnicastRIB()

	staticPfx := bnet.NewPfx(bnet.IPv4FromOctets(203, 0, 113, 0), 24)
	rib4.AddPath(staticPfx.Ptr(), x.staticPath(bnet.IPv4FromOctets(10, 0, 0, 254)))

	local := bnet.IPv4FromOctets(10, 0, 0, 1)
	cfg := x.r.c00PeerCfg(x.aIP, local, x.localAS, x.peerAS)
	cfg.IPv4.ImportFilterChain = c07Policy(c.Policy)
	if c.V6 {
		cfg.IPv6 = &AddressFamilyConfig{
			ImportFilterChain: c07Policy(c.Policy),
			ExportFilterChain: filter.NewAcceptAllFilterChain(),
			AddPathSend:       routingtableBestOnly(),
		}
	}
	if c.RR {
		cfg.RouteReflectorClient = true
		cfg.RouteReflectorClusterID = x.cluster
	}
	if c.FastKA {
		cfg.HoldTime = 60 * time.Millisecond
		cfg.KeepAlive = 20 * time.Millisecond
	}
	x.cfgA = cfg
	if err := x.r.srv.AddPeer(cfg); err != nil {
		panic(err)
	}

	upBystander := func() {
		ok := false
		for try := 0; try < 4 && !ok; try++ {
			x.bConn, x.bFSM = x.r.c00Connect(x.bIP)
			ok, _ = x.r.c00Establish(x.bConn, x.bFSM, c00Open(65002, 0x0a000003, 90, kit.CapASN4(65002)))
		}
		if !ok {
			panic(c00Inconclusive{"bystander did not establish"})
		}
		x.bConn.Feed(c00Update([]uint32{65002}, [4]byte{10, 0, 0, 3}, nil, true, false, kit.WNLRI{P: c07Universe[0]}))
		c00Barrier(x.bConn, x.bFSM)
		if got := x.r.c00RIBFromPeer(x.bIP, false); len(got) != 1 || c00State(x.bFSM) != stateNameEstablished {
			panic(c00Inconclusive{fmt.Sprintf("bystander route not installed: %v", got)})
		}
	}
	if c.Bystander {
		if err := x.r.srv.AddPeer(x.r.c00PeerCfg(x.bIP, local, x.bLocalAS, 65002)); err != nil {
			panic(err)
		}
		defer func() {
			// tidy up (keeps 1 s tick goroutines from piling up over many cases)
			go x.r.srv.DisposePeer(x.r.vrf, x.bIP.Dedup())
		}()
		if !c.ByLate {
			upBystander()
		}
	}
	x.base4, x.base6 = x.clientCounts()

	for ri, rd := range c.Rounds {
		hold := uint16(90)
		if rd.Exit == c07ExitHold {
			hold = 4
		}
		conn, f := x.establishA(hold)
		c00Barrier(conn, f) // Established.run() has passed init()
		if s := c00State(f); s != stateNameEstablished {
			panic(c00Inconclusive{"session A left Established right after establishing: " + s})
		}
		x.logf("round %d established", ri)

		// (re-)establishment starts from empty Adj-RIBs
		if got := x.r.c00RIBFromPeer(x.aIP, false); len(got) != 0 {
			return c07V("C07/restart-locrib", "round %d: Loc-RIB holds routes from A right after establishment: %v", ri, got)
		}
		if n := f.ipv4Unicast.adjRIBIn.RouteCount(); n != 0 {
			return c07V("C07/restart-adjribin", "round %d: new Adj-RIB-In starts with %d routes", ri, n)
		}
		c4, c6 := x.clientCounts()
		want6 := x.base6
		if c.V6 {
			want6++
		}
		if c4 != x.base4+1 || c6 != want6 {
			return c07V("C07/established-clients", "round %d: Loc-RIB client counts while Established are v4=%d v6=%d, want %d/%d", ri, c4, c6, x.base4+1, want6)
		}
		if ri == 0 && c.Bystander && c.ByLate {
			upBystander()
			x.base4++ // the bystander's Adj-RIB-Out (IPv4 only) is a Loc-RIB client from now on
			x.classes["bystander_established_after_A"] = true
		}
		ann := x.outQuiesce(f, conn)
		if s := c00State(f); s != stateNameEstablished {
			panic(c00Inconclusive{"session A left Established during the initial advertisement: " + s})
		}
		if ri == 0 {
			x.initial = ann
			if len(ann) > 0 {
				x.classes["initial_adv_nonempty"] = true
			}
		} else {
			var missing []string
			for k := range x.initial {
				if !ann[k] {
					missing = append(missing, k)
				}
			}
			sort.Strings(missing)
			if len(missing) > 0 {
				return c07V("C07/readvertise", "round %d: re-established session was not sent %v (first session's initial advertisement: %v, this one: %v)", ri, missing, c07Keys(x.initial), c07Keys(ann))
			}
			x.classes["reestablished"] = true
		}

		for ui, u := range rd.Upds {
			conn.Feed(x.update(u, ri*8+ui))
		}
		c00Barrier(conn, f)
		if s := c00State(f); s != stateNameEstablished {
			return c07V("C07/valid-update-teardown", "round %d: well-formed UPDATEs tore the session down (state %s, notifications %v)", ri, s, c00Notifications(conn))
		}
		installed := len(x.r.c00RIBFromPeer(x.aIP, false))
		installed6 := len(x.r.c00RIBFromPeer(x.aIP, true))
		if installed6 > 0 {
			x.classes["v6_installed"] = true
		}
		x.logf("round %d installed v4=%d v6=%d", ri, installed, installed6)

		// ---- exit
		exitName := c07ExitNames[rd.Exit]
		tolerated := false
		if rd.NotifFail {
			conn.SetWriteFault(func(b []byte) error {
				if len(b) >= 19 && b[18] == kit.MsgNotification {
					return errors.New("c07: connection reset by peer")
				}
				return nil
			})
			x.classes["notification_write_fails_"+exitName] = true
		}
		switch rd.Exit {
		case c07ExitNotification:
			conn.Feed(kit.Notification(6, 2, nil))
		case c07ExitHold:
			// nothing: the peer stays silent
		case c07ExitKeepaliveFail:
			conn.SetWriteError(errors.New("c07: broken pipe"))
		case c07ExitMalformed:
			conn.Feed(c07Malformed(rd.Mal, x.peerAS))
			c00Barrier(conn, f) // valid: every variant is message-aligned (header length == bytes supplied)
			c07Send(f, 0)       // belt and braces: a no-op event is only taken from a state's select loop
			if c00State(f) == stateNameEstablished {
				// bio-rd tolerates this message; leave by NOTIFICATION instead
				tolerated = true
				x.classes[fmt.Sprintf("malformed_tolerated#%d", rd.Mal)] = true
				conn.Feed(kit.Notification(6, 2, nil))
			} else {
				x.classes[fmt.Sprintf("malformed_rejected#%d", rd.Mal)] = true
			}
		case c07ExitUnexpectedOpen:
			conn.Feed(c00Open(x.peerAS, 0x0a000002, 90, kit.CapASN4(x.peerAS)))
		case c07ExitPeerStop:
			p := x.r.c00Peer(x.aIP)
			if v := x.stopLike("peer.stop()", p.stop); v != nil {
				return v
			}
		case c07ExitDispose:
			if v := x.stopLike("DisposePeer", func() { x.r.srv.DisposePeer(x.r.vrf, x.aIP.Dedup()) }); v != nil {
				return v
			}
			x.fsmsA, x.ceased = nil, nil
		case c07ExitAutomaticStop:
			c07Send(f, AutomaticStop)
		case c07ExitCease:
			c07Send(f, Cease)
			x.ceased = append(x.ceased, f)
		}
		if rd.Exit == c07ExitCease {
			// the FSM goroutine ends without publishing a state; cease() closes the
			// connection as its last step
			c00WaitFor("FSM goroutine ended after Cease", func() bool { return conn.Closed() || c07FSMGone(f) })
		} else {
			c00WaitState(f, stateNameIdle)
		}
		x.logf("round %d left via %s", ri, exitName)
		x.classes["exit_"+exitName] = true
		if installed > 0 {
			x.classes["exit_with_routes_"+exitName] = true
		}
		if rd.Exit != c07ExitNotification && !tolerated && installed+installed6 > 0 {
			x.nontriv = true
		}

		// ---- oracle after the exit
		where := fmt.Sprintf("round %d after exit %s", ri, exitName)
		if rd.Exit == c07ExitMalformed {
			where += fmt.Sprintf("#%d", rd.Mal)
		}
		if got := x.r.c00RIBFromPeer(x.aIP, false); len(got) != 0 {
			return c07V("C07/routes-stay:"+exitName, "%s: Loc-RIB still holds routes learned from A: %v", where, got)
		}
		if got := x.r.c00RIBFromPeer(x.aIP, true); len(got) != 0 {
			return c07V("C07/routes-stay6:"+exitName, "%s: IPv6 Loc-RIB still holds routes learned from A: %v", where, got)
		}
		c4, c6 = x.clientCounts()
		if c4 != x.base4 || c6 != x.base6 {
			return c07V("C07/adjribout-registered:"+exitName, "%s: Loc-RIB client counts v4=%d v6=%d, baseline %d/%d (Adj-RIB-Out still registered)", where, c4, c6, x.base4, x.base6)
		}
		wantASN := c.Bystander && c.BySameAS
		if got := x.r.vrf.IsContributingASN(x.localAS); got != wantASN {
			return c07V("C07/contributing-asn:"+exitName, "%s: IsContributingASN(%d) = %v, want %v", where, x.localAS, got, wantASN)
		}
		if c.Bystander && !x.r.vrf.IsContributingASN(x.bLocalAS) {
			return c07V("C07/bystander-asn:"+exitName, "%s: the local AS %d of the bystander session (still Established) no longer contributes to the VRF's loop detection", where, x.bLocalAS)
		}
		if c.RR && x.r.vrf.IsContributingClusterID(x.cluster) {
			return c07V("C07/contributing-cluster:"+exitName, "%s: IsContributingClusterID(%#x) still true", where, x.cluster)
		}
		before := len(conn.Written())
		x.markerN++
		mp := bnet.NewPfx(bnet.IPv4(0xe9fc0000+x.markerN), 32)
		mpath := x.staticPath(bnet.IPv4FromOctets(10, 0, 0, 253))
		rib4.AddPath(mp.Ptr(), mpath)
		rib4.RemovePath(mp.Ptr(), mpath)
		if after := len(conn.Written()); after != before {
			return c07V("C07/old-conn-written:"+exitName, "%s: a later Loc-RIB change wrote %d bytes to the old connection", where, after-before)
		}
		if v := x.bystanderOK(); v != nil {
			v.text = where + ": " + v.text
			return v
		}
		_ = rib6

		if rd.Exit == c07ExitDispose && ri+1 < len(c.Rounds) {
			// configuration reload path: DisposePeer followed by AddPeer
			if err := x.r.srv.AddPeer(x.cfgA); err != nil {
				panic(err)
			}
		}
	}
	return nil
}

var c07StackMu sync.Mutex

// c07FSMGone reports whether no goroutine runs (*FSM).run for f any more
// (the receiver pointer is printed in the frame's argument list).
func c07FSMGone(f *FSM) bool {
	c07StackMu.Lock()
	defer c07StackMu.Unlock()
	buf := make([]byte, 1<<20)
	for {
		n := runtime.Stack(buf, true)
		if n < len(buf) {
			buf = buf[:n]
			break
		}
		buf = make([]byte, 2*len(buf))
	}
	return !strings.Contains(string(buf), fmt.Sprintf("server.(*FSM).run(%p", f))
}

func c07Keys(m map[string]bool) []string {
	var out []string
	for k := range m {
		out = append(out, k)
	}
	sort.Strings(out)
	return out
}

type c07Result struct {
	idx          int
	c            c07Case
	v            *c07Violation
	inconclusive string
	nontriv      bool
	classes      map[string]bool
	trace        []string
}

func c07RunCase(idx int, c c07Case) (res c07Result) {
	res.idx, res.c = idx, c
	x := &c07Run{c: c, classes: map[string]bool{}}
	defer func() {
		res.nontriv, res.classes, res.trace = x.nontriv, x.classes, x.trace
		if r := recover(); r != nil {
			if e, ok := r.(c00Inconclusive); ok {
				res.inconclusive = e.what
				return
			}
			panic(r)
		}
	}()
	res.v = x.run()
	return
}

// c07Drive runs n generated cases with `par` of them in flight.
func c07Drive(t *testing.T, rec *kit.Recorder, n, par int, gen func(i int) c07Case) {
	only := -1
	if s := os.Getenv("VERIF_C07_CASE"); s != "" {
		only, _ = strconv.Atoi(s)
	}
	jobs := make(chan int)
	results := make(chan c07Result)
	var wg sync.WaitGroup
	for w := 0; w < par; w++ {
		wg.Add(1)
		go func() {
			defer wg.Done()
			for i := range jobs {
				c := gen(i)
				c00Journal("C07 case %d: %s", i, c)
				results <- c07RunCase(i, c)
			}
		}()
	}
	go func() {
		for i := 0; i < n; i++ {
			if only >= 0 && i != only {
				continue
			}
			jobs <- i
		}
		close(jobs)
		wg.Wait()
		close(results)
	}()
	total, inconcl, viol := 0, 0, 0
	for res := range results {
		total++
		ec := rec.Case()
		ec.Logf("%s", res.c)
		for k := range res.classes {
			ec.Class(k)
		}
		ec.ClassIf(res.c.IBGP, "ibgp")
		ec.ClassIf(!res.c.IBGP, "ebgp")
		ec.ClassIf(res.c.RR, "rr_client")
		ec.ClassIf(res.c.V6, "v6_configured")
		ec.ClassIf(res.c.Policy != 0, "rewriting_policy")
		ec.ClassIf(res.c.Bystander, "bystander")
		ec.Class(fmt.Sprintf("rounds_%d", len(res.c.Rounds)))
		ec.NonTrivialIf(res.nontriv)
		if res.inconclusive != "" {
			inconcl++
			ec.Class("inconclusive")
			t.Logf("case %d inconclusive: %s [%s] trace=%v", res.idx, res.inconclusive, res.c, res.trace)
		}
		if res.v != nil {
			if rec.Known(res.v.sig) {
				ec.Class("known_finding")
			} else {
				viol++
				if viol <= 5 {
					t.Errorf("C07 violated (sig %s) in case %d (replay: VERIF_C07_CASE=%d with the same seed/tier):\n  %s\n  case: %s\n  trace: %v", res.v.sig, res.idx, res.idx, res.v.text, res.c, res.trace)
				}
			}
		}
		ec.Done()
	}
	if viol == 0 && inconcl > 2 && inconcl*20 > total {
		rec.Flush()
		fmt.Printf("C07 INCONCLUSIVE: %d of %d cases hit a real-time deadline\n", inconcl, total)
		os.Exit(2)
	}
}

func TestVerifC07Leave(t *testing.T) {
	rec := kit.NewRecorder(t, "C07", c07Rule)
	n := kit.Scale(320, 300)
	par := kit.Scale(16, 4)
	seed := int(kit.Seed() % 1000000)
	c07Drive(t, rec, n, par, func(i int) c07Case { return c07Gen.Example(seed*4096 + i) })
}

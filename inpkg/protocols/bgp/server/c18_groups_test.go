//go:build verif

package server

// C18, several attribute groups in one queue: the update sender merges queued
// prefixes by a hash of their attributes. Two groups whose attribute sets
// differ in exactly one attribute are queued together (interleaved) and
// flushed; every prefix has to be announced exactly once, with the attributes
// the Adj-RIB-Out holds for THAT prefix.

import (
	"fmt"
	"sync/atomic"
	"testing"
	"time"

	"github.com/bio-routing/bio-rd/protocols/bgp/types"
	"pgregory.net/rapid"
	kit "verifkit"
)

const c18gRule = "session (IPv4 / MP-IPv6 / MP-IPv4 x iBGP / RR-client / eBGP / RS-client x add-path x 4-octet ASN) x attribute set A (small C10 generator) x B = A with exactly one attribute changed (origin, MED, LOCAL_PREF, next hop, ATOMIC_AGGREGATE, AGGREGATOR presence / ASN / address, one community, community order, one large community, unknown attribute value / type / partial bit / presence, ORIGINATOR_ID, CLUSTER_LIST, one ASN, segment type, segment split) x 2..30 prefixes dealt to A and B in a generated order, one flush (sender loop in either order or End-of-RIB). Non-trivial: the advertised forms of A and B differ on this session and both groups have a prefix."

var c18gModes = []string{"origin", "med", "lp", "nh", "atomic", "aggr_presence", "aggr_asn", "aggr_addr", "comm_value", "comm_order", "lcomm_value", "unk_value", "unk_type", "unk_partial", "unk_presence", "originator", "cluster", "asn", "seg_type", "seg_split"}

// c18gTwin changes one attribute; ok=false when the mode does not apply to a.
func c18gTwin(a c10Attrs, s c10Sess, mode string) (c10Attrs, bool) {
	b := a
	b.segs = nil
	for _, sg := range a.segs {
		b.segs = append(b.segs, types.ASPathSegment{Type: sg.Type, ASNs: append([]uint32{}, sg.ASNs...)})
	}
	b.comms = append([]uint32{}, a.comms...)
	b.lcomms = append([][3]uint32{}, a.lcomms...)
	b.unknown = nil
	for _, u := range a.unknown {
		u.Value = append([]byte{}, u.Value...)
		b.unknown = append(b.unknown, u)
	}
	if a.aggr != nil {
		ag := *a.aggr
		b.aggr = &ag
	}
	switch mode {
	case "origin":
		b.origin = (a.origin + 1) % 3
	case "med":
		b.med = a.med + 1
	case "lp":
		b.localPref = a.localPref + 10
	case "nh":
		b.nh = a.nh ^ 1
	case "atomic":
		b.atomic = !a.atomic
	case "aggr_presence":
		if s.asn4 {
			return b, false // C17 finding aggregator-2octet-on-asn4-session
		}
		if a.aggr == nil {
			b.aggr = &types.Aggregator{ASN: 64501, Address: 0xc0000202}
		} else {
			b.aggr = nil
		}
	case "aggr_asn":
		if a.aggr == nil {
			return b, false
		}
		b.aggr.ASN = a.aggr.ASN + 1
	case "aggr_addr":
		if a.aggr == nil {
			return b, false
		}
		b.aggr.Address = a.aggr.Address ^ 0x100
	case "comm_value":
		if len(a.comms) == 0 {
			return b, false
		}
		b.comms[len(b.comms)-1] ^= 0x10
	case "comm_order":
		if len(a.comms) < 2 || a.comms[0] == a.comms[1] {
			return b, false
		}
		b.comms[0], b.comms[1] = b.comms[1], b.comms[0]
	case "lcomm_value":
		if len(a.lcomms) == 0 {
			return b, false
		}
		b.lcomms[0][2] ^= 0x10
	case "unk_value":
		if len(a.unknown) == 0 || len(a.unknown[0].Value) == 0 {
			return b, false
		}
		b.unknown[0].Value[0] ^= 0x80
	case "unk_type":
		if len(a.unknown) == 0 {
			return b, false
		}
		b.unknown[0].TypeCode++
	case "unk_partial":
		if len(a.unknown) == 0 {
			return b, false
		}
		b.unknown[0].Partial = !a.unknown[0].Partial
	case "unk_presence":
		if len(a.unknown) == 0 {
			b.unknown = []types.UnknownPathAttribute{{Optional: true, Transitive: true, TypeCode: 201, Value: []byte{9}}}
		} else {
			b.unknown = nil
		}
	case "originator":
		if !s.rrClient() || a.ebgp {
			return b, false
		}
		b.originator = a.originator + 1
	case "cluster":
		if !s.rrClient() || a.ebgp {
			return b, false
		}
		b.cluster = append(append([]uint32{}, a.cluster...), 77)
	case "asn":
		if len(a.segs) == 0 {
			return b, false
		}
		l := len(b.segs) - 1
		b.segs[l].ASNs[len(b.segs[l].ASNs)-1] ^= 1
	case "seg_type":
		if len(a.segs) == 0 {
			return b, false
		}
		l := len(b.segs) - 1
		b.segs[l].Type = types.ASSet + types.ASSequence - a.segs[l].Type
	case "seg_split":
		l := len(a.segs) - 1
		if l < 0 || len(a.segs[l].ASNs) < 2 {
			return b, false
		}
		last := a.segs[l]
		b.segs[l] = types.ASPathSegment{Type: last.Type, ASNs: append([]uint32{}, last.ASNs[:1]...)}
		b.segs = append(b.segs, types.ASPathSegment{Type: last.Type, ASNs: append([]uint32{}, last.ASNs[1:]...)})
	}
	return b, true
}

func TestVerifC18Groups(t *testing.T) {
	c10InstallLogger()
	rec := kit.NewRecorder(t, "C18", c18gRule)
	rapid.Check(t, func(t *rapid.T) {
		c := rec.Case()
		defer c.Done()
		s := c10Sess{
			fam:     rapid.SampledFrom([]int{c10FamV4, c10FamV4, c10FamV6, c10FamV6, c10FamV4MP}).Draw(t, "fam"),
			kind:    rapid.IntRange(0, 3).Draw(t, "kind"),
			addPath: rapid.Bool().Draw(t, "addpath"),
			asn4:    rapid.IntRange(0, 2).Draw(t, "asn4") != 0,
		}
		a := c10GenSmallAttrs(t, s, 0)
		if !s.asn4 && a.aggr == nil && rapid.Bool().Draw(t, "force_aggr") {
			a.aggr = &types.Aggregator{ASN: 64500, Address: 0xc0000201}
		}
		mode := rapid.SampledFrom(c18gModes).Draw(t, "twin_mode")
		b, ok := c18gTwin(a, s, mode)
		if !ok {
			mode = rapid.SampledFrom([]string{"origin", "med", "atomic", "unk_presence"}).Draw(t, "twin_fallback")
			b, _ = c18gTwin(a, s, mode)
		}
		groups := []c10Attrs{a, b}
		n := rapid.IntRange(2, 30).Draw(t, "npfx")
		pfxs := c18Prefixes(s.width(), n, rapid.Uint64().Draw(t, "pfx_seed"), rapid.IntRange(0, 3).Draw(t, "len_mode"))
		flush := rapid.SampledFrom([]string{"sender-loop", "sender-loop-reverse", "end-of-rib"}).Draw(t, "flush")
		c.Logf("session %v", s)
		c.Logf("group A %v", a)
		c.Logf("group B %v (A with %s changed)", b, mode)

		c10Log.take()
		rig := c10NewRig(s)
		member := map[kit.Bits]int{}
		cnt := [2]int{}
		for _, p := range pfxs {
			g := rapid.IntRange(0, 1).Draw(t, "group")
			member[p] = g
			cnt[g]++
			if err := rig.rib.AddPath(c10Pfx(p), groups[g].path(s)); err != nil {
				t.Fatalf("C18 harness: AdjRIBOut.AddPath(%v): %v", p, err)
			}
		}
		wantView := map[kit.Bits]string{}
		wantID := map[kit.Bits]uint32{}
		views := [2]string{}
		for _, rt := range rig.rib.Dump() {
			ps := rt.Paths()
			if len(ps) != 1 {
				t.Fatalf("C18 harness precondition: %d paths for %v in the Adj-RIB-Out", len(ps), rt.Prefix())
			}
			k := c10Bits(rt.Prefix())
			wantView[k] = c10PathView(ps[0], s)
			views[member[k]] = wantView[k]
			if s.addPath {
				wantID[k] = ps[0].BGPPath.PathIdentifier
			}
		}
		exported := len(wantView)
		switch flush {
		case "sender-loop":
			rig.flushAll(false)
		case "sender-loop-reverse":
			rig.flushAll(true)
		case "end-of-rib":
			rig.rib.EndOfRIB()
		}
		peer := c10NewPeer(s)
		seen := map[kit.Bits]int{}
		var bad string
		msg := peer.consume(rig.conn.TakeWritten(), func(k c10Key, view string) {
			if bad != "" {
				return
			}
			w, ok := wantView[k.p]
			switch {
			case !ok:
				bad = fmt.Sprintf("announced %v which the Adj-RIB-Out does not hold", k)
			case wantID[k.p] != k.id:
				bad = fmt.Sprintf("announced %v, the Adj-RIB-Out holds that prefix with path id %d", k, wantID[k.p])
			case w != view:
				bad = fmt.Sprintf("%v (group %c) announced with attributes\n    [%s]\n  the Adj-RIB-Out holds it with\n    [%s]", k, 'A'+rune(member[k.p]), c18Short(view), c18Short(w))
			}
			seen[k.p]++
		})
		diag := fmt.Sprintf("session %v\n  group A %v\n  group B %v (%s changed)\n  %d prefixes (A %d, B %d), flush %s; sender log: %v", s, a, b, mode, len(pfxs), cnt[0], cnt[1], flush, c10Log.take())
		if msg != "" {
			t.Fatalf("C18/groups: %s\n%s", msg, diag)
		}
		if bad != "" {
			t.Fatalf("C18/groups: %s\n%s", bad, diag)
		}
		for p := range wantView {
			if seen[p] != 1 {
				t.Fatalf("C18/groups: %v was announced %d times\n%s", p, seen[p], diag)
			}
		}
		if len(peer.table) != exported {
			t.Fatalf("C18/groups: peer holds %d routes after the flush, the Adj-RIB-Out %d\n%s", len(peer.table), exported, diag)
		}
		differ := cnt[0] > 0 && cnt[1] > 0 && views[0] != "" && views[1] != "" && views[0] != views[1]
		c.NonTrivialIf(differ)
		c.Class("twin_" + mode)
		c.ClassIf(differ, "forms_differ_"+mode)
		c.ClassIf(s.addPath, "addpath")
	})
}

// C18 with the real sender goroutine: a second batch of prefixes WITH THE SAME ATTRIBUTES is queued while the
// sender is in the middle of writing the first batch (its first Write is parked on a harness gate). Once both
// have returned and the queue is empty every prefix of both batches must have been announced exactly once.
func TestVerifC18GatedSecondBatch(t *testing.T) {
	c10InstallLogger()
	rec := kit.NewRecorder(t, "C18", c18gRule+" [gated mode: one attribute set, batch A (1..20 prefixes) queued, real sender goroutine (1 ms aggregation) parked in its first Write, batch B (1..20 further prefixes, same attributes) added by another goroutine meanwhile. Non-trivial: the gate was reached]")
	unjudged := 0
	rapid.Check(t, func(t *rapid.T) {
		c := rec.Case()
		defer c.Done()
		c10Log.take()
		s := c10Sess{
			fam:     rapid.SampledFrom([]int{c10FamV4, c10FamV4, c10FamV6, c10FamV6, c10FamV4MP}).Draw(t, "fam"),
			kind:    rapid.IntRange(0, 3).Draw(t, "kind"),
			addPath: rapid.Bool().Draw(t, "addpath"),
			asn4:    rapid.IntRange(0, 2).Draw(t, "asn4") != 0,
		}
		a := c10GenSmallAttrs(t, s, 0)
		nA := rapid.IntRange(1, 20).Draw(t, "nA")
		nB := rapid.IntRange(1, 20).Draw(t, "nB")
		pfxs := c18Prefixes(s.width(), nA+nB, rapid.Uint64().Draw(t, "pfx_seed"), rapid.IntRange(0, 3).Draw(t, "len_mode"))
		if len(pfxs) < nA+nB {
			nA, nB = len(pfxs)/2, len(pfxs)-len(pfxs)/2
			if nA == 0 {
				return
			}
		}
		c.Logf("session %v attrs %v batch A %d prefixes, batch B %d prefixes", s, a, nA, nB)
		rig := c10NewRig(s)
		gate := &c10GateConn{Conn: rig.conn, reached: make(chan struct{}), release: make(chan struct{})}
		rig.fsm.con = gate
		for _, p := range pfxs[:nA] {
			rig.rib.AddPath(c10Pfx(p), a.path(s))
		}
		if rig.queueLen() == 0 {
			c.Class("attribute_set_not_exported_on_this_session")
			return
		}
		atomic.StoreInt32(&gate.armed, 1)
		rig.us.Start(time.Millisecond)
		select {
		case <-gate.reached:
			c.Class("gate_reached")
		case <-time.After(5 * time.Second):
			rig.us.Destroy()
			unjudged++
			c.Class("gated_unjudged")
			return
		}
		done := make(chan struct{})
		go func() {
			defer close(done)
			for _, p := range pfxs[nA:] {
				rig.rib.AddPath(c10Pfx(p), a.path(s))
			}
		}()
		select { // sensitivity only
		case <-done:
			c.Class("second_batch_queued_during_the_write")
		case <-time.After(10 * time.Millisecond):
			c.Class("second_batch_waited_for_the_write")
		}
		close(gate.release)
		select {
		case <-done:
		case <-time.After(10 * time.Second):
			unjudged++
			c.Class("gated_unjudged")
			return
		}
		deadline := time.Now().Add(5 * time.Second)
		for rig.queueLen() > 0 {
			if time.Now().After(deadline) {
				rig.us.Destroy()
				unjudged++
				c.Class("gated_unjudged")
				return
			}
			time.Sleep(200 * time.Microsecond)
		}
		rig.us.Destroy() // returns when the sender goroutine has finished its current round
		c.NonTrivial()
		want := map[kit.Bits]string{}
		for _, rt := range rig.rib.Dump() {
			want[c10Bits(rt.Prefix())] = c10PathView(rt.Paths()[0], s)
		}
		peer := c10NewPeer(s)
		seen := map[kit.Bits]int{}
		var bad string
		if msg := peer.consume(rig.conn.TakeWritten(), func(k c10Key, view string) {
			seen[k.p]++
			if w, ok := want[k.p]; bad == "" && (!ok || w != view) {
				bad = fmt.Sprintf("%v announced with [%s], the Adj-RIB-Out holds [%s]", k, c18Short(view), c18Short(w))
			}
		}); msg != "" {
			t.Fatalf("C18/gated %v: %s", s, msg)
		}
		if bad != "" {
			t.Fatalf("C18/gated %v: %s", s, bad)
		}
		lost, twice := 0, 0
		var ex kit.Bits
		for p := range want {
			switch {
			case seen[p] == 0:
				lost++
				ex = p
			case seen[p] > 1:
				twice++
				ex = p
			}
		}
		if lost > 0 || twice > 0 {
			t.Fatalf("C18/gated %v attrs %v: of %d+%d prefixes queued in two batches (the second while the sender was writing the first) %d were never announced and %d more than once (e.g. %v); sender log: %v", s, a, nA, nB, lost, twice, ex, c10Log.take())
		}
	})
	if unjudged > 0 {
		t.Logf("C18/gated: %d cases unjudged (a real-time deadline passed)", unjudged)
	}
}

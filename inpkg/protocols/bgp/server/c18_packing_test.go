//go:build verif

package server

// C18 — UPDATE packing is lossless and respects the 4096-byte limit.
//
// One attribute set, n distinct prefixes: every prefix is handed to the real
// AdjRIBOut (which rewrites the path for the session kind and hands it to the
// real UpdateSender, as in fsmAddressFamily.init()); then the queue is flushed
// by the sender loop body or by EndOfRIB. The captured bytes are parsed with
// the kit's strict parser. Oracle: every message is a well-formed UPDATE of at
// most 4096 bytes; the announced NLRI are exactly the queued prefixes, each
// once, with the path id of the Adj-RIB-Out; every announcement carries the
// attributes of the Adj-RIB-Out path; nothing is withdrawn.
//
// Shares the rig of c10_rig_test.go (both configs use files_for C10+C18).

import (
	"fmt"
	"testing"

	"github.com/bio-routing/bio-rd/protocols/bgp/types"
	"pgregory.net/rapid"
	kit "verifkit"
)

const c18Rule = "case = session (IPv4 / MP-IPv6 / MP-IPv4 x iBGP / RR-client / eBGP / RS-client x add-path x 4-octet ASN) + one attribute set whose wire size is swept from ~20 bytes to the largest size that still leaves room for one NLRI (AS path segments up to 255 ASNs, communities and large communities across the extended-length boundary, unknown attributes, CLUSTER_LIST, ORIGINATOR_ID, AGGREGATOR, ATOMIC_AGGREGATE, MED) + n <= 3000 distinct prefixes of fixed or mixed lengths, n chosen around 0.3-4x the per-message NLRI budget so that the budget boundary falls at every alignment. Non-trivial: at least 2 UPDATEs with announcements were emitted."

func c18Mix(x uint64) uint64 {
	x += 0x9e3779b97f4a7c15
	x = (x ^ (x >> 30)) * 0xbf58476d1ce4e5b9
	x = (x ^ (x >> 27)) * 0x94d049bb133111eb
	return x ^ (x >> 31)
}

// c18Prefixes expands a rapid-drawn seed into n distinct canonical prefixes.
func c18Prefixes(w, n int, seed uint64, lenMode int) []kit.Bits {
	var lens []int
	switch {
	case w == 32 && lenMode == 0:
		lens = []int{32}
	case w == 32 && lenMode == 1:
		lens = []int{24}
	case w == 32 && lenMode == 2:
		lens = []int{8, 9, 15, 16, 17, 22, 23, 24, 25, 30, 31, 32}
	case w == 32:
		for l := 10; l <= 32; l++ {
			lens = append(lens, l)
		}
	case lenMode == 0:
		lens = []int{128}
	case lenMode == 1:
		lens = []int{48}
	case lenMode == 2:
		lens = []int{16, 24, 25, 32, 33, 47, 48, 49, 56, 63, 64, 65, 96, 120, 127, 128}
	default:
		for l := 12; l <= 128; l++ {
			lens = append(lens, l)
		}
	}
	seen := map[kit.Bits]bool{}
	out := make([]kit.Bits, 0, n)
	for i := uint64(0); len(out) < n && i < uint64(8*n+64); i++ {
		r := c18Mix(seed ^ c18Mix(i))
		l := lens[int(r>>40)%len(lens)]
		var b kit.Bits
		if w == 32 {
			b = kit.V4(uint32(c18Mix(r)), l)
		} else {
			b = kit.V6(c18Mix(r), c18Mix(r+1), l)
		}
		b = b.Canon()
		if !seen[b] {
			seen[b] = true
			out = append(out, b)
		}
	}
	return out
}

// c18AttrLimit is the largest attribute block (bytes, as the session will
// serialize it) that still leaves room for one NLRI of maximal size.
func c18AttrLimit(s c10Sess) int {
	nlri := 1 + s.width()/8
	if s.addPath {
		nlri += 4
	}
	return 4096 - 19 - 4 - nlri
}

// c18GenAttrs draws an attribute set whose serialized size (after the
// session's rewrite) stays <= c18AttrLimit. Sizes are computed from the RFC
// encodings, not with bio-rd code.
func c18GenAttrs(t *rapid.T, s c10Sess, reserve int) (c10Attrs, int) {
	a := c10Attrs{
		src: 10, nh: 20, ebgp: true,
		localPref: rapid.SampledFrom([]uint32{0, 100, 4294967295}).Draw(t, "lp"),
		med:       rapid.SampledFrom([]uint32{0, 0, 7}).Draw(t, "med"),
		origin:    uint8(rapid.IntRange(0, 2).Draw(t, "origin")),
	}
	asnSize := 2
	if s.asn4 {
		asnSize = 4
	}
	// fixed part, upper bounds: ORIGIN 4, NEXT_HOP 7 or MP_REACH header (4 + AFI/SAFI/nhlen 4 + next hop + reserved 1),
	// MED 7, LOCAL_PREF 7, AS_PATH header 4 + room for a prepended ASN in a new segment (2 + asn)
	size := 4 + 7 + 4 + 2 + asnSize
	if s.mp() {
		size += 4 + 4 + s.width()/8 + 1
	} else {
		size += 7
	}
	if s.iBGP() {
		size += 7
	}
	if s.rrClient() {
		// ORIGINATOR_ID 7, CLUSTER_LIST header 3 + our cluster id 4
		size += 7 + 3 + 4
		if rapid.IntRange(0, 2).Draw(t, "ibgp_learned") == 0 {
			a.ebgp = false
			a.originator = rapid.SampledFrom([]uint32{0, 9}).Draw(t, "originator")
			if k := rapid.SampledFrom([]int{0, 0, 1, 3, 30, 62}).Draw(t, "ncluster"); k > 0 {
				for i := 0; i < k; i++ {
					a.cluster = append(a.cluster, uint32(0x0a010000+i))
				}
				size += 4 * k
			}
		}
	}
	// "dense": many small attributes / segments whose headers dominate (where a size estimate that
	// counts payload only is furthest off)
	dense := rapid.IntRange(0, 2).Draw(t, "dense") == 0
	if dense || rapid.IntRange(0, 2).Draw(t, "atomic") == 0 {
		a.atomic = true
		size += 3
	}
	if !s.asn4 && (dense || rapid.IntRange(0, 2).Draw(t, "aggr") == 0) {
		a.aggr = &types.Aggregator{ASN: 64500, Address: 0xc0000201}
		size += 9
	}
	if dense {
		for i, k := 0, rapid.IntRange(3, 12).Draw(t, "dense_segs"); i < k; i++ {
			sg := types.ASPathSegment{Type: types.ASSequence, ASNs: []uint32{uint32(64000 + i)}}
			if i%2 == 1 {
				sg.Type = types.ASSet
			}
			a.segs = append(a.segs, sg)
			size += 2 + asnSize
		}
	}
	limit := c18AttrLimit(s) - reserve
	size += reserve
	var target int
	switch rapid.IntRange(0, 5).Draw(t, "size_class") {
	case 0:
		target = size + rapid.IntRange(0, 60).Draw(t, "target_small")
	case 1, 2:
		target = rapid.IntRange(size, 3000).Draw(t, "target_mid")
	case 3:
		target = rapid.IntRange(2500, limit).Draw(t, "target_high")
	case 4:
		target = limit - rapid.IntRange(0, 96).Draw(t, "target_near_limit")
	default:
		// around the 255/256 extended-length boundary of one attribute
		target = size + 240 + rapid.IntRange(0, 40).Draw(t, "target_ext")
	}
	if target > limit {
		target = limit
	}
	firstSegMax := 255
	if s.kind == c10KindEBGP {
		firstSegMax = 254 // the session prepends its own ASN to the first AS_SEQUENCE
	}
	nUnknown := 0
	haveComms, haveLComms := false, false
	for try := 0; try < 14 && target-size > 12; try++ {
		rem := target - size
		switch rapid.IntRange(0, 3).Draw(t, "component") {
		case 0: // one more AS path segment
			max := (rem - 2) / asnSize
			if max < 1 || len(a.segs) >= 16 {
				continue
			}
			lim := 255
			if len(a.segs) == 0 {
				lim = firstSegMax
			}
			if max > lim {
				max = lim
			}
			k := rapid.IntRange(1, max).Draw(t, "seg_asns")
			if rapid.IntRange(0, 2).Draw(t, "seg_full") == 0 {
				k = max
			}
			sg := types.ASPathSegment{Type: types.ASSequence}
			if len(a.segs) > 0 && rapid.IntRange(0, 3).Draw(t, "seg_set") == 0 {
				sg.Type = types.ASSet
			}
			for i := 0; i < k; i++ {
				sg.ASNs = append(sg.ASNs, uint32(64000+(i+len(a.segs)*7)%1500))
			}
			a.segs = append(a.segs, sg)
			size += 2 + k*asnSize
		case 1: // communities (one attribute; 4-byte header assumed)
			hdr := 0
			if !haveComms {
				hdr = 4
			}
			max := (rem - hdr) / 4
			if max < 1 {
				continue
			}
			if max > 600 {
				max = 600
			}
			k := rapid.IntRange(1, max).Draw(t, "ncomm")
			if rapid.IntRange(0, 3).Draw(t, "comm_ext_boundary") == 0 && max >= 66 {
				k = rapid.IntRange(62, 66).Draw(t, "ncomm_boundary")
			}
			for i := 0; i < k; i++ {
				a.comms = append(a.comms, 64500<<16|uint32(len(a.comms)+1))
			}
			haveComms = true
			size += hdr + 4*k
		case 2: // large communities
			hdr := 0
			if !haveLComms {
				hdr = 4
			}
			max := (rem - hdr) / 12
			if max < 1 {
				continue
			}
			if max > 200 {
				max = 200
			}
			k := rapid.IntRange(1, max).Draw(t, "nlcomm")
			if rapid.IntRange(0, 3).Draw(t, "lcomm_ext_boundary") == 0 && max >= 23 {
				k = rapid.IntRange(20, 23).Draw(t, "nlcomm_boundary")
			}
			for i := 0; i < k; i++ {
				a.lcomms = append(a.lcomms, [3]uint32{64500, 1, uint32(len(a.lcomms) + 1)})
			}
			haveLComms = true
			size += hdr + 12*k
		case 3: // one more unknown optional transitive attribute (<= 255 bytes of value, see C17)
			if nUnknown >= 8 || rem < 3 {
				continue
			}
			max := rem - 3
			if max > 255 {
				max = 255
			}
			k := rapid.IntRange(0, max).Draw(t, "unk_len")
			v := make([]byte, k)
			for i := range v {
				v[i] = byte(i + nUnknown)
			}
			a.unknown = append(a.unknown, types.UnknownPathAttribute{Optional: true, Transitive: true, TypeCode: uint8(100 + nUnknown), Value: v})
			nUnknown++
			size += 3 + k
		}
	}
	return a, size
}

func c18Bucket(n int, edges []int, name string) string {
	for _, e := range edges {
		if n <= e {
			return fmt.Sprintf("%s<=%d", name, e)
		}
	}
	return fmt.Sprintf("%s>%d", name, edges[len(edges)-1])
}

// c18TB is satisfied by *testing.T and *rapid.T.
type c18TB interface {
	Fatalf(format string, args ...interface{})
}

// c18Result is what one flush produced.
type c18Result struct {
	annMsgs int
	maxLen  int
}

// c18RunOne queues attrs a for all prefixes on a fresh session, flushes and judges the stream.
// c18InjectConn models the session's other writer: the FSM goroutine sends its KEEPALIVEs on the same connection
// at any time, i.e. between any two Write calls of the update sender. After every `every`-th Write of the sender a
// KEEPALIVE is written to the connection. (A sender that hands a message to the connection in more than one
// Write gets it torn apart.)
type c18InjectConn struct {
	*kit.Conn
	every, n int
}

func (c *c18InjectConn) Write(b []byte) (int, error) {
	n, err := c.Conn.Write(b)
	c.n++
	if c.every > 0 && c.n%c.every == 0 {
		c.Conn.Write(kit.Keepalive())
	}
	return n, err
}

var c18InjectEvery int // set per case by TestVerifC18Packing (0 = no second writer)

func c18RunOne(t c18TB, s c10Sess, a c10Attrs, pfxs []kit.Bits, lenMode int, mode string) c18Result {
	c10Log.take()
	rig := c10NewRig(s)
	if c18InjectEvery > 0 {
		rig.fsm.con = &c18InjectConn{Conn: rig.conn, every: c18InjectEvery}
	}
	queued := make(map[kit.Bits]int, len(pfxs))
	for _, p := range pfxs {
		// a fresh path object per prefix, as the Adj-RIB-In creates them
		if err := rig.rib.AddPath(c10Pfx(p), a.path(s)); err != nil {
			t.Fatalf("C18 harness: AdjRIBOut.AddPath(%v): %v", p, err)
		}
		queued[p] = 0
	}
	// what the Adj-RIB-Out holds: one path per prefix, all built from the same attribute set by the
	// same rewrite; the wire rendering is computed for every 61st path only (it is the same string).
	wantID := make(map[kit.Bits]uint32, len(pfxs))
	wantView := ""
	for i, rt := range rig.rib.Dump() {
		ps := rt.Paths()
		if len(ps) != 1 {
			t.Fatalf("C18 harness precondition: %d paths for %v in the Adj-RIB-Out", len(ps), rt.Prefix())
		}
		id := uint32(0)
		if s.addPath {
			id = ps[0].BGPPath.PathIdentifier
		}
		wantID[c10Bits(rt.Prefix())] = id
		if i%61 == 0 {
			v := c10PathView(ps[0], s)
			if wantView != "" && v != wantView {
				t.Fatalf("C18 harness precondition: Adj-RIB-Out paths of one attribute set differ: [%s] vs [%s]", c18Short(v), c18Short(wantView))
			}
			wantView = v
		}
	}
	if len(wantID) != len(pfxs) {
		t.Fatalf("C18 harness precondition: Adj-RIB-Out holds %d routes after %d AddPath calls (session %v)", len(wantID), len(pfxs), s)
	}
	switch mode {
	case "sender-loop":
		rig.flushAll(false)
	case "sender-loop-reverse":
		rig.flushAll(true)
	case "end-of-rib":
		rig.rib.EndOfRIB()
	}
	if rig.queueLen() != 0 {
		t.Fatalf("C18: queue not empty after the flush")
	}

	peer := c10NewPeer(s)
	var bad string
	msg := peer.consume(rig.conn.TakeWritten(), func(k c10Key, view string) {
		if bad != "" {
			return
		}
		cnt, ok := queued[k.p]
		if !ok {
			bad = fmt.Sprintf("announced %v which was never queued", k)
			return
		}
		queued[k.p] = cnt + 1
		if id := wantID[k.p]; id != k.id {
			bad = fmt.Sprintf("announced %v, the Adj-RIB-Out holds that prefix with path id %d", k, id)
			return
		}
		if wantView != view {
			bad = fmt.Sprintf("%v announced with attributes [%s], queued path has [%s]", k, c18Short(view), c18Short(wantView))
		}
	})
	diag := func() string {
		return fmt.Sprintf("session %v, attrs %v, %d prefixes (len_mode %d), flush %s, %d UPDATEs, longest %d bytes; sender log: %v",
			s, a, len(pfxs), lenMode, mode, peer.msgs, peer.maxLen, c10Log.take())
	}
	if msg != "" {
		t.Fatalf("C18: %s\n%s", msg, diag())
	}
	if bad != "" {
		t.Fatalf("C18: %s\n%s", bad, diag())
	}
	lost, twice := 0, 0
	var ex kit.Bits
	for p, cnt := range queued {
		if cnt == 0 {
			lost++
			ex = p
		}
		if cnt > 1 {
			twice++
			ex = p
		}
	}
	if lost > 0 {
		t.Fatalf("C18: %d of %d queued prefixes were never announced (e.g. %v)\n%s", lost, len(pfxs), ex, diag())
	}
	if twice > 0 {
		t.Fatalf("C18: %d prefixes were announced more than once (e.g. %v)\n%s", twice, ex, diag())
	}
	if len(peer.table) != len(pfxs) {
		t.Fatalf("C18: peer holds %d routes after the flush, %d were queued (withdrawals in the stream?)\n%s", len(peer.table), len(pfxs), diag())
	}
	return c18Result{annMsgs: peer.annMsgs, maxLen: peer.maxLen}
}

func TestVerifC18Packing(t *testing.T) {
	c10InstallLogger()
	rec := kit.NewRecorder(t, "C18", c18Rule)
	maxN := kit.Scale(1500, 3000)
	rapid.Check(t, func(t *rapid.T) {
		c := rec.Case()
		defer c.Done()
		s := c10Sess{
			fam:     rapid.SampledFrom([]int{c10FamV4, c10FamV4, c10FamV6, c10FamV6, c10FamV4MP}).Draw(t, "fam"),
			kind:    rapid.IntRange(0, 3).Draw(t, "kind"),
			addPath: rapid.Bool().Draw(t, "addpath"),
			asn4:    rapid.IntRange(0, 2).Draw(t, "asn4") != 0,
		}
		lenMode := rapid.IntRange(0, 3).Draw(t, "len_mode")
		// Alignment sweep: with NLRI of one fixed size the position of the budget boundary inside
		// the NLRI is a function of the attribute size only, so padding an unknown attribute byte
		// by byte over one NLRI size crosses the boundary at every alignment.
		nlriSize := 1 + s.width()/8
		if lenMode == 1 {
			nlriSize = 1 + (s.width()/8*3+7)/8 // /24 or /48
		}
		if s.addPath {
			nlriSize += 4
		}
		sweep := 1
		if lenMode <= 1 && rapid.IntRange(0, 2).Draw(t, "sweep") == 0 {
			sweep = nlriSize
		}
		a, estimate := c18GenAttrs(t, s, sweep+3)
		// NLRI budget left by this attribute set and the number of prefixes that crosses it
		budget := 4096 - 19 - 4 - estimate
		avg := nlriSize
		if lenMode > 1 {
			avg = 1 + s.width()/16
			if s.addPath {
				avg += 4
			}
		}
		per := budget/avg + 1
		lo, hi := 5, 40
		if sweep > 1 {
			lo, hi = 11, 19
		}
		n := per * rapid.IntRange(lo, hi).Draw(t, "fill_tenths") / 10
		n += rapid.IntRange(-3, 3).Draw(t, "n_jitter")
		if n < 1 {
			n = 1
		}
		if n > maxN {
			n = maxN
		}
		seed := rapid.Uint64().Draw(t, "pfx_seed")
		pfxs := c18Prefixes(s.width(), n, seed, lenMode)
		mode := rapid.SampledFrom([]string{"sender-loop", "sender-loop-reverse", "end-of-rib"}).Draw(t, "flush")
		c18InjectEvery = rapid.SampledFrom([]int{0, 0, 1, 1, 2, 3}).Draw(t, "keepalive_after_every_nth_write")
		defer func() { c18InjectEvery = 0 }()
		c.ClassIf(c18InjectEvery > 0, "keepalives_between_sender_writes")
		c.Logf("session %v", s)
		c.Logf("attrs %v (estimated wire size <= %d) padding sweep 0..%d", a, estimate, sweep-1)
		c.Logf("prefixes n=%d len_mode=%d seed=%#x first=%v flush=%s", len(pfxs), lenMode, seed, pfxs[0], mode)

		var res c18Result
		for pad := 0; pad < sweep; pad++ {
			ap := a
			if sweep > 1 {
				ap.unknown = append(append([]types.UnknownPathAttribute{}, a.unknown...),
					types.UnknownPathAttribute{Optional: true, Transitive: true, TypeCode: 250, Value: make([]byte, pad)})
			}
			r := c18RunOne(t, s, ap, pfxs, lenMode, mode)
			if r.annMsgs > res.annMsgs {
				res.annMsgs = r.annMsgs
			}
			if r.maxLen > res.maxLen {
				res.maxLen = r.maxLen
			}
		}

		c.NonTrivialIf(res.annMsgs >= 2)
		c.Class(fmt.Sprintf("sess_%s_%s", []string{"v4", "v6mp", "v4mp"}[s.fam], []string{"ibgp", "rrclient", "ebgp", "rsclient"}[s.kind]))
		c.ClassIf(s.addPath, "addpath")
		c.ClassIf(sweep > 1, "alignment_sweep")
		c.Class(c18Bucket(estimate, []int{64, 256, 1024, 3000, 3900}, "attr_bytes"))
		c.Class(c18Bucket(res.annMsgs, []int{1, 2, 4, 8}, "updates"))
		c.ClassIf(res.maxLen >= 4090, "message_within_6_of_4096")
		c.ClassIf(res.maxLen == 4096, "message_exactly_4096")
		c.ClassIf(len(a.segs) > 1, "multi_segment_aspath")
		c.ClassIf(len(a.comms) > 63, "communities_extended_length")
		c.ClassIf(len(a.lcomms) > 21, "large_communities_extended_length")
		c.ClassIf(a.aggr != nil || a.atomic, "aggregator_or_atomic")
		c.ClassIf(len(a.unknown) > 0, "unknown_attrs")
	})
}

func c18Short(s string) string {
	if len(s) > 400 {
		return s[:200] + " ... " + s[len(s)-180:]
	}
	return s
}

//go:build verif

package server

// Synchronous session rig and valid-UPDATE generator shared by C19 and C20
// (both run specs list "files_for": ["C19","C20"]).
//
// The rig is a hand-built FSM in Established state with a real Adj-RIB-In per
// configured family registered to a real LocRIB (what fsmAddressFamily.init
// does for the receive direction; the send direction - Adj-RIB-Out and the
// update sender goroutine - is left out so that every step is synchronous).
// Bytes enter through establishedState.msgReceived, the function the
// Established receive loop calls for every message taken from msgRecvCh.

import (
	"bytes"
	"fmt"
	"runtime/debug"
	"sort"
	"strings"

	bnet "github.com/bio-routing/bio-rd/net"
	"github.com/bio-routing/bio-rd/route"
	"github.com/bio-routing/bio-rd/routingtable"
	"github.com/bio-routing/bio-rd/routingtable/filter"
	"github.com/bio-routing/bio-rd/routingtable/locRIB"
	"github.com/bio-routing/bio-rd/routingtable/vrf"
	"pgregory.net/rapid"
	kit "verifkit"
)

const (
	c19LocalASN = 65000
	c19PeerASN  = 64999
	c19RouterID = 0x0a0a0a0a
)

// c19Sess is the generated session configuration.
type c19Sess struct {
	IBGP bool
	AP4  bool // add-path RX negotiated for IPv4 unicast
	AP6  bool // add-path RX negotiated for IPv6 unicast
	ASN4 bool
	V4   bool // IPv4 unicast configured
	V6   bool // IPv6 unicast configured
}

func (s c19Sess) String() string {
	return fmt.Sprintf("sess{ibgp=%v ap4=%v ap6=%v asn4=%v v4=%v v6=%v}", s.IBGP, s.AP4, s.AP6, s.ASN4, s.V4, s.V6)
}

func (s c19Sess) opts() kit.WOpts { return kit.WOpts{AddPath4: s.AP4, AddPath6: s.AP6, ASN4: s.ASN4} }

func c19GenSess(t *rapid.T) c19Sess {
	s := c19Sess{
		IBGP: rapid.Bool().Draw(t, "ibgp"),
		AP4:  rapid.Bool().Draw(t, "ap4"),
		AP6:  rapid.Bool().Draw(t, "ap6"),
		ASN4: rapid.Bool().Draw(t, "asn4"),
	}
	switch rapid.IntRange(0, 5).Draw(t, "families") {
	case 0:
		s.V4 = true
	case 1:
		s.V6 = true
	default:
		s.V4, s.V6 = true, true
	}
	// add-path can only be negotiated for a configured family (decodeOptions)
	s.AP4 = s.AP4 && s.V4
	s.AP6 = s.AP6 && s.V6
	return s
}

// c19Rig is one synchronous session.
type c19Rig struct {
	s    c19Sess
	fsm  *FSM
	in4  routingtable.AdjRIBIn
	in6  routingtable.AdjRIBIn
	rib4 *locRIB.LocRIB
	rib6 *locRIB.LocRIB
}

func c19NewRig(s c19Sess) *c19Rig {
	p := &peer{
		addr:            bnet.IPv4FromOctets(169, 254, 100, 100).Ptr(),
		localAddr:       bnet.IPv4FromOctets(169, 254, 100, 1).Ptr(),
		routerID:        c19RouterID,
		localASN:        c19LocalASN,
		peerASN:         c19PeerASN,
		adjRIBInFactory: adjRIBInFactory{},
		vrf:             vrf.NewUntrackedVRF("c19vrf", 0),
	}
	if s.IBGP {
		p.peerASN = c19LocalASN
	}
	r := &c19Rig{s: s}
	if s.V4 {
		r.rib4 = locRIB.New("inet.0")
		p.ipv4 = &peerAddressFamily{rib: r.rib4, importFilterChain: filter.NewAcceptAllFilterChain(), exportFilterChain: filter.NewAcceptAllFilterChain()}
	}
	if s.V6 {
		r.rib6 = locRIB.New("inet6.0")
		p.ipv6 = &peerAddressFamily{rib: r.rib6, importFilterChain: filter.NewAcceptAllFilterChain(), exportFilterChain: filter.NewAcceptAllFilterChain()}
	}
	f := newFSM(p)
	f.con = fakeConn{}
	f.supports4OctetASN = s.ASN4
	f.holdTime = 0 // no wall clock in the receive path
	if f.ipv4Unicast != nil {
		f.ipv4Unicast.addPathRX = s.AP4
	}
	if f.ipv6Unicast != nil {
		f.ipv6Unicast.addPathRX = s.AP6
		f.ipv6Unicast.multiProtocol = true
	}
	// receive half of fsmAddressFamily.init()
	for _, af := range []*fsmAddressFamily{f.ipv4Unicast, f.ipv6Unicast} {
		if af == nil {
			continue
		}
		af.adjRIBIn = p.adjRIBInFactory.New(af.importFilterChain, p.vrf, af.getSessionAttrs())
		af.adjRIBIn.Register(af.rib)
	}
	p.vrf.AddContributingASN(p.localASN)
	f.ribsInitialized = true
	f.state = newEstablishedState(f)
	if f.ipv4Unicast != nil {
		r.in4 = f.ipv4Unicast.adjRIBIn
	}
	if f.ipv6Unicast != nil {
		r.in6 = f.ipv6Unicast.adjRIBIn
	}
	r.fsm = f
	return r
}

// c19Conn is a read-only net.Conn over a byte string (input of recvMsg).
type c19Conn struct {
	fakeConn
	r *bytes.Reader
}

func (c *c19Conn) Read(b []byte) (int, error) { return c.r.Read(b) }

// c19Frame gives the message the shape msgReceived sees it in. viaRecv: the
// bytes are read from a connection by the real recvMsg (the BGP receiver
// goroutine's function), whatever it returns goes to msgReceived - at the time
// of writing that was its whole 4096-byte zero-padded read buffer. Otherwise:
// the exact slice (what the BMP router hands over).
func c19Frame(msg []byte, viaRecv bool) []byte {
	if !viaRecv {
		return append([]byte{}, msg...)
	}
	data, err := recvMsg(&c19Conn{r: bytes.NewReader(msg)})
	if err != nil {
		panic(fmt.Sprintf("harness: recvMsg failed on a complete message: %v", err))
	}
	return data
}

// feed passes one message through msgReceived. It returns the recovered panic
// value (nil if none), the name of the returned state and the reason.
func (r *c19Rig) feed(data []byte, ts uint32) (pv interface{}, st string, reason string) {
	defer func() {
		if x := recover(); x != nil {
			pv = fmt.Sprintf("%v\n%s", x, c19Stack())
		}
	}()
	es := newEstablishedState(r.fsm)
	ns, why := es.msgReceived(data, r.fsm.decodeOptions(), false, ts)
	return nil, stateName(ns), why
}

// c19Stack returns the bio-rd frames of the current (panicking) goroutine.
func c19Stack() string {
	var keep []string
	lines := strings.Split(string(debug.Stack()), "\n")
	for i := 0; i+1 < len(lines); i++ {
		if strings.Contains(lines[i], "bio-rd/") && !strings.Contains(lines[i], "c19") && !strings.Contains(lines[i+1], "zz_verif") {
			keep = append(keep, strings.TrimSpace(lines[i])+" @ "+strings.TrimSpace(lines[i+1]))
		}
		if len(keep) >= 8 {
			break
		}
	}
	return strings.Join(keep, "\n")
}

// c19Entry is one (prefix, path) pair of a table dump.
type c19Entry struct {
	P    kit.Bits
	Pfx  string
	ID   uint32
	Path *route.Path
}

func c19Bits(p *bnet.Prefix) kit.Bits {
	var b kit.Bits
	a := p.Addr()
	if a.IsIPv4() {
		b.W = 32
	} else {
		b.W = 128
	}
	copy(b.A[:], a.Bytes())
	b.L = int(p.Len())
	return b
}

type c19Dumper interface{ Dump() []*route.Route }

// c19Dump lists every path of every route of a table, sorted.
func c19Dump(tbl c19Dumper) []c19Entry {
	var out []c19Entry
	for _, r := range tbl.Dump() {
		for _, p := range r.Paths() {
			e := c19Entry{P: c19Bits(r.Prefix()), Path: p}
			e.Pfx = fmt.Sprintf("%s(w%d,l%d)", e.P.Key(), e.P.W, e.P.L)
			if p.BGPPath != nil {
				e.ID = p.BGPPath.PathIdentifier
			}
			out = append(out, e)
		}
	}
	sort.SliceStable(out, func(i, j int) bool {
		if out[i].Pfx != out[j].Pfx {
			return out[i].Pfx < out[j].Pfx
		}
		return out[i].ID < out[j].ID
	})
	return out
}

func c19IP(ip *bnet.IP) string {
	if ip == nil {
		return "nil"
	}
	return fmt.Sprintf("%x", ip.Bytes())
}

// c19Render renders everything a BGP path stores (attribute values by value).
// withMeta adds learn time, hidden reason and path id.
func c19Render(p *route.Path, withMeta bool, withLP bool, withAggr bool) string {
	var sb strings.Builder
	if withMeta {
		fmt.Fprintf(&sb, "ltime=%d hidden=%d type=%d ", p.LTime, p.HiddenReason, p.Type)
	}
	b := p.BGPPath
	if b == nil {
		sb.WriteString("nobgp")
		return sb.String()
	}
	if withMeta {
		fmt.Fprintf(&sb, "id=%d ", b.PathIdentifier)
	}
	a := b.BGPPathA
	if a == nil {
		sb.WriteString("nobgpA")
		return sb.String()
	}
	fmt.Fprintf(&sb, "nh=%s src=%s origin=%d med=%d ebgp=%v atomic=%v originator=%d", c19IP(a.NextHop), c19IP(a.Source), a.Origin, a.MED, a.EBGP, a.AtomicAggregate, a.OriginatorID)
	if withLP {
		fmt.Fprintf(&sb, " lp=%d", a.LocalPref)
	}
	if withAggr {
		if a.Aggregator != nil {
			fmt.Fprintf(&sb, " aggr=%d/%08x", a.Aggregator.ASN, a.Aggregator.Address)
		} else {
			sb.WriteString(" aggr=-")
		}
	}
	sb.WriteString(" aspath=")
	if b.ASPath != nil {
		for _, s := range *b.ASPath {
			fmt.Fprintf(&sb, "%d%v", s.Type, s.ASNs)
		}
	}
	sb.WriteString(" comm=")
	if b.Communities != nil {
		for _, c := range *b.Communities {
			fmt.Fprintf(&sb, "%d,", c)
		}
	}
	sb.WriteString(" large=")
	if b.LargeCommunities != nil {
		for _, c := range *b.LargeCommunities {
			fmt.Fprintf(&sb, "%d:%d:%d,", c.GlobalAdministrator, c.DataPart1, c.DataPart2)
		}
	}
	sb.WriteString(" cluster=")
	if b.ClusterList != nil {
		for _, c := range *b.ClusterList {
			fmt.Fprintf(&sb, "%d,", c)
		}
	}
	sb.WriteString(" unknown=")
	for _, u := range b.UnknownAttributes {
		if u.TypeCode == kit.AtAS4Path || u.TypeCode == kit.AtAS4Aggr {
			continue // RFC 6793 attributes: bio-rd does not interpret them; whether it keeps them is not judged
		}
		fmt.Fprintf(&sb, "%d(o%v,p%v):%x,", u.TypeCode, u.Optional, u.Partial, u.Value)
	}
	return sb.String()
}

// c19Snapshot renders all four tables (Adj-RIB-In and LocRIB per family) as a
// set of "table|prefix|path" strings.
func (r *c19Rig) c19Snapshot() map[string]struct{} {
	m := map[string]struct{}{}
	add := func(name string, tbl c19Dumper) {
		for _, e := range c19Dump(tbl) {
			m[name+"|"+e.Pfx+"|"+c19Render(e.Path, true, true, true)] = struct{}{}
		}
	}
	if r.in4 != nil {
		add("adjin4", r.in4)
		add("loc4", r.rib4)
	}
	if r.in6 != nil {
		add("adjin6", r.in6)
		add("loc6", r.rib6)
	}
	return m
}

// ---------------------------------------------------------------------------
// valid UPDATE generator

// c19Attrs are the semantic attributes of one generated UPDATE.
type c19Attrs struct {
	Origin     uint8
	Segs       []kit.WSeg
	HasNH      bool
	NextHop    [4]byte
	MED        *uint32
	LocalPref  *uint32
	Atomic     bool
	HasAggr    bool
	AggrASN    uint32
	AggrAddr   [4]byte
	Comms      []uint32
	HasComms   bool
	Originator *uint32
	Cluster    []uint32
	HasCluster bool
	Large      [][3]uint32
	HasLarge   bool
	Unknown    []kit.WAttr // transitive attributes bio-rd has no decoder for
}

// c19Msg is a generated valid UPDATE.
type c19Msg struct {
	A         c19Attrs
	NoAttrs   bool // withdraw-only message without any path attribute
	Wd        []kit.WNLRI
	Nl        []kit.WNLRI
	Reach     *kit.WMP
	Unreach   *kit.WMP
	ReachPos  int // 0 = MP attributes first, 1 = last
	MPReachID int
}

func c19GenASN(t *rapid.T, asn4 bool, label string) uint32 {
	// never the local ASN (an AS loop only hides the path, it is still stored,
	// but keeping it out makes LocRIB content comparable too)
	switch rapid.IntRange(0, 3).Draw(t, label+"_m") {
	case 0:
		return c19PeerASN
	case 1:
		return uint32(rapid.IntRange(1, 64000).Draw(t, label))
	case 2:
		if asn4 {
			return uint32(rapid.IntRange(70000, 4200000000).Draw(t, label))
		}
		return 23456
	default:
		return uint32(rapid.IntRange(64512, 64998).Draw(t, label))
	}
}

func c19OptU32(t *rapid.T, label string) *uint32 {
	if !rapid.Bool().Draw(t, label+"_present") {
		return nil
	}
	v := rapid.SampledFrom([]uint32{0, 1, 100, 0xffffffff, 12345}).Draw(t, label)
	return &v
}

func c19GenAttrs(t *rapid.T, s c19Sess, needNH bool) c19Attrs {
	a := c19Attrs{Origin: uint8(rapid.IntRange(0, 2).Draw(t, "origin"))}
	nseg := rapid.IntRange(0, 3).Draw(t, "nseg")
	if !s.IBGP && nseg == 0 {
		nseg = 1
	}
	for i := 0; i < nseg; i++ {
		sg := kit.WSeg{Type: uint8(rapid.IntRange(1, 2).Draw(t, "segtype"))}
		if i == 0 {
			sg.Type = 2
		}
		n := rapid.IntRange(1, 4).Draw(t, "seglen")
		for j := 0; j < n; j++ {
			sg.ASNs = append(sg.ASNs, c19GenASN(t, s.ASN4, "asn"))
		}
		a.Segs = append(a.Segs, sg)
	}
	a.HasNH = needNH || rapid.Bool().Draw(t, "hasnh")
	a.NextHop = [4]byte{10, byte(rapid.IntRange(0, 255).Draw(t, "nh1")), byte(rapid.IntRange(0, 255).Draw(t, "nh2")), byte(rapid.IntRange(1, 254).Draw(t, "nh3"))}
	a.MED = c19OptU32(t, "med")
	if s.IBGP {
		a.LocalPref = c19OptU32(t, "lp")
		a.Originator = c19OptU32(t, "originator")
		if rapid.Bool().Draw(t, "hascluster") {
			a.HasCluster = true
			n := rapid.IntRange(0, 3).Draw(t, "ncluster")
			for i := 0; i < n; i++ {
				a.Cluster = append(a.Cluster, uint32(rapid.IntRange(1, 1000).Draw(t, "cid")))
			}
		}
	}
	a.Atomic = rapid.IntRange(0, 3).Draw(t, "atomic") == 0
	if rapid.IntRange(0, 3).Draw(t, "aggr") == 0 {
		a.HasAggr = true
		// <= 65535 also on 4-byte-ASN sessions (where the attribute is 8 bytes long):
		// types.Aggregator.ASN is a uint16, what becomes of a bigger ASN is not judged
		a.AggrASN = c19GenASN(t, false, "aggrasn")
		a.AggrAddr = [4]byte{192, 0, 2, byte(rapid.IntRange(1, 254).Draw(t, "aggraddr"))}
	}
	if rapid.IntRange(0, 2).Draw(t, "comms") == 0 {
		a.HasComms = true
		n := rapid.IntRange(0, 3).Draw(t, "ncomm")
		for i := 0; i < n; i++ {
			a.Comms = append(a.Comms, rapid.SampledFrom([]uint32{0xffffff01, 0xffffff02, 65000<<16 | 1, 1, 0x12345678}).Draw(t, "comm"))
		}
	}
	if rapid.IntRange(0, 3).Draw(t, "large") == 0 {
		a.HasLarge = true
		n := rapid.IntRange(0, 2).Draw(t, "nlarge")
		for i := 0; i < n; i++ {
			a.Large = append(a.Large, [3]uint32{uint32(rapid.IntRange(1, 70000).Draw(t, "lg")), uint32(i), 0xffffffff})
		}
	}
	nunk := rapid.IntRange(0, 4).Draw(t, "nunk")
	if nunk > 2 {
		nunk = 0
	}
	// attributes bio-rd has no use for: OTC (kept as is on sessions without roles), two unassigned codes,
	// extended communities, and the RFC 6793 attributes an old (2-octet) speaker passes along
	types := rapid.Permutation([]uint8{kit.AtOTC, 99, 200, 16, kit.AtAS4Path, kit.AtAS4Aggr}).Draw(t, "unktypes")
	for i := 0; i < nunk; i++ {
		v := make([]byte, rapid.SampledFrom([]int{0, 1, 4, 7}).Draw(t, "unklen"))
		for j := range v {
			v[j] = byte(rapid.IntRange(0, 255).Draw(t, "unkb"))
		}
		fl := uint8(kit.FlOptional | kit.FlTransitive)
		if rapid.Bool().Draw(t, "unkpartial") {
			fl |= kit.FlPartial
		}
		ty := types[i]
		switch ty {
		case kit.AtOTC:
			v = []byte{0, 0, 0xfd, 0xe8}
		case kit.AtAS4Aggr: // 4-octet ASN + address
			v = []byte{0, 3, 0x0d, 0x40, 192, 0, 2, 9}
		case kit.AtAS4Path: // one AS_SEQUENCE of two 4-octet ASNs
			v = []byte{2, 2, 0, 3, 0x0d, 0x40, 0, 0, 0xfd, 0xe9}
		case 16:
			v = []byte{0, 2, 0xfd, 0xe8, 0, 0, 0, byte(len(v))}
		}
		a.Unknown = append(a.Unknown, kit.WAttr{Flags: fl, Type: ty, Value: v})
	}
	return a
}

// c19AttrRef names one encoded attribute of a message.
type c19AttrRef struct {
	Type uint8
	A    kit.WAttr
}

// wattrs encodes the attributes in wire order.
func (m *c19Msg) wattrs(s c19Sess) []kit.WAttr {
	var mp, out []kit.WAttr
	if m.Reach != nil {
		mp = append(mp, kit.AttrMPReach(*m.Reach, (m.Reach.AFI == 1 && s.AP4) || (m.Reach.AFI == 2 && s.AP6)))
	}
	if m.Unreach != nil {
		mp = append(mp, kit.AttrMPUnreach(*m.Unreach, (m.Unreach.AFI == 1 && s.AP4) || (m.Unreach.AFI == 2 && s.AP6)))
	}
	if m.ReachPos == 0 {
		out = append(out, mp...)
	}
	if !m.NoAttrs {
		a := m.A
		out = append(out, kit.AttrOrigin(a.Origin), kit.AttrASPath(a.Segs, s.ASN4))
		if a.HasNH {
			out = append(out, kit.AttrNextHop(a.NextHop))
		}
		if a.MED != nil {
			out = append(out, kit.AttrMED(*a.MED))
		}
		if a.LocalPref != nil {
			out = append(out, kit.AttrLocalPref(*a.LocalPref))
		}
		if a.Atomic {
			out = append(out, kit.AttrAtomicAggr())
		}
		if a.HasAggr {
			out = append(out, kit.AttrAggregator(a.AggrASN, a.AggrAddr, s.ASN4))
		}
		if a.HasComms {
			out = append(out, kit.AttrCommunities(a.Comms))
		}
		if a.Originator != nil {
			out = append(out, kit.AttrOriginatorID(*a.Originator))
		}
		if a.HasCluster {
			out = append(out, kit.AttrClusterList(a.Cluster))
		}
		if a.HasLarge {
			out = append(out, kit.AttrLargeCommunities(a.Large))
		}
		out = append(out, a.Unknown...)
	}
	if m.ReachPos != 0 {
		out = append(out, mp...)
	}
	return out
}

// build returns the valid message bytes.
func (m *c19Msg) build(s c19Sess) []byte {
	u := kit.WUpdate{Withdrawn: m.Wd, NLRI: m.Nl, Attrs: m.wattrs(s)}
	return u.Build(s.opts(), nil)
}

func (m *c19Msg) String() string {
	var sb strings.Builder
	fmt.Fprintf(&sb, "wd=%v nlri=%v", m.Wd, m.Nl)
	if m.Reach != nil {
		fmt.Fprintf(&sb, " reach{afi=%d nh=%x %v}", m.Reach.AFI, m.Reach.NextHop, m.Reach.NLRI)
	}
	if m.Unreach != nil {
		fmt.Fprintf(&sb, " unreach{afi=%d %v}", m.Unreach.AFI, m.Unreach.NLRI)
	}
	if m.NoAttrs {
		sb.WriteString(" noattrs")
	} else {
		a := m.A
		fmt.Fprintf(&sb, " origin=%d segs=%v nh=%v/%v", a.Origin, a.Segs, a.HasNH, a.NextHop)
		if a.MED != nil {
			fmt.Fprintf(&sb, " med=%d", *a.MED)
		}
		if a.LocalPref != nil {
			fmt.Fprintf(&sb, " lp=%d", *a.LocalPref)
		}
		if a.Originator != nil {
			fmt.Fprintf(&sb, " originator=%d", *a.Originator)
		}
		fmt.Fprintf(&sb, " atomic=%v aggr=%v/%d comm=%v/%v cluster=%v/%v large=%v/%v unk=%d mpfirst=%v", a.Atomic, a.HasAggr, a.AggrASN, a.HasComms, a.Comms, a.HasCluster, a.Cluster, a.HasLarge, a.Large, len(a.Unknown), m.ReachPos == 0)
	}
	return sb.String()
}

// c19Universe holds the prefixes a case draws its NLRI from.
type c19Universe struct {
	V4 []kit.Bits
	V6 []kit.Bits
}

func c19GenUniverse(t *rapid.T) c19Universe {
	var u c19Universe
	seen := map[string]bool{}
	for _, b := range kit.GenUniverse(t, 32, rapid.IntRange(2, 7).Draw(t, "n4"), "u4") {
		if !seen[b.Key()] {
			seen[b.Key()] = true
			u.V4 = append(u.V4, b)
		}
	}
	for _, b := range kit.GenUniverse(t, 128, rapid.IntRange(2, 7).Draw(t, "n6"), "u6") {
		if !seen[b.Key()] {
			seen[b.Key()] = true
			u.V6 = append(u.V6, b)
		}
	}
	return u
}

var c19IDPool = []uint32{0, 1, 2, 3, 7, 255, 256, 65536, 0xfffffffe, 0xffffffff}

// c19Picker hands out NLRI so that within one message a prefix is used by at
// most one list; with add-path the announce lists may repeat a prefix with a
// different identifier.
type c19Picker struct {
	t       *rapid.T
	addPath bool
	pfx     []kit.Bits
	usedBy  map[string]string          // prefix key -> list name
	usedID  map[string]map[uint32]bool // prefix key -> ids used
	ids     []uint32                   // per-message permutation: distinct ids in draw order
	next    int
}

func c19NewPicker(t *rapid.T, pfx []kit.Bits, addPath bool, label string) *c19Picker {
	p := &c19Picker{t: t, addPath: addPath, pfx: pfx, usedBy: map[string]string{}, usedID: map[string]map[uint32]bool{}}
	p.ids = rapid.Permutation(c19IDPool).Draw(t, label+"_ids")
	return p
}

// pick draws up to n NLRI for the named list. announce lists may share
// prefixes among each other (add-path only); withdraw lists never share a
// prefix with any other list.
func (p *c19Picker) pick(n int, list string, announce bool) []kit.WNLRI {
	var out []kit.WNLRI
	for i := 0; i < n && len(p.pfx) > 0; i++ {
		b := p.pfx[rapid.IntRange(0, len(p.pfx)-1).Draw(p.t, list+"_pfx")]
		k := b.Key()
		by, used := p.usedBy[k]
		if used {
			if !p.addPath || !announce || !strings.HasPrefix(by, "announce") {
				continue
			}
		}
		e := kit.WNLRI{P: b}
		if p.addPath {
			e.HasID = true
			e.PathID = p.ids[p.next%len(p.ids)]
			p.next++
			if p.usedID[k] == nil {
				p.usedID[k] = map[uint32]bool{}
			}
			if p.usedID[k][e.PathID] {
				continue
			}
			p.usedID[k][e.PathID] = true
		}
		if announce {
			p.usedBy[k] = "announce"
		} else {
			p.usedBy[k] = "withdraw"
		}
		out = append(out, e)
	}
	return out
}

// c19GenMsg draws a valid UPDATE for session s over universe u. maxN bounds
// the NLRI per list. wantAnnounce forces at least one announced NLRI.
func c19GenMsg(t *rapid.T, s c19Sess, u c19Universe, maxN int, wantAnnounce bool) *c19Msg {
	m := &c19Msg{ReachPos: rapid.IntRange(0, 1).Draw(t, "mppos")}
	p4 := c19NewPicker(t, u.V4, s.AP4, "p4")
	p6 := c19NewPicker(t, u.V6, s.AP6, "p6")
	cnt := func(label string) int {
		n := rapid.IntRange(0, maxN+2).Draw(t, label)
		if n > maxN {
			return 0
		}
		return n
	}
	m.Nl = p4.pick(cnt("n_nlri"), "announce_nlri", true)
	reachFam := rapid.IntRange(0, 3).Draw(t, "reachfam") // 0 none, 1 v4, 2.. v6
	if wantAnnounce && len(m.Nl) == 0 && reachFam == 0 {
		reachFam = 2
	}
	switch reachFam {
	case 0:
	case 1:
		nh := []byte{10, 9, byte(rapid.IntRange(0, 255).Draw(t, "mpnh4")), 1}
		m.Reach = &kit.WMP{AFI: 1, SAFI: 1, NextHop: nh, NLRI: p4.pick(1+cnt("n_reach")%maxN, "announce_reach", true)}
	default:
		nh := make([]byte, 16)
		nh[0], nh[1], nh[2], nh[3] = 0x20, 0x01, 0x0d, 0xb8
		nh[15] = byte(rapid.IntRange(1, 255).Draw(t, "mpnh6"))
		if rapid.IntRange(0, 3).Draw(t, "mpnh_ll") == 0 {
			ll := make([]byte, 16)
			ll[0], ll[1], ll[15] = 0xfe, 0x80, 1
			nh = append(nh, ll...)
		}
		m.Reach = &kit.WMP{AFI: 2, SAFI: 1, NextHop: nh, NLRI: p6.pick(1+cnt("n_reach")%maxN, "announce_reach", true)}
	}
	if m.Reach != nil && len(m.Reach.NLRI) == 0 {
		m.Reach = nil // MP_REACH without NLRI is generated separately (C20)
	}
	if wantAnnounce && len(m.Nl) == 0 && m.Reach == nil {
		// universe exhausted for the wanted family: fall back to any classic NLRI
		m.Nl = p4.pick(1, "announce_nlri", true)
	}
	m.Wd = p4.pick(cnt("n_wd"), "withdraw_wd", false)
	switch rapid.IntRange(0, 3).Draw(t, "unreachfam") {
	case 0, 3:
	case 1:
		if l := p4.pick(cnt("n_unreach"), "withdraw_unreach", false); len(l) > 0 {
			m.Unreach = &kit.WMP{AFI: 1, SAFI: 1, NLRI: l}
		}
	case 2:
		if l := p6.pick(cnt("n_unreach"), "withdraw_unreach", false); len(l) > 0 {
			m.Unreach = &kit.WMP{AFI: 2, SAFI: 1, NLRI: l}
		}
	}
	announces := len(m.Nl) > 0 || m.Reach != nil
	if !announces {
		// withdraw-only UPDATEs carry no attributes besides MP_UNREACH_NLRI (RFC 4271
		// sect. 4.3); bio-rd insists on all three mandatory attributes as soon as one
		// of them is present, which no real speaker triggers on a withdraw
		m.NoAttrs = true
	} else {
		m.A = c19GenAttrs(t, s, len(m.Nl) > 0)
	}
	return m
}

//go:build verif

package server

// C10 over two consecutive sessions of one FSM address family: the real
// fsmAddressFamily.init() / dispose() pair (Adj-RIB-Out registered with the
// Loc-RIB, update sender with its 5 ms aggregation goroutine) runs twice on
// two capture connections. Routes change in the Loc-RIB during the first
// session, right before it ends (announcements still queued at teardown),
// while the session is down and during the second session. Once changes stop
// and the second session's queue is empty, replaying the bytes of the SECOND
// connection must give exactly the second session's Adj-RIB-Out.

import (
	"fmt"
	"testing"
	"time"

	bnet "github.com/bio-routing/bio-rd/net"
	"github.com/bio-routing/bio-rd/route"
	"github.com/bio-routing/bio-rd/routingtable/adjRIBOut"
	"pgregory.net/rapid"
	kit "verifkit"
)

func TestVerifC10SecondSession(t *testing.T) {
	c10InstallLogger()
	rec := kit.NewRecorder(t, "C10", c10Rule+" [two-session mode: init(), route changes, a change right before dispose(), changes while down, init() on a new connection, more changes; the second connection's stream is judged against the second Adj-RIB-Out. Non-trivial: a route was added within the aggregation interval before the first session ended and removed while the session was down]")
	unjudged := 0
	rapid.Check(t, c10SecondSessionProp(rec, &unjudged))
	if unjudged > 0 {
		t.Logf("C10/second-session: %d cases unjudged (a real-time deadline passed)", unjudged)
	}
}

// c10SecondSessionProp is the property; C26 runs the same workload under the race detector.
func c10SecondSessionProp(rec *kit.Recorder, unjudgedp *int) func(*rapid.T) {
	return func(t *rapid.T) {
		c := rec.Case()
		defer c.Done()
		c10Log.take()
		cs := c10GenCase(t, rec, c)
		cs.sess.addPath = false // one Loc-RIB path per prefix in this mode
		rig := c10NewRig(cs.sess)
		f := rig.fam
		f.adjRIBOut, f.updateSender = nil, nil // the hand-built pair of c10NewRig is not used: init() builds the real ones
		rib := f.rib
		var bpfx []*bnet.Prefix
		for _, p := range cs.pfxs {
			bpfx = append(bpfx, c10Pfx(p))
		}
		present := make([]*route.Path, len(bpfx))
		exportable := func(ai int) bool { return !(cs.sess.kind == c10KindIBGP && !cs.attrs[ai].ebgp) }
		change := func(label string) (added int) {
			pi := rapid.IntRange(0, len(bpfx)-1).Draw(t, label+"_pfx")
			if present[pi] != nil {
				c.Logf("%s: remove p%d", label, pi)
				rib.RemovePath(bpfx[pi], present[pi])
				present[pi] = nil
				return -1
			}
			ai := rapid.IntRange(0, len(cs.attrs)-1).Draw(t, label+"_attrs")
			if !exportable(ai) {
				return -1
			}
			c.Logf("%s: add p%d a%d", label, pi, ai)
			present[pi] = cs.attrs[ai].path(cs.sess)
			rib.AddPath(bpfx[pi], present[pi])
			return pi
		}
		f.init()
		for i, n := 0, rapid.IntRange(0, 6).Draw(t, "n1"); i < n; i++ {
			change(fmt.Sprintf("s1.%d", i))
		}
		if rapid.Bool().Draw(t, "settle") {
			time.Sleep(7 * time.Millisecond) // (sensitivity only) let the sender flush what is queued so far
		}
		late := change("s1.late")
		f.dispose()
		c.Logf("session 1 ended")
		lateRemoved := false
		if late >= 0 && rapid.IntRange(0, 3).Draw(t, "remove_late") != 0 {
			c.Logf("down: remove p%d (the late route)", late)
			rib.RemovePath(bpfx[late], present[late])
			present[late] = nil
			lateRemoved = true
		}
		for i, n := 0, rapid.IntRange(0, 3).Draw(t, "ndown"); i < n; i++ {
			change(fmt.Sprintf("down.%d", i))
		}
		conn2 := kit.NewConn(nil, nil)
		rig.fsm.con = conn2
		f.init()
		c.Logf("session 2 started")
		for i, n := 0, rapid.IntRange(0, 4).Draw(t, "n2"); i < n; i++ {
			change(fmt.Sprintf("s2.%d", i))
		}
		us := f.updateSender
		deadline := time.Now().Add(5 * time.Second)
		for {
			us.toSendMu.Lock()
			n := len(us.toSend)
			us.toSendMu.Unlock()
			if n == 0 {
				break
			}
			if time.Now().After(deadline) {
				*unjudgedp++
				c.Class("unjudged")
				f.dispose()
				return
			}
			time.Sleep(300 * time.Microsecond)
		}
		rig.rib = f.adjRIBOut.(*adjRIBOut.AdjRIBOut)
		want, dup := c10Expected(rig)
		f.dispose() // stops the sender goroutine (it has nothing queued)
		if dup != "" {
			return
		}
		peer := c10NewPeer(cs.sess)
		if msg := peer.consume(conn2.TakeWritten(), nil); msg != "" {
			t.Fatalf("C10/second-session %v: %s", cs.sess, msg)
		}
		c.ClassIf(lateRemoved, "late_route_removed_while_down")
		c.NonTrivialIf(lateRemoved)
		if diff := c10Diff(peer.table, want); diff != "" {
			t.Fatalf("C10/second-session: the peer's view built from the second connection differs from the second session's Adj-RIB-Out on session %v\n%s\nsender log: %v\n%s", cs.sess, diff, c10Log.take(), c.String())
		}
	}
}

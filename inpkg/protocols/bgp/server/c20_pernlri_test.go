//go:build verif

package server

// C20 - received UPDATEs are applied NLRI by NLRI.
//
// Sequences of VALID UPDATEs (c19GenMsg: classic IPv4 NLRI / withdrawn routes,
// MP_REACH / MP_UNREACH for IPv6 and IPv4-over-MP, 0..6 NLRI per list, distinct
// path identifiers inside a message, mixed announce / withdraw) go through
// establishedState.msgReceived of the synchronous rig (c19_rig_test.go). A
// model (family, prefix, path id) -> attributes is updated per NLRI; after each
// message the Adj-RIB-In dump of every configured family must equal the model:
// same set of (prefix, id) and, for each, the attributes of the message that
// announced it, compared by value as the FSM stores them.

import (
	"encoding/hex"
	"fmt"
	"sort"
	"strings"
	"testing"

	"pgregory.net/rapid"
	kit "verifkit"
)

const c20Rule = "sessions (iBGP/eBGP, add-path RX on/off per family, 2/4-byte ASN, IPv4 and/or IPv6 configured) x sequences of 2..8 valid UPDATEs over a universe of 2..7 related prefixes per family; each UPDATE: 0..6 classic NLRI, 0..6 withdrawn routes, optional MP_REACH (IPv6 or IPv4-over-MP, also without NLRI) and MP_UNREACH, path ids distinct within the message, one attribute set. Non-trivial: the sequence contains a message with a list of >= 2 NLRI carrying >= 2 distinct path identifiers for a configured family."

// c20Key identifies a stored path.
type c20Key struct {
	Pfx string
	ID  uint32
}

// c20Expect renders the attributes of message m the way c19Render renders a
// stored path (without meta data).
func c20Expect(m *c19Msg, s c19Sess, nh []byte) string {
	a := m.A
	var sb strings.Builder
	med, orig := uint32(0), uint32(0)
	if a.MED != nil {
		med = *a.MED
	}
	if a.Originator != nil {
		orig = *a.Originator
	}
	fmt.Fprintf(&sb, "nh=%x src=a9fe6464 origin=%d med=%d ebgp=%v atomic=%v originator=%d", nh, a.Origin, med, !s.IBGP, a.Atomic, orig)
	if s.IBGP {
		// on eBGP sessions the Adj-RIB-In replaces a zero LOCAL_PREF by the configured
		// default for eligible paths: not an attribute of the message, not compared
		lp := uint32(0)
		if a.LocalPref != nil {
			lp = *a.LocalPref
		}
		fmt.Fprintf(&sb, " lp=%d", lp)
	}
	if a.HasAggr {
		fmt.Fprintf(&sb, " aggr=%d/%02x%02x%02x%02x", a.AggrASN, a.AggrAddr[0], a.AggrAddr[1], a.AggrAddr[2], a.AggrAddr[3])
	} else {
		sb.WriteString(" aggr=-")
	}
	sb.WriteString(" aspath=")
	for _, sg := range a.Segs {
		fmt.Fprintf(&sb, "%d%v", sg.Type, sg.ASNs)
	}
	sb.WriteString(" comm=")
	for _, c := range a.Comms {
		fmt.Fprintf(&sb, "%d,", c)
	}
	sb.WriteString(" large=")
	for _, c := range a.Large {
		fmt.Fprintf(&sb, "%d:%d:%d,", c[0], c[1], c[2])
	}
	sb.WriteString(" cluster=")
	for _, c := range a.Cluster {
		fmt.Fprintf(&sb, "%d,", c)
	}
	sb.WriteString(" unknown=")
	for _, u := range a.Unknown {
		if u.Type == kit.AtAS4Path || u.Type == kit.AtAS4Aggr {
			continue
		}
		fmt.Fprintf(&sb, "%d(o%v,p%v):%x,", u.Type, u.Flags&kit.FlOptional != 0, u.Flags&kit.FlPartial != 0, u.Value)
	}
	return sb.String()
}

func c20PfxKey(b kit.Bits) string { return fmt.Sprintf("%s(w%d,l%d)", b.Key(), b.W, b.L) }

// c20Model is the expected Adj-RIB-In content of one family.
type c20Model map[c20Key]string

func (mo c20Model) announce(ns []kit.WNLRI, addPath bool, attrs string) {
	for _, n := range ns {
		id := uint32(0)
		if addPath {
			id = n.PathID
		}
		mo[c20Key{c20PfxKey(n.P), id}] = attrs
	}
}

func (mo c20Model) withdraw(ns []kit.WNLRI, addPath bool) {
	for _, n := range ns {
		if addPath {
			delete(mo, c20Key{c20PfxKey(n.P), n.PathID})
			continue
		}
		// without add-path: all paths of the prefix
		for k := range mo {
			if k.Pfx == c20PfxKey(n.P) {
				delete(mo, k)
			}
		}
	}
}

func (mo c20Model) lines() []string {
	var out []string
	for k, v := range mo {
		out = append(out, fmt.Sprintf("%s #%d %s", k.Pfx, k.ID, v))
	}
	sort.Strings(out)
	return out
}

func c20Actual(tbl c19Dumper, s c19Sess) []string {
	var out []string
	for _, e := range c19Dump(tbl) {
		out = append(out, fmt.Sprintf("%s #%d %s", e.Pfx, e.ID, c19Render(e.Path, false, s.IBGP, true)))
	}
	sort.Strings(out)
	return out
}

func c20DistinctIDs(ns []kit.WNLRI) bool {
	if len(ns) < 2 {
		return false
	}
	ids := map[uint32]bool{}
	for _, n := range ns {
		ids[n.PathID] = true
	}
	return len(ids) >= 2
}

func c20Diff(want, got []string) string {
	w, g := map[string]bool{}, map[string]bool{}
	for _, x := range want {
		w[x] = true
	}
	for _, x := range got {
		g[x] = true
	}
	var sb strings.Builder
	for _, x := range want {
		if !g[x] {
			fmt.Fprintf(&sb, "  missing:    %s\n", x)
		}
	}
	for _, x := range got {
		if !w[x] {
			fmt.Fprintf(&sb, "  unexpected: %s\n", x)
		}
	}
	if len(want) != len(got) && sb.Len() == 0 {
		fmt.Fprintf(&sb, "  %d paths expected, %d present (duplicates)\n", len(want), len(got))
	}
	return sb.String()
}

func c20RunCase(t *rapid.T, rec *kit.Recorder) {
	c := rec.Case()
	defer c.Done()
	s := c19GenSess(t)
	u := c19GenUniverse(t)
	rig := c19NewRig(s)
	c.Logf("%v", s)
	m4, m6 := c20Model{}, c20Model{}
	viaRecv := rapid.Bool().Draw(t, "via_recvMsg")
	nmsg := rapid.IntRange(2, 8).Draw(t, "nmsg")
	nontrivial := false
	for i := 0; i < nmsg; i++ {
		m := c19GenMsg(t, s, u, 6, false)
		c.ClassIf(m.A.HasAggr && s.ASN4 && !m.NoAttrs, "aggregator_8_bytes")
		if m.Reach == nil && !m.NoAttrs && rapid.IntRange(0, 7).Draw(t, "empty_reach") == 0 {
			// MP_REACH_NLRI without NLRI: valid, announces nothing (RFC 4760 sect. 3: ORIGIN and
			// AS_PATH must accompany MP_REACH_NLRI, so only on messages that carry attributes)
			nh := make([]byte, 16)
			nh[0], nh[1], nh[15] = 0x20, 0x01, 1
			m.Reach = &kit.WMP{AFI: 2, SAFI: 1, NextHop: nh}
			if rapid.Bool().Draw(t, "empty_reach_v4") {
				m.Reach = &kit.WMP{AFI: 1, SAFI: 1, NextHop: []byte{10, 9, 8, 7}}
			}
			c.Class("empty_mp_reach")
		}
		b := m.build(s)
		c.Logf("msg %d: %v", i, m)
		if e := c19RefParse(b, s.opts()); e != nil {
			t.Fatalf("harness: reference parser rejects the generated valid UPDATE: %v\n%s", e, hex.EncodeToString(b))
		}
		// model
		if s.V4 {
			if len(m.Nl) > 0 {
				m4.announce(m.Nl, s.AP4, c20Expect(m, s, m.A.NextHop[:]))
			}
			if m.Reach != nil && m.Reach.AFI == 1 {
				m4.announce(m.Reach.NLRI, s.AP4, c20Expect(m, s, m.Reach.NextHop[:4]))
			}
			m4.withdraw(m.Wd, s.AP4)
			if m.Unreach != nil && m.Unreach.AFI == 1 {
				m4.withdraw(m.Unreach.NLRI, s.AP4)
			}
			nontrivial = nontrivial || (s.AP4 && (c20DistinctIDs(m.Nl) || c20DistinctIDs(m.Wd) ||
				(m.Reach != nil && m.Reach.AFI == 1 && c20DistinctIDs(m.Reach.NLRI)) || (m.Unreach != nil && m.Unreach.AFI == 1 && c20DistinctIDs(m.Unreach.NLRI))))
		}
		if s.V6 {
			if m.Reach != nil && m.Reach.AFI == 2 {
				m6.announce(m.Reach.NLRI, s.AP6, c20Expect(m, s, m.Reach.NextHop[:16]))
			}
			if m.Unreach != nil && m.Unreach.AFI == 2 {
				m6.withdraw(m.Unreach.NLRI, s.AP6)
			}
			nontrivial = nontrivial || (s.AP6 && ((m.Reach != nil && m.Reach.AFI == 2 && c20DistinctIDs(m.Reach.NLRI)) || (m.Unreach != nil && m.Unreach.AFI == 2 && c20DistinctIDs(m.Unreach.NLRI))))
		}
		c.ClassIf(len(m.Nl) > 1, "classic_multi_nlri")
		c.ClassIf(len(m.Wd) > 1, "classic_multi_withdraw")
		c.ClassIf(m.Reach != nil && m.Reach.AFI == 2 && len(m.Reach.NLRI) > 1, "mp6_multi_nlri")
		c.ClassIf(m.Reach != nil && m.Reach.AFI == 1 && len(m.Reach.NLRI) > 1, "mp4_multi_nlri")
		c.ClassIf(m.Unreach != nil && len(m.Unreach.NLRI) > 1, "mp_multi_withdraw")
		c.ClassIf((m.Reach != nil && m.Reach.AFI == 2 && !s.V6) || (m.Reach != nil && m.Reach.AFI == 1 && !s.V4) || (len(m.Nl) > 0 && !s.V4), "nlri_of_unconfigured_family")

		pv, st, why := rig.feed(c19Frame(b, viaRecv), uint32(3000+i))
		if pv != nil {
			t.Fatalf("C20/panic %v: valid UPDATE %d panicked in msgReceived: %v\nmessage: %v\nbytes: %s", s, i, pv, m, hex.EncodeToString(b))
		}
		if st != stateNameEstablished {
			t.Fatalf("C20/rejected %v: valid UPDATE %d not accepted (next state %s, %q)\nmessage: %v\nbytes: %s", s, i, st, why, m, hex.EncodeToString(b))
		}
		if s.V4 {
			if d := c20Diff(m4.lines(), c20Actual(rig.in4, s)); d != "" {
				t.Fatalf("C20/adj-rib-in-ipv4 %v: after UPDATE %d the IPv4 Adj-RIB-In differs from the per-NLRI model\nmessage: %v\nbytes: %s\n%s", s, i, m, hex.EncodeToString(b), d)
			}
		}
		if s.V6 {
			if d := c20Diff(m6.lines(), c20Actual(rig.in6, s)); d != "" {
				t.Fatalf("C20/adj-rib-in-ipv6 %v: after UPDATE %d the IPv6 Adj-RIB-In differs from the per-NLRI model\nmessage: %v\nbytes: %s\n%s", s, i, m, hex.EncodeToString(b), d)
			}
		}
	}
	c.ClassIf(s.IBGP, "ibgp")
	c.ClassIf(!s.IBGP, "ebgp")
	c.ClassIf(s.AP4, "addpath4")
	c.ClassIf(s.AP6, "addpath6")
	c.ClassIf(!s.AP4 && !s.AP6, "no_addpath")
	c.NonTrivialIf(nontrivial)
}

func TestVerifC20PerNLRI(t *testing.T) {
	rec := kit.NewRecorder(t, "C20", c20Rule)
	rapid.Check(t, func(t *rapid.T) { c20RunCase(t, rec) })
}

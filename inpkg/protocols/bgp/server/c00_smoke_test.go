//go:build verif

package server

import (
	"testing"

	bnet "github.com/bio-routing/bio-rd/net"
	kit "verifkit"
)

// TestVerifC00Smoke: rig self-test (establish, announce, barrier, notification).
func TestVerifC00Smoke(t *testing.T) {
	rec := kit.NewRecorder(t, "C00", "rig smoke test")
	for i := 0; i < 3; i++ {
		c := rec.Case()
		c.Logf("smoke %d", i)
		c.NonTrivial()
		r := c00NewRig(0x0a000001)
		peerIP := bnet.IPv4FromOctets(10, 0, 0, 2)
		if err := r.srv.AddPeer(r.c00PeerCfg(peerIP, bnet.IPv4FromOctets(10, 0, 0, 1), 65000, 65001)); err != nil {
			t.Fatal(err)
		}
		conn, f := r.c00Connect(peerIP)
		ok, s := r.c00Establish(conn, f, c00Open(65001, 0x0a000002, 90, kit.CapASN4(65001)))
		if !ok {
			t.Fatalf("not established: %s; written=%x", s, conn.Written())
		}
		conn.Feed(c00Update([]uint32{65001}, [4]byte{10, 0, 0, 2}, nil, true, false, kit.WNLRI{P: kit.V4(0xc0000200, 24)}))
		c00Barrier(conn, f)
		if got := r.c00RIBFromPeer(peerIP, false); len(got) != 1 {
			t.Fatalf("rib: %v", got)
		}
		conn.Feed(kit.Notification(6, 2, nil))
		c00WaitState(f, stateNameIdle)
		if got := r.c00RIBFromPeer(peerIP, false); len(got) != 0 {
			t.Fatalf("rib after notification: %v", got)
		}
		if !conn.Closed() {
			t.Fatalf("conn not closed")
		}
		c.Done()
	}
}

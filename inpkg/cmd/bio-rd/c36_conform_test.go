//go:build verif

package main

// C36 — the fake BGP server of the reload check is validated against the real
// bgpserver.BGPServer: the same generated configuration sequences are applied
// through loadConfig to the fake and to a real server (no listen addresses,
// never started, every neighbour passive so that AddPeer starts nothing), and
// everything the BGPServer interface lets a caller observe must agree after
// every step: the peer set, the PeerConfig returned by GetPeerConfig (AddPeer
// time values, untouched by Replace*FilterChain, including what the stored
// chains do to the probe routes), nil for unknown peers, the error/nil result
// of Replace*FilterChain for known and unknown peers, and loadConfig's result.
// On top, the differential of TestVerifC36Reload is evaluated on the real
// server for what it exposes (peer set + stored configuration).

import (
	"fmt"
	"sort"
	"strings"
	"testing"

	bnet "github.com/bio-routing/bio-rd/net"
	bgpserver "github.com/bio-routing/bio-rd/protocols/bgp/server"
	"github.com/bio-routing/bio-rd/routingtable/filter"
	"pgregory.net/rapid"
	kit "verifkit"
)

const c36ConformRule = "configuration sequences as in TestVerifC36Reload but every neighbour passive; applied to the fake and to the real, never started BGP server; observable results (GetPeers, GetPeerConfig incl. stored chains' behaviour, Replace*FilterChain errors, loadConfig errors) compared after every step, and reload-vs-fresh compared on the real server. Non-trivial: a reload step that keeps at least one neighbour and changes, adds or removes another setting or neighbour."

// c36AllPassive forces passive mode for every neighbour of c.
func c36AllPassive(c *c36Cfg) {
	for gi := range c.grps {
		c.grps[gi].s.passive = 2
		for ni := range c.grps[gi].nbrs {
			c.grps[gi].nbrs[ni].s.passive = 0
		}
	}
}

func c36StoredChains(pc *bgpserver.PeerConfig) []c36KV {
	var out []c36KV
	for _, f := range []struct {
		n  string
		af *bgpserver.AddressFamilyConfig
	}{{"IPv4", pc.IPv4}, {"IPv6", pc.IPv6}} {
		if f.af == nil {
			continue
		}
		out = append(out,
			c36KV{f.n + ".storedImport", c36StoredBehaviour(f.af.ImportFilterChain)},
			c36KV{f.n + ".storedExport", c36StoredBehaviour(f.af.ExportFilterChain)})
	}
	return out
}

func c36StoredBehaviour(c filter.Chain) string {
	if len(c) == 0 {
		return "(empty)"
	}
	return c36Behaviour(c)
}

// c36Observe renders everything observable through the BGPServer interface.
func c36Observe(srv bgpserver.BGPServer) (map[string]c36PeerSnap, []string) {
	out := map[string]c36PeerSnap{}
	var order []string
	for _, k := range srv.GetPeers() {
		name := k.VRF().Name() + "/" + k.Addr().String()
		pc := srv.GetPeerConfig(k.VRF(), k.Addr())
		if pc == nil {
			out[name] = c36PeerSnap{{"GetPeerConfig", "nil"}}
		} else {
			ps := c36ConfigSnap(pc)
			ps = append(ps, c36StoredChains(pc)...)
			if again := srv.GetPeerConfig(k.VRF(), k.Addr()); again != pc {
				ps = append(ps, c36KV{"GetPeerConfig", "not stable"})
			}
			out[name] = ps
		}
		order = append(order, name)
	}
	sort.Strings(order)
	return out, order
}

func c36ObsDiff(a map[string]c36PeerSnap, ao []string, b map[string]c36PeerSnap, bo []string, an, bn string) []string {
	var out []string
	for _, n := range ao {
		if _, ok := b[n]; !ok {
			out = append(out, fmt.Sprintf("peer %s: known to %s only", n, an))
			continue
		}
		for _, f := range c36DiffPeer(a[n], b[n]) {
			av, _ := a[n].get(f)
			bv, _ := b[n].get(f)
			out = append(out, fmt.Sprintf("peer %s: %s: %s %q, %s %q", n, f, an, av, bn, bv))
		}
	}
	for _, n := range bo {
		if _, ok := a[n]; !ok {
			out = append(out, fmt.Sprintf("peer %s: known to %s only", n, bn))
		}
	}
	return out
}

func TestVerifC36FakeConformsToRealServer(t *testing.T) {
	env := c36NewEnv(t)
	rec := kit.NewRecorder(t, "C36", c36ConformRule)
	rapid.Check(t, func(t *rapid.T) {
		c := rec.Case()
		defer c.Done()
		c36BehaviourMemo = map[string]c36MemoEntry{}

		n := rapid.SampledFrom([]int{2, 2, 3, 3, 4}).Draw(t, "steps")
		var yamls []string
		var cfgs []*c36Cfg
		var prev *c36Cfg
		for i := 0; i < n; i++ {
			if i >= 2 && rapid.IntRange(0, 2).Draw(t, fmt.Sprintf("c%d_rollback", i)) == 0 {
				// roll back: the configuration before the last one, unchanged
				yamls = append(yamls, yamls[i-2])
				cfgs = append(cfgs, cfgs[i-2])
				prev = cfgs[i-2]
				c.Class("rollback_to_earlier_configuration")
				continue
			}
			cfg := c36GenCfg(t, fmt.Sprintf("c%d", i), prev)
			c36AllPassive(cfg)
			yamls = append(yamls, cfg.yaml())
			cfgs = append(cfgs, cfg)
			prev = cfg
		}
		for i, y := range yamls {
			c.Logf("--- config %d\n%s", i, y)
		}

		fake := c36NewFake(env)
		real := c36NewRealServer(env.defVRF)
		var prevOrder []string
		var prevObs map[string]c36PeerSnap
		for i, y := range yamls {
			_, ferr := c36Apply(env, fake, y)
			lerr, rerr := c36Apply(env, real, y)
			if lerr != nil {
				t.Fatalf("C36 harness: generated configuration does not load: %v\n%s", lerr, y)
			}
			if (ferr == nil) != (rerr == nil) {
				t.Fatalf("C36 fake/real disagree at step %d: loadConfig on the fake: %v, on the real server: %v\n%s", i, ferr, rerr, y)
			}
			fo, ford := c36Observe(fake)
			ro, rord := c36Observe(real)
			if d := c36ObsDiff(fo, ford, ro, rord, "fake", "real server"); len(d) > 0 {
				t.Fatalf("C36 fake/real disagree at step %d (the fake misrepresents the server):\n  %s\nconfig:\n%s", i, strings.Join(d, "\n  "), y)
			}

			// unknown and known peers: lookups and chain replacement results
			for _, a := range c36NbrAddrs {
				ipv, _ := bnet.IPFromString(a)
				ip := ipv.Dedup()
				_, known := fo[env.defVRF.Name()+"/"+ip.String()]
				fpc, rpc := fake.GetPeerConfig(env.defVRF, ip), real.GetPeerConfig(env.defVRF, ip)
				if (fpc == nil) != (rpc == nil) || (fpc != nil) != known {
					t.Fatalf("C36 fake/real disagree: GetPeerConfig(%s): fake nil=%v real nil=%v listed=%v", a, fpc == nil, rpc == nil, known)
				}
				if !known {
					fe := fake.ReplaceImportFilterChain(env.defVRF, ip, filter.NewAcceptAllFilterChain())
					re := real.ReplaceImportFilterChain(env.defVRF, ip, filter.NewAcceptAllFilterChain())
					fe2 := fake.ReplaceExportFilterChain(env.defVRF, ip, filter.NewAcceptAllFilterChain())
					re2 := real.ReplaceExportFilterChain(env.defVRF, ip, filter.NewAcceptAllFilterChain())
					if fe == nil || re == nil || fe2 == nil || re2 == nil {
						t.Fatalf("C36 fake/real: Replace*FilterChain for unknown peer %s: fake %v/%v real %v/%v (errors expected)", a, fe, fe2, re, re2)
					}
				}
			}

			// reload vs fresh start on the REAL server (observable part)
			fresh := c36NewRealServer(env.defVRF)
			if _, err := c36Apply(env, fresh, y); (err == nil) != (rerr == nil) {
				t.Fatalf("C36: loadConfig on a fresh real server: %v, on the reloaded one: %v", err, rerr)
			}
			wo, word := c36Observe(fresh)
			// stored chains are AddPeer-time values and may legitimately be
			// stale after an in-place replacement (nothing reads them): drop
			strip := func(m map[string]c36PeerSnap) map[string]c36PeerSnap {
				o := map[string]c36PeerSnap{}
				for k, v := range m {
					var ps c36PeerSnap
					for _, kv := range v {
						if !strings.Contains(kv.k, ".stored") {
							ps = append(ps, kv)
						}
					}
					o[k] = ps
				}
				return o
			}
			if d := c36ObsDiff(strip(ro), rord, strip(wo), word, "reloaded real server", "fresh real server"); len(d) > 0 {
				t.Fatalf("C36 violated on the real server at step %d: reload differs from fresh start:\n  %s\nprevious config:\n%s\nnew config:\n%s", i, strings.Join(d, "\n  "), c36PrevYAML(yamls, i), y)
			}

			if i > 0 {
				shared, differs := 0, len(rord) != len(prevOrder)
				for _, name := range rord {
					if old, ok := prevObs[name]; ok {
						shared++
						if len(c36DiffPeer(old, wo[name])) > 0 {
							differs = true
						}
					} else {
						differs = true
					}
				}
				c.NonTrivialIf(shared > 0 && differs)
				c.ClassIf(shared > 0, "conform_shared_neighbour")
			}
			prevObs, prevOrder = wo, word
		}
	})
}

//go:build verif

package main

// C36 — configuration reload converges to the new configuration.
//
// Differential oracle: the BGP server state after loadConfig(A); loadConfig(B)
// (what SIGHUP does: config.GetConfig + loadConfig -> bgpConfigurator.configure)
// must equal the state after loadConfig(B) on a fresh server: same peer set
// and, per peer, the same value of every PeerConfig field the real server
// consumes, and the same effective import/export policy per address family,
// compared by behaviour on probe routes.
//
// The server is a fake (c36Fake) implementing bgpserver.BGPServer; it mirrors
// protocols/bgp/server/server.go + peer.go:
//   AddPeer        dedups addresses, stores a private copy of the config,
//                  effective chains = filterOrDefault(config chains) per family
//   GetPeerConfig  returns the AddPeer-time config (never updated afterwards)
//   DisposePeer    removes the peer
//   Replace*Chain  "peer not found" error, otherwise sets the effective chain
//                  (filterOrDefault(c), like AddPeer) of every configured family
//                  unless the real Chain.Equal says it is unchanged
//                  (peer.replace*FilterChain -> fsmAddressFamily.replace*FilterChain)
// "Effective chain" is an abstraction of the real peer (chains of the existing
// FSMs' address families and of FSMs created later). That the real server
// implements exactly this abstraction - in every session state - is not assumed
// but checked on the real server by TestVerifC36ServerReplaceChains in package
// protocols/bgp/server (it is where the nil-Adj-RIB panic, the empty-chain
// default and the stale chains of later sessions were found), and
// TestVerifC36FakeConformsToRealServer compares fake and real bgpServer
// (passive peers, no listeners, nothing started) on everything the BGPServer
// interface exposes. All three runs belong to ./check C36.

import (
	"fmt"
	"os"
	"path/filepath"
	"runtime/debug"
	"sort"
	"strings"
	"testing"

	"github.com/bio-routing/bio-rd/cmd/bio-rd/config"
	bnet "github.com/bio-routing/bio-rd/net"
	"github.com/bio-routing/bio-rd/net/tcp"
	"github.com/bio-routing/bio-rd/protocols/bgp/metrics"
	bgpserver "github.com/bio-routing/bio-rd/protocols/bgp/server"
	"github.com/bio-routing/bio-rd/protocols/bgp/types"
	"github.com/bio-routing/bio-rd/route"
	"github.com/bio-routing/bio-rd/routingtable/adjRIBIn"
	"github.com/bio-routing/bio-rd/routingtable/adjRIBOut"
	"github.com/bio-routing/bio-rd/routingtable/filter"
	"github.com/bio-routing/bio-rd/routingtable/vrf"
	"github.com/bio-routing/bio-rd/util/log"
	"pgregory.net/rapid"
	kit "verifkit"
)

const c36RouterIDStr = "192.0.2.1"
const c36RouterID = uint32(192)<<24 | 0<<16 | 2<<8 | 1

const c36Rule = "sequences of 2-4 configurations; the first drawn from the grammar (1-3 policy statements x 1-3 terms, 1-3 groups x 0-3 neighbours from a pool of 6 addresses, every group/neighbour setting set or inherited), each next one a variation of its predecessor (values redrawn, neighbours/groups/policies/terms added, removed, tweaked); YAML loaded by config.GetConfig, applied by loadConfig -> bgpConfigurator.configure to a fake BGP server; after every reload the server state must equal the state of a fresh server given only the newest configuration. Non-trivial: some reload step has a neighbour present before and after whose effective settings or policy behaviour differ between the two configurations."

// ---------------------------------------------------------------------------
// null logger (util/log has no default logger; main() installs logrus)

type c36NullLog struct{}

func (c36NullLog) Errorf(string, ...interface{})             {}
func (c36NullLog) Infof(string, ...interface{})              {}
func (c36NullLog) Debugf(string, ...interface{})             {}
func (c36NullLog) Error(string)                              {}
func (c36NullLog) Info(string)                               {}
func (c36NullLog) Debug(string)                              {}
func (c36NullLog) WithFields(log.Fields) log.LoggerInterface { return c36NullLog{} }
func (c36NullLog) WithError(error) log.LoggerInterface       { return c36NullLog{} }

// ---------------------------------------------------------------------------
// environment shared by all cases of a test function: one VRF registry with
// the default VRF (the daemon creates exactly this at start-up) and a real,
// never started bgpServer used only to mint bgpserver.PeerKey values (their
// fields are unexported).

type c36Env struct {
	reg    *vrf.VRFRegistry
	defVRF *vrf.VRF
	mint   bgpserver.BGPServer
	keys   map[c36Key]bgpserver.PeerKey
	dir    string
	nfile  int
	last   string
}

type c36Key struct {
	v  *vrf.VRF
	ip *bnet.IP
}

func c36NewEnv(t *testing.T) *c36Env {
	log.SetLogger(c36NullLog{})
	debug.SetGCPercent(400)
	e := &c36Env{reg: vrf.NewVRFRegistry(), keys: map[c36Key]bgpserver.PeerKey{}}
	e.defVRF = e.reg.CreateVRFIfNotExists(vrf.DefaultVRFName, 0)
	e.mint = c36NewRealServer(e.defVRF)
	// configuration files are rewritten several times per case: prefer a RAM
	// file system when there is one
	if d, err := os.MkdirTemp("/dev/shm", "verif-c36-"); err == nil {
		e.dir = d
		t.Cleanup(func() { os.RemoveAll(d) })
	} else {
		e.dir = t.TempDir()
	}
	// package globals of cmd/bio-rd used by loadConfig / determineVRF
	vrfReg = e.reg
	return e
}

// c36NewRealServer returns a real BGP server without listen addresses; it is
// never started, so AddPeer of a passive peer creates no goroutine or socket.
func c36NewRealServer(def *vrf.VRF) bgpserver.BGPServer {
	return bgpserver.NewBGPServer(bgpserver.BGPServerConfig{
		RouterID:         c36RouterID,
		DefaultVRF:       def,
		ListenAddrsByVRF: map[string][]string{},
	})
}

func (e *c36Env) peerKey(v *vrf.VRF, ip *bnet.IP) bgpserver.PeerKey {
	k := c36Key{v, ip.Dedup()}
	if pk, ok := e.keys[k]; ok {
		return pk
	}
	err := e.mint.AddPeer(bgpserver.PeerConfig{PeerAddress: k.ip, LocalAddress: k.ip, Passive: true, VRF: v, PeerAS: 1, LocalAS: 1})
	if err != nil {
		panic("c36 harness: cannot mint peer key: " + err.Error())
	}
	var out *bgpserver.PeerKey
	for _, pk := range e.mint.GetPeers() {
		if pk.VRF() == v && pk.Addr() == k.ip {
			p := pk
			out = &p
		}
	}
	e.mint.DisposePeer(v, k.ip)
	if out == nil {
		panic("c36 harness: minted peer key not found")
	}
	e.keys[k] = *out
	return *out
}

// load writes y to the configuration file (unless it already holds y) and
// loads it the way the daemon does.
func (e *c36Env) load(y string) (*config.Config, error) {
	fn := filepath.Join(e.dir, "bio-rd.yml")
	if e.nfile == 0 || e.last != y {
		if err := os.WriteFile(fn, []byte(y), 0o644); err != nil {
			panic("c36 harness: " + err.Error())
		}
		e.nfile++
		e.last = y
	}
	return config.GetConfig(fn)
}

// ---------------------------------------------------------------------------
// fake BGP server

type c36Peer struct {
	cfg                    *bgpserver.PeerConfig
	imp4, exp4, imp6, exp6 filter.Chain
	has4, has6             bool
}

type c36Fake struct {
	env      *c36Env
	routerID uint32
	peers    map[c36Key]*c36Peer
	ops      []string // call log, for the failure message
	dupAdds  int      // AddPeer for a key that is already present (the real server would leak the old peer)
}

func c36NewFake(e *c36Env) *c36Fake {
	return &c36Fake{env: e, routerID: c36RouterID, peers: map[c36Key]*c36Peer{}}
}

func c36FilterOrDefault(c filter.Chain) filter.Chain {
	if len(c) != 0 {
		return c
	}
	return filter.NewDrainFilterChain()
}

func (f *c36Fake) RouterID() uint32 { return f.routerID }
func (f *c36Fake) Start()           {}

func (f *c36Fake) AddPeer(c bgpserver.PeerConfig) error {
	c.LocalAddress = c.LocalAddress.Dedup()
	c.PeerAddress = c.PeerAddress.Dedup()
	p := &c36Peer{cfg: &c}
	if c.IPv4 != nil {
		if c.VRF.IPv4UnicastRIB() == nil {
			return fmt.Errorf("no RIB for IPv4 unicast configured")
		}
		p.has4 = true
		p.imp4 = c36FilterOrDefault(c.IPv4.ImportFilterChain)
		p.exp4 = c36FilterOrDefault(c.IPv4.ExportFilterChain)
	}
	if c.IPv6 != nil {
		if c.VRF.IPv6UnicastRIB() == nil {
			return fmt.Errorf("no RIB for IPv6 unicast configured")
		}
		p.has6 = true
		p.imp6 = c36FilterOrDefault(c.IPv6.ImportFilterChain)
		p.exp6 = c36FilterOrDefault(c.IPv6.ExportFilterChain)
	}
	k := c36Key{c.VRF, c.PeerAddress}
	if _, dup := f.peers[k]; dup {
		f.dupAdds++
	}
	f.peers[k] = p
	f.ops = append(f.ops, "AddPeer "+c.PeerAddress.String())
	return nil
}

func (f *c36Fake) GetPeerConfig(v *vrf.VRF, ip *bnet.IP) *bgpserver.PeerConfig {
	if p := f.peers[c36Key{v, ip.Dedup()}]; p != nil {
		return p.cfg
	}
	return nil
}

func (f *c36Fake) DisposePeer(v *vrf.VRF, ip *bnet.IP) {
	k := c36Key{v, ip.Dedup()}
	if f.peers[k] == nil {
		return
	}
	delete(f.peers, k)
	f.ops = append(f.ops, "DisposePeer "+ip.String())
}

func (f *c36Fake) sortedKeys() []c36Key {
	ks := make([]c36Key, 0, len(f.peers))
	for k := range f.peers {
		ks = append(ks, k)
	}
	sort.Slice(ks, func(i, j int) bool {
		if ks[i].v.Name() != ks[j].v.Name() {
			return ks[i].v.Name() < ks[j].v.Name()
		}
		return ks[i].ip.String() < ks[j].ip.String()
	})
	return ks
}

func (f *c36Fake) GetPeers() []bgpserver.PeerKey {
	out := make([]bgpserver.PeerKey, 0, len(f.peers))
	for _, k := range f.sortedKeys() {
		out = append(out, f.env.peerKey(k.v, k.ip))
	}
	return out
}

func (f *c36Fake) ReplaceImportFilterChain(v *vrf.VRF, ip *bnet.IP, c filter.Chain) error {
	p := f.peers[c36Key{v, ip.Dedup()}]
	if p == nil {
		return fmt.Errorf("peer %q not found in VRF %q", ip.String(), v.Name())
	}
	f.ops = append(f.ops, "ReplaceImportFilterChain "+ip.String())
	c = c36FilterOrDefault(c)
	if p.has4 && !c.Equal(p.imp4) {
		p.imp4 = c
	}
	if p.has6 && !c.Equal(p.imp6) {
		p.imp6 = c
	}
	return nil
}

func (f *c36Fake) ReplaceExportFilterChain(v *vrf.VRF, ip *bnet.IP, c filter.Chain) error {
	p := f.peers[c36Key{v, ip.Dedup()}]
	if p == nil {
		return fmt.Errorf("peer %q not found in VRF %q", ip.String(), v.Name())
	}
	f.ops = append(f.ops, "ReplaceExportFilterChain "+ip.String())
	c = c36FilterOrDefault(c)
	if p.has4 && !c.Equal(p.exp4) {
		p.exp4 = c
	}
	if p.has6 && !c.Equal(p.exp6) {
		p.exp6 = c
	}
	return nil
}

func (f *c36Fake) Metrics() (*metrics.BGPMetrics, error) { return nil, fmt.Errorf("fake") }
func (f *c36Fake) GetRIBIn(*vrf.VRF, *bnet.IP, uint16, uint8) *adjRIBIn.AdjRIBIn {
	return nil
}
func (f *c36Fake) GetRIBOut(*vrf.VRF, *bnet.IP, uint16, uint8) *adjRIBOut.AdjRIBOut {
	return nil
}
func (f *c36Fake) GetDefaultVRF() *vrf.VRF                 { return f.env.defVRF }
func (f *c36Fake) SetListenerManager(tcp.ListenerManagerI) {}

var _ bgpserver.BGPServer = (*c36Fake)(nil)

// ---------------------------------------------------------------------------
// snapshots

type c36KV struct{ k, v string }

// c36PeerSnap is the ordered list of (field, value) of one peer.
type c36PeerSnap []c36KV

type c36Snap struct {
	peers map[string]c36PeerSnap // "vrf/addr" -> fields
	order []string
}

var c36ProbePfx = []string{
	"0.0.0.0/0", "10.0.0.0/8", "10.1.0.0/16", "10.1.1.0/24", "10.1.1.128/25", "10.1.1.1/32", "10.2.0.0/16",
	"192.0.2.0/24", "192.0.2.0/25", "198.51.100.0/24",
	"::/0", "2001:db8::/32", "2001:db8:1::/48", "2001:db8:1:1::/64", "2001:db8:2::/48", "2001:db9::/32",
	"2001:db8:1::1/128",
}

var c36Probes []*bnet.Prefix

func init() {
	for _, s := range c36ProbePfx {
		p, err := bnet.PrefixFromString(s)
		if err != nil {
			panic(err)
		}
		c36Probes = append(c36Probes, p)
	}
}

func c36ProbePath() *route.Path {
	nh := bnet.IPv4FromOctets(203, 0, 113, 1)
	return &route.Path{
		Type: route.BGPPathType,
		BGPPath: &route.BGPPath{
			BGPPathA: &route.BGPPathA{
				NextHop:   nh.Dedup(),
				Source:    nh.Dedup(),
				LocalPref: 100,
				MED:       7,
				EBGP:      true,
			},
			ASPath:    types.NewASPath([]uint32{64999, 64998}),
			ASPathLen: 2,
		},
	}
}

// c36BehaviourMemo caches c36Behaviour per chain (identified by its filter
// objects: filters are immutable once built by the loader). Reset per case.
// The memo keeps the chain itself, so a filter cannot be garbage collected and
// its address reused by another filter while the entry exists.
type c36MemoEntry struct {
	chain filter.Chain
	v     string
}

var c36BehaviourMemo = map[string]c36MemoEntry{}

func c36Behaviour(c filter.Chain) string {
	if len(c) == 0 {
		return c36BehaviourUncached(c)
	}
	var kb strings.Builder
	for _, f := range c {
		fmt.Fprintf(&kb, "%p,", f)
	}
	k := kb.String()
	if e, ok := c36BehaviourMemo[k]; ok {
		return e.v
	}
	v := c36BehaviourUncached(c)
	c36BehaviourMemo[k] = c36MemoEntry{chain: c, v: v}
	return v
}

var c36TheProbePath = c36ProbePath()

// c36BehaviourUncached renders what a chain does to every probe route.
func c36BehaviourUncached(c filter.Chain) string {
	var sb strings.Builder
	for i, p := range c36Probes {
		if i > 0 {
			sb.WriteByte(' ')
		}
		// Chain.Process works on a copy of the path it is given
		res, reject := c.Process(p, c36TheProbePath)
		if reject {
			sb.WriteString("R")
			continue
		}
		b := res.BGPPath
		fmt.Fprintf(&sb, "A(lp=%d,med=%d,as=%s,nh=%s)", b.BGPPathA.LocalPref, b.BGPPathA.MED, strings.ReplaceAll(b.ASPath.String(), " ", "_"), b.BGPPathA.NextHop.String())
	}
	return sb.String()
}

func c36AFSnap(prefix string, af *bgpserver.AddressFamilyConfig) []c36KV {
	if af == nil {
		return []c36KV{{prefix, "absent"}}
	}
	return []c36KV{
		{prefix, "present"},
		{prefix + ".AddPathRecv", fmt.Sprint(af.AddPathRecv)},
		{prefix + ".AddPathSend", fmt.Sprintf("%+v", af.AddPathSend)},
		{prefix + ".NextHopExtended", fmt.Sprint(af.NextHopExtended)},
	}
}

func c36IP(ip *bnet.IP) string {
	if ip == nil {
		return "<nil>"
	}
	return ip.String()
}

// c36ConfigSnap lists every PeerConfig field the real server consumes
// (newPeer, AddPeer, fsm dial). AdminEnabled and Description are not read
// anywhere in protocols/bgp/server, so they are not part of the state; the
// filter chains are judged by the effective chains instead.
func c36ConfigSnap(c *bgpserver.PeerConfig) c36PeerSnap {
	s := c36PeerSnap{
		{"AuthenticationKey", c.AuthenticationKey},
		{"ReconnectInterval", c.ReconnectInterval.String()},
		{"KeepAlive", c.KeepAlive.String()},
		{"HoldTime", c.HoldTime.String()},
		{"LocalAddress", c36IP(c.LocalAddress)},
		{"PeerAddress", c36IP(c.PeerAddress)},
		{"TTL", fmt.Sprint(c.TTL)},
		{"LocalAS", fmt.Sprint(c.LocalAS)},
		{"PeerAS", fmt.Sprint(c.PeerAS)},
		{"Passive", fmt.Sprint(c.Passive)},
		{"RouterID", fmt.Sprint(c.RouterID)},
		{"RouteServerClient", fmt.Sprint(c.RouteServerClient)},
		{"RouteReflectorClient", fmt.Sprint(c.RouteReflectorClient)},
		{"RouteReflectorClusterID", fmt.Sprint(c.RouteReflectorClusterID)},
		{"AdvertiseIPv4MultiProtocol", fmt.Sprint(c.AdvertiseIPv4MultiProtocol)},
		{"PeerRole", fmt.Sprint(c.PeerRole)},
		{"PeerRoleStrictMode", fmt.Sprint(c.PeerRoleStrictMode)},
		{"VRF", c.VRF.Name()},
	}
	s = append(s, c36AFSnap("IPv4", c.IPv4)...)
	s = append(s, c36AFSnap("IPv6", c.IPv6)...)
	return s
}

func (f *c36Fake) snapshot() *c36Snap {
	s := &c36Snap{peers: map[string]c36PeerSnap{}}
	for _, k := range f.sortedKeys() {
		p := f.peers[k]
		ps := c36ConfigSnap(p.cfg)
		if p.has4 {
			ps = append(ps, c36KV{"IPv4.import", c36Behaviour(p.imp4)}, c36KV{"IPv4.export", c36Behaviour(p.exp4)})
		}
		if p.has6 {
			ps = append(ps, c36KV{"IPv6.import", c36Behaviour(p.imp6)}, c36KV{"IPv6.export", c36Behaviour(p.exp6)})
		}
		name := k.v.Name() + "/" + k.ip.String()
		s.peers[name] = ps
		s.order = append(s.order, name)
	}
	return s
}

func (ps c36PeerSnap) get(k string) (string, bool) {
	for _, kv := range ps {
		if kv.k == k {
			return kv.v, true
		}
	}
	return "", false
}

// c36DiffPeer returns the fields in which two snapshots of one peer differ.
func c36DiffPeer(a, b c36PeerSnap) []string {
	var out []string
	seen := map[string]bool{}
	for _, kv := range a {
		seen[kv.k] = true
		if w, ok := b.get(kv.k); !ok || w != kv.v {
			out = append(out, kv.k)
		}
	}
	for _, kv := range b {
		if !seen[kv.k] {
			out = append(out, kv.k)
		}
	}
	return out
}

// c36Compare returns a description of every difference between the state
// reached by reloading (got) and the state of a fresh start (want).
func c36Compare(got, want *c36Snap) []string {
	var out []string
	for _, n := range want.order {
		g, ok := got.peers[n]
		if !ok {
			out = append(out, fmt.Sprintf("session %s: configured by a fresh start, missing after reload", n))
			continue
		}
		w := want.peers[n]
		for _, f := range c36DiffPeer(g, w) {
			gv, _ := g.get(f)
			wv, _ := w.get(f)
			if strings.HasSuffix(f, ".import") || strings.HasSuffix(f, ".export") {
				gs, ws := strings.Split(gv, " "), strings.Split(wv, " ")
				if len(gs) == len(c36ProbePfx) && len(ws) == len(c36ProbePfx) {
					var d []string
					for i := range gs {
						if gs[i] != ws[i] && len(d) < 4 {
							d = append(d, fmt.Sprintf("route %s: reload %s, fresh %s", c36ProbePfx[i], gs[i], ws[i]))
						}
					}
					out = append(out, fmt.Sprintf("session %s: effective %s policy differs (R=reject, A=accept): %s", n, f, strings.Join(d, "; ")))
					continue
				}
			}
			out = append(out, fmt.Sprintf("session %s: %s after reload = %q, fresh start = %q", n, f, gv, wv))
		}
	}
	for _, n := range got.order {
		if _, ok := want.peers[n]; !ok {
			out = append(out, fmt.Sprintf("session %s: still present after reload, not configured by a fresh start", n))
		}
	}
	return out
}

// c36Apply runs what configReloader does for one SIGHUP against srv.
func c36Apply(e *c36Env, srv bgpserver.BGPServer, y string) (loadErr, applyErr error) {
	cfg, err := e.load(y)
	if err != nil {
		return err, nil
	}
	bgpSrv = srv
	defer func() { bgpSrv = nil }()
	return nil, loadConfig(cfg)
}

// ---------------------------------------------------------------------------
// the property

func c36ClassOfField(f string) string {
	switch {
	case strings.HasSuffix(f, ".import") || strings.HasSuffix(f, ".export"):
		return "chg_policy"
	case strings.HasPrefix(f, "IPv4") || strings.HasPrefix(f, "IPv6"):
		if strings.Contains(f, "AddPath") {
			return "chg_addpath"
		}
		if strings.Contains(f, "NextHop") {
			return "chg_nexthop_ext"
		}
		return "chg_family"
	}
	return "chg_" + f
}

func TestVerifC36Reload(t *testing.T) {
	env := c36NewEnv(t)
	rec := kit.NewRecorder(t, "C36", c36Rule)
	rapid.Check(t, func(t *rapid.T) {
		c := rec.Case()
		defer c.Done()
		c36BehaviourMemo = map[string]c36MemoEntry{}

		n := rapid.SampledFrom([]int{2, 2, 2, 3, 4}).Draw(t, "steps")
		var yamls []string
		var cfgs []*c36Cfg
		var prev *c36Cfg
		for i := 0; i < n; i++ {
			if i >= 2 && rapid.IntRange(0, 2).Draw(t, fmt.Sprintf("c%d_rollback", i)) == 0 {
				// roll back: the configuration before the last one, unchanged
				yamls = append(yamls, yamls[i-2])
				cfgs = append(cfgs, cfgs[i-2])
				prev = cfgs[i-2]
				c.Class("rollback_to_earlier_configuration")
				continue
			}
			cfg := c36GenCfg(t, fmt.Sprintf("c%d", i), prev)
			yamls = append(yamls, cfg.yaml())
			cfgs = append(cfgs, cfg)
			prev = cfg
		}
		for i, y := range yamls {
			c.Logf("--- config %d\n%s", i, y)
		}
		c.ClassIf(n > 2, "sequence_3plus")

		live := c36NewFake(env)
		var prevFresh *c36Snap
		for i, y := range yamls {
			// fresh start with configuration i
			fresh := c36NewFake(env)
			lerr, aerr := c36Apply(env, fresh, y)
			if lerr != nil {
				t.Fatalf("C36 harness: generated configuration %d does not load: %v\n%s", i, lerr, y)
			}
			if aerr != nil {
				// a configuration the daemon cannot even start with is outside the property
				t.Fatalf("C36 harness: fresh start with generated configuration %d fails: %v\n%s", i, aerr, y)
			}
			if fresh.dupAdds != 0 {
				t.Fatalf("C36 fresh start with configuration %d called AddPeer for an existing session (ops %v)\n%s", i, fresh.ops, y)
			}
			want := fresh.snapshot()

			// reload (or first load) on the long-running server
			live.ops = nil
			lerr, aerr = c36Apply(env, live, y)
			if lerr != nil {
				t.Fatalf("C36 harness: configuration %d loaded once but not twice: %v", i, lerr)
			}
			if aerr != nil {
				t.Fatalf("C36 reload of configuration %d failed although a fresh start with it succeeds: %v\nserver calls: %v\nprevious config:\n%s\nnew config:\n%s", i, aerr, live.ops, c36PrevYAML(yamls, i), y)
			}
			if live.dupAdds != 0 {
				t.Fatalf("C36 reload of configuration %d called AddPeer for a session that still exists (ops %v)", i, live.ops)
			}
			got := live.snapshot()

			if i > 0 {
				// non-triviality and classes, measured on the two fresh states
				shared, changed := 0, false
				for _, name := range want.order {
					if old, ok := prevFresh.peers[name]; ok {
						shared++
						d := c36DiffPeer(old, want.peers[name])
						for _, f := range d {
							c.Class(c36ClassOfField(f))
						}
						if len(d) > 0 {
							changed = true
						}
					} else {
						c.Class("neighbour_added")
					}
				}
				for _, name := range prevFresh.order {
					if _, ok := want.peers[name]; !ok {
						c.Class("neighbour_removed")
					}
				}
				c.ClassIf(shared > 0 && !changed, "shared_unchanged_only")
				c.NonTrivialIf(changed)
				for _, op := range live.ops {
					if strings.HasPrefix(op, "DisposePeer") {
						c.Class("op_dispose")
					}
					if strings.HasPrefix(op, "Replace") {
						c.Class("op_replace_chain")
					}
				}
			}

			if diffs := c36Compare(got, want); len(diffs) > 0 {
				if sig := c36Signature(diffs); sig != "" && rec.Known(sig) {
					return
				}
				t.Fatalf("C36 violated at reload step %d: state after reload differs from a fresh start with the new configuration:\n  %s\nserver calls during the reload: %v\nprevious config:\n%s\nnew config:\n%s",
					i, strings.Join(diffs, "\n  "), live.ops, c36PrevYAML(yamls, i), y)
			}
			prevFresh = want
		}
	})
}

func c36PrevYAML(yamls []string, i int) string {
	if i == 0 {
		return "(none: first load)"
	}
	return yamls[i-1]
}

// c36Signature maps a set of differences to the signature of a listed known
// finding; "" when the differences are not exactly of one listed class.
func c36Signature(diffs []string) string {
	return ""
}

//go:build verif

package main

// C36 — configuration model, generator and YAML renderer.
//
// A configuration is drawn from a bounded grammar (policy statements, groups,
// neighbours, group->neighbour inherited settings, address families, add-path,
// TTL, hold time, passive, cluster id, route-reflector/route-server client,
// import/export chains referring to the generated policy statements). It is
// rendered as YAML and loaded by the daemon's own loader (config.GetConfig),
// so only configurations the daemon accepts are ever applied.

import (
	"fmt"
	"strings"

	"pgregory.net/rapid"
)

type c36AF struct {
	hasAddPath bool
	recv       bool
	hasSend    bool
	multipath  bool
	pathCount  uint8
	nhe        bool
}

// c36Set are the settings that exist on group and on neighbour level.
// Zero values mean "not written into the YAML".
type c36Set struct {
	localAddr string
	ttl       uint8
	auth      string
	peerAS    uint32
	localAS   uint32
	hold      uint16
	imp, exp  []string
	rs, rr    int // 0 unset, 1 false, 2 true
	passive   int
	cluster   string
	v4, v6    *c36AF
}

type c36Nbr struct {
	addr     string
	s        c36Set
	disabled bool
	mp       bool // advertise_ipv4_multiprotocol
}

type c36Grp struct {
	name string
	s    c36Set
	nbrs []c36Nbr
}

type c36RF struct {
	prefix   string
	matcher  string
	min, max uint8
}

type c36Term struct {
	rfs     []c36RF
	accept  bool
	reject  bool
	lp      *uint32
	med     *uint32
	hasPrep bool
	prepASN uint32
	prepCnt uint16
	nh      string
}

type c36Pol struct {
	name  string
	terms []c36Term
}

type c36Cfg struct {
	as      uint32
	noProto bool // no `protocols:` section at all
	pols    []c36Pol
	grps    []c36Grp
}

// ---------------------------------------------------------------------------
// pools (small on purpose: neighbours and values of A and B must collide)

var (
	c36NbrAddrs   = []string{"192.0.2.2", "192.0.2.3", "192.0.2.4", "2001:db8::2", "2001:db8::3", "192.0.2.5"}
	c36LocalAddrs = []string{"192.0.2.1", "192.0.2.100", "2001:db8::1"}
	c36TTLs       = []uint8{0, 0, 1, 64, 255}
	c36Auths      = []string{"", "", "k1", "k2"}
	c36ASNs       = []uint32{65001, 65002, 65100, 4200000001}
	c36GlobalASNs = []uint32{65100, 65100, 65200}
	c36Holds      = []uint16{0, 0, 30, 90, 180}
	c36Clusters   = []string{"", "", "1.1.1.1", "2.2.2.2"}
	c36PolNames   = []string{"P1", "P2", "P3", "P4"}
	c36RFPfx      = []string{"10.0.0.0/8", "10.1.0.0/16", "10.1.1.0/24", "192.0.2.0/24", "2001:db8::/32", "2001:db8:1::/48"}
	c36Matchers   = []string{"exact", "orlonger", "longer", "range"}
	c36Lens       = []uint8{0, 8, 16, 24, 25, 32, 48, 64, 128}
	c36LPs        = []uint32{50, 100, 200}
	c36MEDs       = []uint32{0, 10, 1337}
	c36PrepASNs   = []uint32{65100, 51324}
	c36PrepCnts   = []uint16{1, 3}
	c36NHs        = []string{"127.0.0.1", "2001:db8::ff"}
	c36PathCounts = []uint8{0, 2, 5}
)

// keepOld decides whether a value of the previous configuration is carried
// over unchanged (only when there is a previous configuration).
func c36Keep(t *rapid.T, has bool, label string) bool {
	if !has {
		return false
	}
	return rapid.IntRange(0, 9).Draw(t, label+"_keep") < 8
}

func c36Pick[T any](t *rapid.T, label string, has bool, old T, pool []T) T {
	if c36Keep(t, has, label) {
		return old
	}
	return rapid.SampledFrom(pool).Draw(t, label)
}

func c36GenAF(t *rapid.T, label string, has bool, old *c36AF) *c36AF {
	if c36Keep(t, has, label) {
		return old
	}
	if rapid.IntRange(0, 9).Draw(t, label+"_present") < 5 {
		return nil
	}
	af := &c36AF{}
	af.nhe = rapid.IntRange(0, 3).Draw(t, label+"_nhe") == 3
	if rapid.IntRange(0, 9).Draw(t, label+"_addpath") >= 4 {
		af.hasAddPath = true
		af.recv = rapid.Bool().Draw(t, label+"_recv")
		if rapid.IntRange(0, 9).Draw(t, label+"_send") >= 4 {
			af.hasSend = true
			af.multipath = rapid.Bool().Draw(t, label+"_multipath")
			af.pathCount = rapid.SampledFrom(c36PathCounts).Draw(t, label+"_pathcount")
		}
	}
	return af
}

func c36GenChain(t *rapid.T, label string, defined []string) []string {
	n := rapid.SampledFrom([]int{0, 0, 1, 1, 1, 2}).Draw(t, label+"_len")
	var out []string
	for i := 0; i < n; i++ {
		out = append(out, rapid.SampledFrom(defined).Draw(t, fmt.Sprintf("%s_%d", label, i)))
	}
	return out
}

func c36AllDefined(names, defined []string) bool {
	for _, n := range names {
		ok := false
		for _, d := range defined {
			if d == n {
				ok = true
			}
		}
		if !ok {
			return false
		}
	}
	return true
}

func c36GenTri(t *rapid.T, label string, has bool, old int) int {
	return c36Pick(t, label, has, old, []int{0, 0, 1, 2})
}

// c36GenSet draws the settings block of a group (level "g") or neighbour ("n").
// Neighbour-level settings are unset more often so that inheritance is common.
func c36GenSet(t *rapid.T, label string, old *c36Set, nbrLevel bool, defined []string) c36Set {
	has := old != nil
	var o c36Set
	if has {
		o = *old
	}
	unsetBias := func(label string) bool {
		// on neighbour level most settings stay unset (inherited)
		return nbrLevel && rapid.IntRange(0, 9).Draw(t, label+"_inherit") < 6
	}
	var s c36Set
	pick := func(name string, f func(l string)) {
		l := label + "_" + name
		f(l)
	}
	pick("localaddr", func(l string) {
		if c36Keep(t, has, l) {
			s.localAddr = o.localAddr
		} else if unsetBias(l) {
			s.localAddr = ""
		} else {
			s.localAddr = rapid.SampledFrom(append([]string{""}, c36LocalAddrs...)).Draw(t, l)
		}
	})
	pick("ttl", func(l string) {
		if c36Keep(t, has, l) {
			s.ttl = o.ttl
		} else if unsetBias(l) {
			s.ttl = 0
		} else {
			s.ttl = rapid.SampledFrom(c36TTLs).Draw(t, l)
		}
	})
	pick("auth", func(l string) {
		if c36Keep(t, has, l) {
			s.auth = o.auth
		} else if unsetBias(l) {
			s.auth = ""
		} else {
			s.auth = rapid.SampledFrom(c36Auths).Draw(t, l)
		}
	})
	pick("peeras", func(l string) {
		if c36Keep(t, has, l) {
			s.peerAS = o.peerAS
		} else if unsetBias(l) {
			s.peerAS = 0
		} else {
			s.peerAS = rapid.SampledFrom(append([]uint32{0}, c36ASNs...)).Draw(t, l)
		}
	})
	pick("localas", func(l string) {
		if c36Keep(t, has, l) {
			s.localAS = o.localAS
		} else if unsetBias(l) {
			s.localAS = 0
		} else {
			s.localAS = rapid.SampledFrom(append([]uint32{0, 0, 0}, c36ASNs...)).Draw(t, l)
		}
	})
	pick("hold", func(l string) {
		if c36Keep(t, has, l) {
			s.hold = o.hold
		} else if unsetBias(l) {
			s.hold = 0
		} else {
			s.hold = rapid.SampledFrom(c36Holds).Draw(t, l)
		}
	})
	pick("import", func(l string) {
		if c36Keep(t, has, l) && c36AllDefined(o.imp, defined) {
			s.imp = o.imp
		} else if unsetBias(l) {
			s.imp = nil
		} else {
			s.imp = c36GenChain(t, l, defined)
		}
	})
	pick("export", func(l string) {
		if c36Keep(t, has, l) && c36AllDefined(o.exp, defined) {
			s.exp = o.exp
		} else if unsetBias(l) {
			s.exp = nil
		} else {
			s.exp = c36GenChain(t, l, defined)
		}
	})
	pick("rs", func(l string) {
		if nbrLevel && !has && unsetBias(l) {
			return
		}
		s.rs = c36GenTri(t, l, has, o.rs)
	})
	pick("rr", func(l string) {
		if nbrLevel && !has && unsetBias(l) {
			return
		}
		s.rr = c36GenTri(t, l, has, o.rr)
	})
	pick("passive", func(l string) {
		if nbrLevel && !has && unsetBias(l) {
			return
		}
		s.passive = c36GenTri(t, l, has, o.passive)
	})
	pick("cluster", func(l string) {
		if c36Keep(t, has, l) {
			s.cluster = o.cluster
		} else if unsetBias(l) {
			s.cluster = ""
		} else {
			s.cluster = rapid.SampledFrom(c36Clusters).Draw(t, l)
		}
	})
	pick("v4", func(l string) {
		if !has && unsetBias(l) {
			return
		}
		s.v4 = c36GenAF(t, l, has, o.v4)
	})
	pick("v6", func(l string) {
		if !has && unsetBias(l) {
			return
		}
		s.v6 = c36GenAF(t, l, has, o.v6)
	})
	return s
}

func c36GenTerm(t *rapid.T, label string, old *c36Term) c36Term {
	if old != nil {
		k := rapid.IntRange(0, 9).Draw(t, label+"_keep")
		if k < 6 {
			return *old
		}
		if k < 8 {
			// tweak exactly one value of the term, keep its shape
			n := *old
			switch {
			case n.lp != nil:
				v := rapid.SampledFrom(c36LPs).Draw(t, label+"_lp")
				n.lp = &v
			case n.med != nil:
				v := rapid.SampledFrom(c36MEDs).Draw(t, label+"_med")
				n.med = &v
			case n.hasPrep:
				n.prepCnt = rapid.SampledFrom(c36PrepCnts).Draw(t, label+"_prepcnt")
				n.prepASN = rapid.SampledFrom(c36PrepASNs).Draw(t, label+"_prepasn")
			case n.nh != "":
				n.nh = rapid.SampledFrom(c36NHs).Draw(t, label+"_nh")
			default:
				n.accept, n.reject = !n.accept, !n.reject
			}
			return n
		}
	}
	var tm c36Term
	nrf := rapid.SampledFrom([]int{0, 0, 1, 1, 2}).Draw(t, label+"_nrf")
	for i := 0; i < nrf; i++ {
		l := fmt.Sprintf("%s_rf%d", label, i)
		rf := c36RF{
			prefix:  rapid.SampledFrom(c36RFPfx).Draw(t, l+"_pfx"),
			matcher: rapid.SampledFrom(c36Matchers).Draw(t, l+"_m"),
		}
		if rf.matcher == "range" {
			a := rapid.SampledFrom(c36Lens).Draw(t, l+"_min")
			b := rapid.SampledFrom(c36Lens).Draw(t, l+"_max")
			if a > b {
				a, b = b, a
			}
			rf.min, rf.max = a, b
		}
		tm.rfs = append(tm.rfs, rf)
	}
	switch rapid.IntRange(0, 8).Draw(t, label+"_kind") {
	case 0:
		tm.accept = true
	case 1:
		tm.reject = true
	case 2:
		v := rapid.SampledFrom(c36LPs).Draw(t, label+"_lp")
		tm.lp, tm.accept = &v, true
	case 3:
		v := rapid.SampledFrom(c36MEDs).Draw(t, label+"_med")
		tm.med, tm.accept = &v, true
	case 4:
		tm.hasPrep, tm.accept = true, true
		tm.prepASN = rapid.SampledFrom(c36PrepASNs).Draw(t, label+"_prepasn")
		tm.prepCnt = rapid.SampledFrom(c36PrepCnts).Draw(t, label+"_prepcnt")
	case 5:
		tm.nh, tm.accept = rapid.SampledFrom(c36NHs).Draw(t, label+"_nh"), true
	case 6:
		// modifies and falls through to the next term / filter of the chain
		v := rapid.SampledFrom(c36LPs).Draw(t, label+"_lp")
		tm.lp = &v
	case 7:
		v := rapid.SampledFrom(c36LPs).Draw(t, label+"_lp")
		w := rapid.SampledFrom(c36MEDs).Draw(t, label+"_med")
		tm.lp, tm.med, tm.accept = &v, &w, true
	case 8:
		v := rapid.SampledFrom(c36MEDs).Draw(t, label+"_med")
		tm.med = &v
	}
	return tm
}

func c36GenPol(t *rapid.T, label, name string, old *c36Pol) c36Pol {
	p := c36Pol{name: name}
	if old != nil {
		for i := range old.terms {
			l := fmt.Sprintf("%s_t%d", label, i)
			if rapid.IntRange(0, 9).Draw(t, l+"_drop") == 9 {
				continue
			}
			p.terms = append(p.terms, c36GenTerm(t, l, &old.terms[i]))
		}
		if rapid.IntRange(0, 9).Draw(t, label+"_addterm") == 9 {
			p.terms = append(p.terms, c36GenTerm(t, label+"_tnew", nil))
		}
		return p
	}
	n := rapid.IntRange(1, 3).Draw(t, label+"_nterms")
	for i := 0; i < n; i++ {
		p.terms = append(p.terms, c36GenTerm(t, fmt.Sprintf("%s_t%d", label, i), nil))
	}
	return p
}

func c36GenNbr(t *rapid.T, label string, old *c36Nbr, addr string, defined []string) c36Nbr {
	n := c36Nbr{addr: addr}
	var os *c36Set
	if old != nil {
		os = &old.s
		n.disabled = old.disabled
		n.mp = old.mp
	}
	n.s = c36GenSet(t, label, os, true, defined)
	if !c36Keep(t, old != nil, label+"_mp") {
		n.mp = rapid.IntRange(0, 3).Draw(t, label+"_mp") == 3
	}
	if !c36Keep(t, old != nil, label+"_disabled") {
		n.disabled = rapid.IntRange(0, 7).Draw(t, label+"_disabled") == 7
	}
	return n
}

// c36GenCfg draws a configuration; with base != nil the result is a variation
// of base (most values carried over, some redrawn, neighbours/groups/policies
// added and removed).
func c36GenCfg(t *rapid.T, label string, base *c36Cfg) *c36Cfg {
	has := base != nil
	c := &c36Cfg{}
	var b c36Cfg
	if has {
		b = *base
	}
	c.as = c36Pick(t, label+"_as", has, b.as, c36GlobalASNs)
	// rare: the whole protocols section is absent
	c.noProto = rapid.IntRange(0, 39).Draw(t, label+"_noproto") == 39

	// policy statements
	seen := map[string]bool{}
	for i := range b.pols {
		l := fmt.Sprintf("%s_pol%d", label, i)
		if rapid.IntRange(0, 9).Draw(t, l+"_drop") == 9 {
			continue
		}
		c.pols = append(c.pols, c36GenPol(t, l, b.pols[i].name, &b.pols[i]))
		seen[b.pols[i].name] = true
	}
	nnew := 0
	if !has {
		nnew = rapid.IntRange(1, 3).Draw(t, label+"_npol")
	} else if len(c.pols) == 0 || rapid.IntRange(0, 9).Draw(t, label+"_addpol") >= 8 {
		nnew = 1
	}
	for i := 0; i < nnew; i++ {
		var free []string
		for _, n := range c36PolNames {
			if !seen[n] {
				free = append(free, n)
			}
		}
		if len(free) == 0 {
			break
		}
		name := rapid.SampledFrom(free).Draw(t, fmt.Sprintf("%s_polname%d", label, i))
		seen[name] = true
		c.pols = append(c.pols, c36GenPol(t, fmt.Sprintf("%s_newpol%d", label, i), name, nil))
	}
	var defined []string
	for _, p := range c.pols {
		defined = append(defined, p.name)
	}

	// groups and neighbours
	used := map[string]bool{}
	freeAddr := func(l string) (string, bool) {
		var free []string
		for _, a := range c36NbrAddrs {
			if !used[a] {
				free = append(free, a)
			}
		}
		// rare: the same neighbour configured twice (the loader accepts it)
		if len(free) == 0 || rapid.IntRange(0, 29).Draw(t, l+"_dup") == 29 {
			free = c36NbrAddrs
		}
		a := rapid.SampledFrom(free).Draw(t, l+"_addr")
		used[a] = true
		return a, true
	}
	genGroup := func(l string, old *c36Grp, name string) c36Grp {
		g := c36Grp{name: name}
		var os *c36Set
		if old != nil {
			os = &old.s
		}
		g.s = c36GenSet(t, l, os, false, defined)
		if old != nil {
			for i := range old.nbrs {
				nl := fmt.Sprintf("%s_n%d", l, i)
				if rapid.IntRange(0, 9).Draw(t, nl+"_drop") >= 8 {
					continue
				}
				used[old.nbrs[i].addr] = true
				g.nbrs = append(g.nbrs, c36GenNbr(t, nl, &old.nbrs[i], old.nbrs[i].addr, defined))
			}
		}
		add := 0
		if old == nil {
			add = rapid.SampledFrom([]int{0, 1, 1, 2, 2, 3}).Draw(t, l+"_nnbr")
		} else if rapid.IntRange(0, 9).Draw(t, l+"_addnbr") >= 7 {
			add = 1
		}
		for i := 0; i < add; i++ {
			nl := fmt.Sprintf("%s_new%d", l, i)
			a, _ := freeAddr(nl)
			g.nbrs = append(g.nbrs, c36GenNbr(t, nl, nil, a, defined))
		}
		// preconditions of the daemon: every neighbour needs a local address
		// (bgpServer.AddPeer dereferences it) and a peer AS (the loader
		// rejects 0). Supply them on neighbour level where the group has none.
		for i := range g.nbrs {
			nl := fmt.Sprintf("%s_fix%d", l, i)
			if g.s.localAddr == "" && g.nbrs[i].s.localAddr == "" {
				g.nbrs[i].s.localAddr = rapid.SampledFrom(c36LocalAddrs).Draw(t, nl+"_localaddr")
			}
			if g.s.peerAS == 0 && g.nbrs[i].s.peerAS == 0 {
				g.nbrs[i].s.peerAS = rapid.SampledFrom(c36ASNs).Draw(t, nl+"_peeras")
			}
		}
		return g
	}
	// neighbours kept from base reserve their addresses first
	for i := range b.grps {
		l := fmt.Sprintf("%s_g%d", label, i)
		if rapid.IntRange(0, 9).Draw(t, l+"_drop") == 9 {
			continue
		}
		c.grps = append(c.grps, genGroup(l, &b.grps[i], b.grps[i].name))
	}
	ng := 0
	if !has {
		ng = rapid.SampledFrom([]int{1, 1, 2, 2, 3}).Draw(t, label+"_ngrp")
	} else if rapid.IntRange(0, 9).Draw(t, label+"_addgrp") >= 8 {
		ng = 1
	}
	for i := 0; i < ng; i++ {
		name := fmt.Sprintf("%s_grp%d", label, i)
		c.grps = append(c.grps, genGroup(name, nil, name))
	}
	return c
}

// ---------------------------------------------------------------------------
// YAML

func c36Tri(sb *strings.Builder, ind, key string, v int) {
	switch v {
	case 1:
		fmt.Fprintf(sb, "%s%s: false\n", ind, key)
	case 2:
		fmt.Fprintf(sb, "%s%s: true\n", ind, key)
	}
}

func c36List(names []string) string {
	q := make([]string, len(names))
	for i, n := range names {
		q[i] = fmt.Sprintf("%q", n)
	}
	return "[" + strings.Join(q, ", ") + "]"
}

func (af *c36AF) yaml(sb *strings.Builder, ind, key string) {
	if af == nil {
		return
	}
	if !af.hasAddPath && !af.nhe {
		fmt.Fprintf(sb, "%s%s: {}\n", ind, key)
		return
	}
	fmt.Fprintf(sb, "%s%s:\n", ind, key)
	if af.hasAddPath {
		fmt.Fprintf(sb, "%s  add_path:\n", ind)
		fmt.Fprintf(sb, "%s    receive: %v\n", ind, af.recv)
		if af.hasSend {
			fmt.Fprintf(sb, "%s    send:\n", ind)
			fmt.Fprintf(sb, "%s      multipath: %v\n", ind, af.multipath)
			fmt.Fprintf(sb, "%s      path_count: %d\n", ind, af.pathCount)
		}
	}
	if af.nhe {
		fmt.Fprintf(sb, "%s  next_hop_extended: true\n", ind)
	}
}

func (s *c36Set) yaml(sb *strings.Builder, ind string) {
	if s.localAddr != "" {
		fmt.Fprintf(sb, "%slocal_address: %q\n", ind, s.localAddr)
	}
	if s.ttl != 0 {
		fmt.Fprintf(sb, "%sttl: %d\n", ind, s.ttl)
	}
	if s.auth != "" {
		fmt.Fprintf(sb, "%sauthentication_key: %q\n", ind, s.auth)
	}
	if s.peerAS != 0 {
		fmt.Fprintf(sb, "%speer_as: %d\n", ind, s.peerAS)
	}
	if s.localAS != 0 {
		fmt.Fprintf(sb, "%slocal_as: %d\n", ind, s.localAS)
	}
	if s.hold != 0 {
		fmt.Fprintf(sb, "%shold_time: %d\n", ind, s.hold)
	}
	if len(s.imp) > 0 {
		fmt.Fprintf(sb, "%simport: %s\n", ind, c36List(s.imp))
	}
	if len(s.exp) > 0 {
		fmt.Fprintf(sb, "%sexport: %s\n", ind, c36List(s.exp))
	}
	c36Tri(sb, ind, "route_server_client", s.rs)
	c36Tri(sb, ind, "route_reflector_client", s.rr)
	c36Tri(sb, ind, "passive", s.passive)
	if s.cluster != "" {
		fmt.Fprintf(sb, "%scluster_id: %q\n", ind, s.cluster)
	}
	s.v4.yaml(sb, ind, "ipv4")
	s.v6.yaml(sb, ind, "ipv6")
}

func (c *c36Cfg) yaml() string {
	var sb strings.Builder
	fmt.Fprintf(&sb, "routing_options:\n  autonomous_system: %d\n  router_id: %q\n", c.as, c36RouterIDStr)
	sb.WriteString("policy_options:\n  policy_statements:\n")
	for _, p := range c.pols {
		fmt.Fprintf(&sb, "    - name: %q\n      terms:\n", p.name)
		for i, tm := range p.terms {
			fmt.Fprintf(&sb, "        - name: \"t%d\"\n", i)
			if len(tm.rfs) > 0 {
				sb.WriteString("          from:\n            route_filters:\n")
				for _, rf := range tm.rfs {
					fmt.Fprintf(&sb, "              - prefix: %q\n                matcher: %q\n", rf.prefix, rf.matcher)
					if rf.matcher == "range" {
						fmt.Fprintf(&sb, "                len_min: %d\n                len_max: %d\n", rf.min, rf.max)
					}
				}
			}
			sb.WriteString("          then:\n")
			if tm.lp != nil {
				fmt.Fprintf(&sb, "            local_pref: %d\n", *tm.lp)
			}
			if tm.med != nil {
				fmt.Fprintf(&sb, "            med: %d\n", *tm.med)
			}
			if tm.hasPrep {
				fmt.Fprintf(&sb, "            as_path_prepend:\n              asn: %d\n              count: %d\n", tm.prepASN, tm.prepCnt)
			}
			if tm.nh != "" {
				fmt.Fprintf(&sb, "            next_hop:\n              address: %q\n", tm.nh)
			}
			if tm.accept {
				sb.WriteString("            accept: true\n")
			}
			if tm.reject {
				sb.WriteString("            reject: true\n")
			}
			if tm.lp == nil && tm.med == nil && !tm.hasPrep && tm.nh == "" && !tm.accept && !tm.reject {
				sb.WriteString("            accept: false\n")
			}
		}
	}
	if c.noProto {
		return sb.String()
	}
	sb.WriteString("protocols:\n  bgp:\n")
	if len(c.grps) == 0 {
		sb.WriteString("    groups: []\n")
		return sb.String()
	}
	sb.WriteString("    groups:\n")
	for _, g := range c.grps {
		fmt.Fprintf(&sb, "      - name: %q\n", g.name)
		g.s.yaml(&sb, "        ")
		if len(g.nbrs) == 0 {
			continue
		}
		sb.WriteString("        neighbors:\n")
		for _, n := range g.nbrs {
			fmt.Fprintf(&sb, "          - peer_address: %q\n", n.addr)
			n.s.yaml(&sb, "            ")
			if n.disabled {
				sb.WriteString("            disabled: true\n")
			}
			if n.mp {
				sb.WriteString("            advertise_ipv4_multiprotocol: true\n")
			}
		}
	}
	return sb.String()
}

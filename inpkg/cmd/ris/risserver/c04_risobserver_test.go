//go:build verif

package risserver

// C04 at the RIS server: an ObserveRIB subscriber is a Loc-RIB client (the
// ribClient registered with MaxPaths 100) whose additions and removals travel
// through the update FIFO to the gRPC sender goroutine. The harness plays
// that goroutine with its own schedule: it dequeues a batch, "sends" part of
// it, lets the Loc-RIB change, sends the rest, … Replaying everything that
// was sent (advertisement = add, withdrawal = remove) must give, once the
// queue is empty and every dequeued update has been sent, exactly the paths
// the Loc-RIB selects for the client (all of them: MaxPaths 100).

import (
	"fmt"
	"sort"
	"testing"

	pb "github.com/bio-routing/bio-rd/cmd/ris/api"
	bnet "github.com/bio-routing/bio-rd/net"
	"github.com/bio-routing/bio-rd/route"
	routeapi "github.com/bio-routing/bio-rd/route/api"
	"github.com/bio-routing/bio-rd/routingtable"
	"github.com/bio-routing/bio-rd/routingtable/locRIB"
	"pgregory.net/rapid"
	kit "verifkit"
)

const c04oRule = "Loc-RIB with a real risserver ribClient + updateFIFO registered as ObserveRIB does (MaxPaths 100), possibly after routes existed; history of <= 40 steps: AddPath / RemovePath of 6 static or BGP paths on 3 prefixes, and sender steps (dequeue a batch when the queue is non-empty; send 1..all updates of the batch in hand), in any interleaving; at the end the sender drains everything. Replay of the sent updates must equal the Loc-RIB's paths. Non-trivial: the Loc-RIB changed while a dequeued batch was only partly sent."

func c04oKey(pfx *routeapi.Route) string {
	p := pfx.Paths[0]
	px := bnet.NewPrefixFromProtoPrefix(pfx.Pfx)
	if p.Type == routeapi.Path_Static {
		return fmt.Sprintf("%s static nh=%s", px.String(), bnet.IPFromProtoIP(p.StaticPath.NextHop).String())
	}
	b := p.BgpPath
	return fmt.Sprintf("%s bgp nh=%s src=%s lp=%d id=%d", px.String(), bnet.IPFromProtoIP(b.NextHop).String(), bnet.IPFromProtoIP(b.Source).String(), b.LocalPref, b.PathIdentifier)
}

func c04oPathKey(pfx *bnet.Prefix, p *route.Path) string {
	return c04oKey(&routeapi.Route{Pfx: pfx.ToProto(), Paths: []*routeapi.Path{p.ToProto()}})
}

func TestVerifC04RISObserver(t *testing.T) {
	rec := kit.NewRecorder(t, "C04", c04oRule)
	pfxs := []*bnet.Prefix{
		bnet.NewPfx(bnet.IPv4FromOctets(10, 0, 0, 0), 8).Ptr(),
		bnet.NewPfx(bnet.IPv4FromOctets(10, 1, 0, 0), 16).Ptr(),
		bnet.NewPfx(bnet.IPv4FromOctets(192, 0, 2, 0), 24).Ptr(),
	}
	rapid.Check(t, func(t *rapid.T) {
		cas := rec.Case()
		defer cas.Done()
		static := rapid.Bool().Draw(t, "static")
		pool := make([]*route.Path, 6)
		for i := range pool {
			if static {
				pool[i] = &route.Path{Type: route.StaticPathType, StaticPath: &route.StaticPath{NextHop: bnet.IPv4FromOctets(198, 51, 100, uint8(i+1)).Ptr()}}
			} else {
				b := route.NewBGPPath()
				b.BGPPathA.NextHop = bnet.IPv4FromOctets(203, 0, 113, uint8(i+1)).Ptr()
				b.BGPPathA.Source = bnet.IPv4FromOctets(198, 51, 100, uint8(i+1)).Ptr()
				b.BGPPathA.LocalPref = uint32(100 + 10*(i%3))
				b.PathIdentifier = uint32(i)
				pool[i] = &route.Path{Type: route.BGPPathType, BGPPath: b}
			}
		}
		rib := locRIB.New("c04o")
		stored := make([]map[int]*route.Path, len(pfxs))
		for i := range stored {
			stored[i] = map[int]*route.Path{}
		}
		change := func(label string) {
			i := rapid.IntRange(0, len(pfxs)-1).Draw(t, label+"_pfx")
			j := rapid.IntRange(0, len(pool)-1).Draw(t, label+"_path")
			if p, ok := stored[i][j]; ok {
				cas.Logf("RemovePath %s pool[%d]", pfxs[i], j)
				rib.RemovePath(pfxs[i], p)
				delete(stored[i], j)
			} else {
				p := pool[j].Copy()
				cas.Logf("AddPath %s pool[%d]", pfxs[i], j)
				rib.AddPath(pfxs[i], p)
				stored[i][j] = p
			}
		}
		for k, n := 0, rapid.IntRange(0, 4).Draw(t, "preload"); k < n; k++ {
			change("pre")
		}
		fifo := newUpdateFIFO()
		rc := newRIBClient(fifo)
		rib.RegisterWithOptions(rc, routingtable.ClientOptions{MaxPaths: 100})
		observer := map[string]int{}
		var batch []*pb.RIBUpdate
		queued := func() int {
			fifo.mu.Lock()
			defer fifo.mu.Unlock()
			return len(fifo.data)
		}
		send := func(n int) {
			for ; n > 0 && len(batch) > 0; n-- {
				u := batch[0]
				batch = batch[1:]
				if u.EndOfRib || u.Route == nil {
					continue
				}
				k := c04oKey(u.Route)
				if u.Advertisement {
					observer[k]++
				} else if observer[k] > 0 {
					observer[k]--
				}
			}
		}
		torn := false
		steps := rapid.IntRange(1, 40).Draw(t, "steps")
		for s := 0; s < steps; s++ {
			switch rapid.SampledFrom([]string{"change", "change", "dequeue", "send"}).Draw(t, "op") {
			case "change":
				if len(batch) > 0 {
					torn = true
				}
				change("chg")
			case "dequeue":
				if len(batch) == 0 && queued() > 0 {
					batch = fifo.dequeue()
					cas.Logf("sender: dequeued %d updates", len(batch))
				}
			case "send":
				if len(batch) > 0 {
					n := rapid.IntRange(1, len(batch)).Draw(t, "n")
					cas.Logf("sender: sends %d of %d", n, len(batch))
					send(n)
				}
			}
		}
		// changes stop: the sender drains everything
		for len(batch) > 0 || queued() > 0 {
			if len(batch) == 0 {
				batch = fifo.dequeue()
			}
			send(len(batch))
		}
		cas.NonTrivialIf(torn)
		cas.ClassIf(torn, "rib_changed_while_batch_partly_sent")
		cas.ClassIf(static, "static_paths")
		var got, want []string
		for k, n := range observer {
			for ; n > 0; n-- {
				got = append(got, k)
			}
		}
		for i, m := range stored {
			for _, p := range m {
				want = append(want, c04oPathKey(pfxs[i], p))
			}
		}
		sort.Strings(got)
		sort.Strings(want)
		if fmt.Sprint(got) != fmt.Sprint(want) {
			t.Fatalf("the ObserveRIB subscriber's view after replaying every update it was sent differs from the Loc-RIB:\n  subscriber %v\n  Loc-RIB    %v\n%s", got, want, cas.String())
		}
		rib.Unregister(rc)
	})
}

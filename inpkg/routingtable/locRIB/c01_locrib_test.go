//go:build verif

package locRIB_test

import (
	"testing"

	bnet "github.com/bio-routing/bio-rd/net"
	"github.com/bio-routing/bio-rd/route"
	"github.com/bio-routing/bio-rd/routingtable/locRIB"
	"pgregory.net/rapid"
	kit "verifkit"
)

func c01Pfx(b kit.Bits) *bnet.Prefix {
	if b.W == 32 {
		return bnet.NewPfx(bnet.IPv4(b.U32()), uint8(b.L)).Ptr()
	}
	hi, lo := b.HiLo()
	return bnet.NewPfx(bnet.IPv6(hi, lo), uint8(b.L)).Ptr()
}

func c01Bits(p *bnet.Prefix) kit.Bits {
	var b kit.Bits
	ip := p.Addr()
	if ip.IsIPv4() {
		b.W = 32
	} else {
		b.W = 128
	}
	copy(b.A[:], ip.Bytes())
	b.L = int(p.Len())
	return b
}

func c01Path(w, id int) *route.Path {
	var nh bnet.IP
	if w == 32 {
		nh = bnet.IPv4FromOctets(192, 0, 2, uint8(id+1))
	} else {
		nh = bnet.IPv6(0x20010db800000000, uint64(id+1))
	}
	return &route.Path{Type: route.StaticPathType, StaticPath: &route.StaticPath{NextHop: nh.Ptr()}}
}

// c01RIB adapts locRIB.LocRIB (no clients registered: client views are C04's
// job) to the kit machine.
type c01RIB struct {
	w     int
	rib   *locRIB.LocRIB
	paths [4]*route.Path
	ids   map[*route.Path]int
}

func newC01RIB(w int) *c01RIB {
	a := &c01RIB{w: w, rib: locRIB.New("c01"), ids: map[*route.Path]int{}}
	for i := range a.paths {
		a.paths[i] = c01Path(w, i)
		a.ids[a.paths[i]] = i
	}
	return a
}

func (a *c01RIB) obj(id int, fresh bool) *route.Path {
	if fresh {
		return c01Path(a.w, id)
	}
	return a.paths[id]
}

func (a *c01RIB) routes(rs []*route.Route) []kit.Bits {
	out := make([]kit.Bits, 0, len(rs))
	for _, r := range rs {
		out = append(out, c01Bits(r.Prefix()))
	}
	return out
}

func (a *c01RIB) Get(q kit.Bits) ([]int, bool) {
	r := a.rib.Get(c01Pfx(q))
	if r == nil {
		return nil, false
	}
	ids := []int{}
	if !kit.SamePrefix(c01Bits(r.Prefix()), q) {
		ids = append(ids, -2)
	}
	for _, p := range r.Paths() {
		id, ok := a.ids[p]
		if !ok {
			id = -1
		}
		ids = append(ids, id)
	}
	return ids, true
}
func (a *c01RIB) LPM(q kit.Bits) []kit.Bits       { return a.routes(a.rib.LPM(c01Pfx(q))) }
func (a *c01RIB) GetLonger(q kit.Bits) []kit.Bits { return a.routes(a.rib.GetLonger(c01Pfx(q))) }
func (a *c01RIB) Dump() []kit.Bits                { return a.routes(a.rib.Dump()) }
func (a *c01RIB) Count() int64 {
	c := int64(a.rib.Count())
	if rc := a.rib.RouteCount(); rc != c {
		return -1000000 - rc // Count and RouteCount disagree
	}
	return c
}
func (a *c01RIB) Add(p kit.Bits, id int) { a.rib.AddPath(c01Pfx(p), a.paths[id]) }
func (a *c01RIB) Remove(p kit.Bits, id int, fresh bool) {
	a.rib.RemovePath(c01Pfx(p), a.obj(id, fresh))
}
func (a *c01RIB) ReplaceAll(p kit.Bits, id int) { panic("not offered") }
func (a *c01RIB) ReplaceOne(p kit.Bits, old, id int, fresh bool) {
	a.rib.ReplacePath(c01Pfx(p), a.obj(old, fresh), a.paths[id])
}
func (a *c01RIB) RemovePfx(p kit.Bits) { panic("not offered") }

func c01RunRIB(t *testing.T, w int) {
	rec := kit.NewRecorder(t, "C01", kit.PfxMachineRule)
	rapid.Check(t, func(t *rapid.T) {
		c := rec.Case()
		defer c.Done()
		c.Logf("LocRIB")
		kit.RunPfxMachine(t, c, w, newC01RIB(w), kit.PfxCaps{ReplaceOne: true})
	})
}

func TestVerifC01LocRIBV4(t *testing.T) { c01RunRIB(t, 32) }
func TestVerifC01LocRIBV6(t *testing.T) { c01RunRIB(t, 128) }

// TestVerifC01RegressionLocRIBGetLongerAbsent: the GetLonger defect as seen
// through LocRIB (fixed: see known_findings.txt).
func TestVerifC01RegressionLocRIBGetLongerAbsent(t *testing.T) {
	for _, w := range []int{32, 128} {
		var base kit.Bits
		if w == 32 {
			base = kit.V4(0x0a000000, 32)
		} else {
			base = kit.V6(0x20010db800000000, 0, 128)
		}
		q := base.WithLen(8).Canon()
		lo := base.WithLen(9).Canon()
		a := newC01RIB(w)
		m := kit.NewPfxModel()
		a.Add(lo, 0)
		m.Add(lo, 0)
		if msg := kit.CheckPfxTable(m, a, []kit.Bits{q, lo, base.WithLen(0).Canon()}); msg != "" {
			t.Fatalf("w=%d: %s", w, msg)
		}
	}
}

//go:build verif

package locRIB_test

// C04 — Loc-RIB clients hold exactly the selected paths they asked for.
//
// Black-box state machine over one locRIB.LocRIB (exported API only) with
// recording RouteTableClients. The reference model is a plain
// map[prefix]set-of-pool-paths for the table content; the expected view of a
// client is the first n paths of the Loc-RIB's *current* selection
// (rib.Get(pfx).Paths()), n = 1 (best only) / ECMPPathCount (ECMP only) /
// min(MaxPaths, len) — selection itself is C02/C03's business.

import (
	"fmt"
	"sort"
	"strings"
	"testing"

	bnet "github.com/bio-routing/bio-rd/net"
	"github.com/bio-routing/bio-rd/protocols/bgp/types"
	"github.com/bio-routing/bio-rd/route"
	"github.com/bio-routing/bio-rd/routingtable"
	"github.com/bio-routing/bio-rd/routingtable/locRIB"
	"pgregory.net/rapid"
	kit "verifkit"
)

const c04Rule = "state machine on one LocRIB: 4 prefixes of one family (nested + siblings) x pool of 8 pairwise distinct paths (BGP with tie-prone attributes from 4 sources x 2 path ids, or all static); actions AddPath (fresh copy, never a path already stored for the prefix) / RemovePath (present or absent, Compare-equal copy or stored pointer) / ReplacePath (present or absent old) / Register (best-only | ECMP-only | max-paths 1..4) / Unregister / RefreshClient. After every action every registered client's accumulated set (initial dump + adds - removes, by value) must equal per prefix the first n paths of the LocRIB's current selection; unregistered clients must see no further call. Non-trivial: a client registered after routes existed whose expected set for one prefix changed >= 2 times including a shrink."

// ---------------------------------------------------------------------------
// canonical rendering of a path (independent of route.Compare)

func c04Key(p *route.Path) string {
	if p == nil {
		return "<nil>"
	}
	switch p.Type {
	case route.StaticPathType:
		if p.StaticPath == nil || p.StaticPath.NextHop == nil {
			return "static <nil>"
		}
		return "static nh=" + p.StaticPath.NextHop.String()
	case route.BGPPathType:
		b := p.BGPPath
		if b == nil || b.BGPPathA == nil {
			return "bgp <nil>"
		}
		a := b.BGPPathA
		as := "<nil>"
		if b.ASPath != nil {
			var sb strings.Builder
			for _, seg := range *b.ASPath {
				fmt.Fprintf(&sb, "[%d:%v]", seg.Type, seg.ASNs)
			}
			as = sb.String()
		}
		comm := ""
		if b.Communities != nil {
			comm = fmt.Sprintf(" comm=%v", []uint32(*b.Communities))
		}
		return fmt.Sprintf("bgp src=%s id=%d nh=%s lp=%d med=%d org=%d ebgp=%v as=%s/%d%s",
			a.Source.String(), b.PathIdentifier, a.NextHop.String(), a.LocalPref, a.MED, a.Origin, a.EBGP, as, b.ASPathLen, comm)
	}
	return fmt.Sprintf("type%d", p.Type)
}

func c04SetString(m map[string]bool) string {
	ks := make([]string, 0, len(m))
	for k := range m {
		ks = append(ks, k)
	}
	sort.Strings(ks)
	return "{" + strings.Join(ks, " ; ") + "}"
}

// ---------------------------------------------------------------------------
// recording client

type c04Client struct {
	id         int
	opt        routingtable.ClientOptions
	registered bool
	late       bool                      // registered while routes existed
	held       map[int]map[string]bool   // prefix index -> set of path keys
	refresh    map[int][]map[string]bool // set while a RefreshClient call is running
	stray      []string                  // calls after unregistration / for unknown prefixes
	lastView   map[int]string            // previous expected view per prefix (evidence)
	changes    map[int]int
	shrinks    map[int]int
	lastSize   map[int]int
	st         *c04State
}

func (c *c04Client) pfx(p *bnet.Prefix) int {
	for i, u := range c.st.pfxs {
		if p != nil && u.Equal(p) {
			return i
		}
	}
	c.stray = append(c.stray, fmt.Sprintf("call for a prefix that was never inserted: %v", p))
	return -1
}

func (c *c04Client) gate(what string, p *bnet.Prefix, pa *route.Path) bool {
	if !c.registered {
		c.stray = append(c.stray, fmt.Sprintf("%s(%v, %s) after Unregister", what, p, c04Key(pa)))
		return false
	}
	return true
}

func (c *c04Client) add(what string, p *bnet.Prefix, pa *route.Path) {
	if !c.gate(what, p, pa) {
		return
	}
	i := c.pfx(p)
	if i < 0 {
		return
	}
	if c.held[i] == nil {
		c.held[i] = map[string]bool{}
	}
	c.held[i][c04Key(pa)] = true
}

func (c *c04Client) AddPath(p *bnet.Prefix, pa *route.Path) error {
	c.add("AddPath", p, pa)
	return nil
}

func (c *c04Client) AddPathInitialDump(p *bnet.Prefix, pa *route.Path) error {
	c.add("AddPathInitialDump", p, pa)
	return nil
}

func (c *c04Client) RemovePath(p *bnet.Prefix, pa *route.Path) bool {
	if !c.gate("RemovePath", p, pa) {
		return false
	}
	i := c.pfx(p)
	if i < 0 {
		return false
	}
	delete(c.held[i], c04Key(pa))
	return true
}

func (c *c04Client) ReplacePath(p *bnet.Prefix, old, new *route.Path) {
	if !c.gate("ReplacePath", p, new) {
		return
	}
	i := c.pfx(p)
	if i < 0 {
		return
	}
	delete(c.held[i], c04Key(old))
	if c.held[i] == nil {
		c.held[i] = map[string]bool{}
	}
	c.held[i][c04Key(new)] = true
}

func (c *c04Client) RefreshRoute(p *bnet.Prefix, paths []*route.Path) {
	if !c.gate("RefreshRoute", p, nil) {
		return
	}
	i := c.pfx(p)
	if i < 0 {
		return
	}
	if c.refresh == nil {
		c.stray = append(c.stray, fmt.Sprintf("RefreshRoute(%v) outside of a RefreshClient call", p))
		return
	}
	s := map[string]bool{}
	for _, pa := range paths {
		s[c04Key(pa)] = true
	}
	c.refresh[i] = append(c.refresh[i], s)
}

func (c *c04Client) EndOfRIB() {
	if !c.registered {
		c.stray = append(c.stray, "EndOfRIB after Unregister")
	}
}

func (c *c04Client) Dispose() {
	if !c.registered {
		c.stray = append(c.stray, "Dispose after Unregister")
	}
}

// ---------------------------------------------------------------------------
// state

type c04State struct {
	rib     *locRIB.LocRIB
	pfxs    []*bnet.Prefix
	pool    []*route.Path
	stored  []map[int]bool // model: prefix index -> pool indices stored
	live    []*c04Client
	dead    []*c04Client
	nextID  int
	routes  int
	cas     *kit.Case
	ecmpCut bool
}

var c04Universes = map[int][][]string{
	4: {
		{"10.0.0.0/8", "10.0.0.0/16", "10.1.0.0/16", "10.0.0.0/24"},
		{"0.0.0.0/0", "128.0.0.0/1", "192.168.7.0/24", "192.168.7.128/25"},
		{"172.16.0.0/12", "172.16.0.1/32", "172.16.0.0/32", "172.31.255.0/24"},
	},
	6: {
		{"2001:db8::/32", "2001:db8::/48", "2001:db8:1::/48", "2001:db8:0:0:8000::/65"},
		{"::/0", "8000::/1", "2001:db8:a:b::/64", "2001:db8:a:b:8000::/65"},
		{"fe80::/10", "fe80::1/128", "fe80::/128", "fe80:0:0:1::/64"},
	},
}

func c04MustPfx(s string) *bnet.Prefix {
	p, err := bnet.PrefixFromString(s)
	if err != nil {
		panic(err)
	}
	return p
}

func c04IP(s string) *bnet.IP {
	ip, err := bnet.IPFromString(s)
	if err != nil {
		panic(err)
	}
	return &ip
}

func c04GenPool(t *rapid.T, static bool) []*route.Path {
	pool := make([]*route.Path, 8)
	if static {
		for i := range pool {
			pool[i] = &route.Path{Type: route.StaticPathType, StaticPath: &route.StaticPath{NextHop: c04IP(fmt.Sprintf("192.0.2.%d", i+1))}}
		}
		return pool
	}
	for i := range pool {
		asl := rapid.IntRange(1, 2).Draw(t, fmt.Sprintf("p%d_aslen", i))
		asns := make([]uint32, asl)
		for k := range asns {
			asns[k] = uint32(65000 + 10*i + k)
		}
		asp := types.NewASPath(asns)
		pool[i] = &route.Path{
			Type: route.BGPPathType,
			BGPPath: &route.BGPPath{
				PathIdentifier: uint32(i / 4),
				ASPath:         asp,
				ASPathLen:      asp.Length(),
				BGPPathA: &route.BGPPathA{
					Source:    c04IP(fmt.Sprintf("198.51.100.%d", i%4+1)),
					NextHop:   c04IP(fmt.Sprintf("203.0.113.%d", rapid.IntRange(1, 2).Draw(t, fmt.Sprintf("p%d_nh", i)))),
					LocalPref: rapid.SampledFrom([]uint32{100, 100, 200}).Draw(t, fmt.Sprintf("p%d_lp", i)),
					MED:       rapid.SampledFrom([]uint32{0, 0, 5}).Draw(t, fmt.Sprintf("p%d_med", i)),
					Origin:    rapid.SampledFrom([]uint8{0, 0, 1}).Draw(t, fmt.Sprintf("p%d_org", i)),
					EBGP:      rapid.Bool().Draw(t, fmt.Sprintf("p%d_ebgp", i)),
				},
			},
		}
	}
	// twins: pool[i] (i >= 4) may be the same announcement as pool[i-4] after a different import policy: equal in
	// everything path selection looks at (and in source and path id), different only in its communities. An
	// Adj-RIB-In never holds both for one prefix, but it replaces one by the other (ReplacePath) when its import
	// policy is replaced.
	for i := 4; i < len(pool); i++ {
		if rapid.Bool().Draw(t, fmt.Sprintf("p%d_twin", i)) {
			tw := pool[i-4].Copy()
			comm := types.Communities{uint32(65000<<16 | i)}
			tw.BGPPath.Communities = &comm
			pool[i] = tw
		}
	}
	return pool
}

// c04Twin returns the pool index of j's twin (same source and path id, selection-equal), or -1.
func c04Twin(pool []*route.Path, j int) int {
	for k := range pool {
		if k == j || pool[k].Type != route.BGPPathType || pool[j].Type != route.BGPPathType {
			continue
		}
		a, b := pool[k].BGPPath, pool[j].BGPPath
		if a.PathIdentifier == b.PathIdentifier && a.BGPPathA.Source.Compare(b.BGPPathA.Source) == 0 {
			return k
		}
	}
	return -1
}

// expected view of a client for prefix i: first n paths of the current selection.
func (s *c04State) expected(c *c04Client, i int) map[string]bool {
	r := s.rib.Get(s.pfxs[i])
	paths := r.Paths()
	n := 0
	switch {
	case c.opt.BestOnly:
		n = 1
	case c.opt.EcmpOnly:
		n = int(r.ECMPPathCount())
	default:
		n = int(c.opt.MaxPaths)
	}
	if n > len(paths) {
		n = len(paths)
	}
	out := map[string]bool{}
	for _, p := range paths[:n] {
		out[c04Key(p)] = true
	}
	return out
}

func c04SameSet(a, b map[string]bool) bool {
	if len(a) != len(b) {
		return false
	}
	for k := range a {
		if !b[k] {
			return false
		}
	}
	return true
}

func (s *c04State) check(t *rapid.T) {
	// harness/model sync: table content per prefix equals the model
	for i, pfx := range s.pfxs {
		want := map[string]bool{}
		for j := range s.stored[i] {
			want[c04Key(s.pool[j])] = true
		}
		got := map[string]bool{}
		paths := s.rib.Get(pfx).Paths()
		for _, p := range paths {
			got[c04Key(p)] = true
		}
		if len(paths) != len(s.stored[i]) || !c04SameSet(got, want) {
			t.Fatalf("LocRIB content for %s is %s (%d paths), model says %s", pfx, c04SetString(got), len(paths), c04SetString(want))
		}
	}
	for _, c := range s.live {
		if len(c.stray) > 0 {
			t.Fatalf("client %d: %s", c.id, c.stray[0])
		}
		for i, pfx := range s.pfxs {
			want := s.expected(c, i)
			got := c.held[i]
			if !c04SameSet(got, want) {
				t.Fatalf("client %d (%+v) holds %s for %s, the first paths of the current selection its option admits are %s (selection: %s)",
					c.id, c.opt, c04SetString(got), pfx, c04SetString(want), c04Selection(s.rib.Get(pfx)))
			}
			// evidence bookkeeping
			v := c04SetString(want)
			if last, ok := c.lastView[i]; ok && last != v {
				c.changes[i]++
				if len(want) < c.lastSize[i] {
					c.shrinks[i]++
					if c.opt.EcmpOnly {
						s.ecmpCut = true
					}
				}
			}
			c.lastView[i] = v
			c.lastSize[i] = len(want)
		}
	}
	for _, c := range s.dead {
		if len(c.stray) > 0 {
			t.Fatalf("unregistered client %d still receives calls: %s", c.id, c.stray[0])
		}
	}
}

func c04Selection(r *route.Route) string {
	if r == nil {
		return "no route"
	}
	var sb strings.Builder
	fmt.Fprintf(&sb, "ecmp=%d", r.ECMPPathCount())
	for k, p := range r.Paths() {
		fmt.Fprintf(&sb, " #%d %s", k, c04Key(p))
	}
	return sb.String()
}

func (s *c04State) nonTrivial() bool {
	for _, c := range append(append([]*c04Client{}, s.live...), s.dead...) {
		if !c.late {
			continue
		}
		for i := range s.pfxs {
			if c.changes[i] >= 2 && c.shrinks[i] >= 1 {
				return true
			}
		}
	}
	return false
}

func (s *c04State) anyRoutes() bool {
	for _, m := range s.stored {
		if len(m) > 0 {
			return true
		}
	}
	return false
}

// storedPtr returns the pointer the LocRIB holds for pool path j of prefix i.
func (s *c04State) storedPtr(i, j int) *route.Path {
	k := c04Key(s.pool[j])
	for _, p := range s.rib.Get(s.pfxs[i]).Paths() {
		if c04Key(p) == k {
			return p
		}
	}
	return nil
}

func c04Machine(t *rapid.T, cas *kit.Case) *c04State {
	fam := rapid.SampledFrom([]int{4, 6}).Draw(t, "family")
	uni := c04Universes[fam][rapid.IntRange(0, 2).Draw(t, "universe")]
	static := rapid.IntRange(0, 5).Draw(t, "static") == 0
	s := &c04State{rib: locRIB.New("c04"), cas: cas}
	for _, u := range uni {
		s.pfxs = append(s.pfxs, c04MustPfx(u))
		s.stored = append(s.stored, map[int]bool{})
	}
	s.pool = c04GenPool(t, static)
	cas.Logf("family v%d universe %v static=%v", fam, uni, static)
	for j, p := range s.pool {
		cas.Logf("pool[%d] %s", j, c04Key(p))
	}
	cas.ClassIf(fam == 6, "v6")
	cas.ClassIf(fam == 4, "v4")
	cas.ClassIf(static, "static_paths")
	cas.ClassIf(!static, "bgp_paths")
	return s
}

func (s *c04State) actions() map[string]func(*rapid.T) {
	cas := s.cas
	pickPfx := func(t *rapid.T) int { return rapid.IntRange(0, len(s.pfxs)-1).Draw(t, "pfx") }
	add := func(t *rapid.T) {
		i := pickPfx(t)
		var free []int
		for j := range s.pool {
			if !s.stored[i][j] {
				free = append(free, j)
			}
		}
		if len(free) == 0 {
			t.Skip("all pool paths stored")
		}
		j := rapid.SampledFrom(free).Draw(t, "path")
		if tw := c04Twin(s.pool, j); tw >= 0 && s.stored[i][tw] {
			t.Skip("the same announcement is already stored in another form")
		}
		initial := rapid.IntRange(0, 7).Draw(t, "initial") == 0
		cas.Logf("AddPath %s pool[%d] initialdump=%v", s.pfxs[i], j, initial)
		if initial {
			s.rib.AddPathInitialDump(s.pfxs[i], s.pool[j].Copy())
		} else {
			s.rib.AddPath(s.pfxs[i], s.pool[j].Copy())
		}
		s.stored[i][j] = true
	}
	remove := func(t *rapid.T) {
		i := pickPfx(t)
		j := rapid.IntRange(0, len(s.pool)-1).Draw(t, "path")
		if !s.stored[i][j] && rapid.IntRange(0, 3).Draw(t, "allow_absent") != 0 {
			// bias towards present paths
			var have []int
			for k := range s.pool {
				if s.stored[i][k] {
					have = append(have, k)
				}
			}
			if len(have) > 0 {
				j = rapid.SampledFrom(have).Draw(t, "present")
			}
		}
		p := s.pool[j].Copy()
		same := false
		if s.stored[i][j] && rapid.Bool().Draw(t, "same_pointer") {
			if sp := s.storedPtr(i, j); sp != nil {
				p, same = sp, true
			}
		}
		cas.Logf("RemovePath %s pool[%d] present=%v samepointer=%v", s.pfxs[i], j, s.stored[i][j], same)
		cas.ClassIf(!s.stored[i][j], "remove_absent")
		s.rib.RemovePath(s.pfxs[i], p)
		delete(s.stored[i], j)
	}
	replace := func(t *rapid.T) {
		i := pickPfx(t)
		var have, free []int
		for k := range s.pool {
			if s.stored[i][k] {
				have = append(have, k)
			} else {
				free = append(free, k)
			}
		}
		if len(free) == 0 {
			t.Skip("nothing to replace with")
		}
		nw := rapid.SampledFrom(free).Draw(t, "new")
		old := -1
		if len(have) > 0 && rapid.IntRange(0, 5).Draw(t, "old_present") != 0 {
			old = rapid.SampledFrom(have).Draw(t, "old")
		} else {
			// an old path that is not stored (and different from the new one)
			var cand []int
			for _, k := range free {
				// (an absent path whose twin is stored is no "absent" path for an Adj-RIB-In: it holds one form of
				// an announcement and names exactly that form when it replaces it)
				if tw := c04Twin(s.pool, k); k != nw && !(tw >= 0 && s.stored[i][tw]) {
					cand = append(cand, k)
				}
			}
			if len(cand) == 0 {
				t.Skip("no absent old path")
			}
			old = rapid.SampledFrom(cand).Draw(t, "old_absent")
		}
		if tw := c04Twin(s.pool, nw); tw >= 0 && tw != old && s.stored[i][tw] {
			t.Skip("the new path's twin is stored")
		}
		hit := s.stored[i][old]
		cas.ClassIf(hit && c04Twin(s.pool, nw) == old, "replace_by_selection_equal_twin")
		cas.Logf("ReplacePath %s pool[%d] -> pool[%d] oldpresent=%v", s.pfxs[i], old, nw, hit)
		cas.ClassIf(hit, "replace_hit")
		cas.ClassIf(!hit, "replace_miss")
		s.rib.ReplacePath(s.pfxs[i], s.pool[old].Copy(), s.pool[nw].Copy())
		if hit {
			delete(s.stored[i], old)
			s.stored[i][nw] = true
		}
	}
	register := func(t *rapid.T) {
		if len(s.live) >= 4 {
			t.Skip("enough clients")
		}
		var opt routingtable.ClientOptions
		kind := rapid.IntRange(0, 3).Draw(t, "opt")
		switch kind {
		case 0:
			opt.BestOnly = true
		case 1:
			opt.EcmpOnly = true
		default:
			opt.MaxPaths = uint(rapid.IntRange(1, 4).Draw(t, "maxpaths"))
		}
		c := &c04Client{id: s.nextID, opt: opt, registered: true, late: s.anyRoutes(), st: s,
			held: map[int]map[string]bool{}, lastView: map[int]string{}, changes: map[int]int{}, shrinks: map[int]int{}, lastSize: map[int]int{}}
		s.nextID++
		cas.Logf("Register client %d %+v (routes exist: %v)", c.id, opt, c.late)
		cas.ClassIf(c.late, "late_registration")
		cas.ClassIf(opt.BestOnly, "client_best")
		cas.ClassIf(opt.EcmpOnly, "client_ecmp")
		cas.ClassIf(!opt.BestOnly && !opt.EcmpOnly, "client_maxpaths")
		s.live = append(s.live, c)
		if opt.BestOnly && rapid.Bool().Draw(t, "plain_register") {
			s.rib.Register(c)
		} else {
			s.rib.RegisterWithOptions(c, opt)
		}
	}
	unregister := func(t *rapid.T) {
		if len(s.live) == 0 {
			t.Skip("no client")
		}
		k := rapid.IntRange(0, len(s.live)-1).Draw(t, "client")
		c := s.live[k]
		cas.Logf("Unregister client %d", c.id)
		cas.Class("unregister")
		s.rib.Unregister(c)
		c.registered = false
		s.live = append(s.live[:k:k], s.live[k+1:]...)
		s.dead = append(s.dead, c)
	}
	refresh := func(t *rapid.T) {
		if len(s.live) == 0 {
			t.Skip("no client")
		}
		c := s.live[rapid.IntRange(0, len(s.live)-1).Draw(t, "client")]
		cas.Logf("RefreshClient client %d", c.id)
		cas.Class("refresh")
		c.refresh = map[int][]map[string]bool{}
		s.rib.RefreshClient(c)
		got := c.refresh
		c.refresh = nil
		for i, pfx := range s.pfxs {
			want := s.expected(c, i)
			if len(s.stored[i]) == 0 {
				if len(got[i]) != 0 {
					t.Fatalf("RefreshClient(client %d) presented %s, which has no route", c.id, pfx)
				}
				continue
			}
			if len(got[i]) != 1 {
				t.Fatalf("RefreshClient(client %d) presented %s %d times, want once", c.id, pfx, len(got[i]))
			}
			if !c04SameSet(got[i][0], want) {
				t.Fatalf("RefreshClient(client %d, %+v) presented %s for %s, expected %s", c.id, c.opt, c04SetString(got[i][0]), pfx, c04SetString(want))
			}
		}
	}
	return map[string]func(*rapid.T){
		"add1": add, "add2": add, "add3": add,
		"remove1": remove, "remove2": remove,
		"replace":    replace,
		"register":   register,
		"unregister": unregister,
		"refresh":    refresh,
		"":           s.check,
	}
}

func TestVerifC04Clients(t *testing.T) {
	rec := kit.NewRecorder(t, "C04", c04Rule)
	rapid.Check(t, func(t *rapid.T) {
		cas := rec.Case()
		s := c04Machine(t, cas)
		defer func() {
			cas.NonTrivialIf(s.nonTrivial())
			cas.ClassIf(s.ecmpCut, "ecmp_client_shrink")
			cas.Done()
		}()
		t.Repeat(s.actions())
	})
}

//go:build verif

package locRIB_test

// C03 at the Loc-RIB: for 2..5 BGP paths of one prefix the Loc-RIB's best path
// is never one the reference decision process (kit.SelRefCompare — exactly
// the steps the statement lists) strictly rejects in favour of another
// candidate.

import (
	"testing"

	bnet "github.com/bio-routing/bio-rd/net"
	"github.com/bio-routing/bio-rd/route"
	"github.com/bio-routing/bio-rd/routingtable/locRIB"
	"pgregory.net/rapid"
	kit "verifkit"
)

const c03LocRIBRule = "2..5 pairwise distinct BGP paths for one prefix (later ones mostly one-attribute mutations of earlier ones) added to a LocRIB in generated order; checked: no candidate is strictly preferred by the reference decision process over LocRIB.Get(pfx).BestPath(). Non-trivial: the best path beats its strongest competitor at the identifier step or later."

func TestVerifC03LocRIBBest(t *testing.T) {
	rec := kit.NewRecorder(t, "C03", c03LocRIBRule)
	pfx := bnet.NewPfx(bnet.IPv4(0xc6336400), 24).Ptr()
	rapid.Check(t, func(t *rapid.T) {
		c := rec.Case()
		defer c.Done()
		d := kit.GenSelDomain(t)
		specs := d.GenSet(t, 2, 5, false)
		rib := locRIB.New("c03")
		objs := make([]*route.Path, len(specs))
		for i, s := range specs {
			objs[i] = selToPath(s)
			c.Logf("p%d=%v", i, s)
			rib.AddPath(pfx, objs[i])
		}
		best := rib.Get(pfx).BestPath()
		bi := -1
		for i, o := range objs {
			if o == best {
				bi = i
			}
		}
		if bi < 0 {
			t.Fatalf("best path is not one of the added objects")
		}
		// reference maximum (the reference is a total preorder on BGP paths)
		late := kit.SelStepNone
		minStep := 99
		for i := range specs {
			if i == bi {
				continue
			}
			sign, step := kit.SelRefCompare(specs[i], specs[bi])
			if sign > 0 {
				t.Fatalf("Loc-RIB best path p%d loses to p%d at step %s of the decision process\nbest p%d=%v\nbetter p%d=%v", bi, i, kit.SelStepName(step), bi, specs[bi], i, specs[i])
			}
			if sign < 0 && step > late {
				late = step
			}
			if step < minStep {
				minStep = step
			}
			c.Class("step_" + kit.SelStepName(step))
		}
		c.NonTrivialIf(late >= kit.SelStepID)
	})
}

//go:build verif

package locRIB_test

// C03 at the Loc-RIB: for 2..5 BGP paths of one prefix the Loc-RIB's best path
// is never one the reference decision process (kit.SelRefCompare — exactly
// the steps the statement lists) strictly rejects in favour of another
// candidate.

import (
	"testing"

	bnet "github.com/bio-routing/bio-rd/net"
	"github.com/bio-routing/bio-rd/route"
	"github.com/bio-routing/bio-rd/routingtable/locRIB"
	"pgregory.net/rapid"
	kit "verifkit"
)

const c03LocRIBRule = "2..5 pairwise distinct BGP paths for one prefix (later ones mostly one-attribute mutations of earlier ones) added to a LocRIB in generated order, followed by 0..3 updates of stored paths (ReplacePath(old,new) as an import policy replacement does, or RemovePath+AddPath); checked after every step: no candidate is strictly preferred by the reference decision process over LocRIB.Get(pfx).BestPath(). Non-trivial: the best path beats its strongest competitor at the identifier step or later."

func TestVerifC03LocRIBBest(t *testing.T) {
	rec := kit.NewRecorder(t, "C03", c03LocRIBRule)
	pfx := bnet.NewPfx(bnet.IPv4(0xc6336400), 24).Ptr()
	rapid.Check(t, func(t *rapid.T) {
		c := rec.Case()
		defer c.Done()
		d := kit.GenSelDomain(t)
		specs := d.GenSet(t, 2, 5, false)
		rib := locRIB.New("c03")
		objs := make([]*route.Path, len(specs))
		for i, s := range specs {
			objs[i] = selToPath(s)
			c.Logf("p%d=%v", i, s)
			rib.AddPath(pfx, objs[i])
		}
		specOf := map[*route.Path]kit.SelPath{}
		for i := range objs {
			specOf[objs[i]] = specs[i]
		}
		late := kit.SelStepNone
		// check: no path currently stored for the prefix is strictly preferred over the Loc-RIB's best path
		check := func(when string) {
			cur := rib.Get(pfx).Paths()
			best := rib.Get(pfx).BestPath()
			bs, ok := specOf[best]
			if !ok {
				t.Fatalf("%s: best path is not one of the objects handed to the Loc-RIB", when)
			}
			for _, o := range cur {
				if o == best {
					continue
				}
				os, ok := specOf[o]
				if !ok {
					t.Fatalf("%s: Loc-RIB holds a path object it was never given", when)
				}
				sign, step := kit.SelRefCompare(os, bs)
				if sign > 0 {
					t.Fatalf("%s: Loc-RIB best path loses at step %s of the decision process\nbest   %v\nbetter %v", when, kit.SelStepName(step), bs, os)
				}
				if sign < 0 && step > late {
					late = step
				}
				c.Class("step_" + kit.SelStepName(step))
			}
		}
		check("after the insertions")
		// Updates of stored paths, the way the Adj-RIB-In delivers them: an import policy replacement calls
		// ReplacePath(old, new), a re-announcement RemovePath(old) + AddPath(new).
		nUpd := rapid.IntRange(0, 3).Draw(t, "updates")
		for u := 0; u < nUpd; u++ {
			cur := rib.Get(pfx).Paths()
			if len(cur) == 0 {
				break
			}
			old := cur[rapid.IntRange(0, len(cur)-1).Draw(t, "upd_idx")]
			ns, what := d.Mutate(t, specOf[old], "upd")
			dup := false
			for _, o := range cur {
				if specOf[o].String() == ns.String() {
					dup = true
				}
			}
			if dup || ns.Static {
				continue
			}
			no := selToPath(ns)
			specOf[no] = ns
			if rapid.Bool().Draw(t, "upd_replace") {
				c.Logf("ReplacePath %v -> %v (%s)", specOf[old], ns, what)
				c.Class("update_replacepath")
				rib.ReplacePath(pfx, old, no)
			} else {
				c.Logf("RemovePath+AddPath %v -> %v (%s)", specOf[old], ns, what)
				c.Class("update_remove_add")
				rib.RemovePath(pfx, old)
				rib.AddPath(pfx, no)
			}
			check("after an update")
		}
		c.NonTrivialIf(late >= kit.SelStepID)
	})
}

//go:build verif

package locRIB_test

// C04, "registered ... during route changes": a client registers while a
// route change arrives. The harness owns the schedule: the registering
// client's n-th AddPathInitialDump call blocks on a gate; while it is parked
// a second goroutine performs one generated route change; then the gate is
// released. Once both calls have returned (quiescent point) the client's
// accumulated set must equal the first n paths of the Loc-RIB's selection.
// Whether the route change is applied during the dump (an implementation that
// does not hold a lock across the dump) or after it (bio-rd: the writer waits
// for the dump) is not judged — only the final view is.

import (
	"sync"
	"testing"
	"time"

	bnet "github.com/bio-routing/bio-rd/net"
	"github.com/bio-routing/bio-rd/route"
	"github.com/bio-routing/bio-rd/routingtable"
	"pgregory.net/rapid"
	kit "verifkit"
)

const c04DuringRule = "LocRIB preloaded with 1..4 paths on each of 4 prefixes; a client (best-only | ECMP-only | max-paths 1..4) registers and its k-th initial-dump call is parked on a harness gate; meanwhile another goroutine performs one generated AddPath / RemovePath / ReplacePath; gate released; after both calls returned the client's accumulated set must equal per prefix the first n paths of the current selection. Non-trivial: the gate was reached (the dump was in progress when the change was issued) and the change touched a path the client's option admits."

type c04GateClient struct {
	mu      sync.Mutex
	pfxs    []*bnet.Prefix
	held    map[int]map[string]bool
	calls   int
	gateAt  int
	reached chan struct{}
	release chan struct{}
	hit     bool
}

func (c *c04GateClient) idx(p *bnet.Prefix) int {
	for i, u := range c.pfxs {
		if u.Equal(p) {
			return i
		}
	}
	return -1
}

func (c *c04GateClient) set(p *bnet.Prefix, pa *route.Path, on bool) {
	c.mu.Lock()
	defer c.mu.Unlock()
	i := c.idx(p)
	if c.held[i] == nil {
		c.held[i] = map[string]bool{}
	}
	if on {
		c.held[i][c04Key(pa)] = true
	} else {
		delete(c.held[i], c04Key(pa))
	}
}

func (c *c04GateClient) AddPath(p *bnet.Prefix, pa *route.Path) error { c.set(p, pa, true); return nil }
func (c *c04GateClient) AddPathInitialDump(p *bnet.Prefix, pa *route.Path) error {
	c.mu.Lock()
	c.calls++
	park := c.calls == c.gateAt
	if park {
		c.hit = true
	}
	c.mu.Unlock()
	if park {
		close(c.reached)
		<-c.release
	}
	c.set(p, pa, true)
	return nil
}
func (c *c04GateClient) RemovePath(p *bnet.Prefix, pa *route.Path) bool {
	c.set(p, pa, false)
	return true
}
func (c *c04GateClient) ReplacePath(p *bnet.Prefix, old, new *route.Path) {
	c.set(p, old, false)
	c.set(p, new, true)
}
func (c *c04GateClient) RefreshRoute(*bnet.Prefix, []*route.Path) {}
func (c *c04GateClient) EndOfRIB()                                {}
func (c *c04GateClient) Dispose()                                 {}

func TestVerifC04RegisterDuringChange(t *testing.T) {
	rec := kit.NewRecorder(t, "C04", c04DuringRule)
	inconclusive := 0
	rapid.Check(t, func(t *rapid.T) {
		cas := rec.Case()
		defer cas.Done()
		s := c04Machine(t, cas)
		// preload
		for i := range s.pfxs {
			n := rapid.IntRange(1, 4).Draw(t, "preload")
			for k := 0; k < n; k++ {
				j := rapid.IntRange(0, len(s.pool)-1).Draw(t, "pre_path")
				if s.stored[i][j] {
					continue
				}
				if tw := c04Twin(s.pool, j); tw >= 0 && s.stored[i][tw] {
					continue
				}
				s.rib.AddPath(s.pfxs[i], s.pool[j].Copy())
				s.stored[i][j] = true
				cas.Logf("preload %s pool[%d]", s.pfxs[i], j)
			}
		}
		var opt routingtable.ClientOptions
		switch rapid.IntRange(0, 2).Draw(t, "opt") {
		case 0:
			opt = routingtable.ClientOptions{BestOnly: true}
		case 1:
			opt = routingtable.ClientOptions{EcmpOnly: true}
		default:
			opt = routingtable.ClientOptions{MaxPaths: uint(rapid.IntRange(1, 4).Draw(t, "maxpaths"))}
		}
		cl := &c04GateClient{pfxs: s.pfxs, held: map[int]map[string]bool{}, gateAt: rapid.IntRange(1, 6).Draw(t, "gate_at"),
			reached: make(chan struct{}), release: make(chan struct{})}
		cas.Logf("client %+v gate at initial-dump call %d", opt, cl.gateAt)
		// the concurrent change
		i := rapid.IntRange(0, len(s.pfxs)-1).Draw(t, "chg_pfx")
		var have, free []int
		for j := range s.pool {
			if s.stored[i][j] {
				have = append(have, j)
			} else {
				free = append(free, j)
			}
		}
		kind := rapid.IntRange(0, 2).Draw(t, "chg_kind")
		var change func()
		switch {
		case kind == 0 && len(free) > 0:
			j := rapid.SampledFrom(free).Draw(t, "chg_add")
			cas.Logf("concurrent AddPath %s pool[%d]", s.pfxs[i], j)
			cas.Class("during_add")
			change = func() { s.rib.AddPath(s.pfxs[i], s.pool[j].Copy()) }
		case kind == 1 && len(free) > 0:
			jo := rapid.SampledFrom(have).Draw(t, "chg_old")
			jn := rapid.SampledFrom(free).Draw(t, "chg_new")
			cas.Logf("concurrent ReplacePath %s pool[%d] -> pool[%d]", s.pfxs[i], jo, jn)
			cas.Class("during_replace")
			change = func() { s.rib.ReplacePath(s.pfxs[i], s.pool[jo].Copy(), s.pool[jn].Copy()) }
		default:
			j := rapid.SampledFrom(have).Draw(t, "chg_del")
			cas.Logf("concurrent RemovePath %s pool[%d]", s.pfxs[i], j)
			cas.Class("during_remove")
			change = func() { s.rib.RemovePath(s.pfxs[i], s.pool[j].Copy()) }
		}
		regDone, chgDone := make(chan struct{}), make(chan struct{})
		go func() { s.rib.RegisterWithOptions(cl, opt); close(regDone) }()
		select {
		case <-cl.reached:
		case <-regDone: // fewer initial-dump calls than gateAt: the change simply follows the registration
		case <-time.After(20 * time.Second):
			inconclusive++
			cas.Class("inconclusive")
			return
		}
		go func() { change(); close(chgDone) }()
		// give the change a chance to run while the dump is parked (sensitivity only; never an oracle)
		select {
		case <-chgDone:
			cas.Class("change_completed_during_dump")
		case <-time.After(15 * time.Millisecond):
			cas.Class("change_waited_for_dump")
		}
		close(cl.release)
		for _, ch := range []chan struct{}{regDone, chgDone} {
			select {
			case <-ch:
			case <-time.After(20 * time.Second):
				inconclusive++
				cas.Class("inconclusive")
				return
			}
		}
		cl.mu.Lock()
		defer cl.mu.Unlock()
		cas.NonTrivialIf(cl.hit)
		cas.ClassIf(cl.hit, "gate_reached")
		view := &c04Client{opt: opt}
		for k, pfx := range s.pfxs {
			want := s.expected(view, k)
			if !c04SameSet(cl.held[k], want) {
				t.Fatalf("client (%+v) registered during a route change holds %s for %s, the first paths of the current selection its option admits are %s (selection: %s)",
					opt, c04SetString(cl.held[k]), pfx, c04SetString(want), c04Selection(s.rib.Get(pfx)))
			}
		}
	})
	if inconclusive > 0 {
		rec.Note("%d cases hit a real-time deadline (inconclusive, not judged)", inconclusive)
	}
}

//go:build verif

package locRIB_test

// C02 (b): the Loc-RIB selects the same best path and the same ECMP set
// regardless of the order in which the paths were added or other paths were
// removed. Two LocRIBs receive the same path objects for one prefix in two
// generated orders, optionally with extra paths added and removed in between.

import (
	"fmt"
	"testing"

	bnet "github.com/bio-routing/bio-rd/net"
	"github.com/bio-routing/bio-rd/route"
	"github.com/bio-routing/bio-rd/routingtable/locRIB"
	"pgregory.net/rapid"
	kit "verifkit"
)

const c02LocRIBRule = "2..6 pairwise distinct (not Compare-equal) BGP/static paths for one prefix, the same objects added to two LocRIBs in two generated permutations; 0..2 extra BGP paths (unique add-path id) are added and removed again at generated points of each history. Checked after the histories: no panic, route present in both, best paths have equal reference key (8 decision steps), ECMP sets identical as sets of objects, path multisets identical. Non-trivial: >= 3 paths and (a Select tie, an ECMP set >= 2, or extra paths removed in between)."

type c02Op struct {
	add bool
	idx int // index into objs (base) or extras (>= 1000)
}

// c02History builds the op list of one RIB: base adds in order perm, extra k
// added before base position a_k and removed before position b_k >= a_k.
func c02History(t *rapid.T, label string, perm []int, nExtra int) []c02Op {
	n := len(perm)
	slots := make([][]c02Op, n+1)
	for k := 0; k < nExtra; k++ {
		a := rapid.IntRange(0, n).Draw(t, fmt.Sprintf("%s_xadd%d", label, k))
		b := rapid.IntRange(a, n).Draw(t, fmt.Sprintf("%s_xdel%d", label, k))
		slots[a] = append(slots[a], c02Op{add: true, idx: 1000 + k})
		slots[b] = append(slots[b], c02Op{add: false, idx: 1000 + k})
	}
	var ops []c02Op
	for i := 0; i <= n; i++ {
		ops = append(ops, slots[i]...)
		if i < n {
			ops = append(ops, c02Op{add: true, idx: perm[i]})
		}
	}
	return ops
}

func c02Seq(n int) []int {
	s := make([]int, n)
	for i := range s {
		s[i] = i
	}
	return s
}

func TestVerifC02LocRIBPerm(t *testing.T) {
	rec := kit.NewRecorder(t, "C02", c02LocRIBRule)
	rapid.Check(t, func(t *rapid.T) {
		c := rec.Case()
		defer c.Done()
		d := kit.GenSelDomainMaybeMixed(t)
		specs := d.GenSet(t, 2, 6, true)
		var pfx *bnet.Prefix
		if d.W == 32 {
			pfx = bnet.NewPfx(bnet.IPv4(0xc6336400), 24).Ptr()
		} else {
			pfx = bnet.NewPfx(bnet.IPv6(0x20010db8000000ff, 0), 64).Ptr()
		}
		objs := make([]*route.Path, len(specs))
		for i, s := range specs {
			objs[i] = selToPath(s)
			c.Logf("p%d=%v", i, s)
		}
		nExtra := rapid.IntRange(0, 2).Draw(t, "nextra")
		var extras []*route.Path
		for k := 0; k < nExtra; k++ {
			x := d.GenExtraBGP(t, k)
			extras = append(extras, selToPath(x))
			c.Logf("x%d=%v", k, x)
		}
		permA := rapid.Permutation(c02Seq(len(specs))).Draw(t, "permA")
		permB := rapid.Permutation(c02Seq(len(specs))).Draw(t, "permB")
		histA := c02History(t, "A", permA, nExtra)
		histB := c02History(t, "B", permB, nExtra)
		c.Logf("A=%v B=%v", histA, histB)

		run := func(name string, hist []c02Op) *route.Route {
			rib := locRIB.New(name)
			for _, op := range hist {
				var p *route.Path
				if op.idx >= 1000 {
					p = extras[op.idx-1000]
				} else {
					p = objs[op.idx]
				}
				if op.add {
					if err := rib.AddPath(pfx, p); err != nil {
						t.Fatalf("AddPath: %v", err)
					}
				} else {
					rib.RemovePath(pfx, p)
				}
			}
			return rib.Get(pfx)
		}
		rA := run("A", histA)
		rB := run("B", histB)
		if rA == nil || rB == nil {
			t.Fatalf("route missing after the history (A=%v B=%v)", rA != nil, rB != nil)
		}

		tie := false
		for i := range objs {
			for j := i + 1; j < len(objs); j++ {
				if objs[i].Select(objs[j]) == 0 {
					tie = true
				}
			}
		}
		mixed := false
		for _, s := range specs {
			if s.Static != specs[0].Static {
				mixed = true
			}
		}
		c.ClassIf(tie, "has_tie")
		c.ClassIf(mixed, "mixed_protocols")
		c.ClassIf(nExtra > 0, "with_removed_extras")
		c.ClassIf(rA.ECMPPathCount() >= 2, "ecmp>=2")
		c.ClassIf(d.W == 128, "v6")
		c.NonTrivialIf(len(specs) >= 3 && (tie || rA.ECMPPathCount() >= 2 || nExtra > 0))

		idx := func(p *route.Path) int {
			for i, o := range objs {
				if o == p {
					return i
				}
			}
			return -1
		}
		// stored paths = the base objects, each once
		for _, r := range []*route.Route{rA, rB} {
			seen := map[int]int{}
			for _, p := range r.Paths() {
				seen[idx(p)]++
			}
			if len(r.Paths()) != len(objs) || seen[-1] > 0 {
				t.Fatalf("stored paths differ from the added ones: %d stored, %d added, foreign=%d", len(r.Paths()), len(objs), seen[-1])
			}
		}
		bA, bB := idx(rA.BestPath()), idx(rB.BestPath())
		if bA < 0 || bB < 0 {
			t.Fatalf("best path is not one of the added objects")
		}
		if bA != bB && !kit.SelKeyEqual(specs[bA], specs[bB]) {
			t.Fatalf("best path depends on the history: A selects p%d, B selects p%d and the decision process distinguishes them\np%d=%v\np%d=%v", bA, bB, bA, specs[bA], bB, specs[bB])
		}
		eA, eB := map[int]bool{}, map[int]bool{}
		for _, p := range rA.ECMPPaths() {
			eA[idx(p)] = true
		}
		for _, p := range rB.ECMPPaths() {
			eB[idx(p)] = true
		}
		if len(eA) != int(rA.ECMPPathCount()) || len(eB) != int(rB.ECMPPathCount()) || eA[-1] || eB[-1] {
			t.Fatalf("ECMP list has duplicates or foreign objects")
		}
		if len(eA) != len(eB) {
			t.Fatalf("ECMP set depends on the history: A=%v B=%v", eA, eB)
		}
		for i := range eA {
			if !eB[i] {
				t.Fatalf("ECMP set depends on the history: A=%v B=%v", eA, eB)
			}
		}
	})
}

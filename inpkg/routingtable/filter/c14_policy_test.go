//go:build verif

package filter_test

// C14 — Policy evaluation agrees with a reference interpreter; chains that
// compare Equal behave identically.
//
// Chains come from the grammar in verifkit/policy.go and are built with the
// EXPORTED constructors of routingtable/filter and .../actions only (community
// filters have no exported constructor and no config syntax: outside the
// reachable domain; add-community actions do not implement actions.Action).

import (
	"fmt"
	"testing"

	bnet "github.com/bio-routing/bio-rd/net"
	"github.com/bio-routing/bio-rd/protocols/bgp/types"
	"github.com/bio-routing/bio-rd/route"
	"github.com/bio-routing/bio-rd/routingtable/filter"
	"github.com/bio-routing/bio-rd/routingtable/filter/actions"
	"pgregory.net/rapid"
	kit "verifkit"
)

// ---------------------------------------------------------------------------
// model <-> bio-rd translation (exported API only)

func c14IP(b kit.Bits) bnet.IP {
	if b.W == 32 {
		return bnet.IPv4(b.U32())
	}
	hi, lo := b.HiLo()
	return bnet.IPv6(hi, lo)
}

func c14Bits(ip *bnet.IP) kit.Bits {
	var b kit.Bits
	if ip == nil {
		return b // W = 0 marks nil
	}
	if ip.IsIPv4() {
		b.W = 32
	} else {
		b.W = 128
	}
	copy(b.A[:], ip.Bytes())
	b.L = b.W
	return b
}

// c14Builder builds filter.Chains from model chains. One *net.Prefix object is
// created per pattern ID, so a structural copy shares its pattern objects with
// the original (RouteFilter.equal compares pattern identity).
type c14Builder struct {
	pfx map[int]*bnet.Prefix
}

func c14NewBuilder() *c14Builder { return &c14Builder{pfx: map[int]*bnet.Prefix{}} }

func (b *c14Builder) pat(p kit.PolPattern) *bnet.Prefix {
	if x, ok := b.pfx[p.ID]; ok {
		return x
	}
	x := bnet.NewPfx(c14IP(p.P), uint8(p.P.L)).Ptr()
	b.pfx[p.ID] = x
	return x
}

func c14Matcher(m kit.PolMatcher) filter.PrefixMatcher {
	switch m.Kind {
	case kit.PolExact:
		return filter.NewExactMatcher()
	case kit.PolOrLonger:
		return filter.NewOrLongerMatcher()
	case kit.PolLonger:
		return filter.NewLongerMatcher()
	}
	return filter.NewInRangeMatcher(m.Min, m.Max)
}

func (b *c14Builder) cond(c kit.PolCond) *filter.TermCondition {
	var pls []*filter.PrefixList
	for _, l := range c.PLs {
		var ps []*bnet.Prefix
		for _, e := range l.Pfxs {
			ps = append(ps, b.pat(e))
		}
		if l.WithMatcher {
			pls = append(pls, filter.NewPrefixListWithMatcher(c14Matcher(l.M), ps...))
		} else {
			pls = append(pls, filter.NewPrefixList(ps...))
		}
	}
	var rfs []*filter.RouteFilter
	for _, r := range c.RFs {
		rfs = append(rfs, filter.NewRouteFilter(b.pat(r.Pat), c14Matcher(r.M)))
	}
	switch c.Ctor {
	case kit.PolCondRF:
		return filter.NewTermConditionWithRouteFilters(rfs...)
	case kit.PolCondPL:
		return filter.NewTermConditionWithPrefixLists(pls...)
	case kit.PolCondProtos:
		return filter.NewTermConditionWithProtocols(c.Protos...)
	}
	return filter.NewTermCondition(pls, rfs)
}

func c14Action(a kit.PolAction) actions.Action {
	switch a.Kind {
	case kit.PolAccept:
		return actions.NewAcceptAction()
	case kit.PolReject:
		return actions.NewRejectAction()
	case kit.PolSetLocalPref:
		return actions.NewSetLocalPrefAction(a.U32)
	case kit.PolSetMED:
		return actions.NewSetMEDAction(a.U32)
	case kit.PolSetNextHop:
		return actions.NewSetNextHopAction(c14IP(a.IP).Ptr())
	}
	return actions.NewASPathPrependAction(a.U32, a.Count)
}

func (b *c14Builder) chain(c kit.PolChain) filter.Chain {
	out := filter.Chain{}
	for _, f := range c {
		var terms []*filter.Term
		for _, t := range f.Terms {
			from := []*filter.TermCondition{}
			for _, cd := range t.From {
				from = append(from, b.cond(cd))
			}
			then := []actions.Action{}
			for _, a := range t.Then {
				then = append(then, c14Action(a))
			}
			terms = append(terms, filter.NewTerm(t.Name, from, then))
		}
		out = append(out, filter.NewFilter(f.Name, terms))
	}
	return out
}

// c14ToPath builds a route.Path with the value p.
func c14ToPath(p kit.PolPath) *route.Path {
	r := &route.Path{Type: p.Type, RedistributedFrom: p.RedistributedFrom, HiddenReason: p.HiddenReason, LTime: p.LTime}
	if p.HasStatic {
		r.StaticPath = &route.StaticPath{NextHop: c14IP(p.StaticNH).Ptr()}
	}
	if p.HasBGP {
		b := &route.BGPPath{
			BGPPathA: &route.BGPPathA{
				NextHop: c14IP(p.NextHop).Ptr(), Source: c14IP(p.Source).Ptr(),
				LocalPref: p.LocalPref, MED: p.MED, BGPIdentifier: p.BGPIdentifier, OriginatorID: p.OriginatorID,
				EBGP: p.EBGP, AtomicAggregate: p.AtomicAggregate, Origin: p.Origin, OnlyToCustomer: p.OTC,
			},
			PathIdentifier: p.PathID, ASPathLen: p.ASPathLen, BMPPostPolicy: p.BMPPostPolicy,
		}
		if p.HasAggregator {
			b.BGPPathA.Aggregator = &types.Aggregator{Address: p.AggAddr, ASN: p.AggASN}
		}
		if !p.ASPathNil {
			ap := types.ASPath{}
			for _, s := range p.ASPath {
				seg := types.ASPathSegment{Type: types.ASSequence, ASNs: append([]uint32{}, s.ASNs...)}
				if s.Set {
					seg.Type = types.ASSet
				}
				ap = append(ap, seg)
			}
			b.ASPath = &ap
		}
		if p.HasClusterList {
			cl := types.ClusterList(append([]uint32{}, p.ClusterList...))
			b.ClusterList = &cl
		}
		if p.HasCommunities {
			cm := types.Communities(append([]uint32{}, p.Communities...))
			b.Communities = &cm
		}
		if p.HasLarge {
			lc := types.LargeCommunities{}
			for _, l := range p.Large {
				lc = append(lc, types.LargeCommunity{GlobalAdministrator: l.G, DataPart1: l.D1, DataPart2: l.D2})
			}
			b.LargeCommunities = &lc
		}
		for _, u := range p.Unknown {
			b.UnknownAttributes = append(b.UnknownAttributes, types.UnknownPathAttribute{
				Optional: u.Optional, Transitive: u.Transitive, Partial: u.Partial, TypeCode: u.Code, Value: append([]byte{}, u.Value...)})
		}
		r.BGPPath = b
	}
	return r
}

// c14FromPath takes a deep value snapshot of r.
func c14FromPath(r *route.Path) kit.PolPath {
	p := kit.PolPath{Type: r.Type, RedistributedFrom: r.RedistributedFrom, HiddenReason: r.HiddenReason, LTime: r.LTime}
	if r.StaticPath != nil {
		p.HasStatic = true
		p.StaticNH = c14Bits(r.StaticPath.NextHop)
	}
	if b := r.BGPPath; b != nil {
		p.HasBGP = true
		if a := b.BGPPathA; a != nil {
			p.NextHop, p.Source = c14Bits(a.NextHop), c14Bits(a.Source)
			p.LocalPref, p.MED, p.BGPIdentifier, p.OriginatorID, p.OTC = a.LocalPref, a.MED, a.BGPIdentifier, a.OriginatorID, a.OnlyToCustomer
			p.EBGP, p.AtomicAggregate, p.Origin = a.EBGP, a.AtomicAggregate, a.Origin
			if a.Aggregator != nil {
				p.HasAggregator, p.AggAddr, p.AggASN = true, a.Aggregator.Address, a.Aggregator.ASN
			}
		}
		if b.ASPath == nil {
			p.ASPathNil = true
		} else {
			for _, s := range *b.ASPath {
				p.ASPath = append(p.ASPath, kit.PolSeg{Set: s.Type == types.ASSet, ASNs: append([]uint32{}, s.ASNs...)})
			}
		}
		p.ASPathLen = b.ASPathLen
		if b.ClusterList != nil {
			p.HasClusterList = true
			p.ClusterList = append([]uint32{}, *b.ClusterList...)
		}
		if b.Communities != nil {
			p.HasCommunities = true
			p.Communities = append([]uint32{}, *b.Communities...)
		}
		if b.LargeCommunities != nil {
			p.HasLarge = true
			for _, l := range *b.LargeCommunities {
				p.Large = append(p.Large, kit.PolLC{G: l.GlobalAdministrator, D1: l.DataPart1, D2: l.DataPart2})
			}
		}
		for _, u := range b.UnknownAttributes {
			p.Unknown = append(p.Unknown, kit.PolUnknown{Optional: u.Optional, Transitive: u.Transitive, Partial: u.Partial, Code: u.TypeCode, Value: append([]byte{}, u.Value...)})
		}
		p.PathID = b.PathIdentifier
		p.BMPPostPolicy = b.BMPPostPolicy
	}
	return p
}

// ---------------------------------------------------------------------------

const c14Rule = "chain c from the grammar (1-3 filters x 1-3 terms x 0-3 conditions: route filters exact/orlonger/longer/range, prefix lists with and without matcher, protocol lists; actions accept/reject/local-pref/MED/next-hop/prepend; IPv4 and IPv6 patterns mixed in one chain as bio-rd applies one chain to both families of a neighbor) and c' = structural copy or one-parameter mutation of c; 6 inputs per case: prefix equal/more specific/less specific/sibling of a pattern of c or c' (lengths across /32 and /64) or fresh, path BGP (full attribute domain) or static. Checked: Process(c) and Process(c') against the reference interpreter (reject flag; rewritten path value when accepted; input path unchanged) and, when c.Equal(c') or c'.Equal(c), identical outcomes of c and c' on every input. Non-trivial: some input reaches a second filter or a later term, or matches an IPv6 pattern longer than /32."

type c14Outcome struct {
	reject bool
	path   string
}

func (o c14Outcome) String() string {
	if o.reject {
		return "REJECT"
	}
	return "ACCEPT " + o.path
}

// c14Run executes the real chain on (pfx, in) and compares with the reference
// interpreter. It returns the real outcome.
func c14Run(t *rapid.T, which string, mc kit.PolChain, rc filter.Chain, pfx kit.Bits, rpfx *bnet.Prefix, model kit.PolPath, in *route.Path) (c14Outcome, kit.PolTrace) {
	want, wrej, tr := kit.PolEval(mc, pfx, model)
	got, rej := rc.Process(rpfx, in)
	if after := c14FromPath(in).Render(true); after != model.Render(true) {
		t.Fatalf("C14/input-modified: %s.Process(%v) changed its input path\n before: %s\n after:  %s\nchain:\n%v", which, pfx, model.Render(true), after, mc)
	}
	if rej != wrej {
		t.Fatalf("C14/reject-flag: %s.Process(%v, %s): reject=%v, reference semantics say reject=%v (terms evaluated %d, applied %d)\nchain:\n%v",
			which, pfx, model.Render(true), rej, wrej, tr.TermsEvaluated, tr.TermsApplied, mc)
	}
	o := c14Outcome{reject: rej}
	if !rej {
		if got == nil {
			t.Fatalf("C14/nil-path: %s.Process(%v) accepted but returned a nil path\nchain:\n%v", which, pfx, mc)
		}
		o.path = c14FromPath(got).Render(true)
		if w := want.Render(true); o.path != w {
			t.Fatalf("C14/rewritten-path: %s.Process(%v) accepted with\n  got:  %s\n  want: %s\n  input: %s\nchain:\n%v", which, pfx, o.path, w, model.Render(true), mc)
		}
	}
	return o, tr
}

func c14Check(t *rapid.T, c *kit.Case) {
	if route.StaticPathType != kit.PolTypeStatic || route.BGPPathType != kit.PolTypeBGP {
		t.Fatalf("harness: path type numbers changed")
	}
	g := kit.NewPolGen(t)
	mc := g.GenChain(t, "c")
	var mc2 kit.PolChain
	desc := "copy"
	if rapid.IntRange(0, 4).Draw(t, "copy") == 0 {
		mc2 = mc.Clone()
	} else {
		mc2, desc = g.Mutate(t, mc, "mut")
	}
	b := c14NewBuilder()
	rc, rc2 := b.chain(mc), b.chain(mc2)
	eq := rc.Equal(rc2)
	eqRev := rc2.Equal(rc)
	c.Logf("c:\n%v", mc)
	c.Logf("c' = %s\n%v", desc, mc2)
	c.Logf("c.Equal(c')=%v c'.Equal(c)=%v", eq, eqRev)
	if i := len(desc); i > 0 {
		for j := 0; j < len(desc); j++ {
			if desc[j] == ':' {
				i = j
				break
			}
		}
		c.Class("mut=" + desc[:i])
	}
	c.ClassIf(eq || eqRev, "equal=true")
	c.ClassIf(!(eq || eqRev), "equal=false")

	pats := append(mc.Patterns(), mc2.Patterns()...)
	differs := false
	for i := 0; i < 6; i++ {
		pfx := g.GenInputPrefix(t, pats, fmt.Sprintf("in%d", i))
		var model kit.PolPath
		switch rapid.IntRange(0, 5).Draw(t, fmt.Sprintf("in%d_kind", i)) {
		case 0:
			model = kit.GenPolStaticPath(t, pfx.W, fmt.Sprintf("in%d_s", i))
		case 1:
			// static route redistributed into BGP (what AdjRIBOut hands to an export policy)
			model = kit.GenPolBGPPath(t, pfx.W, fmt.Sprintf("in%d_r", i))
			model.RedistributedFrom = kit.PolTypeStatic
			model.HasStatic = true
			model.StaticNH = model.NextHop
		default:
			model = kit.GenPolBGPPath(t, pfx.W, fmt.Sprintf("in%d_b", i))
			model.PathID = uint32(rapid.IntRange(0, 2).Draw(t, fmt.Sprintf("in%d_id", i)))
		}
		c.Logf("input %d: %v %s", i, pfx, model.Render(true))
		rpfx := bnet.NewPfx(c14IP(pfx), uint8(pfx.L)).Ptr()
		in := c14ToPath(model)
		if r := c14FromPath(in).Render(true); r != model.Render(true) {
			t.Fatalf("harness: path translation does not round trip:\n %s\n %s", model.Render(true), r)
		}
		o1, tr1 := c14Run(t, "c", mc, rc, pfx, rpfx, model, in)
		o2, tr2 := c14Run(t, "c'", mc2, rc2, pfx, rpfx, model, in)
		c.NonTrivialIf(tr1.LaterTerm || tr1.MatchedV6Long || tr2.LaterTerm || tr2.MatchedV6Long)
		c.ClassIf(tr1.LaterTerm, "later_term")
		c.ClassIf(tr1.MatchedV6Long, "matched_v6_len>32")
		c.ClassIf(pfx.W == 128 && pfx.L > 64, "input_v6_len>64")
		c.ClassIf(o1.reject, "rejected")
		c.ClassIf(!o1.reject && tr1.Terminated, "accepted_by_action")
		c.ClassIf(!o1.reject && !tr1.Terminated, "accepted_by_default")
		c.ClassIf(tr1.Rewrites > 0 && !o1.reject, "rewritten")
		c.ClassIf(model.Type == kit.PolTypeStatic, "static_path")
		if o1 != o2 {
			differs = true
			if eq || eqRev {
				t.Fatalf("C14/equal-but-different: c.Equal(c')=%v, c'.Equal(c)=%v but the chains treat %v differently\n  c : %v\n  c': %v\n  input: %s\nc' = %s\nc:\n%vc':\n%v",
					eq, eqRev, pfx, o1, o2, model.Render(true), desc, mc, mc2)
			}
		}
	}
	c.ClassIf(differs, "mutation_observable")
}

func TestVerifC14Interp(t *testing.T) {
	rec := kit.NewRecorder(t, "C14", c14Rule)
	rapid.Check(t, func(t *rapid.T) {
		c := rec.Case()
		defer c.Done()
		c14Check(t, c)
	})
}

//go:build verif

package adjRIBIn_test

// C06 — ineligible paths never reach the Loc-RIB or any other consumer.
//
// The C05 rig plus (a) peer roles (all 5 remote roles x role enabled /
// advertised by the peer) on eBGP sessions, (b) import-policy replacements
// (AdjRIBIn.ReplaceFilterChain) and (c) late registration of the LocRIB and
// of a second, recording consumer on each AdjRIBIn. Every announcement
// carries a unique large-community tag (no generated policy action touches
// large communities); the oracle traces every LocRIB entry and every path
// handed to the recording consumer back to its announcement and evaluates an
// independent eligibility predicate on it. Only eligibility is judged here:
// whether the *eligible* paths are mirrored correctly is C05 (fixed policy)
// and C12 (policy replacement).

import (
	"fmt"
	"testing"

	bnet "github.com/bio-routing/bio-rd/net"
	"github.com/bio-routing/bio-rd/protocols/bgp/packet"
	"github.com/bio-routing/bio-rd/route"
	"pgregory.net/rapid"
	kit "verifkit"
)

const c06Rule = "two AdjRIBIns on one LocRIB in a VRF with local ASNs {65000, 65010} and cluster id 10.10.10.193; per session iBGP/eBGP, add-path RX on/off, on eBGP all 5 remote peer roles x role enabled x role advertised by peer; announcements: ~1 in 2 made ineligible on purpose (own ASN at any position of an AS_SEQUENCE/AS_SET, ORIGINATOR_ID = router id, local cluster id at any position of CLUSTER_LIST, OTC per RFC 9234 section 5, empty AS_PATH on eBGP), each with a unique large-community tag; actions announce / withdraw / flush / ReplaceFilterChain (reject-all, accept-all, empty, reject-some, rewriting) / register+unregister LocRIB / register+unregister a recording consumer. Oracle after every action: no LocRIB.Dump() entry and no path ever handed to a consumer (AddPath, AddPathInitialDump, ReplacePath) traces to an ineligible announcement. Non-trivial: >= 1 ineligible path stored, followed by a policy replacement or a late registration on that session."

// c06Consumer is 'any other table' registered on an AdjRIBIn.
type c06Consumer struct {
	st      *c06State
	session int
	given   []string // violations found at delivery time
}

func (c *c06Consumer) handed(what string, pfx *bnet.Prefix, p *route.Path) {
	if msg := c.st.judge(p); msg != "" {
		c.given = append(c.given, fmt.Sprintf("%s(%v) on consumer of s%d: %s", what, pfx, c.session, msg))
	}
}

func (c *c06Consumer) AddPath(pfx *bnet.Prefix, p *route.Path) error {
	c.handed("AddPath", pfx, p)
	return nil
}
func (c *c06Consumer) AddPathInitialDump(pfx *bnet.Prefix, p *route.Path) error {
	c.handed("AddPathInitialDump", pfx, p)
	return nil
}
func (c *c06Consumer) ReplacePath(pfx *bnet.Prefix, old, new *route.Path) {
	c.handed("ReplacePath", pfx, new)
}
func (c *c06Consumer) RemovePath(*bnet.Prefix, *route.Path) bool { return true }
func (c *c06Consumer) RefreshRoute(*bnet.Prefix, []*route.Path)  {}
func (c *c06Consumer) EndOfRIB()                                 {}
func (c *c06Consumer) Dispose()                                  {}

type c06State struct {
	rig        *crigRig
	cas        *kit.Case
	consumers  [2]*c06Consumer // currently registered recording consumer per session (nil = none)
	hiddenNow  [2]int          // ineligible announcements currently stored per session
	nonTrivial bool
	leakKinds  map[string]bool
}

// judge returns "" when p traces to an eligible announcement of this case.
func (s *c06State) judge(p *route.Path) string {
	tag := s.rig.tagOf(p)
	if tag == 0 {
		return "path without tracing tag: " + crigRenderPath(p)
	}
	an, ok := s.rig.anns[int(tag)]
	if !ok {
		return fmt.Sprintf("path with unknown tag %d: %s", tag, crigRenderPath(p))
	}
	if an.Why != "" {
		return fmt.Sprintf("ineligible announcement #%d (%s) was handed on: %s", an.Serial, an.Why, crigRenderPath(p))
	}
	return ""
}

func (s *c06State) check(t *rapid.T) {
	for _, rt := range s.rig.rib.Dump() {
		for _, p := range rt.Paths() {
			if msg := s.judge(p); msg != "" {
				t.Fatalf("Loc-RIB entry %s: %s\nsessions:\n  %v\n  %v", rt.Prefix(), msg, s.rig.sessions[0], s.rig.sessions[1])
			}
		}
	}
	for _, c := range s.consumers {
		if c != nil && len(c.given) > 0 {
			t.Fatalf("%s\nsessions:\n  %v\n  %v", c.given[0], s.rig.sessions[0], s.rig.sessions[1])
		}
	}
}

func (s *c06State) recount(i int) {
	n := 0
	for _, an := range s.rig.sessions[i].model {
		if an.Why != "" {
			n++
		}
	}
	s.hiddenNow[i] = n
}

var c06PolicyKinds = []int{crigPolAcceptAll, crigPolAcceptAll, crigPolRejectAll, crigPolRejectAll, crigPolEmpty,
	crigPolRejectSome, crigPolRewrite, crigPolRewrite, crigPolRewriteSome, crigPolMix}

func (s *c06State) actions() map[string]func(*rapid.T) {
	r := s.rig
	cas := s.cas
	pickSession := func(t *rapid.T) int { return rapid.IntRange(0, 1).Draw(t, "session") }
	pickID := func(t *rapid.T, se *crigSession) uint32 {
		if !se.sa.AddPathRX {
			return 0
		}
		return uint32(rapid.IntRange(0, 2).Draw(t, "pathid"))
	}
	record := func(se *crigSession, k crigKey, an crigAnn) {
		if !se.sa.AddPathRX {
			for o := range se.model {
				if o.Pfx == k.Pfx {
					delete(se.model, o)
				}
			}
		}
		se.model[k] = an
		r.anns[an.Serial] = an
	}
	announce := func(t *rapid.T) {
		si := pickSession(t)
		se := r.sessions[si]
		pi := rapid.IntRange(0, len(r.pfxs)-1).Draw(t, "pfx")
		id := pickID(t, se)
		a := r.genAttrs(t, se, crigGenOpts{IneligibleBias: 2, OTC: true})
		r.serial++
		a.Tag = uint32(r.serial)
		an := crigAnn{Attrs: a, Serial: r.serial, Why: r.ineligible(se, a)}
		cas.Logf("announce %s %s id=%d %v%s", se.name, r.pfxs[pi], id, a, map[bool]string{true: " INELIGIBLE: " + an.Why, false: ""}[an.Why != ""])
		if an.Why != "" {
			cas.Class("ineligible: " + an.Why)
		}
		p := r.buildPath(se, a, id)
		record(se, crigKey{pi, id}, an) // before the call: consumers are judged at delivery time
		se.in.AddPath(r.pfxs[pi], p)
		if rapid.IntRange(0, 7).Draw(t, "shared") == 0 {
			pj := rapid.IntRange(0, len(r.pfxs)-1).Draw(t, "pfx2")
			if pj != pi {
				cas.Logf("  + same path object for %s", r.pfxs[pj])
				record(se, crigKey{pj, id}, an)
				se.in.AddPath(r.pfxs[pj], p)
			}
		}
		s.recount(si)
	}
	withdraw := func(t *rapid.T) {
		si := pickSession(t)
		se := r.sessions[si]
		pi := rapid.IntRange(0, len(r.pfxs)-1).Draw(t, "pfx")
		id := pickID(t, se)
		cas.Logf("withdraw %s %s id=%d", se.name, r.pfxs[pi], id)
		se.in.RemovePath(r.pfxs[pi], crigWithdrawPath(id))
		if se.sa.AddPathRX {
			delete(se.model, crigKey{pi, id})
		} else {
			for o := range se.model {
				if o.Pfx == pi {
					delete(se.model, o)
				}
			}
		}
		s.recount(si)
	}
	flush := func(t *rapid.T) {
		si := pickSession(t)
		se := r.sessions[si]
		cas.Logf("flush %s", se.name)
		se.in.Flush()
		se.model = map[crigKey]crigAnn{}
		s.recount(si)
	}
	replacePolicy := func(t *rapid.T) {
		si := pickSession(t)
		se := r.sessions[si]
		np := crigGenPolicy(t, r.uni, c06PolicyKinds, "newpol")
		cas.Logf("ReplaceFilterChain %s: [%v] -> [%v] (ineligible stored: %d)", se.name, se.policy, np, s.hiddenNow[si])
		cas.Class("replace_" + crigPolNames[se.policy.Kind] + "->" + crigPolNames[np.Kind])
		if s.hiddenNow[si] > 0 {
			s.nonTrivial = true
			cas.Class("policy_replaced_with_ineligible_stored")
		}
		se.in.ReplaceFilterChain(np.chain())
		se.policy = np
	}
	regRIB := func(t *rapid.T) {
		si := pickSession(t)
		se := r.sessions[si]
		if se.registered {
			t.Skip("LocRIB already registered")
		}
		cas.Logf("register LocRIB at %s (ineligible stored: %d)", se.name, s.hiddenNow[si])
		if s.hiddenNow[si] > 0 {
			s.nonTrivial = true
			cas.Class("locrib_registered_with_ineligible_stored")
		}
		se.in.Register(r.rib)
		se.registered = true
	}
	unregRIB := func(t *rapid.T) {
		si := pickSession(t)
		se := r.sessions[si]
		if !se.registered {
			t.Skip("LocRIB not registered")
		}
		cas.Logf("unregister LocRIB from %s", se.name)
		se.in.Unregister(r.rib)
		se.registered = false
	}
	regConsumer := func(t *rapid.T) {
		si := pickSession(t)
		se := r.sessions[si]
		if s.consumers[si] != nil {
			t.Skip("consumer already registered")
		}
		cas.Logf("register recording consumer at %s (ineligible stored: %d)", se.name, s.hiddenNow[si])
		if s.hiddenNow[si] > 0 {
			s.nonTrivial = true
			cas.Class("consumer_registered_with_ineligible_stored")
		}
		c := &c06Consumer{st: s, session: si}
		s.consumers[si] = c
		se.in.Register(c)
	}
	unregConsumer := func(t *rapid.T) {
		si := pickSession(t)
		se := r.sessions[si]
		c := s.consumers[si]
		if c == nil {
			t.Skip("no consumer")
		}
		cas.Logf("unregister recording consumer from %s", se.name)
		se.in.Unregister(c)
		if len(c.given) > 0 {
			t.Fatalf("%s", c.given[0])
		}
		s.consumers[si] = nil
	}
	// another session of the VRF comes up / goes down: it contributes / withdraws its local ASN and, if it is a
	// route reflector client session, its cluster ID (fsmAddressFamily.init / dispose; reference counted)
	vrfUp := func(t *rapid.T) {
		if rapid.Bool().Draw(t, "cluster") {
			c := rapid.SampledFrom(crigExtraClusters).Draw(t, "cid")
			cas.Logf("vrf: session with cluster id %#x comes up", c)
			r.vrfAddCluster(c)
		} else {
			a := rapid.SampledFrom(crigExtraASNs).Draw(t, "asn")
			cas.Logf("vrf: session with local AS %d comes up", a)
			r.vrfAddASN(a)
		}
		cas.Class("vrf_contribution_added")
	}
	vrfDown := func(t *rapid.T) {
		if rapid.Bool().Draw(t, "cluster") {
			c := rapid.SampledFrom(crigExtraClusters).Draw(t, "cid")
			if !r.vrfDelCluster(c) {
				t.Skip("not contributed")
			}
			cas.Logf("vrf: session with cluster id %#x goes down (still contributing: %v)", c, r.clRef[c] > 0)
		} else {
			a := rapid.SampledFrom(crigExtraASNs).Draw(t, "asn")
			if !r.vrfDelASN(a) {
				t.Skip("not contributed")
			}
			cas.Logf("vrf: session with local AS %d goes down (still contributing: %v)", a, r.asnRef[a] > 0)
		}
		cas.Class("vrf_contribution_removed")
	}
	return map[string]func(*rapid.T){
		"vrfUp": vrfUp, "vrfDown": vrfDown,
		"announce1": announce, "announce2": announce, "announce3": announce, "announce4": announce,
		"withdraw":       withdraw,
		"flush":          flush,
		"replacePolicy1": replacePolicy, "replacePolicy2": replacePolicy,
		"regRIB": regRIB, "unregRIB": unregRIB,
		"regConsumer": regConsumer, "unregConsumer": unregConsumer,
		"": s.check,
	}
}

func c06Setup(t *rapid.T, cas *kit.Case) *c06State {
	uni := crigUniverses[rapid.IntRange(0, len(crigUniverses)-1).Draw(t, "universe")]
	r := crigNewRig(uni, 1)
	s := &c06State{rig: r, cas: cas}
	cas.Logf("universe %v", uni)
	for i := 0; i < 2; i++ {
		spec := crigSessionSpec{
			IBGP:      rapid.IntRange(0, 2).Draw(t, fmt.Sprintf("s%d_ibgp", i)) == 0,
			AddPathRX: rapid.Bool().Draw(t, fmt.Sprintf("s%d_addpath", i)),
			Policy:    crigGenPolicy(t, uni, c06PolicyKinds, fmt.Sprintf("s%d_pol", i)),
		}
		if spec.IBGP {
			spec.NonClient = rapid.Bool().Draw(t, fmt.Sprintf("s%d_nonclient", i))
		}
		spec.PostPolicy = rapid.IntRange(0, 3).Draw(t, fmt.Sprintf("s%d_bmp_post_policy", i)) == 0
		cas.ClassIf(spec.PostPolicy, "bmp_post_policy_session")
		if !spec.IBGP {
			// RFC 9234: roles exist on eBGP sessions only
			spec.RoleOn = rapid.IntRange(0, 3).Draw(t, fmt.Sprintf("s%d_role_on", i)) != 0
			spec.RoleAdv = rapid.IntRange(0, 3).Draw(t, fmt.Sprintf("s%d_role_adv", i)) != 0
			spec.RoleRemote = uint8(rapid.IntRange(0, 4).Draw(t, fmt.Sprintf("s%d_role_remote", i)))
		}
		se := r.addSession(i, spec)
		// the LocRIB is registered at session start (fsmAddressFamily.init) or late
		if rapid.IntRange(0, 2).Draw(t, fmt.Sprintf("s%d_rib_at_start", i)) != 0 {
			se.in.Register(r.rib)
			se.registered = true
		}
		cas.Logf("session %v locRIB-registered=%v", se, se.registered)
		cas.ClassIf(spec.IBGP, "ibgp")
		cas.ClassIf(!spec.IBGP, "ebgp")
		if spec.RoleOn && spec.RoleAdv {
			cas.Class("remote_role_" + packet.PeerRoleName(spec.RoleRemote))
		}
		cas.ClassIf(!spec.IBGP && !(spec.RoleOn && spec.RoleAdv), "roles_not_established")
	}
	return s
}

func TestVerifC06Ineligible(t *testing.T) {
	rec := kit.NewRecorder(t, "C06", c06Rule)
	rapid.Check(t, func(t *rapid.T) {
		cas := rec.Case()
		s := c06Setup(t, cas)
		defer func() {
			cas.NonTrivialIf(s.nonTrivial)
			cas.Done()
		}()
		t.Repeat(s.actions())
	})
}

// TestVerifC06RegressionHiddenReexport replays the two shrunk failing cases
// (late registration, policy replacement) for every kind of ineligibility.
func TestVerifC06RegressionHiddenReexport(t *testing.T) {
	rec := kit.NewRecorder(t, "C06", c06Rule)
	nh := kit.V4(0xcb007101, 32)
	bad := []struct {
		ibgp bool
		role uint8
		a    crigAttrs
	}{
		{false, 0, crigAttrs{NextHop: nh, ASPath: []crigSeg{{ASNs: []uint32{64600, crigLocalASN}}}}},
		{false, 0, crigAttrs{NextHop: nh, ASPath: []crigSeg{{ASNs: []uint32{64600}}, {Set: true, ASNs: []uint32{64800, crigLocalASN2}}}}},
		{false, 0, crigAttrs{NextHop: nh}},
		{true, 0, crigAttrs{NextHop: nh, LocalPref: 100, ASPath: []crigSeg{{ASNs: []uint32{64700}}}, OriginatorID: crigRouterID, ClusterList: []uint32{0x0a0a0ac2}}},
		{true, 0, crigAttrs{NextHop: nh, LocalPref: 100, OriginatorID: 0x0a0a0a02, ClusterList: []uint32{0x0a0a0ac2, crigClusterID}}},
		{false, packet.PeerRoleRoleCustomer, crigAttrs{NextHop: nh, ASPath: []crigSeg{{ASNs: []uint32{64600}}}, OTC: 64600}},
		{false, packet.PeerRoleRoleRSClient, crigAttrs{NextHop: nh, ASPath: []crigSeg{{ASNs: []uint32{64600}}}, OTC: 64700}},
		{false, packet.PeerRoleRolePeer, crigAttrs{NextHop: nh, ASPath: []crigSeg{{ASNs: []uint32{64600}}}, OTC: 64700}},
	}
	for i, b := range bad {
		for mode := 0; mode < 2; mode++ {
			cas := rec.Case()
			r := crigNewRig(crigUniverses[0], 1)
			s := &c06State{rig: r, cas: cas}
			start := crigPolicy{Kind: crigPolAcceptAll}
			if mode == 1 {
				start.Kind = crigPolRejectAll
			}
			se := r.addSession(0, crigSessionSpec{IBGP: b.ibgp, RoleOn: !b.ibgp, RoleAdv: !b.ibgp, RoleRemote: b.role, Policy: start})
			r.addSession(1, crigSessionSpec{IBGP: true, Policy: crigPolicy{Kind: crigPolAcceptAll}})
			a := b.a
			a.Tag = 1
			an := crigAnn{Attrs: a, Serial: 1, Why: r.ineligible(se, a)}
			if an.Why == "" {
				t.Fatalf("regression input %d is not ineligible by the predicate", i)
			}
			r.anns[1] = an
			se.model[crigKey{0, 0}] = an
			cas.Logf("regression %d mode %d: %v; announce %v %v (%s)", i, mode, se, r.pfxs[0], a, an.Why)
			cas.NonTrivial()
			if mode == 1 {
				se.in.Register(r.rib)
			}
			se.in.AddPath(r.pfxs[0], r.buildPath(se, a, 0))
			if mode == 0 {
				se.in.Register(r.rib) // late registration
				c := &c06Consumer{st: s, session: 0}
				s.consumers[0] = c
				se.in.Register(c)
			} else {
				se.in.ReplaceFilterChain(crigPolicy{Kind: crigPolAcceptAll}.chain())
			}
			cas.Done()
			for _, rt := range r.rib.Dump() {
				for _, p := range rt.Paths() {
					if msg := s.judge(p); msg != "" {
						t.Fatalf("mode %d (0 late registration, 1 reject-all -> accept-all): Loc-RIB entry %s: %s", mode, rt.Prefix(), msg)
					}
				}
			}
			if c := s.consumers[0]; c != nil && len(c.given) > 0 {
				t.Fatalf("%s", c.given[0])
			}
		}
	}
}

//go:build verif

package adjRIBIn_test

// C05 — the Loc-RIB mirrors the accepted paths of each Adj-RIB-In.
//
// Two AdjRIBIns (different peers) feed one LocRIB. Histories of
// announce / withdraw / flush / unregister / register are replayed against a
// reference model `session -> (prefix[,path id]) -> attributes`; after every
// action LocRIB.Dump() must equal, as a multiset of (prefix, canonical path),
// the union over registered sessions of policy(defaultLocalPref(attrs)) of
// their stored eligible announcements. The import policy of a session is
// fixed for the whole case (policy replacement is C12).

import (
	"fmt"
	"testing"

	"github.com/bio-routing/bio-rd/route"
	"pgregory.net/rapid"
	kit "verifkit"
)

const c05Rule = "two AdjRIBIns on one LocRIB; per session: add-path RX on/off, iBGP/eBGP, default local-pref, import policy in {accept-all, empty chain, reject-all, reject-some (route filter exact/orlonger/longer), rewrite (local-pref|MED|next-hop|prepend) then accept, rewrite-some, two-filter mix}; actions announce (path built like newRoutePath+processAttributes, optionally one path object shared by two prefixes as for MP_REACH NLRI lists; 1 in 8 deliberately ineligible), withdraw (present or absent, attribute-less path), flush, unregister LocRIB, register again. Oracle after every action: LocRIB.Dump() == model as multiset of (prefix, canonical path), AdjRIBIn.Dump() keys == stored announcements. Non-trivial: a rewriting policy with an unregister/flush while routes are stored, or a replacement announcement, or >= 2 path ids on one prefix."

type c05State struct {
	rig          *crigRig
	cas          *kit.Case
	replaced     bool
	multiID      bool
	rwTeardown   bool
	sawHidden    bool
	sawUnreg     bool
	sawReRegWith bool
}

func (s *c05State) check(t *rapid.T) {
	r := s.rig
	got, want := r.locRIBContent(), r.expectedContent()
	if d := crigDiff(got, want); d != "" {
		t.Fatalf("Loc-RIB differs from the accepted paths of its registered Adj-RIB-Ins:%s\nsessions:\n  %v\n  %v", d, r.sessions[0], r.sessions[1])
	}
	// the Adj-RIB-In itself stores every announcement (eligible or not) under its key
	for _, se := range r.sessions {
		gotKeys := map[string]int{}
		for _, rt := range se.in.Dump() {
			for _, p := range rt.Paths() {
				gotKeys[fmt.Sprintf("%s id=%d", rt.Prefix().String(), p.BGPPath.PathIdentifier)]++
			}
		}
		for k := range se.model {
			key := fmt.Sprintf("%s id=%d", r.pfxs[k.Pfx].String(), k.ID)
			gotKeys[key]--
		}
		for k, n := range gotKeys {
			if n != 0 {
				t.Fatalf("Adj-RIB-In of %s: stored entries differ from the announcements not yet withdrawn: %s (%+d)", se.name, k, n)
			}
		}
	}
}

func (s *c05State) stored(se *crigSession) bool { return len(se.model) > 0 }

func (s *c05State) actions() map[string]func(*rapid.T) {
	r := s.rig
	cas := s.cas
	pickSession := func(t *rapid.T) *crigSession { return r.sessions[rapid.IntRange(0, 1).Draw(t, "session")] }
	pickID := func(t *rapid.T, se *crigSession) uint32 {
		if !se.sa.AddPathRX {
			return 0
		}
		return uint32(rapid.IntRange(0, 2).Draw(t, "pathid"))
	}
	record := func(se *crigSession, k crigKey, an crigAnn) {
		// replace-all without add-path, replace-same-id with add-path
		if !se.sa.AddPathRX {
			for o := range se.model {
				if o.Pfx == k.Pfx {
					delete(se.model, o)
					s.replaced = true
				}
			}
		} else {
			if _, ok := se.model[k]; ok {
				s.replaced = true
			}
			for o := range se.model {
				if o.Pfx == k.Pfx && o.ID != k.ID {
					s.multiID = true
				}
			}
		}
		se.model[k] = an
		r.anns[an.Serial] = an
	}
	announce := func(t *rapid.T) {
		se := pickSession(t)
		pi := rapid.IntRange(0, len(r.pfxs)-1).Draw(t, "pfx")
		id := pickID(t, se)
		a := r.genAttrs(t, se, crigGenOpts{IneligibleBias: 8})
		// re-announcing the stored attributes unchanged is a legal UPDATE too
		if old, ok := se.model[crigKey{pi, id}]; ok && rapid.IntRange(0, 5).Draw(t, "same_again") == 0 {
			a = old.Attrs.clone()
		}
		r.serial++
		a.Tag = uint32(r.serial)
		an := crigAnn{Attrs: a, Serial: r.serial, Why: r.ineligible(se, a)}
		p := r.buildPath(se, a, id)
		cas.Logf("announce %s %s id=%d %v%s", se.name, r.pfxs[pi], id, a, map[bool]string{true: " INELIGIBLE: " + an.Why, false: ""}[an.Why != ""])
		if an.Why != "" {
			s.sawHidden = true
		}
		se.in.AddPath(r.pfxs[pi], p)
		record(se, crigKey{pi, id}, an)
		// MP_REACH_NLRI with several NLRI: the same *route.Path object is passed for every prefix
		if rapid.IntRange(0, 5).Draw(t, "shared") == 0 {
			pj := rapid.IntRange(0, len(r.pfxs)-1).Draw(t, "pfx2")
			if pj != pi {
				cas.Logf("  + same path object for %s", r.pfxs[pj])
				cas.Class("shared_path_object")
				se.in.AddPath(r.pfxs[pj], p)
				an2 := an
				an2.SharedAs = an.Serial
				record(se, crigKey{pj, id}, an2)
			}
		}
	}
	withdraw := func(t *rapid.T) {
		se := pickSession(t)
		pi := rapid.IntRange(0, len(r.pfxs)-1).Draw(t, "pfx")
		id := pickID(t, se)
		_, present := se.model[crigKey{pi, id}]
		if !present && rapid.IntRange(0, 2).Draw(t, "allow_absent") != 0 {
			// bias towards stored entries
			var keys []crigKey
			for pi2 := range r.pfxs {
				for id2 := uint32(0); id2 < 3; id2++ {
					if _, ok := se.model[crigKey{pi2, id2}]; ok {
						keys = append(keys, crigKey{pi2, id2})
					}
				}
			}
			if len(keys) > 0 {
				k := rapid.SampledFrom(keys).Draw(t, "stored")
				pi, id, present = k.Pfx, k.ID, true
			}
		}
		cas.Logf("withdraw %s %s id=%d present=%v", se.name, r.pfxs[pi], id, present)
		cas.ClassIf(!present, "withdraw_absent")
		se.in.RemovePath(r.pfxs[pi], crigWithdrawPath(id))
		if se.sa.AddPathRX {
			delete(se.model, crigKey{pi, id})
		} else {
			for o := range se.model {
				if o.Pfx == pi {
					delete(se.model, o)
				}
			}
		}
	}
	flush := func(t *rapid.T) {
		se := pickSession(t)
		cas.Logf("flush %s (stored=%d)", se.name, len(se.model))
		cas.Class("flush")
		if se.policy.rewrites() && s.stored(se) && se.registered {
			s.rwTeardown = true
		}
		se.in.Flush()
		se.model = map[crigKey]crigAnn{}
	}
	unregister := func(t *rapid.T) {
		se := pickSession(t)
		if !se.registered {
			t.Skip("not registered")
		}
		cas.Logf("unregister LocRIB from %s (stored=%d)", se.name, len(se.model))
		cas.Class("unregister")
		s.sawUnreg = true
		if se.policy.rewrites() && s.stored(se) {
			s.rwTeardown = true
		}
		se.in.Unregister(r.rib)
		se.registered = false
	}
	register := func(t *rapid.T) {
		se := pickSession(t)
		if se.registered {
			t.Skip("already registered")
		}
		cas.Logf("register LocRIB at %s (stored=%d)", se.name, len(se.model))
		cas.Class("register_again")
		if s.stored(se) {
			s.sawReRegWith = true
		}
		se.in.Register(r.rib)
		se.registered = true
	}
	return map[string]func(*rapid.T){
		"announce1": announce, "announce2": announce, "announce3": announce, "announce4": announce,
		"withdraw1": withdraw, "withdraw2": withdraw,
		"flush":      flush,
		"unregister": unregister,
		"register1":  register, "register2": register,
		"": s.check,
	}
}

var c05PolicyKinds = []int{crigPolAcceptAll, crigPolEmpty, crigPolRejectAll, crigPolRejectSome, crigPolRejectSome,
	crigPolRewrite, crigPolRewrite, crigPolRewrite, crigPolRewriteSome, crigPolRewriteSome, crigPolMix, crigPolMix}

func c05Setup(t *rapid.T, cas *kit.Case, caseTag uint32) *c05State {
	uni := crigUniverses[rapid.IntRange(0, len(crigUniverses)-1).Draw(t, "universe")]
	r := crigNewRig(uni, caseTag)
	cas.Logf("universe %v", uni)
	for i := 0; i < 2; i++ {
		spec := crigSessionSpec{
			IBGP:      rapid.Bool().Draw(t, fmt.Sprintf("s%d_ibgp", i)),
			AddPathRX: rapid.Bool().Draw(t, fmt.Sprintf("s%d_addpath", i)),
			DefaultLP: rapid.SampledFrom([]uint32{0, 150}).Draw(t, fmt.Sprintf("s%d_deflp", i)),
			Policy:    crigGenPolicy(t, uni, c05PolicyKinds, fmt.Sprintf("s%d_pol", i)),
		}
		se := r.addSession(i, spec)
		// fsmAddressFamily.init: the LocRIB is registered right after the AdjRIBIn is created
		se.in.Register(r.rib)
		se.registered = true
		cas.Logf("session %v", se)
		cas.ClassIf(spec.IBGP, "ibgp")
		cas.ClassIf(!spec.IBGP, "ebgp")
		cas.ClassIf(spec.AddPathRX, "addpath_rx")
		cas.ClassIf(!spec.AddPathRX, "no_addpath")
		cas.Class("policy_" + crigPolNames[spec.Policy.Kind])
		if spec.Policy.rewrites() {
			cas.Class(fmt.Sprintf("rewrite_%d", spec.Policy.Rw))
		}
	}
	cas.ClassIf(uni[0].W == 128, "v6")
	cas.ClassIf(uni[0].W == 32, "v4")
	return &c05State{rig: r, cas: cas}
}

func TestVerifC05Mirror(t *testing.T) {
	rec := kit.NewRecorder(t, "C05", c05Rule)
	rapid.Check(t, func(t *rapid.T) {
		cas := rec.Case()
		s := c05Setup(t, cas, 1)
		defer func() {
			cas.NonTrivialIf(s.rwTeardown || s.replaced || s.multiID)
			cas.ClassIf(s.rwTeardown, "rewrite_then_unregister_or_flush")
			cas.ClassIf(s.replaced, "replacement_announcement")
			cas.ClassIf(s.multiID, "multi_path_id")
			cas.ClassIf(s.sawHidden, "ineligible_announcement")
			cas.ClassIf(s.sawReRegWith, "register_with_stored_routes")
			cas.Done()
		}()
		t.Repeat(s.actions())
	})
}

// keep the route import used even if rendering helpers change
var _ = route.BGPPathType

// TestVerifC05RegressionUnregisterRewritten replays the shrunk failing case of
// the Unregister defect (fixed by "fix: AdjRIBIn.Unregister withdrew the
// pre-policy paths from the client") deterministically.
func TestVerifC05RegressionUnregisterRewritten(t *testing.T) {
	rec := kit.NewRecorder(t, "C05", c05Rule)
	for rw := crigRwLocalPref; rw <= crigRwPrepend; rw++ {
		cas := rec.Case()
		r := crigNewRig(crigUniverses[0], 1)
		pol := crigPolicy{Kind: crigPolRewrite, Pattern: r.uni[0], Rw: rw, Val: 64512, Times: 2, NH: kit.V4(0xc6336401, 32)}
		se := r.addSession(0, crigSessionSpec{Policy: pol})
		r.addSession(1, crigSessionSpec{Policy: crigPolicy{Kind: crigPolAcceptAll}})
		se.in.Register(r.rib)
		se.registered = true
		a := crigAttrs{NextHop: kit.V4(0xcb007101, 32), ASPath: []crigSeg{{ASNs: []uint32{64600}}}, Tag: 1}
		cas.Logf("regression: %v; announce %v %v; unregister", se, r.pfxs[0], a)
		cas.NonTrivial()
		se.in.AddPath(r.pfxs[0], r.buildPath(se, a, 0))
		se.model[crigKey{0, 0}] = crigAnn{Attrs: a, Serial: 1}
		if d := crigDiff(r.locRIBContent(), r.expectedContent()); d != "" {
			t.Fatalf("after announce:%s", d)
		}
		se.in.Unregister(r.rib)
		se.registered = false
		cas.Done()
		if d := crigDiff(r.locRIBContent(), r.expectedContent()); d != "" {
			t.Fatalf("after Unregister with policy [%v]:%s", pol, d)
		}
	}
}

//go:build verif

package adjRIBIn_test

// C12 while UPDATEs keep arriving: the import policy of a session is replaced
// (AdjRIBIn.ReplaceFilterChain) and the walk over the stored routes is parked
// by the harness at the first notification it sends to its clients (a gate
// client registered next to the Loc-RIB); meanwhile another goroutine feeds one
// more generated announcement or withdrawal into the same Adj-RIB-In, as the
// session's receive path does. When both have returned the Loc-RIB must equal
// what the NEW policy makes of the stored announcements (independent policy
// model of common_ribrig_c_test.go). Whether the update waits for the walk
// (bio-rd: the Adj-RIB-In keeps its lock) or runs concurrently is not judged.

import (
	"fmt"
	"sync"
	"testing"
	"time"

	bnet "github.com/bio-routing/bio-rd/net"
	"github.com/bio-routing/bio-rd/route"
	"pgregory.net/rapid"
	kit "verifkit"
)

type c12GateClient struct {
	once    sync.Once
	reached chan struct{}
	release chan struct{}
}

func (g *c12GateClient) park() {
	g.once.Do(func() {
		close(g.reached)
		<-g.release
	})
}
func (g *c12GateClient) AddPath(*bnet.Prefix, *route.Path) error            { g.park(); return nil }
func (g *c12GateClient) AddPathInitialDump(*bnet.Prefix, *route.Path) error { return nil }
func (g *c12GateClient) EndOfRIB()                                          {}
func (g *c12GateClient) RemovePath(*bnet.Prefix, *route.Path) bool          { g.park(); return true }
func (g *c12GateClient) ReplacePath(*bnet.Prefix, *route.Path, *route.Path) { g.park() }
func (g *c12GateClient) RefreshRoute(*bnet.Prefix, []*route.Path)           {}
func (g *c12GateClient) Dispose()                                           {}

const c12dRule = "one session (iBGP/eBGP, add-path RX on/off) with import policy P1, 2-8 announcements over 4 related prefixes, ReplaceFilterChain(P2) parked at its first client notification while one more announcement / withdrawal arrives from another goroutine; Loc-RIB compared with policy model P2 over the stored announcements. Non-trivial: the walk was parked (P1 and P2 treat a stored route differently) and the concurrent update hit a stored prefix or added a new one."

var c12dPolicyKinds = []int{crigPolAcceptAll, crigPolRejectAll, crigPolRejectSome, crigPolRewrite, crigPolRewrite, crigPolRewriteSome, crigPolRewriteSome, crigPolMix}

func TestVerifC12ReplaceDuringUpdate(t *testing.T) {
	rec := kit.NewRecorder(t, "C12", c12dRule)
	unjudged := 0
	rapid.Check(t, func(t *rapid.T) {
		cas := rec.Case()
		defer cas.Done()
		uni := crigUniverses[rapid.IntRange(0, len(crigUniverses)-1).Draw(t, "universe")]
		r := crigNewRig(uni, 1)
		spec := crigSessionSpec{
			IBGP:      rapid.Bool().Draw(t, "ibgp"),
			AddPathRX: rapid.Bool().Draw(t, "addpath"),
			Policy:    crigGenPolicy(t, uni, c12dPolicyKinds, "p1"),
		}
		p2 := crigGenPolicy(t, uni, c12dPolicyKinds, "p2")
		se := r.addSession(0, spec)
		se.in.Register(r.rib)
		se.registered = true
		cas.Logf("session %v; new policy %v", se, p2)
		record := func(k crigKey, an crigAnn) {
			if !se.sa.AddPathRX {
				for o := range se.model {
					if o.Pfx == k.Pfx {
						delete(se.model, o)
					}
				}
			}
			se.model[k] = an
			r.anns[an.Serial] = an
		}
		type upd struct {
			pi       int
			id       uint32
			withdraw bool
			an       crigAnn
			path     *route.Path
		}
		gen := func(label string, allowWithdraw bool) upd {
			u := upd{pi: rapid.IntRange(0, len(r.pfxs)-1).Draw(t, label+"_pfx")}
			if se.sa.AddPathRX {
				u.id = uint32(rapid.IntRange(0, 1).Draw(t, label+"_id"))
			}
			if allowWithdraw && rapid.IntRange(0, 2).Draw(t, label+"_wd") == 0 {
				u.withdraw = true
				return u
			}
			a := r.genAttrs(t, se, crigGenOpts{IneligibleBias: 12})
			r.serial++
			a.Tag = uint32(r.serial)
			u.an = crigAnn{Attrs: a, Serial: r.serial, Why: r.ineligible(se, a)}
			u.path = r.buildPath(se, a, u.id)
			return u
		}
		apply := func(u upd) {
			if u.withdraw {
				se.in.RemovePath(r.pfxs[u.pi], crigWithdrawPath(u.id))
				return
			}
			se.in.AddPath(r.pfxs[u.pi], u.path)
		}
		model := func(u upd) {
			if u.withdraw {
				if se.sa.AddPathRX {
					delete(se.model, crigKey{u.pi, u.id})
				} else {
					for o := range se.model {
						if o.Pfx == u.pi {
							delete(se.model, o)
						}
					}
				}
				return
			}
			record(crigKey{u.pi, u.id}, u.an)
		}
		for i, n := 0, rapid.IntRange(2, 8).Draw(t, "nann"); i < n; i++ {
			u := gen(fmt.Sprintf("a%d", i), false)
			cas.Logf("announce %s id=%d %v", r.pfxs[u.pi], u.id, u.an.Attrs)
			apply(u)
			model(u)
		}
		if d := crigDiff(r.locRIBContent(), r.expectedContent()); d != "" {
			t.Fatalf("harness: Loc-RIB differs from the model before the replacement (C05's subject):%s\n%s", d, cas.String())
		}
		late := gen("late", true)
		_, hits := se.model[crigKey{late.pi, late.id}]
		cas.Logf("concurrent update: withdraw=%v %s id=%d %v", late.withdraw, r.pfxs[late.pi], late.id, late.an.Attrs)
		gate := &c12GateClient{reached: make(chan struct{}), release: make(chan struct{})}
		se.in.Register(gate)
		repDone, updDone := make(chan struct{}), make(chan struct{})
		go func() { defer close(repDone); se.in.ReplaceFilterChain(p2.chain()) }()
		gated := false
		select {
		case <-gate.reached:
			gated = true
		case <-repDone:
			gate.once.Do(func() {}) // nothing to re-evaluate: plain sequential case
		case <-time.After(5 * time.Second):
			unjudged++
			cas.Class("unjudged")
			return
		}
		go func() { defer close(updDone); apply(late) }()
		if gated {
			select { // sensitivity only
			case <-updDone:
				cas.Class("update_ran_during_the_walk")
			case <-time.After(5 * time.Millisecond):
				cas.Class("update_waited_for_the_walk")
			}
			close(gate.release)
		}
		for _, ch := range []chan struct{}{repDone, updDone} {
			select {
			case <-ch:
			case <-time.After(10 * time.Second):
				unjudged++
				cas.Class("unjudged")
				return
			}
		}
		se.in.Unregister(gate)
		se.policy = p2
		model(late)
		cas.ClassIf(gated, "walk_parked")
		cas.NonTrivialIf(gated && (hits || !late.withdraw))
		if d := crigDiff(r.locRIBContent(), r.expectedContent()); d != "" {
			t.Fatalf("C12/replace-during-update: after the import policy replacement and the concurrent update both returned the Loc-RIB differs from what the new policy makes of the stored announcements:%s\n%s", d, cas.String())
		}
	})
	if unjudged > 0 {
		t.Logf("C12/replace-during-update: %d cases unjudged (a real-time deadline passed)", unjudged)
	}
}

//go:build verif

package adjRIBIn_test

// Shared rig of the C05/C06 checks (identifiers prefixed crig*): an untracked
// VRF, one LocRIB and AdjRIBIns built with generated SessionAttrs, announcement
// paths built exactly like protocols/bgp/server/fsm_address_family.go does
// (newRoutePath + processAttributes; withdrawals carry only the path
// identifier), an independent import-policy model (the filter.Chain is
// *built from* the model, the expected result is computed by the model, not by
// Chain.Process), an independent eligibility predicate, and a canonical
// rendering of paths that does not use route.Compare.

import (
	"fmt"
	"sort"
	"strings"

	bnet "github.com/bio-routing/bio-rd/net"
	"github.com/bio-routing/bio-rd/protocols/bgp/packet"
	"github.com/bio-routing/bio-rd/protocols/bgp/types"
	"github.com/bio-routing/bio-rd/route"
	"github.com/bio-routing/bio-rd/routingtable"
	"github.com/bio-routing/bio-rd/routingtable/adjRIBIn"
	"github.com/bio-routing/bio-rd/routingtable/filter"
	"github.com/bio-routing/bio-rd/routingtable/filter/actions"
	"github.com/bio-routing/bio-rd/routingtable/locRIB"
	"github.com/bio-routing/bio-rd/routingtable/vrf"
	"pgregory.net/rapid"
	kit "verifkit"
)

// ---------------------------------------------------------------------------
// prefixes

func crigIPFromBits(b kit.Bits) bnet.IP {
	if b.W == 32 {
		return bnet.IPv4(b.U32())
	}
	hi, lo := b.HiLo()
	return bnet.IPv6(hi, lo)
}

func crigPfxFromBits(b kit.Bits) *bnet.Prefix {
	return bnet.NewPfx(crigIPFromBits(b), uint8(b.L)).Ptr()
}

// fixed universes: nested prefixes, siblings, default route, host routes, IPv6 lengths > 64
var crigUniverses = [][]kit.Bits{
	{kit.V4(0x0a000000, 8), kit.V4(0x0a000000, 16), kit.V4(0x0a010000, 16), kit.V4(0x0a000000, 24)},
	{kit.V4(0, 0), kit.V4(0x80000000, 1), kit.V4(0xc0a80700, 24), kit.V4(0xc0a80780, 25)},
	{kit.V4(0xac100000, 12), kit.V4(0xac100001, 32), kit.V4(0xac100000, 32), kit.V4(0xac1fff00, 24)},
	{kit.V6(0x20010db800000000, 0, 32), kit.V6(0x20010db800000000, 0, 48), kit.V6(0x20010db800010000, 0, 48), kit.V6(0x20010db800000000, 0x8000000000000000, 65)},
	{kit.V6(0, 0, 0), kit.V6(0x8000000000000000, 0, 1), kit.V6(0x20010db8000a000b, 0, 64), kit.V6(0x20010db8000a000b, 0x8000000000000000, 65)},
}

// ---------------------------------------------------------------------------
// announced attributes (model values)

type crigSeg struct {
	Set  bool
	ASNs []uint32
}

type crigAttrs struct {
	NextHop      kit.Bits // address, L = W
	LocalPref    uint32
	MED          uint32
	Origin       uint8
	ASPath       []crigSeg
	OriginatorID uint32
	ClusterList  []uint32
	Communities  []uint32
	OTC          uint32
	Tag          uint32 // large community (64999:caseTag:Tag) when != 0
}

func (a crigAttrs) clone() crigAttrs {
	b := a
	b.ASPath = make([]crigSeg, len(a.ASPath))
	for i, s := range a.ASPath {
		b.ASPath[i] = crigSeg{Set: s.Set, ASNs: append([]uint32(nil), s.ASNs...)}
	}
	b.ClusterList = append([]uint32(nil), a.ClusterList...)
	b.Communities = append([]uint32(nil), a.Communities...)
	return b
}

func (a crigAttrs) asPathLen() int {
	n := 0
	for _, s := range a.ASPath {
		if s.Set {
			n++
		} else {
			n += len(s.ASNs)
		}
	}
	return n
}

func (a crigAttrs) String() string {
	return fmt.Sprintf("nh=%v lp=%d med=%d org=%d as=%v orig=%#x cl=%v com=%v otc=%d tag=%d",
		a.NextHop, a.LocalPref, a.MED, a.Origin, a.ASPath, a.OriginatorID, a.ClusterList, a.Communities, a.OTC, a.Tag)
}

const crigTagAdmin = 64999

// ---------------------------------------------------------------------------
// import policy model

const (
	crigPolAcceptAll   = iota // filter.NewAcceptAllFilterChain()
	crigPolRejectAll          // filter.NewDrainFilterChain()
	crigPolRejectSome         // one filter: term(from route-filter -> reject), term(accept)
	crigPolRewrite            // one filter: term(-> rewrite, accept)
	crigPolRewriteSome        // one filter: term(from route-filter -> rewrite), term(accept)
	crigPolMix                // two filters: [term(from route-filter -> reject)] , [term(-> rewrite, accept)]
	crigPolEmpty              // empty chain (falls off the end: accept)
)

var crigPolNames = []string{"accept-all", "reject-all", "reject-some", "rewrite", "rewrite-some", "mix", "empty-chain"}

const (
	crigRwLocalPref = iota
	crigRwMED
	crigRwNextHop
	crigRwPrepend
)

type crigPolicy struct {
	Kind    int
	Pattern kit.Bits // route filter pattern
	Matcher int      // 0 exact, 1 orlonger, 2 longer
	Rw      int
	Val     uint32   // local-pref / MED / prepend ASN
	Times   uint16   // prepend count
	NH      kit.Bits // next hop
}

func (p crigPolicy) String() string {
	s := crigPolNames[p.Kind]
	if p.Kind == crigPolRejectSome || p.Kind == crigPolRewriteSome || p.Kind == crigPolMix {
		s += fmt.Sprintf(" filter=%v/%s", p.Pattern, []string{"exact", "orlonger", "longer"}[p.Matcher])
	}
	if p.Kind == crigPolRewrite || p.Kind == crigPolRewriteSome || p.Kind == crigPolMix {
		switch p.Rw {
		case crigRwLocalPref:
			s += fmt.Sprintf(" set-local-pref %d", p.Val)
		case crigRwMED:
			s += fmt.Sprintf(" set-med %d", p.Val)
		case crigRwNextHop:
			s += fmt.Sprintf(" set-next-hop %v", p.NH)
		case crigRwPrepend:
			s += fmt.Sprintf(" prepend %d x%d", p.Val, p.Times)
		}
	}
	return s
}

func (p crigPolicy) rewrites() bool {
	return p.Kind == crigPolRewrite || p.Kind == crigPolRewriteSome || p.Kind == crigPolMix
}

func (p crigPolicy) matches(pfx kit.Bits) bool {
	switch p.Matcher {
	case 0:
		return kit.SamePrefix(p.Pattern, pfx)
	case 1:
		return kit.Covers(p.Pattern, pfx)
	default:
		return kit.StrictlyCovers(p.Pattern, pfx)
	}
}

func (p crigPolicy) rewrite(a crigAttrs) crigAttrs {
	a = a.clone()
	switch p.Rw {
	case crigRwLocalPref:
		a.LocalPref = p.Val
	case crigRwMED:
		a.MED = p.Val
	case crigRwNextHop:
		a.NextHop = p.NH
	case crigRwPrepend:
		if p.Times > 0 {
			// RFC 4271 5.1.2: prepend to the leading AS_SEQUENCE, create one if the path is empty or starts with an AS_SET
			if len(a.ASPath) == 0 || a.ASPath[0].Set {
				a.ASPath = append([]crigSeg{{}}, a.ASPath...)
			}
			pre := make([]uint32, 0, int(p.Times)+len(a.ASPath[0].ASNs))
			for i := 0; i < int(p.Times); i++ {
				pre = append(pre, p.Val)
			}
			a.ASPath[0].ASNs = append(pre, a.ASPath[0].ASNs...)
		}
	}
	return a
}

// apply is the reference interpreter of the generated policy shapes.
func (p crigPolicy) apply(pfx kit.Bits, a crigAttrs) (crigAttrs, bool) {
	switch p.Kind {
	case crigPolAcceptAll, crigPolEmpty:
		return a, false
	case crigPolRejectAll:
		return a, true
	case crigPolRejectSome:
		return a, p.matches(pfx)
	case crigPolRewrite:
		return p.rewrite(a), false
	case crigPolRewriteSome:
		if p.matches(pfx) {
			return p.rewrite(a), false
		}
		return a, false
	case crigPolMix:
		if p.matches(pfx) {
			return a, true
		}
		return p.rewrite(a), false
	}
	panic("unknown policy kind")
}

func (p crigPolicy) rwAction() actions.Action {
	switch p.Rw {
	case crigRwLocalPref:
		return actions.NewSetLocalPrefAction(p.Val)
	case crigRwMED:
		return actions.NewSetMEDAction(p.Val)
	case crigRwNextHop:
		ip := crigIPFromBits(p.NH)
		return actions.NewSetNextHopAction(&ip)
	default:
		return actions.NewASPathPrependAction(p.Val, p.Times)
	}
}

func (p crigPolicy) routeFilterCond() []*filter.TermCondition {
	var m filter.PrefixMatcher
	switch p.Matcher {
	case 0:
		m = filter.NewExactMatcher()
	case 1:
		m = filter.NewOrLongerMatcher()
	default:
		m = filter.NewLongerMatcher()
	}
	return []*filter.TermCondition{filter.NewTermConditionWithRouteFilters(filter.NewRouteFilter(crigPfxFromBits(p.Pattern), m))}
}

// chain builds the bio-rd filter chain for the model, from exported constructors only.
func (p crigPolicy) chain() filter.Chain {
	accept := filter.NewTerm("accept", nil, []actions.Action{actions.NewAcceptAction()})
	switch p.Kind {
	case crigPolAcceptAll:
		return filter.NewAcceptAllFilterChain()
	case crigPolRejectAll:
		return filter.NewDrainFilterChain()
	case crigPolEmpty:
		return filter.Chain{}
	case crigPolRejectSome:
		return filter.Chain{filter.NewFilter("reject-some", []*filter.Term{
			filter.NewTerm("rej", p.routeFilterCond(), []actions.Action{actions.NewRejectAction()}),
			accept,
		})}
	case crigPolRewrite:
		return filter.Chain{filter.NewFilter("rewrite", []*filter.Term{
			filter.NewTerm("rw", nil, []actions.Action{p.rwAction(), actions.NewAcceptAction()}),
		})}
	case crigPolRewriteSome:
		return filter.Chain{filter.NewFilter("rewrite-some", []*filter.Term{
			filter.NewTerm("rw", p.routeFilterCond(), []actions.Action{p.rwAction()}),
			accept,
		})}
	case crigPolMix:
		return filter.Chain{
			filter.NewFilter("rej", []*filter.Term{filter.NewTerm("rej", p.routeFilterCond(), []actions.Action{actions.NewRejectAction()})}),
			filter.NewFilter("rw", []*filter.Term{filter.NewTerm("rw", nil, []actions.Action{p.rwAction(), actions.NewAcceptAction()})}),
		}
	}
	panic("unknown policy kind")
}

func crigGenPolicy(t *rapid.T, uni []kit.Bits, kinds []int, label string) crigPolicy {
	p := crigPolicy{Kind: rapid.SampledFrom(kinds).Draw(t, label+"_kind")}
	p.Pattern = uni[rapid.IntRange(0, len(uni)-1).Draw(t, label+"_pat")]
	p.Matcher = rapid.IntRange(0, 2).Draw(t, label+"_matcher")
	p.Rw = rapid.IntRange(0, 3).Draw(t, label+"_rw")
	switch p.Rw {
	case crigRwLocalPref:
		p.Val = rapid.SampledFrom([]uint32{0, 50, 100, 300}).Draw(t, label+"_lp")
	case crigRwMED:
		p.Val = rapid.SampledFrom([]uint32{0, 7, 1000}).Draw(t, label+"_med")
	case crigRwNextHop:
		if uni[0].W == 32 {
			p.NH = kit.V4(0xc6336400+uint32(rapid.IntRange(1, 2).Draw(t, label+"_nh")), 32)
		} else {
			p.NH = kit.V6(0x20010db8ffff0000, uint64(rapid.IntRange(1, 2).Draw(t, label+"_nh")), 128)
		}
	case crigRwPrepend:
		p.Val = rapid.SampledFrom([]uint32{64512, 64513}).Draw(t, label+"_asn")
		p.Times = uint16(rapid.IntRange(0, 3).Draw(t, label+"_times"))
	}
	return p
}

// ---------------------------------------------------------------------------
// sessions and rig

type crigKey struct {
	Pfx int
	ID  uint32
}

type crigAnn struct {
	Attrs    crigAttrs
	Serial   int
	Why      string // "" = eligible, otherwise the reason it is ineligible
	SharedAs int    // serial of the announcement whose *route.Path object this one shares (MP-NLRI style), or 0
}

type crigSession struct {
	name       string
	sa         routingtable.SessionAttrs
	peer       kit.Bits
	in         *adjRIBIn.AdjRIBIn
	policy     crigPolicy
	registered bool // LocRIB registered as client
	model      map[crigKey]crigAnn
	postPolicy bool
}

type crigRig struct {
	caseTag   uint32
	vrf       *vrf.VRF
	rib       *locRIB.LocRIB
	uni       []kit.Bits
	pfxs      []*bnet.Prefix
	routerID  uint32
	localASNs []uint32 // currently contributing ASNs of the VRF (model, sorted)
	clusters  []uint32 // currently contributing cluster IDs of the VRF (model, sorted)
	asnRef    map[uint32]int
	clRef     map[uint32]int
	sessions  []*crigSession
	serial    int
	anns      map[int]crigAnn // by serial (for tag tracing)
}

const (
	crigRouterID  = 0x0a0a0a01
	crigLocalASN  = 65000
	crigLocalASN2 = 65010 // contributed by another (notional) session of the VRF with a different local AS
	crigClusterID = 0x0a0a0ac1
	// contributed by another (notional) route reflector client session of the VRF with its own cluster ID
	crigClusterID2 = 0x0a0a0ad0
)

// Values other (notional) sessions of the VRF contribute and withdraw during a
// history (fsmAddressFamily.init / dispose). They never occur as "foreign"
// values in generated announcements, so a later contribution cannot make an
// already stored announcement ineligible in hindsight.
var crigExtraASNs = []uint32{65020, 65030, 65040}
var crigExtraClusters = []uint32{0x0a0a0ad1, 0x0a0a0ad2}

func crigNewRig(uni []kit.Bits, caseTag uint32) *crigRig {
	r := &crigRig{caseTag: caseTag, uni: uni, routerID: crigRouterID, anns: map[int]crigAnn{}, asnRef: map[uint32]int{}, clRef: map[uint32]int{}}
	r.vrf = vrf.NewUntrackedVRF("crig", 0)
	r.rib = locRIB.New("crig.inet")
	for _, b := range uni {
		r.pfxs = append(r.pfxs, crigPfxFromBits(b))
	}
	// what fsmAddressFamily.init does for every session of the VRF
	r.vrfAddASN(crigLocalASN)
	r.vrfAddASN(crigLocalASN2)
	r.vrfAddCluster(crigClusterID)
	r.vrfAddCluster(crigClusterID2)
	return r
}

func crigSortedKeys(m map[uint32]int) []uint32 {
	var out []uint32
	for k, n := range m {
		if n > 0 {
			out = append(out, k)
		}
	}
	sort.Slice(out, func(i, j int) bool { return out[i] < out[j] })
	return out
}

// vrfAddASN / vrfDelASN / vrfAddCluster / vrfDelCluster: a session of the VRF
// comes up / goes down (reference counted, as vrf.VRF does it).
func (r *crigRig) vrfAddASN(a uint32) {
	r.vrf.AddContributingASN(a)
	r.asnRef[a]++
	r.localASNs = crigSortedKeys(r.asnRef)
}

func (r *crigRig) vrfDelASN(a uint32) bool {
	if r.asnRef[a] == 0 {
		return false
	}
	r.vrf.RemoveContributingASN(a)
	r.asnRef[a]--
	r.localASNs = crigSortedKeys(r.asnRef)
	return true
}

func (r *crigRig) vrfAddCluster(c uint32) {
	r.vrf.AddContributingClusterID(c)
	r.clRef[c]++
	r.clusters = crigSortedKeys(r.clRef)
}

func (r *crigRig) vrfDelCluster(c uint32) bool {
	if r.clRef[c] == 0 {
		return false
	}
	r.vrf.RemoveContributingClusterID(c)
	r.clRef[c]--
	r.clusters = crigSortedKeys(r.clRef)
	return true
}

type crigSessionSpec struct {
	IBGP       bool
	AddPathRX  bool
	DefaultLP  uint32
	RoleOn     bool
	RoleAdv    bool
	RoleRemote uint8
	Policy     crigPolicy
	NonClient  bool // iBGP session that is not a route reflector client (cluster ID 0, as peer.go leaves it)
	// PostPolicy: the session is the mirror of a BMP monitored peer reporting post-policy routes (L flag): its
	// paths are built the way fsmAddressFamily.newRoutePath(bmpPostPolicy=true) builds them
	PostPolicy bool
}

func (r *crigRig) addSession(idx int, spec crigSessionSpec) *crigSession {
	var peer kit.Bits
	if r.uni[0].W == 32 {
		peer = kit.V4(0xc6336400+uint32(10+idx), 32) // 198.51.100.(10+idx)
	} else {
		peer = kit.V6(0x20010db8feed0000, uint64(10+idx), 128)
	}
	peerIP := crigIPFromBits(peer)
	peerASN := uint32(crigLocalASN)
	if !spec.IBGP {
		peerASN = uint32(64600 + idx)
	}
	s := &crigSession{
		name: fmt.Sprintf("s%d", idx),
		peer: peer,
		sa: routingtable.SessionAttrs{
			RouterID:               r.routerID,
			DefaultLocalPreference: spec.DefaultLP,
			PeerIP:                 &peerIP,
			Type:                   route.BGPPathType,
			IBGP:                   spec.IBGP,
			LocalASN:               crigLocalASN,
			PeerASN:                peerASN,
			RouteReflectorClient:   spec.IBGP && !spec.NonClient,
			ClusterID:              crigSessionClusterID(spec),
			AddPathRX:              spec.AddPathRX,
			PeerRoleEnabled:        spec.RoleOn,
			PeerRoleAdvByPeer:      spec.RoleAdv,
			PeerRoleRemote:         spec.RoleRemote,
		},
		policy: spec.Policy,
		model:  map[crigKey]crigAnn{},

		postPolicy: spec.PostPolicy,
	}
	s.in = adjRIBIn.New(spec.Policy.chain(), r.vrf, s.sa)
	r.sessions = append(r.sessions, s)
	return s
}

func crigSessionClusterID(spec crigSessionSpec) uint32 {
	if spec.IBGP && !spec.NonClient {
		return crigClusterID
	}
	return 0
}

func (s *crigSession) String() string {
	return fmt.Sprintf("%s ibgp=%v addpathRX=%v defLP=%d peerAS=%d role(on=%v adv=%v remote=%s) policy=[%v]", s.name, s.sa.IBGP, s.sa.AddPathRX,
		s.sa.DefaultLocalPreference, s.sa.PeerASN, s.sa.PeerRoleEnabled, s.sa.PeerRoleAdvByPeer, packet.PeerRoleName(s.sa.PeerRoleRemote), s.policy)
}

// buildPath mirrors fsmAddressFamily.newRoutePath + processAttributes.
func (r *crigRig) buildPath(s *crigSession, a crigAttrs, id uint32) *route.Path {
	src := crigIPFromBits(s.peer)
	nh := crigIPFromBits(a.NextHop)
	p := &route.Path{
		LTime: 1700000000,
		Type:  route.BGPPathType,
		BGPPath: &route.BGPPath{
			BGPPathA: &route.BGPPathA{
				Source: &src,
				EBGP:   !s.sa.IBGP,
			},
		},
	}
	b := p.BGPPath
	b.BMPPostPolicy = s.postPolicy
	b.BGPPathA.Origin = a.Origin
	b.BGPPathA.LocalPref = a.LocalPref
	b.BGPPathA.MED = a.MED
	b.BGPPathA.NextHop = &nh
	asp := make(types.ASPath, 0, len(a.ASPath))
	for _, sg := range a.ASPath {
		seg := types.ASPathSegment{Type: types.ASSequence, ASNs: append([]uint32{}, sg.ASNs...)}
		if sg.Set {
			seg.Type = types.ASSet
		}
		asp = append(asp, seg)
	}
	b.ASPath = &asp
	b.ASPathLen = asp.Length()
	if len(a.Communities) > 0 {
		c := types.Communities(append([]uint32{}, a.Communities...))
		b.Communities = &c
	}
	if a.Tag != 0 {
		lc := types.LargeCommunities{{GlobalAdministrator: crigTagAdmin, DataPart1: r.caseTag, DataPart2: a.Tag}}
		b.LargeCommunities = &lc
	}
	b.BGPPathA.OriginatorID = a.OriginatorID
	if len(a.ClusterList) > 0 {
		cl := types.ClusterList(append([]uint32{}, a.ClusterList...))
		b.ClusterList = &cl
	}
	b.BGPPathA.OnlyToCustomer = a.OTC
	b.PathIdentifier = id
	return p
}

// withdrawPath is the attribute-less path fsmAddressFamily.withdraws passes.
func crigWithdrawPath(id uint32) *route.Path {
	return &route.Path{LTime: 1700000001, BGPPath: &route.BGPPath{PathIdentifier: id}}
}

// ineligible is the independent eligibility predicate of the C06 statement.
// It returns "" for an eligible announcement, otherwise the reason.
func (r *crigRig) ineligible(s *crigSession, a crigAttrs) string {
	if !s.sa.IBGP && len(a.ASPath) == 0 {
		return "empty AS_PATH on eBGP"
	}
	for _, sg := range a.ASPath {
		for _, asn := range sg.ASNs {
			for _, l := range r.localASNs {
				if asn == l {
					return "local ASN in AS_PATH"
				}
			}
		}
	}
	if a.OriginatorID == r.routerID {
		return "ORIGINATOR_ID is the local router ID"
	}
	for _, c := range a.ClusterList {
		for _, l := range r.clusters {
			if c == l {
				return "local cluster ID in CLUSTER_LIST"
			}
		}
	}
	// RFC 9234 section 5, ingress rules 1 and 2 (roles known on both sides)
	if s.sa.PeerRoleEnabled && s.sa.PeerRoleAdvByPeer && a.OTC != 0 {
		switch s.sa.PeerRoleRemote {
		case packet.PeerRoleRoleCustomer, packet.PeerRoleRoleRSClient:
			return "OTC from customer/rs-client"
		case packet.PeerRoleRolePeer:
			if a.OTC != s.sa.PeerASN {
				return "OTC from peer differs from peer AS"
			}
		}
	}
	return ""
}

// effective returns what the session contributes for an announcement: the
// attributes after the eBGP default LOCAL_PREF and the import policy, or
// ok=false when it is ineligible or rejected.
func (r *crigRig) effective(s *crigSession, pol crigPolicy, k crigKey, an crigAnn) (crigAttrs, bool) {
	if an.Why != "" {
		return crigAttrs{}, false
	}
	a := an.Attrs.clone()
	if !s.sa.IBGP && a.LocalPref == 0 {
		a.LocalPref = s.sa.DefaultLocalPreference
		if a.LocalPref == 0 {
			a.LocalPref = 100
		}
	}
	a, rej := pol.apply(r.uni[k.Pfx], a)
	if rej {
		return crigAttrs{}, false
	}
	return a, true
}

// ---------------------------------------------------------------------------
// canonical rendering

func crigRenderModel(s *crigSession, id uint32, a crigAttrs, caseTag uint32) string {
	var as strings.Builder
	for _, sg := range a.ASPath {
		ty := 2
		if sg.Set {
			ty = 1
		}
		fmt.Fprintf(&as, "[%d:%v]", ty, sg.ASNs)
	}
	lc := "[]"
	if a.Tag != 0 {
		lc = fmt.Sprintf("[(%d,%d,%d)]", crigTagAdmin, caseTag, a.Tag)
	}
	return fmt.Sprintf("src=%s id=%d nh=%s lp=%d med=%d org=%d ebgp=%v orig=%d cl=%v as=%s/%d com=%v lc=%s",
		crigIPFromBits(s.peer).String(), id, crigIPFromBits(a.NextHop).String(), a.LocalPref, a.MED, a.Origin, !s.sa.IBGP,
		a.OriginatorID, append([]uint32{}, a.ClusterList...), as.String(), a.asPathLen(), append([]uint32{}, a.Communities...), lc)
}

func crigRenderPath(p *route.Path) string {
	if p == nil || p.Type != route.BGPPathType || p.BGPPath == nil || p.BGPPath.BGPPathA == nil {
		return fmt.Sprintf("non-BGP path %+v", p)
	}
	b := p.BGPPath
	a := b.BGPPathA
	var as strings.Builder
	if b.ASPath != nil {
		for _, sg := range *b.ASPath {
			fmt.Fprintf(&as, "[%d:%v]", sg.Type, append([]uint32{}, sg.ASNs...))
		}
	}
	cl := []uint32{}
	if b.ClusterList != nil {
		cl = append(cl, *b.ClusterList...)
	}
	com := []uint32{}
	if b.Communities != nil {
		com = append(com, *b.Communities...)
	}
	lc := "["
	if b.LargeCommunities != nil {
		for i, c := range *b.LargeCommunities {
			if i > 0 {
				lc += " "
			}
			lc += fmt.Sprintf("(%d,%d,%d)", c.GlobalAdministrator, c.DataPart1, c.DataPart2)
		}
	}
	lc += "]"
	nh := "<nil>"
	if a.NextHop != nil {
		nh = a.NextHop.String()
	}
	src := "<nil>"
	if a.Source != nil {
		src = a.Source.String()
	}
	return fmt.Sprintf("src=%s id=%d nh=%s lp=%d med=%d org=%d ebgp=%v orig=%d cl=%v as=%s/%d com=%v lc=%s",
		src, b.PathIdentifier, nh, a.LocalPref, a.MED, a.Origin, a.EBGP, a.OriginatorID, cl, as.String(), b.ASPathLen, com, lc)
}

// crigTagOf extracts the announcement serial from the tracing large community (0 if none).
func (r *crigRig) tagOf(p *route.Path) uint32 {
	if p == nil || p.BGPPath == nil || p.BGPPath.LargeCommunities == nil {
		return 0
	}
	for _, c := range *p.BGPPath.LargeCommunities {
		if c.GlobalAdministrator == crigTagAdmin && c.DataPart1 == r.caseTag {
			return c.DataPart2
		}
	}
	return 0
}

// locRIBContent renders LocRIB.Dump() as a sorted multiset of "prefix | path".
func (r *crigRig) locRIBContent() []string {
	var out []string
	for _, rt := range r.rib.Dump() {
		for _, p := range rt.Paths() {
			out = append(out, rt.Prefix().String()+" | "+crigRenderPath(p))
		}
	}
	sort.Strings(out)
	return out
}

// expectedContent is the union over registered sessions of their effective announcements.
func (r *crigRig) expectedContent() []string {
	var out []string
	for _, s := range r.sessions {
		if !s.registered {
			continue
		}
		for k, an := range s.model {
			if a, ok := r.effective(s, s.policy, k, an); ok {
				out = append(out, r.pfxs[k.Pfx].String()+" | "+crigRenderModel(s, k.ID, a, r.caseTag))
			}
		}
	}
	sort.Strings(out)
	return out
}

func crigDiff(got, want []string) string {
	g := map[string]int{}
	for _, x := range got {
		g[x]++
	}
	for _, x := range want {
		g[x]--
	}
	var keys []string
	for k := range g {
		keys = append(keys, k)
	}
	sort.Strings(keys)
	var sb strings.Builder
	for _, k := range keys {
		switch {
		case g[k] > 0:
			fmt.Fprintf(&sb, "\n  unexpected in Loc-RIB (x%d): %s", g[k], k)
		case g[k] < 0:
			fmt.Fprintf(&sb, "\n  missing from Loc-RIB (x%d): %s", -g[k], k)
		}
	}
	return sb.String()
}

// ---------------------------------------------------------------------------
// generators of announcements

type crigGenOpts struct {
	IneligibleBias int // 0 = never craft an ineligible attribute on purpose, n = 1 in n announcements
	OTC            bool
}

func (r *crigRig) genAttrs(t *rapid.T, s *crigSession, o crigGenOpts) crigAttrs {
	var a crigAttrs
	if r.uni[0].W == 32 {
		a.NextHop = kit.V4(0xcb007100+uint32(rapid.IntRange(1, 3).Draw(t, "nh")), 32)
	} else {
		a.NextHop = kit.V6(0x20010db8cafe0000, uint64(rapid.IntRange(1, 3).Draw(t, "nh")), 128)
	}
	a.LocalPref = rapid.SampledFrom([]uint32{0, 0, 50, 100, 200}).Draw(t, "lp")
	a.MED = rapid.SampledFrom([]uint32{0, 0, 10}).Draw(t, "med")
	a.Origin = uint8(rapid.IntRange(0, 2).Draw(t, "origin"))
	// AS_PATH: 0..3 ASNs in a sequence, optionally an AS_SET (first or last)
	n := rapid.IntRange(0, 3).Draw(t, "aslen")
	if !s.sa.IBGP && n == 0 && rapid.IntRange(0, 3).Draw(t, "keep_empty") != 0 {
		n = 1
	}
	foreign := []uint32{s.sa.PeerASN, 64700, 64701, 4200000001}
	if s.sa.IBGP {
		foreign[0] = 64702 // the peer AS is our own AS on iBGP; own ASNs are only inserted on purpose below
	}
	if n > 0 {
		seg := crigSeg{}
		for i := 0; i < n; i++ {
			seg.ASNs = append(seg.ASNs, rapid.SampledFrom(foreign).Draw(t, "asn"))
		}
		a.ASPath = append(a.ASPath, seg)
	}
	switch rapid.IntRange(0, 9).Draw(t, "asset") {
	case 0:
		a.ASPath = append(a.ASPath, crigSeg{Set: true, ASNs: []uint32{64800, 64801}})
	case 1:
		a.ASPath = append([]crigSeg{{Set: true, ASNs: []uint32{64802}}}, a.ASPath...)
	}
	if s.sa.IBGP && rapid.IntRange(0, 2).Draw(t, "reflected") == 0 {
		a.OriginatorID = rapid.SampledFrom([]uint32{0x0a0a0a02, 0x0a0a0a03}).Draw(t, "originator")
		a.ClusterList = []uint32{rapid.SampledFrom([]uint32{0x0a0a0ac2, 0x0a0a0ac3}).Draw(t, "cluster")}
		if rapid.Bool().Draw(t, "cluster2") {
			a.ClusterList = append(a.ClusterList, 0x0a0a0ac4)
		}
	}
	if rapid.IntRange(0, 4).Draw(t, "community") == 0 {
		a.Communities = []uint32{65000<<16 | 1}
	}
	if o.OTC && rapid.IntRange(0, 2).Draw(t, "otc") == 0 {
		a.OTC = rapid.SampledFrom([]uint32{s.sa.PeerASN, 64700, 1}).Draw(t, "otc_as")
	}
	if o.IneligibleBias > 0 && rapid.IntRange(1, o.IneligibleBias).Draw(t, "make_ineligible") == 1 {
		switch rapid.IntRange(0, 4).Draw(t, "ineligible_kind") {
		case 0: // own ASN somewhere in the path (sequence or set, any position)
			asn := rapid.SampledFrom(r.localASNs).Draw(t, "own_asn")
			if len(a.ASPath) == 0 {
				a.ASPath = []crigSeg{{ASNs: []uint32{asn}}}
			} else {
				si := rapid.IntRange(0, len(a.ASPath)-1).Draw(t, "own_seg")
				pos := rapid.IntRange(0, len(a.ASPath[si].ASNs)).Draw(t, "own_pos")
				seg := a.ASPath[si]
				asns := append([]uint32{}, seg.ASNs[:pos]...)
				asns = append(asns, asn)
				asns = append(asns, seg.ASNs[pos:]...)
				a.ASPath[si].ASNs = asns
			}
		case 1:
			a.OriginatorID = r.routerID
			if len(a.ClusterList) == 0 {
				a.ClusterList = []uint32{0x0a0a0ac2}
			}
		case 2:
			if a.OriginatorID == 0 {
				a.OriginatorID = 0x0a0a0a02
			}
			cl := append([]uint32{}, a.ClusterList...)
			pos := rapid.IntRange(0, len(cl)).Draw(t, "cl_pos")
			cl = append(cl[:pos:pos], append([]uint32{rapid.SampledFrom(r.clusters).Draw(t, "own_cluster")}, cl[pos:]...)...)
			a.ClusterList = cl
		case 3:
			if !s.sa.IBGP {
				a.ASPath = nil
			}
		case 4:
			if o.OTC {
				a.OTC = rapid.SampledFrom([]uint32{64700, 1, s.sa.PeerASN}).Draw(t, "bad_otc")
			}
		}
	}
	return a
}

//go:build verif

package routingtable_test

import (
	"testing"

	bnet "github.com/bio-routing/bio-rd/net"
	"github.com/bio-routing/bio-rd/protocols/bgp/types"
	"github.com/bio-routing/bio-rd/route"
	"github.com/bio-routing/bio-rd/routingtable"
	"pgregory.net/rapid"
	kit "verifkit"
)

// c01Pfx builds a fresh *net.Prefix for a model bit string (every call a new
// object: the table must work by value).
func c01Pfx(b kit.Bits) *bnet.Prefix {
	if b.W == 32 {
		return bnet.NewPfx(bnet.IPv4(b.U32()), uint8(b.L)).Ptr()
	}
	hi, lo := b.HiLo()
	return bnet.NewPfx(bnet.IPv6(hi, lo), uint8(b.L)).Ptr()
}

// c01Bits converts a prefix reported by the table back through the exported
// byte view.
func c01Bits(p *bnet.Prefix) kit.Bits {
	var b kit.Bits
	ip := p.Addr()
	if ip.IsIPv4() {
		b.W = 32
	} else {
		b.W = 128
	}
	copy(b.A[:], ip.Bytes())
	b.L = int(p.Len())
	return b
}

func c01Path(w, id int) *route.Path {
	var nh bnet.IP
	if w == 32 {
		nh = bnet.IPv4FromOctets(192, 0, 2, uint8(id+1))
	} else {
		nh = bnet.IPv6(0x20010db800000000, uint64(id+1))
	}
	return &route.Path{Type: route.StaticPathType, StaticPath: &route.StaticPath{NextHop: nh.Ptr()}}
}

// c01BGPPath: four BGP paths of one neighbour. 0 is the base; 1 has another LOCAL_PREF; 2 and 3 tie with 0 in
// every attribute the decision process looks at (Path.Equal says "same") and differ in the communities / an
// unknown attribute (Path.Compare says "different"): the table has to keep them apart.
func c01BGPPath(w, id int) *route.Path {
	var nh, src bnet.IP
	if w == 32 {
		nh, src = bnet.IPv4FromOctets(192, 0, 2, 1), bnet.IPv4FromOctets(192, 0, 2, 254)
	} else {
		nh, src = bnet.IPv6(0x20010db800000000, 1), bnet.IPv6(0x20010db800000000, 254)
	}
	b := route.NewBGPPath()
	b.BGPPathA.NextHop, b.BGPPathA.Source = nh.Ptr(), src.Ptr()
	b.BGPPathA.LocalPref, b.BGPPathA.EBGP = 100, true
	b.ASPath = types.NewASPath([]uint32{64500, 64501})
	b.ASPathLen = b.ASPath.Length()
	switch id {
	case 1:
		b.BGPPathA.LocalPref = 200
	case 2:
		b.Communities = &types.Communities{64500<<16 | 7}
	case 3:
		b.UnknownAttributes = []types.UnknownPathAttribute{{Optional: true, Transitive: true, TypeCode: 200, Value: []byte{1}}}
	}
	return &route.Path{Type: route.BGPPathType, BGPPath: b}
}

// c01Table adapts routingtable.RoutingTable to the kit machine.
type c01Table struct {
	w     int
	bgp   bool
	rt    *routingtable.RoutingTable
	paths [4]*route.Path
	ids   map[*route.Path]int
}

func newC01Table(w int) *c01Table { return newC01TableOf(w, false) }

func newC01TableOf(w int, bgp bool) *c01Table {
	a := &c01Table{w: w, bgp: bgp, rt: routingtable.NewRoutingTable(), ids: map[*route.Path]int{}}
	for i := range a.paths {
		a.paths[i] = a.obj(i, true)
		a.ids[a.paths[i]] = i
	}
	return a
}

func (a *c01Table) obj(id int, fresh bool) *route.Path {
	if !fresh {
		return a.paths[id]
	}
	if a.bgp {
		return c01BGPPath(a.w, id)
	}
	return c01Path(a.w, id)
}

func (a *c01Table) routes(rs []*route.Route) []kit.Bits {
	out := make([]kit.Bits, 0, len(rs))
	for _, r := range rs {
		out = append(out, c01Bits(r.Prefix()))
	}
	return out
}

func (a *c01Table) Get(q kit.Bits) ([]int, bool) {
	r := a.rt.Get(c01Pfx(q))
	if r == nil {
		return nil, false
	}
	ids := []int{}
	if !kit.SamePrefix(c01Bits(r.Prefix()), q) {
		ids = append(ids, -2) // route of another prefix returned
	}
	for _, p := range r.Paths() {
		id, ok := a.ids[p]
		if !ok {
			id = -1
		}
		ids = append(ids, id)
	}
	return ids, true
}
func (a *c01Table) LPM(q kit.Bits) []kit.Bits       { return a.routes(a.rt.LPM(c01Pfx(q))) }
func (a *c01Table) GetLonger(q kit.Bits) []kit.Bits { return a.routes(a.rt.GetLonger(c01Pfx(q))) }
func (a *c01Table) Dump() []kit.Bits                { return a.routes(a.rt.Dump()) }
func (a *c01Table) Count() int64                    { return a.rt.GetRouteCount() }
func (a *c01Table) Add(p kit.Bits, id int)          { a.rt.AddPath(c01Pfx(p), a.paths[id]) }
func (a *c01Table) Remove(p kit.Bits, id int, fresh bool) {
	a.rt.RemovePath(c01Pfx(p), a.obj(id, fresh))
}
func (a *c01Table) ReplaceAll(p kit.Bits, id int)                  { a.rt.ReplacePath(c01Pfx(p), a.paths[id]) }
func (a *c01Table) ReplaceOne(p kit.Bits, old, id int, fresh bool) { panic("not offered") }
func (a *c01Table) RemovePfx(p kit.Bits)                           { a.rt.RemovePfx(c01Pfx(p)) }

func c01RunTable(t *testing.T, w int) {
	rec := kit.NewRecorder(t, "C01", kit.PfxMachineRule)
	rapid.Check(t, func(t *rapid.T) {
		c := rec.Case()
		defer c.Done()
		bgp := rapid.IntRange(0, 2).Draw(t, "bgp_paths") == 0
		c.Logf("RoutingTable (BGP paths incl. decision-process ties: %v)", bgp)
		c.ClassIf(bgp, "bgp_paths_with_ties")
		kit.RunPfxMachine(t, c, w, newC01TableOf(w, bgp), kit.PfxCaps{ReplaceAll: true, RemovePfx: true})
	})
}

func TestVerifC01TableV4(t *testing.T) { c01RunTable(t, 32) }
func TestVerifC01TableV6(t *testing.T) { c01RunTable(t, 128) }

// TestVerifC01RegressionTableGetLongerAbsent replays the shrunk failing cases
// of the GetLonger defect (fixed: see known_findings.txt): more-specifics of a
// query prefix that is not stored itself, with and without a dummy node for it.
func TestVerifC01RegressionTableGetLongerAbsent(t *testing.T) {
	for _, w := range []int{32, 128} {
		var base kit.Bits
		if w == 32 {
			base = kit.V4(0x0a000000, 32)
		} else {
			base = kit.V6(0x20010db800000000, 0, 128)
		}
		q := base.WithLen(8).Canon()
		lo := base.WithLen(9).Canon()
		hi := base.SetBit(8, true).WithLen(9).Canon()
		a := newC01Table(w)
		m := kit.NewPfxModel()
		// only a more specific stored, no node for q at all
		a.Add(lo, 0)
		m.Add(lo, 0)
		if msg := kit.CheckPfxTable(m, a, []kit.Bits{q, lo, hi, base.WithLen(0).Canon()}); msg != "" {
			t.Fatalf("w=%d one more-specific: %s", w, msg)
		}
		// both halves stored: q exists as dummy node
		a.Add(hi, 1)
		m.Add(hi, 1)
		if msg := kit.CheckPfxTable(m, a, []kit.Bits{q, lo, hi, base.WithLen(0).Canon()}); msg != "" {
			t.Fatalf("w=%d dummy node: %s", w, msg)
		}
		// q stored and removed again
		a.Add(q, 2)
		a.Remove(q, 2, true)
		if msg := kit.CheckPfxTable(m, a, []kit.Bits{q, lo, hi, base.WithLen(0).Canon()}); msg != "" {
			t.Fatalf("w=%d removed query: %s", w, msg)
		}
	}
}

//go:build verif

package mergedlocrib_test

import (
	"fmt"
	"sort"
	"strings"
	"testing"

	bnet "github.com/bio-routing/bio-rd/net"
	"github.com/bio-routing/bio-rd/route"
	routeapi "github.com/bio-routing/bio-rd/route/api"
	"github.com/bio-routing/bio-rd/routingtable/locRIB"
	"github.com/bio-routing/bio-rd/routingtable/mergedlocrib"
	"pgregory.net/rapid"
	kit "verifkit"
)

const c29Rule = "history of <=30 (thorough <=80) operations AddRoute(source, route) (repeats allowed), RemoveRoute(source, route) (also for never-advertised pairs) and DropAllBySrc(source) over 3 (thorough 4) sources and 5 routes (two static routes sharing 10.0.0.0/8, two BGP routes sharing 10.0.0.0/9, one BGP route with communities), every call with a freshly built API route as decoded from the wire; model = set of (source, route); after every operation the set of (prefix, next hop) entries in the underlying LocRIB dump must equal the routes advertised by at least one source. Non-trivial: a repeated advertisement by the same source later followed by a withdrawal or source drop that leaves the route without sources, or a route that is withdrawn by one source while another still advertises it."

// c29Src is an upstream source (the RIS client passes its *grpc.ClientConn;
// any comparable pointer works).
type c29Src struct{ name string }

const c29NRoutes = 7

var c29Pfx = [c29NRoutes]*bnet.Prefix{
	bnet.NewPfx(bnet.IPv4FromOctets(10, 0, 0, 0), 8).Ptr(),
	bnet.NewPfx(bnet.IPv4FromOctets(10, 0, 0, 0), 8).Ptr(),
	bnet.NewPfx(bnet.IPv4FromOctets(10, 0, 0, 0), 9).Ptr(),
	bnet.NewPfx(bnet.IPv4FromOctets(10, 0, 0, 0), 9).Ptr(),
	bnet.NewPfx(bnet.IPv4FromOctets(192, 0, 2, 0), 24).Ptr(),
	// 5 and 6: route 2 once more, differing from it only in the communities / large communities (attributes
	// the decision process does not look at: Path.Equal says "same", Path.Compare says "different")
	bnet.NewPfx(bnet.IPv4FromOctets(10, 0, 0, 0), 9).Ptr(),
	bnet.NewPfx(bnet.IPv4FromOctets(10, 0, 0, 0), 9).Ptr(),
}

// c29Base: the pool route whose attributes route i starts from.
func c29Base(i int) int {
	if i >= 5 {
		return 2
	}
	return i
}

func c29NextHop(i int) bnet.IP { return bnet.IPv4FromOctets(198, 51, 100, uint8(c29Base(i)+1)) }

// c29Route builds route i of the pool as a fresh API message (as the RIS
// client receives it: one path per update).
func c29Route(i int) *routeapi.Route {
	r := &routeapi.Route{Pfx: c29Pfx[i].ToProto()}
	switch i {
	case 0, 1:
		r.Paths = []*routeapi.Path{{
			Type:       routeapi.Path_Static,
			StaticPath: &routeapi.StaticPath{NextHop: c29NextHop(i).ToProto()},
		}}
	default:
		bp := &routeapi.BGPPath{
			NextHop:       c29NextHop(i).ToProto(),
			Source:        bnet.IPv4FromOctets(203, 0, 113, uint8(c29Base(i))).ToProto(),
			LocalPref:     100,
			BgpIdentifier: uint32(c29Base(i)),
			Ebgp:          true,
			AsPath: []*routeapi.ASPathSegment{{
				AsSequence: true,
				Asns:       []uint32{65000 + uint32(c29Base(i)), 65100},
			}},
		}
		if i == 5 {
			bp.Communities = []uint32{65000<<16 | 7}
		}
		if i == 6 {
			bp.LargeCommunities = []*routeapi.LargeCommunity{{GlobalAdministrator: 65000, DataPart1: 7, DataPart2: 7}}
		}
		if i == 4 {
			bp.Communities = []uint32{65000<<16 | 1, 65000<<16 | 2}
			bp.LargeCommunities = []*routeapi.LargeCommunity{{GlobalAdministrator: 65000, DataPart1: 1, DataPart2: 2}}
		}
		r.Paths = []*routeapi.Path{{Type: routeapi.Path_BGP, BgpPath: bp}}
	}
	return r
}

func c29Key(i int) string {
	k := fmt.Sprintf("%s via %s", c29Pfx[i].String(), c29NextHop(i).String())
	switch i {
	case 5:
		k += " comm[4259840007]"
	case 6:
		k += " lcomm[(65000,7,7)]"
	}
	return k
}

// c29Present renders the underlying LocRIB as the sorted set of
// "prefix via next hop" entries.
func c29Present(rib *locRIB.LocRIB) []string {
	set := map[string]struct{}{}
	for _, r := range rib.Dump() {
		for _, p := range r.Paths() {
			nh := "?"
			switch {
			case p.Type == route.StaticPathType && p.StaticPath != nil && p.StaticPath.NextHop != nil:
				nh = p.StaticPath.NextHop.String()
			case p.Type == route.BGPPathType && p.BGPPath != nil && p.BGPPath.BGPPathA != nil && p.BGPPath.BGPPathA.NextHop != nil:
				nh = p.BGPPath.BGPPathA.NextHop.String()
			}
			k := fmt.Sprintf("%s via %s", r.Prefix().String(), nh)
			if r.Prefix().Equal(c29Pfx[2]) && p.BGPPath != nil {
				// the three routes of this prefix that tie in the decision process are told apart by these
				if c := p.BGPPath.Communities; c != nil && len(*c) > 0 {
					k += fmt.Sprintf(" comm%v", []uint32(*c))
				}
				if lc := p.BGPPath.LargeCommunities; lc != nil && len(*lc) > 0 {
					k += " lcomm["
					for _, x := range *lc {
						k += x.String()
					}
					k += "]"
				}
			}
			set[k] = struct{}{}
		}
	}
	out := make([]string, 0, len(set))
	for k := range set {
		out = append(out, k)
	}
	sort.Strings(out)
	return out
}

// c29Model is the reference: the set of (source, route) pairs currently
// advertised.
type c29Model struct {
	adv [][c29NRoutes]bool // [source][route]
}

func (m *c29Model) sources(i int) int {
	n := 0
	for s := range m.adv {
		if m.adv[s][i] {
			n++
		}
	}
	return n
}

func (m *c29Model) want() []string {
	out := []string{}
	for i := 0; i < c29NRoutes; i++ {
		if m.sources(i) > 0 {
			out = append(out, c29Key(i))
		}
	}
	sort.Strings(out)
	return out
}

func c29Check(m *c29Model, rib *locRIB.LocRIB) string {
	got, want := c29Present(rib), m.want()
	if strings.Join(got, "; ") != strings.Join(want, "; ") {
		return fmt.Sprintf("underlying LocRIB holds [%s], routes advertised by at least one source are [%s]", strings.Join(got, "; "), strings.Join(want, "; "))
	}
	return ""
}

func TestVerifC29Machine(t *testing.T) {
	rec := kit.NewRecorder(t, "C29", c29Rule)
	nsrc := kit.Scale(3, 4)
	rapid.Check(t, func(t *rapid.T) {
		c := rec.Case()
		defer c.Done()
		rib := locRIB.New("c29")
		mr := mergedlocrib.New(rib)
		srcs := make([]*c29Src, nsrc)
		for i := range srcs {
			srcs[i] = &c29Src{name: fmt.Sprintf("s%d", i)}
		}
		m := &c29Model{adv: make([][c29NRoutes]bool, nsrc)}
		// dup[s][i]: source s advertised route i again while already advertising it
		dup := make([][c29NRoutes]bool, nsrc)
		steps := rapid.IntRange(1, kit.Scale(30, 80)).Draw(t, "steps")
		for st := 0; st < steps; st++ {
			op := rapid.SampledFrom([]string{"add", "add", "add", "remove", "remove", "drop"}).Draw(t, "op")
			s := rapid.IntRange(0, nsrc-1).Draw(t, "src")
			i := rapid.IntRange(0, c29NRoutes-1).Draw(t, "route")
			switch op {
			case "add":
				c.Logf("%d add s%d r%d", st, s, i)
				if m.adv[s][i] {
					dup[s][i] = true
					c.Class("repeated_advertisement")
				}
				if err := mr.AddRoute(srcs[s], c29Route(i)); err != nil {
					t.Fatalf("AddRoute: %v", err)
				}
				m.adv[s][i] = true
				c.ClassIf(m.sources(i) >= 2, "route_with_2+_sources")
			case "remove":
				c.Logf("%d remove s%d r%d", st, s, i)
				c.ClassIf(!m.adv[s][i], "remove_never_advertised")
				if m.adv[s][i] {
					if dup[s][i] && m.sources(i) == 1 {
						c.Class("repeat_then_last_withdrawal")
						c.NonTrivial()
					}
					if m.sources(i) >= 2 {
						c.Class("withdrawal_with_other_source_left")
						c.NonTrivial()
					}
				}
				if err := mr.RemoveRoute(srcs[s], c29Route(i)); err != nil {
					t.Fatalf("RemoveRoute: %v", err)
				}
				m.adv[s][i] = false
				dup[s][i] = false
			case "drop":
				c.Logf("%d drop s%d", st, s)
				for j := 0; j < c29NRoutes; j++ {
					if m.adv[s][j] && dup[s][j] && m.sources(j) == 1 {
						c.Class("repeat_then_source_drop")
						c.NonTrivial()
					}
					if m.adv[s][j] && m.sources(j) >= 2 {
						c.Class("drop_with_other_source_left")
						c.NonTrivial()
					}
					m.adv[s][j] = false
					dup[s][j] = false
				}
				mr.DropAllBySrc(srcs[s])
			}
			c.ClassIf(m.sources(0) > 0 && m.sources(1) > 0, "shared_prefix_both_static_present")
			c.ClassIf(m.sources(2) > 0 && m.sources(3) > 0, "shared_prefix_both_bgp_present")
			if msg := c29Check(m, rib); msg != "" {
				t.Fatalf("after step %d: %s\nhistory:\n%s", st, msg, c.String())
			}
		}
	})
}

// TestVerifC29RegressionRepeatedAdd replays the shrunk failing cases of the
// duplicate-source defect (fixed: see known_findings.txt).
func TestVerifC29RegressionRepeatedAdd(t *testing.T) {
	for _, drop := range []bool{false, true} {
		rib := locRIB.New("c29")
		mr := mergedlocrib.New(rib)
		s0 := &c29Src{name: "s0"}
		m := &c29Model{adv: make([][c29NRoutes]bool, 1)}
		mr.AddRoute(s0, c29Route(0))
		mr.AddRoute(s0, c29Route(0))
		m.adv[0][0] = true
		if msg := c29Check(m, rib); msg != "" {
			t.Fatalf("after repeated add: %s", msg)
		}
		if drop {
			mr.DropAllBySrc(s0)
		} else {
			mr.RemoveRoute(s0, c29Route(0))
		}
		m.adv[0][0] = false
		if msg := c29Check(m, rib); msg != "" {
			t.Fatalf("add s0 r0; add s0 r0; %s: %s", map[bool]string{false: "remove s0 r0", true: "drop s0"}[drop], msg)
		}
	}
}

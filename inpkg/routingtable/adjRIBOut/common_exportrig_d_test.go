//go:build verif

package adjRIBOut

// common_exportrig_d_test.go — shared rig of the export-side checks C08, C09,
// C11 and C13 (agent D). Everything here is prefixed dx.
//
//   dxAttrs      plain value description of a path (Loc-RIB form or exported form)
//   dxSession    plain description of a session (kind, add-path, roles, addresses)
//   dxPolicy     plain export policy + reference interpreter + builder of the real filter.Chain
//   dxExport     INDEPENDENT reference of "what does this session advertise for this Loc-RIB path"
//   dxReal       builds the *route.Path a real caller (FSM / static redistribution) would hand to the Loc-RIB
//   dxFromReal   reads a *route.Path back into dxAttrs (value view, nil == empty)
//   dxRecorder   RouteTableClient that records what an Adj-RIB-Out tells its client (the update sender)

import (
	"fmt"
	"sort"
	"strings"
	"sync"

	bnet "github.com/bio-routing/bio-rd/net"
	"github.com/bio-routing/bio-rd/protocols/bgp/packet"
	"github.com/bio-routing/bio-rd/protocols/bgp/types"
	"github.com/bio-routing/bio-rd/route"
	"github.com/bio-routing/bio-rd/routingtable"
	"github.com/bio-routing/bio-rd/routingtable/filter"
	"github.com/bio-routing/bio-rd/routingtable/filter/actions"
	"pgregory.net/rapid"
	kit "verifkit"
)

// ---------------------------------------------------------------------------
// plain values

type dxSeg struct {
	Set  bool
	ASNs []uint32
}

type dxUnk struct {
	Optional, Partial bool
	Type              uint8
	Value             []byte
}

// dxAttrs is a path by value. Static paths use only NH.
type dxAttrs struct {
	Static  bool
	NH      uint32
	Src     uint32
	EBGP    bool
	LP, MED uint32
	BGPID   uint32
	OrigID  uint32
	Origin  uint8
	ASPath  []dxSeg
	Cluster []uint32
	Comms   []uint32
	LComms  [][3]uint32
	Unknown []dxUnk
	OTC     uint32
	Atomic  bool
	HasAggr bool
	// EmptyCluster / EmptyComms: the attribute was received with zero length; the decoder then hands over a non-nil
	// pointer to an empty list. By value that is the same as an absent attribute (canon does not show it).
	EmptyCluster bool
	EmptyComms   bool
	AggrASN      uint16
	AggrAddr     uint32
	RxPathID     uint32 // path identifier the path was received with (add-path RX); 0 otherwise
}

func dxIP(v uint32) string {
	return fmt.Sprintf("%d.%d.%d.%d", byte(v>>24), byte(v>>16), byte(v>>8), byte(v))
}

func (a dxAttrs) asPathString() string {
	var sb strings.Builder
	for _, s := range a.ASPath {
		if len(s.ASNs) == 0 {
			// route.NewBGPPath() starts redistributed routes with one empty
			// AS_SEQUENCE; by value that is the empty AS path
			continue
		}
		if s.Set {
			fmt.Fprintf(&sb, "{%v}", s.ASNs)
		} else {
			fmt.Fprintf(&sb, "%v", s.ASNs)
		}
	}
	return sb.String()
}

// dxMask names the attributes of an exported path on which the statement is
// silent for the case at hand, so that they are not compared.
type dxMask struct {
	OrigValue bool // ORIGINATOR_ID was created by this speaker: only its presence is judged
	RRAttrs   bool // ORIGINATOR_ID / CLUSTER_LIST not judged at all (path was not learned from an iBGP peer)
}

// canon renders the attribute values (never the path identifiers).
func (a dxAttrs) canon(m dxMask) string {
	if a.Static {
		return "static nh=" + dxIP(a.NH)
	}
	var sb strings.Builder
	fmt.Fprintf(&sb, "nh=%s src=%s ebgp=%v lp=%d med=%d id=%d origin=%d as=%s", dxIP(a.NH), dxIP(a.Src), a.EBGP, a.LP, a.MED, a.BGPID, a.Origin, a.asPathString())
	switch {
	case m.RRAttrs:
		sb.WriteString(" orig=* cl=*")
	case m.OrigValue:
		fmt.Fprintf(&sb, " orig=present:%v cl=%v", a.OrigID != 0, a.Cluster)
	default:
		fmt.Fprintf(&sb, " orig=%d cl=%v", a.OrigID, a.Cluster)
	}
	fmt.Fprintf(&sb, " comm=%x lcomm=%v otc=%d atomic=%v", a.Comms, a.LComms, a.OTC, a.Atomic)
	if a.HasAggr {
		fmt.Fprintf(&sb, " aggr=%d/%s", a.AggrASN, dxIP(a.AggrAddr))
	}
	for _, u := range a.Unknown {
		fmt.Fprintf(&sb, " unk(%d,o=%v,p=%v,%x)", u.Type, u.Optional, u.Partial, u.Value)
	}
	return sb.String()
}

func (a dxAttrs) String() string { return a.canon(dxMask{}) }

func (a dxAttrs) clone() dxAttrs {
	b := a
	b.ASPath = nil
	for _, s := range a.ASPath {
		b.ASPath = append(b.ASPath, dxSeg{Set: s.Set, ASNs: append([]uint32{}, s.ASNs...)})
	}
	b.Cluster = append([]uint32(nil), a.Cluster...)
	b.Comms = append([]uint32(nil), a.Comms...)
	b.LComms = append([][3]uint32(nil), a.LComms...)
	b.Unknown = append([]dxUnk(nil), a.Unknown...)
	return b
}

func (a dxAttrs) hasComm(c uint32) bool {
	for _, x := range a.Comms {
		if x == c {
			return true
		}
	}
	return false
}

// ---------------------------------------------------------------------------
// sessions

const (
	dxEBGP = iota
	dxEBGPRSClient
	dxIBGP
	dxIBGPRRClient
)

var dxKindNames = []string{"ebgp", "ebgp_rs_client", "ibgp", "ibgp_rr_client"}

type dxSession struct {
	Kind     int
	AddPathN int // 0: best path only; N>0: add-path send with MaxPaths N
	LocalASN uint32
	PeerASN  uint32
	LocalIP  uint32
	PeerIP   uint32
	Cluster  uint32
	RouterID uint32
	// RFC 9234
	RoleOn     bool  // peer role configured locally
	RoleAdv    bool  // role capability received from the peer
	RoleRemote uint8 // role of the peer
	RoleLocal  uint8
}

func (s dxSession) ibgp() bool     { return s.Kind == dxIBGP || s.Kind == dxIBGPRRClient }
func (s dxSession) rrClient() bool { return s.Kind == dxIBGPRRClient }
func (s dxSession) rsClient() bool { return s.Kind == dxEBGPRSClient }

// roleKnown: the peering relation is known to both ends (RFC 9234 §4: role
// capability exchanged).
func (s dxSession) roleKnown() bool { return !s.ibgp() && s.RoleOn && s.RoleAdv }

func (s dxSession) String() string {
	r := "norole"
	if s.RoleOn {
		r = fmt.Sprintf("role(local=%d,adv=%v,remote=%d)", s.RoleLocal, s.RoleAdv, s.RoleRemote)
	}
	return fmt.Sprintf("%s addpath=%d local=AS%d/%s peer=AS%d/%s cluster=%d %s", dxKindNames[s.Kind], s.AddPathN, s.LocalASN, dxIP(s.LocalIP), s.PeerASN, dxIP(s.PeerIP), s.Cluster, r)
}

func (s dxSession) attrs() routingtable.SessionAttrs {
	return routingtable.SessionAttrs{
		RouterID:             s.RouterID,
		PeerIP:               bnet.IPv4(s.PeerIP).Dedup(),
		LocalIP:              bnet.IPv4(s.LocalIP).Dedup(),
		Type:                 route.BGPPathType,
		IBGP:                 s.ibgp(),
		LocalASN:             s.LocalASN,
		PeerASN:              s.PeerASN,
		RouteServerClient:    s.rsClient(),
		RouteReflectorClient: s.rrClient(),
		ClusterID:            s.Cluster,
		AddPathTX:            s.AddPathN > 0,
		PeerRoleEnabled:      s.RoleOn,
		PeerRoleLocal:        s.RoleLocal,
		PeerRoleAdvByPeer:    s.RoleAdv,
		PeerRoleRemote:       s.RoleRemote,
	}
}

// clientOptions are the options the FSM registers the Adj-RIB-Out with.
func (s dxSession) clientOptions() routingtable.ClientOptions {
	if s.AddPathN == 0 {
		return routingtable.ClientOptions{BestOnly: true}
	}
	return routingtable.ClientOptions{MaxPaths: uint(s.AddPathN)}
}

// Fixed address plan of the rig (documentation ranges).
const (
	dxLocalASN  = 64500
	dxLocalIP   = 0xc0000201 // 192.0.2.1
	dxRouterID  = 0xc0000201
	dxClusterID = 0x0a0a0a0a
)

// dxPeer is a neighbour routes can be learned from.
type dxPeer struct {
	IP   uint32
	ASN  uint32
	EBGP bool
}

// dxPeers: two iBGP and three eBGP neighbours. A session under test is built
// towards one of them, so that paths learned from that very peer exist.
var dxPeers = []dxPeer{
	{IP: 0xc0000211, ASN: dxLocalASN, EBGP: false},
	{IP: 0xc0000212, ASN: dxLocalASN, EBGP: false},
	{IP: 0xc6336401, ASN: 64601, EBGP: true},
	{IP: 0xc6336402, ASN: 64602, EBGP: true},
	{IP: 0xcb007103, ASN: 64603, EBGP: true},
}

var dxRolePairs = [][2]uint8{ // (local, remote) pairs RFC 9234 table 2 allows
	{packet.PeerRoleRoleProvider, packet.PeerRoleRoleCustomer},
	{packet.PeerRoleRoleCustomer, packet.PeerRoleRoleProvider},
	{packet.PeerRoleRoleRS, packet.PeerRoleRoleRSClient},
	{packet.PeerRoleRoleRSClient, packet.PeerRoleRoleRS},
	{packet.PeerRoleRolePeer, packet.PeerRoleRolePeer},
}

// dxGenSession draws a session. withUnnegotiated additionally allows "role
// configured but capability not received" (only C09 uses it, with the OTC
// clauses silent).
func dxGenSession(t *rapid.T, label string, withUnnegotiated bool) dxSession {
	s := dxSession{LocalASN: dxLocalASN, LocalIP: dxLocalIP, RouterID: dxRouterID, Cluster: dxClusterID}
	s.Kind = rapid.IntRange(0, 3).Draw(t, label+"_kind")
	var cand []dxPeer
	for _, p := range dxPeers {
		if p.EBGP != s.ibgp() {
			cand = append(cand, p)
		}
	}
	peer := cand[rapid.IntRange(0, len(cand)-1).Draw(t, label+"_peer")]
	s.PeerIP, s.PeerASN = peer.IP, peer.ASN
	if rapid.Bool().Draw(t, label+"_addpath") {
		s.AddPathN = rapid.SampledFrom([]int{1, 2, 2, 3, 3}).Draw(t, label+"_n")
	}
	if !s.ibgp() && rapid.IntRange(0, 2).Draw(t, label+"_role") > 0 {
		rp := dxRolePairs[rapid.IntRange(0, len(dxRolePairs)-1).Draw(t, label+"_rolepair")]
		s.RoleOn, s.RoleAdv, s.RoleLocal, s.RoleRemote = true, true, rp[0], rp[1]
		if withUnnegotiated && rapid.IntRange(0, 5).Draw(t, label+"_unneg") == 0 {
			s.RoleAdv = false
			s.RoleRemote = 0
		}
	}
	return s
}

// ---------------------------------------------------------------------------
// export policy

const (
	dxActAccept = iota
	dxActReject
	dxActSetMED
	dxActSetLP
	dxActPrepend
	dxActSetNH
)

type dxAct struct {
	Kind int
	V    uint32
	N    uint16
}

func (a dxAct) String() string {
	switch a.Kind {
	case dxActAccept:
		return "accept"
	case dxActReject:
		return "reject"
	case dxActSetMED:
		return fmt.Sprintf("med=%d", a.V)
	case dxActSetLP:
		return fmt.Sprintf("lp=%d", a.V)
	case dxActPrepend:
		return fmt.Sprintf("prepend(%d x%d)", a.V, a.N)
	default:
		return "nh=" + dxIP(a.V)
	}
}

// dxTerm: when Match is empty the term applies to every prefix, otherwise to
// the universe prefixes listed (exact match).
type dxTerm struct {
	Match []int
	Acts  []dxAct
}

// dxPolicy is a chain of filters, each a list of terms.
type dxPolicy [][]dxTerm

func (p dxPolicy) String() string {
	if len(p) == 0 {
		return "accept-all"
	}
	return fmt.Sprintf("%v", [][]dxTerm(p))
}

// apply is the reference interpreter: terms in order; a term applies when it
// has no condition or one of its prefixes matches; its actions run in order;
// accept/reject end the evaluation of the whole chain; falling off the end
// accepts.
func (p dxPolicy) apply(pfx int, a dxAttrs) (dxAttrs, bool) {
	a = a.clone()
	for _, f := range p {
		for _, tm := range f {
			hit := len(tm.Match) == 0
			for _, m := range tm.Match {
				if m == pfx {
					hit = true
				}
			}
			if !hit {
				continue
			}
			for _, ac := range tm.Acts {
				switch ac.Kind {
				case dxActAccept:
					return a, false
				case dxActReject:
					return a, true
				case dxActSetMED:
					a.MED = ac.V
				case dxActSetLP:
					a.LP = ac.V
				case dxActSetNH:
					a.NH = ac.V
				case dxActPrepend:
					for i := 0; i < int(ac.N); i++ {
						a = dxPrepend(a, ac.V)
					}
				}
			}
		}
	}
	return a, false
}

// modifies reports whether the policy can change attributes of prefix pfx.
func (p dxPolicy) trivial() bool { return len(p) == 0 }

// chain builds the real filter chain through exported constructors only.
func (p dxPolicy) chain(universe []*bnet.Prefix) filter.Chain {
	if len(p) == 0 {
		return filter.NewAcceptAllFilterChain()
	}
	var c filter.Chain
	for fi, f := range p {
		var terms []*filter.Term
		for ti, tm := range f {
			var from []*filter.TermCondition
			if len(tm.Match) > 0 {
				var rfs []*filter.RouteFilter
				for _, m := range tm.Match {
					rfs = append(rfs, filter.NewRouteFilter(universe[m], filter.NewExactMatcher()))
				}
				from = append(from, filter.NewTermConditionWithRouteFilters(rfs...))
			}
			var then []actions.Action
			for _, ac := range tm.Acts {
				switch ac.Kind {
				case dxActAccept:
					then = append(then, actions.NewAcceptAction())
				case dxActReject:
					then = append(then, actions.NewRejectAction())
				case dxActSetMED:
					then = append(then, actions.NewSetMEDAction(ac.V))
				case dxActSetLP:
					then = append(then, actions.NewSetLocalPrefAction(ac.V))
				case dxActPrepend:
					then = append(then, actions.NewASPathPrependAction(ac.V, ac.N))
				case dxActSetNH:
					then = append(then, actions.NewSetNextHopAction(bnet.IPv4(ac.V).Ptr()))
				}
			}
			terms = append(terms, filter.NewTerm(fmt.Sprintf("t%d", ti), from, then))
		}
		c = append(c, filter.NewFilter(fmt.Sprintf("f%d", fi), terms))
	}
	return c
}

// dxGenPolicy draws an export policy over a universe of n prefixes. Prepend
// actions use the local ASN (what an export policy prepends) and set-next-hop
// is only drawn for sessions that do not rewrite the next hop themselves, so
// that the result does not depend on whether the policy runs before or after
// the session's own rewrites (the statement does not fix that order).
func dxGenPolicy(t *rapid.T, label string, n int, s dxSession) dxPolicy {
	if rapid.IntRange(0, 3).Draw(t, label+"_none") == 0 {
		return nil
	}
	var p dxPolicy
	nf := rapid.IntRange(1, 2).Draw(t, label+"_filters")
	for f := 0; f < nf; f++ {
		var terms []dxTerm
		nt := rapid.IntRange(1, 3).Draw(t, label+"_terms")
		for i := 0; i < nt; i++ {
			var tm dxTerm
			if rapid.IntRange(0, 3).Draw(t, label+"_cond") > 0 {
				k := rapid.IntRange(1, 3).Draw(t, label+"_nmatch")
				for j := 0; j < k; j++ {
					tm.Match = append(tm.Match, rapid.IntRange(0, n-1).Draw(t, label+"_m"))
				}
			}
			na := rapid.IntRange(0, 2).Draw(t, label+"_nacts")
			for j := 0; j < na; j++ {
				maxKind := dxActSetNH
				if s.Kind == dxEBGP {
					maxKind = dxActPrepend
				}
				k := rapid.IntRange(dxActSetMED, maxKind).Draw(t, label+"_act")
				ac := dxAct{Kind: k}
				switch k {
				case dxActSetMED, dxActSetLP:
					ac.V = rapid.SampledFrom([]uint32{0, 1, 50, 100, 200}).Draw(t, label+"_v")
				case dxActPrepend:
					ac.V = s.LocalASN
					ac.N = uint16(rapid.IntRange(1, 2).Draw(t, label+"_times"))
				case dxActSetNH:
					ac.V = 0xc0000263 + uint32(rapid.IntRange(0, 1).Draw(t, label+"_nh"))
				}
				tm.Acts = append(tm.Acts, ac)
			}
			switch rapid.IntRange(0, 3).Draw(t, label+"_final") {
			case 0:
				tm.Acts = append(tm.Acts, dxAct{Kind: dxActAccept})
			case 1:
				// an unconditional reject as the only term is dull; keep it conditional mostly
				tm.Acts = append(tm.Acts, dxAct{Kind: dxActReject})
			}
			terms = append(terms, tm)
		}
		p = append(p, terms)
	}
	return p
}

// ---------------------------------------------------------------------------
// the reference export function

// dxPrepend prepends one ASN: to the leading AS_SEQUENCE, or as a new leading
// AS_SEQUENCE when the path is empty or starts with an AS_SET (RFC 4271
// §5.1.2 b), or as a new leading segment when the leading AS_SEQUENCE is full (255 ASNs).
func dxPrepend(a dxAttrs, asn uint32) dxAttrs {
	a = a.clone()
	if len(a.ASPath) == 0 || a.ASPath[0].Set {
		a.ASPath = append([]dxSeg{{ASNs: []uint32{asn}}}, a.ASPath...)
		return a
	}
	if len(a.ASPath[0].ASNs) >= 255 {
		// RFC 4271 §5.1.2 a) 1): a full leading AS_SEQUENCE gets a new segment in front
		a.ASPath = append([]dxSeg{{ASNs: []uint32{asn}}}, a.ASPath...)
		return a
	}
	a.ASPath[0].ASNs = append([]uint32{asn}, a.ASPath[0].ASNs...)
	return a
}

const (
	dxCommNoExport    = 0xFFFFFF01
	dxCommNoAdvertise = 0xFFFFFF02
)

func dxRoleIn(r uint8, set ...uint8) bool {
	for _, x := range set {
		if r == x {
			return true
		}
	}
	return false
}

// dxExport says whether session s advertises Loc-RIB path a (before the export
// policy) and with which attributes. It is written from the statement of
// C08/C09 and the RFC sentences they cite — not from adj_rib_out.go:
//
//	eligibility  RFC 1997 NO_ADVERTISE / NO_EXPORT; never back to the peer the
//	             path was learned from; RFC 4456 §6: a route learned from an
//	             iBGP peer goes only to route-reflector clients; RFC 9234 §5
//	             egress rule 2 (OTC present → not to provider/peer/RS)
//	rewrites     eBGP and not a route-server client: local AS prepended, next
//	             hop = local address (RFC 4271 §5.1.2/§5.1.3); RR client and the
//	             route was learned via iBGP: ORIGINATOR_ID present (created if
//	             absent), local CLUSTER_ID prepended to CLUSTER_LIST (RFC 4456
//	             §8); RFC 9234 §5 egress rule 1 (OTC := local AS towards
//	             customer/peer/RS-client when absent)
//	redistributed static route: a fresh BGP path whose next hop is the static
//	             next hop (every other attribute at its zero value), then the
//	             same rules.
//
// Attributes the statement does not mention pass through unchanged.
func dxExport(a dxAttrs, s dxSession) (out dxAttrs, ok bool, m dxMask) {
	learnedIBGP := !a.Static && !a.EBGP
	if a.Static {
		out = dxAttrs{NH: a.NH}
	} else {
		out = a.clone()
		out.RxPathID = 0
		if a.Src == s.PeerIP {
			return dxAttrs{}, false, m
		}
		if a.hasComm(dxCommNoAdvertise) {
			return dxAttrs{}, false, m
		}
		if a.hasComm(dxCommNoExport) && !s.ibgp() {
			return dxAttrs{}, false, m
		}
	}
	if s.ibgp() {
		if learnedIBGP && !s.rrClient() {
			return dxAttrs{}, false, m
		}
		if s.rrClient() && !a.Static {
			if learnedIBGP {
				if out.OrigID == 0 {
					out.OrigID = 1 // some value; only presence is judged
					m.OrigValue = true
				}
				out.Cluster = append([]uint32{s.Cluster}, out.Cluster...)
			} else {
				// learned via eBGP: not a reflected route, RFC 4456 does not say
				// whether the RR attributes are attached.
				m.RRAttrs = true
			}
		}
		return out, true, m
	}
	// eBGP
	if s.roleKnown() {
		if out.OTC != 0 && dxRoleIn(s.RoleRemote, packet.PeerRoleRoleProvider, packet.PeerRoleRolePeer, packet.PeerRoleRoleRS) {
			return dxAttrs{}, false, m
		}
		if out.OTC == 0 && dxRoleIn(s.RoleRemote, packet.PeerRoleRoleCustomer, packet.PeerRoleRolePeer, packet.PeerRoleRoleRSClient) {
			out.OTC = s.LocalASN
		}
	}
	if !s.rsClient() {
		out = dxPrepend(out, s.LocalASN)
		out.NH = s.LocalIP
	}
	return out, true, m
}

// dxExportPolicy = dxExport followed by the export policy.
func dxExportPolicy(a dxAttrs, s dxSession, pol dxPolicy, pfx int) (dxAttrs, bool, dxMask) {
	out, ok, m := dxExport(a, s)
	if !ok {
		return out, false, m
	}
	out, reject := pol.apply(pfx, out)
	if reject {
		return dxAttrs{}, false, m
	}
	return out, true, m
}

// ---------------------------------------------------------------------------
// real paths

// dxReal builds the path object a real caller hands to the Loc-RIB: for BGP as
// fsmAddressFamily.newRoutePath/processAttributes do (Source/NextHop non-nil,
// ASPathLen = ASPath.Length(), attribute pointers nil when the attribute was
// absent), for static routes as the static configuration does.
func dxReal(a dxAttrs) *route.Path {
	if a.Static {
		return &route.Path{Type: route.StaticPathType, StaticPath: &route.StaticPath{NextHop: bnet.IPv4(a.NH).Dedup()}}
	}
	asp := make(types.ASPath, 0, len(a.ASPath))
	for _, s := range a.ASPath {
		seg := types.ASPathSegment{Type: types.ASSequence, ASNs: append([]uint32{}, s.ASNs...)}
		if s.Set {
			seg.Type = types.ASSet
		}
		asp = append(asp, seg)
	}
	p := &route.Path{
		Type: route.BGPPathType,
		BGPPath: &route.BGPPath{
			BGPPathA: &route.BGPPathA{
				NextHop:         bnet.IPv4(a.NH).Dedup(),
				Source:          bnet.IPv4(a.Src).Dedup(),
				EBGP:            a.EBGP,
				LocalPref:       a.LP,
				MED:             a.MED,
				BGPIdentifier:   a.BGPID,
				OriginatorID:    a.OrigID,
				Origin:          a.Origin,
				OnlyToCustomer:  a.OTC,
				AtomicAggregate: a.Atomic,
			},
			ASPath:         &asp,
			ASPathLen:      asp.Length(),
			PathIdentifier: a.RxPathID,
		},
	}
	if a.HasAggr {
		p.BGPPath.BGPPathA.Aggregator = &types.Aggregator{ASN: a.AggrASN, Address: a.AggrAddr}
	}
	if len(a.Cluster) > 0 || a.EmptyCluster {
		cl := types.ClusterList(append([]uint32{}, a.Cluster...))
		p.BGPPath.ClusterList = &cl
	}
	if len(a.Comms) > 0 || a.EmptyComms {
		c := types.Communities(append([]uint32{}, a.Comms...))
		p.BGPPath.Communities = &c
	}
	if len(a.LComms) > 0 {
		lc := make(types.LargeCommunities, 0, len(a.LComms))
		for _, x := range a.LComms {
			lc = append(lc, types.LargeCommunity{GlobalAdministrator: x[0], DataPart1: x[1], DataPart2: x[2]})
		}
		p.BGPPath.LargeCommunities = &lc
	}
	for _, u := range a.Unknown {
		p.BGPPath.UnknownAttributes = append(p.BGPPath.UnknownAttributes, types.UnknownPathAttribute{
			Optional: u.Optional, Transitive: true, Partial: u.Partial, TypeCode: u.Type, Value: append([]byte{}, u.Value...),
		})
	}
	return p
}

// dxFromReal reads the value of a path (nil pointer == absent == empty).
func dxFromReal(p *route.Path) dxAttrs {
	var a dxAttrs
	if p == nil {
		return a
	}
	if p.Type == route.StaticPathType {
		a.Static = true
		if p.StaticPath != nil && p.StaticPath.NextHop != nil {
			a.NH = p.StaticPath.NextHop.ToUint32()
		}
		return a
	}
	b := p.BGPPath
	if b == nil {
		return a
	}
	a.RxPathID = b.PathIdentifier
	if ba := b.BGPPathA; ba != nil {
		if ba.NextHop != nil {
			a.NH = ba.NextHop.ToUint32()
		}
		if ba.Source != nil {
			a.Src = ba.Source.ToUint32()
		}
		a.EBGP, a.LP, a.MED, a.BGPID, a.OrigID, a.Origin = ba.EBGP, ba.LocalPref, ba.MED, ba.BGPIdentifier, ba.OriginatorID, ba.Origin
		a.OTC, a.Atomic = ba.OnlyToCustomer, ba.AtomicAggregate
		if ba.Aggregator != nil {
			a.HasAggr, a.AggrASN, a.AggrAddr = true, ba.Aggregator.ASN, ba.Aggregator.Address
		}
	}
	if b.ASPath != nil {
		for _, s := range *b.ASPath {
			a.ASPath = append(a.ASPath, dxSeg{Set: s.Type == types.ASSet, ASNs: append([]uint32{}, s.ASNs...)})
		}
	}
	if b.ClusterList != nil {
		a.Cluster = append([]uint32(nil), (*b.ClusterList)...)
	}
	if b.Communities != nil {
		a.Comms = append([]uint32(nil), (*b.Communities)...)
	}
	if b.LargeCommunities != nil {
		for _, x := range *b.LargeCommunities {
			a.LComms = append(a.LComms, [3]uint32{x.GlobalAdministrator, x.DataPart1, x.DataPart2})
		}
	}
	for _, u := range b.UnknownAttributes {
		a.Unknown = append(a.Unknown, dxUnk{Optional: u.Optional, Partial: u.Partial, Type: u.TypeCode, Value: append([]byte{}, u.Value...)})
	}
	return a
}

// dxDeep is the deep canonical snapshot of one stored path used by C13: every
// attribute value, the path identifier, the cached AS path length and the
// bookkeeping fields of route.Path.
func dxDeep(p *route.Path) string {
	if p == nil {
		return "<nil>"
	}
	a := dxFromReal(p)
	s := fmt.Sprintf("type=%d redist=%d hidden=%d ltime=%d %s", p.Type, p.RedistributedFrom, p.HiddenReason, p.LTime, a.canon(dxMask{}))
	if p.BGPPath != nil {
		s += fmt.Sprintf(" pathid=%d aslen=%d bmp=%v", p.BGPPath.PathIdentifier, p.BGPPath.ASPathLen, p.BGPPath.BMPPostPolicy)
	}
	if p.Type == route.BGPPathType && p.StaticPath != nil {
		s += " +static nh=" + p.StaticPath.NextHop.String()
	}
	return s
}

// dxDeepTable snapshots a table dump: prefix → paths in stored order.
func dxDeepTable(rs []*route.Route) []string {
	out := make([]string, 0, len(rs))
	for _, r := range rs {
		for i, p := range r.Paths() {
			out = append(out, fmt.Sprintf("%s #%d %s", r.Prefix().String(), i, dxDeep(p)))
		}
	}
	sort.Strings(out)
	return out
}

func dxDiff(a, b []string) string {
	in := func(x string, l []string) bool {
		for _, y := range l {
			if x == y {
				return true
			}
		}
		return false
	}
	var sb strings.Builder
	for _, x := range a {
		if !in(x, b) {
			sb.WriteString("\n  - " + x)
		}
	}
	for _, x := range b {
		if !in(x, a) {
			sb.WriteString("\n  + " + x)
		}
	}
	return sb.String()
}

// ---------------------------------------------------------------------------
// generators for paths

type dxGenOpts struct {
	LocalASN uint32
	RouterID uint32
	Cluster  uint32
	Extras   bool // unknown attributes, aggregator, atomic aggregate, large communities
	BigASNs  bool // ASNs above 65535 in the pool (only where the check is not about 2-octet sessions' wire form, see C17 finding asn4-truncated)
}

// dxGenBGP draws a BGP path as it can sit in a Loc-RIB: learned from one of
// dxPeers, passed import validation (eBGP: AS path not empty and starting with
// the peer's AS; local AS not in the path; ORIGINATOR_ID ≠ router id; local
// cluster id not in the CLUSTER_LIST; ORIGINATOR_ID / CLUSTER_LIST only on
// paths learned via iBGP).
func dxGenBGP(t *rapid.T, label string, o dxGenOpts) dxAttrs {
	peer := dxPeers[rapid.IntRange(0, len(dxPeers)-1).Draw(t, label+"_src")]
	a := dxAttrs{Src: peer.IP, EBGP: peer.EBGP}
	a.NH = rapid.SampledFrom([]uint32{peer.IP, 0xc0000263, 0xc0000264, 0x0a000001}).Draw(t, label+"_nh")
	a.LP = rapid.SampledFrom([]uint32{100, 100, 100, 50, 200, 0}).Draw(t, label+"_lp")
	a.MED = rapid.SampledFrom([]uint32{0, 0, 0, 1, 10}).Draw(t, label+"_med")
	a.Origin = uint8(rapid.SampledFrom([]int{0, 0, 0, 1, 2}).Draw(t, label+"_origin"))
	if rapid.IntRange(0, 5).Draw(t, label+"_hasid") == 0 {
		a.BGPID = uint32(rapid.IntRange(1, 3).Draw(t, label+"_id"))
	}
	// AS path
	asnPool := []uint32{64601, 64602, 64603, 64700, 64701, 65000}
	if o.BigASNs {
		asnPool = append(asnPool, 70000, 4200000001)
	}
	nseg := rapid.IntRange(0, 2).Draw(t, label+"_nseg")
	for i := 0; i < nseg; i++ {
		s := dxSeg{Set: i > 0 && rapid.IntRange(0, 3).Draw(t, label+"_set") == 0}
		n := rapid.IntRange(1, 3).Draw(t, label+"_nasn")
		for j := 0; j < n; j++ {
			s.ASNs = append(s.ASNs, rapid.SampledFrom(asnPool).Draw(t, label+"_asn"))
		}
		a.ASPath = append(a.ASPath, s)
	}
	if peer.EBGP {
		// an eBGP speaker prepends its AS (RFC 4271 §5.1.2); an AS_SET first is
		// possible but then still not empty.
		if len(a.ASPath) == 0 || a.ASPath[0].Set {
			a.ASPath = append([]dxSeg{{ASNs: []uint32{peer.ASN}}}, a.ASPath...)
		} else {
			a.ASPath[0].ASNs[0] = peer.ASN
		}
	} else if rapid.IntRange(0, 4).Draw(t, label+"_firstset") == 0 && len(a.ASPath) > 0 {
		a.ASPath[0].Set = true // iBGP-learned path starting with an AS_SET (aggregate)
	}
	if !peer.EBGP {
		if rapid.IntRange(0, 2).Draw(t, label+"_hasorig") == 0 {
			a.OrigID = rapid.SampledFrom([]uint32{0xc0000211, 0xc0000212, 0x01010101}).Draw(t, label+"_orig")
			n := rapid.IntRange(0, 2).Draw(t, label+"_ncl")
			for i := 0; i < n; i++ {
				a.Cluster = append(a.Cluster, rapid.SampledFrom([]uint32{0x0b0b0b0b, 0x0c0c0c0c}).Draw(t, label+"_cl"))
			}
			if n == 0 && rapid.Bool().Draw(t, label+"_emptycl") {
				a.EmptyCluster = true // CLUSTER_LIST attribute present with zero length
			}
		}
	}
	// communities incl. the well-known ones
	switch rapid.IntRange(0, 7).Draw(t, label+"_comm") {
	case 0:
		a.Comms = []uint32{dxCommNoExport}
	case 1:
		a.Comms = []uint32{dxCommNoAdvertise}
	case 2:
		a.Comms = []uint32{0xfde80001, dxCommNoExport}
	case 3:
		a.Comms = []uint32{0xfde80001}
	case 4:
		a.Comms = []uint32{0xfde80001, 0xfde80002}
	}
	if len(a.Comms) == 0 && rapid.IntRange(0, 5).Draw(t, label+"_emptycomm") == 0 {
		a.EmptyComms = true // COMMUNITIES attribute present with zero length
	}
	if rapid.IntRange(0, 3).Draw(t, label+"_otc") == 0 {
		// OTC carries the AS that set it at an AS boundary: a neighbour AS, never the
		// local AS (such a route has left and re-entered the local AS: AS loop, hidden on import)
		otcs := []uint32{64601, 64700}
		if peer.EBGP {
			otcs[0] = peer.ASN
		}
		a.OTC = rapid.SampledFrom(otcs).Draw(t, label+"_otcv")
	}
	if o.Extras {
		dxGenExtras(t, label, &a)
	}
	return a
}

// dxGenExtras adds attributes that ride along unchanged.
func dxGenExtras(t *rapid.T, label string, a *dxAttrs) {
	if rapid.IntRange(0, 3).Draw(t, label+"_lc") == 0 {
		a.LComms = [][3]uint32{{64601, 1, uint32(rapid.IntRange(1, 2).Draw(t, label+"_lcv"))}}
	}
	if rapid.IntRange(0, 3).Draw(t, label+"_unk") == 0 {
		a.Unknown = dxGenUnknown(t, label)
	}
	if rapid.IntRange(0, 5).Draw(t, label+"_aggr") == 0 {
		a.HasAggr, a.AggrASN, a.AggrAddr = true, uint16(64700+rapid.IntRange(0, 1).Draw(t, label+"_aggrasn")), 0x0a000001
		a.Atomic = rapid.Bool().Draw(t, label+"_atomic")
	}
}

// dxGenUnknown draws 1–2 unknown transitive attributes the way the decoder
// stores them. Type 35 (OTC) is never drawn: see finding C09/otc-not-on-wire.
func dxGenUnknown(t *rapid.T, label string) []dxUnk {
	var out []dxUnk
	n := rapid.IntRange(1, 2).Draw(t, label+"_nunk")
	for i := 0; i < n; i++ {
		u := dxUnk{Optional: true, Partial: rapid.Bool().Draw(t, label+"_partial"), Type: uint8(200 + i)}
		u.Value = []byte{byte(rapid.IntRange(0, 2).Draw(t, label+"_unkv"))}
		out = append(out, u)
	}
	return out
}

func dxGenStatic(t *rapid.T, label string) dxAttrs {
	return dxAttrs{Static: true, NH: 0xc0000280 + uint32(rapid.IntRange(0, 3).Draw(t, label+"_snh"))}
}

// dxCompareKey is equal for two paths exactly when route.Path.Compare would
// call them the same path (all attributes and the received path identifier):
// the Loc-RIB never holds two such paths for one prefix.
func dxCompareKey(a dxAttrs) string {
	return fmt.Sprintf("%s rx=%d", a.canon(dxMask{}), a.RxPathID)
}

// dxPfx converts a kit prefix (IPv4).
func dxPfx(b kit.Bits) *bnet.Prefix {
	return bnet.NewPfx(bnet.IPv4(b.U32()), uint8(b.L)).Ptr()
}

// dxGenUniverse draws n distinct related IPv4 prefixes.
func dxGenUniverse(t *rapid.T, n int) ([]kit.Bits, []*bnet.Prefix) {
	raw := kit.GenUniverse(t, 32, n+3, "u")
	seen := map[string]bool{}
	var bits []kit.Bits
	var out []*bnet.Prefix
	for _, b := range raw {
		if seen[b.Key()] || len(bits) == n {
			continue
		}
		seen[b.Key()] = true
		bits = append(bits, b)
		out = append(out, dxPfx(b))
	}
	return bits, out
}

// ---------------------------------------------------------------------------
// recording client of an Adj-RIB-Out (stands where the update sender stands)

type dxEvent struct {
	Add    bool
	Pfx    string
	PathID uint32
	Attrs  dxAttrs
	Obj    *route.Path
}

func (e dxEvent) String() string {
	k := "withdraw"
	if e.Add {
		k = "announce"
	}
	return fmt.Sprintf("%s %s id=%d %s", k, e.Pfx, e.PathID, e.Attrs.canon(dxMask{}))
}

// dxRecorder keeps the event list and the accumulated peer view. With
// add-path the view is keyed by (prefix, path id) (RFC 7911 §3); without, an
// announcement replaces whatever the prefix had and a withdrawal removes the
// prefix (RFC 4271 §3.1/§4.3).
type dxRecorder struct {
	mu      sync.Mutex // two goroutines may report to the recorder in the registration machine (C08)
	addPath bool
	events  []dxEvent
	view    map[string]map[uint32]dxAttrs
	// violations of the add-path id discipline seen while recording
	idErrors []string
	// hook, when set, is called on every announcement/withdrawal with the path
	// object the Adj-RIB-Out handed over (on announcements: the stored object).
	// It runs with the Adj-RIB-Out's (and often the Loc-RIB's) lock held: no Dump in there.
	hook func(add bool, pfx *bnet.Prefix, p *route.Path)
}

func newDxRecorder(addPath bool) *dxRecorder {
	return &dxRecorder{addPath: addPath, view: map[string]map[uint32]dxAttrs{}}
}

func (r *dxRecorder) AddPath(pfx *bnet.Prefix, p *route.Path) error {
	if r.hook != nil {
		r.hook(true, pfx, p)
	}
	r.mu.Lock()
	defer r.mu.Unlock()
	a := dxFromReal(p)
	id := uint32(0)
	if p.BGPPath != nil {
		id = p.BGPPath.PathIdentifier
	}
	k := pfx.String()
	r.events = append(r.events, dxEvent{Add: true, Pfx: k, PathID: id, Attrs: a, Obj: p})
	if r.view[k] == nil {
		r.view[k] = map[uint32]dxAttrs{}
	}
	if !r.addPath {
		r.view[k] = map[uint32]dxAttrs{0: a}
		return nil
	}
	if old, ok := r.view[k][id]; ok && old.canon(dxMask{}) != a.canon(dxMask{}) {
		r.idErrors = append(r.idErrors, fmt.Sprintf("%s: path id %d announced for %q while it is still in use for the different path %q", k, id, a.canon(dxMask{}), old.canon(dxMask{})))
	}
	r.view[k][id] = a
	return nil
}

func (r *dxRecorder) RemovePath(pfx *bnet.Prefix, p *route.Path) bool {
	if r.hook != nil {
		r.hook(false, pfx, p)
	}
	r.mu.Lock()
	defer r.mu.Unlock()
	a := dxFromReal(p)
	id := uint32(0)
	if p.BGPPath != nil {
		id = p.BGPPath.PathIdentifier
	}
	k := pfx.String()
	r.events = append(r.events, dxEvent{Pfx: k, PathID: id, Attrs: a, Obj: p})
	if !r.addPath {
		delete(r.view, k)
		return true
	}
	if old, ok := r.view[k][id]; !ok {
		r.idErrors = append(r.idErrors, fmt.Sprintf("%s: withdrawal with path id %d, but no path with that id is announced (withdrawn path: %q)", k, id, a.canon(dxMask{})))
	} else if old.canon(dxMask{}) != a.canon(dxMask{}) {
		r.idErrors = append(r.idErrors, fmt.Sprintf("%s: withdrawal of %q carries path id %d, which was announced for %q", k, a.canon(dxMask{}), id, old.canon(dxMask{})))
	}
	delete(r.view[k], id)
	if len(r.view[k]) == 0 {
		delete(r.view, k)
	}
	return true
}

func (r *dxRecorder) AddPathInitialDump(pfx *bnet.Prefix, p *route.Path) error {
	return r.AddPath(pfx, p)
}
func (r *dxRecorder) EndOfRIB()                                          {}
func (r *dxRecorder) ReplacePath(*bnet.Prefix, *route.Path, *route.Path) {}
func (r *dxRecorder) RefreshRoute(*bnet.Prefix, []*route.Path)           {}
func (r *dxRecorder) Dispose()                                           {}

// viewSet returns the canonical attribute strings the peer holds for a prefix.
func (r *dxRecorder) viewSet(pfx string, mask func(dxAttrs) dxMask) []string {
	var out []string
	for _, a := range r.view[pfx] {
		out = append(out, a.canon(mask(a)))
	}
	sort.Strings(out)
	return out
}

func dxUniq(in []string) []string {
	sort.Strings(in)
	var out []string
	for i, s := range in {
		if i == 0 || s != in[i-1] {
			out = append(out, s)
		}
	}
	return out
}

func dxEqStrings(a, b []string) bool {
	if len(a) != len(b) {
		return false
	}
	for i := range a {
		if a[i] != b[i] {
			return false
		}
	}
	return true
}

// dxGuard runs f and converts a panic into an error text (a panic inside the
// code under test is a violation to report, with the case still shrinkable).
func dxGuard(f func()) (msg string) {
	defer func() {
		if r := recover(); r != nil {
			msg = fmt.Sprintf("panic: %v", r)
		}
	}()
	f()
	return ""
}

// dxMutate changes one attribute of a so that preference or ECMP membership
// or just the identity of the path changes.
func dxMutate(t *rapid.T, a dxAttrs) (dxAttrs, string) {
	b := a.clone()
	if a.Static {
		b.NH = 0xc0000280 + (a.NH+1)%4
		return b, "static-nh"
	}
	switch rapid.IntRange(0, 6).Draw(t, "mut") {
	case 0:
		b.LP = a.LP + 10
		return b, "lp+"
	case 1:
		if a.LP >= 10 {
			b.LP = a.LP - 10
		} else {
			b.LP = a.LP + 1
		}
		return b, "lp-"
	case 2:
		b.MED = a.MED + 1
		return b, "med+"
	case 3:
		b.NH = a.NH ^ 1
		return b, "nh"
	case 4:
		if len(a.Comms) > 0 {
			b.Comms = nil
		} else {
			b.Comms = []uint32{rapid.SampledFrom([]uint32{0xfde80009, dxCommNoExport, dxCommNoAdvertise}).Draw(t, "mutcomm")}
		}
		return b, "comm"
	case 5:
		if a.OTC != 0 {
			b.OTC = 0
		} else {
			b.OTC = 64700
		}
		return b, "otc"
	default:
		b.Origin = (a.Origin + 1) % 3
		return b, "origin"
	}
}

// ---------------------------------------------------------------------------
// history driver: generates Loc-RIB operations the way Adj-RIB-Ins and the
// static configuration produce them

// dxOp is one Loc-RIB call.
type dxOp struct {
	Add     bool
	Pfx     int
	Attrs   dxAttrs
	SameObj bool // RemovePath is called with the very object that was added (else an equal copy)
	Why     string
}

func (o dxOp) String(bits []kit.Bits) string {
	k := "remove"
	if o.Add {
		k = "add"
	}
	return fmt.Sprintf("%s(%s) %v %v rx=%d", k, o.Why, bits[o.Pfx], o.Attrs, o.Attrs.RxPathID)
}

// dxHist keeps the Loc-RIB content by value and draws the next step. It keeps
// the invariants every real Loc-RIB keeps: per prefix at most one path per
// neighbour unless that neighbour's session has add-path receive, in which
// case its paths differ in the received path identifier (so no two paths of a
// prefix are Compare-equal); an update for an existing (neighbour[, path id])
// arrives as RemovePath(old) + AddPath(new); static and BGP paths are not
// mixed under one prefix (see c08 notes).
type dxHist struct {
	t      *rapid.T
	opts   dxGenOpts
	model  [][]dxAttrs
	rx     map[uint32]bool
	nextRx uint32
	pool   []dxAttrs // when set, BGP paths are drawn from this pool (C11)
	// noStatic: never draw static routes
	noStatic bool
}

func newDxHist(t *rapid.T, npfx int, o dxGenOpts) *dxHist {
	h := &dxHist{t: t, opts: o, model: make([][]dxAttrs, npfx), rx: map[uint32]bool{}, nextRx: 1}
	for i, p := range dxPeers {
		h.rx[p.IP] = rapid.IntRange(0, 2).Draw(t, fmt.Sprintf("rx%d", i)) == 0
	}
	return h
}

func (h *dxHist) rxList() []string {
	var out []string
	for _, p := range dxPeers {
		if h.rx[p.IP] {
			out = append(out, dxIP(p.IP))
		}
	}
	return out
}

func (h *dxHist) has(i int, a dxAttrs) bool {
	for _, e := range h.model[i] {
		if dxCompareKey(e) == dxCompareKey(a) {
			return true
		}
	}
	return false
}

func (h *dxHist) del(i int, a dxAttrs) {
	for j, e := range h.model[i] {
		if dxCompareKey(e) == dxCompareKey(a) {
			h.model[i] = append(append([]dxAttrs{}, h.model[i][:j]...), h.model[i][j+1:]...)
			return
		}
	}
}

// next draws one step: one or two Loc-RIB calls.
func (h *dxHist) next() []dxOp {
	t := h.t
	i := rapid.IntRange(0, len(h.model)-1).Draw(t, "pfx")
	cur := h.model[i]
	hasStatic := len(cur) > 0 && cur[0].Static
	hasBGP := len(cur) > 0 && !cur[0].Static
	op := rapid.IntRange(0, 9).Draw(t, "op")
	if len(cur) == 0 {
		op = 0
	}
	same := rapid.IntRange(0, 3).Draw(t, "sameobj") == 0
	switch {
	case op <= 4: // new path
		if hasStatic || (!hasBGP && !h.noStatic && rapid.IntRange(0, 3).Draw(t, "static") == 0) {
			a := dxGenStatic(t, "st")
			if h.has(i, a) {
				return nil
			}
			h.model[i] = append(h.model[i], a)
			return []dxOp{{Add: true, Pfx: i, Attrs: a, Why: "static"}}
		}
		var a dxAttrs
		why := "new"
		switch {
		case len(h.pool) > 0:
			a = h.pool[rapid.IntRange(0, len(h.pool)-1).Draw(t, "pool")].clone()
			why = "pool"
		case len(cur) > 0 && rapid.Bool().Draw(t, "derive"):
			base := cur[rapid.IntRange(0, len(cur)-1).Draw(t, "base")]
			var how string
			a, how = dxMutate(t, base)
			why = "like+" + how
			if rapid.Bool().Draw(t, "othersrc") {
				peer := dxPeers[rapid.IntRange(0, len(dxPeers)-1).Draw(t, "osrc")]
				if peer.EBGP == a.EBGP {
					a.Src = peer.IP
					if a.EBGP {
						a.ASPath[0].ASNs[0] = peer.ASN
					}
				}
			}
		default:
			a = dxGenBGP(t, "bgp", h.opts)
		}
		a.RxPathID = 0
		var ops []dxOp
		if h.rx[a.Src] {
			a.RxPathID = h.nextRx
			h.nextRx++
		} else {
			for _, e := range cur {
				if e.Src == a.Src {
					if dxCompareKey(e) == dxCompareKey(a) {
						return nil
					}
					// implicit replace of the neighbour's previous path
					h.del(i, e)
					ops = append(ops, dxOp{Pfx: i, Attrs: e, SameObj: same, Why: "implicit"})
				}
			}
		}
		h.model[i] = append(h.model[i], a)
		return append(ops, dxOp{Add: true, Pfx: i, Attrs: a, Why: why})
	case op <= 6: // update of an existing path: one attribute changes
		old := cur[rapid.IntRange(0, len(cur)-1).Draw(t, "victim")]
		nw, how := dxMutate(t, old)
		if h.has(i, nw) {
			return nil
		}
		h.del(i, old)
		h.model[i] = append(h.model[i], nw)
		return []dxOp{{Pfx: i, Attrs: old, SameObj: same, Why: "update"}, {Add: true, Pfx: i, Attrs: nw, Why: "update:" + how}}
	default:
		old := cur[rapid.IntRange(0, len(cur)-1).Draw(t, "victim")]
		h.del(i, old)
		return []dxOp{{Pfx: i, Attrs: old, SameObj: same, Why: "withdraw"}}
	}
}

//go:build verif

package adjRIBOut_test

// C25 — table operations never deadlock (table level).
//
// Rig: 1-2 LocRIBs, each with 1-2 AdjRIBOuts (generated session attributes)
// that have a harness sink client, one AdjRIBIn per feeder goroutine
// registered to the LocRIB, harness clients, and one standalone
// routingtable.ClientManager. Operations are the exported API only.
//
//   (a) TestVerifC25Sequential: rapid-generated sequential histories, every
//       operation runs in its own goroutine under the watchdog.
//   (b) TestVerifC25Concurrent: 2-8 goroutines with generated operation
//       mixes (kit.Seed()), GOMAXPROCS set per run by the driver.
//
// Oracle: every operation returns. When the watchdog expires, two goroutine
// dumps are compared (kit.WaitOps): all unfinished operation goroutines
// parked identically in lock/channel frames, at least one inside bio-rd code
// => deadlock (signature = innermost bio-rd frames). Anything else is
// inconclusive (exit 2).
//
// Caller discipline modelled (what real callers guarantee):
//   * one feeder goroutine per source/AdjRIBIn (a session's updates are
//     serialised by its FSM goroutine); a feeder never announces a second
//     path for a prefix without replacing/withdrawing the first;
//   * ReplaceFilterChain on one Adj-RIB is serialised (peer.fsmsMu);
//   * a table object is registered at most once to its LocRIB at a time;
//   * after LocRIB.Dispose no new route changes / policy changes are issued
//     to that LocRIB (readers, Register and Unregister still are).

import (
	"fmt"
	"os"
	"strings"
	"sync"
	"sync/atomic"
	"testing"
	"time"

	kit "verifkit"

	bnet "github.com/bio-routing/bio-rd/net"
	"github.com/bio-routing/bio-rd/protocols/bgp/types"
	"github.com/bio-routing/bio-rd/route"
	"github.com/bio-routing/bio-rd/routingtable"
	"github.com/bio-routing/bio-rd/routingtable/adjRIBIn"
	"github.com/bio-routing/bio-rd/routingtable/adjRIBOut"
	"github.com/bio-routing/bio-rd/routingtable/filter"
	"github.com/bio-routing/bio-rd/routingtable/filter/actions"
	"github.com/bio-routing/bio-rd/routingtable/locRIB"
	"github.com/bio-routing/bio-rd/routingtable/vrf"
	"pgregory.net/rapid"
)

const c25Rule = "generated table rigs (LocRIB x AdjRIBOut session attrs x AdjRIBIn x ClientManager) and operation histories/mixes; non-trivial = (sequential) history contains a policy replacement, registration change or disposal after routes were installed, (concurrent) >=2 goroutines were observed inside operations on different tables at the same time"

// c25InvSig is the lock-order inversion LocRIB.mu <-> AdjRIBOut.mu. While it is
// listed as a known finding the generator serialises AdjRIBOut.ReplaceFilterChain
// against route changes of the same LocRIB (excluded by construction).
const c25InvSig = "C25/deadlock:routingtable/adjRIBOut.(*AdjRIBOut).AddPath|routingtable/locRIB.(*LocRIB).RefreshClient"

var (
	c25WatchLimit = 10 * time.Second
	c25WatchGap   = 2 * time.Second
)

// ---------------------------------------------------------------------------
// randomness source: rapid draws or a kit.Seed()-seeded generator

type c25Src interface{ Intn(n int) int }

type c25RapidSrc struct{ t *rapid.T }

func (s c25RapidSrc) Intn(n int) int {
	if n <= 1 {
		return 0
	}
	return rapid.IntRange(0, n-1).Draw(s.t, "i")
}

// ---------------------------------------------------------------------------
// harness client (race free: atomics only)

type c25Client struct {
	name                             string
	adds, removes, refreshes, eor, d atomic.Int64
}

func (c *c25Client) AddPath(*bnet.Prefix, *route.Path) error            { c.adds.Add(1); return nil }
func (c *c25Client) AddPathInitialDump(*bnet.Prefix, *route.Path) error { c.adds.Add(1); return nil }
func (c *c25Client) EndOfRIB()                                          { c.eor.Add(1) }
func (c *c25Client) RemovePath(*bnet.Prefix, *route.Path) bool          { c.removes.Add(1); return true }
func (c *c25Client) ReplacePath(*bnet.Prefix, *route.Path, *route.Path) {}
func (c *c25Client) RefreshRoute(*bnet.Prefix, []*route.Path)           { c.refreshes.Add(1) }
func (c *c25Client) Dispose()                                           { c.d.Add(1) }

// c25Master is the master of the standalone ClientManager.
type c25Master struct{ n atomic.Int64 }

func (m *c25Master) UpdateNewClient(c routingtable.RouteTableClient) error {
	m.n.Add(1)
	c.EndOfRIB()
	return nil
}

// ---------------------------------------------------------------------------
// rig

type c25OutCfg struct {
	ibgp, addPath, rr, rs bool
	peerIsFeeder          int // >=0: PeerIP equals the source of that feeder (own-path case)
	chain                 int
}

type c25Cfg struct {
	workers int
	locs    [][]c25OutCfg
}

type c25Out struct {
	a     *adjRIBOut.AdjRIBOut
	sink  *c25Client
	rfcMu sync.Mutex // serialises ReplaceFilterChain (peer.fsmsMu)
	regMu sync.Mutex
	reg   bool // registered to the LocRIB
}

type c25In struct {
	a     *adjRIBIn.AdjRIBIn
	peer  *bnet.IP
	rfcMu sync.Mutex
	reg   bool // owner only
	cur   map[int]*route.Path
}

type c25Loc struct {
	rib      *locRIB.LocRIB
	outs     []*c25Out
	ins      []*c25In // one per worker
	disposed atomic.Bool
	h        sync.RWMutex // only used while c25InvSig is a listed finding
}

type c25Worker struct {
	id      int
	src     *bnet.IP
	direct  []map[int]*route.Path // per loc: prefix -> path announced directly
	clients []*c25Client
	locReg  [][]bool // [client][loc]
	outReg  [][]bool // [client][flat out index]
	cmReg   []bool
}

type c25Rig struct {
	cfg      c25Cfg
	locs     []*c25Loc
	flatOuts []*c25Out
	cm       *routingtable.ClientManager
	master   *c25Master
	workers  []*c25Worker
	v        *vrf.VRF
	guardInv bool
	inflight []atomic.Int32
	overlap  atomic.Bool
}

var c25Pfxs = func() []*bnet.Prefix {
	var out []*bnet.Prefix
	for _, s := range []string{"10.0.0.0/8", "10.1.0.0/16", "10.1.2.0/24", "192.0.2.0/24", "198.51.100.0/25", "0.0.0.0/0"} {
		p, err := bnet.PrefixFromString(s)
		if err != nil {
			panic(err)
		}
		out = append(out, p.Dedup())
	}
	return out
}()

func c25Chain(i int) filter.Chain {
	switch i % 4 {
	case 0:
		return filter.NewAcceptAllFilterChain()
	case 1:
		return filter.NewDrainFilterChain()
	case 2:
		// 10.0.0.0/8 or longer: local-pref 300 + accept; everything else rejected
		return filter.Chain{
			filter.NewFilter("C25A", []*filter.Term{
				filter.NewTerm("ten", []*filter.TermCondition{
					filter.NewTermConditionWithRouteFilters(filter.NewRouteFilter(c25Pfxs[0], filter.NewOrLongerMatcher())),
				}, []actions.Action{actions.NewSetLocalPrefAction(300), actions.NewAcceptAction()}),
				filter.NewTerm("rest", nil, []actions.Action{actions.NewRejectAction()}),
			}),
		}
	default:
		// prepend + MED for everything
		return filter.Chain{
			filter.NewFilter("C25B", []*filter.Term{
				filter.NewTerm("all", nil, []actions.Action{actions.NewASPathPrependAction(64999, 2), actions.NewSetMEDAction(77), actions.NewAcceptAction()}),
			}),
		}
	}
}

func c25WorkerIP(g int) *bnet.IP { return bnet.IPv4FromOctets(172, 16, 0, uint8(10+g)).Dedup() }

func c25GenCfg(s c25Src, workers int) c25Cfg {
	cfg := c25Cfg{workers: workers}
	nLoc := 1 + s.Intn(2)
	for l := 0; l < nLoc; l++ {
		nOut := 1 + s.Intn(2)
		var outs []c25OutCfg
		for o := 0; o < nOut; o++ {
			oc := c25OutCfg{
				ibgp:         s.Intn(2) == 0,
				addPath:      s.Intn(2) == 0,
				rr:           s.Intn(3) == 0,
				rs:           s.Intn(4) == 0,
				peerIsFeeder: -1,
				chain:        s.Intn(4),
			}
			if s.Intn(2) == 0 {
				oc.peerIsFeeder = s.Intn(workers)
			}
			outs = append(outs, oc)
		}
		cfg.locs = append(cfg.locs, outs)
	}
	return cfg
}

func (c c25Cfg) String() string {
	var sb strings.Builder
	fmt.Fprintf(&sb, "workers=%d", c.workers)
	for l, outs := range c.locs {
		fmt.Fprintf(&sb, " loc%d[", l)
		for _, o := range outs {
			fmt.Fprintf(&sb, "{ibgp=%v ap=%v rr=%v rs=%v own=%d ch=%d}", o.ibgp, o.addPath, o.rr, o.rs, o.peerIsFeeder, o.chain)
		}
		sb.WriteString("]")
	}
	return sb.String()
}

func c25NewRig(cfg c25Cfg) *c25Rig {
	r := &c25Rig{cfg: cfg, master: &c25Master{}, guardInv: kit.IsKnown(c25InvSig)}
	r.v = vrf.NewUntrackedVRF("c25", 0)
	r.cm = routingtable.NewClientManager(r.master)
	for l, outs := range cfg.locs {
		loc := &c25Loc{rib: locRIB.New(fmt.Sprintf("c25-%d", l))}
		for o, oc := range outs {
			peer := bnet.IPv4FromOctets(172, 17, uint8(l), uint8(1+o)).Dedup()
			if oc.peerIsFeeder >= 0 {
				peer = c25WorkerIP(oc.peerIsFeeder)
			}
			sa := routingtable.SessionAttrs{
				RouterID:             0x0a000001,
				PeerIP:               peer,
				LocalIP:              bnet.IPv4FromOctets(172, 16, 0, 1).Dedup(),
				Type:                 route.BGPPathType,
				IBGP:                 oc.ibgp,
				LocalASN:             65000,
				PeerASN:              65000,
				RouteServerClient:    oc.rs && !oc.ibgp,
				RouteReflectorClient: oc.rr && oc.ibgp,
				ClusterID:            0x0a000001,
				AddPathTX:            oc.addPath,
			}
			if !oc.ibgp {
				sa.PeerASN = 65010 + uint32(o)
			}
			out := &c25Out{a: adjRIBOut.New(loc.rib, sa, c25Chain(oc.chain)), sink: &c25Client{name: "sink"}}
			out.a.Register(out.sink)
			opts := routingtable.ClientOptions{BestOnly: true}
			if oc.addPath {
				opts = routingtable.ClientOptions{MaxPaths: 4}
			}
			loc.rib.RegisterWithOptions(out.a, opts)
			out.reg = true
			loc.outs = append(loc.outs, out)
			r.flatOuts = append(r.flatOuts, out)
		}
		for g := 0; g < cfg.workers; g++ {
			in := &c25In{peer: c25WorkerIP(g), cur: map[int]*route.Path{}}
			in.a = adjRIBIn.New(filter.NewAcceptAllFilterChain(), r.v, routingtable.SessionAttrs{
				RouterID: 0x0a000001, PeerIP: in.peer, LocalIP: bnet.IPv4FromOctets(172, 16, 0, 1).Dedup(),
				Type: route.BGPPathType, IBGP: g%2 == 0, LocalASN: 65000, PeerASN: 65000 + uint32(g%2)*uint32(20+g),
			})
			in.a.Register(loc.rib)
			in.reg = true
			loc.ins = append(loc.ins, in)
		}
		r.locs = append(r.locs, loc)
	}
	for g := 0; g < cfg.workers; g++ {
		// direct feeds use a source of their own (never equal to the worker's AdjRIBIn peer address)
		w := &c25Worker{id: g, src: bnet.IPv4FromOctets(172, 16, 1, uint8(10+g)).Dedup()}
		for range r.locs {
			w.direct = append(w.direct, map[int]*route.Path{})
		}
		for k := 0; k < 2; k++ {
			w.clients = append(w.clients, &c25Client{name: fmt.Sprintf("w%dc%d", g, k)})
			w.locReg = append(w.locReg, make([]bool, len(r.locs)))
			w.outReg = append(w.outReg, make([]bool, len(r.flatOuts)))
			w.cmReg = append(w.cmReg, false)
		}
		r.workers = append(r.workers, w)
	}
	// object ids for the overlap marker: locs, flat outs, ins (per loc*worker), cm
	r.inflight = make([]atomic.Int32, len(r.locs)+len(r.flatOuts)+len(r.locs)*cfg.workers+1)
	return r
}

// ---------------------------------------------------------------------------
// operations

const (
	c25LFeed = iota
	c25LWithdraw
	c25LRead
	c25LClientReg
	c25LClientUnreg
	c25LRefreshOwn
	c25LOutReg
	c25LOutUnreg
	c25LDispose
	c25OutRFC
	c25OutRead
	c25OutSinkReg
	c25OutSinkUnreg
	c25InFeed
	c25InWithdraw
	c25InFlush
	c25InRegLoc
	c25InUnregLoc
	c25InRFC
	c25InRead
	c25CMReg
	c25CMUnreg
	c25CMRead
	c25CMDispose
	c25NKinds
)

var c25KindName = [...]string{"LFeed", "LWithdraw", "LRead", "LClientReg", "LClientUnreg", "LRefreshOwn", "LOutReg", "LOutUnreg", "LDispose",
	"OutRFC", "OutRead", "OutSinkReg", "OutSinkUnreg", "InFeed", "InWithdraw", "InFlush", "InRegLoc", "InUnregLoc", "InRFC", "InRead",
	"CMReg", "CMUnreg", "CMRead", "CMDispose"}

var c25Weights = [...]int{12, 5, 6, 4, 3, 3, 3, 3, 1,
	10, 4, 2, 2, 12, 5, 1, 2, 2, 4, 3,
	3, 2, 2, 1}

type c25Op struct{ kind, loc, obj, pfx, v int }

func (o c25Op) String() string {
	return fmt.Sprintf("%s(l%d,o%d,p%d,v%d)", c25KindName[o.kind], o.loc, o.obj, o.pfx, o.v)
}

func c25GenOp(s c25Src, cfg c25Cfg) c25Op {
	total := 0
	for _, w := range c25Weights {
		total += w
	}
	x := s.Intn(total)
	k := 0
	for ; k < c25NKinds; k++ {
		if x < c25Weights[k] {
			break
		}
		x -= c25Weights[k]
	}
	op := c25Op{kind: k}
	op.loc = s.Intn(len(cfg.locs))
	op.obj = s.Intn(2)
	op.pfx = s.Intn(len(c25Pfxs))
	op.v = s.Intn(8)
	return op
}

func c25GenOps(s c25Src, cfg c25Cfg, n int) []c25Op {
	ops := make([]c25Op, n)
	for i := range ops {
		ops[i] = c25GenOp(s, cfg)
	}
	return ops
}

func c25OpsString(ops []c25Op) string {
	var sb strings.Builder
	for i, o := range ops {
		if i > 0 {
			sb.WriteByte(' ')
		}
		sb.WriteString(o.String())
	}
	return sb.String()
}

// c25Path builds a path for variant v announced by source src.
func c25Path(src *bnet.IP, v int, ebgp bool) *route.Path {
	// BGP paths only: a static path in a LocRIB makes route.(*Path).ECMP panic when a BGP path shares the
	// prefix, and AdjRIBOut.RefreshRoute panics on it (nil BGPPath) for eBGP sessions — crashes that belong to
	// other properties (C02/C12) and would only hide what C25 is looking for.
	if v >= 7 {
		v = 6
	}
	asp := types.NewASPath([]uint32{65100 + uint32(v), 65200})
	p := &route.Path{
		Type: route.BGPPathType,
		BGPPath: &route.BGPPath{
			BGPPathA: &route.BGPPathA{
				NextHop:   bnet.IPv4FromOctets(172, 18, 0, uint8(1+v)).Dedup(),
				Source:    src,
				LocalPref: uint32(100 + 50*(v%3)),
				MED:       uint32(v),
				EBGP:      ebgp,
			},
			ASPath:    asp,
			ASPathLen: asp.Length(),
		},
	}
	switch v {
	case 3:
		p.BGPPath.Communities = &types.Communities{types.WellKnownCommunityNoExport}
	case 4:
		p.BGPPath.Communities = &types.Communities{types.WellKnownCommunityNoAdvertise}
	case 5:
		p.BGPPath.Communities = &types.Communities{65000<<16 | 1}
	}
	return p
}

func (r *c25Rig) objLoc(l int) int   { return l }
func (r *c25Rig) objOut(fi int) int  { return len(r.locs) + fi }
func (r *c25Rig) objIn(l, g int) int { return len(r.locs) + len(r.flatOuts) + l*r.cfg.workers + g }
func (r *c25Rig) objCM() int         { return len(r.inflight) - 1 }
func (r *c25Rig) flatIndex(l, o int) int {
	n := 0
	for i := 0; i < l; i++ {
		n += len(r.locs[i].outs)
	}
	return n + o
}

func (r *c25Rig) enter(obj int) {
	r.inflight[obj].Add(1)
	for i := range r.inflight {
		if i != obj && r.inflight[i].Load() > 0 {
			r.overlap.Store(true)
			break
		}
	}
}
func (r *c25Rig) leave(obj int) { r.inflight[obj].Add(-1) }

// routeChange wraps operations that take LocRIB.mu and call into its clients.
func (r *c25Rig) routeChange(loc *c25Loc, f func()) {
	if r.guardInv {
		loc.h.RLock()
		defer loc.h.RUnlock()
	}
	f()
}

// exec runs one operation on behalf of worker g. It returns a class label
// ("" when the operation was not applicable in the current state).
func (r *c25Rig) exec(g int, op c25Op) string {
	w := r.workers[g]
	loc := r.locs[op.loc%len(r.locs)]
	l := op.loc % len(r.locs)
	oi := op.obj % len(loc.outs)
	out := loc.outs[oi]
	fi := r.flatIndex(l, oi)
	in := loc.ins[g]
	cl := w.clients[op.obj%len(w.clients)]
	ci := op.obj % len(w.clients)
	pfx := c25Pfxs[op.pfx%len(c25Pfxs)]
	pi := op.pfx % len(c25Pfxs)

	switch op.kind {
	case c25LFeed:
		if loc.disposed.Load() {
			return ""
		}
		v := op.v
		np := c25Path(w.src, v, g%2 == 1)
		r.enter(r.objLoc(l))
		defer r.leave(r.objLoc(l))
		old := w.direct[l][pi]
		r.routeChange(loc, func() {
			switch {
			case old == nil:
				loc.rib.AddPath(pfx, np)
			case op.v%2 == 0:
				loc.rib.ReplacePath(pfx, old, np)
			default:
				loc.rib.RemovePath(pfx, old)
				loc.rib.AddPath(pfx, np)
			}
		})
		w.direct[l][pi] = np
		return "loc_feed"
	case c25LWithdraw:
		old := w.direct[l][pi]
		if loc.disposed.Load() || old == nil {
			return ""
		}
		r.enter(r.objLoc(l))
		defer r.leave(r.objLoc(l))
		r.routeChange(loc, func() { loc.rib.RemovePath(pfx, old) })
		delete(w.direct[l], pi)
		return "loc_withdraw"
	case c25LRead:
		r.enter(r.objLoc(l))
		defer r.leave(r.objLoc(l))
		switch op.v % 7 {
		case 0:
			for _, rt := range loc.rib.Dump() {
				_ = rt.Prefix()
				for _, p := range rt.Paths() {
					_ = p.Type
				}
			}
		case 1:
			_ = loc.rib.Print()
		case 2:
			_ = loc.rib.String()
		case 3:
			if rt := loc.rib.Get(pfx); rt != nil {
				_ = rt.BestPath()
				_ = rt.ECMPPathCount()
			}
		case 4:
			for _, rt := range loc.rib.LPM(pfx) {
				_ = len(rt.Paths())
			}
		case 5:
			_ = loc.rib.Count() + loc.rib.ClientCount() + uint64(loc.rib.RouteCount())
		default:
			if p := w.direct[l][pi]; p != nil {
				_ = loc.rib.ContainsPfxPath(pfx, p)
			}
			_ = loc.rib.GetLonger(pfx)
		}
		return "loc_read"
	case c25LClientReg:
		if w.locReg[ci][l] {
			return ""
		}
		r.enter(r.objLoc(l))
		defer r.leave(r.objLoc(l))
		if op.v%2 == 0 {
			loc.rib.Register(cl)
		} else {
			loc.rib.RegisterWithOptions(cl, routingtable.ClientOptions{MaxPaths: uint(1 + op.v%3)})
		}
		w.locReg[ci][l] = true
		return "loc_client_register"
	case c25LClientUnreg:
		if !w.locReg[ci][l] {
			return ""
		}
		r.enter(r.objLoc(l))
		defer r.leave(r.objLoc(l))
		loc.rib.Unregister(cl)
		w.locReg[ci][l] = false
		return "loc_client_unregister"
	case c25LRefreshOwn:
		if !w.locReg[ci][l] {
			return ""
		}
		r.enter(r.objLoc(l))
		defer r.leave(r.objLoc(l))
		loc.rib.RefreshClient(cl)
		return "loc_refresh_client"
	case c25LOutReg:
		out.regMu.Lock()
		defer out.regMu.Unlock()
		if out.reg {
			return ""
		}
		r.enter(r.objLoc(l))
		defer r.leave(r.objLoc(l))
		opts := routingtable.ClientOptions{BestOnly: true}
		if r.cfg.locs[l][oi].addPath {
			opts = routingtable.ClientOptions{MaxPaths: 4}
		}
		r.routeChange(loc, func() { loc.rib.RegisterWithOptions(out.a, opts) })
		out.reg = true
		return "loc_out_register"
	case c25LOutUnreg:
		out.regMu.Lock()
		defer out.regMu.Unlock()
		if !out.reg {
			return ""
		}
		r.enter(r.objLoc(l))
		defer r.leave(r.objLoc(l))
		loc.rib.Unregister(out.a)
		out.reg = false
		return "loc_out_unregister"
	case c25LDispose:
		if op.v != 0 || loc.disposed.Swap(true) {
			return ""
		}
		r.enter(r.objLoc(l))
		defer r.leave(r.objLoc(l))
		loc.rib.Dispose()
		return "loc_dispose"
	case c25OutRFC:
		if loc.disposed.Load() {
			return ""
		}
		out.rfcMu.Lock()
		defer out.rfcMu.Unlock()
		if r.guardInv {
			loc.h.Lock()
			defer loc.h.Unlock()
		}
		r.enter(r.objOut(fi))
		defer r.leave(r.objOut(fi))
		out.a.ReplaceFilterChain(c25Chain(op.v))
		return "out_replace_filter_chain"
	case c25OutRead:
		r.enter(r.objOut(fi))
		defer r.leave(r.objOut(fi))
		switch op.v % 3 {
		case 0:
			for _, rt := range out.a.Dump() {
				_ = len(rt.Paths())
			}
		case 1:
			_ = out.a.Print()
		default:
			_ = out.a.RouteCount() + int64(out.a.ClientCount())
			_ = out.a.Get(pfx)
		}
		return "out_read"
	case c25OutSinkReg:
		if w.outReg[ci][fi] {
			return ""
		}
		r.enter(r.objOut(fi))
		defer r.leave(r.objOut(fi))
		out.a.Register(cl)
		w.outReg[ci][fi] = true
		return "out_client_register"
	case c25OutSinkUnreg:
		if !w.outReg[ci][fi] {
			return ""
		}
		r.enter(r.objOut(fi))
		defer r.leave(r.objOut(fi))
		out.a.Unregister(cl)
		w.outReg[ci][fi] = false
		return "out_client_unregister"
	case c25InFeed:
		if loc.disposed.Load() {
			return ""
		}
		v := op.v
		np := c25Path(in.peer, v, g%2 == 1)
		r.enter(r.objIn(l, g))
		defer r.leave(r.objIn(l, g))
		r.routeChange(loc, func() { in.a.AddPath(pfx, np) })
		in.cur[pi] = np
		return "in_feed"
	case c25InWithdraw:
		old := in.cur[pi]
		if loc.disposed.Load() || old == nil {
			return ""
		}
		r.enter(r.objIn(l, g))
		defer r.leave(r.objIn(l, g))
		r.routeChange(loc, func() { in.a.RemovePath(pfx, old) })
		delete(in.cur, pi)
		return "in_withdraw"
	case c25InFlush:
		if loc.disposed.Load() {
			return ""
		}
		r.enter(r.objIn(l, g))
		defer r.leave(r.objIn(l, g))
		r.routeChange(loc, func() { in.a.Flush() })
		in.cur = map[int]*route.Path{}
		return "in_flush"
	case c25InRegLoc:
		if loc.disposed.Load() || in.reg {
			return ""
		}
		r.enter(r.objIn(l, g))
		defer r.leave(r.objIn(l, g))
		r.routeChange(loc, func() { in.a.Register(loc.rib) })
		in.reg = true
		return "in_register_locrib"
	case c25InUnregLoc:
		if loc.disposed.Load() || !in.reg {
			return ""
		}
		r.enter(r.objIn(l, g))
		defer r.leave(r.objIn(l, g))
		r.routeChange(loc, func() { in.a.Unregister(loc.rib) })
		in.reg = false
		return "in_unregister_locrib"
	case c25InRFC:
		if loc.disposed.Load() {
			return ""
		}
		tin := loc.ins[op.obj%len(loc.ins)]
		tg := op.obj % len(loc.ins)
		tin.rfcMu.Lock()
		defer tin.rfcMu.Unlock()
		r.enter(r.objIn(l, tg))
		defer r.leave(r.objIn(l, tg))
		r.routeChange(loc, func() { tin.a.ReplaceFilterChain(c25Chain(op.v)) })
		return "in_replace_filter_chain"
	case c25InRead:
		tin := loc.ins[op.obj%len(loc.ins)]
		tg := op.obj % len(loc.ins)
		r.enter(r.objIn(l, tg))
		defer r.leave(r.objIn(l, tg))
		if op.v%2 == 0 {
			for _, rt := range tin.a.Dump() {
				_ = len(rt.Paths())
			}
		} else {
			_ = tin.a.RouteCount() + int64(tin.a.ClientCount())
		}
		return "in_read"
	case c25CMReg:
		if w.cmReg[ci] {
			return ""
		}
		r.enter(r.objCM())
		defer r.leave(r.objCM())
		r.cm.RegisterWithOptions(cl, routingtable.ClientOptions{BestOnly: op.v%2 == 0, MaxPaths: uint(op.v)})
		w.cmReg[ci] = true
		return "cm_register"
	case c25CMUnreg:
		if !w.cmReg[ci] {
			return ""
		}
		r.enter(r.objCM())
		defer r.leave(r.objCM())
		r.cm.Unregister(cl)
		w.cmReg[ci] = false
		return "cm_unregister"
	case c25CMRead:
		r.enter(r.objCM())
		defer r.leave(r.objCM())
		_ = r.cm.ClientCount()
		_ = r.cm.Clients()
		_ = r.cm.GetOptions(cl)
		return "cm_read"
	case c25CMDispose:
		if op.v > 1 {
			return ""
		}
		r.enter(r.objCM())
		defer r.leave(r.objCM())
		r.cm.Dispose()
		for _, ww := range r.workers {
			_ = ww // registrations of other workers are stale now; Unregister of a missing client is a no-op
		}
		return "cm_dispose"
	}
	return ""
}

// c25PostCheck: "no table left unusable" — after the history every table
// still answers a read and a registration (run under the watchdog as well).
func (r *c25Rig) postCheck() {
	probe := &c25Client{name: "probe"}
	for _, loc := range r.locs {
		_ = loc.rib.Dump()
		_ = loc.rib.ClientCount()
		loc.rib.Register(probe)
		loc.rib.Unregister(probe)
		for _, o := range loc.outs {
			_ = o.a.Dump()
			_ = o.a.ClientCount()
			o.a.Register(probe)
			o.a.Unregister(probe)
		}
		for _, in := range loc.ins {
			_ = in.a.Dump()
			_ = in.a.ClientCount()
		}
	}
	_ = r.cm.ClientCount()
	r.cm.RegisterWithOptions(probe, routingtable.ClientOptions{})
	r.cm.Unregister(probe)
	_ = r.cm.Clients()
}

// ---------------------------------------------------------------------------
// verdicts

type c25Verdict int

const (
	c25OK c25Verdict = iota
	c25Known
)

// c25Judge handles a stuck report: returns c25Known when the deadlock is a
// listed finding (the rig is abandoned, its goroutines leak), fails the test
// for a new deadlock, ends the process with exit 2 when unconfirmed.
func c25Judge(t interface {
	Fatalf(string, ...interface{})
}, rec *kit.Recorder, rep *kit.StuckReport, what string) c25Verdict {
	if rep == nil {
		return c25OK
	}
	if !rep.Confirmed {
		fmt.Printf("C25 watchdog expired but no deadlock confirmed (%s)\ncase: %s\n%s\n", rep.Reason, what, c25Trim(rep.Relevant))
		kit.ExitInconclusive("C25 watchdog: %s", rep.Reason)
	}
	for _, s := range rep.CandidateSigs("C25") {
		if rec.Known(s) {
			return c25Known
		}
	}
	t.Fatalf("C25 DEADLOCK sig=%s\ncase: %s\nblocked in: %v\n--- stacks of the stuck operations and of busy bio-rd goroutines (second of two identical dumps) ---\n%s", rep.Sig("C25"), what, rep.Frames, c25Trim(rep.Relevant))
	return c25OK
}

func c25Trim(d string) string {
	if len(d) > 60000 {
		return d[:60000] + "\n…(truncated)"
	}
	return d
}

// ---------------------------------------------------------------------------
// (a) sequential histories

func TestVerifC25Sequential(t *testing.T) {
	rec := kit.NewRecorder(t, "C25", c25Rule)
	rapid.Check(t, func(t *rapid.T) {
		c := rec.Case()
		defer c.Done()
		s := c25RapidSrc{t}
		cfg := c25GenCfg(s, 2)
		n := rapid.IntRange(4, 40).Draw(t, "n")
		ops := c25GenOps(s, cfg, n)
		who := make([]int, n)
		for i := range who {
			who[i] = s.Intn(2)
		}
		c.Logf("cfg %s", cfg)
		c.Logf("ops %s", c25OpsString(ops))
		c.Logf("who %v", who)
		rig := c25NewRig(cfg)
		fed, interesting := false, false
		for i, op := range ops {
			var class string
			done := kit.GoOp(func() { class = rig.exec(who[i], op) })
			rep := kit.WaitOps([]<-chan struct{}{done}, c25WatchLimit, c25WatchGap)
			if c25Judge(t, rec, rep, fmt.Sprintf("cfg %s; sequential history, stuck at op #%d %s (worker %d) of: %s", cfg, i, op, who[i], c25OpsString(ops))) == c25Known {
				c.Class("known_deadlock")
				return
			}
			if class != "" {
				c.Class(class)
			}
			switch class {
			case "loc_feed", "in_feed":
				fed = true
			case "out_replace_filter_chain", "in_replace_filter_chain", "loc_out_register", "loc_out_unregister", "loc_dispose", "cm_dispose",
				"in_unregister_locrib", "in_register_locrib", "loc_client_register", "in_flush":
				if fed || class == "cm_dispose" {
					interesting = true
				}
			}
		}
		done := kit.GoOp(rig.postCheck)
		rep := kit.WaitOps([]<-chan struct{}{done}, c25WatchLimit, c25WatchGap)
		if c25Judge(t, rec, rep, fmt.Sprintf("cfg %s; post-check (every table must still answer) after: %s", cfg, c25OpsString(ops))) == c25Known {
			c.Class("known_deadlock")
			return
		}
		c.NonTrivialIf(interesting)
	})
}

// ---------------------------------------------------------------------------
// (b) concurrent mixes

// c25Round runs one concurrent round. It returns false when the round ended
// in a listed (known) deadlock.
func c25Round(t *testing.T, rec *kit.Recorder, s c25Src, label string) bool {
	c := rec.Case()
	defer c.Done()
	workers := 2 + s.Intn(7)
	cfg := c25GenCfg(s, workers)
	perWorker := 8 + s.Intn(25)
	lists := make([][]c25Op, workers)
	for g := range lists {
		lists[g] = c25GenOps(s, cfg, perWorker)
	}
	c.Logf("%s cfg %s", label, cfg)
	for g := range lists {
		c.Logf("w%d %s", g, c25OpsString(lists[g]))
	}
	rig := c25NewRig(cfg)
	if rig.guardInv {
		rec.Excluded(c25InvSig)
	}
	classes := make([]map[string]struct{}, workers)
	start := make(chan struct{})
	dones := make([]<-chan struct{}, workers)
	for g := 0; g < workers; g++ {
		g := g
		classes[g] = map[string]struct{}{}
		dones[g] = kit.GoOp(func() {
			<-start
			for _, op := range lists[g] {
				if cl := rig.exec(g, op); cl != "" {
					classes[g][cl] = struct{}{}
				}
			}
		})
	}
	close(start)
	what := func() string {
		var sb strings.Builder
		fmt.Fprintf(&sb, "%s cfg %s\n", label, cfg)
		for g := range lists {
			fmt.Fprintf(&sb, "  w%d: %s\n", g, c25OpsString(lists[g]))
		}
		return sb.String()
	}
	rep := kit.WaitOps(dones, c25WatchLimit, c25WatchGap)
	if c25Judge(t, rec, rep, what()) == c25Known {
		c.Class("known_deadlock")
		return false
	}
	done := kit.GoOp(rig.postCheck)
	rep = kit.WaitOps([]<-chan struct{}{done}, c25WatchLimit, c25WatchGap)
	if c25Judge(t, rec, rep, "post-check after "+what()) == c25Known {
		c.Class("known_deadlock")
		return false
	}
	for g := range classes {
		for cl := range classes[g] {
			c.Class(cl)
		}
	}
	c.Class(fmt.Sprintf("workers_%d", workers))
	c.NonTrivialIf(rig.overlap.Load())
	return true
}

func c25Rounds() int {
	n := kit.Scale(1500, 12000)
	if v := os.Getenv("C25_ROUNDS"); v != "" {
		fmt.Sscanf(v, "%d", &n)
	}
	return n
}

func TestVerifC25Concurrent(t *testing.T) {
	rec := kit.NewRecorder(t, "C25", c25Rule)
	gmp := os.Getenv("GOMAXPROCS")
	seed := kit.Seed()*1000003 + uint64(len(gmp))*7919
	for _, ch := range gmp {
		seed = seed*131 + uint64(ch)
	}
	s := kit.NewSplitMix(seed)
	n := c25Rounds()
	known := 0
	for i := 0; i < n; i++ {
		if !c25Round(t, rec, s, fmt.Sprintf("seed=%d gomaxprocs=%s round=%d", kit.Seed(), gmp, i)) {
			known++
			if known >= 3 {
				rec.Note("stopped after %d rounds that ended in a listed deadlock (each costs a watchdog period)", known)
				break
			}
		}
		if t.Failed() {
			return
		}
	}
}

// ---------------------------------------------------------------------------
// witness of the listed finding c25InvSig

// c25Gate is a filter action that parks the calling goroutine (used by the
// witness only, to build the schedule deterministically).
type c25Gate struct {
	armed   atomic.Bool
	entered chan struct{}
	release chan struct{}
}

func (g *c25Gate) Do(p *bnet.Prefix, pa *route.Path) actions.Result {
	if g.armed.Swap(false) {
		close(g.entered)
		<-g.release
	}
	return actions.Result{Path: pa}
}
func (g *c25Gate) Equal(actions.Action) bool { return false }

// TestVerifC25WitnessLockOrderInversion: goroutine A is inside
// LocRIB.AddPath (holds LocRIB.mu) and about to call AdjRIBOut.AddPath;
// goroutine B calls AdjRIBOut.ReplaceFilterChain (takes AdjRIBOut.mu, then
// LocRIB.RefreshClient wants LocRIB.mu). A then wants AdjRIBOut.mu: deadlock.
func TestVerifC25WitnessLockOrderInversion(t *testing.T) {
	rib := locRIB.New("c25w")
	gate := &c25Gate{entered: make(chan struct{}), release: make(chan struct{})}
	chain := filter.Chain{filter.NewFilter("gate", []*filter.Term{filter.NewTerm("g", nil, []actions.Action{gate, actions.NewAcceptAction()})})}
	sa := routingtable.SessionAttrs{RouterID: 1, PeerIP: bnet.IPv4FromOctets(172, 17, 0, 1).Dedup(), LocalIP: bnet.IPv4FromOctets(172, 16, 0, 1).Dedup(),
		Type: route.BGPPathType, IBGP: false, LocalASN: 65000, PeerASN: 65010}
	out := adjRIBOut.New(rib, sa, chain)
	out.Register(&c25Client{})
	rib.Register(out)
	gate.armed.Store(true)
	a := kit.GoOp(func() { rib.AddPath(c25Pfxs[1], c25Path(c25WorkerIP(0), 1, true)) })
	select {
	case <-gate.entered:
	case <-time.After(20 * time.Second):
		kit.ExitInconclusive("C25 witness: LocRIB.AddPath did not reach the export filter of the AdjRIBOut")
	}
	b := kit.GoOp(func() { out.ReplaceFilterChain(filter.NewAcceptAllFilterChain()) })
	// wait until B is parked in LocRIB.RefreshClient (it then holds AdjRIBOut.mu)
	parked := false
	for i := 0; i < 400 && !parked; i++ {
		for _, g := range kit.ParseDump(kit.Stacks()) {
			if g.IsOp && strings.HasPrefix(g.State, "sync.RWMutex.RLock") {
				for _, fn := range g.Funcs {
					if strings.HasSuffix(fn, "locRIB.(*LocRIB).RefreshClient") {
						parked = true
					}
				}
			}
		}
		select {
		case <-b:
			i = 400 // ReplaceFilterChain returned: no inversion any more
		case <-time.After(10 * time.Millisecond):
		}
	}
	close(gate.release)
	rep := kit.WaitOps([]<-chan struct{}{a, b}, 3*time.Second, time.Second)
	if rep == nil {
		return
	}
	if !rep.Confirmed {
		kit.ExitInconclusive("C25 witness: %s", rep.Reason)
	}
	t.Fatalf("deadlock %s: LocRIB.AddPath holds LocRIB.mu and waits for AdjRIBOut.mu, AdjRIBOut.ReplaceFilterChain holds AdjRIBOut.mu and waits for LocRIB.mu (blocked in %v)", rep.Sig("C25"), rep.Frames)
}

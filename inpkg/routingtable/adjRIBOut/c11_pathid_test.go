//go:build verif

package adjRIBOut

// C11 — add-path identifiers.
//
//  1. TestVerifC11Session: Loc-RIB + Adj-RIB-Out with add-path send (N=3) and
//     a recording client; paths come from a small pool whose members share all
//     attributes the identifier hash covers and differ only in OTC / unknown
//     attributes / AGGREGATOR / ATOMIC_AGGREGATE (plus ordinary different
//     paths), spread over 3 prefixes so that identifiers are shared between
//     prefixes and released more than once. Oracle after every Loc-RIB call:
//     - two stored paths of one prefix with different attribute values have
//     different identifiers;
//     - an announcement never reuses an identifier that is still announced
//     for a different path of the prefix; every withdrawal carries an
//     identifier that is announced for exactly that path (recorder);
//     - no selected, exportable path is missing (an add that failed with "out
//     of path IDs" shows up as a missing path);
//     - white box: pathIDManager.used == number of identifiers in use.
//  2. TestVerifC11Manager: model test of pathIDManager alone (add/release
//     histories over hash-equal and hash-different paths, identifier limit and
//     wrap-around of `last` set through the package variables).

import (
	"fmt"
	"sort"
	"testing"

	"github.com/bio-routing/bio-rd/route"
	"pgregory.net/rapid"
	kit "verifkit"
)

const c11Rule = "session machine: add-path send (N=3) eBGP/RS-client/iBGP/RR-client session, 3 prefixes, Loc-RIB history of up to 40/80 steps (with 0-2 export policy replacements) drawing BGP paths from a pool of 3-6 paths in which some pairs differ only in OTC, unknown attributes, AGGREGATOR or ATOMIC_AGGREGATE; manager machine: add/release histories over 6 paths (two pairs hash-equal), identifier limit 3..6 or 2^32-1, `last` started near wrap-around. Non-trivial: an identifier held by >=2 (prefix, path) users is released more than once, or two paths differing only in attributes outside the old hash are advertised for one prefix."

// c11Pool draws the path pool: base paths from different neighbours plus
// variants of a base that differ only in one attribute outside the
// decision process.
func c11Pool(t *rapid.T) []dxAttrs {
	n := rapid.IntRange(1, 2).Draw(t, "nbase")
	var pool []dxAttrs
	for i := 0; i < n; i++ {
		b := dxGenBGP(t, fmt.Sprintf("base%d", i), dxGenOpts{})
		b.Comms = nil // keep the pool exportable everywhere: the wipe finding of C08 is not C11's subject
		if rapid.IntRange(0, 3).Draw(t, "basecomm") == 0 {
			b.Comms = []uint32{0xfde80001}
		}
		pool = append(pool, b)
		nv := rapid.IntRange(1, 3).Draw(t, "nvar")
		for j := 0; j < nv; j++ {
			v := b.clone()
			switch rapid.IntRange(0, 4).Draw(t, "var") {
			case 0:
				v.OTC = b.OTC + 1 + uint32(j)
			case 1:
				// unknown attributes differing in the type code or only in the value
				v.Unknown = append(v.Unknown, dxUnk{Optional: true, Type: uint8(210 + rapid.IntRange(0, 1).Draw(t, "unktype")), Value: []byte{byte(rapid.IntRange(0, 1).Draw(t, "unkval"))}})
			case 2:
				// AGGREGATOR variants of one base may differ in the ASN only, in the address only, or in both
				v.HasAggr = true
				v.AggrASN = uint16(64700 + rapid.IntRange(0, 1).Draw(t, "aggrasn"))
				v.AggrAddr = 0x0a000001 + uint32(rapid.IntRange(0, 1).Draw(t, "aggraddr"))
			case 3:
				v.Atomic = !b.Atomic
			default:
				v.MED = b.MED + 1 + uint32(j) // an ordinary difference the hash always covered
			}
			dup := false
			for _, o := range pool {
				if o.canon(dxMask{}) == v.canon(dxMask{}) {
					dup = true
				}
			}
			if !dup {
				pool = append(pool, v)
			}
		}
	}
	return pool
}

// c11OnlyExtraDiffer: a and b are different paths whose difference lies only
// in attributes the identifier hash did not cover.
func c11OnlyExtraDiffer(a, b dxAttrs) bool {
	if a.canon(dxMask{}) == b.canon(dxMask{}) {
		return false
	}
	x, y := a.clone(), b.clone()
	for _, p := range []*dxAttrs{&x, &y} {
		p.OTC, p.Unknown, p.HasAggr, p.AggrASN, p.AggrAddr, p.Atomic = 0, nil, false, 0, 0, false
	}
	return x.canon(dxMask{}) == y.canon(dxMask{})
}

func c11Run(t *rapid.T, c *kit.Case, rec *kit.Recorder, maxSteps int) {
	s := dxGenSession(t, "s", false)
	s.AddPathN = 3
	bits, pfxs := dxGenUniverse(t, 3)
	rig := newC08Rig(t, s, nil, bits, pfxs)
	h := newDxHist(t, len(pfxs), dxGenOpts{})
	// every neighbour sends several paths (add-path receive), so that pool
	// members from one neighbour can coexist under a prefix
	for _, p := range dxPeers {
		h.rx[p.IP] = true
	}
	h.pool = c11Pool(t)
	h.noStatic = true
	steps := rapid.IntRange(2, maxSteps).Draw(t, "steps")
	c.Logf("session %v", s)
	c.Logf("universe %v", bits)
	for i, p := range h.pool {
		c.Logf("pool %d %v", i, p)
	}
	c.Class(dxKindNames[s.Kind])
	rig.attach()
	fail := func(msg string) {
		t.Fatalf("%s\nhistory:\n%s", msg, c.String())
	}
	releases := map[uint32]int{} // identifier -> withdrawals seen
	seenEvents := 0
	// export policy replacements (configuration reload on the running session) at up to two steps: paths whose
	// advertised form changes are re-announced, the others keep their identifiers
	replaceAt := map[int]dxPolicy{}
	for k, n := 0, rapid.SampledFrom([]int{0, 0, 1, 2}).Draw(t, "nreplace"); k < n; k++ {
		replaceAt[rapid.IntRange(1, steps).Draw(t, "replace_at")] = dxGenPolicy(t, fmt.Sprintf("pol_r%d", k), len(pfxs), s)
	}
	for step := 1; step <= steps; step++ {
		ops := h.next()
		if np, ok := replaceAt[step]; ok {
			ops = append(ops, dxOp{Pfx: -1})
			_ = np
		}
		for _, op := range ops {
			what := "replace export policy"
			if op.Pfx >= 0 {
				what = op.String(bits)
			} else {
				what += fmt.Sprintf(" by %v", replaceAt[step])
				c.Class("export_policy_replaced")
			}
			c.Logf("%d %s", step, what)
			var cm string
			msg := dxGuard(func() {
				if op.Pfx < 0 {
					rig.aro.ReplaceFilterChain(replaceAt[step].chain(pfxs))
					rig.pol = replaceAt[step]
					cm = rig.check()
					return
				}
				before, _ := rig.selected(op.Pfx)
				if op.Add {
					rig.add(op.Pfx, op.Attrs)
				} else {
					rig.remove(op.Pfx, op.Attrs, op.SameObj)
				}
				rig.noteWipe(op.Pfx, before)
				cm = rig.check()
			})
			if msg != "" {
				fail(msg)
			}
			if cm != "" && rig.sig == c08SigWipe && rec.Known(c08SigWipe) {
				// known finding of C08 (siblings of a rule-excluded path wiped): not C11's subject
				c.Class("known_addpath_wipe")
				return
			}
			// recorder: identifier discipline
			if len(rig.rec.idErrors) > 0 {
				fail("add-path identifier discipline violated on the announcements/withdrawals the Adj-RIB-Out handed to its client:\n  " + rig.rec.idErrors[0])
			}
			for _, e := range rig.rec.events[seenEvents:] {
				if !e.Add {
					releases[e.PathID]++
					if releases[e.PathID] >= 2 {
						c.Class("id_released_repeatedly")
						c.NonTrivial()
					}
				}
			}
			seenEvents = len(rig.rec.events)
			// stored paths: distinct values -> distinct ids
			inUse := map[uint32]bool{}
			for _, pfx := range pfxs {
				rt := rig.aro.Get(pfx)
				if rt == nil {
					continue
				}
				ps := rt.Paths()
				for x := range ps {
					inUse[ps[x].BGPPath.PathIdentifier] = true
					for y := x + 1; y < len(ps); y++ {
						ax, ay := dxFromReal(ps[x]), dxFromReal(ps[y])
						if ax.canon(dxMask{}) == ay.canon(dxMask{}) {
							continue
						}
						if c11OnlyExtraDiffer(ax, ay) {
							c.Class("pair_differs_outside_old_hash")
							c.NonTrivial()
						}
						if ps[x].BGPPath.PathIdentifier == ps[y].BGPPath.PathIdentifier {
							fail(fmt.Sprintf("%s: two different paths are advertised with the same path identifier %d:\n    %s\n    %s", pfx, ps[x].BGPPath.PathIdentifier, ax, ay))
						}
					}
				}
			}
			// nothing missing / surplus (a failed identifier allocation loses a path)
			if cm != "" {
				fail(cm)
			}
			// white box: counter of identifiers in use
			pm := rig.aro.pathIDManager
			if int(pm.used) != len(pm.ids) || len(pm.ids) != len(inUse) || len(pm.idByPath) != len(pm.ids) {
				fail(fmt.Sprintf("pathIDManager bookkeeping: used=%d, ids=%d, idByPath=%d, identifiers on stored paths=%d", pm.used, len(pm.ids), len(pm.idByPath), len(inUse)))
			}
		}
	}
}

func TestVerifC11Session(t *testing.T) {
	rec := kit.NewRecorder(t, "C11", c11Rule)
	maxSteps := kit.Scale(40, 80)
	rapid.Check(t, func(t *rapid.T) {
		c := rec.Case()
		defer c.Done()
		c11Run(t, c, rec, maxSteps)
	})
}

// ---------------------------------------------------------------------------
// manager model

func c11MgrPath(k int) *route.Path {
	// 0/1 and 2/3 are hash-equal pairs (same attributes, distinct objects);
	// 4 differs from 0 only in OTC, 5 only in an unknown attribute.
	a := dxAttrs{Src: dxPeers[2].IP, NH: dxPeers[2].IP, EBGP: true, LP: 100, ASPath: []dxSeg{{ASNs: []uint32{64601}}}}
	switch k {
	case 2, 3:
		a.MED = 7
	case 4:
		a.OTC = 64601
	case 5:
		a.Unknown = []dxUnk{{Optional: true, Type: 222, Value: []byte{1}}}
	}
	return dxReal(a)
}

func TestVerifC11Manager(t *testing.T) {
	rec := kit.NewRecorder(t, "C11", c11Rule)
	saved := maxUint32
	defer func() { maxUint32 = saved }()
	rapid.Check(t, func(t *rapid.T) {
		c := rec.Case()
		defer c.Done()
		limit := ^uint32(0)
		if rapid.Bool().Draw(t, "small_limit") {
			limit = uint32(rapid.IntRange(3, 6).Draw(t, "limit"))
		}
		maxUint32 = limit
		defer func() { maxUint32 = saved }()
		pm := newPathIDManager()
		if rapid.IntRange(0, 3).Draw(t, "wrap") == 0 {
			pm.last = ^uint32(0) - uint32(rapid.IntRange(0, 3).Draw(t, "wrap_at"))
		}
		c.Logf("limit=%d last=%d", limit, pm.last)
		c.ClassIf(limit != ^uint32(0), "small_limit")
		c.ClassIf(pm.last != 0, "near_wrap")
		// The model is built from the identifiers the manager itself hands out:
		// out[k] = identifiers path k currently holds (one per add not yet released).
		// At this level there are no prefixes, so nothing is demanded about two
		// different paths sharing an identifier (the session machine judges that).
		out := map[int][]uint32{}
		inUse := func() map[uint32]int {
			m := map[uint32]int{}
			for _, ids := range out {
				for _, id := range ids {
					m[id]++
				}
			}
			return m
		}
		fail := func(format string, a ...interface{}) {
			t.Fatalf("%s\nhistory:\n%s", fmt.Sprintf(format, a...), c.String())
		}
		steps := rapid.IntRange(1, 40).Draw(t, "steps")
		for i := 0; i < steps; i++ {
			k := rapid.IntRange(0, 5).Draw(t, "k")
			held := 0
			for _, ids := range out {
				held += len(ids)
			}
			if rapid.IntRange(0, 9).Draw(t, "op") < 6 || held == 0 {
				before := inUse()
				id, err := pm.addPath(c11MgrPath(k))
				c.Logf("add %d -> id=%d err=%v", k, id, err)
				if err != nil {
					// statement: allocation keeps working while fewer identifiers than the limit are in use
					if uint32(len(before)) < limit {
						fail("addPath failed with %d of %d identifiers in use: %v", len(before), limit, err)
					}
					c.Class("exhausted")
					continue
				}
				out[k] = append(out[k], id)
			} else {
				// release a path that is held (callers release what they added)
				var cand []int
				for kk, ids := range out {
					if len(ids) > 0 {
						cand = append(cand, kk)
					}
				}
				sort.Ints(cand)
				k = cand[rapid.IntRange(0, len(cand)-1).Draw(t, "rk")]
				id, err := pm.releasePath(c11MgrPath(k))
				c.Logf("release %d -> id=%d err=%v", k, id, err)
				if err != nil {
					fail("releasePath of a held path failed: %v", err)
				}
				// a withdrawal carries the identifier the path was announced with
				pos := -1
				for j, x := range out[k] {
					if x == id {
						pos = j
					}
				}
				if pos < 0 {
					fail("releasePath returned identifier %d, path %d was announced with %v", id, k, out[k])
				}
				if inUse()[id] > 1 {
					c.Class("shared_id_released")
					c.NonTrivial()
				}
				out[k] = append(out[k][:pos], out[k][pos+1:]...)
			}
			now := inUse()
			if int(pm.used) != len(now) {
				fail("pathIDManager.used = %d after the last operation, %d identifiers are in use (%v)", pm.used, len(now), now)
			}
		}
		c.NonTrivialIf(len(inUse()) > 1)
	})
}

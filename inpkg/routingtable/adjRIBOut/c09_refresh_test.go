//go:build verif

package adjRIBOut

// C09, second machine: the never-clauses also hold after the session's export
// policy was replaced at run time. The export rules are applied on two code
// paths — when the Loc-RIB announces a path (AddPath) and when a policy
// replacement refreshes what is advertised (ReplaceFilterChain ->
// LocRIB.RefreshClient -> RefreshRoute) — and "a route is never advertised
// ..." speaks about both.

import (
	"fmt"
	"testing"

	"github.com/bio-routing/bio-rd/protocols/bgp/packet"
	"github.com/bio-routing/bio-rd/routingtable/locRIB"
	"pgregory.net/rapid"
	kit "verifkit"
)

const c09RefreshRule = "Loc-RIB with 1..3 paths of the C09 domain on one prefix (biased to never-clause triggers: NO_EXPORT, NO_ADVERTISE, learned from this peer, learned via iBGP, OTC) and a registered Adj-RIB-Out (session kinds of C09; best path only or add-path); then 1..2 replacements of the export policy by policies that rewrite MED / LOCAL_PREF / next hop and accept, so that the advertised form of every path changes; after each replacement every route in AdjRIBOut.Dump() is traced back to its Loc-RIB path and judged against the never-clauses. Non-trivial: the Loc-RIB holds a path a never-clause excludes for this session when the policy is replaced."

func c09NeverViolated(a dxAttrs, s dxSession) string {
	learnedIBGP := !a.Static && !a.EBGP
	switch {
	case a.hasComm(dxCommNoAdvertise):
		return "a route with NO_ADVERTISE is advertised"
	case a.hasComm(dxCommNoExport) && !s.ibgp():
		return "a route with NO_EXPORT is advertised to an eBGP peer"
	case !a.Static && a.Src == s.PeerIP:
		return "a route is advertised back to the peer it came from"
	case learnedIBGP && s.Kind == dxIBGP:
		return "a route learned from an iBGP peer is advertised to a non-client iBGP peer"
	case a.OTC != 0 && s.roleKnown() && dxRoleIn(s.RoleRemote, packet.PeerRoleRoleProvider, packet.PeerRoleRolePeer, packet.PeerRoleRoleRS):
		return fmt.Sprintf("a route with OTC %d is advertised to a provider/peer/route server (remote role %d)", a.OTC, s.RoleRemote)
	}
	return ""
}

func TestVerifC09AfterPolicyRefresh(t *testing.T) {
	rec := kit.NewRecorder(t, "C09", c09RefreshRule)
	rapid.Check(t, func(t *rapid.T) {
		c := rec.Case()
		defer c.Done()
		s := dxGenSession(t, "s", false)
		_, pfxs := dxGenUniverse(t, 1)
		pfx := pfxs[0]
		rib := locRIB.New("c09r")
		aro := New(rib, s.attrs(), dxPolicy(nil).chain(nil))
		rib.RegisterWithOptions(aro, s.clientOptions())
		c.Logf("session %v", s)
		// paths: one per neighbour (what Adj-RIB-Ins deliver), a tag in LOCAL_PREF-independent field to trace them
		// back: every path gets a distinct large-community-free marker = its source address, which no rewrite touches
		// except for statics (at most one static).
		n := rapid.IntRange(1, 3).Draw(t, "npaths")
		var in []dxAttrs
		excluded := false
		usedSrc := map[uint32]bool{}
		for i := 0; i < n; i++ {
			a := dxGenBGP(t, fmt.Sprintf("p%d", i), dxGenOpts{})
			if rapid.IntRange(0, 3).Draw(t, fmt.Sprintf("p%d_own", i)) == 0 {
				a.Src = s.PeerIP
				a.EBGP = !s.ibgp()
				a.OrigID, a.Cluster = 0, nil
				if a.EBGP {
					a.ASPath = append([]dxSeg{{ASNs: []uint32{s.PeerASN}}}, a.ASPath...)
				}
			}
			if usedSrc[a.Src] {
				continue // one path per neighbour
			}
			if s.AddPathN > 0 && c09NeverViolated(a, s) != "" && len(in) > 0 {
				// known finding C08/addpath-wipe-on-unexportable: on add-path sessions an excluded path withdraws its
				// siblings; keep such a path alone on the prefix so that the finding cannot blur this check
				continue
			}
			if s.AddPathN > 0 && excluded {
				continue
			}
			usedSrc[a.Src] = true
			in = append(in, a)
			if c09NeverViolated(a, s) != "" {
				excluded = true
			}
			c.Logf("path %v", a)
			rib.AddPath(pfx, dxReal(a))
		}
		c.NonTrivialIf(excluded)
		c.ClassIf(excluded, "excluded_path_in_locrib")
		c.ClassIf(s.AddPathN > 0, "add_path")
		c.Class(dxKindNames[s.Kind])
		bySrc := map[uint32]dxAttrs{}
		for _, a := range in {
			bySrc[a.Src] = a
		}
		judge := func(when string) {
			for _, r := range aro.Dump() {
				for _, p := range r.Paths() {
					out := dxFromReal(p)
					a, ok := bySrc[out.Src]
					if !ok {
						t.Fatalf("%s: the Adj-RIB-Out holds a path from an unknown source: %v\n%s", when, out, c.String())
					}
					if msg := c09NeverViolated(a, s); msg != "" {
						t.Fatalf("%s: %s\n  Loc-RIB path %v\n  advertised   %v\n%s", when, msg, a, out, c.String())
					}
				}
			}
		}
		judge("after the announcements")
		nrep := rapid.IntRange(1, 2).Draw(t, "nrep")
		for k := 0; k < nrep; k++ {
			act := dxAct{Kind: dxActSetMED, V: uint32(1000 + 10*k + rapid.IntRange(0, 3).Draw(t, "med"))}
			if s.ibgp() && rapid.Bool().Draw(t, "lp") {
				act = dxAct{Kind: dxActSetLP, V: uint32(300 + k)}
			}
			pol := dxPolicy{{{Acts: []dxAct{act, {Kind: dxActAccept}}}}}
			c.Logf("replace export policy: %v", pol)
			if pm := dxGuard(func() { aro.ReplaceFilterChain(pol.chain(pfxs)) }); pm != "" {
				t.Fatalf("%s while replacing the export policy\n%s", pm, c.String())
			}
			judge(fmt.Sprintf("after export policy replacement %d", k+1))
		}
	})
}

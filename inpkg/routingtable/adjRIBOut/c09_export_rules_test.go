//go:build verif

package adjRIBOut

// C09 — export eligibility and attribute rewriting follow the RFCs.
//
// Stateless: one generated path (BGP from one of five neighbours incl. the
// session's own peer, or a static route) is handed to a fresh AdjRIBOut of a
// generated session exactly as the Loc-RIB hands it over (AddPath). Every
// clause of the statement is a separate predicate, evaluated
//   - on AdjRIBOut.Dump() and
//   - on the UPDATE built the way the update sender builds it
//     (packet.PathAttributes(path, iBGP, rrClient) -> BGPUpdate{PathAttributes,
//     NLRI} -> SerializeUpdate), parsed with the kit's strict parser.
// In addition the Dump is compared with the shared reference dxExport.

import (
	"fmt"
	"testing"

	bnet "github.com/bio-routing/bio-rd/net"
	"github.com/bio-routing/bio-rd/protocols/bgp/packet"
	"github.com/bio-routing/bio-rd/route"
	"pgregory.net/rapid"
	kit "verifkit"
)

const c09Rule = "one path (attributes from the bounded domain of dxGenBGP: source in {this peer, other iBGP, eBGP}, communities incl. NO_EXPORT/NO_ADVERTISE, OTC present or not, ORIGINATOR_ID/CLUSTER_LIST, AS path with SETs, unknown attributes, aggregator; or a static route) x session (eBGP, eBGP RS-client, iBGP, iBGP RR-client; add-path or not; RFC 9234 role pair negotiated / configured but not negotiated / off; 2- or 4-octet AS encoding). Non-trivial: at least one must-clause applies to the session (prepend+next-hop-self, RR attributes, OTC to add, LOCAL_PREF rule) and the path carries at least one trigger of a never-clause (NO_EXPORT, NO_ADVERTISE, learned from this peer, learned via iBGP, OTC present)."

const c09SigOTCWire = "C09/otc-not-on-wire"

type c09Out struct {
	exported bool
	stored   *route.Path
	dump     dxAttrs
	wire     *kit.WUpdate
	raw      []byte
}

// c09Wire builds the UPDATE as UpdateSender._getUpdateInformation/bgpUpdate/
// serializeAndSendUpdate do for an IPv4 unicast session without multiprotocol.
func c09Wire(p *route.Path, pfx *bnet.Prefix, s dxSession, asn4 bool) ([]byte, error) {
	pathAttrs, err := packet.PathAttributes(p, s.ibgp(), s.rrClient())
	if err != nil {
		return nil, err
	}
	update := &packet.BGPUpdate{
		PathAttributes: pathAttrs,
		SAFI:           packet.SAFIUnicast,
		NLRI: &packet.NLRI{
			PathIdentifier: p.BGPPath.PathIdentifier,
			Prefix:         pfx,
		},
	}
	return update.SerializeUpdate(&packet.EncodeOptions{Use32BitASN: asn4, UseAddPath: s.AddPathN > 0})
}

func c09SameASPath(a, b []dxSeg) bool {
	return dxAttrs{ASPath: a}.asPathString() == dxAttrs{ASPath: b}.asPathString()
}

func c09WireASPath(u *kit.WUpdate) []dxSeg {
	var out []dxSeg
	for _, s := range u.ASPath {
		out = append(out, dxSeg{Set: s.Type == 1, ASNs: s.ASNs})
	}
	return out
}

func c09Has(l []uint32, v uint32) bool {
	for _, x := range l {
		if x == v {
			return true
		}
	}
	return false
}

// c09Judge evaluates the clauses. It returns (signature, message); message
// empty = all clauses hold. The OTC-on-the-wire clause is evaluated last so
// that the known finding never hides another failure.
func c09Judge(a dxAttrs, s dxSession, o c09Out) (string, string) {
	learnedIBGP := !a.Static && !a.EBGP
	// ---- never clauses
	if o.exported {
		switch {
		case a.hasComm(dxCommNoAdvertise):
			return "", "a route with NO_ADVERTISE was advertised"
		case a.hasComm(dxCommNoExport) && !s.ibgp():
			return "", "a route with NO_EXPORT was advertised to an eBGP peer"
		case !a.Static && a.Src == s.PeerIP:
			return "", "a route was advertised back to the peer it came from"
		case learnedIBGP && s.Kind == dxIBGP:
			return "", "a route learned from an iBGP peer was advertised to a non-client iBGP peer"
		case a.OTC != 0 && s.roleKnown() && dxRoleIn(s.RoleRemote, packet.PeerRoleRoleProvider, packet.PeerRoleRolePeer, packet.PeerRoleRoleRS):
			return "", fmt.Sprintf("a route with OTC %d was advertised to a provider/peer/route server (remote role %d)", a.OTC, s.RoleRemote)
		}
	}
	// ---- the shared reference (only where the role question is settled)
	if s.roleKnown() || !s.RoleOn {
		want, ok, m := dxExport(a, s)
		if ok != o.exported {
			return "", fmt.Sprintf("advertised=%v, the export rules say %v", o.exported, ok)
		}
		if ok && want.canon(m) != o.dump.canon(m) {
			return "", fmt.Sprintf("stored route differs from the export rules:\n    got  %s\n    want %s", o.dump.canon(m), want.canon(m))
		}
	}
	if !o.exported {
		return "", ""
	}
	u := o.wire
	// ---- must clauses, table
	base := a
	if a.Static {
		base = dxAttrs{NH: a.NH}
	}
	if s.Kind == dxEBGP {
		want := dxPrepend(base, s.LocalASN).ASPath
		if !c09SameASPath(o.dump.ASPath, want) {
			return "", fmt.Sprintf("eBGP (not RS client): stored AS path %s, want the local AS prepended: %s", o.dump.asPathString(), dxAttrs{ASPath: want}.asPathString())
		}
		if o.dump.NH != s.LocalIP {
			return "", fmt.Sprintf("eBGP (not RS client): stored next hop %s, want the local address %s", dxIP(o.dump.NH), dxIP(s.LocalIP))
		}
		wp := c09WireASPath(u)
		if len(wp) == 0 || wp[0].Set || len(wp[0].ASNs) == 0 || wp[0].ASNs[0] != s.LocalASN || !c09SameASPath(wp, want) {
			return "", fmt.Sprintf("eBGP (not RS client): AS_PATH on the wire %s, want %s", dxAttrs{ASPath: wp}.asPathString(), dxAttrs{ASPath: want}.asPathString())
		}
		if len(u.NextHop) != 4 || uint32(u.NextHop[0])<<24|uint32(u.NextHop[1])<<16|uint32(u.NextHop[2])<<8|uint32(u.NextHop[3]) != s.LocalIP {
			return "", fmt.Sprintf("eBGP (not RS client): NEXT_HOP on the wire %v, want the local address %s", u.NextHop, dxIP(s.LocalIP))
		}
	}
	if s.rsClient() {
		if !c09SameASPath(o.dump.ASPath, base.ASPath) || !c09SameASPath(c09WireASPath(u), base.ASPath) {
			return "", fmt.Sprintf("route server client: AS path changed: stored %s, wire %s, Loc-RIB %s", o.dump.asPathString(), dxAttrs{ASPath: c09WireASPath(u)}.asPathString(), base.asPathString())
		}
		if o.dump.NH != base.NH {
			return "", fmt.Sprintf("route server client: next hop changed from %s to %s", dxIP(base.NH), dxIP(o.dump.NH))
		}
	}
	if s.rrClient() && learnedIBGP {
		if o.dump.OrigID == 0 || (a.OrigID != 0 && o.dump.OrigID != a.OrigID) {
			return "", fmt.Sprintf("reflected route: stored ORIGINATOR_ID %d (Loc-RIB had %d)", o.dump.OrigID, a.OrigID)
		}
		if len(o.dump.Cluster) != len(a.Cluster)+1 || o.dump.Cluster[0] != s.Cluster || fmt.Sprint(o.dump.Cluster[1:]) != fmt.Sprint(append([]uint32{}, a.Cluster...)) {
			return "", fmt.Sprintf("reflected route: stored CLUSTER_LIST %v, want local cluster id %d followed by %v", o.dump.Cluster, s.Cluster, a.Cluster)
		}
		if u.OriginatorID == nil || *u.OriginatorID != o.dump.OrigID {
			return "", fmt.Sprintf("reflected route: ORIGINATOR_ID on the wire %v, stored %d", u.OriginatorID, o.dump.OrigID)
		}
		if !u.HasCluster || len(u.ClusterList) == 0 || u.ClusterList[0] != s.Cluster || fmt.Sprint(u.ClusterList) != fmt.Sprint(o.dump.Cluster) {
			return "", fmt.Sprintf("reflected route: CLUSTER_LIST on the wire %v, want %v", u.ClusterList, o.dump.Cluster)
		}
	}
	// LOCAL_PREF only to iBGP peers (RFC 4271 §5.1.5)
	if (u.LocalPref != nil) != s.ibgp() {
		return "", fmt.Sprintf("LOCAL_PREF on the wire: %v, session is iBGP: %v", u.LocalPref != nil, s.ibgp())
	}
	if u.LocalPref != nil && *u.LocalPref != o.dump.LP {
		return "", fmt.Sprintf("LOCAL_PREF on the wire %d, stored %d", *u.LocalPref, o.dump.LP)
	}
	// communities that forbid the advertisement never appear on the wire
	if c09Has(u.Communities, dxCommNoAdvertise) || (!s.ibgp() && c09Has(u.Communities, dxCommNoExport)) {
		return "", fmt.Sprintf("communities on the wire %x", u.Communities)
	}
	// ---- OTC (RFC 9234 §5 egress), table then wire
	if s.roleKnown() {
		toAdd := dxRoleIn(s.RoleRemote, packet.PeerRoleRoleCustomer, packet.PeerRoleRolePeer, packet.PeerRoleRoleRSClient)
		wantOTC := base.OTC
		if wantOTC == 0 && toAdd {
			wantOTC = s.LocalASN
		}
		if o.dump.OTC != wantOTC {
			return "", fmt.Sprintf("stored OTC %d, want %d (remote role %d, Loc-RIB OTC %d)", o.dump.OTC, wantOTC, s.RoleRemote, base.OTC)
		}
		if wantOTC == 0 && u.OTC != nil {
			return "", fmt.Sprintf("OTC %d on the wire towards remote role %d", *u.OTC, s.RoleRemote)
		}
		if wantOTC != 0 && (u.OTC == nil || *u.OTC != wantOTC) {
			return c09SigOTCWire, fmt.Sprintf("OTC must be on the wire with value %d (remote role %d), the UPDATE carries OTC=%v; attribute types on the wire: %v", wantOTC, s.RoleRemote, u.OTC, c09Types(u))
		}
	}
	return "", ""
}

func c09Types(u *kit.WUpdate) []uint8 {
	var out []uint8
	for _, a := range u.Attrs {
		out = append(out, a.Type)
	}
	return out
}

// c09Export runs the real code for one path.
func c09Export(a dxAttrs, s dxSession, pfx *bnet.Prefix, asn4 bool) (c09Out, string) {
	var o c09Out
	aro := New(nil, s.attrs(), dxPolicy(nil).chain(nil))
	rec := newDxRecorder(s.AddPathN > 0)
	aro.Register(rec)
	in := dxReal(a)
	if err := aro.AddPath(pfx, in); err != nil {
		return o, fmt.Sprintf("AddPath returned %v", err)
	}
	dump := aro.Dump()
	switch {
	case len(dump) == 0:
		if len(rec.events) != 0 {
			return o, fmt.Sprintf("nothing stored but the client was told %v", rec.events[0])
		}
		return o, ""
	case len(dump) > 1 || len(dump[0].Paths()) != 1:
		return o, fmt.Sprintf("one AddPath produced %d routes", len(dump))
	}
	o.exported = true
	o.stored = dump[0].Paths()[0]
	o.dump = dxFromReal(o.stored)
	if len(rec.events) != 1 || !rec.events[0].Add || rec.events[0].Obj != o.stored {
		return o, fmt.Sprintf("client events %v do not announce the stored path", rec.events)
	}
	raw, err := c09Wire(o.stored, pfx, s, asn4)
	if err != nil {
		return o, fmt.Sprintf("the UPDATE for the stored path can not be built: %v", err)
	}
	o.raw = raw
	typ, body, perr := kit.ParseHeader(raw)
	if perr != nil || typ != kit.MsgUpdate {
		return o, fmt.Sprintf("serialized UPDATE has a bad header: %v (% x)", perr, raw)
	}
	u, perr := kit.ParseUpdate(body, kit.WOpts{AddPath4: s.AddPathN > 0, ASN4: asn4})
	if perr != nil {
		return o, fmt.Sprintf("serialized UPDATE does not parse: %v (% x)", perr, raw)
	}
	if len(u.NLRI) != 1 {
		return o, fmt.Sprintf("serialized UPDATE carries %d NLRI", len(u.NLRI))
	}
	o.wire = u
	return o, ""
}

func c09Case(t *rapid.T, c *kit.Case, rec *kit.Recorder) {
	s := dxGenSession(t, "s", true)
	asn4 := rapid.Bool().Draw(t, "asn4")
	var a dxAttrs
	if rapid.IntRange(0, 7).Draw(t, "static") == 0 {
		a = dxGenStatic(t, "st")
	} else {
		a = dxGenBGP(t, "p", dxGenOpts{Extras: true})
		// bias the source towards the session's own peer and the session's AS relation
		if rapid.IntRange(0, 4).Draw(t, "ownpeer") == 0 {
			a.Src = s.PeerIP
			if a.EBGP == s.ibgp() { // the peer's kind differs from the drawn source: rebuild the AS path head
				a.EBGP = !s.ibgp()
				a.OrigID, a.Cluster = 0, nil
				if a.EBGP {
					a.ASPath = append([]dxSeg{{ASNs: []uint32{s.PeerASN}}}, a.ASPath...)
				}
			} else if a.EBGP {
				a.ASPath[0].ASNs[0] = s.PeerASN
			}
		}
	}
	if !a.Static && len(a.ASPath) > 0 && !a.ASPath[0].Set && rapid.IntRange(0, 11).Draw(t, "longseg") == 0 {
		// leading AS_SEQUENCE at the segment size limit (255 ASNs): prepending must open a new segment
		want := rapid.SampledFrom([]int{253, 254, 255}).Draw(t, "longseg_len")
		for len(a.ASPath[0].ASNs) < want {
			a.ASPath[0].ASNs = append(a.ASPath[0].ASNs, uint32(64900+len(a.ASPath[0].ASNs)%50))
		}
		c.Class("leading_segment_253_255")
	}
	if a.HasAggr {
		// packet.serializeAggregator always writes the 6-byte (2-octet AS) form; with
		// 4-octet AS numbers negotiated that is malformed (RFC 6793 §4.2.3) and the
		// strict parser rejects the UPDATE. Well-formedness is C17's subject, not a
		// clause of C09, so AGGREGATOR is only combined with the 2-octet encoding.
		asn4 = false
	}
	bits, pfxs := dxGenUniverse(t, 1)
	c.Logf("session %v asn4=%v", s, asn4)
	c.Logf("path %v %v", bits[0], a)
	c.Class(dxKindNames[s.Kind])
	c.ClassIf(a.Static, "static")
	c.ClassIf(s.roleKnown(), "role_negotiated")
	c.ClassIf(s.RoleOn && !s.RoleAdv, "role_not_negotiated")
	c.ClassIf(s.AddPathN > 0, "add_path")
	must := s.Kind == dxEBGP || s.rrClient() || s.ibgp() || (s.roleKnown() && dxRoleIn(s.RoleRemote, packet.PeerRoleRoleCustomer, packet.PeerRoleRolePeer, packet.PeerRoleRoleRSClient))
	never := !a.Static && (a.hasComm(dxCommNoExport) || a.hasComm(dxCommNoAdvertise) || a.Src == s.PeerIP || !a.EBGP || a.OTC != 0)
	c.NonTrivialIf(must && never)

	var o c09Out
	var msg string
	if pm := dxGuard(func() { o, msg = c09Export(a, s, pfxs[0], asn4) }); pm != "" {
		msg = pm + " while exporting / serializing the route"
	}
	c.ClassIf(o.exported, "exported")
	c.ClassIf(!o.exported, "not_exported")
	if msg == "" {
		var sig string
		sig, msg = c09Judge(a, s, o)
		if msg != "" && sig != "" && rec.Known(sig) {
			c.Class("known_otc_not_on_wire")
			return
		}
	}
	if msg != "" {
		t.Fatalf("%s\n%s", msg, c.String())
	}
}

func TestVerifC09ExportRules(t *testing.T) {
	rec := kit.NewRecorder(t, "C09", c09Rule)
	rapid.Check(t, func(t *rapid.T) {
		c := rec.Case()
		defer c.Done()
		c09Case(t, c, rec)
	})
}

// TestVerifC09WitnessOTCNotOnWire: witness of finding C09/otc-not-on-wire.
// A route without OTC exported to a customer gets OTC = local AS in the
// Adj-RIB-Out (RFC 9234 §5 egress rule 1), but the UPDATE built for it carries
// no attribute 35.
func TestVerifC09WitnessOTCNotOnWire(t *testing.T) {
	s := dxSession{Kind: dxEBGP, LocalASN: dxLocalASN, PeerASN: 64601, LocalIP: dxLocalIP, PeerIP: dxPeers[2].IP, Cluster: dxClusterID, RouterID: dxRouterID,
		RoleOn: true, RoleAdv: true, RoleLocal: packet.PeerRoleRoleProvider, RoleRemote: packet.PeerRoleRoleCustomer}
	a := dxAttrs{Src: dxPeers[3].IP, NH: dxPeers[3].IP, EBGP: true, LP: 100, ASPath: []dxSeg{{ASNs: []uint32{64602}}}}
	pfx := bnet.NewPfx(bnet.IPv4FromOctets(10, 0, 0, 0), 8).Ptr()
	o, msg := c09Export(a, s, pfx, true)
	if msg != "" || !o.exported {
		t.Fatalf("setup: %s exported=%v", msg, o.exported)
	}
	if o.dump.OTC != dxLocalASN {
		t.Fatalf("stored OTC = %d, want %d", o.dump.OTC, dxLocalASN)
	}
	if o.wire.OTC == nil || *o.wire.OTC != dxLocalASN {
		t.Fatalf("route to a customer: Adj-RIB-Out has OTC=%d but the UPDATE carries no OTC attribute (types on the wire: %v)", o.dump.OTC, c09Types(o.wire))
	}
}

//go:build verif

package adjRIBOut

// C08 — Adj-RIB-Out equals the export view of the Loc-RIB.
//
// Stateful machine: a real locRIB.LocRIB with one real AdjRIBOut registered the
// way fsmAddressFamily.init does (BestOnly or MaxPaths N), a recording client
// on the Adj-RIB-Out (where the update sender sits), and a generated history
// of Loc-RIB changes. After every step (all calls are sequential, so every
// step is a quiescent point) and for every prefix of the universe:
//
//	Adj-RIB-Out paths  ==  { export(p) | p in the first n paths of the Loc-RIB route, export admits p }
//	recorder's view    ==  the same set
//
// export = dxExportPolicy (reference, common_exportrig_d_test.go). Paths are
// compared by attribute value, path identifiers ignored.

import (
	"fmt"
	"sort"
	"testing"

	bnet "github.com/bio-routing/bio-rd/net"
	"github.com/bio-routing/bio-rd/route"
	"github.com/bio-routing/bio-rd/routingtable/locRIB"
	"pgregory.net/rapid"
	kit "verifkit"
)

const c08Rule = "history of Loc-RIB operations (add BGP path from 5 neighbours incl. the session's own peer, add static path, remove, replace with one attribute changed → best-path flips / ECMP changes) over 3-4 related IPv4 prefixes x session kind (eBGP, eBGP RS-client, iBGP, iBGP RR-client, optional RFC 9234 role) x add-path send (best only, N=1..3) x export policy (accept-all or 1-2 filters of 1-3 terms: prefix conditions, set MED/LOCAL_PREF/next hop, prepend, accept/reject), Adj-RIB-Out registered before or in the middle of the history. Non-trivial: the history withdraws a selected path whose exported form differs from its Loc-RIB form (or a static path), or an add changes the selected set of a prefix that already had one."

type c08Entry struct {
	attrs dxAttrs
	obj   *route.Path
}

type c08Exp struct {
	attrs dxAttrs
	mask  dxMask
	from  dxAttrs
}

type c08Rig struct {
	s        dxSession
	pol      dxPolicy
	bits     []kit.Bits
	pfxs     []*bnet.Prefix
	rib      *locRIB.LocRIB
	aro      *AdjRIBOut
	rec      *dxRecorder
	model    [][]c08Entry
	byObj    map[*route.Path]dxAttrs
	attached bool
}

func newC08Rig(t *rapid.T, s dxSession, pol dxPolicy, bits []kit.Bits, pfxs []*bnet.Prefix) *c08Rig {
	r := &c08Rig{s: s, pol: pol, bits: bits, pfxs: pfxs, byObj: map[*route.Path]dxAttrs{}}
	r.rib = locRIB.New("c08")
	r.aro = New(r.rib, s.attrs(), pol.chain(pfxs))
	r.rec = newDxRecorder(s.AddPathN > 0)
	r.aro.Register(r.rec)
	r.model = make([][]c08Entry, len(pfxs))
	return r
}

func (r *c08Rig) attach() {
	r.rib.RegisterWithOptions(r.aro, r.s.clientOptions())
	r.attached = true
}

func (r *c08Rig) add(i int, a dxAttrs) {
	obj := dxReal(a)
	r.model[i] = append(r.model[i], c08Entry{attrs: a, obj: obj})
	r.byObj[obj] = a
	r.rib.AddPath(r.pfxs[i], obj)
}

// remove withdraws entry k of prefix i the way an Adj-RIB-In does: with a
// path equal to the stored one (a fresh copy made by the import filter chain).
func (r *c08Rig) remove(i, k int, sameObj bool) {
	e := r.model[i][k]
	r.model[i] = append(append([]c08Entry{}, r.model[i][:k]...), r.model[i][k+1:]...)
	obj := e.obj
	if !sameObj {
		obj = dxReal(e.attrs)
	}
	r.rib.RemovePath(r.pfxs[i], obj)
}

// selected returns the generated attributes of the first n Loc-RIB paths of
// prefix i (n per the session's add-path setting), in Loc-RIB order.
func (r *c08Rig) selected(i int) ([]dxAttrs, string) {
	rt := r.rib.Get(r.pfxs[i])
	if rt == nil {
		return nil, ""
	}
	ps := rt.Paths()
	n := 1
	if r.s.AddPathN > 0 {
		n = r.s.AddPathN
	}
	if n > len(ps) {
		n = len(ps)
	}
	var out []dxAttrs
	for _, p := range ps[:n] {
		a, ok := r.byObj[p]
		if !ok {
			return nil, fmt.Sprintf("harness: Loc-RIB holds a path object for %s the harness did not add: %s", r.pfxs[i], dxDeep(p))
		}
		out = append(out, a)
	}
	return out, ""
}

func (r *c08Rig) expected(i int) ([]c08Exp, string) {
	sel, msg := r.selected(i)
	if msg != "" {
		return nil, msg
	}
	var out []c08Exp
	for _, a := range sel {
		e, ok, m := dxExportPolicy(a, r.s, r.pol, i)
		if ok {
			out = append(out, c08Exp{attrs: e, mask: m, from: a})
		}
	}
	return out, ""
}

// c08Match compares an expected list with an observed list as sets of
// attribute values under the per-path masks.
func c08Match(exp []c08Exp, got []dxAttrs) string {
	used := make([]bool, len(got))
	var missing []string
	for _, e := range exp {
		found := false
		for j, g := range got {
			if g.canon(e.mask) == e.attrs.canon(e.mask) {
				used[j] = true
				found = true
			}
		}
		if !found {
			missing = append(missing, fmt.Sprintf("      missing  %s\n               (export of Loc-RIB path %s)", e.attrs.canon(e.mask), e.from.canon(dxMask{})))
		}
	}
	var extra []string
	for j, g := range got {
		if !used[j] {
			extra = append(extra, "      surplus  "+g.canon(dxMask{}))
		}
	}
	if len(missing)+len(extra) == 0 {
		return ""
	}
	sort.Strings(missing)
	sort.Strings(extra)
	s := ""
	for _, m := range append(missing, extra...) {
		s += "\n" + m
	}
	return s
}

// check compares Adj-RIB-Out and recorder view with the export view.
func (r *c08Rig) check() string {
	if !r.attached {
		if n := r.aro.RouteCount(); n != 0 {
			return fmt.Sprintf("Adj-RIB-Out holds %d routes before it was registered with the Loc-RIB", n)
		}
		return ""
	}
	nonEmpty := 0
	for i, pfx := range r.pfxs {
		exp, msg := r.expected(i)
		if msg != "" {
			return msg
		}
		if len(exp) > 0 {
			nonEmpty++
		}
		var got []dxAttrs
		if rt := r.aro.Get(pfx); rt != nil {
			for _, p := range rt.Paths() {
				if p.Type != route.BGPPathType || p.BGPPath == nil || p.BGPPath.BGPPathA == nil {
					return fmt.Sprintf("%s: Adj-RIB-Out stores a path that is not a complete BGP path: %s", pfx, dxDeep(p))
				}
				got = append(got, dxFromReal(p))
			}
		}
		if d := c08Match(exp, got); d != "" {
			return fmt.Sprintf("%s: Adj-RIB-Out differs from the export view of the Loc-RIB:%s", pfx, d)
		}
		var view []dxAttrs
		for _, a := range r.rec.view[pfx.String()] {
			view = append(view, a)
		}
		if d := c08Match(exp, view); d != "" {
			return fmt.Sprintf("%s: what the Adj-RIB-Out told its client (announcements minus withdrawals) differs from the export view of the Loc-RIB:%s", pfx, d)
		}
	}
	dump := r.aro.Dump()
	seen := map[string]bool{}
	for _, rt := range dump {
		k := rt.Prefix().String()
		if seen[k] {
			return fmt.Sprintf("Dump lists %s twice", k)
		}
		seen[k] = true
		if len(rt.Paths()) == 0 {
			return fmt.Sprintf("Dump lists %s without paths", k)
		}
	}
	if len(dump) != nonEmpty || int(r.aro.RouteCount()) != nonEmpty {
		return fmt.Sprintf("Adj-RIB-Out has %d routes in Dump and RouteCount %d, the export view has %d prefixes", len(dump), r.aro.RouteCount(), nonEmpty)
	}
	return ""
}

// c08Mutate changes one attribute of a so that preference or ECMP membership
// or just the identity of the path changes.
func c08Mutate(t *rapid.T, a dxAttrs) (dxAttrs, string) {
	b := a.clone()
	if a.Static {
		b.NH = 0xc0000280 + (a.NH+1)%4
		return b, "static-nh"
	}
	switch rapid.IntRange(0, 6).Draw(t, "mut") {
	case 0:
		b.LP = a.LP + 10
		return b, "lp+"
	case 1:
		if a.LP >= 10 {
			b.LP = a.LP - 10
		} else {
			b.LP = a.LP + 1
		}
		return b, "lp-"
	case 2:
		b.MED = a.MED + 1
		return b, "med+"
	case 3:
		b.NH = a.NH ^ 1
		return b, "nh"
	case 4:
		if len(a.Comms) > 0 {
			b.Comms = nil
		} else {
			b.Comms = []uint32{rapid.SampledFrom([]uint32{0xfde80009, dxCommNoExport, dxCommNoAdvertise}).Draw(t, "mutcomm")}
		}
		return b, "comm"
	case 5:
		if a.OTC != 0 {
			b.OTC = 0
		} else {
			b.OTC = 64700
		}
		return b, "otc"
	default:
		b.Origin = (a.Origin + 1) % 3
		return b, "origin"
	}
}

func c08Run(t *rapid.T, c *kit.Case, maxSteps int) {
	s := dxGenSession(t, "s", false)
	bits, pfxs := dxGenUniverse(t, rapid.IntRange(2, 4).Draw(t, "npfx"))
	pol := dxGenPolicy(t, "pol", len(pfxs), s)
	rig := newC08Rig(t, s, pol, bits, pfxs)
	steps := rapid.IntRange(1, maxSteps).Draw(t, "steps")
	attachAt := 0
	if rapid.IntRange(0, 3).Draw(t, "late") == 0 {
		attachAt = rapid.IntRange(1, steps).Draw(t, "attach_at")
	}
	c.Logf("session %v", s)
	c.Logf("policy %v", pol)
	c.Logf("universe %v attach_at=%d", bits, attachAt)
	c.Class(dxKindNames[s.Kind])
	c.ClassIf(s.AddPathN == 0, "best_only")
	c.ClassIf(s.AddPathN > 0, "add_path")
	c.ClassIf(s.roleKnown(), "role_negotiated")
	c.ClassIf(!pol.trivial(), "with_policy")
	c.ClassIf(attachAt > 0, "late_registration")

	fail := func(step int, what, msg string) {
		t.Fatalf("after step %d (%s):\n  %s\nsession: %v\npolicy: %v", step, what, msg, s, pol)
	}

	if attachAt == 0 {
		rig.attach()
	}
	genOpts := dxGenOpts{Extras: true}
	for step := 1; step <= steps; step++ {
		i := rapid.IntRange(0, len(pfxs)-1).Draw(t, "pfx")
		hasStatic, hasBGP := false, false
		for _, e := range rig.model[i] {
			if e.attrs.Static {
				hasStatic = true
			} else {
				hasBGP = true
			}
		}
		before, _ := rig.selected(i)
		var what string
		op := rapid.IntRange(0, 9).Draw(t, "op")
		if len(rig.model[i]) == 0 {
			op = 0
		}
		wantStatic := hasStatic || (!hasBGP && rapid.IntRange(0, 3).Draw(t, "static") == 0)
		msg := dxGuard(func() {
			switch {
			case op <= 4:
				// add a new path (never mixing static and BGP paths under one prefix:
				// route.Path.ECMP dereferences the BGP part of a static path — that is
				// path selection's business, property C02/C04, and would crash here first)
				var a dxAttrs
				for try := 0; ; try++ {
					switch {
					case wantStatic:
						a = dxGenStatic(t, "st")
					case len(rig.model[i]) > 0 && rapid.Bool().Draw(t, "derive"):
						base := rig.model[i][rapid.IntRange(0, len(rig.model[i])-1).Draw(t, "base")].attrs
						a, _ = c08Mutate(t, base)
						if rapid.Bool().Draw(t, "othersrc") {
							peer := dxPeers[rapid.IntRange(0, len(dxPeers)-1).Draw(t, "osrc")]
							if peer.EBGP == a.EBGP {
								a.Src = peer.IP
								if a.EBGP {
									a.ASPath[0].ASNs[0] = peer.ASN
								}
							}
						}
					default:
						a = dxGenBGP(t, "bgp", genOpts)
					}
					dup := false
					for _, e := range rig.model[i] {
						if dxCompareKey(e.attrs) == dxCompareKey(a) {
							dup = true
						}
					}
					if !dup {
						break
					}
					if try == 5 {
						what = "skip (duplicate)"
						return
					}
				}
				what = fmt.Sprintf("add %v %v", bits[i], a)
				rig.add(i, a)
			case op <= 6:
				// replace: withdraw + announce with one attribute changed (implicit
				// replace as an Adj-RIB-In forwards it)
				k := rapid.IntRange(0, len(rig.model[i])-1).Draw(t, "victim")
				old := rig.model[i][k].attrs
				nw, how := c08Mutate(t, old)
				for _, e := range rig.model[i] {
					if dxCompareKey(e.attrs) == dxCompareKey(nw) {
						what = "skip (duplicate)"
						return
					}
				}
				what = fmt.Sprintf("replace(%s) %v %v -> %v", how, bits[i], old, nw)
				c08NoteWithdraw(c, rig, i, old)
				rig.remove(i, k, rapid.Bool().Draw(t, "sameobj"))
				rig.add(i, nw)
			default:
				k := rapid.IntRange(0, len(rig.model[i])-1).Draw(t, "victim")
				old := rig.model[i][k].attrs
				what = fmt.Sprintf("remove %v %v", bits[i], old)
				c08NoteWithdraw(c, rig, i, old)
				rig.remove(i, k, rapid.Bool().Draw(t, "sameobj"))
			}
		})
		c.Logf("%d %s", step, what)
		if msg != "" {
			fail(step, what, msg)
		}
		if step == attachAt {
			if m := dxGuard(rig.attach); m != "" {
				fail(step, "register Adj-RIB-Out with the Loc-RIB", m)
			}
			c.Logf("%d attach", step)
		}
		after, hm := rig.selected(i)
		if hm != "" {
			fail(step, what, hm)
		}
		if rig.attached && len(before) > 0 && len(after) > 0 && fmt.Sprint(before) != fmt.Sprint(after) {
			c.Class("selection_changed")
			c.NonTrivial()
		}
		var cm string
		if m := dxGuard(func() { cm = rig.check() }); m != "" {
			cm = m
		}
		if cm != "" {
			fail(step, what, cm)
		}
	}
}

// c08NoteWithdraw classifies a withdrawal for the evidence.
func c08NoteWithdraw(c *kit.Case, rig *c08Rig, i int, old dxAttrs) {
	if !rig.attached {
		return
	}
	sel, _ := rig.selected(i)
	inSel := false
	for _, a := range sel {
		if dxCompareKey(a) == dxCompareKey(old) {
			inSel = true
		}
	}
	if !inSel {
		return
	}
	e, ok, m := dxExportPolicy(old, rig.s, rig.pol, i)
	if !ok {
		c.Class("withdraw_unexported")
		return
	}
	if old.Static {
		c.Class("withdraw_static")
		c.NonTrivial()
		return
	}
	if e.canon(m) != old.canon(m) {
		c.Class("withdraw_rewritten")
		c.NonTrivial()
	} else {
		c.Class("withdraw_unchanged")
	}
}

func TestVerifC08ExportView(t *testing.T) {
	rec := kit.NewRecorder(t, "C08", c08Rule)
	maxSteps := kit.Scale(12, 30)
	rapid.Check(t, func(t *rapid.T) {
		c := rec.Case()
		defer c.Done()
		c08Run(t, c, maxSteps)
	})
}

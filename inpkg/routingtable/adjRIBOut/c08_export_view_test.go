//go:build verif

package adjRIBOut

// C08 — Adj-RIB-Out equals the export view of the Loc-RIB.
//
// Stateful machine: a real locRIB.LocRIB with one real AdjRIBOut registered the
// way fsmAddressFamily.init does (BestOnly or MaxPaths N), a recording client
// on the Adj-RIB-Out (where the update sender sits), and a generated history
// of Loc-RIB changes. After every step (all calls are sequential, so every
// step is a quiescent point) and for every prefix of the universe:
//
//	Adj-RIB-Out paths  ==  { export(p) | p in the first n paths of the Loc-RIB route, export admits p }
//	recorder's view    ==  the same set
//
// export = dxExportPolicy (reference, common_exportrig_d_test.go). Paths are
// compared by attribute value, path identifiers ignored.

import (
	"fmt"
	"sort"
	"testing"

	bnet "github.com/bio-routing/bio-rd/net"
	"github.com/bio-routing/bio-rd/route"
	"github.com/bio-routing/bio-rd/routingtable/locRIB"
	"pgregory.net/rapid"
	kit "verifkit"
)

const c08Rule = "history of Loc-RIB operations (add BGP path from 5 neighbours incl. the session's own peer, add static path, remove, replace with one attribute changed → best-path flips / ECMP changes) over 3-4 related IPv4 prefixes x session kind (eBGP, eBGP RS-client, iBGP, iBGP RR-client, optional RFC 9234 role) x add-path send (best only, N=1..3) x export policy (accept-all or 1-2 filters of 1-3 terms: prefix conditions, set MED/LOCAL_PREF/next hop, prepend, accept/reject), Adj-RIB-Out registered before or in the middle of the history, export policy replaced 0-2 times during the history. Non-trivial: the history withdraws a selected path whose exported form differs from its Loc-RIB form (or a static path), or an add changes the selected set of a prefix that already had one."

type c08Entry struct {
	attrs dxAttrs
	obj   *route.Path
}

type c08Exp struct {
	attrs dxAttrs
	mask  dxMask
	from  dxAttrs
}

type c08Rig struct {
	s        dxSession
	pol      dxPolicy
	bits     []kit.Bits
	pfxs     []*bnet.Prefix
	rib      *locRIB.LocRIB
	aro      *AdjRIBOut
	rec      *dxRecorder
	model    [][]c08Entry
	byObj    map[*route.Path]dxAttrs
	attached bool
	// wiped[i]: with add-path send, a rule-excluded path entered the selected
	// set of prefix i (known finding c08SigWipe may have removed its siblings)
	wiped []bool
	sig   string // signature of the last mismatch reported by check, if it has one
}

func newC08Rig(t *rapid.T, s dxSession, pol dxPolicy, bits []kit.Bits, pfxs []*bnet.Prefix) *c08Rig {
	r := &c08Rig{s: s, pol: pol, bits: bits, pfxs: pfxs, byObj: map[*route.Path]dxAttrs{}}
	r.rib = locRIB.New("c08")
	r.aro = New(r.rib, s.attrs(), pol.chain(pfxs))
	r.rec = newDxRecorder(s.AddPathN > 0)
	r.aro.Register(r.rec)
	r.model = make([][]c08Entry, len(pfxs))
	r.wiped = make([]bool, len(pfxs))
	return r
}

func (r *c08Rig) attach() {
	r.rib.RegisterWithOptions(r.aro, r.s.clientOptions())
	r.attached = true
	for i := range r.pfxs {
		r.noteWipe(i, nil)
	}
}

// noteWipe marks prefix i when a rule-excluded path is in the selected set now
// and was not in `before`.
func (r *c08Rig) noteWipe(i int, before []dxAttrs) {
	if r.s.AddPathN == 0 || !r.attached {
		return
	}
	sel, _ := r.selected(i)
	for _, a := range sel {
		if !dxRuleBlocked(a, r.s) {
			continue
		}
		old := false
		for _, b := range before {
			if dxCompareKey(a) == dxCompareKey(b) {
				old = true
			}
		}
		if !old {
			r.wiped[i] = true
		}
	}
}

func (r *c08Rig) add(i int, a dxAttrs) {
	obj := dxReal(a)
	r.model[i] = append(r.model[i], c08Entry{attrs: a, obj: obj})
	r.byObj[obj] = a
	r.rib.AddPath(r.pfxs[i], obj)
}

// remove withdraws the path with attributes a from prefix i the way an
// Adj-RIB-In does: with a path equal to the stored one (usually a fresh copy
// made by the import filter chain).
func (r *c08Rig) remove(i int, a dxAttrs, sameObj bool) {
	k := -1
	for j, e := range r.model[i] {
		if dxCompareKey(e.attrs) == dxCompareKey(a) {
			k = j
		}
	}
	if k < 0 {
		panic("harness: removing a path the model does not hold")
	}
	e := r.model[i][k]
	r.model[i] = append(append([]c08Entry{}, r.model[i][:k]...), r.model[i][k+1:]...)
	obj := e.obj
	if !sameObj {
		obj = dxReal(e.attrs)
	}
	r.rib.RemovePath(r.pfxs[i], obj)
}

// selected returns the generated attributes of the first n Loc-RIB paths of
// prefix i (n per the session's add-path setting), in Loc-RIB order.
func (r *c08Rig) selected(i int) ([]dxAttrs, string) {
	rt := r.rib.Get(r.pfxs[i])
	if rt == nil {
		return nil, ""
	}
	ps := rt.Paths()
	n := 1
	if r.s.AddPathN > 0 {
		n = r.s.AddPathN
	}
	if n > len(ps) {
		n = len(ps)
	}
	var out []dxAttrs
	for _, p := range ps[:n] {
		a, ok := r.byObj[p]
		if !ok {
			return nil, fmt.Sprintf("harness: Loc-RIB holds a path object for %s the harness did not add: %s", r.pfxs[i], dxDeep(p))
		}
		out = append(out, a)
	}
	return out, ""
}

func (r *c08Rig) expected(i int) ([]c08Exp, string) {
	sel, msg := r.selected(i)
	if msg != "" {
		return nil, msg
	}
	var out []c08Exp
	for _, a := range sel {
		e, ok, m := dxExportPolicy(a, r.s, r.pol, i)
		if ok {
			out = append(out, c08Exp{attrs: e, mask: m, from: a})
		}
	}
	return out, ""
}

// c08Match compares an expected list with an observed list as sets of
// attribute values under the per-path masks.
func c08Match(exp []c08Exp, got []dxAttrs) (missing, extra []string) {
	used := make([]bool, len(got))
	for _, e := range exp {
		found := false
		for j, g := range got {
			if g.canon(e.mask) == e.attrs.canon(e.mask) {
				used[j] = true
				found = true
			}
		}
		if !found {
			missing = append(missing, fmt.Sprintf("      missing  %s\n               (export of Loc-RIB path %s)", e.attrs.canon(e.mask), e.from.canon(dxMask{})))
		}
	}
	for j, g := range got {
		if !used[j] {
			extra = append(extra, "      surplus  "+g.canon(dxMask{}))
		}
	}
	sort.Strings(missing)
	sort.Strings(extra)
	return missing, extra
}

func c08Join(missing, extra []string) string {
	s := ""
	for _, m := range append(append([]string{}, missing...), extra...) {
		s += "\n" + m
	}
	return s
}

// c08SigWipe: known finding. With add-path send, AddPath() of a path that the
// propagation rules exclude (learned from this very peer, NO_ADVERTISE,
// NO_EXPORT towards eBGP) removes every other path of the prefix from the
// Adj-RIB-Out (checkPropagateUpdate -> removePathsForPrefix); pinned by the
// repo's TestAddPathIBGP "Add 4th path ... NO_ADVERTISE".
const c08SigWipe = "C08/addpath-wipe-on-unexportable"

// dxRuleBlocked: the propagation rules (not the policy) exclude a.
func dxRuleBlocked(a dxAttrs, s dxSession) bool {
	if a.Static {
		return false
	}
	return a.Src == s.PeerIP || a.hasComm(dxCommNoAdvertise) || (a.hasComm(dxCommNoExport) && !s.ibgp())
}

// check compares Adj-RIB-Out and recorder view with the export view.
func (r *c08Rig) check() string {
	if !r.attached {
		if n := r.aro.RouteCount(); n != 0 {
			return fmt.Sprintf("Adj-RIB-Out holds %d routes before it was registered with the Loc-RIB", n)
		}
		return ""
	}
	nonEmpty := 0
	for i, pfx := range r.pfxs {
		exp, msg := r.expected(i)
		if msg != "" {
			return msg
		}
		if len(exp) > 0 {
			nonEmpty++
		}
		var got []dxAttrs
		if rt := r.aro.Get(pfx); rt != nil {
			for _, p := range rt.Paths() {
				if p.Type != route.BGPPathType || p.BGPPath == nil || p.BGPPath.BGPPathA == nil {
					return fmt.Sprintf("%s: Adj-RIB-Out stores a path that is not a complete BGP path: %s", pfx, dxDeep(p))
				}
				got = append(got, dxFromReal(p))
			}
		}
		if miss, extra := c08Match(exp, got); len(miss)+len(extra) > 0 {
			if len(extra) == 0 && r.wiped[i] {
				r.sig = c08SigWipe
			}
			return fmt.Sprintf("%s: Adj-RIB-Out differs from the export view of the Loc-RIB:%s", pfx, c08Join(miss, extra))
		}
		var view []dxAttrs
		for _, a := range r.rec.view[pfx.String()] {
			view = append(view, a)
		}
		if miss, extra := c08Match(exp, view); len(miss)+len(extra) > 0 {
			return fmt.Sprintf("%s: what the Adj-RIB-Out told its client (announcements minus withdrawals) differs from the export view of the Loc-RIB:%s", pfx, c08Join(miss, extra))
		}
	}
	dump := r.aro.Dump()
	seen := map[string]bool{}
	for _, rt := range dump {
		k := rt.Prefix().String()
		if seen[k] {
			return fmt.Sprintf("Dump lists %s twice", k)
		}
		seen[k] = true
		if len(rt.Paths()) == 0 {
			return fmt.Sprintf("Dump lists %s without paths", k)
		}
	}
	if len(dump) != nonEmpty || int(r.aro.RouteCount()) != nonEmpty {
		return fmt.Sprintf("Adj-RIB-Out has %d routes in Dump and RouteCount %d, the export view has %d prefixes", len(dump), r.aro.RouteCount(), nonEmpty)
	}
	return ""
}

func c08Run(t *rapid.T, c *kit.Case, rec *kit.Recorder, maxSteps int) {
	s := dxGenSession(t, "s", false)
	bits, pfxs := dxGenUniverse(t, rapid.IntRange(2, 4).Draw(t, "npfx"))
	pol := dxGenPolicy(t, "pol", len(pfxs), s)
	rig := newC08Rig(t, s, pol, bits, pfxs)
	steps := rapid.IntRange(1, maxSteps).Draw(t, "steps")
	attachAt := 0
	if rapid.IntRange(0, 3).Draw(t, "late") == 0 {
		attachAt = rapid.IntRange(1, steps).Draw(t, "attach_at")
	}
	// export policy replacements at up to two steps of the history (what a configuration reload does to a
	// running session): the Adj-RIB-Out must equal the export view under the new policy from then on
	replaceAt := map[int]dxPolicy{}
	for k, n := 0, rapid.SampledFrom([]int{0, 0, 1, 2}).Draw(t, "nreplace"); k < n; k++ {
		replaceAt[rapid.IntRange(1, steps).Draw(t, "replace_at")] = dxGenPolicy(t, fmt.Sprintf("pol_r%d", k), len(pfxs), s)
	}
	h := newDxHist(t, len(pfxs), dxGenOpts{Extras: true})
	c.Logf("session %v", s)
	c.Logf("policy %v", pol)
	c.Logf("universe %v attach_at=%d addpath_rx=%v", bits, attachAt, h.rxList())
	c.Class(dxKindNames[s.Kind])
	c.ClassIf(s.AddPathN == 0, "best_only")
	c.ClassIf(s.AddPathN > 0, "add_path")
	c.ClassIf(s.roleKnown(), "role_negotiated")
	c.ClassIf(!pol.trivial(), "with_policy")
	c.ClassIf(attachAt > 0, "late_registration")

	fail := func(step int, what, msg string) {
		t.Fatalf("after step %d (%s):\n  %s\nhistory:\n%s", step, what, msg, c.String())
	}

	if attachAt == 0 {
		rig.attach()
	}
	for step := 1; step <= steps; step++ {
		ops := h.next()
		for _, op := range ops {
			i := op.Pfx
			before, _ := rig.selected(i)
			what := op.String(bits)
			c.Logf("%d %s", step, what)
			msg := dxGuard(func() {
				if op.Add {
					rig.add(i, op.Attrs)
				} else {
					c08NoteWithdraw(c, rig, i, op.Attrs)
					rig.remove(i, op.Attrs, op.SameObj)
				}
			})
			if msg != "" {
				fail(step, what, msg)
			}
			after, hm := rig.selected(i)
			if hm != "" {
				fail(step, what, hm)
			}
			rig.noteWipe(i, before)
			if rig.attached && op.Add && len(before) > 0 && fmt.Sprint(before) != fmt.Sprint(after) {
				c.Class("selection_changed")
				c.NonTrivial()
			}
			var cm string
			if m := dxGuard(func() { cm = rig.check() }); m != "" {
				cm = m
			}
			if cm != "" && rig.sig == c08SigWipe && rec.Known(c08SigWipe) {
				c.Class("known_addpath_wipe")
				return
			}
			if cm != "" {
				fail(step, what, cm)
			}
		}
		if np, ok := replaceAt[step]; ok && rig.attached {
			c.Logf("%d replace export policy by %v", step, np)
			c.Class("export_policy_replaced")
			var cm string
			if m := dxGuard(func() { rig.aro.ReplaceFilterChain(np.chain(pfxs)); rig.pol = np; cm = rig.check() }); m != "" {
				cm = m
			}
			if cm != "" && rig.sig == c08SigWipe && rec.Known(c08SigWipe) {
				c.Class("known_addpath_wipe")
				return
			}
			if cm != "" {
				fail(step, "ReplaceFilterChain (export policy)", cm)
			}
		}
		if step == attachAt {
			c.Logf("%d attach", step)
			var cm string
			if m := dxGuard(func() { rig.attach(); cm = rig.check() }); m != "" {
				cm = m
			}
			if cm != "" && rig.sig == c08SigWipe && rec.Known(c08SigWipe) {
				c.Class("known_addpath_wipe")
				return
			}
			if cm != "" {
				fail(step, "register Adj-RIB-Out with the Loc-RIB", cm)
			}
		}
	}
}

// c08NoteWithdraw classifies a withdrawal for the evidence.
func c08NoteWithdraw(c *kit.Case, rig *c08Rig, i int, old dxAttrs) {
	if !rig.attached {
		return
	}
	sel, _ := rig.selected(i)
	inSel := false
	for _, a := range sel {
		if dxCompareKey(a) == dxCompareKey(old) {
			inSel = true
		}
	}
	if !inSel {
		return
	}
	e, ok, m := dxExportPolicy(old, rig.s, rig.pol, i)
	if !ok {
		c.Class("withdraw_unexported")
		return
	}
	if old.Static {
		c.Class("withdraw_static")
		c.NonTrivial()
		return
	}
	if e.canon(m) != old.canon(m) {
		c.Class("withdraw_rewritten")
		c.NonTrivial()
	} else {
		c.Class("withdraw_unchanged")
	}
}

func TestVerifC08ExportView(t *testing.T) {
	rec := kit.NewRecorder(t, "C08", c08Rule)
	maxSteps := kit.Scale(12, 30)
	rapid.Check(t, func(t *rapid.T) {
		c := rec.Case()
		defer c.Done()
		c08Run(t, c, rec, maxSteps)
	})
}

// TestVerifC08WitnessAddPathWipe is the witness of finding
// C08/addpath-wipe-on-unexportable: it fails while the defect is present.
func TestVerifC08WitnessAddPathWipe(t *testing.T) {
	s := dxSession{Kind: dxIBGP, AddPathN: 2, LocalASN: dxLocalASN, PeerASN: dxLocalASN, LocalIP: dxLocalIP, PeerIP: dxPeers[0].IP, Cluster: dxClusterID, RouterID: dxRouterID}
	pfx := bnet.NewPfx(bnet.IPv4FromOctets(10, 0, 0, 0), 8).Ptr()
	rib := locRIB.New("c08w")
	aro := New(rib, s.attrs(), dxPolicy(nil).chain(nil))
	rib.RegisterWithOptions(aro, s.clientOptions())
	good := dxAttrs{Src: dxPeers[2].IP, NH: dxPeers[2].IP, EBGP: true, LP: 200, ASPath: []dxSeg{{ASNs: []uint32{64601}}}}
	blocked := dxAttrs{Src: dxPeers[3].IP, NH: dxPeers[3].IP, EBGP: true, LP: 100, ASPath: []dxSeg{{ASNs: []uint32{64602}}}, Comms: []uint32{dxCommNoAdvertise}}
	rib.AddPath(pfx, dxReal(good))
	if r := aro.Get(pfx); r == nil || len(r.Paths()) != 1 {
		t.Fatalf("setup: the exportable path was not advertised")
	}
	rib.AddPath(pfx, dxReal(blocked))
	r := aro.Get(pfx)
	if r == nil || len(r.Paths()) != 1 {
		t.Fatalf("after adding a second, NO_ADVERTISE path to the Loc-RIB the Adj-RIB-Out (add-path 2) no longer holds the first path, which the Loc-RIB still selects: %v", aro.Dump())
	}
}

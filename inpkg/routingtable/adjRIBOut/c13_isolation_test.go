//go:build verif

package adjRIBOut

// C13 — tables are isolated: exporting a route never alters stored routes.
//
// Rig: untracked VRF with an IPv4 Loc-RIB, two Adj-RIB-Ins (an iBGP and an
// eBGP neighbour, registered towards the Loc-RIB as fsmAddressFamily.init
// does), static routes added to the Loc-RIB directly, and two or three
// Adj-RIB-Outs (eBGP with prepend/next-hop-self, iBGP route-reflector client,
// later a generated third one), each with a generated export policy and a
// recording client.
//
// Oracle:
//   - around every EXPORT-SIDE operation on session j (ReplaceFilterChain =
//     refresh, re-registration with a fresh Adj-RIB-Out, registration of a new
//     session) the deep canonical snapshots (every attribute value, AS path
//     contents, path identifier, cached AS path length, bookkeeping fields) of
//     the Loc-RIB, both Adj-RIB-Ins and every OTHER Adj-RIB-Out are identical
//     before and after;
//   - around EVERY operation (also Loc-RIB changing ones, which fan out to all
//     sessions' export code) every path OBJECT that was stored in any table
//     before the operation still has the value it had (no table hands its
//     stored objects to code that rewrites them in place, also not through
//     shared attribute blocks).

import (
	"fmt"
	"testing"

	bnet "github.com/bio-routing/bio-rd/net"
	"github.com/bio-routing/bio-rd/protocols/bgp/packet"
	"github.com/bio-routing/bio-rd/route"
	"github.com/bio-routing/bio-rd/routingtable"
	"github.com/bio-routing/bio-rd/routingtable/adjRIBIn"
	"github.com/bio-routing/bio-rd/routingtable/filter"
	"github.com/bio-routing/bio-rd/routingtable/locRIB"
	"github.com/bio-routing/bio-rd/routingtable/vrf"
	"pgregory.net/rapid"
	kit "verifkit"
)

const c13Rule = "history over 3 related IPv4 prefixes: announcements (1-2 NLRI sharing the attribute objects of one UPDATE, as the FSM builds them) and withdrawals through two Adj-RIB-Ins (iBGP, eBGP), static routes, and export-side operations on 2-3 Adj-RIB-Outs (eBGP prepend/next-hop-self, RR client, generated third; best-only or add-path; generated export policies incl. AS-path prepend): ReplaceFilterChain, re-registration with a fresh Adj-RIB-Out, registration of a new session. Non-trivial: an export-side operation on a session while the Loc-RIB holds a route whose exported form for that session differs from its stored form."

type c13Out struct {
	s   dxSession
	pol dxPolicy
	aro *AdjRIBOut
	rec *dxRecorder
}

type c13Rig struct {
	pfxs  []*bnet.Prefix
	bits  []kit.Bits
	v     *vrf.VRF
	rib   *locRIB.LocRIB
	ins   [2]*adjRIBIn.AdjRIBIn
	inSrc [2]dxPeer
	outs  []*c13Out
	// what each Adj-RIB-In peer currently announces per prefix (by value)
	announced [2]map[int]dxAttrs
	statics   map[int][]dxAttrs
	// registry: every path object that was seen stored in a table (at an
	// operation boundary or when an Adj-RIB-Out announced it to its client) with
	// the value it had then. Stored objects are immutable; checked at every
	// client event (i.e. between the export code of one session and the next
	// inside a single Loc-RIB event) and at every operation boundary.
	registry map[*route.Path]c13Obj
	mutated  string
	// per Adj-RIB-Out: the session negotiated 4-octet ASNs (option the update sender serializes with)
	asn4       [3]bool
	serialized int
}

// verifyRegistry records the first stored object whose value changed.
func (r *c13Rig) verifyRegistry(when string) {
	if r.mutated != "" {
		return
	}
	for p, b := range r.registry {
		if now := dxDeep(p); now != b.val {
			r.mutated = fmt.Sprintf("a path object stored in %s was modified in place (noticed %s):\n  before %s\n  after  %s", b.where, when, b.val, now)
			return
		}
	}
}

func (r *c13Rig) hookFor(j int) func(bool, *bnet.Prefix, *route.Path) {
	return func(add bool, pfx *bnet.Prefix, p *route.Path) {
		r.verifyRegistry(fmt.Sprintf("when adj-rib-out#%d told its client about %s", j, pfx))
		if add {
			if _, ok := r.registry[p]; !ok {
				r.registry[p] = c13Obj{where: fmt.Sprintf("adj-rib-out#%d %s", j, pfx), val: dxDeep(p)}
			}
			// the client of a session's Adj-RIB-Out is its update sender: it turns the
			// path into path attributes and serializes them with the session's options
			if p.BGPPath != nil && j < len(r.outs) {
				sa := r.outs[j].s.attrs()
				if pa, err := packet.PathAttributes(p, sa.IBGP, sa.RouteReflectorClient); err == nil {
					u := &packet.BGPUpdate{PathAttributes: pa, NLRI: &packet.NLRI{Prefix: pfx}}
					u.SerializeUpdate(&packet.EncodeOptions{Use32BitASN: r.asn4[j%len(r.asn4)], UseAddPath: r.outs[j].s.AddPathN > 0})
					r.serialized++
				}
				r.verifyRegistry(fmt.Sprintf("when the update sender of adj-rib-out#%d serialized %s (4-octet ASNs: %v)", j, pfx, r.asn4[j%len(r.asn4)]))
			}
		}
	}
}

func c13InAttrs(p dxPeer) routingtable.SessionAttrs {
	return routingtable.SessionAttrs{
		RouterID: dxRouterID,
		PeerIP:   bnet.IPv4(p.IP).Dedup(),
		LocalIP:  bnet.IPv4(dxLocalIP).Dedup(),
		Type:     route.BGPPathType,
		IBGP:     !p.EBGP,
		LocalASN: dxLocalASN,
		PeerASN:  p.ASN,
	}
}

func newC13Rig(bits []kit.Bits, pfxs []*bnet.Prefix) *c13Rig {
	r := &c13Rig{pfxs: pfxs, bits: bits, statics: map[int][]dxAttrs{}, registry: map[*route.Path]c13Obj{}}
	r.v = vrf.NewUntrackedVRF("c13", 0)
	r.rib, _ = r.v.CreateIPv4UnicastLocRIB("inet.0")
	r.v.AddContributingASN(dxLocalASN)
	r.inSrc = [2]dxPeer{dxPeers[0], dxPeers[2]}
	for k := range r.ins {
		r.ins[k] = adjRIBIn.New(filter.NewAcceptAllFilterChain(), r.v, c13InAttrs(r.inSrc[k]))
		r.ins[k].Register(r.rib)
		r.announced[k] = map[int]dxAttrs{}
	}
	return r
}

func (r *c13Rig) addOut(s dxSession, pol dxPolicy) *c13Out {
	o := &c13Out{s: s, pol: pol}
	o.aro = New(r.rib, s.attrs(), pol.chain(r.pfxs))
	o.rec = newDxRecorder(s.AddPathN > 0)
	o.rec.hook = r.hookFor(len(r.outs))
	o.aro.Register(o.rec)
	r.outs = append(r.outs, o)
	r.rib.RegisterWithOptions(o.aro, s.clientOptions())
	return o
}

type c13Table struct {
	name string
	dump func() []*route.Route
}

func (r *c13Rig) tables() []c13Table {
	t := []c13Table{
		{"loc-rib", r.rib.Dump},
		{"adj-rib-in(ibgp " + dxIP(r.inSrc[0].IP) + ")", r.ins[0].Dump},
		{"adj-rib-in(ebgp " + dxIP(r.inSrc[1].IP) + ")", r.ins[1].Dump},
	}
	for j, o := range r.outs {
		t = append(t, c13Table{fmt.Sprintf("adj-rib-out#%d(%s)", j, dxKindNames[o.s.Kind]), o.aro.Dump})
	}
	return t
}

// snapTables: table name -> deep snapshot lines.
func (r *c13Rig) snapTables() map[string][]string {
	out := map[string][]string{}
	for _, t := range r.tables() {
		out[t.name] = dxDeepTable(t.dump())
	}
	return out
}

type c13Obj struct {
	where string
	val   string
}

// snapObjects: every stored path object -> where it is stored and its deep value.
func (r *c13Rig) snapObjects() map[*route.Path]c13Obj {
	out := map[*route.Path]c13Obj{}
	for _, t := range r.tables() {
		for _, rt := range t.dump() {
			for _, p := range rt.Paths() {
				if _, ok := out[p]; !ok {
					out[p] = c13Obj{where: t.name + " " + rt.Prefix().String(), val: dxDeep(p)}
				}
			}
		}
	}
	return out
}

// sharedPaths builds n path objects for the NLRI of one UPDATE the way
// fsmAddressFamily.updates/processAttributes do: a fresh Path/BGPPath/BGPPathA
// per NLRI, the decoded attribute objects (AS path, communities, cluster list,
// unknown attribute values) shared between them.
func c13SharedPaths(a dxAttrs, n int) []*route.Path {
	first := dxReal(a)
	out := []*route.Path{first}
	for i := 1; i < n; i++ {
		ba := *first.BGPPath.BGPPathA
		bp := *first.BGPPath
		bp.BGPPathA = &ba
		out = append(out, &route.Path{Type: route.BGPPathType, BGPPath: &bp})
	}
	return out
}

func c13Run(t *rapid.T, c *kit.Case, rec *kit.Recorder, maxSteps int) {
	bits, pfxs := dxGenUniverse(t, 3)
	rig := newC13Rig(bits, pfxs)
	for j := range rig.asn4 {
		rig.asn4[j] = rapid.Bool().Draw(t, fmt.Sprintf("asn4_%d", j))
	}
	s0 := dxSession{Kind: dxEBGP, LocalASN: dxLocalASN, PeerASN: dxPeers[3].ASN, LocalIP: dxLocalIP, PeerIP: dxPeers[3].IP, Cluster: dxClusterID, RouterID: dxRouterID}
	s1 := dxSession{Kind: dxIBGPRRClient, LocalASN: dxLocalASN, PeerASN: dxLocalASN, LocalIP: dxLocalIP, PeerIP: dxPeers[1].IP, Cluster: dxClusterID, RouterID: dxRouterID}
	s0.AddPathN = rapid.SampledFrom([]int{0, 0, 2}).Draw(t, "ap0")
	s1.AddPathN = rapid.SampledFrom([]int{0, 0, 2}).Draw(t, "ap1")
	if rapid.Bool().Draw(t, "role0") {
		s0.RoleOn, s0.RoleAdv, s0.RoleLocal, s0.RoleRemote = true, true, 0, 3 // we are provider, peer is customer: OTC added
	}
	c.Logf("universe %v", bits)
	rig.addOut(s0, dxGenPolicy(t, "pol0", len(pfxs), s0))
	rig.addOut(s1, dxGenPolicy(t, "pol1", len(pfxs), s1))
	for j, o := range rig.outs {
		c.Logf("out#%d %v policy %v", j, o.s, o.pol)
	}
	thirdDone := false
	steps := rapid.IntRange(2, maxSteps).Draw(t, "steps")

	fail := func(what, msg string) {
		t.Fatalf("%s:\n%s\nhistory:\n%s", what, msg, c.String())
	}

	// differs: session o would advertise some Loc-RIB path in a form that
	// differs from the stored one
	differs := func(o *c13Out) bool {
		for _, rt := range rig.rib.Dump() {
			for _, p := range rt.Paths() {
				a := dxFromReal(p)
				e, ok, m := dxExport(a, o.s)
				if ok && (a.Static || e.canon(m) != a.canon(m)) {
					return true
				}
			}
		}
		return false
	}
	for step := 1; step <= steps; step++ {
		op := rapid.IntRange(0, 11).Draw(t, "op")
		var what string
		exportSide := -1 // index of the session an export-side op works on
		var run func()
		switch {
		case op <= 3: // announcement through an Adj-RIB-In
			k := rapid.IntRange(0, 1).Draw(t, "in")
			a := dxGenBGP(t, "p", dxGenOpts{Extras: true, BigASNs: true})
			peer := rig.inSrc[k]
			a.Src, a.RxPathID = peer.IP, 0
			if a.EBGP != peer.EBGP {
				a.EBGP = peer.EBGP
				if peer.EBGP {
					a.OrigID, a.Cluster = 0, nil
					a.ASPath = append([]dxSeg{{ASNs: []uint32{peer.ASN}}}, a.ASPath...)
				}
			} else if peer.EBGP {
				a.ASPath[0].ASNs[0] = peer.ASN
			}
			n := rapid.IntRange(1, 2).Draw(t, "nlri")
			first := rapid.IntRange(0, len(pfxs)-1).Draw(t, "pfx")
			mixed := false
			for x := 0; x < n; x++ {
				mixed = mixed || len(rig.statics[(first+x)%len(pfxs)]) > 0
			}
			if mixed {
				continue // never BGP paths under a prefix that has static paths (route.Path.ECMP, see C08 notes)
			}
			objs := c13SharedPaths(a, n)
			what = fmt.Sprintf("announce from %s %d NLRI starting at %v: %v", dxIP(peer.IP), n, bits[first], a)
			run = func() {
				for x := 0; x < n; x++ {
					i := (first + x) % len(pfxs)
					rig.ins[k].AddPath(pfxs[i], objs[x])
					rig.announced[k][i] = a
				}
			}
		case op == 4: // withdrawal through an Adj-RIB-In
			k := rapid.IntRange(0, 1).Draw(t, "in")
			i := rapid.IntRange(0, len(pfxs)-1).Draw(t, "pfx")
			what = fmt.Sprintf("withdraw from %s %v", dxIP(rig.inSrc[k].IP), bits[i])
			run = func() {
				rig.ins[k].RemovePath(pfxs[i], &route.Path{Type: route.BGPPathType, BGPPath: &route.BGPPath{}})
				delete(rig.announced[k], i)
			}
		case op == 5: // static route
			i := rapid.IntRange(0, len(pfxs)-1).Draw(t, "pfx")
			// never under a prefix that has BGP paths (route.Path.ECMP, see C08 notes)
			if _, ok := rig.announced[0][i]; ok {
				continue
			}
			if _, ok := rig.announced[1][i]; ok {
				continue
			}
			if len(rig.statics[i]) > 0 && rapid.Bool().Draw(t, "rmstatic") {
				a := rig.statics[i][0]
				rig.statics[i] = rig.statics[i][1:]
				what = fmt.Sprintf("remove static %v %v", bits[i], a)
				run = func() { rig.rib.RemovePath(pfxs[i], dxReal(a)) }
			} else {
				a := dxGenStatic(t, "st")
				dup := false
				for _, e := range rig.statics[i] {
					dup = dup || e.NH == a.NH
				}
				if dup {
					continue
				}
				rig.statics[i] = append(rig.statics[i], a)
				what = fmt.Sprintf("add static %v %v", bits[i], a)
				run = func() { rig.rib.AddPath(pfxs[i], dxReal(a)) }
			}
		case op <= 8: // export policy replacement = refresh
			j := rapid.IntRange(0, len(rig.outs)-1).Draw(t, "out")
			o := rig.outs[j]
			np := dxGenPolicy(t, "newpol", len(pfxs), o.s)
			what = fmt.Sprintf("out#%d ReplaceFilterChain %v", j, np)
			exportSide = j
			run = func() {
				o.aro.ReplaceFilterChain(np.chain(pfxs))
				o.pol = np
			}
		case op <= 10: // session flap: fresh Adj-RIB-Out for session j
			j := rapid.IntRange(0, len(rig.outs)-1).Draw(t, "out")
			o := rig.outs[j]
			what = fmt.Sprintf("out#%d re-register with a fresh Adj-RIB-Out", j)
			exportSide = j
			run = func() {
				rig.rib.Unregister(o.aro)
				o.aro = New(rig.rib, o.s.attrs(), o.pol.chain(pfxs))
				o.rec = newDxRecorder(o.s.AddPathN > 0)
				o.rec.hook = rig.hookFor(j)
				o.aro.Register(o.rec)
				rig.rib.RegisterWithOptions(o.aro, o.s.clientOptions())
			}
		default: // a new session appears
			if thirdDone {
				continue
			}
			thirdDone = true
			s2 := dxGenSession(t, "s2", false)
			p2 := dxGenPolicy(t, "pol2", len(pfxs), s2)
			what = fmt.Sprintf("register out#2 %v policy %v", s2, p2)
			exportSide = len(rig.outs)
			run = func() { rig.addOut(s2, p2) }
		}
		c.Logf("%d %s", step, what)
		if exportSide >= 0 && exportSide < len(rig.outs) {
			o := rig.outs[exportSide]
			if differs(o) {
				c.Class("export_op_with_rewritten_route")
				c.NonTrivial()
			}
			c.ClassIf(o.s.AddPathN > 0 && op <= 8 && c13RuleBlockedSelected(rig, o), "refresh_addpath_with_rule_blocked_path")
		}
		skipName := ""
		if exportSide >= 0 && exportSide < len(rig.outs) {
			skipName = rig.tables()[3+exportSide].name
		}
		beforeT := rig.snapTables()
		beforeO := rig.snapObjects()
		if msg := dxGuard(run); msg != "" {
			fail(what, msg)
		}
		// stored objects keep their value
		for p, b := range beforeO {
			if _, ok := rig.registry[p]; !ok {
				rig.registry[p] = b
			}
		}
		rig.verifyRegistry("after the operation")
		if rig.mutated != "" {
			fail(what, rig.mutated)
		}
		// forget objects no table holds any more (keeps the registry small)
		live := rig.snapObjects()
		for p := range rig.registry {
			if _, ok := live[p]; !ok {
				delete(rig.registry, p)
			}
		}
		for p, b := range live {
			if _, ok := rig.registry[p]; !ok {
				rig.registry[p] = b
			}
		}
		if exportSide >= 0 {
			afterT := rig.snapTables()
			for name, b := range beforeT {
				if name == skipName {
					continue // the table operated on
				}
				if a := afterT[name]; !dxEqStrings(a, b) {
					fail(what, fmt.Sprintf("%s changed although the operation concerns another session:%s", name, dxDiff(b, a)))
				}
			}
		}
	}
}

// c13RuleBlockedSelected: some path the Loc-RIB would hand to o on refresh is
// excluded by the propagation rules.
func c13RuleBlockedSelected(rig *c13Rig, o *c13Out) bool {
	for _, rt := range rig.rib.Dump() {
		ps := rt.Paths()
		n := o.s.AddPathN
		if n > len(ps) {
			n = len(ps)
		}
		for _, p := range ps[:n] {
			if dxRuleBlocked(dxFromReal(p), o.s) {
				return true
			}
		}
	}
	return false
}

func TestVerifC13Isolation(t *testing.T) {
	rec := kit.NewRecorder(t, "C13", c13Rule)
	maxSteps := kit.Scale(14, 30)
	rapid.Check(t, func(t *rapid.T) {
		c := rec.Case()
		defer c.Done()
		c13Run(t, c, rec, maxSteps)
	})
}
